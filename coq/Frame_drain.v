(* Frame_drain.v -- C04, the end of a connection: what arrived complete before the peer closed is
   delivered; an unfinished message at the end of the stream is not; and from every state of a
   pipeline there is a continuation that hands everything over (nothing can be wedged or lost in a
   channel), at the end of which the consumer holds exactly what was sent. *)
From Coq Require Import List Arith Lia.
From SF Require Import Bytes Bytes_proofs Frame Frame_proofs.
Import ListNotations.
Open Scope nat_scope.

(* ---- the reader at end of stream ---- *)

(* an unfinished message: complete segments none of which opens the trailer, then bytes without a
   delimiter (possibly none) *)
Definition unfinished (segs : list bytes) (partial : bytes) : Prop :=
  Forall (fun s => is_segment s /\ starts_end_tag s = false) segs
  /\ Forall (fun b => b <> SOH) partial.

Lemma feed_no_soh : forall partial st,
  Forall (fun b => b <> SOH) partial ->
  feed_chunk st partial = ({| r_seg := r_seg st ++ partial; r_msg := r_msg st |}, []).
Proof.
  induction partial as [|x partial IH]; intros st H.
  - cbn [feed_chunk]. rewrite app_nil_r. destruct st; reflexivity.
  - inversion H as [|? ? Hx H']; subst. cbn [feed_chunk]. unfold feed_byte.
    destruct (N.eqb_spec x SOH); [contradiction|].
    rewrite (IH _ H'). cbn [r_seg r_msg]. rewrite <- app_assoc. reflexivity.
Qed.

Lemma feed_unfinished segs partial : forall acc,
  unfinished segs partial ->
  snd (feed_chunk {| r_seg := []; r_msg := acc |} (concat segs ++ partial)) = [].
Proof.
  induction segs as [|s segs IH]; intros acc [Hs Hp].
  - cbn [concat app]. rewrite (feed_no_soh _ _ Hp). reflexivity.
  - inversion Hs as [|? ? [Hseg Hn] Hs']; subst. destruct Hseg as (b & Eb & Hb). subst s.
    cbn [concat]. rewrite <- app_assoc. rewrite feed_chunk_app.
    rewrite feed_segment; [|exact Hb|reflexivity]. cbv zeta. rewrite Hn.
    specialize (IH (acc ++ b ++ [SOH]) (conj Hs' Hp)). cbn [r_msg].
    destruct (feed_chunk _ (concat segs ++ partial)) as [st2 d2]. cbn [snd] in *. rewrite IH. reflexivity.
Qed.

(* the stream ends (the peer closes, the connection breaks) in the middle of a message: the reader has
   delivered exactly the messages that arrived complete, for every way of cutting the stream into reads *)
Theorem deliver_exact_then_eof :
  forall (msgs : list (list bytes * bytes)) segs partial (chunks : list bytes),
    Forall (fun m => wf_message (fst m) (snd m)) msgs ->
    unfinished segs partial ->
    concat chunks = concat (map (fun m => concat (fst m) ++ snd m) msgs) ++ concat segs ++ partial ->
    deliver chunks = map (fun m => concat (fst m) ++ snd m) msgs.
Proof.
  intros msgs segs partial chunks Hw Hu Hc. unfold deliver. rewrite feed_chunks_concat, Hc.
  rewrite feed_chunk_app.
  assert (G : feed_chunk r_init (concat (map (fun m => concat (fst m) ++ snd m) msgs))
              = (r_init, map (fun m => concat (fst m) ++ snd m) msgs)).
  { pose proof (deliver_exact msgs [concat (map (fun m => concat (fst m) ++ snd m) msgs)] Hw) as D.
    unfold deliver in D. cbn [feed_chunks concat] in D. rewrite app_nil_r in D. specialize (D eq_refl).
    clear Hc Hu. induction msgs as [|[sg l] msgs IH]; [reflexivity|].
    inversion Hw as [|? ? Hm Hw']; subst. cbn [map concat fst snd].
    rewrite feed_chunk_app. change r_init with {| r_seg := []; r_msg := [] |} at 1.
    rewrite (feed_message sg l [] Hm).
    assert (D' : snd (let '(st1, d1) := feed_chunk r_init (concat (map (fun m => concat (fst m) ++ snd m) msgs)) in
                      let '(st2, d2) := feed_chunks st1 [] in (st2, d1 ++ d2)) =
                 map (fun m => concat (fst m) ++ snd m) msgs).
    { pose proof (deliver_exact msgs [concat (map (fun m => concat (fst m) ++ snd m) msgs)] Hw') as D2.
      unfold deliver in D2. cbn [feed_chunks concat] in D2. rewrite app_nil_r in D2. exact (D2 eq_refl). }
    rewrite (IH Hw' D'). reflexivity. }
  rewrite G. pose proof (feed_unfinished segs partial [] Hu) as U. change r_init with {| r_seg := []; r_msg := [] |}.
  destruct (feed_chunk {| r_seg := []; r_msg := [] |} (concat segs ++ partial)) as [st2 d2]. cbn [snd] in *. subst d2.
  rewrite app_nil_r. reflexivity.
Qed.

(* ---- the pipeline at the end of a connection ---- *)

Definition quiescent (p : pipe) : Prop := p_todo p = [] /\ in_flight (p_stages p) = [].

(* once nothing is left to hand in and nothing is in flight, the consumer holds exactly what was sent *)
Theorem quiescent_complete sent p : pipe_inv sent p -> quiescent p -> p_done p = sent.
Proof. unfold pipe_inv, quiescent. intros H [T F]. rewrite T, F in H. cbn [app] in H. rewrite app_nil_r in H. exact H. Qed.

(* distance to delivery: a message in stage i of n has n - i hand-offs to go, one not yet handed in n + 1 *)
Fixpoint wt (st : list (list bytes)) : nat :=
  match st with
  | [] => 0
  | q :: r => length q * S (length r) + wt r
  end.

Definition weight (p : pipe) : nat := length (p_todo p) * S (length (p_stages p)) + wt (p_stages p).

Fixpoint total (st : list (list bytes)) : nat :=
  match st with [] => 0 | q :: r => length q + total r end.

Lemma wt_snoc l q : wt (l ++ [q]) = wt l + total l + length q.
Proof.
  induction l as [|a l IH]; cbn [app wt total length]; [lia|].
  rewrite IH, app_length. cbn [length]. nia.
Qed.

Lemma shift_length i : forall st, length (shift i st) = length st.
Proof.
  induction i as [|i IH]; intros [|q r]; cbn [shift]; try reflexivity.
  - destruct q as [|m q']; [reflexivity|]. destruct r as [|q2 r']; reflexivity.
  - cbn [length]. rewrite IH. reflexivity.
Qed.

Lemma step_length p mv : length (p_stages (pipe_step p mv)) = length (p_stages p).
Proof.
  destruct mv as [|i|]; cbn [pipe_step].
  - destruct (p_todo p) as [|m t]; [reflexivity|]. destruct (p_stages p) as [|q r] eqn:S; [rewrite S; reflexivity|reflexivity].
  - cbn [p_stages]. apply shift_length.
  - destruct (rev (p_stages p)) as [|[|m q'] r] eqn:R; try reflexivity.
    cbn [p_stages]. rewrite rev_length. rewrite <- (rev_length (p_stages p)), R. reflexivity.
Qed.

(* some stage holds a message: either a forwarding goroutine can move one on, or the consumer can take one *)
Lemma stages_progress : forall st, 0 < wt st ->
  (exists i, wt (shift i st) + 1 = wt st) \/ (exists m q' r, rev st = (m :: q') :: r).
Proof.
  induction st as [|q r IH]; intro H; cbn [wt] in H; [lia|].
  destruct r as [|q2 r'].
  - destruct q as [|m q']; [cbn in H; lia|]. right. exists m, q', []. reflexivity.
  - destruct q as [|m q'].
    + cbn [length Nat.mul Nat.add] in H. destruct (IH H) as [[i Hi]|(m & q' & r0 & Hr)].
      * left. exists (S i). cbn [shift wt length Nat.mul Nat.add]. rewrite ?shift_length. exact Hi.
      * right. exists m, q', (r0 ++ [[]]). cbn [rev] in *. rewrite Hr. reflexivity.
    + left. exists 0. cbn [shift wt length]. rewrite app_length. cbn [length]. nia.
Qed.

(* while something is undelivered and there is at least one stage, some hand-off brings it closer *)
Lemma progress p : p_stages p <> [] -> 0 < weight p -> exists mv, weight (pipe_step p mv) + 1 = weight p.
Proof.
  intros Hn Hw. unfold weight in *.
  destruct (Nat.eq_dec (wt (p_stages p)) 0) as [Z|NZ].
  - (* everything still to be handed in *)
    destruct (p_todo p) as [|m t] eqn:T; [cbn in Hw; lia|]. destruct (p_stages p) as [|q r] eqn:S; [contradiction|].
    exists MPush. cbn [pipe_step]. rewrite T, S. cbn [p_todo p_stages wt length] in *. rewrite app_length. cbn [length]. nia.
  - destruct (stages_progress (p_stages p)) as [[i Hi]|(m & q' & r & Hr)]; [lia| |].
    + exists (MShift i). cbn [pipe_step p_todo p_stages]. rewrite shift_length. lia.
    + exists MPop. cbn [pipe_step]. rewrite Hr. cbn [p_todo p_stages].
      rewrite rev_length. cbn [length].
      assert (E : p_stages p = rev r ++ [m :: q']).
      { rewrite <- (rev_involutive (p_stages p)), Hr. reflexivity. }
      rewrite E. cbn [rev]. rewrite !wt_snoc, app_length, rev_length. cbn [length]. lia.
Qed.

Lemma wt_zero_empty : forall st, wt st = 0 -> in_flight st = [].
Proof.
  induction st as [|q r IH]; intro H; [reflexivity|]. cbn [wt] in H.
  rewrite in_flight_cons. destruct q; [|cbn in H; lia]. rewrite IH; [reflexivity|lia].
Qed.

Lemma weight_zero_quiescent p : weight p = 0 -> quiescent p.
Proof.
  unfold weight, quiescent. intro H. split.
  - destruct (p_todo p); [reflexivity|cbn in H; lia].
  - apply wt_zero_empty. lia.
Qed.

(* from every state of a pipeline with at least one stage there is a continuation after which nothing
   is left to hand in and nothing is in flight: no schedule can wedge a message in a channel *)
Theorem drain_exists p : p_stages p <> [] -> exists sched, quiescent (fold_left pipe_step sched p).
Proof.
  remember (weight p) as w eqn:W. revert p W. induction w as [|w IH]; intros p W Hn.
  - exists []. apply weight_zero_quiescent. symmetry. exact W.
  - destruct (progress p Hn) as [mv Hmv]; [lia|].
    destruct (IH (pipe_step p mv)) as [sched Hs]; [lia| |].
    + intro E. apply Hn. apply length_zero_iff_nil. rewrite <- (step_length p mv), E. reflexivity.
    + exists (mv :: sched). exact Hs.
Qed.

(* whatever has happened so far (any schedule), the run can be continued so that the consumer ends up
   holding exactly what was sent: every message that entered the pipeline before the end of the
   connection can still be handed to the handler, each once, in order, whole *)
Theorem everything_sent_can_be_delivered sent sched p :
  pipe_inv sent p -> p_stages p <> [] ->
  exists more, p_done (fold_left pipe_step (sched ++ more) p) = sent.
Proof.
  intros Hi Hn. set (p1 := fold_left pipe_step sched p).
  assert (Hn1 : p_stages p1 <> []).
  { intro E. apply Hn. apply length_zero_iff_nil.
    assert (L : forall s q, length (p_stages (fold_left pipe_step s q)) = length (p_stages q)).
    { induction s as [|mv s IHs]; intro q; [reflexivity|]. cbn [fold_left]. rewrite IHs. apply step_length. }
    rewrite <- (L sched p). fold p1. rewrite E. reflexivity. }
  destruct (drain_exists p1 Hn1) as [more Hq]. exists more. rewrite fold_left_app. fold p1.
  apply quiescent_complete; [|exact Hq]. apply pipe_run_inv. apply pipe_run_inv. exact Hi.
Qed.

(* non-vacuity: three messages, two stages, a schedule that has moved one message half-way *)
Example drain_example :
  let p0 := {| p_todo := [[1%N]; [2%N]; [3%N]]; p_stages := [[]; []]; p_done := [] |} in
  let p1 := fold_left pipe_step [MPush; MShift 0; MPush] p0 in
  p_stages p1 = [[[2%N]]; [[1%N]]] /\
  p_done (fold_left pipe_step [MPop; MShift 0; MPop; MPush; MShift 0; MPop] p1) = [[1%N]; [2%N]; [3%N]].
Proof. vm_compute. split; reflexivity. Qed.

(* ---- the outbound byte stream ---- *)

(* nothing fails: the stream is the hand-offs, whole, in hand-off order *)
Theorem writer_complete msgs : writer msgs None = concat msgs.
Proof. induction msgs as [|m r IH]; cbn [writer concat]; [reflexivity|]. rewrite IH. reflexivity. Qed.

(* a write fails part-way: every earlier hand-off is on the wire whole and in order, then the bytes the
   transport took of the failing one, then nothing *)
Theorem writer_failed : forall msgs k keep,
  k < length msgs ->
  writer msgs (Some (k, keep)) = concat (firstn k msgs) ++ firstn keep (nth k msgs []).
Proof.
  induction msgs as [|m r IH]; intros k keep Hk; cbn [length] in Hk; [lia|].
  destruct k as [|k]; cbn [writer firstn concat nth app]; [reflexivity|].
  rewrite IH by lia. rewrite app_assoc. reflexivity.
Qed.

(* in every case the outbound stream is a prefix of the hand-offs in order: no hand-off is interleaved
   with another, repeated, or written behind a torn one *)
Theorem writer_prefix : forall msgs f, exists rest, concat msgs = writer msgs f ++ rest.
Proof.
  induction msgs as [|m r IH]; intro f; cbn [writer concat]; [exists []; reflexivity|].
  destruct f as [[[|k] keep]|].
  - exists (skipn keep m ++ concat r). rewrite app_assoc, firstn_skipn. reflexivity.
  - destruct (IH (Some (k, keep))) as [rest E]. exists rest. rewrite E, app_assoc. reflexivity.
  - destruct (IH None) as [rest E]. exists rest. rewrite E, app_assoc. reflexivity.
Qed.

Example writer_example :
  writer [[1%N; 2%N]; [3%N; 4%N; 5%N]; [6%N]] (Some (1, 2)) = [1%N; 2%N; 3%N; 4%N].
Proof. reflexivity. Qed.
