(* Gen_proofs.v -- what the generator model guarantees for every schema it accepts. *)
From Coq Require Import String List Bool Arith NArith Lia.
From SF Require Import Bytes Bytes_proofs Gen.
Import ListNotations.
Open Scope nat_scope.
Open Scope list_scope.

(* ---------------------------------------------------------------------------------------- *)
(* result plumbing                                                                            *)

Lemma rbind_ok {A B} (r : result A) (f : A -> result B) b :
  rbind r f = Ok b -> exists a, r = Ok a /\ f a = Ok b.
Proof. destruct r; cbn; intros H; try discriminate. eauto. Qed.

Lemma rmap_ok {A B} (f : A -> B) (r : result A) b :
  rmap f r = Ok b -> exists a, r = Ok a /\ b = f a.
Proof. unfold rmap; intros H. apply rbind_ok in H. destruct H as [a [Ha Hb]]. inversion Hb. eauto. Qed.

Section S.
  Variable s : schema.

  Lemma rall_nth {A B} (f : A -> result B) l r :
    rall f l = Ok r ->
    List.length r = List.length l /\
    forall i, (forall x, nth_error l i = Some x -> exists y, nth_error r i = Some y /\ f x = Ok y) /\
              (forall y, nth_error r i = Some y -> exists x, nth_error l i = Some x /\ f x = Ok y).
  Proof.
    revert r; induction l as [|x l IH]; intros r H; cbn in H.
    - inversion H; subst. split; [reflexivity|]. intros i; split; intros z Hz; destruct i; discriminate.
    - apply rbind_ok in H. destruct H as [y [Hy H]]. apply rmap_ok in H. destruct H as [r' [Hr ->]].
      destruct (IH r' Hr) as [Hlen Hnth]. split; [cbn; lia|].
      intros [|i]; cbn.
      + split; intros z Hz; inversion Hz; subst; eauto.
      + exact (Hnth i).
  Qed.

  (* -- the accessor loop: the running counter is the position among the kept members --------- *)
  Lemma acc_of_index m i a : acc_of s m i = Ok a -> ga_index a = i.
  Proof.
    unfold acc_of. intros H. apply rbind_ok in H. destruct H as [ln [_ H]].
    destruct (m_kind m); try discriminate.
    - apply rmap_ok in H. destruct H as [t [_ ->]]. reflexivity.
    - inversion H; reflexivity.
    - inversion H; reflexivity.
  Qed.

  Lemma accs_from_nth skip ms : forall c accs,
    accs_from s skip c ms = Ok accs ->
    List.length accs = List.length (kept skip ms) /\
    forall i, (forall a, nth_error accs i = Some a ->
                         exists m, nth_error (kept skip ms) i = Some m /\ acc_of s m (c + i) = Ok a) /\
              (forall m, nth_error (kept skip ms) i = Some m ->
                         exists a, nth_error accs i = Some a /\ acc_of s m (c + i) = Ok a).
  Proof.
    induction ms as [|m ms IH]; intros c accs H; cbn [accs_from] in H.
    - inversion H; subst; cbn. split; [reflexivity|]. intros i; split; intros z Hz; destruct i; discriminate.
    - unfold kept; cbn [filter]. fold (kept skip ms).
      destruct (skip && excluded (m_name m)) eqn:E; cbn [negb].
      + exact (IH c accs H).
      + apply rbind_ok in H. destruct H as [a [Ha H]]. apply rmap_ok in H. destruct H as [r [Hr ->]].
        destruct (IH (S c) r Hr) as [Hlen Hnth]. split; [cbn; lia|].
        intros [|i]; cbn.
        * rewrite Nat.add_0_r. split; intros z Hz; inversion Hz; subst; eauto.
        * replace (c + S i) with (S c + i) by lia. exact (Hnth i).
  Qed.

  (* what make_struct returns, piece by piece *)
  Lemma make_struct_parts skip wa name mt ms g :
    make_struct s skip wa name mt ms = Ok g ->
    rall (item_of s) (kept skip ms) = Ok (gs_items g) /\
    accs_from s skip 0 ms = Ok (gs_accs g) /\
    (if wa then rall (arg_of s) (filter m_req (kept skip ms)) else Ok []) = Ok (gs_args g) /\
    (if wa then rall call_of (filter m_req (kept skip ms)) else Ok []) = Ok (gs_calls g) /\
    gs_name g = name /\ gs_message g = mt.
  Proof.
    unfold make_struct; intros H.
    apply rbind_ok in H. destruct H as [items [Hi H]].
    apply rbind_ok in H. destruct H as [accs [Ha H]].
    apply rbind_ok in H. destruct H as [args [Hg H]].
    apply rbind_ok in H. destruct H as [calls [Hc H]].
    inversion H; subst; cbn. repeat split; assumption.
  Qed.

  (* members appear in schema order with the item the schema's kind and type mapping give *)
  Theorem members_in_schema_order skip wa name mt ms g :
    make_struct s skip wa name mt ms = Ok g ->
    List.length (gs_items g) = List.length (kept skip ms) /\
    forall i m, nth_error (kept skip ms) i = Some m ->
                exists it, nth_error (gs_items g) i = Some it /\ item_of s m = Ok it.
  Proof.
    intros H. destruct (make_struct_parts _ _ _ _ _ _ H) as [Hi _].
    destruct (rall_nth _ _ _ Hi) as [Hlen Hnth]. split; [exact Hlen|].
    intros i m Hm. exact (proj1 (Hnth i) m Hm).
  Qed.

  (* every accessor is bound to its own member: its index is the position of that member among
     the constructed items, and the item there is the one built for that very member *)
  Theorem accessor_bound_to_own_member skip wa name mt ms g a :
    make_struct s skip wa name mt ms = Ok g -> In a (gs_accs g) ->
    exists m it,
      nth_error (kept skip ms) (ga_index a) = Some m /\
      acc_of s m (ga_index a) = Ok a /\
      nth_error (gs_items g) (ga_index a) = Some it /\ item_of s m = Ok it.
  Proof.
    intros H Hin. destruct (make_struct_parts _ _ _ _ _ _ H) as [Hi [Ha _]].
    destruct (In_nth_error _ _ Hin) as [i Hi'].
    destruct (accs_from_nth _ _ _ _ Ha) as [_ Hnth].
    destruct (proj1 (Hnth i) a Hi') as [m [Hm Hacc]]. cbn in Hacc.
    pose proof (acc_of_index _ _ _ Hacc) as Hidx. rewrite Hidx.
    destruct (rall_nth _ _ _ Hi) as [_ Hit]. destruct (proj1 (Hit i) m Hm) as [it [Hit1 Hit2]].
    exists m, it. repeat split; assumption.
  Qed.

  (* and every kept member has its accessor, at its own position *)
  Theorem every_member_has_its_accessor skip wa name mt ms g i m :
    make_struct s skip wa name mt ms = Ok g -> nth_error (kept skip ms) i = Some m ->
    exists a, nth_error (gs_accs g) i = Some a /\ ga_index a = i /\ acc_of s m i = Ok a.
  Proof.
    intros H Hm. destruct (make_struct_parts _ _ _ _ _ _ H) as [_ [Ha _]].
    destruct (accs_from_nth _ _ _ _ Ha) as [_ Hnth].
    destruct (proj2 (Hnth i) m Hm) as [a [Ha1 Ha2]]. cbn in Ha2.
    exists a. repeat split; try assumption. eapply acc_of_index; exact Ha2.
  Qed.

  (* what the accessor of a field member is: named after the field, typed by the type mapping,
     and the item it indexes carries that field's tag constant *)
  Theorem field_accessor_shape m i a :
    m_kind m = KField -> acc_of s m i = Ok a ->
    ga_name a = m_name m /\ ga_kind a = KField /\ go_type s (m_name m) = Ok (ga_type a) /\
    exists vt, item_of s m = Ok (GKV (field_const (m_name m)) vt) \/ item_of s m = Panic.
  Proof.
    intros Hk H. unfold acc_of in H. rewrite Hk in H.
    apply rbind_ok in H. destruct H as [ln [_ H]]. apply rmap_ok in H. destruct H as [t [Ht ->]]. cbn.
    repeat split; try assumption.
    unfold item_of; rewrite Hk. destruct (value_type s (m_name m)) as [vt| | |] eqn:E; cbn.
    - exists vt; left; reflexivity.
    - exists []. unfold value_type in E.
      destruct (lookup_last (plain_fields s) (m_name m)) as [f|].
      + unfold type_to_fix in E. destruct (type_cast s (fd_type f)); [discriminate|].
        destruct (lookup_last (enum_fields s) (fd_type f)); discriminate.
      + destruct (lookup_last (enum_fields s) (m_name m)); discriminate.
    - exists []; right; reflexivity.
    - exists []. unfold value_type in E.
      destruct (lookup_last (plain_fields s) (m_name m)) as [f|].
      + unfold type_to_fix in E. destruct (type_cast s (fd_type f)); [discriminate|].
        destruct (lookup_last (enum_fields s) (fd_type f)); discriminate.
      + destruct (lookup_last (enum_fields s) (m_name m)); discriminate.
  Qed.

  (* the populating constructor: its parameters are exactly the required kept members, in
     order, and each is passed to the setter of that same member *)
  Theorem constructor_args_are_required_members skip name mt ms g :
    make_struct s skip true name mt ms = Ok g ->
    let req := filter m_req (kept skip ms) in
    List.length (gs_args g) = List.length req /\ List.length (gs_calls g) = List.length req /\
    forall i m, nth_error req i = Some m ->
                exists p c, nth_error (gs_args g) i = Some p /\ arg_of s m = Ok p /\
                            nth_error (gs_calls g) i = Some c /\ call_of m = Ok c.
  Proof.
    intros H req. destruct (make_struct_parts _ _ _ _ _ _ H) as [_ [_ [Hg [Hc _]]]].
    destruct (rall_nth _ _ _ Hg) as [Hl1 Hn1]. destruct (rall_nth _ _ _ Hc) as [Hl2 Hn2].
    repeat split; try assumption.
    intros i m Hm. destruct (proj1 (Hn1 i) m Hm) as [p [Hp1 Hp2]]. destruct (proj1 (Hn2 i) m Hm) as [c [Hc1 Hc2]].
    exists p, c. repeat split; assumption.
  Qed.

  (* the argument goes to the setter of the same member: same setter name, same parameter name *)
  Theorem call_targets_own_setter m i a c p :
    acc_of s m i = Ok a -> call_of m = Ok c -> arg_of s m = Ok p ->
    fst c = ga_name a /\ snd c = ga_param a /\ fst p = ga_param a.
  Proof.
    unfold acc_of, call_of, arg_of. intros Ha Hc Hp.
    apply rbind_ok in Ha. destruct Ha as [ln [Hln Ha]].
    apply rbind_ok in Hc. destruct Hc as [ln2 [Hln2 Hc]].
    apply rbind_ok in Hp. destruct Hp as [ln3 [Hln3 Hp]].
    rewrite Hln in Hln2, Hln3. inversion Hln2; inversion Hln3; subst ln2 ln3.
    destruct (m_kind m).
    - apply rmap_ok in Ha. destruct Ha as [t [_ ->]]. apply rmap_ok in Hp. destruct Hp as [t' [_ ->]].
      inversion Hc; subst; cbn. repeat split.
    - inversion Ha; inversion Hc; inversion Hp; subst; cbn. repeat split.
    - inversion Ha; inversion Hc; inversion Hp; subst; cbn. repeat split.
    - discriminate.
  Qed.

  (* -- duplicates ------------------------------------------------------------------------- *)
  Lemma has_dup_false_NoDup l : has_dup l = false -> NoDup l.
  Proof.
    induction l as [|x l IH]; cbn; intros H; [constructor|].
    apply orb_false_iff in H. destruct H as [Hx Hl]. constructor; [|exact (IH Hl)].
    intros Hin. assert (existsb (beq x) l = true); [|congruence].
    apply existsb_exists. exists x. split; [exact Hin|apply beq_refl].
  Qed.

  Lemma has_dup_true_not_NoDup l : has_dup l = true -> ~ NoDup l.
  Proof.
    induction l as [|x l IH]; cbn; intros H Hnd; [discriminate|].
    inversion Hnd as [|? ? Hx Hl]; subst. apply orb_true_iff in H. destruct H as [H|H].
    - apply existsb_exists in H. destruct H as [y [Hy Hb]]. apply beq_eq in Hb. subst y. exact (Hx Hy).
    - exact (IH H Hl).
  Qed.

  Theorem duplicate_field_numbers_rejected :
    ~ NoDup (map fd_number (s_fields s)) -> forall p, gen s <> Ok p.
  Proof.
    intros Hd p H. unfold gen in H.
    destruct (negb (types_ok (s_types s))); [discriminate|].
    destruct (has_dup (map fd_number (s_fields s))) eqn:E; [discriminate|].
    exact (Hd (has_dup_false_NoDup _ E)).
  Qed.

  Theorem duplicate_msgtypes_rejected :
    ~ NoDup (map cd_msgtype (s_messages s)) -> forall p, gen s <> Ok p.
  Proof.
    intros Hd p H. unfold gen in H.
    destruct (negb (types_ok (s_types s))); [discriminate|].
    destruct (has_dup (map fd_number (s_fields s))); [discriminate|].
    destruct (has_dup (map cd_msgtype (s_messages s))) eqn:E; [discriminate|].
    exact (Hd (has_dup_false_NoDup _ E)).
  Qed.

  (* duplicates are reported as an error (not a panic) once the type mapping itself is sound *)
  Theorem duplicates_give_error :
    types_ok (s_types s) = true ->
    (~ NoDup (map fd_number (s_fields s)) \/ ~ NoDup (map cd_msgtype (s_messages s))) -> gen s = Err.
  Proof.
    intros Ht Hd. unfold gen. rewrite Ht; cbn [negb].
    destruct (has_dup (map fd_number (s_fields s))) eqn:E1; [reflexivity|].
    destruct (has_dup (map cd_msgtype (s_messages s))) eqn:E2; [reflexivity|].
    destruct Hd as [Hd|Hd]; exfalso; apply Hd; apply has_dup_false_NoDup; assumption.
  Qed.

  (* -- the package as a whole ------------------------------------------------------------- *)
  Lemma gen_parts p :
    gen s = Ok p ->
    make_header s = Ok (gp_header p) /\ make_trailer s = Ok (gp_trailer p) /\
    rall (make_message s) (s_messages s) = Ok (gp_messages p) /\
    rall (fun c => make_struct s true true (cd_name c) None (cd_members c)) (components_registry s) = Ok (gp_components p) /\
    rall (make_group s) (group_registry s) = Ok (gp_groups p) /\
    gp_consts p = map (fun f => (field_const (fd_name f), fd_number f)) (s_fields s)
                  ++ map (fun c => (s2b "MsgType" ++ cd_name c, cd_msgtype c)) (s_messages s) /\
    gp_begin p = s_type s ++ 46%N :: s_major s ++ 46%N :: s_minor s.
  Proof.
    unfold gen; intros H.
    destruct (negb (types_ok (s_types s))); [discriminate|].
    destruct (has_dup (map fd_number (s_fields s))); [discriminate|].
    destruct (has_dup (map cd_msgtype (s_messages s))); [discriminate|].
    destruct (negb (nested_groups_valid s)); [discriminate|].
    apply rbind_ok in H. destruct H as [h [Hh H]].
    apply rbind_ok in H. destruct H as [t [Ht H]].
    apply rbind_ok in H. destruct H as [ens [He H]].
    apply rbind_ok in H. destruct H as [msgs [Hm H]].
    apply rbind_ok in H. destruct H as [comps [Hc H]].
    apply rbind_ok in H. destruct H as [grps [Hg H]].
    inversion H; subst; cbn. repeat split; assumption.
  Qed.

  (* constants: every field number and every message type of the schema, under its name *)
  Theorem constants_equal_schema p :
    gen s = Ok p ->
    (forall f, In f (s_fields s) -> In (field_const (fd_name f), fd_number f) (gp_consts p)) /\
    (forall c, In c (s_messages s) -> In (s2b "MsgType" ++ cd_name c, cd_msgtype c) (gp_consts p)) /\
    (forall n v, In (n, v) (gp_consts p) ->
                 (exists f, In f (s_fields s) /\ n = field_const (fd_name f) /\ v = fd_number f) \/
                 (exists c, In c (s_messages s) /\ n = s2b "MsgType" ++ cd_name c /\ v = cd_msgtype c)).
  Proof.
    intros H. destruct (gen_parts _ H) as [_ [_ [_ [_ [_ [Hc _]]]]]]. rewrite Hc. repeat split.
    - intros f Hf. apply in_or_app; left. apply in_map_iff. exists f; split; [reflexivity|exact Hf].
    - intros c Hc'. apply in_or_app; right. apply in_map_iff. exists c; split; [reflexivity|exact Hc'].
    - intros n v Hin. apply in_app_or in Hin. destruct Hin as [Hin|Hin]; apply in_map_iff in Hin;
        destruct Hin as [x [Hx Hin]]; inversion Hx; subst; [left|right]; exists x; repeat split; exact Hin.
  Qed.

  (* one generated message per schema message, in schema order, each with its message type,
     its members in schema order and its accessors bound as above *)
  Theorem messages_in_schema_order p :
    gen s = Ok p ->
    List.length (gp_messages p) = List.length (s_messages s) /\
    forall i c, nth_error (s_messages s) i = Some c ->
                exists g, nth_error (gp_messages p) i = Some g /\ make_message s c = Ok g /\
                          gs_name g = cd_name c /\ gs_message g = Some (cd_msgtype c).
  Proof.
    intros H. destruct (gen_parts _ H) as [_ [_ [Hm _]]].
    destruct (rall_nth _ _ _ Hm) as [Hlen Hnth]. split; [exact Hlen|].
    intros i c Hc. destruct (proj1 (Hnth i) c Hc) as [g [Hg1 Hg2]]. exists g. repeat split; try assumption.
    - unfold make_message in Hg2. apply rbind_ok in Hg2. destruct Hg2 as [g0 [H0 Hg2]].
      destruct (make_struct_parts _ _ _ _ _ _ H0) as [_ [_ [_ [_ [Hn _]]]]].
      destruct (lookup_last default_flow (cd_name c)); [|inversion Hg2; subst; exact Hn].
      apply rmap_ok in Hg2. destruct Hg2 as [fl [_ ->]]. cbn. exact Hn.
    - unfold make_message in Hg2. apply rbind_ok in Hg2. destruct Hg2 as [g0 [H0 Hg2]].
      destruct (make_struct_parts _ _ _ _ _ _ H0) as [_ [_ [_ [_ [_ Hn]]]]].
      destruct (lookup_last default_flow (cd_name c)); [|inversion Hg2; subst; exact Hn].
      apply rmap_ok in Hg2. destruct Hg2 as [fl [_ ->]]. cbn. exact Hn.
  Qed.

  (* a generated message keeps the member structure of make_struct (the pipeline setters are
     added, nothing else changes) *)
  Lemma make_message_struct c g :
    make_message s c = Ok g ->
    exists g0, make_struct s false true (cd_name c) (Some (cd_msgtype c)) (cd_members c) = Ok g0 /\
               gs_items g = gs_items g0 /\ gs_accs g = gs_accs g0 /\ gs_args g = gs_args g0 /\ gs_calls g = gs_calls g0.
  Proof.
    unfold make_message; intros H. apply rbind_ok in H. destruct H as [g0 [H0 H]]. exists g0. split; [exact H0|].
    destruct (lookup_last default_flow (cd_name c)).
    - apply rmap_ok in H. destruct H as [fl [_ ->]]. cbn. repeat split.
    - inversion H; subst. repeat split.
  Qed.

  (* -- groups ------------------------------------------------------------------------------ *)
  (* when no group name is used with two different member lists, every occurrence of a group in
     the schema has exactly the members its generated type was built from *)
  Theorem consistent_groups_are_faithful :
    shadowed_groups s = [] ->
    forall o, In o (all_group_occurrences s) ->
              exists g, In g (group_registry s) /\ beq (m_name g) (m_name o) = true /\ same_members g o = true.
  Proof.
    unfold shadowed_groups. intros H o Ho.
    assert (Hz : (match find (fun g => beq (m_name g) (m_name o)) (group_registry s) with
                  | Some g => if same_members g o then [] else [m_name o]
                  | None => [m_name o]
                  end) = []).
    { clear -H Ho. induction (all_group_occurrences s) as [|x l IH]; [destruct Ho|].
      cbn in H. apply app_eq_nil in H. destruct H as [H1 H2]. destruct Ho as [->|Ho]; [exact H1|exact (IH H2 Ho)]. }
    destruct (find (fun g => beq (m_name g) (m_name o)) (group_registry s)) as [g|] eqn:E; [|discriminate].
    destruct (same_members g o) eqn:Es; [|discriminate].
    apply find_some in E. destruct E as [Hin Hb]. exists g. repeat split; assumption.
  Qed.

  (* a generated group type carries the members of its registered definition, in order *)
  Theorem group_type_members g gg ge :
    make_group s g = Ok (gg, ge) ->
    gg_name gg = group_type_name (m_name g) /\ gg_entry gg = group_entry_name (m_name g) /\
    gg_notag gg = field_const (m_name g) /\
    rall (item_of s) (m_subs g) = Ok (gg_items gg) /\
    make_struct s false false (group_entry_name (m_name g)) None (m_subs g) = Ok ge.
  Proof.
    unfold make_group; intros H.
    apply rbind_ok in H. destruct H as [items [Hi H]].
    apply rbind_ok in H. destruct H as [entry [He H]].
    inversion H; subst; cbn. repeat split; assumption.
  Qed.
End S.

(* the model takes no output directory: the declarations are a function of the schema alone (the
   package clause is the only thing cmd/fixgen derives from the directory) *)

(* ---------------------------------------------------------------------------------------- *)
(* D16: with two differing uses of one group name the property fails -- a witness             *)

Definition d16_fields : list fielddef :=
  map (fun p : string * string * string =>
         {| fd_number := s2b (fst (fst p)); fd_name := s2b (snd (fst p)); fd_type := s2b (snd p); fd_values := [] |})
      [("8", "BeginString", "STRING"); ("9", "BodyLength", "INT"); ("35", "MsgType", "STRING");
       ("49", "SenderCompID", "STRING"); ("56", "TargetCompID", "STRING"); ("34", "MsgSeqNum", "INT");
       ("52", "SendingTime", "STRING"); ("10", "CheckSum", "STRING");
       ("268", "NoMDEntries", "INT"); ("269", "MDEntryType", "STRING"); ("279", "MDUpdateAction", "STRING")]%string.

Definition fmem (n : string) (r : bool) : member := Member KField (s2b n) r [].

Definition d16_schema : schema :=
  {| s_type := s2b "FIX"; s_major := s2b "4"; s_minor := s2b "4";
     s_header := {| cd_name := []; cd_msgtype := [];
                    cd_members := map (fun n => fmem n true)
                                      ["BeginString"; "BodyLength"; "MsgType"; "SenderCompID"; "TargetCompID"; "MsgSeqNum"; "SendingTime"]%string |};
     s_trailer := {| cd_name := []; cd_msgtype := []; cd_members := [fmem "CheckSum" true] |};
     s_messages :=
       [ {| cd_name := s2b "Snapshot"; cd_msgtype := s2b "W";
            cd_members := [Member KGroup (s2b "NoMDEntries") true [fmem "MDEntryType" true]] |};
         {| cd_name := s2b "Incremental"; cd_msgtype := s2b "X";
            cd_members := [Member KGroup (s2b "NoMDEntries") true [fmem "MDUpdateAction" true; fmem "MDEntryType" false]] |} ];
     s_components := [];
     s_fields := d16_fields;
     s_types := [(s2b "STRING", s2b "String"); (s2b "INT", s2b "Int")] |}.

(* The generator accepts the schema; message Snapshot declares group NoMDEntries with the single
   member MDEntryType, but the one generated entry type MDEntriesEntry (which Snapshot's accessor
   MDEntriesGrp hands out) starts with MDUpdateAction: the members of Snapshot's group are not the
   schema's. *)
Theorem D16_group_fidelity_refuted :
  exists p ge gg,
    gen d16_schema = Ok p /\ gp_groups p = [(gg, ge)] /\
    gg_name gg = s2b "MDEntriesGrp" /\
    map ga_name (gs_accs ge) = [s2b "MDUpdateAction"; s2b "MDEntryType"] /\
    shadowed_groups d16_schema = [s2b "NoMDEntries"].
Proof.
  assert (H : exists p, gen d16_schema = Ok p) by (vm_compute; eauto).
  destruct H as [p Hp]. revert Hp. vm_compute. intros Hp. inversion Hp; subst.
  do 3 eexists. repeat split.
Qed.
