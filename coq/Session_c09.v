(* Session_c09.v -- whatever the peer sends while the session waits for the answer to its own
   TestRequest is a sign of life: the all-types round of the inbound dispatch reaches the timer hook
   and leaves the waiting state (C09). *)
From Coq Require Import List ZArith Bool.
From SF Require Import Bytes Values Wire Parse Session Session_c07.
Import ListNotations.
Open Scope N_scope.

(* the handlers that can stand in the all-types pool without ending its round: the session's own two
   hooks and application handlers that accept *)
Definition passes (h : in_handler) : Prop :=
  match h with
  | HStoreSeq | HTimerRefresh _ => True
  | HApp _ acc => acc = true
  | _ => False
  end.

(* none of them ends the round, and none changes the state except the timer hook, which leaves
   the waiting state *)
Lemma passes_step cfg s h d :
  passes h ->
  let '(s1, _, cont) := run_in_handler cfg s h d in
  cont = true /\
  (s_state s1 = s_state s \/
   (exists g, h = HTimerRefresh g) /\ s_state s = WaitingTestReqAnswer /\ s_state s1 = SuccessfulLogged).
Proof.
  intro P. destruct h; cbn [passes] in P; try contradiction; cbn [run_in_handler].
  - (* HStoreSeq *)
    destruct (_ || _); [split; [reflexivity|left; reflexivity]|].
    destruct (value_by_tag d tag_MsgSeqNum) as [sb| | |]; try (split; [reflexivity|left; reflexivity]).
    destruct (atoi sb); [|split; [reflexivity|left; reflexivity]].
    destruct (value_by_tag d tag_MsgType) as [mt| | |]; try (split; [reflexivity|left; reflexivity]).
    destruct (c_seqreset cfg && beq mt msgtype_SequenceReset); split; try reflexivity; left; reflexivity.
  - (* HTimerRefresh *)
    destruct (lstate_eqb (s_state s) WaitingTestReqAnswer) eqn:E.
    + split; [reflexivity|]. right. split; [eexists; reflexivity|]. split; [|reflexivity].
      destruct (s_state s); cbn in E; try discriminate; reflexivity.
    + split; [reflexivity|left; reflexivity].
  - (* HApp *)
    subst. split; [reflexivity|left; reflexivity].
Qed.

Lemma round_keeps_logged cfg d : forall hs s,
  Forall passes hs -> s_state s = SuccessfulLogged ->
  s_state (fst (run_in_handlers cfg s hs d)) = SuccessfulLogged.
Proof.
  induction hs as [|h r IH]; intros s F St; [exact St|].
  inversion F as [|? ? Ph Fr]; subst. cbn [run_in_handlers].
  pose proof (passes_step cfg s h d Ph) as P.
  destruct (run_in_handler cfg s h d) as [[s1 o1] cont]. destruct P as [C [E|(_ & W & _)]].
  - subst cont. specialize (IH s1 Fr). rewrite E in IH. specialize (IH St).
    destruct (run_in_handlers cfg s1 r d) as [s2 o2]. exact IH.
  - rewrite St in W. discriminate.
Qed.

(* the all-types round, started while waiting for the answer, ends logged on as soon as the timer
   hook of some logon is in the pool *)
Theorem round_clears_waiting cfg d : forall hs s,
  Forall passes hs -> (exists g, In (HTimerRefresh g) hs) ->
  s_state s = WaitingTestReqAnswer ->
  s_state (fst (run_in_handlers cfg s hs d)) = SuccessfulLogged.
Proof.
  induction hs as [|h r IH]; intros s F [g Hin] St; [contradiction|].
  inversion F as [|? ? Ph Fr]; subst. cbn [run_in_handlers].
  pose proof (passes_step cfg s h d Ph) as P.
  destruct (run_in_handler cfg s h d) as [[s1 o1] cont] eqn:R. destruct P as [C [E|(_ & _ & L)]]; subst cont.
  - (* this handler left the state alone: it is not the timer hook in the waiting state *)
    destruct Hin as [Hh|Hin].
    + exfalso. subst h. cbn [run_in_handler] in R. rewrite St in R. cbn in R. inversion R; subst.
      cbn in E. rewrite St in E. discriminate.
    + specialize (IH s1 Fr (ex_intro _ g Hin)). rewrite E in IH. specialize (IH St).
      destruct (run_in_handlers cfg s1 r d) as [s2 o2]. exact IH.
  - pose proof (round_keeps_logged cfg d r s1 Fr L) as K.
    destruct (run_in_handlers cfg s1 r d) as [s2 o2]. exact K.
Qed.

(* for DefaultHandler.serve: any message that carries a MsgType -- a Heartbeat, a SequenceReset the
   session knows or does not know, an application message, an unknown type -- has cleared the waiting
   state by the time the handlers of its own type run *)
Corollary serve_all_round_clears_waiting cfg s d mt :
  value_by_tag d tag_MsgType = Ok mt ->
  Forall passes (pool_get (s_in s) ALL) -> (exists g, In (HTimerRefresh g) (pool_get (s_in s) ALL)) ->
  s_state s = WaitingTestReqAnswer ->
  exists s1 o1,
    run_in_handlers cfg s (pool_get (s_in s) ALL) d = (s1, o1) /\ s_state s1 = SuccessfulLogged /\
    serve cfg s d = (let '(s2, o2) := run_in_handlers cfg s1 (pool_get (s_in s1) mt) d in (s2, o1 ++ o2)).
Proof.
  intros V F G St. pose proof (round_clears_waiting cfg d _ s F G St) as R.
  destruct (run_in_handlers cfg s (pool_get (s_in s) ALL) d) as [s1 o1] eqn:E.
  exists s1, o1. split; [reflexivity|]. split; [exact R|]. unfold serve. rewrite V, E. reflexivity.
Qed.


(* in a state whose pools are well-formed (each session handler under its own key: an invariant of
   every history, Session_c07) the all-types pool holds nothing but the session's two hooks and
   application handlers; if those accept, the premise of the sign-of-life theorem holds *)
Lemma pools_ok_passes s :
  pools_ok s ->
  Forall (fun h => match h with HApp _ acc => acc = true | _ => True end) (pool_get (s_in s) ALL) ->
  Forall passes (pool_get (s_in s) ALL).
Proof.
  intros P A. specialize (P ALL). induction (pool_get (s_in s) ALL) as [|h r IH]; [constructor|].
  inversion P as [|? ? Ph Pr]; subst. inversion A as [|? ? Ah Ar]; subst.
  constructor; [|exact (IH Pr Ar)].
  destruct h; cbn [in_ok passes] in *; try exact I; try exact Ah; try discriminate Ph.
Qed.

(* non-vacuity: an accepting session that knows the SequenceReset type, probing; the peer's only sign
   of life is a gap fill numbered 7: the round ends logged on, and the counter is left alone *)
Definition ex9_cfg : config :=
  {| c_side := Acceptor; c_allowed := [[48]]; c_approve := fun _ => true; c_fail_saves := []; c_seqreset := true;
     c_settings := {| st_target := [67]; st_sender := [83]; st_hb := 30%Z; st_enc := [48];
                      st_password := []; st_username := []; st_reset := false; st_limits := None |} |}.
Definition ex9_state : sstate := upd_state (start_timers (init_state ex9_cfg 3 0 [])) WaitingTestReqAnswer.
Definition ex9_gapfill : bytes := [56; 61; 70; 73; 88; 46; 52; 46; 52; 1; 57; 61; 50; 48; 1; 51; 53; 61; 52; 1; 51; 52; 61; 55; 1; 49; 50; 51; 61; 89; 1; 51; 54; 61; 57; 1; 49; 48; 61; 48; 48; 48; 1].

Example probing_example :
  Forall passes (pool_get (s_in ex9_state) ALL)
  /\ (exists g, In (HTimerRefresh g) (pool_get (s_in ex9_state) ALL))
  /\ s_state ex9_state = WaitingTestReqAnswer
  /\ s_state (fst (serve ex9_cfg ex9_state ex9_gapfill)) = SuccessfulLogged
  /\ s_cnt_in (fst (serve ex9_cfg ex9_state ex9_gapfill)) = 3%Z.
Proof.
  split; [vm_compute; repeat constructor|]. split; [vm_compute; eexists; right; left; reflexivity|].
  split; [reflexivity|]. split; vm_compute; reflexivity.
Qed.
