(* Frame_proofs.v -- the inbound stream is reassembled exactly; pipelines deliver in order (C04). *)
From SF Require Import Bytes Bytes_proofs Frame.
Open Scope N_scope.

Lemma feed_chunk_app st a b :
  feed_chunk st (a ++ b) =
  (let '(st1, d1) := feed_chunk st a in let '(st2, d2) := feed_chunk st1 b in (st2, d1 ++ d2)).
Proof.
  revert st. induction a as [|x a IH]; intro st; cbn [app feed_chunk].
  - destruct (feed_chunk st b). reflexivity.
  - destruct (feed_byte st x) as [st1 d1]. rewrite IH.
    destruct (feed_chunk st1 a) as [st2 d2]. destruct (feed_chunk st2 b) as [st3 d3].
    rewrite app_assoc. reflexivity.
Qed.

(* however the stream is cut into chunks, only the concatenation matters *)
Lemma feed_chunks_concat chunks : forall st,
  feed_chunks st chunks = feed_chunk st (concat chunks).
Proof.
  induction chunks as [|c r IH]; intro st; cbn [feed_chunks concat]; [reflexivity|].
  rewrite feed_chunk_app. destruct (feed_chunk st c) as [st1 d1]. rewrite IH. reflexivity.
Qed.

(* a segment: bytes without delimiter followed by the delimiter *)
Definition is_segment (s : bytes) : Prop := exists body, s = body ++ [SOH] /\ Forall (fun b => b <> SOH) body.

Definition starts_end_tag (s : bytes) : bool := Nat.leb 3 (length s) && beq (firstn 3 s) end_tag.

(* a well-formed message: segments none of which starts with "10=", then one that does *)
Definition wf_message (segs : list bytes) (last_seg : bytes) : Prop :=
  Forall (fun s => is_segment s /\ starts_end_tag s = false) segs
  /\ is_segment last_seg /\ starts_end_tag last_seg = true.

Lemma feed_segment st body :
  Forall (fun b => b <> SOH) body -> r_seg st = [] ->
  feed_chunk st (body ++ [SOH]) =
  (let seg := body ++ [SOH] in
   if starts_end_tag seg then ({| r_seg := []; r_msg := [] |}, [r_msg st ++ seg])
   else ({| r_seg := []; r_msg := r_msg st ++ seg |}, [])).
Proof.
  intros Hb Hs.
  assert (G : forall pre st0, r_seg st0 = pre -> Forall (fun b => b <> SOH) body ->
                 feed_chunk st0 (body ++ [SOH]) =
                 (let seg := pre ++ body ++ [SOH] in
                  if starts_end_tag seg then ({| r_seg := []; r_msg := [] |}, [r_msg st0 ++ seg])
                  else ({| r_seg := []; r_msg := r_msg st0 ++ seg |}, []))).
  { clear. induction body as [|x body IH]; intros pre st0 Hp Hb.
    - cbn [app feed_chunk]. unfold feed_byte. rewrite N.eqb_refl, Hp. unfold starts_end_tag.
      destruct (_ && _); rewrite app_nil_r; reflexivity.
    - inversion Hb as [|? ? Hx Hb']; subst. cbn [app feed_chunk]. unfold feed_byte at 1.
      destruct (N.eqb_spec x SOH); [contradiction|].
      rewrite (IH (r_seg st0 ++ [x]) {| r_seg := r_seg st0 ++ [x]; r_msg := r_msg st0 |} eq_refl Hb'). cbn [r_msg]. rewrite <- !app_assoc. cbn [app].
      destruct (starts_end_tag _); reflexivity. }
  rewrite (G [] st Hs Hb). reflexivity.
Qed.

(* feeding the segments of one message into a reader that is between messages *)
Lemma feed_message segs last_seg acc :
  wf_message segs last_seg ->
  feed_chunk {| r_seg := []; r_msg := acc |} (concat segs ++ last_seg) =
  (r_init, [acc ++ concat segs ++ last_seg]).
Proof.
  intros (Hs & Hseg & Hl). destruct Hseg as (lb & Elb & Hlb). subst last_seg.
  revert acc. induction segs as [|s segs IH]; intro acc.
  - cbn [concat app]. rewrite feed_segment; [|exact Hlb|reflexivity]. cbv zeta. rewrite Hl. reflexivity.
  - inversion Hs as [|? ? Hhead Hs']; subst. destruct Hhead as (Hseg & Hn). destruct Hseg as (b & Eb & Hb). subst s.
    cbn [concat]. rewrite <- app_assoc.
    rewrite feed_chunk_app. rewrite feed_segment; [|exact Hb|reflexivity]. cbv zeta. rewrite Hn.
    rewrite (IH Hs'). cbn [r_msg]. rewrite <- !app_assoc. reflexivity.
Qed.

(* C04, framing: for every list of well-formed messages and every way of cutting their
   concatenation into read chunks, the reader delivers exactly those messages, in order *)
Theorem deliver_exact :
  forall (msgs : list (list bytes * bytes)) (chunks : list bytes),
    Forall (fun m => wf_message (fst m) (snd m)) msgs ->
    concat chunks = concat (map (fun m => concat (fst m) ++ snd m) msgs) ->
    deliver chunks = map (fun m => concat (fst m) ++ snd m) msgs.
Proof.
  intros msgs chunks Hw Hc. unfold deliver. rewrite feed_chunks_concat, Hc. clear Hc chunks.
  assert (G : feed_chunk r_init (concat (map (fun m => concat (fst m) ++ snd m) msgs))
              = (r_init, map (fun m => concat (fst m) ++ snd m) msgs)).
  { induction msgs as [|[segs l] msgs IH]; [reflexivity|].
    inversion Hw as [|? ? Hm Hw']; subst. cbn [map concat fst snd].
    rewrite feed_chunk_app. change r_init with {| r_seg := []; r_msg := [] |} at 1.
    rewrite (feed_message segs l [] Hm). rewrite (IH Hw'). reflexivity. }
  rewrite G. reflexivity.
Qed.

(* ---- pipelines ---- *)

Definition pipe_inv (sent : list bytes) (p : pipe) : Prop :=
  p_done p ++ in_flight (p_stages p) ++ p_todo p = sent.

Lemma in_flight_cons q r : in_flight (q :: r) = in_flight r ++ q.
Proof. unfold in_flight. cbn [rev]. rewrite concat_app. cbn [concat]. rewrite app_nil_r. reflexivity. Qed.

Lemma in_flight_shift i : forall st, in_flight (shift i st) = in_flight st.
Proof.
  induction i as [|i IH]; intros [|q r]; cbn [shift]; try reflexivity.
  - destruct q as [|m q']; [reflexivity|]. destruct r as [|q2 r']; [reflexivity|].
    rewrite !in_flight_cons. rewrite <- !app_assoc. reflexivity.
  - rewrite !in_flight_cons, IH. reflexivity.
Qed.

Theorem pipe_step_inv sent p mv : pipe_inv sent p -> pipe_inv sent (pipe_step p mv).
Proof.
  intro H. destruct mv as [|i|]; cbn [pipe_step].
  - destruct (p_todo p) as [|m t] eqn:T; [exact H|]. destruct (p_stages p) as [|q r] eqn:S; [exact H|].
    unfold pipe_inv in *. cbn [p_todo p_stages p_done]. rewrite T, S in H.
    rewrite in_flight_cons in *. rewrite <- H. rewrite <- !app_assoc. reflexivity.
  - unfold pipe_inv in *. cbn [p_todo p_stages p_done]. rewrite in_flight_shift. exact H.
  - destruct (rev (p_stages p)) as [|[|m q'] r] eqn:R; try exact H.
    unfold pipe_inv in *. cbn [p_todo p_stages p_done]. unfold in_flight in *. rewrite rev_involutive. rewrite R in H.
    cbn [concat] in *. rewrite <- H. rewrite <- !app_assoc. reflexivity.
Qed.

(* C04, pipeline: under every schedule, what the consumer has received followed by what is in
   flight (oldest first) followed by what is still to be sent is exactly what was sent: each
   message once, in order, whole *)
Theorem pipe_run_inv sent (sched : list move) p :
  pipe_inv sent p -> pipe_inv sent (fold_left pipe_step sched p).
Proof.
  revert p. induction sched as [|mv r IH]; intros p H; [exact H|]. cbn [fold_left]. apply IH. apply pipe_step_inv. exact H.
Qed.

Corollary delivered_is_prefix sent sched (stages : list nat) :
  let p0 := {| p_todo := sent; p_stages := map (fun _ => []) stages; p_done := [] |} in
  exists rest, sent = p_done (fold_left pipe_step sched p0) ++ rest.
Proof.
  intro p0. assert (H0 : pipe_inv sent p0).
  { unfold pipe_inv, p0. cbn [p_done p_stages p_todo app]. unfold in_flight.
    assert (E : concat (rev (map (fun _ : nat => @nil bytes) stages)) = []).
    { rewrite <- map_rev. induction (rev stages); [reflexivity|]. cbn. assumption. }
    rewrite E. reflexivity. }
  pose proof (pipe_run_inv sent sched p0 H0) as H. unfold pipe_inv in H.
  eexists. symmetry. exact H.
Qed.

(* several connections: a move on one connection leaves every other connection's pipeline alone *)
Theorem conns_step_inv sents : forall ps c mv,
  Forall2 pipe_inv sents ps -> Forall2 pipe_inv sents (conns_step ps c mv).
Proof.
  induction sents as [|sn sents IH]; intros ps c mv H; inversion H; subst; cbn [conns_step]; [constructor|].
  destruct c as [|c'].
  - constructor; [apply pipe_step_inv; assumption|assumption].
  - constructor; [assumption|]. apply IH. assumption.
Qed.

Theorem conns_run_inv sents (sched : list (nat * move)) : forall ps,
  Forall2 pipe_inv sents ps ->
  Forall2 pipe_inv sents (fold_left (fun ps cm => conns_step ps (fst cm) (snd cm)) sched ps).
Proof.
  induction sched as [|[c mv] r IH]; intros ps H; [exact H|]. cbn [fold_left fst snd]. apply IH.
  apply conns_step_inv. exact H.
Qed.

(* non-vacuity: a value containing "10=" in the middle and a tag ending in 10 *)
Example ex_c04 :
  deliver [[56;61;70;1;53;56;61;120;49;48;61;57]; [1;49;49;48;61;49;50;51;1;49]; [48;61;48;48;55;1]] =
  [[56;61;70;1;53;56;61;120;49;48;61;57;1;49;49;48;61;49;50;51;1;49;48;61;48;48;55;1]].
Proof. vm_compute. reflexivity. Qed.
