(* Session_clean.v -- the send path when no handler refuses or amends and no save fails:
   exactly one message leaves, stored first under its own number (C19, C05 sequential layer). *)
From SF Require Import Bytes Values Wire Parse Session Bytes_proofs Session_proofs.
Open Scope N_scope.

Definition wires (os : list out) : list message :=
  flat_map (fun o => match o with OWire m => [m] | _ => [] end) os.

Lemma wires_app a b : wires (a ++ b) = wires a ++ wires b.
Proof. unfold wires. apply flat_map_app. Qed.

Definition out_h_clean (h : out_handler) : Prop :=
  match h with OApp _ a am => a = true /\ am = false | _ => True end.

Definition clean (cfg : config) (s : sstate) : Prop :=
  c_fail_saves cfg = [] /\ (forall k, Forall out_h_clean (pool_get (s_out s) k))
  /\ s_router_stopped s = false.

Definition is_call (o : out) : Prop :=
  match o with OSave _ true | OAppOut _ _ => True | _ => False end.

Definition is_save (h : out_handler) : bool := match h with OSaveH => true | _ => false end.

(* a clean chain: every handler is called, none stops it, the message is unchanged; the store
   holds (seq, m) afterwards if the chain contains the save handler and is otherwise untouched *)
Lemma run_out_handlers_clean cfg m hs : forall s,
  c_fail_saves cfg = [] -> Forall out_h_clean hs ->
  exists s' o,
    run_out_handlers cfg s m hs = (s', o, true, m) /\ Forall is_call o /\ wires o = []
    /\ s_out s' = s_out s /\ s_router_stopped s' = s_router_stopped s /\ s_cnt_out s' = s_cnt_out s
    /\ (let seq := get_int tag_MsgSeqNum (m_header m) in
        store_get (s_store s') seq = (if existsb is_save hs then Some m else store_get (s_store s) seq)
        /\ (existsb is_save hs = true -> In (OSave seq true) o)
        /\ (forall k, k <> seq -> store_get (s_store s') k = store_get (s_store s) k)).
Proof.
  induction hs as [|h hs IH]; intros s Hf Hc; cbn [run_out_handlers].
  - exists s, []. split; [reflexivity|]. split; [constructor|]. split; [reflexivity|].
    split; [reflexivity|]. split; [reflexivity|]. split; [reflexivity|]. cbn [existsb].
    split; [reflexivity|]. split; [discriminate|]. intros; reflexivity.
  - inversion Hc as [|? ? Hh Hhs]; subst. destruct h as [|g|id acc am].
    + rewrite Hf. cbn [existsb is_save orb].
      destruct (IH (upd_store s ((get_int tag_MsgSeqNum (m_header m), m) :: s_store s) (S (s_saves s))) Hf Hhs)
        as (s' & o & E & Fc & W & O & R & C & Sv & Si & Oth).
      rewrite E. eexists. eexists. split; [reflexivity|]. split; [constructor; [exact I|exact Fc]|].
      split; [exact W|]. split; [exact O|]. split; [exact R|]. split; [exact C|].
      cbv zeta in *. split; [|split].
      * rewrite Sv. destruct (existsb is_save hs); [reflexivity|].
        cbn [s_store upd_store store_get]. rewrite Z.eqb_refl. reflexivity.
      * intros _. left. reflexivity.
      * intros k Hk. rewrite (Oth k Hk). cbn [s_store upd_store store_get].
        destruct (Z.eqb_spec k (get_int tag_MsgSeqNum (m_header m))); [contradiction|reflexivity].
    + cbn [existsb is_save orb]. destruct (IH s Hf Hhs) as (s' & o & E & R). rewrite E.
      eexists. eexists. split; [reflexivity|exact R].
    + destruct Hh as [-> ->]. cbn [existsb is_save orb].
      destruct (IH s Hf Hhs) as (s' & o & E & Fc & W & O & R & C & Sv & Si & Oth).
      rewrite E. eexists. eexists. split; [reflexivity|]. split; [constructor; [exact I|exact Fc]|].
      split; [exact W|]. split; [exact O|]. split; [exact R|]. split; [exact C|].
      cbv zeta in *. split; [exact Sv|]. split; [|exact Oth].
      intro Hs. right. apply Si. exact Hs.
Qed.

(* the store-before-send handler was registered first, at construction *)
Definition save_first (s : sstate) : Prop :=
  exists rest, pool_get (s_out s) ALL = OSaveH :: rest.

Lemma clean_same cfg s s' :
  s_out s' = s_out s -> s_router_stopped s' = s_router_stopped s -> clean cfg s -> clean cfg s'.
Proof. intros E1 E2 (A & B & C). unfold clean. rewrite E1, E2. auto. Qed.

Definition seq_of (m : message) : Z := get_int tag_MsgSeqNum (m_header m).

(* DefaultHandler.send, clean case: the calls, then exactly one wire carrying the message *)
Lemma router_send_clean cfg s m :
  clean cfg s -> save_first s ->
  exists s' calls,
    router_send cfg s m = (s', calls ++ [OWire (fst (prepare m))], true)
    /\ Forall is_call calls /\ In (OSave (seq_of m) true) calls
    /\ store_get (s_store s') (seq_of m) = Some m
    /\ (forall k, k <> seq_of m -> store_get (s_store s') k = store_get (s_store s) k)
    /\ same_control s s' /\ s_cnt_out s' = s_cnt_out s /\ clean cfg s' /\ save_first s'.
Proof.
  intros (Hf & Hc & Hr) (rest & Hs). unfold router_send.
  destruct (run_out_handlers_clean cfg m (pool_get (s_out s) ALL) s Hf (Hc ALL))
    as (s1 & o1 & E1 & F1 & W1 & O1 & R1 & C1 & Sv1 & Si1 & Oth1).
  rewrite E1. cbn [negb].
  assert (Hc1 : Forall out_h_clean (pool_get (s_out s1) (mt_of m))) by (rewrite O1; apply Hc).
  destruct (run_out_handlers_clean cfg m (pool_get (s_out s1) (mt_of m)) s1 Hf Hc1)
    as (s2 & o2 & E2 & F2 & W2 & O2 & R2 & C2 & Sv2 & Si2 & Oth2).
  rewrite E2. cbn [negb]. rewrite R2, R1, Hr.
  exists s2, (o1 ++ o2). split; [rewrite <- app_assoc; reflexivity|].
  cbv zeta in *. rewrite Hs in Sv1, Si1. cbn [existsb is_save orb] in Sv1, Si1.
  split; [apply Forall_app; split; assumption|].
  split; [apply in_or_app; left; apply Si1; reflexivity|].
  split.
  { unfold seq_of. rewrite Sv2. destruct (existsb is_save _); [reflexivity|exact Sv1]. }
  split.
  { intros k Hk. unfold seq_of in Hk. rewrite (Oth2 k Hk). apply Oth1. exact Hk. }
  destruct (run_out_handlers_spec _ _ _ _ _ _ _ _ E1) as (_ & _ & A1).
  destruct (run_out_handlers_spec _ _ _ _ _ _ _ _ E2) as (_ & _ & A2).
  split; [unfold same_control; intuition congruence|].
  split; [congruence|].
  split; [apply (clean_same cfg s); [congruence|congruence|unfold clean; auto]|].
  exists rest. rewrite O2, O1. exact Hs.
Qed.

(* the header after Session.send stamped it *)
Definition stamped (s : sstate) (m : message) : message :=
  let st := s_settings s in
  let h := set_kv tag_MsgSeqNum (VInt true (s_cnt_out s + 1)) (m_header m) in
  let h := set_kv tag_TargetCompID (VString true (st_target st)) h in
  let h := set_kv tag_SenderCompID (VString true (st_sender st)) h in
  let h := set_kv tag_SendingTime (VString true sending_time_placeholder) h in
  with_header m h.

Lemma stamped_seq s m : m_header m = tpl_Header -> seq_of (stamped s m) = (s_cnt_out s + 1)%Z.
Proof. intro H. unfold seq_of, stamped. cbn [m_header with_header]. rewrite H. reflexivity. Qed.

Lemma stamped_ids s m :
  m_header m = tpl_Header ->
  get_string tag_TargetCompID (m_header (stamped s m)) = st_target (s_settings s) /\
  get_string tag_SenderCompID (m_header (stamped s m)) = st_sender (s_settings s) /\
  get_string tag_SendingTime (m_header (stamped s m)) = sending_time_placeholder.
Proof. intro H. unfold stamped. cbn [m_header with_header]. rewrite H. repeat split. Qed.

(* Session.send, clean case *)
Theorem session_send_clean cfg s m :
  clean cfg s -> save_first s -> m_header m = tpl_Header ->
  exists s' calls,
    session_send cfg s m = (s', calls ++ [OWire (fst (prepare (stamped s m)))])
    /\ Forall is_call calls /\ In (OSave (s_cnt_out s + 1) true) calls
    /\ store_get (s_store s') (s_cnt_out s + 1) = Some (stamped s m)
    /\ (forall k, k <> (s_cnt_out s + 1)%Z -> store_get (s_store s') k = store_get (s_store s) k)
    /\ same_control s s' /\ s_cnt_out s' = (s_cnt_out s + 1)%Z /\ clean cfg s' /\ save_first s'.
Proof.
  intros Hc Hs Hh. unfold session_send.
  set (s1 := upd_cnt_out s (s_cnt_out s + 1)).
  assert (Hc1 : clean cfg s1) by exact Hc. assert (Hs1 : save_first s1) by exact Hs.
  fold (stamped s m).
  destruct (router_send_clean cfg s1 (stamped s m) Hc1 Hs1)
    as (s' & calls & E & Fc & Sv & St & Oth & C & O & Cl & Sf).
  rewrite E. rewrite (stamped_seq s m Hh) in *.
  exists s', calls.
  split; [reflexivity|]. split; [exact Fc|]. split; [exact Sv|]. split; [exact St|].
  split; [exact Oth|]. split; [exact C|]. split; [exact O|]. split; [exact Cl|exact Sf].
Qed.

Lemma run_out_handlers_no_wire cfg hs : forall s m s' o ok m',
  run_out_handlers cfg s m hs = (s', o, ok, m') -> wires o = [].
Proof.
  induction hs as [|h hs IH]; intros s m s' o ok m' E; cbn [run_out_handlers] in E.
  - inversion E; reflexivity.
  - destruct h as [|g|id acc am].
    + destruct (existsb _ _); [inversion E; reflexivity|].
      destruct (run_out_handlers cfg _ m hs) as [[[sa oa] oka] ma] eqn:Ea. inversion E; subst.
      cbn [wires flat_map app]. eapply IH. exact Ea.
    + eapply IH. exact E.
    + destruct acc; [|inversion E; reflexivity].
      destruct (run_out_handlers cfg _ _ hs) as [[[sa oa] oka] ma] eqn:Ea. inversion E; subst.
      cbn [wires flat_map app]. eapply IH. exact Ea.
Qed.

(* C19, refusal side: when a handler refuses or a save fails nothing is transmitted and the
   send reports an error *)
Theorem router_send_refused cfg s m s' o :
  router_send cfg s m = (s', o, false) -> wires o = [] /\ In OSendErr o.
Proof.
  unfold router_send. intro H.
  destruct (run_out_handlers cfg s m _) as [[[s1 o1] ok1] m1] eqn:E1.
  pose proof (run_out_handlers_no_wire _ _ _ _ _ _ _ _ E1) as W1.
  destruct ok1; cbn [negb] in H.
  2:{ inversion H; subst. rewrite wires_app, W1. split; [reflexivity|apply in_or_app; right; left; reflexivity]. }
  destruct (run_out_handlers cfg s1 m1 _) as [[[s2 o2] ok2] m2] eqn:E2.
  pose proof (run_out_handlers_no_wire _ _ _ _ _ _ _ _ E2) as W2.
  destruct ok2; cbn [negb] in H.
  2:{ inversion H; subst. rewrite !wires_app, W1, W2. split; [reflexivity|].
      apply in_or_app; right. apply in_or_app; right. left; reflexivity. }
  destruct (s_router_stopped s2); [|discriminate].
  inversion H; subst. rewrite !wires_app, W1, W2. split; [reflexivity|].
  apply in_or_app; right. apply in_or_app; right. left; reflexivity.
Qed.

(* a failing save stops the chain at once: nothing after it is called *)
Lemma failing_save_stops cfg s m hs :
  existsb (Nat.eqb (s_saves s)) (c_fail_saves cfg) = true ->
  run_out_handlers cfg s m (OSaveH :: hs) =
  (upd_store s (s_store s) (S (s_saves s)), [OSave (seq_of m) false], false, m).
Proof. intro H. cbn [run_out_handlers]. rewrite H. reflexivity. Qed.

(* a refusing handler stops the chain at once *)
Lemma refusing_handler_stops cfg s m id am hs :
  run_out_handlers cfg s m (OApp id false am :: hs) = (s, [OAppOut id (seq_of m)], false, m).
Proof. reflexivity. Qed.
