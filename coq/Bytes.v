(* Bytes.v -- byte strings as [list N]; search, split, decimal conversion.
   Executable definitions only; proofs live in Bytes_proofs.v. *)
From Coq Require Export List NArith ZArith Bool Lia.
From Coq Require Decimal DecimalN.
Export ListNotations.
Open Scope N_scope.

Definition byte := N.
Definition bytes := list N.

Definition SOH : N := 1.
Definition EQS : N := 61.   (* '=' *)

Arguments N.eqb : simpl never.

(* Result of a modelled Go function: value, returned error, run-time panic,
   or exhaustion of the explicit fuel standing for a Go loop. *)
Inductive result (A : Type) : Type :=
| Ok (a : A)
| Err
| Panic
| OutOfFuel.
Arguments Ok {A} a.
Arguments Err {A}.
Arguments Panic {A}.
Arguments OutOfFuel {A}.

Definition rbind {A B} (r : result A) (f : A -> result B) : result B :=
  match r with
  | Ok a => f a
  | Err => Err
  | Panic => Panic
  | OutOfFuel => OutOfFuel
  end.

Definition rmap {A B} (f : A -> B) (r : result A) : result B :=
  rbind r (fun a => Ok (f a)).

Fixpoint beq (a b : bytes) : bool :=
  match a, b with
  | [], [] => true
  | x :: a', y :: b' => N.eqb x y && beq a' b'
  | _, _ => false
  end.

(* bytes.HasPrefix l p *)
Fixpoint prefixb (p l : bytes) : bool :=
  match p with
  | [] => true
  | x :: p' =>
      match l with
      | [] => false
      | y :: l' => N.eqb x y && prefixb p' l'
      end
  end.

(* bytes.Index l p : first index at which p occurs in l *)
Fixpoint find_sub (p l : bytes) : option nat :=
  if prefixb p l then Some 0%nat
  else match l with
       | [] => None
       | _ :: l' => option_map S (find_sub p l')
       end.

(* bytes.IndexByte *)
Fixpoint find_byte (b : N) (l : bytes) : option nat :=
  match l with
  | [] => None
  | x :: l' => if N.eqb x b then Some 0%nat else option_map S (find_byte b l')
  end.

(* bytes.LastIndexByte *)
Fixpoint rfind_byte (b : N) (l : bytes) : option nat :=
  match l with
  | [] => None
  | x :: l' =>
      match rfind_byte b l' with
      | Some i => Some (S i)
      | None => if N.eqb x b then Some 0%nat else None
      end
  end.

Definition has_byte (b : N) (l : bytes) : bool :=
  match find_byte b l with Some _ => true | None => false end.

(* everything before the first SOH, or the whole list *)
Fixpoint take_field (l : bytes) : bytes :=
  match l with
  | [] => []
  | x :: l' => if N.eqb x SOH then [] else x :: take_field l'
  end.

Definition sum_bytes (l : bytes) : N := fold_right N.add 0 l.

Fixpoint join (sep : bytes) (parts : list bytes) : bytes :=
  match parts with
  | [] => []
  | [p] => p
  | p :: ps => p ++ sep ++ join sep ps
  end.

(* split on SOH; a trailing SOH yields a final empty segment *)
Fixpoint split_soh_aux (cur : bytes) (l : bytes) : list bytes :=
  match l with
  | [] => [rev cur]
  | x :: l' => if N.eqb x SOH then rev cur :: split_soh_aux [] l'
               else split_soh_aux (x :: cur) l'
  end.
Definition split_soh (l : bytes) : list bytes := split_soh_aux [] l.

(* ---- decimal ---- *)

Fixpoint uint_to_bytes (d : Decimal.uint) : bytes :=
  match d with
  | Decimal.Nil => []
  | Decimal.D0 d => 48 :: uint_to_bytes d
  | Decimal.D1 d => 49 :: uint_to_bytes d
  | Decimal.D2 d => 50 :: uint_to_bytes d
  | Decimal.D3 d => 51 :: uint_to_bytes d
  | Decimal.D4 d => 52 :: uint_to_bytes d
  | Decimal.D5 d => 53 :: uint_to_bytes d
  | Decimal.D6 d => 54 :: uint_to_bytes d
  | Decimal.D7 d => 55 :: uint_to_bytes d
  | Decimal.D8 d => 56 :: uint_to_bytes d
  | Decimal.D9 d => 57 :: uint_to_bytes d
  end.

Definition digit_cons (b : N) (d : Decimal.uint) : option Decimal.uint :=
  if N.eqb b 48 then Some (Decimal.D0 d) else
  if N.eqb b 49 then Some (Decimal.D1 d) else
  if N.eqb b 50 then Some (Decimal.D2 d) else
  if N.eqb b 51 then Some (Decimal.D3 d) else
  if N.eqb b 52 then Some (Decimal.D4 d) else
  if N.eqb b 53 then Some (Decimal.D5 d) else
  if N.eqb b 54 then Some (Decimal.D6 d) else
  if N.eqb b 55 then Some (Decimal.D7 d) else
  if N.eqb b 56 then Some (Decimal.D8 d) else
  if N.eqb b 57 then Some (Decimal.D9 d) else None.

Fixpoint bytes_to_uint (l : bytes) : option Decimal.uint :=
  match l with
  | [] => Some Decimal.Nil
  | b :: l' =>
      match bytes_to_uint l' with
      | Some d => digit_cons b d
      | None => None
      end
  end.

(* strconv.FormatUint(n, 10) *)
Definition utoa (n : N) : bytes := uint_to_bytes (N.to_uint n).

(* strconv.Itoa *)
Definition itoa (z : Z) : bytes :=
  match z with
  | Z0 => [48]
  | Zpos p => utoa (Npos p)
  | Zneg p => 45 :: utoa (Npos p)
  end.

(* one or more decimal digits *)
Definition parse_digits (l : bytes) : option N :=
  match l with
  | [] => None
  | _ => option_map N.of_uint (bytes_to_uint l)
  end.

Definition int_min : Z := (- 2 ^ 63)%Z.
Definition int_max : Z := (2 ^ 63 - 1)%Z.
Definition in_int_range (z : Z) : bool := (int_min <=? z)%Z && (z <=? int_max)%Z.

(* strconv.Atoi on a 64-bit platform: optional sign, one or more digits, int64 range *)
Definition atoi (l : bytes) : option Z :=
  let (neg, ds) :=
    match l with
    | 45 :: t => (true, t)
    | 43 :: t => (false, t)
    | _ => (false, l)
    end in
  match parse_digits ds with
  | None => None
  | Some n =>
      let z := if neg then (- Z.of_N n)%Z else Z.of_N n in
      if in_int_range z then Some z else None
  end.

Definition uint64_max : N := 18446744073709551615.

(* strconv.ParseUint(s, 10, 64) *)
Definition parse_uint (l : bytes) : option N :=
  match parse_digits l with
  | Some n => if n <=? uint64_max then Some n else None
  | None => None
  end.

(* fmt.Sprintf("%03s", strconv.Itoa(n)) for 0 <= n *)
Definition pad3 (n : N) : bytes :=
  let d := utoa n in
  match d with
  | [a] => [48; 48; a]
  | [a; b] => [48; a; b]
  | _ => d
  end.

(* fix.CalcCheckSum *)
Definition calc_checksum (body : bytes) : bytes :=
  pad3 ((sum_bytes body + 1) mod 256).
