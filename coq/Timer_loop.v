(* Timer_loop.v -- the timer loops of Session.start over many consecutive periods (C08, C09).
   The loop waits (TakeTimeout), acts when the wait returns (sends a Heartbeat / a TestRequest),
   and waits again; acting and re-entering the wait both restart the clock at that instant. *)
From Coq Require Import ZArith List Lia Bool.
From SF Require Import Timer Timer_proofs.
Import ListNotations.
Open Scope Z_scope.

(* TakeTimeout together with the ticks that are left when it returns *)
Fixpoint take_timeout_rest (T : Z) (start : Z) (refs : list Z) (ticks : list Z) : option (Z * list Z) :=
  match ticks with
  | [] => None
  | t :: rest => if last_refresh start refs t + T <=? t then Some (t, rest)
                 else take_timeout_rest T start refs rest
  end.

Lemma take_timeout_rest_fst T start refs ticks :
  take_timeout T start refs ticks = option_map fst (take_timeout_rest T start refs ticks).
Proof.
  induction ticks as [|t rest IH]; cbn [take_timeout take_timeout_rest]; [reflexivity|].
  destruct (last_refresh start refs t + T <=? t); [reflexivity|exact IH].
Qed.

(* the instants at which the loop acts: [fuel] bounds the number of rounds *)
Fixpoint loop (T : Z) (fuel : nat) (start : Z) (refs : list Z) (ticks : list Z) : list Z :=
  match fuel with
  | O => []
  | S k =>
      match take_timeout_rest T start refs ticks with
      | None => []
      | Some (t, rest) => t :: loop T k t refs rest
      end
  end.

Lemma last_refresh_ge_start start refs t : start <= last_refresh start refs t.
Proof.
  induction refs as [|r rest IH]; cbn [last_refresh]; [lia|].
  destruct (Z.leb_spec r t); destruct (Z.ltb_spec (last_refresh start rest t) r); cbn [andb]; lia.
Qed.

Lemma take_timeout_rest_spec T start refs ticks t rest :
  take_timeout_rest T start refs ticks = Some (t, rest) ->
  In t ticks /\ last_refresh start refs t + T <= t
  /\ (forall r, In r refs -> r <= t -> r + T <= t)
  /\ exists pre, ticks = pre ++ t :: rest.
Proof.
  revert t rest. induction ticks as [|x xs IH]; intros t rest; cbn [take_timeout_rest]; [discriminate|].
  destruct (Z.leb_spec (last_refresh start refs x + T) x) as [H|H].
  - intro E. inversion E; subst. split; [left; reflexivity|]. split; [exact H|]. split.
    + intros r Hin Hr. pose proof (last_refresh_max start refs t r Hin Hr). lia.
    + exists []. reflexivity.
  - intro E. destruct (IH _ _ E) as (I1 & I2 & I3 & (pre & I4)).
    split; [right; exact I1|]. split; [exact I2|]. split; [exact I3|]. exists (x :: pre). rewrite I4. reflexivity.
Qed.

(* ---- C08 "not sooner", C09 "a live peer is never probed", over many periods ---- *)

(* consecutive elements at least T apart, the first at least T after [from] *)
Fixpoint spaced (T from : Z) (l : list Z) : Prop :=
  match l with
  | [] => True
  | x :: r => from + T <= x /\ spaced T x r
  end.

(* Every action of the loop comes at least T after the previous one, and at least T after every
   refresh (outbound message, for the heartbeat loop; inbound message, for the probing loop) that
   precedes it: however many periods pass and whatever the refreshes are, no action is early. *)
Theorem loop_never_early T fuel : forall start refs ticks,
  spaced T start (loop T fuel start refs ticks)
  /\ forall h, In h (loop T fuel start refs ticks) -> forall r, In r refs -> r <= h -> r + T <= h.
Proof.
  induction fuel as [|k IH]; intros start refs ticks; cbn [loop]; [split; [exact I|intros h []]|].
  destruct (take_timeout_rest T start refs ticks) as [[t rest]|] eqn:E; [|split; [exact I|intros h []]].
  destruct (take_timeout_rest_spec _ _ _ _ _ _ E) as (_ & H1 & H2 & _).
  destruct (IH t refs rest) as (S1 & S2).
  split.
  - cbn [spaced]. split; [pose proof (last_refresh_ge_start start refs t); lia|exact S1].
  - intros h [<-|Hin]; [exact H2|exact (S2 h Hin)].
Qed.

(* ---- C08 "never silent longer", over many periods ---- *)

Lemma dense_app_inv G : forall pre from upto t rest,
  dense G from upto (pre ++ t :: rest) -> from < t /\ dense G t upto rest.
Proof.
  induction pre as [|p pre IH]; intros from upto t rest H; cbn [app dense] in H.
  - destruct H as [H1 H2]. split; [lia|exact H2].
  - destruct H as [H1 H2]. destruct (IH _ _ _ _ H2) as (H3 & H4). split; [lia|exact H4].
Qed.

(* no refresh strictly between a and b *)
Definition quiet (refs : list Z) (a b : Z) : Prop := forall r, In r refs -> ~ (a < r <= b).

Lemma last_refresh_quiet start refs a t :
  quiet refs a t -> a <= t -> last_refresh start refs a = last_refresh start refs t.
Proof.
  intros Q Hat. induction refs as [|r rest IH]; cbn [last_refresh]; [reflexivity|].
  assert (Qr : quiet rest a t) by (intros x Hx; apply Q; right; exact Hx).
  specialize (IH Qr). rewrite IH.
  assert (Hr : ~ (a < r <= t)) by (apply Q; left; reflexivity).
  destruct (Z.leb_spec r a); destruct (Z.leb_spec r t); cbn [andb]; try reflexivity; lia.
Qed.

Lemma last_refresh_idem start refs t u :
  last_refresh start refs t <= u -> u <= t -> last_refresh start refs u = last_refresh start refs t.
Proof.
  intros Hl Hu. induction refs as [|r rest IH]; cbn [last_refresh] in *; [reflexivity|].
  destruct (Z.leb_spec r t) as [Hrt|Hrt]; destruct (Z.ltb_spec (last_refresh start rest t) r) as [Hlt|Hlt];
    cbn [andb] in *.
  - (* the latest refresh at t is r *)
    destruct (Z.leb_spec r u); [|lia].
    assert (Hle : last_refresh start rest u <= last_refresh start rest t).
    { clear -Hu. induction rest as [|y ys IHy]; cbn [last_refresh]; [lia|].
      destruct (Z.leb_spec y u); destruct (Z.leb_spec y t);
        destruct (Z.ltb_spec (last_refresh start ys u) y); destruct (Z.ltb_spec (last_refresh start ys t) y);
        cbn [andb]; lia. }
    destruct (Z.ltb_spec (last_refresh start rest u) r); cbn [andb]; [reflexivity|lia].
  - rewrite (IH Hl). destruct (Z.leb_spec r u); destruct (Z.ltb_spec (last_refresh start rest t) r); cbn [andb]; try reflexivity; lia.
  - rewrite (IH Hl). destruct (Z.leb_spec r u); [lia|]. reflexivity.
  - rewrite (IH Hl). destruct (Z.leb_spec r u); [lia|]. reflexivity.
Qed.

(* One wait: if the clock was last restarted at r (the entry of the wait or a refresh) and nothing
   refreshes it in (r, r + T + G], the wait returns at some tick in (.., r + T + G] -- this is
   Timer_proofs.returns_in_time with the remaining ticks made explicit. *)
Lemma wait_returns T G start refs ticks from r :
  0 <= T -> 0 < G ->
  dense G from (r + T + G) ticks -> from <= r + T -> start <= from ->
  (forall t, r <= t -> t <= r + T + G -> last_refresh start refs t = r) ->
  exists t rest, take_timeout_rest T start refs ticks = Some (t, rest) /\ t <= r + T + G.
Proof.
  intros HT HG Hd Hf Hs Hl.
  destruct (returns_in_time T G start refs ticks from r HT HG Hd Hf Hs Hl) as (t & E & Ht).
  rewrite take_timeout_rest_fst in E.
  destruct (take_timeout_rest T start refs ticks) as [[t' rest]|]; [|discriminate].
  inversion E; subst. exists t, rest. split; [reflexivity|exact Ht].
Qed.

(* dense up to a later instant is dense up to an earlier one *)
Lemma dense_weaken G : forall ticks from upto upto',
  upto' <= upto -> dense G from upto ticks -> dense G from upto' ticks.
Proof.
  induction ticks as [|t rest IH]; intros from upto upto' Hle H; cbn [dense] in *; [lia|].
  destruct H as [H1 H2]. split; [exact H1|eapply IH; eassumption].
Qed.

(* C08 over many periods.  Ticks at most G apart from the entry of the loop up to the horizon H
   (G = polling period + the delay of a tick), refreshes (outbound messages) at arbitrary
   instants.  Then no stretch of T + G between the entry and the horizon is silent: for every
   instant x there is an outbound message (a refresh) or an action of the loop (a Heartbeat) in
   (x, x + T + G]. *)
Theorem loop_never_silent T G : 0 <= T -> 0 < G ->
  forall fuel start refs ticks H,
    (length ticks <= fuel)%nat ->
    dense G start H ticks ->
    forall x, start <= x -> x + T + G <= H ->
      exists e, (In e refs \/ In e (loop T fuel start refs ticks)) /\ x < e <= x + T + G.
Proof.
  intros HT HG. induction fuel as [|k IH]; intros start refs ticks H Hlen Hd x Hx HxH.
  - destruct ticks; [|cbn in Hlen; lia]. cbn [dense] in Hd. lia.
  - (* is some refresh in (x, x + T + G] ? *)
    destruct (existsb (fun r => (x <? r) && (r <=? x + T + G)) refs) eqn:Eq.
    { apply existsb_exists in Eq. destruct Eq as (r & Hin & Hr). apply andb_prop in Hr as [H1 H2].
      apply Z.ltb_lt in H1. apply Z.leb_le in H2. exists r. split; [left; exact Hin|lia]. }
    assert (Q : quiet refs x (x + T + G)).
    { intros r Hin Hr. assert (Hf : existsb (fun r => (x <? r) && (r <=? x + T + G)) refs = true).
      { apply existsb_exists. exists r. split; [exact Hin|]. apply andb_true_intro. split; [apply Z.ltb_lt|apply Z.leb_le]; lia. }
      rewrite Hf in Eq. discriminate. }
    (* the clock of the current wait was last restarted at r <= x *)
    set (r := last_refresh start refs x).
    assert (Hr1 : start <= r) by apply last_refresh_ge_start.
    assert (Hr2 : r <= x) by (apply last_refresh_le; exact Hx).
    assert (Hlast : forall t, r <= t -> t <= r + T + G -> last_refresh start refs t = r).
    { intros t H1 H2. destruct (Z.le_gt_cases t x) as [Hle|Hgt].
      - apply last_refresh_idem; [exact H1|exact Hle].
      - symmetry. apply last_refresh_quiet; [|lia]. intros y Hy Hyy. apply (Q y Hy). lia. }
    assert (Hd' : dense G start (r + T + G) ticks) by (eapply dense_weaken; [|exact Hd]; lia).
    destruct (wait_returns T G start refs ticks start r HT HG Hd' ltac:(lia) ltac:(lia) Hlast)
      as (t & rest & E & Ht).
    cbn [loop]. rewrite E.
    destruct (Z.lt_ge_cases x t) as [Hxt|Hxt].
    + (* the wait returns after x: that action is the event *)
      exists t. split; [right; left; reflexivity|lia].
    + (* it returned at or before x: the loop goes on from t *)
      destruct (take_timeout_rest_spec _ _ _ _ _ _ E) as (_ & _ & _ & (pre & Epre)).
      rewrite Epre in Hd. destruct (dense_app_inv G pre start H t rest Hd) as (Hst & Hd2).
      assert (Hlen2 : (length rest <= k)%nat).
      { rewrite Epre in Hlen. rewrite app_length in Hlen. cbn [length] in Hlen. lia. }
      destruct (IH t refs rest H Hlen2 Hd2 x Hxt HxH) as (e & [He|He] & Hb).
      * exists e. split; [left; exact He|exact Hb].
      * exists e. split; [right; right; exact He|exact Hb].
Qed.

(* ---- non-vacuity: three periods with a refresh in the second ---- *)
Example loop_example :
  loop 100 5 0 [130] [10;20;30;40;50;60;70;80;90;100;110;120;130;140;150;160;170;180;190;200;210;220;230;240;250;260;270;280;290;300;310;320;330;340]
  = [100; 230; 330]
  /\ dense 10 0 340 [10;20;30;40;50;60;70;80;90;100;110;120;130;140;150;160;170;180;190;200;210;220;230;240;250;260;270;280;290;300;310;320;330;340].
Proof. split; [vm_compute; reflexivity|cbn [dense]; lia]. Qed.

(* C09 over many periods: a peer that sends something at least every n seconds is never probed,
   however long the session lasts: the probing loop never acts *)
Theorem live_peer_loop_never_acts n fuel start refs ticks :
  1 <= n ->
  (forall t, In t ticks -> exists r, (r = start \/ In r refs) /\ r <= t /\ t <= r + out_timeout n) ->
  loop (in_timeout n) fuel start refs ticks = [].
Proof.
  intros Hn Hlive. destruct fuel as [|k]; [reflexivity|]. cbn [loop].
  pose proof (live_peer_never_probed n start refs ticks Hn Hlive) as E.
  rewrite take_timeout_rest_fst in E.
  destruct (take_timeout_rest (in_timeout n) start refs ticks) as [[t rest]|]; [discriminate|reflexivity].
Qed.

(* ---- what the TICK observation lines are judged against: with exact ticks the wait returns at
   the first tick at or after (latest refresh + T), which is [ideal_tick] ---- *)

Lemma take_timeout_split T start refs pre t post :
  (forall x, In x pre -> x < last_refresh start refs x + T) ->
  last_refresh start refs t + T <= t ->
  take_timeout T start refs (pre ++ t :: post) = Some t.
Proof.
  induction pre as [|p pre IH]; intros Hpre Ht; cbn [app take_timeout].
  - destruct (Z.leb_spec (last_refresh start refs t + T) t); [reflexivity|lia].
  - destruct (Z.leb_spec (last_refresh start refs p + T) p) as [H|H].
    + specialize (Hpre p (or_introl eq_refl)). lia.
    + apply IH; [intros x Hx; apply Hpre; right; exact Hx|exact Ht].
Qed.

(* the ticks of a poll with period P entered at [start]: start + P, start + 2P, ..., start + nP *)
Definition exact_ticks (P start : Z) (n : nat) : list Z :=
  map (fun k => start + Z.of_nat k * P) (seq 1 n).

Theorem take_timeout_ideal T P start refs L n :
  0 < P -> 0 <= T -> start <= L ->
  (forall t, L <= t -> last_refresh start refs t = L) ->
  (forall t, In t (exact_ticks P start n) -> t < L -> t < last_refresh start refs t + T) ->
  ideal_tick P start (L + T) <= start + Z.of_nat n * P ->
  take_timeout T start refs (exact_ticks P start n) = Some (ideal_tick P start (L + T)).
Proof.
  intros HP HT HL Hlast Hbefore Hn.
  destruct (ideal_tick_spec P start (L + T) HP) as (Hx & Hs & (k & Hk1 & Hk) & Hprev).
  set (ts := ideal_tick P start (L + T)) in *.
  assert (Hkn : k <= Z.of_nat n) by nia.
  (* split the ticks at index k *)
  set (a := Z.to_nat (k - 1)). set (b := (n - a - 1)%nat).
  assert (Hn' : n = (a + S b)%nat) by (unfold a, b; lia).
  unfold exact_ticks. rewrite Hn'. rewrite seq_app, map_app. cbn [seq map].
  replace (start + Z.of_nat (1 + a) * P) with ts by (unfold a; rewrite Hk; f_equal; f_equal; lia).
  apply take_timeout_split.
  - intros x Hx'. apply in_map_iff in Hx' as (j & <- & Hj). apply in_seq in Hj.
    assert (Hjk : Z.of_nat j <= k - 1) by (unfold a in Hj; lia).
    set (t := start + Z.of_nat j * P).
    assert (Ht : t <= ts - P) by (unfold t; rewrite Hk; nia).
    destruct (Z.lt_ge_cases t L) as [Hlt|Hge].
    + apply Hbefore; [|exact Hlt]. unfold exact_ticks. apply in_map_iff. exists j. split; [reflexivity|].
      apply in_seq. lia.
    + rewrite (Hlast t Hge).
      assert (start + P < ts) by (unfold t in Ht; nia). specialize (Hprev H). lia.
  - rewrite (Hlast ts ltac:(lia)). lia.
Qed.

(* with no tolerance at all, the TICK judgement is exactly "not before the timeout has passed since
   the latest refresh, not after the noticing tick of the grid" *)
Lemma tick_conforms_exact T start last ret :
  0 < period T ->
  tick_conforms T 0 0 start last ret = true <->
  last + T <= ret <= ideal_tick (period T) start (last + T).
Proof.
  intro HP. unfold tick_conforms. cbv zeta.
  rewrite !Z.sub_0_r, !Z.add_0_r. rewrite !andb_true_iff, Z.ltb_lt, !Z.leb_le. split; [intros [[_ A] B]; lia|intros [A B]; lia].
Qed.

(* the tick of an exact grid that notices satisfies the judgement: the grid instant itself lies in the
   accepted interval whenever it is not before the timeout *)
Lemma ideal_tick_ge P start x : 0 < P -> x <= ideal_tick P start x.
Proof.
  intro HP. unfold ideal_tick. destruct (Z.leb_spec x start); [lia|].
  pose proof (Z.div_mod (x - start + P - 1) P ltac:(lia)) as D.
  pose proof (Z.mod_pos_bound (x - start + P - 1) P HP) as B. nia.
Qed.
