(* Conc.v -- lock structure of the library, computed from the event tables that
   harness/cmd/extract regenerates from the source (gen/Sites.v): call graph, goroutine roles,
   locks held at every shared access (through callers), conflicting pairs; and the two
   metatheorems that say what a passing table means for executions: mutual exclusion orders
   accesses that share a lock (C20), and a counter increment and an enqueue performed inside one
   critical section leave the queue in counter order (C05). *)
From Coq Require Import String List Bool Arith NArith Lia.
Import ListNotations.
Open Scope string_scope.
Open Scope list_scope.

Record ev := Ev { e_kind : N; e_arg : N; e_arg2 : N; e_line : nat }.
Record func := { f_name : N; f_file : N; f_usage : N; f_events : list ev }.

(* every string of the tables is interned by the extractor; [names] is the table *)
Definition names := list (string * N).

Fixpoint nid (nm : names) (s : string) : N :=
  match nm with
  | [] => 0
  | (s', i) :: r => if String.eqb s s' then i else nid r s
  end.

Fixpoint nstr (nm : names) (i : N) : string :=
  match nm with
  | [] => "?"
  | (s, i') :: r => if N.eqb i i' then s else nstr r i
  end.

(* ------------------------------------------------------------------------------------------ *)
(* Part 1: the static analysis (executable)                                                    *)

Definition lockmode := bool.  (* true = exclusive (Lock), false = shared (RLock) *)
Definition held := list (N * lockmode).

Fixpoint remove_one (m : N) (md : lockmode) (h : held) : held :=
  match h with
  | [] => []
  | (m', md') :: r => if N.eqb m m' && Bool.eqb md md' then r else (m', md') :: remove_one m md r
  end.

Definition mem_n (x : N) (l : list N) : bool := existsb (N.eqb x) l.

Fixpoint assoc_n {A} (l : list (N * A)) (k : N) : option A :=
  match l with [] => None | (k', v) :: r => if N.eqb k k' then Some v else assoc_n r k end.

Section Analysis.
  Variable nm : names.
  Variable fs : list func.

  Let kLock := nid nm "Lock".       Let kRLock := nid nm "RLock".
  Let kUnlock := nid nm "Unlock".   Let kRUnlock := nid nm "RUnlock".
  Let kRead := nid nm "Read".       Let kWrite := nid nm "Write".   Let kAtomic := nid nm "Atomic".
  Let kCall := nid nm "Call".       Let kClosure := nid nm "Closure". Let kDynCall := nid nm "DynCall".
  Let kGo := nid nm "Go".           Let kSelect := nid nm "Select".  Let kSend := nid nm "Send".
  Let kDeferUnlock := nid nm "DeferUnlock".

  Definition step_held (h : held) (e : ev) : held :=
    let k := e_kind e in
    if N.eqb k kLock then (e_arg e, true) :: h
    else if N.eqb k kRLock then (e_arg e, false) :: h
    else if N.eqb k kUnlock then remove_one (e_arg e) true h
    else if N.eqb k kRUnlock then remove_one (e_arg e) false h
    else h.   (* DeferUnlock / DeferRUnlock: released when the function returns *)

  (* events paired with the locks held when they happen *)
  Fixpoint with_held (h : held) (es : list ev) : list (ev * held) :=
    match es with
    | [] => []
    | e :: r => (e, h) :: with_held (step_held h e) r
    end.

  Definition has_func (n : N) : bool := existsb (fun f => N.eqb (f_name f) n) fs.

  (* closures that are invoked synchronously where they appear *)
  Definition sync_usages : list N := map (nid nm) ["arg:Range"; "arg:Do"; "called"; "defer"].

  Definition closures_with_usage (us : list N) : list N :=
    map f_name (filter (fun f => mem_n (f_usage f) us) fs).

  (* call sites of a function: (callee, locks held at the site) *)
  Definition call_sites (f : func) : list (N * held) :=
    flat_map (fun eh : ev * held =>
                let (e, h) := eh in
                let k := e_kind e in
                if N.eqb k kCall then (if has_func (e_arg e) then [(e_arg e, h)] else [])
                else if N.eqb k kClosure then (if mem_n (e_arg2 e) sync_usages then [(e_arg e, h)] else [])
                else if N.eqb k kDynCall then
                       (* a handler taken from a pool is invoked: the extractor names the usage
                          under which the closures of that pool were registered *)
                       map (fun c => (c, h)) (closures_with_usage [e_arg e])
                else []) (with_held [] (f_events f)).

  Inductive akind := ARead | AWrite | AAtomic.

  Record access := { a_var : N; a_kind : akind; a_func : N; a_line : nat; a_held : held }.

  Definition accesses (f : func) : list access :=
    flat_map (fun eh : ev * held =>
                let (e, h) := eh in
                let k := e_kind e in
                if N.eqb k kRead then [{| a_var := e_arg e; a_kind := ARead; a_func := f_name f; a_line := e_line e; a_held := h |}]
                else if N.eqb k kWrite then [{| a_var := e_arg e; a_kind := AWrite; a_func := f_name f; a_line := e_line e; a_held := h |}]
                else if N.eqb k kAtomic then [{| a_var := e_arg e; a_kind := AAtomic; a_func := f_name f; a_line := e_line e; a_held := h |}]
                else []) (with_held [] (f_events f)).

  (* per-function summary, computed once *)
  Record fsum := { fs_name : N; fs_calls : list (N * held); fs_accs : list access }.
  Definition summaries : list fsum :=
    map (fun f => {| fs_name := f_name f; fs_calls := call_sites f; fs_accs := accesses f |}) fs.

  Fixpoint find_sum (l : list fsum) (n : N) : option fsum :=
    match l with [] => None | x :: r => if N.eqb (fs_name x) n then Some x else find_sum r n end.

  (* reachability from a set of entry functions *)
  Fixpoint reach (sm : list fsum) (fuel : nat) (seen : list N) (todo : list N) : list N :=
    match fuel with
    | O => seen
    | S fuel' =>
        match todo with
        | [] => seen
        | n :: r =>
            if mem_n n seen then reach sm fuel' seen r
            else match find_sum sm n with
                 | None => reach sm fuel' seen r
                 | Some x => reach sm fuel' (n :: seen) (map fst (fs_calls x) ++ r)
                 end
        end
    end.

  (* a role: a kind of goroutine, its entry functions, whether several instances run at once *)
  Record role := { r_name : N; r_entries : list N; r_multi : bool }.

  Fixpoint nodup_n (l : list N) : list N :=
    match l with [] => [] | x :: r => if mem_n x r then nodup_n r else x :: nodup_n r end.

  (* goroutines started by the library: every Go target, errgroup member and AfterFunc callback *)
  Definition go_roles : list role :=
    let targets :=
      flat_map (fun f => flat_map (fun e => if N.eqb (e_kind e) kGo then [e_arg e] else []) (f_events f)) fs
      ++ closures_with_usage (map (nid nm) ["arg:Go"; "arg:AfterFunc"]) in
    map (fun t => {| r_name := t; r_entries := [t]; r_multi := false |}) (nodup_n targets).

  (* what the application may call from any number of its own goroutines while a session runs *)
  Definition app_role : role :=
    {| r_name := nid nm "application";
       r_entries := map (nid nm)
                      ["session.Session.Send"; "session.Session.IsLogged"; "session.Session.Logout";
                       "session.Session.Stop"; "session.Session.OnChangeState"; "session.Session.Context";
                       "simplefixgo.DefaultHandler.HandleIncoming"; "simplefixgo.DefaultHandler.HandleOutgoing";
                       "simplefixgo.DefaultHandler.RemoveIncomingHandler"; "simplefixgo.DefaultHandler.RemoveOutgoingHandler";
                       "simplefixgo.DefaultHandler.OnDisconnect"; "simplefixgo.DefaultHandler.OnConnect";
                       "simplefixgo.DefaultHandler.OnStopped"; "simplefixgo.DefaultHandler.Stop";
                       "simplefixgo.DefaultHandler.Context"];
       r_multi := true |}.

  (* the inbound dispatch loop: one per handler *)
  Definition inbound_role : role :=
    {| r_name := nid nm "simplefixgo.DefaultHandler.Run";
       r_entries := [nid nm "simplefixgo.DefaultHandler.Run"]; r_multi := false |}.

  Definition all_roles : list role := app_role :: inbound_role :: go_roles.

  Definition role_funcs (sm : list fsum) (r : role) : list N :=
    reach sm (S (length fs) * 8) [] (r_entries r).

  (* locks held on entry, per function, within one role: greatest fixpoint by iteration *)
  Fixpoint held_lookup (h : held) (m : N) : option lockmode :=
    match h with
    | [] => None
    | (m', md) :: r => if N.eqb m m' then
                         match held_lookup r m with Some md' => Some (md || md') | None => Some md end
                       else held_lookup r m
    end.

  Definition held_meet (a b : held) : held :=
    flat_map (fun p : N * lockmode =>
                match held_lookup b (fst p) with
                | Some md => [(fst p, snd p && md)]
                | None => []
                end) a.

  Definition omeet (a : option held) (b : held) : option held :=
    match a with None => Some b | Some x => Some (held_meet x b) end.

  Definition entry_env := list (N * held).

  (* callers of n within the role: (caller, locks held at the call site) *)
  Definition callers_in (sm : list fsum) (rf : list N) (n : N) : list (N * held) :=
    flat_map (fun x => if mem_n (fs_name x) rf
                       then flat_map (fun ch : N * held => if N.eqb (fst ch) n then [(fs_name x, snd ch)] else []) (fs_calls x)
                       else []) sm.

  Definition entry_round (r : role) (callers : list (N * list (N * held))) (env : entry_env) : entry_env :=
    map (fun nc : N * list (N * held) =>
           let (n, cs) := nc in
           if mem_n n (r_entries r) then (n, [])
           else
             let sites := flat_map (fun gh : N * held =>
                                      match assoc_n env (fst gh) with
                                      | Some eg => [snd gh ++ eg]
                                      | None => []
                                      end) cs in
             match fold_left omeet sites None with
             | Some h => (n, h)
             | None => (n, [])
             end) callers.

  Fixpoint iterate {A} (n : nat) (f : A -> A) (x : A) : A :=
    match n with O => x | S n' => iterate n' f (f x) end.

  Definition all_locks : held :=
    flat_map (fun f => flat_map (fun e => if N.eqb (e_kind e) kLock || N.eqb (e_kind e) kRLock
                                          then [(e_arg e, true)] else []) (f_events f)) fs.

  Definition held_eqb (a b : held) : bool :=
    Nat.eqb (length a) (length b)
    && forallb (fun p : N * lockmode => match held_lookup b (fst p) with Some md => Bool.eqb md (snd p) | None => false end) a.

  (* iterate 24 rounds from the top; the result is used only if it is a fixpoint, otherwise
     nothing is assumed to be held on entry *)
  Definition entry_locks (sm : list fsum) (r : role) : entry_env :=
    let rf := role_funcs sm r in
    let callers := map (fun n => (n, callers_in sm rf n)) rf in
    let init := map (fun n => (n, if mem_n n (r_entries r) then [] else all_locks)) rf in
    let res := iterate 24 (entry_round r callers) init in
    let nxt := entry_round r callers res in
    if forallb (fun p : N * held => match assoc_n nxt (fst p) with Some h => held_eqb h (snd p) | None => false end) res
    then res else map (fun n => (n, [])) rf.

  (* functions that only run before the session is shared between goroutines *)
  Definition init_phase (n : N) : bool :=
    mem_n n (map (nid nm)
               ["session.NewAcceptorSession"; "session.NewInitiatorSession"; "session.newSession";
                "session.Session.Run"; "session.Session.setStorageCallbacks";
                "session.Session.OnError"; "session.Session.SetUnmarshaller"; "session.Session.SetLogonRequest";
                "session.Session.StartWaiting";
                "simplefixgo.NewHandlerPool"; "simplefixgo.NewAcceptorHandler"; "simplefixgo.NewInitiatorHandler";
                "simplefixgo.NewConn"; "memory.NewStorage"; "utils.NewTimer"; "utils.NewEventHandlerPool"]).

  Record racc := { ra_role : N; ra_multi : bool; ra_acc : access; ra_locks : held }.

  (* goroutines that run the inbound dispatch loop (the serving group member that calls
     DefaultHandler.Run on either side) are one and the same role: there is one per handler *)
  Definition role_key (sm : list fsum) (r : role) : N :=
    if mem_n (nid nm "simplefixgo.DefaultHandler.Run") (role_funcs sm r) && negb (r_multi r)
    then nid nm "simplefixgo.DefaultHandler.Run" else r_name r.

  Definition role_accesses (sm : list fsum) (r : role) : list racc :=
    let env := entry_locks sm r in
    flat_map (fun ne : N * held =>
                let (n, eh) := ne in
                if init_phase n then [] else
                match find_sum sm n with
                | Some x => map (fun a => {| ra_role := role_key sm r; ra_multi := r_multi r; ra_acc := a;
                                             ra_locks := a_held a ++ eh |}) (fs_accs x)
                | None => []
                end) env.

  Definition is_write (k : akind) : bool := match k with AWrite => true | _ => false end.
  Definition is_atomic (k : akind) : bool := match k with AAtomic => true | _ => false end.

  (* a common mutex, held exclusively by at least one side *)
  Definition protected_pair (a b : held) : bool :=
    existsb (fun p : N * lockmode =>
               match held_lookup b (fst p) with
               | Some md => snd p || md
               | None => false
               end) a.

  Definition concurrent (x y : racc) : bool :=
    negb (N.eqb (ra_role x) (ra_role y)) || (ra_multi x && ra_multi y).

  Definition conflict (x y : racc) : bool :=
    N.eqb (a_var (ra_acc x)) (a_var (ra_acc y))
    && concurrent x y
    && (negb (is_atomic (a_kind (ra_acc x)) && is_atomic (a_kind (ra_acc y))))
    && (is_write (a_kind (ra_acc x)) || is_write (a_kind (ra_acc y))
        || is_atomic (a_kind (ra_acc x)) || is_atomic (a_kind (ra_acc y))).

  (* variable, (function, line), (function, line) *)
  Definition race_report := (N * (N * nat) * (N * nat))%type.

  Definition report_eqb (a b : race_report) : bool :=
    N.eqb (fst (fst a)) (fst (fst b))
    && N.eqb (fst (snd (fst a))) (fst (snd (fst b))) && Nat.eqb (snd (snd (fst a))) (snd (snd (fst b)))
    && N.eqb (fst (snd a)) (fst (snd b)) && Nat.eqb (snd (snd a)) (snd (snd b)).

  Fixpoint dedup (l : list race_report) : list race_report :=
    match l with
    | [] => []
    | x :: r => if existsb (report_eqb x) r then dedup r else x :: dedup r
    end.

  Definition races : list race_report :=
    let sm := summaries in
    let accs := flat_map (role_accesses sm) all_roles in
    dedup (flat_map (fun x =>
                       flat_map (fun y =>
                                   if conflict x y && negb (protected_pair (ra_locks x) (ra_locks y))
                                   then [(a_var (ra_acc x), (a_func (ra_acc x), a_line (ra_acc x)),
                                          (a_func (ra_acc y), a_line (ra_acc y)))]
                                   else []) accs) accs).

  Definition race_free : bool := match races with [] => true | _ => false end.

  Definition show_race (r : race_report) : string * (string * nat) * (string * nat) :=
    (nstr nm (fst (fst r)), (nstr nm (fst (snd (fst r))), snd (snd (fst r))), (nstr nm (fst (snd r)), snd (snd r))).

  (* ---- C05: the numbered-send critical section ---- *)

  Definition is_ev (k a : N) (e : ev) : bool := N.eqb (e_kind e) k && N.eqb (e_arg e) a.

  (* does n (transitively, through resolved calls) hand a message to the outgoing channel? *)
  Definition enqueues (sm : list fsum) (n : N) : bool :=
    existsb (fun g => existsb (fun f => N.eqb (f_name f) g
                                        && existsb (fun e => (N.eqb (e_kind e) kSelect
                                                              && (N.eqb (e_arg e) (nid nm "send:h.out|recv:h.ctx.Done()")
                                                                  || N.eqb (e_arg e) (nid nm "recv:h.ctx.Done()|send:h.out")))
                                                             || is_ev kSend (nid nm "h.out") e) (f_events f)) fs)
            (reach sm (S (length fs) * 8) [] [n]).

  (* the number is taken and the message handed off inside one exclusive section of the session
     mutex, in the one function that does both; the section lasts until the function returns;
     nobody else takes outbound numbers *)
  Definition critical_ok : bool :=
    let sm := summaries in
    let send := nid nm "session.Session.send" in
    let take := nid nm "memory.Storage.GetNextSeqNum" in
    let mu := nid nm "Session.mu" in
    match filter (fun f => N.eqb (f_name f) send) fs with
    | [f] =>
        let es := with_held [] (f_events f) in
        let takes := filter (fun eh : ev * held => is_ev kCall take (fst eh)) es in
        let hands := filter (fun eh : ev * held => N.eqb (e_kind (fst eh)) kCall && enqueues sm (e_arg (fst eh))) es in
        match takes, hands with
        | [t], [h] => Nat.leb (e_line (fst t)) (e_line (fst h))
        | _, _ => false
        end
        && forallb (fun eh : ev * held => protected_pair (snd eh) [(mu, true)]) (takes ++ hands)
        && existsb (is_ev kDeferUnlock mu) (f_events f)
        && negb (existsb (is_ev kUnlock mu) (f_events f))
        && forallb (fun g => N.eqb (f_name g) send || negb (existsb (is_ev kCall take) (f_events g))) fs
        && negb (N.eqb send 0) && negb (N.eqb take 0) && negb (N.eqb mu 0)
    | _ => false
    end.
  (* ---- C20: message objects are serialized only under the handler mutex ---- *)

  (* [fname] is reached, in every goroutine role that reaches it at all, only with mutex [mu] held
     exclusively (through all call paths), and some role does reach it.  Used for
     DefaultHandler.send: ToBytes writes the message object (body length, checksum, prepared
     bytes), and stored message objects are shared between application senders and the
     ResendRequest service, so every path into send must hold DefaultHandler.mu. *)
  Definition guarded_by (fname mu : string) : bool :=
    let sm := summaries in
    let f := nid nm fname in
    let m := nid nm mu in
    negb (N.eqb f 0) && negb (N.eqb m 0)
    && forallb (fun r => match assoc_n (entry_locks sm r) f with
                         | Some h => match held_lookup h m with Some true => true | _ => false end
                         | None => true
                         end) all_roles
    && existsb (fun r => match assoc_n (entry_locks sm r) f with Some _ => true | None => false end) all_roles.

  Definition unguarded_roles (fname mu : string) : list string :=
    let sm := summaries in
    let f := nid nm fname in
    let m := nid nm mu in
    flat_map (fun r => match assoc_n (entry_locks sm r) f with
                       | Some h => match held_lookup h m with Some true => [] | _ => [nstr nm (r_name r)] end
                       | None => []
                       end) all_roles.

End Analysis.

(* ------------------------------------------------------------------------------------------ *)
(* Part 2: what a passing table means for executions                                           *)

(* an execution is a sequence of thread events; mutexes are exclusive (a shared hold is treated
   as exclusive here: the table already demands an exclusive holder on one side of every pair) *)
Inductive tev :=
| TAcq (t : nat) (m : string)
| TRel (t : nat) (m : string)
| TAcc (t : nat) (v : string) (w : bool).

Definition ownmap := string -> option nat.
Definition upd (o : ownmap) (m : string) (x : option nat) : ownmap :=
  fun m' => if String.eqb m' m then x else o m'.

Fixpoint wf (o : ownmap) (tr : list tev) : Prop :=
  match tr with
  | [] => True
  | TAcq t m :: r => o m = None /\ wf (upd o m (Some t)) r
  | TRel t m :: r => o m = Some t /\ wf (upd o m None) r
  | TAcc _ _ _ :: r => wf o r
  end.

Fixpoint run (o : ownmap) (tr : list tev) : ownmap :=
  match tr with
  | [] => o
  | TAcq t m :: r => run (upd o m (Some t)) r
  | TRel _ m :: r => run (upd o m None) r
  | TAcc _ _ _ :: r => run o r
  end.

Lemma upd_same o m x : upd o m x m = x.
Proof. unfold upd. rewrite String.eqb_refl. reflexivity. Qed.

Lemma upd_other o m x m' : m' <> m -> upd o m x m' = o m'.
Proof. intro H. unfold upd. destruct (String.eqb_spec m' m); [contradiction|reflexivity]. Qed.

(* if nobody acquires m for t2 in a stretch, t2 does not come to own it *)
Lemma acquire_needed m t2 : forall tr o,
  o m <> Some t2 -> run o tr m = Some t2 -> In (TAcq t2 m) tr.
Proof.
  induction tr as [|e r IH]; intros o Ho Hr; cbn [run] in Hr; [contradiction|].
  destruct e as [t m'|t m'|t v w].
  - destruct (String.eqb_spec m' m) as [->|Hm].
    + destruct (Nat.eq_dec t t2) as [->|Ht]; [left; reflexivity|].
      right. apply (IH (upd o m (Some t))); [rewrite upd_same; congruence|exact Hr].
    + right. apply (IH (upd o m' (Some t))); [rewrite upd_other by congruence; exact Ho|exact Hr].
  - destruct (String.eqb_spec m' m) as [->|Hm].
    + right. apply (IH (upd o m None)); [rewrite upd_same; discriminate|exact Hr].
    + right. apply (IH (upd o m' None)); [rewrite upd_other by congruence; exact Ho|exact Hr].
  - right. apply (IH o); assumption.
Qed.

(* C20 metatheorem: two accesses by different threads that both hold m are separated by the
   first thread's release of m followed by the second thread's acquisition of m -- the
   synchronisation edge that orders them *)
Theorem common_lock_orders m t1 t2 : forall mid o,
  t1 <> t2 -> wf o mid -> o m = Some t1 -> run o mid m = Some t2 ->
  exists a b, mid = a ++ TRel t1 m :: b /\ In (TAcq t2 m) b.
Proof.
  induction mid as [|e r IH]; intros o Hne Hwf Ho Hr; cbn [run] in Hr.
  - congruence.
  - destruct e as [t m'|t m'|t v w]; cbn [wf] in Hwf.
    + destruct Hwf as [Hfree Hwf]. destruct (String.eqb_spec m' m) as [->|Hm]; [congruence|].
      destruct (IH (upd o m' (Some t)) Hne Hwf) as (a & b & E & Hin);
        [rewrite upd_other by congruence; exact Ho|exact Hr|].
      exists (TAcq t m' :: a), b. split; [rewrite E; reflexivity|exact Hin].
    + destruct Hwf as [Hown Hwf]. destruct (String.eqb_spec m' m) as [->|Hm].
      * assert (t = t1) by congruence. subst t.
        exists [], r. split; [reflexivity|].
        apply (acquire_needed m t2 r (upd o m None)); [rewrite upd_same; discriminate|exact Hr].
      * destruct (IH (upd o m' None) Hne Hwf) as (a & b & E & Hin);
          [rewrite upd_other by congruence; exact Ho|exact Hr|].
        exists (TRel t m' :: a), b. split; [rewrite E; reflexivity|exact Hin].
    + destruct (IH o Hne Hwf Ho Hr) as (a & b & E & Hin).
      exists (TAcc t v w :: a), b. split; [rewrite E; reflexivity|exact Hin].
Qed.

(* ---- C05 metatheorem ---- *)

(* numbered sends: each thread repeats  acquire m; take the next number; enqueue it; release m *)
Inductive sev :=
| SAcq (t : nat) | SRel (t : nat)
| STake (t : nat) (n : nat)      (* the counter is advanced: n is the value obtained *)
| SEnq (t : nat) (n : nat).      (* the message numbered n is handed to the outgoing channel *)

Inductive phase := Idle | Locked | Taken (n : nat) | Queued.

Record sst := { owner : option nat; ph : nat -> phase; taken : list nat; queued : list nat }.

Definition set_ph (f : nat -> phase) (t : nat) (p : phase) : nat -> phase :=
  fun t' => if Nat.eqb t' t then p else f t'.

(* an execution step is allowed when the mutex is respected and the thread follows its program *)
Definition sstep (s : sst) (e : sev) : option sst :=
  match e with
  | SAcq t => match owner s, ph s t with
              | None, Idle => Some {| owner := Some t; ph := set_ph (ph s) t Locked; taken := taken s; queued := queued s |}
              | _, _ => None end
  | STake t n => match ph s t with
                 | Locked => Some {| owner := owner s; ph := set_ph (ph s) t (Taken n); taken := taken s ++ [n]; queued := queued s |}
                 | _ => None end
  | SEnq t n => match ph s t with
                | Taken n' => if Nat.eqb n n'
                              then Some {| owner := owner s; ph := set_ph (ph s) t Queued; taken := taken s; queued := queued s ++ [n] |}
                              else None
                | _ => None end
  | SRel t => match owner s, ph s t with
              | Some t', Queued => if Nat.eqb t t'
                                   then Some {| owner := None; ph := set_ph (ph s) t Idle; taken := taken s; queued := queued s |}
                                   else None
              | _, _ => None end
  end.

Fixpoint srun (s : sst) (tr : list sev) : option sst :=
  match tr with
  | [] => Some s
  | e :: r => match sstep s e with Some s' => srun s' r | None => None end
  end.

Definition sinit : sst := {| owner := None; ph := fun _ => Idle; taken := []; queued := [] |}.

(* invariant: only the owner of the mutex is inside its section, and what has been enqueued is
   what has been taken, in the same order, except for the one number currently in hand *)
Definition sinv (s : sst) : Prop :=
  (forall t, ph s t <> Idle -> owner s = Some t)
  /\ (match owner s with
      | Some t => match ph s t with
                  | Taken n => taken s = queued s ++ [n]
                  | _ => taken s = queued s
                  end
      | None => taken s = queued s
      end).

Lemma set_ph_same f t p : set_ph f t p t = p.
Proof. unfold set_ph. rewrite Nat.eqb_refl. reflexivity. Qed.
Lemma set_ph_other f t p t' : t' <> t -> set_ph f t p t' = f t'.
Proof. intro H. unfold set_ph. destruct (Nat.eqb_spec t' t); [contradiction|reflexivity]. Qed.

Lemma sstep_inv s e s' : sinv s -> sstep s e = Some s' -> sinv s'.
Proof.
  intros [I1 I2] H. destruct e as [t|t|t n|t n]; cbn [sstep] in H.
  - destruct (owner s) eqn:O; [discriminate|]. destruct (ph s t) eqn:P; try discriminate.
    inversion H; subst. split; cbn [owner ph taken queued].
    + intros t' Ht'. destruct (Nat.eq_dec t' t) as [->|Hn]; [reflexivity|].
      rewrite set_ph_other in Ht' by exact Hn. specialize (I1 t' Ht'). congruence.
    + rewrite set_ph_same. exact I2.
  - destruct (owner s) as [t'|] eqn:O; [|discriminate]. destruct (ph s t) eqn:P; try discriminate.
    destruct (Nat.eqb_spec t t') as [->|]; [|discriminate]. inversion H; subst.
    split; cbn [owner ph taken queued].
    + intros t0 Ht0. destruct (Nat.eq_dec t0 t') as [->|Hn]; [rewrite set_ph_same in Ht0; contradiction|].
      rewrite set_ph_other in Ht0 by exact Hn. specialize (I1 t0 Ht0). congruence.
    + rewrite P in I2. exact I2.
  - destruct (ph s t) eqn:P; try discriminate. inversion H; subst.
    assert (Ho : owner s = Some t) by (apply I1; rewrite P; discriminate).
    split; cbn [owner ph taken queued].
    + intros t0 Ht0. destruct (Nat.eq_dec t0 t) as [->|Hn]; [exact Ho|].
      rewrite set_ph_other in Ht0 by exact Hn. apply I1. exact Ht0.
    + rewrite Ho in *. rewrite P in I2. rewrite set_ph_same. rewrite I2. reflexivity.
  - destruct (ph s t) eqn:P; try discriminate. destruct (Nat.eqb_spec n n0) as [->|]; [|discriminate].
    inversion H; subst.
    assert (Ho : owner s = Some t) by (apply I1; rewrite P; discriminate).
    split; cbn [owner ph taken queued].
    + intros t0 Ht0. destruct (Nat.eq_dec t0 t) as [->|Hn]; [exact Ho|].
      rewrite set_ph_other in Ht0 by exact Hn. apply I1. exact Ht0.
    + rewrite Ho in *. rewrite P in I2. rewrite set_ph_same. exact I2.
Qed.

Lemma sinit_inv : sinv sinit.
Proof. split; [intros t H; exfalso; apply H; reflexivity|reflexivity]. Qed.

(* C05 metatheorem: in every execution of any number of threads, each repeating the section any
   number of times, the numbers reach the channel in the order in which they were taken; at
   most the one number in hand is still missing *)
Theorem enqueue_order_is_take_order : forall tr s,
  srun sinit tr = Some s ->
  taken s = queued s \/ exists n, taken s = queued s ++ [n].
Proof.
  assert (G : forall tr s0 s, sinv s0 -> srun s0 tr = Some s -> sinv s).
  { induction tr as [|e r IH]; intros s0 s I H; cbn [srun] in H; [inversion H; subst; exact I|].
    destruct (sstep s0 e) as [s1|] eqn:E; [|discriminate]. eapply IH; [eapply sstep_inv; eassumption|exact H]. }
  intros tr s H. destruct (G tr sinit s sinit_inv H) as [_ I2].
  destruct (owner s) as [t|]; [|left; exact I2].
  destruct (ph s t); try (left; exact I2). right. eexists. exact I2.
Qed.

(* the same trace without the mutex can put 2 before 1: the section is what the theorem needs *)
Example unlocked_reorders :
  let tr := [STake 1 1; STake 2 2; SEnq 2 2; SEnq 1 1] in
  srun sinit tr = None.
Proof. reflexivity. Qed.
