(* Proto.v -- the line protocol shared with the Go harness, written in
   Gallina so that the extracted driver and vm_compute read the very same
   case lines.  A line is a list of space-separated ASCII tokens; byte
   strings are hex with an 'x' prefix ("x" alone is the empty string, "-"
   is nil). *)
From SF Require Export Parse.
Open Scope N_scope.

Definition tok := bytes.

Fixpoint split_sp_aux (cur : bytes) (l : bytes) : list tok :=
  match l with
  | [] => match cur with [] => [] | _ => [rev cur] end
  | x :: l' =>
      if N.eqb x 32 then
        match cur with [] => split_sp_aux [] l' | _ => rev cur :: split_sp_aux [] l' end
      else split_sp_aux (x :: cur) l'
  end.
Definition tokens (l : bytes) : list tok := split_sp_aux [] l.

Definition hexval (b : N) : option N :=
  if (48 <=? b) && (b <=? 57) then Some (b - 48)
  else if (97 <=? b) && (b <=? 102) then Some (b - 87)
  else None.

Fixpoint unhex_aux (l : bytes) : option bytes :=
  match l with
  | [] => Some []
  | a :: b :: l' =>
      match hexval a, hexval b, unhex_aux l' with
      | Some x, Some y, Some r => Some (x * 16 + y :: r)
      | _, _, _ => None
      end
  | _ => None
  end.

(* "x6162" -> Some "ab" *)
Definition unhex (t : tok) : option bytes :=
  match t with
  | 120 :: l => unhex_aux l
  | _ => None
  end.

(* "-" -> Some None; "x.." -> Some (Some ..) *)
Definition unhex_opt (t : tok) : option (option bytes) :=
  match t with
  | [45] => Some None
  | _ => option_map Some (unhex t)
  end.

Definition hexdigit (n : N) : N := if n <? 10 then 48 + n else 87 + n.

Fixpoint hex_aux (l : bytes) : bytes :=
  match l with
  | [] => []
  | b :: l' => hexdigit (b / 16) :: hexdigit (b mod 16) :: hex_aux l'
  end.
Definition hex (l : bytes) : tok := 120 :: hex_aux l.
Definition hex_opt (o : option bytes) : tok :=
  match o with None => [45] | Some l => hex l end.

Definition tok_nat (t : tok) : option nat := option_map N.to_nat (parse_digits t).
Definition tok_bool (t : tok) : option bool :=
  match t with [48] => Some false | [49] => Some true | _ => None end.
Definition tok_int (t : tok) : option Z :=
  match t with
  | 45 :: ds => option_map (fun n => (- Z.of_N n)%Z) (parse_digits ds)
  | _ => option_map Z.of_N (parse_digits t)
  end.

(* a parser consumes tokens and returns the rest *)
Definition parser (A : Type) := list tok -> option (A * list tok).

Definition p_value : parser value := fun ts =>
  match ts with
  | [83] :: v :: s :: r =>            (* S valid hex *)
      match tok_bool v, unhex s with Some b, Some x => Some (VString b x, r) | _, _ => None end
  | [73] :: v :: z :: r =>            (* I valid int *)
      match tok_bool v, tok_int z with Some b, Some x => Some (VInt b x, r) | _, _ => None end
  | [85] :: v :: n :: r =>            (* U valid nat *)
      match tok_bool v, parse_digits n with Some b, Some x => Some (VUint b x, r) | _, _ => None end
  | [70] :: v :: s :: t :: r =>       (* F valid src text *)
      match tok_bool v, unhex_opt s, unhex t with
      | Some b, Some src, Some x => Some (VFloat b src x, r) | _, _, _ => None end
  | [84] :: v :: t :: r =>            (* T valid text *)
      match tok_bool v, unhex t with Some b, Some x => Some (VTime b x, r) | _, _ => None end
  | [66] :: v :: b :: r =>            (* B valid 0|1 *)
      match tok_bool v, tok_bool b with Some x, Some y => Some (VBool x y, r) | _, _ => None end
  | [82] :: o :: r =>                 (* R -|hex *)
      match unhex_opt o with Some x => Some (VRaw x, r) | None => None end
  | _ => None
  end.

Fixpoint p_count {A} (p : parser A) (n : nat) : parser (list A) := fun ts =>
  match n with
  | O => Some ([], ts)
  | S n' =>
      match p ts with
      | Some (a, r) =>
          match p_count p n' r with Some (l, r') => Some (a :: l, r') | None => None end
      | None => None
      end
  end.

(* items, by fuel (the token count bounds the tree size) *)
Fixpoint p_item (fuel : nat) : parser item := fun ts =>
  match fuel with
  | O => None
  | S f =>
      match ts with
      | [75] :: tag :: r =>           (* K tag value *)
          match unhex tag, p_value r with
          | Some t, Some (v, r') => Some (IKV t v, r') | _, _ => None end
      | [67] :: n :: r =>             (* C n item*n *)
          match tok_nat n with
          | Some k =>
              match p_count (p_item f) k r with
              | Some (l, r') => Some (IComp l, r') | None => None end
          | None => None
          end
      | [71] :: tag :: nt :: r =>     (* G notag ntpl item*ntpl nent (n item*n)*nent *)
          match unhex tag, tok_nat nt with
          | Some t, Some k =>
              match p_count (p_item f) k r with
              | Some (tpl, ne :: r') =>
                  match tok_nat ne with
                  | Some e =>
                      match p_count
                              (fun ts' => match ts' with
                                          | n1 :: r1 =>
                                              match tok_nat n1 with
                                              | Some k1 => p_count (p_item f) k1 r1
                                              | None => None end
                                          | [] => None end) e r' with
                      | Some (es, r'') => Some (IGroup t tpl es, r'')
                      | None => None
                      end
                  | None => None
                  end
              | _ => None
              end
          | _, _ => None
          end
      | _ => None
      end
  end.

Definition p_items (fuel : nat) : parser (list item) := fun ts =>
  match ts with
  | n :: r => match tok_nat n with Some k => p_count (p_item fuel) k r | None => None end
  | [] => None
  end.

(* M bsTag blTag csTag mtTag bs mt nh item* nb item* nt item* *)
Definition p_message : parser message := fun ts =>
  match ts with
  | [77] :: a :: b :: c :: d :: r =>
      match unhex a, unhex b, unhex c, unhex d with
      | Some bst, Some blt, Some cst, Some mtt =>
          match p_value r with
          | Some (bs, r0) =>
          match p_value r0 with
          | Some (mt, r1) =>
              let fuel := length r1 in
              match p_items fuel r1 with
              | Some (hd, r2) =>
                  match p_items fuel r2 with
                  | Some (bd, r3) =>
                      match p_items fuel r3 with
                      | Some (tr, r4) =>
                          Some ({| m_bs_tag := bst; m_bl_tag := blt; m_cs_tag := cst; m_mt_tag := mtt;
                                   m_bs := bs; m_bl := VInt false 0%Z; m_mt := mt;
                                   m_cs := VString false [];
                                   m_header := hd; m_body := bd; m_trailer := tr |}, r4)
                      | None => None end
                  | None => None end
              | None => None end
          | None => None end
          | None => None end
      | _, _, _, _ => None
      end
  | _ => None
  end.

(* O n (text fok tcanon)*n : the oracle's graph as an association list *)
Definition p_oracle_entry : parser (bytes * (bool * option bytes)) := fun ts =>
  match ts with
  | t :: f :: c :: r =>
      match unhex t, tok_bool f, unhex_opt c with
      | Some x, Some b, Some y => Some ((x, (b, y)), r) | _, _, _ => None end
  | _ => None
  end.

Fixpoint assoc (l : list (bytes * (bool * option bytes))) (k : bytes) : bool * option bytes :=
  match l with
  | [] => (false, None)
  | (k', v) :: l' => if beq k k' then v else assoc l' k
  end.

Definition oracle_of (l : list (bytes * (bool * option bytes))) : oracle :=
  {| float_ok := fun d => fst (assoc l d); time_canon := fun d => snd (assoc l d) |}.

Definition p_oracle : parser oracle := fun ts =>
  match ts with
  | [79] :: n :: r =>
      match tok_nat n with
      | Some k =>
          match p_count p_oracle_entry k r with
          | Some (l, r') => Some (oracle_of l, r') | None => None end
      | None => None
      end
  | _ => None
  end.

(* ---- printing the observable projection of a message ---- *)

Definition sp (a b : bytes) : bytes := a ++ 32 :: b.
Fixpoint spcat (l : list bytes) : bytes :=
  match l with [] => [] | [a] => a | a :: l' => a ++ 32 :: spcat l' end.

Definition type_letter (v : value) : bytes :=
  match v with
  | VString _ _ => [83] | VInt _ _ => [73] | VUint _ _ => [85] | VFloat _ _ _ => [70]
  | VTime _ _ => [84] | VBool _ _ => [66] | VRaw _ => [82]
  end.

Definition pr_bool (b : bool) : bytes := if b then [49] else [48].
Definition pr_nat (n : nat) : bytes := utoa (N.of_nat n).

(* K tag type null tobytes *)
Definition pr_kv (tag : bytes) (v : value) : bytes :=
  spcat [[75]; hex tag; type_letter v; pr_bool (is_null v); hex_opt (val_to_bytes v)].

Fixpoint pr_item (it : item) : bytes :=
  match it with
  | IKV tag v => pr_kv tag v
  | IComp items =>
      spcat ([67] :: pr_nat (length items) ::
             (fix go (l : list item) : list bytes :=
                match l with [] => [] | i :: l' => pr_item i :: go l' end) items)
  | IGroup notag _ es =>
      spcat ([71] :: hex notag :: pr_nat (length es) ::
             (fix goe (l : list (list item)) : list bytes :=
                match l with
                | [] => []
                | e :: l' =>
                    spcat (pr_nat (length e) ::
                           (fix go (l2 : list item) : list bytes :=
                              match l2 with [] => [] | i :: l2' => pr_item i :: go l2' end) e)
                    :: goe l'
                end) es)
  end.

Definition pr_items (l : list item) : bytes :=
  spcat (pr_nat (length l) :: map pr_item l).

Definition pr_message (m : message) : bytes :=
  spcat [[77]; pr_kv (m_bs_tag m) (m_bs m); pr_kv (m_bl_tag m) (m_bl m);
         pr_kv (m_mt_tag m) (m_mt m); pr_kv (m_cs_tag m) (m_cs m);
         pr_items (m_header m); pr_items (m_body m); pr_items (m_trailer m)].

Definition s_OK : bytes := [79; 75].
Definition s_ERR : bytes := [69; 82; 82].
Definition s_PANIC : bytes := [80; 65; 78; 73; 67].
Definition s_FUEL : bytes := [70; 85; 69; 76].
Definition s_BAD : bytes := [66; 65; 68; 67; 65; 83; 69].   (* BADCASE: unparsable line *)

Definition pr_result {A} (pr : A -> bytes) (r : result A) : bytes :=
  match r with
  | Ok a => match pr a with [] => s_OK | b => sp s_OK b end
  | Err => s_ERR
  | Panic => s_PANIC
  | OutOfFuel => s_FUEL
  end.

(* ---- commands ---- *)

Definition cmd_is (name : list N) (t : tok) : bool := beq name t.

Definition c_TOBYTES : bytes := [84;79;66;89;84;69;83].
Definition c_UNMARSHAL : bytes := [85;78;77;65;82;83;72;65;76].
Definition c_VALBYTAG : bytes := [86;65;76;66;89;84;65;71].
Definition c_VALIDATE : bytes := [86;65;76;73;68;65;84;69].
Definition c_SPLIT : bytes := [83;80;76;73;84].
Definition c_ITEMS : bytes := [73;84;69;77;83].

(* run one case line of the codec family; the answer is one line *)
Definition run_codec (line : bytes) : bytes :=
  match tokens line with
  | c :: r =>
      if cmd_is c_TOBYTES c then
        (* TOBYTES msg -> hex bytes + projection of the prepared message *)
        match p_message r with
        | Some (m, []) =>
            let (m', b) := prepare m in sp (hex b) (pr_message m')
        | _ => s_BAD
        end
      else if cmd_is c_UNMARSHAL c then
        (* UNMARSHAL oracle msg data *)
        match p_oracle r with
        | Some (o, r1) =>
            match p_message r1 with
            | Some (m, [d]) =>
                match unhex d with
                | Some data => pr_result pr_message (unmarshal o m data)
                | None => s_BAD
                end
            | _ => s_BAD
            end
        | None => s_BAD
        end
      else if cmd_is c_ITEMS c then
        (* ITEMS oracle n item* data : unmarshalItems on a bare item list *)
        match p_oracle r with
        | Some (o, r1) =>
            match p_items (length r1) r1 with
            | Some (l, [d]) =>
                match unhex d with
                | Some data => pr_result pr_items (unmarshal_items o data l)
                | None => s_BAD
                end
            | _ => s_BAD
            end
        | None => s_BAD
        end
      else if cmd_is c_VALBYTAG c then
        match r with
        | [d; t] =>
            match unhex d, unhex t with
            | Some data, Some tag => pr_result hex (value_by_tag data tag)
            | _, _ => s_BAD
            end
        | _ => s_BAD
        end
      else if cmd_is c_VALIDATE c then
        (* VALIDATE bsTag blTag csTag wantbs data *)
        match r with
        | [a; b; c'; w; d] =>
            match unhex a, unhex b, unhex c', unhex_opt w, unhex d with
            | Some bst, Some blt, Some cst, Some wb, Some data =>
                pr_result (fun _ => []) (validate_raw bst blt cst wb data)
            | _, _, _, _, _ => s_BAD
            end
        | _ => s_BAD
        end
      else if cmd_is c_SPLIT c then
        match r with
        | [l; f] =>
            match unhex l, unhex f with
            | Some line', Some ft =>
                pr_result (fun chunks => spcat (map hex chunks))
                  (split_group (S (length line')) line' ft)
            | _, _ => s_BAD
            end
        | _ => s_BAD
        end
      else s_BAD
  | [] => s_BAD
  end.
