(* Session_c15.v -- C15 over whole histories: once Stop has been called, its handler for the logout
   event stays registered whatever happens afterwards, so the peer's Logout answer -- whenever it
   arrives -- cancels the session context (unless an application handler registered for that event
   ends the chain), and the close deadline cancels it in any case. *)
From Coq Require Import List ZArith Lia Bool.
From SF Require Import Bytes Values Wire Parse Session Bytes_proofs Session_proofs Session_clean
  Session_handlers Session_c07 Session_c05 Session_hist Session_c10.
Import ListNotations.
Open Scope Z_scope.

Definition stop_registered (s : sstate) : Prop := In EStopLogout (ev_get (s_ev s) EvLogout).

Section Stop.
Variable cfg : config.

Definition S15 (s : sstate) (tr : list message) : Prop := stop_registered s.

Lemma S15_keeps s s' tr : S15 s tr -> keeps s s' -> S15 s' tr.
Proof.
  unfold S15, stop_registered. intros H (_ & _ & _ & _ & G). destruct (G EvLogout) as (extra & E).
  rewrite E. apply in_or_app. left. exact H.
Qed.

Lemma S15_send s m s' o tr :
  S15 s tr -> m_header m = tpl_Header -> session_send cfg s m = (s', o) -> S15 s' (tr ++ wires o).
Proof.
  unfold S15, stop_registered. intros H _ E.
  destruct (session_send_spec _ _ _ _ _ E) as (_ & C & _).
  destruct C as (_ & _ & _ & _ & _ & Ev & _). rewrite Ev. exact H.
Qed.

Lemma S15_batch s from to ms s' o tr :
  S15 s tr -> store_messages s from to = Some ms -> send_batch cfg s ms = (s', o) -> S15 s' (tr ++ wires o).
Proof.
  unfold S15, stop_registered. intros H _ E.
  destruct (send_batch_spec _ _ _ _ _ E) as (_ & C & _).
  destruct C as (_ & _ & _ & _ & _ & Ev & _). rewrite Ev. exact H.
Qed.

(* Stop registers the handler; it is there when Stop returns *)
Lemma stop_registers s s1 o1 : step cfg s AppStop = (s1, o1) -> stop_registered s1.
Proof.
  cbn [step]. intro H.
  match type of H with do_logout cfg ?sx = _ => assert (H0 : S15 sx []) end.
  { unfold S15, stop_registered. cbn [s_ev upd_pools]. rewrite ev_get_add. cbn [event_eqb].
    apply in_or_app. right. left. reflexivity. }
  exact (do_logout_I cfg S15 S15_keeps S15_send _ _ _ _ H0 H).
Qed.

(* and stays registered through every later history *)
Theorem stop_registered_forever s s1 o1 ops s' os :
  step cfg s AppStop = (s1, o1) -> Forall op_clean ops -> run_ops cfg s1 ops = (s', os) ->
  stop_registered s'.
Proof.
  intros H Hc Hr.
  exact (history_I cfg S15 S15_keeps S15_send S15_batch ops s1 s' os [] (stop_registers _ _ _ H) Hc Hr).
Qed.

(* the peer's Logout while the session waits for it: nothing is sent, the logout event runs, and
   with Stop's handler registered the context is cancelled *)
Theorem stop_answer_cancels s d lm :
  parse_as msgtype_Logout tpl_Logout d = Ok lm -> s_state s = WaitingLogoutAnswer ->
  stop_registered s ->
  Forall (fun h => match h with EApp _ c => c = true | _ => True end) (ev_get (s_ev s) EvLogout) ->
  exists s' o, run_in_handler cfg s HLogout d = (s', o, true)
               /\ s_cancelled s' = true /\ wires o = [] /\ In (OEvent EvLogout) o
               /\ is_logged s' = false.
Proof.
  intros P St Reg Cont.
  destruct (peer_logout_answer cfg s d lm P St) as (s1 & o1 & E1 & E & W).
  rewrite E. eexists. eexists. split; [reflexivity|].
  split; [|split; [exact W|split; [left; reflexivity|]]].
  - cbn [s_cancelled upd_state stop_timers upd_timers].
    exact (stop_handler_cancels _ _ _ _ Reg Cont E1).
  - unfold is_logged. cbn [s_state upd_state]. unfold state_after_logout. destruct (c_side cfg); reflexivity.
Qed.

End Stop.

(* C15, Stop, over histories: the application stops the session at some point of some history;
   whatever happens afterwards (inbound messages of any content, sends, registrations of
   pass-through handlers, timer expiries), if the session is still waiting for the answer when the
   peer's Logout arrives, that message cancels the session context, is answered by nothing and
   signals the logout event -- provided the application's own handlers for that event let the chain
   continue. *)
Theorem C15_stop_history cfg s s1 o1 ops s2 os d lm :
  step cfg s AppStop = (s1, o1) -> Forall op_clean ops -> run_ops cfg s1 ops = (s2, os) ->
  parse_as msgtype_Logout tpl_Logout d = Ok lm -> s_state s2 = WaitingLogoutAnswer ->
  Forall (fun h => match h with EApp _ c => c = true | _ => True end) (ev_get (s_ev s2) EvLogout) ->
  exists s' o, run_in_handler cfg s2 HLogout d = (s', o, true)
               /\ s_cancelled s' = true /\ wires o = [] /\ In (OEvent EvLogout) o
               /\ is_logged s' = false.
Proof.
  intros H Hc Hr P St Cont.
  exact (stop_answer_cancels cfg s2 d lm P St (stop_registered_forever cfg s s1 o1 ops s2 os H Hc Hr) Cont).
Qed.

(* non-vacuity: a logged-on session is stopped, an application message is still sent, the peer's
   Logout arrives: the premises hold and the context is cancelled by that message *)
Definition ex15_logout : bytes :=
  to_bytes (with_header (mk_msg msgtype_Logout tpl_Logout)
    (set_kv tag_MsgSeqNum (VInt true 2)
      (set_kv tag_TargetCompID (VString true [83%N])
        (set_kv tag_SenderCompID (VString true [67%N])
          (set_kv tag_SendingTime (VString true sending_time_placeholder) tpl_Header))))).

Definition ex15_before := fst (run_ops ex5_cfg (fst ex10_run) [Inbound ex10_logon]).
Definition ex15_stopped := step ex5_cfg ex15_before AppStop.
Definition ex15_later := run_ops ex5_cfg (fst ex15_stopped) [AppSend (AppTestRequest [120%N]); RegEv EvLogout 4 true].

Example stop_example :
  is_logged ex15_before = true
  /\ Forall op_clean [AppSend (AppTestRequest [120%N]); RegEv EvLogout 4 true]
  /\ s_state (fst ex15_later) = WaitingLogoutAnswer /\ s_cancelled (fst ex15_later) = false
  /\ (exists lm, parse_as msgtype_Logout tpl_Logout ex15_logout = Ok lm)
  /\ Forall (fun h => match h with EApp _ c => c = true | _ => True end) (ev_get (s_ev (fst ex15_later)) EvLogout)
  /\ s_cancelled (fst (fst (run_in_handler ex5_cfg (fst ex15_later) HLogout ex15_logout))) = true.
Proof.
  split; [vm_compute; reflexivity|]. split; [repeat constructor|].
  split; [vm_compute; reflexivity|]. split; [vm_compute; reflexivity|].
  split; [eexists; vm_compute; reflexivity|].
  split; [vm_compute; repeat constructor|vm_compute; reflexivity].
Qed.
