(* Lifecycle_proofs.v -- the metatheorem of Lifecycle.v, Part 2. *)
From Coq Require Import String List Bool Arith Lia.
From SF Require Import Lifecycle.
Import ListNotations.
Open Scope list_scope.

Lemma mstep_return_cancels c s cn : mstep c s = Some ([], cn) -> cn = true.
Proof.
  destruct s as [|p r]; cbn; [discriminate|].
  destruct p as [|esc].
  - destruct r as [|q r']; intros H; inversion H; reflexivity.
  - destruct (c && esc); intros H; inversion H; reflexivity.
Qed.

Lemma mstep_shorter c s s' cn : mstep c s = Some (s', cn) -> List.length s' < List.length s.
Proof.
  destruct s as [|p r]; cbn; [discriminate|].
  destruct p as [|esc].
  - destruct r as [|q r']; intros H; inversion H; subst; cbn; lia.
  - destruct (c && esc); intros H; inversion H; subst; cbn; lia.
Qed.

Lemma mstep_sub c s s' cn : mstep c s = Some (s', cn) -> forall p, In p s' -> In p s.
Proof.
  destruct s as [|p r]; cbn; [discriminate|].
  destruct p as [|esc].
  - destruct r as [|q r']; intros H; inversion H; subst; intros p Hp; [destruct Hp|right; exact Hp].
  - destruct (c && esc); intros H; inversion H; subst; intros p Hp; destruct Hp.
Qed.

(* a member that has not returned and sits in a cancelled scope with escapable sites can move *)
Lemma member_not_stuck s :
  s <> [] -> (forall b, In (Site b) s -> b = true) -> exists s' cn, mstep true s = Some (s', cn).
Proof.
  destruct s as [|p r]; intros Hne Hesc; [congruence|].
  destruct p as [|esc].
  - destruct r as [|q r']; cbn; eauto.
  - cbn. rewrite (Hesc esc (or_introl eq_refl)). cbn. eauto.
Qed.

Lemma weight_set_nth i s s' l :
  nth_error l i = Some s -> List.length s' < List.length s ->
  fold_right (fun s n => List.length s + n) 0 (set_nth i s' l)
  < fold_right (fun s n => List.length s + n) 0 l.
Proof.
  revert i; induction l as [|y r IH]; intros i Hn Hl.
  - destruct i; discriminate.
  - destruct i as [|i']; cbn in *.
    + inversion Hn; subst. lia.
    + specialize (IH i' Hn Hl). lia.
Qed.

Lemma gstep_weight g g' : gstep g g' -> weight g' < weight g.
Proof.
  intros H; inversion H as [i s s' cn g0 Hn Hm]; subst. unfold weight; cbn.
  apply (weight_set_nth i s s'); [exact Hn|]. eapply mstep_shorter; exact Hm.
Qed.

Lemma In_set_nth i s' l x : In x (set_nth i s' l) -> x = s' \/ In x l.
Proof.
  revert i; induction l as [|y r IH]; intros i Hx; destruct i as [|i']; cbn in *; try tauto.
  - destruct Hx as [Hx|Hx]; [left; congruence|right; right; exact Hx].
  - destruct Hx as [Hx|Hx]; [right; left; exact Hx|]. destruct (IH i' Hx); tauto.
Qed.

Lemma gstep_escapable g g' : gstep g g' -> all_escapable g -> all_escapable g'.
Proof.
  intros H Hesc; inversion H as [i s s' cn g0 Hn Hm]; subst.
  intros x Hx b Hb; cbn in Hx. destruct (In_set_nth _ _ _ _ Hx) as [->|Hin].
  - apply (Hesc s); [eapply nth_error_In; exact Hn|]. eapply mstep_sub; [exact Hm|exact Hb].
  - exact (Hesc x Hin b Hb).
Qed.

Lemma gstep_cancelled g g' : gstep g g' -> cancelled g = true -> cancelled g' = true.
Proof. intros H Hc; inversion H; subst; cbn. rewrite Hc. reflexivity. Qed.

(* the first member that returns cancels the scope for all the others *)
Theorem first_return_cancels g g' i :
  gstep g g' -> nth_error (mem g') i = Some [] -> nth_error (mem g) i <> Some [] -> cancelled g' = true.
Proof.
  intros H Hi Hne; inversion H as [j s s' cn g0 Hn Hm]; subst; cbn in *.
  assert (Hcase : j = i /\ s' = [] \/ nth_error (mem g) i = Some []).
  { clear Hm Hne H. revert i j Hn Hi. generalize (mem g) as l.
    induction l as [|y r IH]; intros i j Hn Hi.
    - destruct j; discriminate.
    - destruct j as [|j'], i as [|i']; cbn in *.
      + inversion Hi; subst. left; split; reflexivity.
      + right; exact Hi.
      + right; exact Hi.
      + destruct (IH i' j' Hn Hi) as [[-> ->]|Hr]; [left; split; reflexivity|right; exact Hr]. }
  destruct Hcase as [[-> ->]|Hr]; [|contradiction].
  rewrite (mstep_return_cancels _ _ _ Hm). apply orb_true_r.
Qed.

(* progress: a cancelled group whose sites are all escapable is never stuck before everyone
   has returned *)
Theorem cancelled_group_progress g :
  cancelled g = true -> all_escapable g -> ~ returned g -> exists g', gstep g g'.
Proof.
  intros Hc Hesc Hnr.
  assert (Hex : exists s, In s (mem g) /\ s <> []).
  { clear Hc Hesc. unfold returned in Hnr. induction (mem g) as [|y r IH].
    - exfalso; apply Hnr; intros s [].
    - destruct y as [|p q].
      + destruct IH as [s [Hs Hne]].
        * intros Hall; apply Hnr; intros s [<-|Hs]; [reflexivity|exact (Hall s Hs)].
        * exists s; split; [right; exact Hs|exact Hne].
      + exists (p :: q); split; [left; reflexivity|discriminate]. }
  destruct Hex as [s [Hin Hne]].
  destruct (In_nth_error _ _ Hin) as [i Hi].
  destruct (member_not_stuck s Hne (Hesc s Hin)) as [s' [cn Hm]].
  eexists. eapply (GStep i s s' cn g); [exact Hi|rewrite Hc; exact Hm].
Qed.

Inductive steps : nat -> group -> group -> Prop :=
| steps_0 g : steps 0 g g
| steps_S n g g' g'' : gstep g g' -> steps n g' g'' -> steps (S n) g g''.

Lemma steps_bounded n g g' : steps n g g' -> n + weight g' <= weight g.
Proof.
  induction 1 as [g|n g g' g'' Hs _ IH]; [lia|]. pose proof (gstep_weight _ _ Hs). lia.
Qed.

Lemma steps_inv n g g' :
  steps n g g' -> cancelled g = true -> all_escapable g -> cancelled g' = true /\ all_escapable g'.
Proof.
  induction 1 as [g|n g g' g'' Hs _ IH]; intros Hc He; [split; assumption|].
  apply IH; [eapply gstep_cancelled; eassumption|eapply gstep_escapable; eassumption].
Qed.

Lemma classic_returned g : returned g \/ ~ returned g.
Proof.
  unfold returned. induction (mem g) as [|y r IH].
  - left; intros s [].
  - destruct y as [|p q].
    + destruct IH as [IH|IH].
      * left; intros s [<-|Hs]; [reflexivity|exact (IH s Hs)].
      * right; intros Hall; apply IH; intros s Hs; apply Hall; right; exact Hs.
    + right; intros Hall. specialize (Hall (p :: q) (or_introl eq_refl)). discriminate.
Qed.

(* every execution of a cancelled group with escapable sites is at most [weight] steps long, and
   when it can go no further every member has returned *)
Theorem group_unwinds n g g' :
  cancelled g = true -> all_escapable g -> steps n g g' ->
  n <= weight g /\ ((forall g'', ~ gstep g' g'') -> returned g').
Proof.
  intros Hc He Hs. split.
  - pose proof (steps_bounded _ _ _ Hs). lia.
  - intros Hmax. destruct (steps_inv _ _ _ Hs Hc He) as [Hc' He'].
    destruct (classic_returned g') as [Hr|Hr]; [exact Hr|].
    destruct (cancelled_group_progress g' Hc' He' Hr) as [g'' Hg]. exfalso; exact (Hmax g'' Hg).
Qed.

(* the hypothesis is what matters: one site without a releasing alternative and the member is
   parked for good although the scope is cancelled (the reader hand-off before the repair) *)
Example unescapable_site_sticks :
  let g := {| cancelled := true; mem := [[]; [Site false; Work]] |} in
  ~ returned g /\ forall g', ~ gstep g g'.
Proof.
  cbn; split.
  - intros H. specialize (H [Site false; Work] (or_intror (or_introl eq_refl))). discriminate.
  - intros g' H; inversion H as [i s s' cn g0 Hn Hm]; subst; cbn in *.
    destruct i as [|[|[|i]]]; cbn in Hn; inversion Hn; subst; cbn in Hm; discriminate.
Qed.

(* non-vacuity: a group as the serve functions build it -- reader parked at its hand-off, pump
   parked at its select, writer in the middle of work -- unwinds after the writer returns *)
Example group_example :
  let g := {| cancelled := false; mem := [[Site true; Work]; [Site true]; [Work; Work]] |} in
  all_escapable g /\ exists g', steps 4 g g' /\ returned g' /\ cancelled g' = true.
Proof.
  cbn; split.
  - intros s Hs b Hb. cbn in Hs.
    destruct Hs as [<-|[<-|[<-|[]]]]; cbn in Hb;
      repeat (destruct Hb as [Hb|Hb]; [inversion Hb; try reflexivity|]); try destruct Hb.
  - eexists. split; [|split].
    + eapply steps_S; [eapply (GStep 2 [Work; Work]); reflexivity|]. cbn.
      eapply steps_S; [eapply (GStep 2 [Work]); reflexivity|]. cbn.
      eapply steps_S; [eapply (GStep 0 [Site true; Work]); reflexivity|]. cbn.
      eapply steps_S; [eapply (GStep 1 [Site true]); reflexivity|]. cbn.
      apply steps_0.
    + intros s Hs; cbn in Hs. destruct Hs as [<-|[<-|[<-|[]]]]; reflexivity.
    + reflexivity.
Qed.
