(* Damage_proofs.v -- damaged messages are rejected (C03, theorem B). *)
From SF Require Import Bytes Values Wire Parse Bytes_proofs Wire_proofs Fields_proofs Safety_proofs Validate_proofs.
From Coq Require Import ZifyN ZifyNat ZifyBool.
Open Scope N_scope.
Ltac Zify.zify_post_hook ::= Z.div_mod_to_equations.

Definition wf_bytes (d : bytes) : Prop := Forall (fun b => b < 256) d.

Lemma app_len_split {A} (u u' v v' : list A) :
  length u = length u' -> u ++ v = u' ++ v' -> u = u' /\ v = v'.
Proof.
  revert u'. induction u as [|x u IH]; intros [|y u'] Hl H; cbn in Hl; try lia.
  - split; [reflexivity|exact H].
  - cbn [app] in H. inversion H; subst. destruct (IH u' ltac:(lia) H2) as [-> ->]. split; reflexivity.
Qed.

(* the part of [framed] that concerns the checksum *)
Definition csframed (cst d X c : bytes) : Prop :=
  d = X ++ (cst ++ EQS :: c) ++ [SOH] /\ c = pad3 (sum_bytes X mod 256).

Lemma framed_csframed bst blt cst d bs L B c :
  framed bst blt cst d bs L B c ->
  csframed cst d ((bst ++ EQS :: bs) ++ SOH :: (blt ++ EQS :: L) ++ SOH :: B) c.
Proof.
  intros [Sh _ _ _ _ _ Cs]. split; [|exact Cs].
  rewrite Sh at 1. repeat (rewrite <- ?app_assoc; cbn [app]). reflexivity.
Qed.

Lemma pad3_len n : length (pad3 (n mod 256)) = 3%nat.
Proof. apply pad3_spec. apply N.mod_lt. discriminate. Qed.

Lemma csframed_len cst d X c : csframed cst d X c -> length d = (length X + length cst + 5)%nat.
Proof.
  intros [-> ->]. rewrite !app_length. cbn [length]. rewrite pad3_len. lia.
Qed.

Lemma csframed_same_X cst d d' X c c' :
  csframed cst d X c -> csframed cst d' X c' -> d = d'.
Proof. intros [-> ->] [-> ->]. reflexivity. Qed.

Lemma mod256_cancel s x y : x < 256 -> y < 256 -> (x + s) mod 256 = (y + s) mod 256 -> x = y.
Proof. intros. lia. Qed.

(* B1: every single-byte substitution is rejected *)
Lemma substitution_breaks_checksum cst w w' X X' c c' a b x y :
  csframed cst w X c -> csframed cst w' X' c' ->
  w = a ++ x :: b -> w' = a ++ y :: b -> x < 256 -> y < 256 -> x = y.
Proof.
  intros Hw Hw' Ew Ew' Hx Hy.
  pose proof (csframed_len _ _ _ _ Hw) as Lw. pose proof (csframed_len _ _ _ _ Hw') as Lw'.
  assert (LX : length X = length X').
  { rewrite Ew in Lw. rewrite Ew' in Lw'. rewrite app_length in Lw, Lw'. cbn [length] in Lw, Lw'. lia. }
  destruct Hw as [Sw Cw]. destruct Hw' as [Sw' Cw'].
  set (T1 := (cst ++ EQS :: c) ++ [SOH]) in *. set (T1' := (cst ++ EQS :: c') ++ [SOH]) in *.
  assert (E : X ++ T1 = a ++ x :: b) by (rewrite <- Sw; exact Ew).
  apply app_eq_app in E as [l [[EX Eb]|[Ea Et]]].
  - destruct l as [|x0 l].
    + (* boundary: the changed byte is the first of the CheckSum field *)
      rewrite app_nil_r in EX. subst a.
      assert (E' : X' ++ T1' = X ++ (y :: b)) by (rewrite <- Sw', Ew'; reflexivity).
      apply app_len_split in E' as [EX' _]; [|lia]. subst X'.
      assert (H : w = w') by (rewrite Sw, Sw'; unfold T1, T1'; rewrite Cw, Cw'; reflexivity).
      rewrite Ew, Ew' in H. apply app_inv_head in H. inversion H. reflexivity.
    + (* the change is before the CheckSum field *)
      cbn [app] in Eb. inversion Eb; subst x0. subst b.
      assert (E' : X' ++ T1' = (a ++ y :: l) ++ T1).
      { rewrite <- Sw', Ew'. rewrite <- app_assoc. reflexivity. }
      apply app_len_split in E' as [EX' ET].
      2:{ rewrite <- LX, EX. rewrite !app_length. cbn [length]. lia. }
      unfold T1, T1' in ET. apply app_inv_tail in ET. apply app_inv_head in ET. inversion ET as [Ec].
      rewrite Cw, Cw' in Ec.
      apply pad3_inj in Ec; try (apply N.mod_lt; discriminate).
      rewrite EX, EX' in Ec. rewrite !sum_bytes_app, !sum_bytes_cons in Ec.
      symmetry. apply (mod256_cancel (sum_bytes a + sum_bytes l)); try assumption. lia.
  - (* a = X ++ l: the change is inside the CheckSum field *)
    assert (E' : X' ++ T1' = X ++ (l ++ y :: b)).
    { rewrite <- Sw', Ew', Ea. rewrite <- app_assoc. reflexivity. }
    apply app_len_split in E' as [EX' _]; [|lia]. subst X'.
    assert (H : w = w') by (rewrite Sw, Sw'; unfold T1, T1'; rewrite Cw, Cw'; reflexivity).
    rewrite Ew, Ew' in H. apply app_inv_head in H. inversion H. reflexivity.
Qed.

Theorem substitution_rejected :
  forall bst blt cst wb (w : bytes) bs L B c a x y b,
    framed bst blt cst w bs L B c ->
    w = a ++ x :: b -> x < 256 -> y < 256 -> x <> y ->
    validate_raw bst blt cst wb (a ++ y :: b) <> Ok tt.
Proof.
  intros bst blt cst wb w bs L B c a x y b Fw Ew Hx Hy Hne Hacc.
  destruct (validate_raw_sound _ _ _ _ _ Hacc) as (bs' & L' & B' & c' & Fw' & _).
  apply Hne. eapply substitution_breaks_checksum.
  - apply framed_csframed. exact Fw.
  - apply framed_csframed. exact Fw'.
  - exact Ew.
  - reflexivity.
  - exact Hx.
  - exact Hy.
Qed.

(* ---- the two leading fields are determined by the bytes ---- *)

Lemma sohfree_split_unique (u u' v v' : bytes) :
  u ++ SOH :: v = u' ++ SOH :: v' -> sohfree u -> sohfree u' -> u = u' /\ v = v'.
Proof.
  revert u'. induction u as [|x u IH]; intros [|y u'] H Hu Hu'; cbn [app] in H.
  - inversion H. split; reflexivity.
  - inversion H; subst. inversion Hu'; subst. contradiction.
  - inversion H; subst. inversion Hu; subst. contradiction.
  - inversion H; subst. inversion Hu; inversion Hu'; subst.
    destruct (IH u' H2) as [-> ->]; try assumption. split; reflexivity.
Qed.

Lemma header_det (f1 f2 r f1' f2' r' : bytes) :
  f1 ++ SOH :: f2 ++ SOH :: r = f1' ++ SOH :: f2' ++ SOH :: r' ->
  sohfree f1 -> sohfree f2 -> sohfree f1' -> sohfree f2' ->
  f1 = f1' /\ f2 = f2' /\ r = r'.
Proof.
  intros H S1 S2 S1' S2'.
  destruct (sohfree_split_unique _ _ _ _ H S1 S1') as [-> H2].
  destruct (sohfree_split_unique _ _ _ _ H2 S2 S2') as [-> ->]. repeat split.
Qed.

Definition digits (t : bytes) : Prop := Forall (fun b => 48 <= b <= 57) t.

Lemma digits_sohfree t : digits t -> sohfree t.
Proof. apply Forall_impl. intros b Hb E. rewrite E in Hb. unfold SOH in Hb. lia. Qed.

Lemma sohfree_tagfield t v : digits t -> sohfree v -> sohfree (t ++ EQS :: v).
Proof.
  intros Ht Hv. apply Forall_app. split; [apply digits_sohfree; exact Ht|].
  constructor; [discriminate|exact Hv].
Qed.

(* the header of a framed string and the rest *)
Lemma framed_header bst blt cst d bs L B c :
  framed bst blt cst d bs L B c ->
  d = (bst ++ EQS :: bs) ++ SOH :: (blt ++ EQS :: L) ++ SOH :: (B ++ (cst ++ EQS :: c) ++ [SOH]).
Proof. intros [Sh _ _ _ _ _ _]. rewrite Sh at 1. repeat (rewrite <- ?app_assoc; cbn [app]). reflexivity. Qed.

(* total length of a framed string, from its header alone *)
Lemma framed_total_length bst blt cst d bs L B c z :
  framed bst blt cst d bs L B c -> atoi L = Some z ->
  Z.of_nat (length d) =
  (Z.of_nat (length (bst ++ EQS :: bs) + 1 + length (blt ++ EQS :: L) + 1 + length cst + 5) + z)%Z.
Proof.
  intros F A. pose proof (framed_csframed _ _ _ _ _ _ _ _ F) as C.
  apply csframed_len in C. destruct F as [_ _ _ _ _ Len _].
  rewrite Len in A. inversion A; subst z.
  rewrite C. rewrite !app_length. cbn [length]. rewrite !app_length. cbn [length]. lia.
Qed.

(* two accepted strings with the same two leading fields have the same length *)
Lemma same_header_same_length bst blt cst d d' bs L B c bs' L' B' c' :
  digits bst -> digits blt ->
  framed bst blt cst d bs L B c -> framed bst blt cst d' bs' L' B' c' ->
  (exists r r', d = (bst ++ EQS :: bs) ++ SOH :: (blt ++ EQS :: L) ++ SOH :: r /\
                d' = (bst ++ EQS :: bs) ++ SOH :: (blt ++ EQS :: L) ++ SOH :: r') ->
  length d = length d'.
Proof.
  intros Dbs Dbl F F' (r & r' & E & E').
  pose proof (framed_header _ _ _ _ _ _ _ _ F') as H'. rewrite E' in H'.
  pose proof (fr_bs_sohfree _ _ _ _ _ _ _ _ F) as Sbs. pose proof (fr_L_sohfree _ _ _ _ _ _ _ _ F) as SL.
  pose proof (fr_bs_sohfree _ _ _ _ _ _ _ _ F') as Sbs'. pose proof (fr_L_sohfree _ _ _ _ _ _ _ _ F') as SL'.
  pose proof (fr_length _ _ _ _ _ _ _ _ F) as Len. pose proof (fr_length _ _ _ _ _ _ _ _ F') as Len'.
  apply header_det in H' as (H1 & H2 & _);
    try (apply sohfree_tagfield; assumption).
  apply app_inv_head in H1. inversion H1; subst bs'.
  apply app_inv_head in H2. inversion H2; subst L'.
  pose proof (framed_total_length _ _ _ _ _ _ _ _ _ F Len) as T.
  pose proof (framed_total_length _ _ _ _ _ _ _ _ _ F' Len') as T'.
  rewrite Len in Len'. inversion Len'. lia.
Qed.

(* B2: every proper prefix is rejected *)
Theorem truncation_rejected :
  forall bst blt cst wb (w : bytes) bs L B c w' z,
    digits bst -> digits blt ->
    framed bst blt cst w bs L B c ->
    w = w' ++ z -> z <> [] ->
    validate_raw bst blt cst wb w' <> Ok tt.
Proof.
  intros bst blt cst wb w bs L B c w' z Dbs Dbl Fw Ew Hz Hacc.
  destruct (validate_raw_sound _ _ _ _ _ Hacc) as (bs' & L' & B' & c' & Fw' & _).
  assert (Hlen : length w' = length w).
  { eapply (same_header_same_length bst blt cst w' w); try eassumption.
    pose proof (framed_header _ _ _ _ _ _ _ _ Fw') as H'.
    eexists. eexists. split; [exact H'|].
    rewrite Ew. rewrite H' at 1. repeat (rewrite <- ?app_assoc; cbn [app]). reflexivity. }
  rewrite Ew, app_length in Hlen. destruct z; [contradiction|cbn [length] in Hlen; lia].
Qed.

(* ---- insertion and deletion: the checksum argument ---- *)

Lemma framed_X_ends_soh bst blt cst d bs L B c :
  framed bst blt cst d bs L B c ->
  exists X0, (bst ++ EQS :: bs) ++ SOH :: (blt ++ EQS :: L) ++ SOH :: B = X0 ++ [SOH].
Proof.
  intro F. destruct (fr_B_end _ _ _ _ _ _ _ _ F) as [->|[B0 ->]].
  - exists ((bst ++ EQS :: bs) ++ SOH :: (blt ++ EQS :: L)). repeat (rewrite <- ?app_assoc; cbn [app]). reflexivity.
  - exists ((bst ++ EQS :: bs) ++ SOH :: (blt ++ EQS :: L) ++ SOH :: B0).
    repeat (rewrite <- ?app_assoc; cbn [app]). reflexivity.
Qed.

Lemma mod256_zero s x : x < 256 -> (x + s) mod 256 = s mod 256 -> x = 0.
Proof. intros. lia. Qed.

(* An inserted byte that keeps the string acceptable is NUL and lies before the CheckSum field. *)
Lemma insertion_checksum cst w w' X X' c c' a b x :
  csframed cst w X c -> csframed cst w' X' c' ->
  (exists X0, X' = X0 ++ [SOH]) -> sohfree (cst ++ EQS :: c) ->
  w = a ++ b -> w' = a ++ x :: b -> x < 256 ->
  x = 0 /\ (length a <= length X)%nat.
Proof.
  intros Hw Hw' [X0' EX0'] ST Ew Ew' Hx.
  pose proof (csframed_len _ _ _ _ Hw) as Lw. pose proof (csframed_len _ _ _ _ Hw') as Lw'.
  assert (LX : length X' = S (length X)).
  { rewrite Ew in Lw. rewrite Ew' in Lw'. rewrite app_length in Lw, Lw'. cbn [length] in Lw'. lia. }
  destruct Hw as [Sw Cw]. destruct Hw' as [Sw' Cw'].
  set (T1 := (cst ++ EQS :: c) ++ [SOH]) in *. set (T1' := (cst ++ EQS :: c') ++ [SOH]) in *.
  assert (E : X ++ T1 = a ++ b) by (rewrite <- Sw; exact Ew).
  apply app_eq_app in E as [l [[EX Eb]|[Ea Et]]].
  - (* insertion point within X *)
    subst b.
    assert (E' : X' ++ T1' = (a ++ x :: l) ++ T1).
    { rewrite <- Sw', Ew'. repeat (rewrite <- ?app_assoc; cbn [app]). reflexivity. }
    apply app_len_split in E' as [EX' ET].
    2:{ rewrite LX, EX. rewrite !app_length. cbn [length]. lia. }
    unfold T1, T1' in ET. apply app_inv_tail in ET. apply app_inv_head in ET. inversion ET as [Ec].
    rewrite Cw, Cw' in Ec. apply pad3_inj in Ec; try (apply N.mod_lt; discriminate).
    rewrite EX, EX' in Ec. rewrite ?sum_bytes_app, ?sum_bytes_cons, ?sum_bytes_app in Ec.
    split.
    + apply (mod256_zero (sum_bytes a + sum_bytes l)); [assumption|].
      rewrite <- Ec. f_equal. lia.
    + rewrite EX, app_length. lia.
  - destruct l as [|l0 l].
    + rewrite app_nil_r in Ea. subst a. cbn [app] in Et.
      (* insertion exactly at the end of X: covered by the first case with l = [] *)
      subst b.
      assert (E' : X' ++ T1' = (X ++ [x]) ++ T1).
      { rewrite <- Sw', Ew'. repeat (rewrite <- ?app_assoc; cbn [app]). reflexivity. }
      apply app_len_split in E' as [EX' ET].
      2:{ rewrite LX. rewrite !app_length. cbn [length]. lia. }
      unfold T1, T1' in ET. apply app_inv_tail in ET. apply app_inv_head in ET. inversion ET as [Ec].
      rewrite Cw, Cw' in Ec. apply pad3_inj in Ec; try (apply N.mod_lt; discriminate).
      rewrite EX' in Ec. rewrite !sum_bytes_app, !sum_bytes_cons in Ec.
      split; [|lia].
      apply (mod256_zero (sum_bytes X)); [assumption|]. rewrite <- Ec. f_equal.
      change (sum_bytes []) with 0. lia.
    + (* insertion point inside the CheckSum field: the byte before the new last field would be
         the first byte of the old CheckSum field, which is not a delimiter *)
      exfalso.
      assert (E' : X' ++ T1' = (X ++ [l0]) ++ (l ++ x :: b)).
      { rewrite <- Sw', Ew', Ea. repeat (rewrite <- ?app_assoc; cbn [app]). reflexivity. }
      apply app_len_split in E' as [EX' _].
      2:{ rewrite LX. rewrite !app_length. cbn [length]. lia. }
      rewrite EX0' in EX'. apply app_inj_tail in EX' as [_ El0]. subst l0.
      unfold T1 in Et.
      destruct (cst ++ EQS :: c) as [|t0 tl] eqn:ET0; [destruct cst; discriminate|].
      cbn [app] in Et. inversion Et; subst t0. inversion ST; subst. contradiction.
Qed.

(* A deleted byte whose removal keeps the string acceptable is NUL and lies before the CheckSum field. *)
Lemma deletion_checksum cst w w' X X' c c' a b x :
  csframed cst w X c -> csframed cst w' X' c' ->
  (exists X0, X = X0 ++ [SOH]) -> sohfree (cst ++ EQS :: c') ->
  w = a ++ x :: b -> w' = a ++ b -> x < 256 ->
  x = 0 /\ (length a < length X)%nat.
Proof.
  intros Hw Hw' [X0 EX0] ST Ew Ew' Hx.
  pose proof (csframed_len _ _ _ _ Hw) as Lw. pose proof (csframed_len _ _ _ _ Hw') as Lw'.
  assert (LX : length X = S (length X')).
  { rewrite Ew in Lw. rewrite Ew' in Lw'. rewrite app_length in Lw, Lw'. cbn [length] in Lw. lia. }
  destruct Hw as [Sw Cw]. destruct Hw' as [Sw' Cw'].
  set (T1 := (cst ++ EQS :: c) ++ [SOH]) in *. set (T1' := (cst ++ EQS :: c') ++ [SOH]) in *.
  assert (E : X ++ T1 = a ++ x :: b) by (rewrite <- Sw; exact Ew).
  apply app_eq_app in E as [l [[EX Eb]|[Ea Et]]].
  - destruct l as [|l0 l].
    + (* the deleted byte is the first byte of the CheckSum field *)
      exfalso. rewrite app_nil_r in EX. subst a. cbn [app] in Eb.
      assert (E' : X' ++ T1' = X0 ++ (SOH :: b)).
      { rewrite <- Sw', Ew', EX0. repeat (rewrite <- ?app_assoc; cbn [app]). reflexivity. }
      apply app_len_split in E' as [_ ET].
      2:{ rewrite EX0, app_length in LX. cbn [length] in LX. lia. }
      unfold T1' in ET.
      destruct (cst ++ EQS :: c') as [|t0 tl] eqn:ET0; [destruct cst; discriminate|].
      cbn [app] in ET. inversion ET; subst t0. inversion ST; subst. contradiction.
    + (* the deleted byte is inside X *)
      cbn [app] in Eb. inversion Eb; subst l0. subst b.
      assert (E' : X' ++ T1' = (a ++ l) ++ T1).
      { rewrite <- Sw', Ew'. rewrite <- app_assoc. reflexivity. }
      apply app_len_split in E' as [EX' ET].
      2:{ rewrite EX, !app_length in LX. cbn [length] in LX. rewrite app_length. lia. }
      unfold T1, T1' in ET. apply app_inv_tail in ET. apply app_inv_head in ET. inversion ET as [Ec].
      rewrite Cw, Cw' in Ec. apply pad3_inj in Ec; try (apply N.mod_lt; discriminate).
      rewrite EX, EX' in Ec. rewrite !sum_bytes_app, !sum_bytes_cons in Ec.
      split.
      * apply (mod256_zero (sum_bytes a + sum_bytes l)); [assumption|].
        rewrite Ec. f_equal. lia.
      * rewrite EX, app_length. cbn [length]. lia.
  - (* the deleted byte is inside the CheckSum field: the new last field would start with the
       delimiter that ended X *)
    exfalso.
    assert (E' : X' ++ T1' = X0 ++ (SOH :: l ++ b)).
    { rewrite <- Sw', Ew', Ea, EX0. repeat (rewrite <- ?app_assoc; cbn [app]). reflexivity. }
    apply app_len_split in E' as [_ ET].
    2:{ rewrite EX0, app_length in LX. cbn [length] in LX. lia. }
    unfold T1' in ET.
    destruct (cst ++ EQS :: c') as [|t0 tl] eqn:ET0; [destruct cst; discriminate|].
    cbn [app] in ET. inversion ET; subst t0. inversion ST; subst. contradiction.
Qed.

(* ---- a declared length contains no NUL byte ---- *)

Lemma digit_cons_digit b d d' : digit_cons b d = Some d' -> 48 <= b <= 57.
Proof.
  unfold digit_cons. intro H.
  repeat match type of H with
         | (if N.eqb ?x ?y then _ else _) = _ => destruct (N.eqb_spec x y); [lia|]
         end.
  discriminate.
Qed.

Lemma bytes_to_uint_digits l d : bytes_to_uint l = Some d -> Forall (fun b => 48 <= b <= 57) l.
Proof.
  revert d. induction l as [|b l IH]; intros d H; [constructor|].
  cbn [bytes_to_uint] in H. destruct (bytes_to_uint l) as [d0|] eqn:E; [|discriminate].
  constructor; [eapply digit_cons_digit; exact H|eapply IH; reflexivity].
Qed.

Lemma parse_digits_digits l n : parse_digits l = Some n -> Forall (fun b => 48 <= b <= 57) l.
Proof.
  unfold parse_digits. destruct l as [|b l]; [discriminate|].
  destruct (bytes_to_uint (b :: l)) as [d|] eqn:E; [|discriminate]. intros _.
  eapply bytes_to_uint_digits. exact E.
Qed.

Lemma atoi_no_nul l z : atoi l = Some z -> ~ In 0 l.
Proof.
  unfold atoi. intros H Hin.
  set (p := match l with 45 :: t => (true, t) | 43 :: t => (false, t) | _ => (false, l) end) in H.
  assert (Hds : l = snd p \/ exists s, (s = 45 \/ s = 43) /\ l = s :: snd p).
  { unfold p. destruct l as [|s t]; [left; reflexivity|].
    destruct s as [|q]; [left; reflexivity|].
    do 6 (destruct q as [q|q|]; try (left; reflexivity));
      try (right; eexists; split; [|reflexivity]; auto). }
  destruct p as [neg ds]. cbn [snd] in Hds.
  destruct (parse_digits ds) as [n|] eqn:P; [|discriminate].
  pose proof (parse_digits_digits _ _ P) as D. rewrite Forall_forall in D.
  destruct Hds as [->|[s [Hs ->]]].
  - specialize (D 0 Hin). lia.
  - destruct Hin as [E|Hin]; [lia|]. specialize (D 0 Hin). lia.
Qed.

Lemma no_nul_in_length_field blt L z : digits blt -> atoi L = Some z -> ~ In 0 (blt ++ EQS :: L).
Proof.
  intros D A Hin. apply in_app_or in Hin as [Hin|[E|Hin]].
  - unfold digits in D. rewrite Forall_forall in D. specialize (D 0 Hin). lia.
  - discriminate.
  - eapply atoi_no_nul; eassumption.
Qed.

Lemma sohfree_app_l (a b : bytes) : sohfree (a ++ b) -> sohfree a.
Proof. intro H. apply Forall_app in H. tauto. Qed.
Lemma sohfree_app_r (a b : bytes) : sohfree (a ++ b) -> sohfree b.
Proof. intro H. apply Forall_app in H. tauto. Qed.
Lemma sohfree_cons_inv x (b : bytes) : sohfree (x :: b) -> sohfree b.
Proof. intro H. inversion H; assumption. Qed.

(* B3: every insertion of one byte is rejected *)
Theorem insertion_rejected :
  forall bst blt cst (w : bytes) bs L B c a b x,
    digits bst -> digits blt ->
    framed bst blt cst w bs L B c ->
    w = a ++ b -> x < 256 ->
    validate_raw bst blt cst (Some bs) (a ++ x :: b) <> Ok tt.
Proof.
  intros bst blt cst w bs L B c a b x Dbs Dbl Fw Ew Hx Hacc.
  destruct (validate_raw_sound _ _ _ _ _ Hacc) as (bs' & L' & B' & c' & Fw' & Hwb).
  specialize (Hwb bs eq_refl). subst bs'.
  destruct (insertion_checksum cst w (a ++ x :: b) _ _ c c' a b x
              (framed_csframed _ _ _ _ _ _ _ _ Fw) (framed_csframed _ _ _ _ _ _ _ _ Fw')
              (framed_X_ends_soh _ _ _ _ _ _ _ _ Fw') (fr_c_sohfree _ _ _ _ _ _ _ _ Fw) Ew eq_refl Hx)
    as [-> _].
  pose proof (framed_header _ _ _ _ _ _ _ _ Fw) as Hw.
  pose proof (framed_header _ _ _ _ _ _ _ _ Fw') as Hw'.
  set (f1 := bst ++ EQS :: bs) in *. set (f2 := blt ++ EQS :: L) in *.
  set (r := B ++ (cst ++ EQS :: c) ++ [SOH]) in *.
  assert (S1 : sohfree f1) by (apply sohfree_tagfield; [assumption|eapply fr_bs_sohfree; eassumption]).
  assert (S2 : sohfree f2) by (apply sohfree_tagfield; [assumption|eapply fr_L_sohfree; eassumption]).
  assert (S2' : sohfree (blt ++ EQS :: L')) by (apply sohfree_tagfield; [assumption|eapply fr_L_sohfree; eassumption]).
  assert (E : f1 ++ (SOH :: f2 ++ SOH :: r) = a ++ b) by (rewrite <- Ew; symmetry; exact Hw).
  apply app_eq_app in E as [l [[Ef1 Eb]|[Ea Et]]].
  - (* insertion inside the BeginString field: the field gets longer, its value cannot be the expected one *)
    rewrite Eb in Hw'.
    replace (a ++ 0 :: l ++ SOH :: f2 ++ SOH :: r) with ((a ++ 0 :: l) ++ SOH :: f2 ++ SOH :: r) in Hw'
      by (repeat (rewrite <- ?app_assoc; cbn [app]); reflexivity).
    apply header_det in Hw' as (H1 & _ & _); try assumption.
    + apply (f_equal (@length N)) in H1. rewrite Ef1 in H1. rewrite !app_length in H1. cbn [length] in H1. lia.
    + rewrite Ef1 in S1. apply Forall_app. split; [eapply sohfree_app_l; exact S1|].
      constructor; [discriminate|eapply sohfree_app_r; exact S1].
  - destruct l as [|l0 l2].
    + (* insertion right after the BeginString value *)
      rewrite app_nil_r in Ea. subst a. cbn [app] in Et. rewrite <- Et in Hw'.
      replace (f1 ++ 0 :: SOH :: f2 ++ SOH :: r) with ((f1 ++ [0]) ++ SOH :: f2 ++ SOH :: r) in Hw'
        by (repeat (rewrite <- ?app_assoc; cbn [app]); reflexivity).
      apply header_det in Hw' as (H1 & _ & _); try assumption.
      * apply (f_equal (@length N)) in H1. rewrite !app_length in H1. cbn [length] in H1. lia.
      * apply Forall_app. split; [exact S1|]. constructor; [discriminate|constructor].
    + cbn [app] in Et. inversion Et as [[El0 Et2]]. subst l0.
      symmetry in Et2. apply app_eq_app in Et2 as [m [[El2 Er]|[Ef2 Eb]]].
      * (* a reaches past the BodyLength field *)
        destruct m as [|m0 m'].
        -- (* insertion right after the BodyLength value: NUL in the declared length *)
           rewrite app_nil_r in El2. subst l2. cbn [app] in Er. subst a. rewrite <- Er in Hw'.
           replace ((f1 ++ SOH :: f2) ++ 0 :: SOH :: r) with (f1 ++ SOH :: (f2 ++ [0]) ++ SOH :: r) in Hw'
             by (repeat (rewrite <- ?app_assoc; cbn [app]); reflexivity).
           apply header_det in Hw' as (_ & H2 & _); try assumption.
           ++ eapply (no_nul_in_length_field blt L'); [exact Dbl|eapply fr_length; exact Fw'|].
              rewrite <- H2. apply in_or_app. right. left. reflexivity.
           ++ apply Forall_app. split; [exact S2|]. constructor; [discriminate|constructor].
        -- (* a contains the whole header: same header, so the length must be unchanged *)
           cbn [app] in Er. inversion Er as [[Em0 Er2]]. subst m0.
           assert (Hlen : length (a ++ 0 :: b) = length w).
           { eapply (same_header_same_length bst blt cst (a ++ 0 :: b) w); try eassumption.
             pose proof (framed_header _ _ _ _ _ _ _ _ Fw') as G. fold f1 in G.
             eexists. eexists. split; [exact G|].
             (* w has the same two leading fields as w' *)
             assert (G2 : a ++ 0 :: b = f1 ++ SOH :: f2 ++ SOH :: (m' ++ 0 :: b)).
             { rewrite Ea, El2. repeat (rewrite <- ?app_assoc; cbn [app]). reflexivity. }
             rewrite G in G2. apply header_det in G2 as (_ & G22 & _); try assumption.
             rewrite G22. exact Hw. }
           rewrite Ew, !app_length in Hlen. cbn [length] in Hlen. lia.
      * (* insertion inside the BodyLength field *)
        subst a. rewrite Eb in Hw'.
        replace ((f1 ++ SOH :: l2) ++ 0 :: m ++ SOH :: r) with (f1 ++ SOH :: (l2 ++ 0 :: m) ++ SOH :: r) in Hw'
          by (repeat (rewrite <- ?app_assoc; cbn [app]); reflexivity).
        apply header_det in Hw' as (_ & H2 & _); try assumption.
        -- eapply (no_nul_in_length_field blt L'); [exact Dbl|eapply fr_length; exact Fw'|].
           rewrite <- H2. apply in_or_app. right. left. reflexivity.
        -- rewrite Ef2 in S2. apply Forall_app. split; [eapply sohfree_app_l; exact S2|].
           constructor; [discriminate|eapply sohfree_app_r; exact S2].
Qed.

(* B4: every deletion of one byte is rejected *)
Theorem deletion_rejected :
  forall bst blt cst (w : bytes) bs L B c a b x,
    digits bst -> digits blt ->
    framed bst blt cst w bs L B c ->
    w = a ++ x :: b -> x < 256 ->
    validate_raw bst blt cst (Some bs) (a ++ b) <> Ok tt.
Proof.
  intros bst blt cst w bs L B c a b x Dbs Dbl Fw Ew Hx Hacc.
  destruct (validate_raw_sound _ _ _ _ _ Hacc) as (bs' & L' & B' & c' & Fw' & Hwb).
  specialize (Hwb bs eq_refl). subst bs'.
  destruct (deletion_checksum cst w (a ++ b) _ _ c c' a b x
              (framed_csframed _ _ _ _ _ _ _ _ Fw) (framed_csframed _ _ _ _ _ _ _ _ Fw')
              (framed_X_ends_soh _ _ _ _ _ _ _ _ Fw) (fr_c_sohfree _ _ _ _ _ _ _ _ Fw') Ew eq_refl Hx)
    as [-> _].
  pose proof (framed_header _ _ _ _ _ _ _ _ Fw) as Hw.
  pose proof (framed_header _ _ _ _ _ _ _ _ Fw') as Hw'.
  set (f1 := bst ++ EQS :: bs) in *. set (f2 := blt ++ EQS :: L) in *.
  set (r := B ++ (cst ++ EQS :: c) ++ [SOH]) in *.
  assert (S1 : sohfree f1) by (apply sohfree_tagfield; [assumption|eapply fr_bs_sohfree; eassumption]).
  assert (S2 : sohfree f2) by (apply sohfree_tagfield; [assumption|eapply fr_L_sohfree; eassumption]).
  assert (S2' : sohfree (blt ++ EQS :: L')) by (apply sohfree_tagfield; [assumption|eapply fr_L_sohfree; eassumption]).
  assert (E : f1 ++ (SOH :: f2 ++ SOH :: r) = a ++ 0 :: b) by (rewrite <- Ew; symmetry; exact Hw).
  apply app_eq_app in E as [l [[Ef1 Eb]|[Ea Et]]].
  - destruct l as [|l0 l'].
    + cbn [app] in Eb. inversion Eb.
    + (* the deleted NUL is in the BeginString field: the field gets shorter *)
      cbn [app] in Eb. inversion Eb as [[El0 Eb2]]. subst l0. rewrite Eb2 in Hw'.
      replace (a ++ l' ++ SOH :: f2 ++ SOH :: r) with ((a ++ l') ++ SOH :: f2 ++ SOH :: r) in Hw'
        by (repeat (rewrite <- ?app_assoc; cbn [app]); reflexivity).
      apply header_det in Hw' as (H1 & _ & _); try assumption.
      * apply (f_equal (@length N)) in H1. rewrite Ef1 in H1. rewrite !app_length in H1. cbn [length] in H1. lia.
      * rewrite Ef1 in S1. apply Forall_app. split; [eapply sohfree_app_l; exact S1|].
        eapply sohfree_cons_inv, sohfree_app_r; exact S1.
  - destruct l as [|l0 l2]; [cbn [app] in Et; inversion Et|].
    cbn [app] in Et. inversion Et as [[El0 Et2]]. subst l0.
    symmetry in Et2. apply app_eq_app in Et2 as [m [[El2 Er]|[Ef2 Eb]]].
    + destruct m as [|m0 m']; [cbn [app] in Er; inversion Er|].
      (* a contains the whole header: same header, so the length must be unchanged *)
      cbn [app] in Er. inversion Er as [[Em0 Er2]]. subst m0.
      assert (Hlen : length (a ++ b) = length w).
      { eapply (same_header_same_length bst blt cst (a ++ b) w); try eassumption.
        pose proof (framed_header _ _ _ _ _ _ _ _ Fw') as G. fold f1 in G.
        eexists. eexists. split; [exact G|].
        assert (G2 : a ++ b = f1 ++ SOH :: f2 ++ SOH :: (m' ++ b)).
        { rewrite Ea, El2. repeat (rewrite <- ?app_assoc; cbn [app]). reflexivity. }
        rewrite G in G2. apply header_det in G2 as (_ & G22 & _); try assumption.
        rewrite G22. exact Hw. }
      rewrite Ew, !app_length in Hlen. cbn [length] in Hlen. lia.
    + destruct m as [|m0 m']; [cbn [app] in Eb; inversion Eb|].
      (* the deleted NUL would be in the BodyLength field of w, which holds no NUL *)
      cbn [app] in Eb. inversion Eb as [[Em0 Eb2]]. subst m0.
      eapply (no_nul_in_length_field blt L); [exact Dbl|eapply fr_length; exact Fw|].
      fold f2. rewrite Ef2. apply in_or_app. right. left. reflexivity.
Qed.

(* C03, theorem B, assembled *)
Theorem damage_rejected :
  forall bst blt cst (w : bytes) bs L B c,
    digits bst -> digits blt ->
    framed bst blt cst w bs L B c ->
    (* substitution of one byte by a different one *)
    (forall a x y b wb, w = a ++ x :: b -> x < 256 -> y < 256 -> x <> y ->
                        validate_raw bst blt cst wb (a ++ y :: b) <> Ok tt) /\
    (* insertion of one byte anywhere *)
    (forall a b x, w = a ++ b -> x < 256 -> validate_raw bst blt cst (Some bs) (a ++ x :: b) <> Ok tt) /\
    (* deletion of one byte *)
    (forall a x b, w = a ++ x :: b -> x < 256 -> validate_raw bst blt cst (Some bs) (a ++ b) <> Ok tt) /\
    (* every proper prefix *)
    (forall w' z wb, w = w' ++ z -> z <> [] -> validate_raw bst blt cst wb w' <> Ok tt).
Proof.
  intros bst blt cst w bs L B c Dbs Dbl F. repeat split.
  - intros a x y b wb. eapply substitution_rejected; eassumption.
  - intros a b x. eapply insertion_rejected; eassumption.
  - intros a x b. eapply deletion_rejected; eassumption.
  - intros w' z wb. eapply truncation_rejected; eassumption.
Qed.

(* ---- a serialized message is framed ---- *)

Lemma pad3_sohfree_sweep :
  forallb (fun n => forallb (fun b => negb (N.eqb b SOH)) (pad3 n)) below256 = true.
Proof. vm_compute. reflexivity. Qed.

Lemma pad3_sohfree n : n < 256 -> sohfree (pad3 n).
Proof.
  intro H. pose proof pad3_sohfree_sweep as S. rewrite forallb_forall in S.
  specialize (S n (in_below256 n H)). rewrite forallb_forall in S.
  unfold sohfree. rewrite Forall_forall. intros b Hb E. specialize (S b Hb).
  rewrite E in S. discriminate.
Qed.

Lemma uint_to_bytes_digits d : Forall (fun b => 48 <= b <= 57) (uint_to_bytes d).
Proof. induction d; cbn [uint_to_bytes]; constructor; try lia; assumption. Qed.

Lemma itoa_nat_sohfree n : sohfree (itoa (Z.of_nat n)).
Proof.
  unfold itoa. destruct (Z.of_nat n) eqn:E; try lia.
  - constructor; [discriminate|constructor].
  - unfold utoa. eapply Forall_impl; [|apply uint_to_bytes_digits]. intros b Hb Eb. rewrite Eb in Hb. unfold SOH in Hb. lia.
Qed.

Theorem to_bytes_framed :
  forall (m : message) (bs mtF : bytes),
    kv_to_bytes (m_bs_tag m) (m_bs m) = Some (m_bs_tag m ++ EQS :: bs) ->
    kv_to_bytes (m_mt_tag m) (m_mt m) = Some mtF ->
    sohfree bs -> digits (m_cs_tag m) ->
    (Z.of_nat (length (counted_region m mtF)) <= int_max)%Z ->
    exists L B c, framed (m_bs_tag m) (m_bl_tag m) (m_cs_tag m) (to_bytes m) bs L B c.
Proof.
  intros m bs mtF Hbs Hmt Sbs Dcs Hrange.
  pose proof (to_bytes_shape m _ mtF Hbs Hmt) as S. cbv zeta in S.
  set (R := counted_region m mtF) in *.
  exists (itoa (Z.of_nat (length R))), R.
  eexists. constructor.
  - rewrite S. repeat (rewrite <- ?app_assoc; cbn [app]). reflexivity.
  - exact Sbs.
  - apply itoa_nat_sohfree.
  - apply Forall_app. split; [apply digits_sohfree; exact Dcs|].
    constructor; [discriminate|]. apply pad3_sohfree. apply N.mod_lt. discriminate.
  - right. apply ends_with_soh_counted.
  - apply atoi_itoa. unfold in_int_range. apply andb_true_intro. split; apply Z.leb_le; [unfold int_min; lia|exact Hrange].
  - f_equal. f_equal. f_equal. repeat (rewrite <- ?app_assoc; cbn [app]). reflexivity.
Qed.

(* rejection by validate_raw is rejection by Unmarshal *)
Lemma unmarshal_err_of_validate o tm d :
  digits (m_bs_tag tm) -> digits (m_bl_tag tm) ->
  validate_raw (m_bs_tag tm) (m_bl_tag tm) (m_cs_tag tm) (want_bs_of tm) d <> Ok tt ->
  unmarshal o tm d = Err.
Proof.
  intros D1 D2 H. unfold unmarshal.
  pose proof (validate_raw_safe (m_bs_tag tm) (m_bl_tag tm) (m_cs_tag tm) (want_bs_of tm) d
                (digits_sohfree _ D1) (digits_sohfree _ D2)) as S.
  destruct (validate_raw _ _ _ _ d) as [[]| | |]; try reflexivity; try contradiction.
Qed.

(* C03 theorem A at the level of Unmarshal: acceptance implies the frame *)
Theorem unmarshal_ok_framed o tm d r :
  unmarshal o tm d = Ok r ->
  exists bs L B c, framed (m_bs_tag tm) (m_bl_tag tm) (m_cs_tag tm) d bs L B c
                   /\ (forall wb, want_bs_of tm = Some wb -> bs = wb).
Proof.
  intro H. unfold unmarshal in H.
  destruct (validate_raw _ _ _ _ d) as [[]| | |] eqn:V; try discriminate.
  eapply validate_raw_sound. exact V.
Qed.

(* C03 theorem B at the level of Unmarshal *)
Theorem C03_damage_rejected :
  forall (o : oracle) (m tm : message) (bs mtF : bytes),
    (* m is a valid message: BeginString bs and MsgType populated, bs without delimiter *)
    kv_to_bytes (m_bs_tag m) (m_bs m) = Some (m_bs_tag m ++ EQS :: bs) ->
    kv_to_bytes (m_mt_tag m) (m_mt m) = Some mtF ->
    sohfree bs ->
    digits (m_bs_tag m) -> digits (m_bl_tag m) -> digits (m_cs_tag m) ->
    (Z.of_nat (length (counted_region m mtF)) <= int_max)%Z ->
    (* tm is the message type parsed into: same framing tags, same BeginString *)
    m_bs_tag tm = m_bs_tag m -> m_bl_tag tm = m_bl_tag m -> m_cs_tag tm = m_cs_tag m ->
    want_bs_of tm = Some bs ->
    let w := to_bytes m in
    (forall a x y b, w = a ++ x :: b -> x < 256 -> y < 256 -> x <> y -> unmarshal o tm (a ++ y :: b) = Err) /\
    (forall a b x, w = a ++ b -> x < 256 -> unmarshal o tm (a ++ x :: b) = Err) /\
    (forall a x b, w = a ++ x :: b -> x < 256 -> unmarshal o tm (a ++ b) = Err) /\
    (forall w' z, w = w' ++ z -> z <> [] -> unmarshal o tm w' = Err).
Proof.
  intros o m tm bs mtF Hbs Hmt Sbs D1 D2 D3 Hr T1 T2 T3 Tw w.
  destruct (to_bytes_framed m bs mtF Hbs Hmt Sbs D3 Hr) as (L & B & c & F).
  destruct (damage_rejected _ _ _ _ _ _ _ _ D1 D2 F) as (S & I & De & P).
  repeat split; intros; apply unmarshal_err_of_validate; rewrite ?T1, ?T2, ?T3, ?Tw; try assumption.
  - eapply S; eassumption.
  - eapply I; eassumption.
  - eapply De; eassumption.
  - eapply P; eassumption.
Qed.

(* non-vacuity: a concrete message is framed, accepted, and a damaged variant is refused *)
Example ex_c03 :
  let w := to_bytes ex_c01_msg in
  validate_raw [56] [57] [49;48] (Some [70;73;88]) w = Ok tt /\
  validate_raw [56] [57] [49;48] (Some [70;73;88]) (removelast w) = Err.
Proof. vm_compute. split; reflexivity. Qed.
