(* Frame.v -- reassembly of the inbound byte stream into messages (conn.go: Conn.runReader on
   top of bufio.Reader.ReadBytes) and the per-connection pipeline of FIFO channels
   (conn.go / acceptor.go / initiator.go / handler.go). *)
From SF Require Export Bytes.
Open Scope N_scope.

Definition end_tag : bytes := [49; 48; 61].   (* "10=" *)

(* state of the reader between two bytes: the segment read so far (bufio's pending data for
   the current ReadBytes call) and the message accumulated so far (msg in runReader) *)
Record rstate := { r_seg : bytes; r_msg : bytes }.

Definition r_init : rstate := {| r_seg := []; r_msg := [] |}.

(* one byte arrives *)
Definition feed_byte (st : rstate) (b : N) : rstate * list bytes :=
  let seg := r_seg st ++ [b] in
  if N.eqb b SOH then
    (* ReadBytes returns seg; runReader appends it and tests its first three bytes *)
    let msg := r_msg st ++ seg in
    if Nat.leb 3 (length seg) && beq (firstn 3 seg) end_tag
    then ({| r_seg := []; r_msg := [] |}, [msg])
    else ({| r_seg := []; r_msg := msg |}, [])
  else ({| r_seg := seg; r_msg := r_msg st |}, []).

(* one Read of the transport returns a chunk *)
Fixpoint feed_chunk (st : rstate) (chunk : bytes) : rstate * list bytes :=
  match chunk with
  | [] => (st, [])
  | b :: r =>
      let '(st1, d1) := feed_byte st b in
      let '(st2, d2) := feed_chunk st1 r in
      (st2, d1 ++ d2)
  end.

Fixpoint feed_chunks (st : rstate) (chunks : list bytes) : rstate * list bytes :=
  match chunks with
  | [] => (st, [])
  | c :: r =>
      let '(st1, d1) := feed_chunk st c in
      let '(st2, d2) := feed_chunks st1 r in
      (st2, d1 ++ d2)
  end.

Definition deliver (chunks : list bytes) : list bytes := snd (feed_chunks r_init chunks).

(* ---- the per-connection pipeline: single-producer/single-consumer FIFO stages ---- *)

(* a pipeline: what remains to be handed in, the content of each stage (a channel with its
   buffer, or the hand held by a forwarding goroutine), what the consumer has received *)
Record pipe := { p_todo : list bytes; p_stages : list (list bytes); p_done : list bytes }.

Inductive move :=
| MPush                 (* the producer hands the next message to the first stage *)
| MShift (i : nat)      (* the goroutine between stage i and stage i+1 forwards one message *)
| MPop.                 (* the consumer takes one message from the last stage *)

Fixpoint shift (i : nat) (st : list (list bytes)) : list (list bytes) :=
  match st with
  | [] => []
  | q :: r =>
      match i with
      | O => match q, r with
             | m :: q', q2 :: r' => q' :: (q2 ++ [m]) :: r'
             | _, _ => st
             end
      | S i' => q :: shift i' r
      end
  end.

Definition pipe_step (p : pipe) (mv : move) : pipe :=
  match mv with
  | MPush =>
      match p_todo p, p_stages p with
      | m :: t, q :: r => {| p_todo := t; p_stages := (q ++ [m]) :: r; p_done := p_done p |}
      | _, _ => p
      end
  | MShift i => {| p_todo := p_todo p; p_stages := shift i (p_stages p); p_done := p_done p |}
  | MPop =>
      match rev (p_stages p) with
      | (m :: q') :: r => {| p_todo := p_todo p; p_stages := rev (q' :: r); p_done := p_done p ++ [m] |}
      | _ => p
      end
  end.

(* everything in flight, oldest first *)
Definition in_flight (st : list (list bytes)) : list bytes := concat (rev st).

(* several connections, each with its own pipeline; a schedule interleaves their moves *)
Fixpoint conns_step (ps : list pipe) (c : nat) (mv : move) : list pipe :=
  match ps with
  | [] => []
  | p :: r => match c with O => pipe_step p mv :: r | S c' => p :: conns_step r c' mv end
  end.

(* ---- the writer (conn.go: Conn.Write under the writer goroutine of acceptor.go / initiator.go) ----
   Hand-offs are written whole and in order. When the transport takes only part of a write (the
   write deadline passes, the connection breaks) the connection is cancelled: nothing more is
   written. [fail_at = Some (k, keep)]: the write of hand-off k (0-based) takes [keep] bytes. *)
Fixpoint writer (msgs : list bytes) (fail_at : option (nat * nat)) : bytes :=
  match msgs with
  | [] => []
  | m :: r =>
      match fail_at with
      | Some (O, keep) => firstn keep m
      | Some (S k, keep) => m ++ writer r (Some (k, keep))
      | None => m ++ writer r None
      end
  end.
