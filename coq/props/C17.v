(* C17 -- Exactly the populated fields reach the wire, once each, in template order. *)
From SF Require Import Bytes Values Wire Fields_proofs.

Theorem C17 :
  forall (m : message) (bsF mtF : bytes),
    kv_to_bytes (m_bs_tag m) (m_bs m) = Some bsF ->
    kv_to_bytes (m_mt_tag m) (m_mt m) = Some mtF ->
    list_ok (m_header m) = true -> list_ok (m_body m) = true -> list_ok (trailer_items m) = true ->
    exists blv csv,
      let fs := msg_fields m bsF (m_bl_tag m ++ EQS :: blv) mtF (m_cs_tag m ++ EQS :: csv) in
      to_bytes m = term fs
      /\ (Forall sohfree fs -> split_soh (to_bytes m) = fs ++ [[]]).
Proof. exact C17_exact_fields. Qed.
Print Assumptions C17.

Theorem C17_api_populates :
  (forall s, s <> [] -> populated (new_string s) = true /\ canon (new_string s) = s) /\
  (forall z, populated (new_int z) = true /\ canon (new_int z) = itoa z) /\
  (forall n, populated (new_uint n) = true /\ canon (new_uint n) = utoa n) /\
  (forall t, populated (new_float t) = true /\ canon (new_float t) = t) /\
  (forall t, populated (new_time t) = true /\ canon (new_time t) = t) /\
  (forall d, populated (new_raw (Some d)) = true /\ canon (new_raw (Some d)) = d) /\
  (forall v s, s <> [] -> populated (set_string v s) = true /\ canon (set_string v s) = s) /\
  (forall v z, populated (set_int v z) = true /\ canon (set_int v z) = itoa z) /\
  (forall v n, populated (set_uint v n) = true /\ canon (set_uint v n) = utoa n) /\
  (forall v t, populated (set_float v t) = true /\ canon (set_float v t) = t) /\
  (forall v t, populated (set_time v t) = true /\ canon (set_time v t) = t) /\
  (forall v b, populated (set_bool v b) = true /\ canon (set_bool v b) = if b then [89] else [78]) /\
  (forall v d, populated (set_raw v d) = true /\ canon (set_raw v d) = d).
Proof. exact api_populates. Qed.
Print Assumptions C17_api_populates.

Theorem C17_parse_populates :
  forall o v d v', d <> [] -> val_from_bytes o v d = Ok v' -> populated v' = true.
Proof. exact parse_populates. Qed.
Print Assumptions C17_parse_populates.
