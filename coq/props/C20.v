(* C20 -- Concurrent use of a session is free of data races. *)
From Coq Require Import String List NArith.
From SF Require Import Conc Sites.

(* The table regenerated from the source on this run (gen/Sites.v: every function, method and
   function literal of the library with its lock, unlock, defer, shared-field read/write, atomic,
   call and go events) passes the lockset check: every pair of accesses to the same shared field
   (session state, logon settings, counters, message map, handler maps, timer stamp, event map)
   that can come from two concurrently running goroutine roles -- application callers (any
   number), the inbound dispatch loop, the two timer goroutines, the close-deadline callback, the
   serving goroutines -- with at least one write holds a common mutex, exclusively on one side,
   through all call paths, or both accesses are atomic. Evaluated by the kernel. *)
Theorem C20_table_race_free : races site_names site_funcs = nil.
Proof. vm_compute. reflexivity. Qed.
Print Assumptions C20_table_race_free.

(* Message objects are serialized only under the handler mutex: in the regenerated table every
   goroutine role that reaches DefaultHandler.send (application senders through Session.Send,
   the inbound dispatch through handlers that answer and through the ResendRequest service's
   SendBatch, the timer goroutines) does so with DefaultHandler.mu held exclusively on every call
   path.  send is where ToBytes rewrites the message object, and stored message objects are shared
   between senders and the resend path. *)
Theorem C20_serialization_guarded :
  guarded_by site_names site_funcs "simplefixgo.DefaultHandler.send" "DefaultHandler.mu" = true.
Proof. vm_compute. reflexivity. Qed.
Print Assumptions C20_serialization_guarded.

(* What a shared lock buys in any execution: two accesses by different threads that both hold m
   are separated by the first thread's release of m and the second thread's later acquisition of
   m -- the synchronisation edge that orders them (no execution has them unordered). *)
Theorem C20_common_lock_orders :
  forall m t1 t2 mid o,
    t1 <> t2 -> wf o mid -> o m = Some t1 -> run o mid m = Some t2 ->
    exists a b, mid = (a ++ TRel t1 m :: b)%list /\ In (TAcq t2 m) b.
Proof. exact common_lock_orders. Qed.
Print Assumptions C20_common_lock_orders.
