(* C10 -- A ResendRequest is answered with exactly the requested stored messages. *)
From Coq Require Import List ZArith.
From SF Require Import Bytes Values Wire Parse Session Session_proofs Session_clean Session_handlers
  Session_c05 Session_hist Session_c10.
Import ListNotations.

(* logged on: the handler looks up from..to (to = 0 meaning the last number sent) and retransmits
   what the store returns, or nothing *)
Theorem C10_resend_answer :
  forall cfg s d rm,
    parse_as msgtype_ResendRequest tpl_ResendRequest d = Ok rm -> is_logged s = true ->
    let from := get_int tag_BeginSeqNo (m_body rm) in
    let to0 := get_int tag_EndSeqNo (m_body rm) in
    let to := if Z.eqb to0 0 then s_cnt_out s else to0 in
    run_in_handler cfg s HResend d =
    match store_messages s from to with
    | Some ms => let '(s', o) := send_batch cfg s ms in (s', drop_err o, true)
    | None => (s, [], true)
    end.
Proof. exact resend_answer. Qed.
Print Assumptions C10_resend_answer.

(* the store returns the messages saved under from, from+1, ..., to -- all of them, in
   ascending order -- only when from <= to <= last sent and every one of them is stored *)
Theorem C10_store_range :
  forall s from to ms,
    store_messages s from to = Some ms ->
    (from <= to)%Z /\ (to <= s_cnt_out s)%Z /\ length ms = Z.to_nat (to - from + 1)
    /\ forall i, (i < length ms)%nat -> nth_error ms i = store_get (s_store s) (from + Z.of_nat i).
Proof. exact store_messages_spec. Qed.
Print Assumptions C10_store_range.

(* and the batch puts exactly those messages on the wire, in that order, unchanged (what was
   stored under a number is what was transmitted under it: C19_store_before_send) *)
Theorem C10_batch_retransmits :
  forall cfg ms s, clean cfg s -> save_first s ->
    exists s' o, send_batch cfg s ms = (s', o)
                 /\ wires o = map (fun m => fst (prepare m)) ms
                 /\ ~ In OSendErr o /\ same_control s s' /\ s_cnt_out s' = s_cnt_out s
                 /\ clean cfg s' /\ save_first s'.
Proof. exact send_batch_clean. Qed.
Print Assumptions C10_batch_retransmits.

(* gap detection: a Logon numbered beyond the next expected one makes the session ask for a
   resend starting at the first missing number, open-ended *)
Theorem C10_gap_detection :
  forall cfg s inc,
    process_inc_seq cfg s inc =
    (if Z.ltb (s_cnt_in s + 1) inc
     then let '(s1, o) := session_send cfg s (gap_request (s_cnt_in s + 1)) in (upd_cnt_in s1 inc, o)
     else (upd_cnt_in s inc, [])).
Proof. exact gap_detection. Qed.
Print Assumptions C10_gap_detection.
Theorem C10_gap_request_fields :
  forall n, get_kv tag_BeginSeqNo (m_body (gap_request n)) = Some (VInt true n)
            /\ get_kv tag_EndSeqNo (m_body (gap_request n)) = Some (VInt true 0%Z)
            /\ mt_of (gap_request n) = msgtype_ResendRequest.
Proof. exact gap_request_fields. Qed.
Print Assumptions C10_gap_request_fields.

(* ---- over whole histories ----
   A session is constructed (outbound counter c, a store whose entries sit under their own numbers,
   none beyond c), the application registers what it likes (pre), Run, and then anything happens in any order: inbound messages of any content,
   application sends, registrations of pass-through handlers, timer expiries, Logout, Stop.  If at
   that point the session is logged on and its router running, a ResendRequest for from..to
   (EndSeqNo 0 meaning "up to the last number handed out") with c < from <= to <= last is answered
   with exactly to-from+1 messages, carrying the numbers from, from+1, ..., to in this order, each
   of them byte-identical to a message transmitted earlier in the history; the outbound counter and
   the store are unchanged.  (Together with C10_same_number_same_bytes: byte-identical to *the*
   message transmitted under that number.) *)
Theorem C10_history_resend_answer :
  forall cfg ci c store pre ops sp op s0 o0 s os d rm,
    c_fail_saves cfg = [] ->
    (forall k m, store_get store k = Some m -> seq_of m = k /\ (k <= c)%Z) ->
    Forall op_clean pre -> run_ops cfg (init_state cfg ci c store) pre = (sp, op) ->
    run_session cfg sp = (s0, o0) ->
    Forall op_clean ops ->
    run_ops cfg s0 ops = (s, os) ->
    parse_as msgtype_ResendRequest tpl_ResendRequest d = Ok rm -> is_logged s = true ->
    s_router_stopped s = false ->
    let from := get_int tag_BeginSeqNo (m_body rm) in
    let to0 := get_int tag_EndSeqNo (m_body rm) in
    let to := if Z.eqb to0 0 then s_cnt_out s else to0 in
    (c < from)%Z -> (from <= to)%Z -> (to <= s_cnt_out s)%Z ->
    exists s' o,
      run_in_handler cfg s HResend d = (s', o, true)
      /\ map seq_of (wires o) = zrange (from - 1) (Z.to_nat (to - from + 1))
      /\ Forall (fun w => In w (wires (concat op ++ o0 ++ concat os))) (wires o)
      /\ s_cnt_out s' = s_cnt_out s
      /\ (forall k, store_get (s_store s') k = store_get (s_store s) k).
Proof. exact history_resend_answer. Qed.
Print Assumptions C10_history_resend_answer.

(* everything transmitted in a history is in the store under its own number, byte for byte, and
   two transmissions under one number are the same bytes *)
Theorem C10_same_number_same_bytes :
  forall cfg ci c store pre ops sp op s0 o0 s' os,
    c_fail_saves cfg = [] ->
    (forall k m, store_get store k = Some m -> seq_of m = k /\ (k <= c)%Z) ->
    Forall op_clean pre -> run_ops cfg (init_state cfg ci c store) pre = (sp, op) ->
    run_session cfg sp = (s0, o0) ->
    Forall op_clean ops ->
    run_ops cfg s0 ops = (s', os) ->
    let sent := wires (concat op ++ o0 ++ concat os) in
    (forall w, In w sent -> exists m, store_get (s_store s') (seq_of w) = Some m /\ fst (prepare m) = w)
    /\ (forall w1 w2, In w1 sent -> In w2 sent -> seq_of w1 = seq_of w2 -> w1 = w2).
Proof. exact history_sent_is_stored. Qed.
Print Assumptions C10_same_number_same_bytes.

(* the premises are satisfiable: a concrete history (Run, the peer's Logon, two application
   messages, a pass-through registration) ends logged on with the router running and counter 3; a
   ResendRequest for 2..3 parses, and the model's answer is the second and third transmitted message *)
Theorem C10_history_nonvacuous :
  Forall op_clean ex10_ops
  /\ is_logged (fst ex10_hist) = true /\ s_router_stopped (fst ex10_hist) = false
  /\ s_cnt_out (fst ex10_hist) = 3%Z
  /\ (exists rm, parse_as msgtype_ResendRequest tpl_ResendRequest (ex10_resend 2 3) = Ok rm
                 /\ get_int tag_BeginSeqNo (m_body rm) = 2%Z /\ get_int tag_EndSeqNo (m_body rm) = 3%Z)
  /\ wire_seqs (concat (snd ex10_hist)) = [1; 2; 3]%Z
  /\ (let '(_, o, _) := run_in_handler ex5_cfg (fst ex10_hist) HResend (ex10_resend 2 3) in
      wires o = skipn 1 (wires (concat (snd ex10_hist)))).
Proof. exact resend_example. Qed.
Print Assumptions C10_history_nonvacuous.
