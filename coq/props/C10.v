(* C10 -- A ResendRequest is answered with exactly the requested stored messages. *)
From SF Require Import Bytes Values Wire Parse Session Session_proofs Session_clean Session_handlers.

(* logged on: the handler looks up from..to (to = 0 meaning the last number sent) and retransmits
   what the store returns, or nothing *)
Theorem C10_resend_answer :
  forall cfg s d rm,
    parse_as msgtype_ResendRequest tpl_ResendRequest d = Ok rm -> is_logged s = true ->
    let from := get_int tag_BeginSeqNo (m_body rm) in
    let to0 := get_int tag_EndSeqNo (m_body rm) in
    let to := if Z.eqb to0 0 then s_cnt_out s else to0 in
    run_in_handler cfg s HResend d =
    match store_messages s from to with
    | Some ms => let '(s', o) := send_batch cfg s ms in (s', drop_err o, true)
    | None => (s, [], true)
    end.
Proof. exact resend_answer. Qed.
Print Assumptions C10_resend_answer.

(* the store returns the messages saved under from, from+1, ..., to -- all of them, in
   ascending order -- only when from <= to <= last sent and every one of them is stored *)
Theorem C10_store_range :
  forall s from to ms,
    store_messages s from to = Some ms ->
    (from <= to)%Z /\ (to <= s_cnt_out s)%Z /\ length ms = Z.to_nat (to - from + 1)
    /\ forall i, (i < length ms)%nat -> nth_error ms i = store_get (s_store s) (from + Z.of_nat i).
Proof. exact store_messages_spec. Qed.
Print Assumptions C10_store_range.

(* and the batch puts exactly those messages on the wire, in that order, unchanged (what was
   stored under a number is what was transmitted under it: C19_store_before_send) *)
Theorem C10_batch_retransmits :
  forall cfg ms s, clean cfg s -> save_first s ->
    exists s' o, send_batch cfg s ms = (s', o)
                 /\ wires o = map (fun m => fst (prepare m)) ms
                 /\ ~ In OSendErr o /\ same_control s s' /\ s_cnt_out s' = s_cnt_out s
                 /\ clean cfg s' /\ save_first s'.
Proof. exact send_batch_clean. Qed.
Print Assumptions C10_batch_retransmits.

(* gap detection: a Logon numbered beyond the next expected one makes the session ask for a
   resend starting at the first missing number, open-ended *)
Theorem C10_gap_detection :
  forall cfg s inc,
    process_inc_seq cfg s inc =
    (if Z.ltb (s_cnt_in s + 1) inc
     then let '(s1, o) := session_send cfg s (gap_request (s_cnt_in s + 1)) in (upd_cnt_in s1 inc, o)
     else (upd_cnt_in s inc, [])).
Proof. exact gap_detection. Qed.
Print Assumptions C10_gap_detection.
Theorem C10_gap_request_fields :
  forall n, get_kv tag_BeginSeqNo (m_body (gap_request n)) = Some (VInt true n)
            /\ get_kv tag_EndSeqNo (m_body (gap_request n)) = Some (VInt true 0%Z)
            /\ mt_of (gap_request n) = msgtype_ResendRequest.
Proof. exact gap_request_fields. Qed.
Print Assumptions C10_gap_request_fields.
