(* C19 -- Messages are stored before sending; handlers run in order; a refusal stops it. *)
From Coq Require Import List ZArith.
From SF Require Import Bytes Values Wire Parse Session Session_proofs Session_clean Session_handlers
  Session_c05 Session_hist Session_c10.

(* Session.send when nothing refuses: the calls (the Save under the message's own number among
   them, all before the hand-off), then exactly one wire carrying the stamped message; the store
   holds that message under that number afterwards and no other entry changed *)
Theorem C19_store_before_send :
  forall cfg s m, clean cfg s -> save_first s -> m_header m = tpl_Header ->
    exists s' calls,
      session_send cfg s m = (s', calls ++ [OWire (fst (prepare (stamped s m)))])
      /\ Forall is_call calls /\ In (OSave (s_cnt_out s + 1) true) calls
      /\ store_get (s_store s') (s_cnt_out s + 1) = Some (stamped s m)
      /\ (forall k, k <> (s_cnt_out s + 1)%Z -> store_get (s_store s') k = store_get (s_store s) k)
      /\ same_control s s' /\ s_cnt_out s' = (s_cnt_out s + 1)%Z /\ clean cfg s' /\ save_first s'.
Proof. exact session_send_clean. Qed.
Print Assumptions C19_store_before_send.

(* whenever DefaultHandler.send reports failure nothing was transmitted and an error is returned *)
Theorem C19_refusal_means_no_transmission :
  forall cfg s m s' o, router_send cfg s m = (s', o, false) -> wires o = [] /\ In OSendErr o.
Proof. exact router_send_refused. Qed.
Print Assumptions C19_refusal_means_no_transmission.

(* a failing save and a refusing handler each end the chain on the spot *)
Theorem C19_failing_save_stops :
  forall cfg s m hs, existsb (Nat.eqb (s_saves s)) (c_fail_saves cfg) = true ->
    run_out_handlers cfg s m (OSaveH :: hs) =
    (upd_store s (s_store s) (S (s_saves s)), [OSave (seq_of m) false], false, m).
Proof. exact failing_save_stops. Qed.
Print Assumptions C19_failing_save_stops.
Theorem C19_refusing_handler_stops :
  forall cfg s m id am hs,
    run_out_handlers cfg s m (OApp id false am :: hs) = (s, [OAppOut id (seq_of m)], false, m).
Proof. exact refusing_handler_stops. Qed.
Print Assumptions C19_refusing_handler_stops.

(* inbound: all-types handlers, then the handlers of the message's own type; within a pool
   registration order, and a handler answering false ends that pool's round *)
Theorem C19_dispatch :
  forall cfg s d mt, value_by_tag d tag_MsgType = Ok mt ->
    serve cfg s d =
    (let '(s1, o1) := run_in_handlers cfg s (pool_get (s_in s) ALL) d in
     let '(s2, o2) := run_in_handlers cfg s1 (pool_get (s_in s1) mt) d in
     (s2, o1 ++ o2)).
Proof. exact serve_dispatch. Qed.
Print Assumptions C19_dispatch.
Theorem C19_early_exit :
  forall cfg s h hs d s1 o1,
    run_in_handler cfg s h d = (s1, o1, false) -> run_in_handlers cfg s (h :: hs) d = (s1, o1).
Proof. exact handlers_early_exit. Qed.
Print Assumptions C19_early_exit.
Theorem C19_registration_order :
  forall (p : pool in_handler) k h, pool_get (pool_add p k h) k = pool_get p k ++ [h].
Proof. intros. apply pool_registration_order. Qed.
Print Assumptions C19_registration_order.

(* ---- over whole histories ----
   store-before-send at every point of every history: after construction, Run and any sequence of
   operations (inbound messages of any content, application sends, pass-through registrations,
   timer expiries, Logout, Stop), every message that has been transmitted is in the store under its
   own number, byte for byte.  The theorem is about every history, hence about every prefix of one:
   there is no moment at which something is on the wire and not in the store. *)
Theorem C19_history_sent_is_stored :
  forall cfg ci c store pre ops sp op s0 o0 s' os,
    c_fail_saves cfg = [] ->
    (forall k m, store_get store k = Some m -> seq_of m = k /\ (k <= c)%Z) ->
    Forall op_clean pre -> run_ops cfg (init_state cfg ci c store) pre = (sp, op) ->
    run_session cfg sp = (s0, o0) ->
    Forall op_clean ops ->
    run_ops cfg s0 ops = (s', os) ->
    let sent := wires (concat op ++ o0 ++ concat os) in
    (forall w, In w sent -> exists m, store_get (s_store s') (seq_of w) = Some m /\ fst (prepare m) = w)
    /\ (forall w1 w2, In w1 sent -> In w2 sent -> seq_of w1 = seq_of w2 -> w1 = w2).
Proof. exact history_sent_is_stored. Qed.
Print Assumptions C19_history_sent_is_stored.

(* the premises of C19_store_before_send (clean, save_first) hold in every such state as long as
   the router is running: the per-step theorem applies at every reachable point *)
Theorem C19_premises_reachable :
  forall cfg ci c store pre ops sp op s0 o0 s' os,
    c_fail_saves cfg = [] ->
    (forall k m, store_get store k = Some m -> seq_of m = k /\ (k <= c)%Z) ->
    Forall op_clean pre -> run_ops cfg (init_state cfg ci c store) pre = (sp, op) ->
    run_session cfg sp = (s0, o0) ->
    Forall op_clean ops ->
    run_ops cfg s0 ops = (s', os) ->
    s_router_stopped s' = false -> clean cfg s' /\ save_first s'.
Proof. exact reachable_clean. Qed.
Print Assumptions C19_premises_reachable.
