(* C18 -- A tag is recognised only at a field boundary, never inside a value or tag. *)
From SF Require Import Bytes Values Wire Parse Fields_proofs Lookup_proofs.

(* For every well-formed field list (tags without delimiter and '=', values without
   delimiter) laid out on the wire, with or without the closing delimiter, and every tag t:
   the three lookups of the library return what the exact-tag, first-field specification
   [lookup] returns -- whatever the other fields' values contain and whatever other tags
   have t as a proper suffix or prefix. *)
Theorem C18_value_by_tag :
  forall t fs post, wf_tag t -> Forall wf_field fs -> post_ok post ->
    value_by_tag (layout fs ++ post) t = match lookup t fs with Some v => Ok v | None => Err end.
Proof. exact value_by_tag_spec. Qed.
Print Assumptions C18_value_by_tag.

Theorem C18_scan_message :
  forall t fs post, wf_tag t -> Forall wf_field fs -> post_ok post ->
    scan_value (layout fs ++ post) t = lookup t fs.
Proof. exact scan_value_message. Qed.
Print Assumptions C18_scan_message.

Theorem C18_scan_chunk :
  forall t fs post, wf_tag t -> Forall wf_field fs -> post_ok post ->
    scan_value (SOH :: layout fs ++ post) t = lookup t fs.
Proof. exact scan_value_chunk. Qed.
Print Assumptions C18_scan_chunk.

(* the group-start search lands on the first field that carries exactly the count tag *)
Theorem C18_group_start :
  forall t fs post, wf_tag t -> Forall wf_field fs -> post_ok post ->
    find_field_start (layout fs ++ post) t = offset_of t fs /\
    find_field_start (SOH :: layout fs ++ post) t = option_map S (offset_of t fs).
Proof. intros. split; [apply find_field_start_message|apply find_field_start_chunk]; assumption. Qed.
Print Assumptions C18_group_start.

(* hence two messages that agree on the fields carrying t give the same answers *)
Theorem C18_lookup_insensitive :
  forall t fs fs' post post',
    wf_tag t -> Forall wf_field fs -> Forall wf_field fs' -> post_ok post -> post_ok post' ->
    lookup t fs = lookup t fs' ->
    value_by_tag (layout fs ++ post) t = value_by_tag (layout fs' ++ post') t /\
    scan_value (layout fs ++ post) t = scan_value (layout fs' ++ post') t /\
    scan_value (SOH :: layout fs ++ post) t = scan_value (SOH :: layout fs' ++ post') t.
Proof. exact lookup_insensitive. Qed.
Print Assumptions C18_lookup_insensitive.

(* end-of-message detection: only a segment that starts with "10=" closes a message *)
From SF Require Import Frame Frame_proofs.
Theorem C18_message_boundaries :
  forall (msgs : list (list bytes * bytes)) (chunks : list bytes),
    Forall (fun m => wf_message (fst m) (snd m)) msgs ->
    concat chunks = concat (map (fun m => concat (fst m) ++ snd m) msgs) ->
    deliver chunks = map (fun m => concat (fst m) ++ snd m) msgs.
Proof. exact deliver_exact. Qed.
Print Assumptions C18_message_boundaries.

(* group entries: splitGroup cuts the group region exactly at the fields that carry the first
   member's tag -- every entry but the last becomes its own chunk, the last chunk runs to the end
   of the data -- however many entries there are and whatever the other fields contain, as long
   as that tag is not carried by another field of an entry or by a field after the group *)
From Coq Require Import List.
From SF Require Import Roundtrip_group.
Theorem C18_split_group_boundaries :
  forall t1, wf_tag t1 ->
  forall es B fuel,
    es <> nil ->
    Forall (entry_ok t1) es -> Forall (Forall wf_field) es -> Forall wf_field B ->
    ~ In t1 (map fst B) ->
    (length (SOH :: tlayout (catB es B)) < fuel)%nat ->
    split_group fuel (SOH :: tlayout (catB es B)) (SOH :: t1 ++ (EQS :: nil))%list = Ok (chunks_of es B).
Proof. exact split_group_entries. Qed.
Print Assumptions C18_split_group_boundaries.
