(* C06 -- A session is logged on only through a valid, approved Logon exchange. *)
From SF Require Import Bytes Values Wire Parse Session Session_proofs Session_c07 Session_clean
  Session_handlers Session_c06.

(* Over whole histories (inbound messages of any content, local sends, Logout, Stop,
   registrations, timer expiries): a session that starts not logged on is logged on afterwards
   only if the history delivered a Logon that parses (integrity check included) and that was
   handled either while waiting for one under the acceptance conditions -- method in the allowed
   set, heartbeat interval within the limits and positive, callback approving -- or, on the initiating side,
   while waiting for the answer to its own Logon. *)
Theorem C06_logged_only_through_logon :
  forall cfg ops s,
    not_logged s -> logged_or_probing (fst (run_ops cfg s ops)) = true ->
    exists d s0 lm, In (Inbound d) ops /\ not_logged s0 /\ parse_as msgtype_Logon tpl_Logon d = Ok lm /\
      ((s_state s0 = WaitingLogon /\ acceptable cfg s0 lm) \/ s_state s0 = WaitingLogonAnswer).
Proof. exact history_logged_implies_logon. Qed.
Print Assumptions C06_logged_only_through_logon.

Theorem C06_step :
  forall cfg s o s' os,
    not_logged s -> step cfg s o = (s', os) -> logged_or_probing s' = true ->
    exists d, o = Inbound d /\
      exists s0 lm, not_logged s0 /\ parse_as msgtype_Logon tpl_Logon d = Ok lm /\
        ((s_state s0 = WaitingLogon /\ acceptable cfg s0 lm) \/ s_state s0 = WaitingLogonAnswer).
Proof. exact step_logs_on. Qed.
Print Assumptions C06_step.

(* the answer to an acceptable Logon echoes its heartbeat interval and method *)
Theorem C06_accepted_answer :
  forall cfg s d lm,
    parse_as msgtype_Logon tpl_Logon d = Ok lm -> s_state s = WaitingLogon ->
    let ns := logon_settings cfg (s_settings s) lm in
    check_logon_params cfg (upd_settings s ns) (st_enc ns) (st_hb ns) = None -> c_approve cfg ns = true ->
    (0 < st_hb ns)%Z ->
    run_in_handler cfg s HLogon d =
    (let '(s3, o3) := change_state (start_timers (upd_settings s ns)) SuccessfulLogged in
     let '(s4, o4) := session_send cfg s3 (logon_answer (st_enc ns) (st_hb ns)) in
     let '(s5, o5) := process_inc_seq cfg s4 (get_int tag_MsgSeqNum (m_header lm)) in
     (s5, o3 ++ o4 ++ o5, true)).
Proof. exact logon_accepted. Qed.
Print Assumptions C06_accepted_answer.

(* within the limits and approved, but with an interval no timer can be started with (possible only
   when the configured limits admit a non-positive interval): one Reject naming HeartBtInt, through
   Session.send, which leaves the state alone *)
Theorem C06_unstartable :
  forall cfg s d lm,
    parse_as msgtype_Logon tpl_Logon d = Ok lm -> s_state s = WaitingLogon ->
    let ns := logon_settings cfg (s_settings s) lm in
    check_logon_params cfg (upd_settings s ns) (st_enc ns) (st_hb ns) = None -> c_approve cfg ns = true ->
    (st_hb ns <= 0)%Z ->
    run_in_handler cfg s HLogon d =
    (let '(s', o) := session_send cfg (upd_settings s ns)
                       (mk_reject reject_incorrect_value tagnum_HeartBtInt (get_int tag_MsgSeqNum (m_header lm))) in (s', o, true)).
Proof. exact logon_unstartable. Qed.
Print Assumptions C06_unstartable.

(* with a positive lower limit (the constructor refuses 0; only a negative lower limit admits the case
   above) every interval within the limits is positive: acceptance is decided by method, limits and
   approval alone *)
Theorem C06_positive_limits_startable :
  forall cfg s enc hb lo hi,
    st_limits (s_settings s) = Some (lo, hi) -> (0 < lo)%Z ->
    check_logon_params cfg s enc hb = None -> (0 < hb)%Z.
Proof. exact positive_limits_startable. Qed.
Print Assumptions C06_positive_limits_startable.

(* any other Logon while waiting: one Reject by the Logon's sequence number, naming the
   offending tag when there is one; the state is not touched (only the settings record) *)
Theorem C06_refused :
  forall cfg s d lm,
    parse_as msgtype_Logon tpl_Logon d = Ok lm -> s_state s = WaitingLogon ->
    let ns := logon_settings cfg (s_settings s) lm in
    let seq := get_int tag_MsgSeqNum (m_header lm) in
    (forall tag, check_logon_params cfg (upd_settings s ns) (st_enc ns) (st_hb ns) = Some tag ->
       run_in_handler cfg s HLogon d =
       (let '(s', o) := session_send cfg (upd_settings s ns) (mk_reject reject_incorrect_value tag seq) in (s', o, true)))
    /\ (check_logon_params cfg (upd_settings s ns) (st_enc ns) (st_hb ns) = None -> c_approve cfg ns = false ->
       run_in_handler cfg s HLogon d =
       (let '(s', o) := session_send cfg (upd_settings s ns) (mk_reject reject_other 0%Z seq) in (s', o, true))).
Proof. exact logon_refused. Qed.
Print Assumptions C06_refused.

Theorem C06_offending_tag :
  forall cfg s enc hb tag,
    check_logon_params cfg s enc hb = Some tag ->
    (existsb (beq enc) (c_allowed cfg) = false /\ tag = tagnum_EncryptMethod)
    \/ (existsb (beq enc) (c_allowed cfg) = true /\ tag = tagnum_HeartBtInt
        /\ exists lo hi, st_limits (s_settings s) = Some (lo, hi) /\ (hb < lo \/ hi < hb)%Z).
Proof. exact check_params_tag. Qed.
Print Assumptions C06_offending_tag.

(* a further Logon while logged on: one Reject, through Session.send, which changes nothing
   that governs the session *)
Theorem C06_logon_when_logged :
  forall cfg s d lm,
    parse_as msgtype_Logon tpl_Logon d = Ok lm -> s_state s = SuccessfulLogged ->
    run_in_handler cfg s HLogon d =
    (let '(s', o) := session_send cfg s (mk_reject reject_other 0%Z (get_int tag_MsgSeqNum (m_header lm))) in (s', o, true)).
Proof. exact logon_when_logged. Qed.
Print Assumptions C06_logon_when_logged.

(* the initiating side: Run sends exactly one message, a Logon with the configured heartbeat
   interval, method and credentials *)
Theorem C06_initiator_first :
  forall cfg s, c_side cfg = Initiator -> clean cfg s -> save_first s ->
    exists s0, s_settings s0 = s_settings s /\ s_cnt_out s0 = s_cnt_out s /\
      wires (snd (run_session cfg s)) = [fst (prepare (stamped s0 (logon_request (s_settings s))))].
Proof. exact initiator_first_message. Qed.
Print Assumptions C06_initiator_first.
