(* C13 -- Every way a connection can end leaves nothing blocked forever. *)
From Coq Require Import String List NArith.
From SF Require Import Conc Lifecycle Lifecycle_proofs Sites.

(* The table regenerated from the source on this run (gen/Sites.v) passes the lifecycle check,
   evaluated by the kernel: every channel send, channel receive and select of the library has an
   alternative released by a cancellation scope or by the clock, or is one of the three hand-offs
   of Lifecycle.allowed (each with its partner named); the hand-offs between the goroutines of a
   connection (reader -> pump -> handler -> writer) are released by a scope, not merely by the
   clock; every goroutine of Acceptor.serve / Initiator.Serve first defers the shared cancel
   function; the cancel functions close the socket, cancel the connection scope and (initiator)
   stop the handler; the error channel is drained after Run and closed by the serve functions. *)
Theorem C13_table_nothing_blocks : lifecycle_ok site_names site_funcs = true.
Proof. vm_compute. reflexivity. Qed.
Print Assumptions C13_table_nothing_blocks.

(* What that buys in any execution of a connection's goroutine group: the first member that
   returns cancels the shared scope ... *)
Theorem C13_first_return_cancels :
  forall g g' i, gstep g g' -> nth_error (mem g') i = Some nil -> nth_error (mem g) i <> Some nil ->
                 cancelled g' = true.
Proof. exact first_return_cancels. Qed.
Print Assumptions C13_first_return_cancels.

(* ... after which no member is ever stuck while some member has not returned ... *)
Theorem C13_cancelled_group_progress :
  forall g, cancelled g = true -> all_escapable g -> ~ returned g -> exists g', gstep g g'.
Proof. exact cancelled_group_progress. Qed.
Print Assumptions C13_cancelled_group_progress.

(* ... and every execution, whatever the schedule, is at most [weight g] steps long and can only
   stop when every member has returned: nothing started for the connection remains. *)
Theorem C13_group_unwinds :
  forall n g g', cancelled g = true -> all_escapable g -> steps n g g' ->
                 (n <= weight g)%nat /\ ((forall g'', ~ gstep g' g'') -> returned g').
Proof. exact group_unwinds. Qed.
Print Assumptions C13_group_unwinds.

(* The hypothesis is necessary: one site without a releasing alternative parks its goroutine for
   good (the reader and pump hand-offs before the repairs). *)
Theorem C13_unescapable_site_sticks :
  let g := {| cancelled := true; mem := (nil :: (Site false :: Work :: nil) :: nil) |} in
  ~ returned g /\ forall g', ~ gstep g g'.
Proof. exact unescapable_site_sticks. Qed.
Print Assumptions C13_unescapable_site_sticks.
