(* C14 -- A TestRequest is answered by one Heartbeat echoing its TestReqID. *)
From Coq Require Import List ZArith.
From SF Require Import Bytes Values Wire Parse Session Session_proofs Session_clean Session_handlers
  Session_c05 Session_hist Session_c10.

(* For every logged-on state and every byte string that parses as a TestRequest: the handler
   emits exactly one message -- a Heartbeat whose TestReqID field holds the id the parser
   extracted (which by C18 is the value of field 112 of the request, byte for byte) -- stored
   first under its own number, in the same sequential step (so before any later inbound message
   is looked at), and changes nothing that governs the session. *)
Theorem C14 :
  forall cfg s d tm,
    clean cfg s -> save_first s ->
    parse_as msgtype_TestRequest tpl_TestRequest d = Ok tm -> is_logged s = true ->
    exists s' calls,
      run_in_handler cfg s HTestRequest d =
        (s', calls ++ [OWire (fst (prepare (stamped s (heartbeat_echo (get_string tag_TestReqID (m_body tm))))))], true)
      /\ Forall is_call calls /\ same_control s s' /\ clean cfg s' /\ save_first s'.
Proof. exact testrequest_clean. Qed.
Print Assumptions C14.

Theorem C14_echo_field :
  forall id,
    get_kv tag_TestReqID (m_body (heartbeat_echo id)) = Some (VString true id)
    /\ mt_of (heartbeat_echo id) = msgtype_Heartbeat /\ m_header (heartbeat_echo id) = tpl_Header.
Proof. exact heartbeat_echo_field. Qed.
Print Assumptions C14_echo_field.

(* the premises "clean" and "save_first" of the theorem above are not assumptions about some
   unreachable state: they hold in every state a session reaches from construction through Run and
   any history of operations (inbound messages of any content, application sends, pass-through
   registrations, timer expiries, Logout, Stop) as long as its router is running *)
Theorem C14_premises_reachable :
  forall cfg ci c store pre ops sp op s0 o0 s' os,
    c_fail_saves cfg = [] ->
    (forall k m, store_get store k = Some m -> seq_of m = k /\ (k <= c)%Z) ->
    Forall op_clean pre -> run_ops cfg (init_state cfg ci c store) pre = (sp, op) ->
    run_session cfg sp = (s0, o0) ->
    Forall op_clean ops ->
    run_ops cfg s0 ops = (s', os) ->
    s_router_stopped s' = false -> clean cfg s' /\ save_first s'.
Proof. exact reachable_clean. Qed.
Print Assumptions C14_premises_reachable.
