(* C14 -- A TestRequest is answered by one Heartbeat echoing its TestReqID. *)
From SF Require Import Bytes Values Wire Parse Session Session_proofs Session_clean Session_handlers.

(* For every logged-on state and every byte string that parses as a TestRequest: the handler
   emits exactly one message -- a Heartbeat whose TestReqID field holds the id the parser
   extracted (which by C18 is the value of field 112 of the request, byte for byte) -- stored
   first under its own number, in the same sequential step (so before any later inbound message
   is looked at), and changes nothing that governs the session. *)
Theorem C14 :
  forall cfg s d tm,
    clean cfg s -> save_first s ->
    parse_as msgtype_TestRequest tpl_TestRequest d = Ok tm -> is_logged s = true ->
    exists s' calls,
      run_in_handler cfg s HTestRequest d =
        (s', calls ++ [OWire (fst (prepare (stamped s (heartbeat_echo (get_string tag_TestReqID (m_body tm))))))], true)
      /\ Forall is_call calls /\ same_control s s' /\ clean cfg s' /\ save_first s'.
Proof. exact testrequest_clean. Qed.
Print Assumptions C14.

Theorem C14_echo_field :
  forall id,
    get_kv tag_TestReqID (m_body (heartbeat_echo id)) = Some (VString true id)
    /\ mt_of (heartbeat_echo id) = msgtype_Heartbeat /\ m_header (heartbeat_echo id) = tpl_Header.
Proof. exact heartbeat_echo_field. Qed.
Print Assumptions C14_echo_field.
