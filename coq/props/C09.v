(* C09 -- A silent peer is probed, then disconnected; a live peer never is. *)
From Coq Require Import ZArith List.
From SF Require Import Bytes Values Wire Parse Timer Timer_proofs Timer_loop Session Session_proofs Session_c07 Session_c09.
Open Scope Z_scope.

(* the inbound timer's timeout is N + max(1, N/20) seconds *)
Theorem C09_timeout_values :
  in_timeout 1 = 2 * second /\ in_timeout 19 = 20 * second /\ in_timeout 20 = 21 * second
  /\ in_timeout 30 = 31 * second /\ in_timeout 40 = 42 * second /\ in_timeout 60 = 63 * second.
Proof. exact in_timeout_values. Qed.
Print Assumptions C09_timeout_values.

(* silence: the wait returns within one timeout plus one polling period (and tick delay) of the
   last inbound message, and not before the timeout has elapsed *)
Theorem C09_probe_in_time :
  forall T G start refs ticks from r,
    0 <= T -> 0 < G ->
    dense G from (r + T + G) ticks -> from <= r + T -> start <= from ->
    (forall t, r <= t -> t <= r + T + G -> last_refresh start refs t = r) ->
    exists t, take_timeout T start refs ticks = Some t /\ t <= r + T + G.
Proof. exact returns_in_time. Qed.
Print Assumptions C09_probe_in_time.

Theorem C09_not_before_timeout :
  forall T start refs ticks t,
    take_timeout T start refs ticks = Some t ->
    In t ticks /\ last_refresh start refs t + T <= t /\ forall r, In r refs -> r <= t -> r + T <= t.
Proof. exact no_early_return. Qed.
Print Assumptions C09_not_before_timeout.

(* a peer that sends something at least every N seconds is never probed *)
Theorem C09_live_peer_never_probed :
  forall n start refs ticks, 1 <= n ->
    (forall t, In t ticks -> exists r, (r = start \/ In r refs) /\ r <= t /\ t <= r + out_timeout n) ->
    take_timeout (in_timeout n) start refs ticks = None.
Proof. exact live_peer_never_probed. Qed.
Print Assumptions C09_live_peer_never_probed.

(* what an expiry does (session state machine): the first sends a TestRequest and starts
   waiting; a second one while still waiting raises the disconnect event, whose handler cancels
   the session and stops the handler; any inbound message clears the waiting state *)
Theorem C09_any_inbound_clears_waiting :
  forall cfg s g d,
    s_state s = WaitingTestReqAnswer ->
    run_in_handler cfg s (HTimerRefresh g) d = (upd_state s SuccessfulLogged, nil, true).
Proof. intros cfg s g d H. cbn [run_in_handler]. rewrite H. reflexivity. Qed.
Print Assumptions C09_any_inbound_clears_waiting.

Theorem C09_second_expiry_disconnects :
  forall cfg s g,
    timer_live s g = true -> s_intimer_done s = false -> s_state s = WaitingTestReqAnswer ->
    In EDisconnectCancel (ev_get (s_ev s) EvDisconnect) ->
    Forall (fun h => match h with EApp _ c => c = true | _ => True end) (ev_get (s_ev s) EvDisconnect) ->
    let s' := fst (step cfg s (InTimerFire g)) in
    s_cancelled s' = true /\ s_router_stopped s' = true.
Proof.
  intros cfg s g L D St Hin Hf. cbn [step]. rewrite L, D. cbn [negb orb].
  unfold logged_or_probing. rewrite St. cbn [lstate_eqb orb negb].
  unfold change_state. cbn [event_of_state].
  destruct (run_ev_handlers (upd_state s Disconnect) (ev_get (s_ev (upd_state s Disconnect)) EvDisconnect)) as [s1 o1] eqn:E.
  cbn [fst s_cancelled s_router_stopped upd_timers].
  change (s_ev (upd_state s Disconnect)) with (s_ev s) in E.
  revert E Hin Hf. generalize (upd_state s Disconnect) as s0. generalize (ev_get (s_ev s) EvDisconnect) as hs.
  clear. intros hs. revert s1 o1.
  assert (Mono : forall hs s0 s1 o1, s_cancelled s0 = true /\ s_router_stopped s0 = true ->
                   run_ev_handlers s0 hs = (s1, o1) -> s_cancelled s1 = true /\ s_router_stopped s1 = true).
  { clear. induction hs as [|h hs IH]; intros s0 s1 o1 C E; cbn [run_ev_handlers] in E.
    - inversion E; subst. exact C.
    - destruct h as [| | |id cont].
      + destruct (run_ev_handlers _ hs) as [sx ox] eqn:Ex. inversion E; subst. eapply IH; [|exact Ex]. split; reflexivity.
      + destruct (run_ev_handlers _ hs) as [sx ox] eqn:Ex. inversion E; subst. eapply IH; [|exact Ex]. exact C.
      + destruct (run_ev_handlers _ hs) as [sx ox] eqn:Ex. inversion E; subst. eapply IH; [|exact Ex].
        destruct C as [_ C2]. split; [reflexivity|exact C2].
      + destruct cont.
        * destruct (run_ev_handlers _ hs) as [sx ox] eqn:Ex. inversion E; subst. eapply IH; [|exact Ex]. exact C.
        * inversion E; subst. exact C. }
  induction hs as [|h hs IH]; intros s1 o1 s0 E Hin Hf; [destruct Hin|].
  inversion Hf as [|? ? Hh Hhs]; subst. cbn [run_ev_handlers] in E.
  destruct h as [| | |id cont].
  - destruct (run_ev_handlers _ hs) as [sx ox] eqn:Ex. inversion E; subst. eapply Mono; [|exact Ex]. split; reflexivity.
  - destruct Hin as [Hd|Hin]; [discriminate|].
    destruct (run_ev_handlers _ hs) as [sx ox] eqn:Ex. inversion E; subst. eapply IH; eassumption.
  - destruct Hin as [Hd|Hin]; [discriminate|].
    destruct (run_ev_handlers _ hs) as [sx ox] eqn:Ex. inversion E; subst. eapply IH; eassumption.
  - destruct Hin as [Hd|Hin]; [discriminate|]. subst cont.
    destruct (run_ev_handlers _ hs) as [sx ox] eqn:Ex. inversion E; subst. eapply IH; eassumption.
Qed.
Print Assumptions C09_second_expiry_disconnects.

(* ---- many consecutive periods (the probing loop: the same loop with the inbound timeout, refreshed
   by every inbound message; its first action sends the TestRequest, a second one without a refresh in
   between disconnects) ---- *)

(* a peer that sends something at least every N seconds is never probed, however long the session lasts *)
Theorem C09_live_peer_never_probed_many_periods :
  forall n fuel start refs ticks, 1 <= n ->
    (forall t, In t ticks -> exists r, (r = start \/ In r refs) /\ r <= t /\ t <= r + out_timeout n) ->
    loop (in_timeout n) fuel start refs ticks = nil.
Proof. exact live_peer_loop_never_acts. Qed.
Print Assumptions C09_live_peer_never_probed_many_periods.

(* no action of the probing loop (TestRequest, disconnect) comes sooner than the inbound timeout after
   the previous action or after any inbound message before it: an answer in the second period cancels
   the pending disconnect *)
Theorem C09_never_early_many_periods :
  forall T fuel start refs ticks,
    spaced T start (loop T fuel start refs ticks)
    /\ forall h, In h (loop T fuel start refs ticks) -> forall r, In r refs -> r <= h -> r + T <= h.
Proof. exact loop_never_early. Qed.
Print Assumptions C09_never_early_many_periods.

(* and with a silent peer the loop acts within every stretch of T + G: the probe, then the disconnect *)
Theorem C09_silent_peer_acted_on :
  forall T G, 0 <= T -> 0 < G ->
  forall fuel start refs ticks H,
    (length ticks <= fuel)%nat ->
    dense G start H ticks ->
    forall x, start <= x -> x + T + G <= H ->
      exists e, (In e refs \/ In e (loop T fuel start refs ticks)) /\ x < e <= x + T + G.
Proof. exact loop_never_silent. Qed.
Print Assumptions C09_silent_peer_acted_on.

(* ---- any message is a sign of life ----
   DefaultHandler.serve offers every inbound message that carries a MsgType to the all-types pool
   first.  While that pool holds only the session's own two hooks and accepting application handlers
   (none of which ends the round), and the timer hook of some logon is among them, a session waiting
   for the answer to its TestRequest has left the waiting state by the time the handlers of the
   message's own type run -- whatever the type: a Heartbeat, a SequenceReset the session knows or does
   not know, an application message, an unknown type. *)
Theorem C09_any_message_is_a_sign_of_life :
  forall cfg s d mt,
    value_by_tag d tag_MsgType = Ok mt ->
    Forall passes (pool_get (s_in s) ALL) -> (exists g, In (HTimerRefresh g) (pool_get (s_in s) ALL)) ->
    s_state s = WaitingTestReqAnswer ->
    exists s1 o1,
      run_in_handlers cfg s (pool_get (s_in s) ALL) d = (s1, o1) /\ s_state s1 = SuccessfulLogged /\
      serve cfg s d = (let '(s2, o2) := run_in_handlers cfg s1 (pool_get (s_in s1) mt) d in (s2, o1 ++ o2)).
Proof. exact serve_all_round_clears_waiting. Qed.
Print Assumptions C09_any_message_is_a_sign_of_life.

(* the premises hold in a concrete probing state, and a gap fill as the peer's only sign of life ends
   the probe without touching the inbound counter *)
Theorem C09_sign_of_life_nonvacuous :
  Forall passes (pool_get (s_in ex9_state) ALL)
  /\ (exists g, In (HTimerRefresh g) (pool_get (s_in ex9_state) ALL))
  /\ s_state ex9_state = WaitingTestReqAnswer
  /\ s_state (fst (serve ex9_cfg ex9_state ex9_gapfill)) = SuccessfulLogged
  /\ s_cnt_in (fst (serve ex9_cfg ex9_state ex9_gapfill)) = 3%Z.
Proof. exact probing_example. Qed.
Print Assumptions C09_sign_of_life_nonvacuous.

(* the first premise is what well-formed pools give (each session handler under its own key, kept by
   every operation: Session_c07) as long as the application's all-types handlers accept *)
Theorem C09_sign_of_life_premise :
  forall s, pools_ok s ->
    Forall (fun h => match h with HApp _ acc => acc = true | _ => True end) (pool_get (s_in s) ALL) ->
    Forall passes (pool_get (s_in s) ALL).
Proof. exact pools_ok_passes. Qed.
Print Assumptions C09_sign_of_life_premise.
