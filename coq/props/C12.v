(* C12 -- Generated code is a faithful, deterministic translation of the XML schema.

   The theorems are about Gen.gen, the model of generator/*.go that the correspondence check runs
   against the real cmd/fixgen on every explored schema (the declarations read back from the
   emitted Go files must be exactly the ones the model computes).  For every schema the generator
   accepts: *)
From Coq Require Import String List NArith.
From SF Require Import Bytes Gen Gen_proofs.
Import ListNotations.

(* message-type and field-number constants equal the schema's, and there are no others *)
Theorem C12_constants_equal_schema :
  forall s p, gen s = Ok p ->
    (forall f, In f (s_fields s) -> In (field_const (fd_name f), fd_number f) (gp_consts p)) /\
    (forall c, In c (s_messages s) -> In ((s2b "MsgType" ++ cd_name c)%list, cd_msgtype c) (gp_consts p)) /\
    (forall n v, In (n, v) (gp_consts p) ->
                 (exists f, In f (s_fields s) /\ n = field_const (fd_name f) /\ v = fd_number f) \/
                 (exists c, In c (s_messages s) /\ n = (s2b "MsgType" ++ cd_name c)%list /\ v = cd_msgtype c)).
Proof. exact constants_equal_schema. Qed.
Print Assumptions C12_constants_equal_schema.

(* one generated message per schema message, in schema order, with its message type *)
Theorem C12_messages_in_schema_order :
  forall s p, gen s = Ok p ->
    List.length (gp_messages p) = List.length (s_messages s) /\
    forall i c, nth_error (s_messages s) i = Some c ->
                exists g, nth_error (gp_messages p) i = Some g /\ make_message s c = Ok g /\
                          gs_name g = cd_name c /\ gs_message g = Some (cd_msgtype c).
Proof. exact messages_in_schema_order. Qed.
Print Assumptions C12_messages_in_schema_order.

(* members of a message, component, header, trailer or group entry appear in schema order (the
   framing fields of header and trailer left out), each built as its kind and the type mapping say *)
Theorem C12_members_in_schema_order :
  forall s skip wa name mt ms g, make_struct s skip wa name mt ms = Ok g ->
    List.length (gs_items g) = List.length (kept skip ms) /\
    forall i m, nth_error (kept skip ms) i = Some m ->
                exists it, nth_error (gs_items g) i = Some it /\ item_of s m = Ok it.
Proof. exact members_in_schema_order. Qed.
Print Assumptions C12_members_in_schema_order.

(* every getter/setter pair is bound to its own member: the index it uses is the position of the
   item that was built for that very member *)
Theorem C12_accessor_bound_to_own_member :
  forall s skip wa name mt ms g a, make_struct s skip wa name mt ms = Ok g -> In a (gs_accs g) ->
    exists m it,
      nth_error (kept skip ms) (ga_index a) = Some m /\
      acc_of s m (ga_index a) = Ok a /\
      nth_error (gs_items g) (ga_index a) = Some it /\ item_of s m = Ok it.
Proof. exact accessor_bound_to_own_member. Qed.
Print Assumptions C12_accessor_bound_to_own_member.

Theorem C12_every_member_has_its_accessor :
  forall s skip wa name mt ms g i m,
    make_struct s skip wa name mt ms = Ok g -> nth_error (kept skip ms) i = Some m ->
    exists a, nth_error (gs_accs g) i = Some a /\ ga_index a = i /\ acc_of s m i = Ok a.
Proof. exact every_member_has_its_accessor. Qed.
Print Assumptions C12_every_member_has_its_accessor.

(* a field's accessor is named after the field, has the Go type of the type mapping, and the item
   it reaches carries that field's tag constant *)
Theorem C12_field_accessor_shape :
  forall s m i a, m_kind m = KField -> acc_of s m i = Ok a ->
    ga_name a = m_name m /\ ga_kind a = KField /\ go_type s (m_name m) = Ok (ga_type a) /\
    exists vt, item_of s m = Ok (GKV (field_const (m_name m)) vt) \/ item_of s m = Panic.
Proof. exact field_accessor_shape. Qed.
Print Assumptions C12_field_accessor_shape.

(* the required members are exactly the arguments of the populating constructor, in order, and
   each argument is handed to the setter of the same member *)
Theorem C12_constructor_args_are_required_members :
  forall s skip name mt ms g, make_struct s skip true name mt ms = Ok g ->
    let req := filter m_req (kept skip ms) in
    List.length (gs_args g) = List.length req /\ List.length (gs_calls g) = List.length req /\
    forall i m, nth_error req i = Some m ->
                exists p c, nth_error (gs_args g) i = Some p /\ arg_of s m = Ok p /\
                            nth_error (gs_calls g) i = Some c /\ call_of m = Ok c.
Proof. exact constructor_args_are_required_members. Qed.
Print Assumptions C12_constructor_args_are_required_members.

Theorem C12_call_targets_own_setter :
  forall s m i a c p, acc_of s m i = Ok a -> call_of m = Ok c -> arg_of s m = Ok p ->
    fst c = ga_name a /\ snd c = ga_param a /\ fst p = ga_param a.
Proof. exact call_targets_own_setter. Qed.
Print Assumptions C12_call_targets_own_setter.

(* schemas with duplicate field numbers or message types are rejected, with an error *)
Theorem C12_duplicate_field_numbers_rejected :
  forall s, ~ NoDup (map fd_number (s_fields s)) -> forall p, gen s <> Ok p.
Proof. exact duplicate_field_numbers_rejected. Qed.
Print Assumptions C12_duplicate_field_numbers_rejected.

Theorem C12_duplicate_msgtypes_rejected :
  forall s, ~ NoDup (map cd_msgtype (s_messages s)) -> forall p, gen s <> Ok p.
Proof. exact duplicate_msgtypes_rejected. Qed.
Print Assumptions C12_duplicate_msgtypes_rejected.

Theorem C12_duplicates_give_error :
  forall s, types_ok (s_types s) = true ->
    (~ NoDup (map fd_number (s_fields s)) \/ ~ NoDup (map cd_msgtype (s_messages s))) -> gen s = Err.
Proof. exact duplicates_give_error. Qed.
Print Assumptions C12_duplicates_give_error.

(* repeating groups: when no group name is used with two different member lists, every occurrence
   of a group has exactly the members its generated type was built from ... *)
Theorem C12_consistent_groups_are_faithful :
  forall s, shadowed_groups s = [] ->
    forall o, In o (all_group_occurrences s) ->
              exists g, In g (group_registry s) /\ beq (m_name g) (m_name o) = true /\ same_members g o = true.
Proof. exact consistent_groups_are_faithful. Qed.
Print Assumptions C12_consistent_groups_are_faithful.

(* ... and the full statement, without that hypothesis, is false of the generator (finding D16):
   a schema it accepts in which a message's group does not get its schema members *)
Theorem C12_group_fidelity_refuted :
  exists p ge gg,
    gen d16_schema = Ok p /\ gp_groups p = [(gg, ge)] /\
    gg_name gg = s2b "MDEntriesGrp" /\
    map ga_name (gs_accs ge) = [s2b "MDUpdateAction"; s2b "MDEntryType"] /\
    shadowed_groups d16_schema = [s2b "NoMDEntries"].
Proof. exact D16_group_fidelity_refuted. Qed.
Print Assumptions C12_group_fidelity_refuted.
