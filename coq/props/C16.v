(* C16 -- Invalid admin messages are rejected by sequence number and change nothing. *)
From Coq Require Import List ZArith.
From SF Require Import Bytes Values Wire Parse Session Session_proofs Session_clean Session_handlers
  Session_c05 Session_hist Session_c10.

(* every administrative handler hands a message that does not parse (integrity check or an
   unparsable field) or that is not permitted in the current state to RejectMessage *)
Theorem C16_heartbeat :
  forall cfg s d, (forall m, parse_as msgtype_Heartbeat tpl_Heartbeat d <> Ok m) \/ is_logged s = false ->
    handler_rejects cfg s HHeartbeat d.
Proof. exact heartbeat_invalid. Qed.
Print Assumptions C16_heartbeat.
Theorem C16_testrequest :
  forall cfg s d, (forall m, parse_as msgtype_TestRequest tpl_TestRequest d <> Ok m) \/ is_logged s = false ->
    handler_rejects cfg s HTestRequest d.
Proof. exact testrequest_invalid. Qed.
Print Assumptions C16_testrequest.
Theorem C16_resend :
  forall cfg s d, (forall m, parse_as msgtype_ResendRequest tpl_ResendRequest d <> Ok m) \/ is_logged s = false ->
    handler_rejects cfg s HResend d.
Proof. exact resend_invalid. Qed.
Print Assumptions C16_resend.
Theorem C16_logon_damaged :
  forall cfg s d, (forall m, parse_as msgtype_Logon tpl_Logon d <> Ok m) -> handler_rejects cfg s HLogon d.
Proof. exact logon_damaged. Qed.
Print Assumptions C16_logon_damaged.
Theorem C16_logout_damaged :
  forall cfg s d, (forall m, parse_as msgtype_Logout tpl_Logout d <> Ok m) -> handler_rejects cfg s HLogout d.
Proof. exact logout_damaged. Qed.
Print Assumptions C16_logout_damaged.
Theorem C16_logon_when_logged :
  forall cfg s d lm, parse_as msgtype_Logon tpl_Logon d = Ok lm -> s_state s = SuccessfulLogged ->
    run_in_handler cfg s HLogon d =
    (let '(s', o) := session_send cfg s (mk_reject reject_other 0%Z (get_int tag_MsgSeqNum (m_header lm))) in (s', o, true)).
Proof. exact logon_when_logged. Qed.
Print Assumptions C16_logon_when_logged.
Theorem C16_logout_not_permitted :
  forall cfg s d lm, parse_as msgtype_Logout tpl_Logout d = Ok lm ->
    s_state s <> SuccessfulLogged -> s_state s <> WaitingLogoutAnswer ->
    exists s1 o1, reject_message cfg s d = (s1, o1) /\
      run_in_handler cfg s HLogout d = (upd_state (stop_timers s1) (state_after_logout cfg), o1, true).
Proof. exact logout_not_permitted. Qed.
Print Assumptions C16_logout_not_permitted.

(* RejectMessage: exactly one message leaves, the Reject, stored first under its own number;
   the logon state, the settings, the pools, the timers and both contexts are untouched
   (only the outbound counter and the store advance) *)
Theorem C16_one_reject_nothing_else :
  forall cfg s d, clean cfg s -> save_first s ->
    exists s' calls,
      reject_message cfg s d = (s', calls ++ [OWire (fst (prepare (stamped s (reject_for d))))])
      /\ Forall is_call calls /\ same_control s s' /\ s_cnt_out s' = (s_cnt_out s + 1)%Z
      /\ clean cfg s' /\ save_first s'.
Proof. exact reject_message_clean. Qed.
Print Assumptions C16_one_reject_nothing_else.

(* the Reject references the offending message's sequence number, or names tag 34 when that
   number is missing or not numeric *)
Theorem C16_reject_reference :
  forall d,
    match value_by_tag d tag_MsgSeqNum with
    | Ok sb =>
        match atoi sb with
        | Some seq => get_kv tag_RefSeqNum (m_body (reject_for d)) = Some (VInt true seq)
                      /\ get_kv tag_RefTagID (m_body (reject_for d)) = Some (VInt false 0%Z)
        | None => get_kv tag_RefTagID (m_body (reject_for d)) = Some (VInt true tagnum_MsgSeqNum)
        end
    | _ => get_kv tag_RefTagID (m_body (reject_for d)) = Some (VInt true tagnum_MsgSeqNum)
    end.
Proof. exact reject_for_refs. Qed.
Print Assumptions C16_reject_reference.

(* the premises "clean" and "save_first" of the theorem above are not assumptions about some
   unreachable state: they hold in every state a session reaches from construction through Run and
   any history of operations (inbound messages of any content, application sends, pass-through
   registrations, timer expiries, Logout, Stop) as long as its router is running *)
Theorem C16_premises_reachable :
  forall cfg ci c store pre ops sp op s0 o0 s' os,
    c_fail_saves cfg = [] ->
    (forall k m, store_get store k = Some m -> seq_of m = k /\ (k <= c)%Z) ->
    Forall op_clean pre -> run_ops cfg (init_state cfg ci c store) pre = (sp, op) ->
    run_session cfg sp = (s0, o0) ->
    Forall op_clean ops ->
    run_ops cfg s0 ops = (s', os) ->
    s_router_stopped s' = false -> clean cfg s' /\ save_first s'.
Proof. exact reachable_clean. Qed.
Print Assumptions C16_premises_reachable.
