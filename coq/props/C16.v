(* C16 -- placeholder until the session theorems for this property are in place *)
From SF Require Import Session Session_proofs Session_c07.
Theorem C16_pre_logon_frame : forall cfg s o s' os,
    not_logged s -> pools_ok s -> not_app_send o -> step cfg s o = (s', os) ->
    Forall post_logon_types (wire_types os).
Proof. exact logon_step_wires. Qed.
Print Assumptions C16_pre_logon_frame.
