(* C04 -- Inbound stream is reassembled into the exact messages sent, per connection. *)
From SF Require Import Bytes Frame Frame_proofs.

(* Framing. For every list of well-formed messages (each a sequence of delimiter-terminated
   segments of which exactly the last starts with "10=" -- values may contain "10=" anywhere
   else, tags may end in 10) and EVERY way of cutting their concatenation into read chunks (one
   byte per read, many messages per read, a boundary between '1' and '0=' ...), the reader
   delivers exactly those messages: each once, complete, byte-identical, in order. *)
Theorem C04_reassembly :
  forall (msgs : list (list bytes * bytes)) (chunks : list bytes),
    Forall (fun m => wf_message (fst m) (snd m)) msgs ->
    concat chunks = concat (map (fun m => concat (fst m) ++ snd m) msgs) ->
    deliver chunks = map (fun m => concat (fst m) ++ snd m) msgs.
Proof. exact deliver_exact. Qed.
Print Assumptions C04_reassembly.

(* Pipeline. A connection's inbound path (reader -> Conn.reader -> forwarder -> incoming ->
   handler loop) and outbound path (out -> writer -> socket) are chains of single-producer /
   single-consumer FIFO stages of any capacities. Under every schedule of hand-offs: received ++
   in flight (oldest first) ++ not yet sent = sent. *)
Theorem C04_pipeline :
  forall sent (sched : list move) p,
    pipe_inv sent p -> pipe_inv sent (fold_left pipe_step sched p).
Proof. exact pipe_run_inv. Qed.
Print Assumptions C04_pipeline.

Theorem C04_delivered_prefix :
  forall sent sched (stages : list nat),
    let p0 := {| p_todo := sent; p_stages := map (fun _ => []) stages; p_done := [] |} in
    exists rest, sent = p_done (fold_left pipe_step sched p0) ++ rest.
Proof. exact delivered_is_prefix. Qed.
Print Assumptions C04_delivered_prefix.

(* Any number of simultaneous connections, each with its own pipeline (a fresh handler and a
   fresh Conn per accept): under every interleaving of their hand-offs every connection keeps
   its own invariant -- nothing crosses over. *)
Theorem C04_connections :
  forall sents (sched : list (nat * move)) ps,
    Forall2 pipe_inv sents ps ->
    Forall2 pipe_inv sents (fold_left (fun ps cm => conns_step ps (fst cm) (snd cm)) sched ps).
Proof. exact conns_run_inv. Qed.
Print Assumptions C04_connections.
