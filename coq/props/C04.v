(* C04 -- Inbound stream is reassembled into the exact messages sent, per connection. *)
From SF Require Import Bytes Frame Frame_proofs Frame_drain.

(* Framing. For every list of well-formed messages (each a sequence of delimiter-terminated
   segments of which exactly the last starts with "10=" -- values may contain "10=" anywhere
   else, tags may end in 10) and EVERY way of cutting their concatenation into read chunks (one
   byte per read, many messages per read, a boundary between '1' and '0=' ...), the reader
   delivers exactly those messages: each once, complete, byte-identical, in order. *)
Theorem C04_reassembly :
  forall (msgs : list (list bytes * bytes)) (chunks : list bytes),
    Forall (fun m => wf_message (fst m) (snd m)) msgs ->
    concat chunks = concat (map (fun m => concat (fst m) ++ snd m) msgs) ->
    deliver chunks = map (fun m => concat (fst m) ++ snd m) msgs.
Proof. exact deliver_exact. Qed.
Print Assumptions C04_reassembly.

(* Pipeline. A connection's inbound path (reader -> Conn.reader -> forwarder -> incoming ->
   handler loop) and outbound path (out -> writer -> socket) are chains of single-producer /
   single-consumer FIFO stages of any capacities. Under every schedule of hand-offs: received ++
   in flight (oldest first) ++ not yet sent = sent. *)
Theorem C04_pipeline :
  forall sent (sched : list move) p,
    pipe_inv sent p -> pipe_inv sent (fold_left pipe_step sched p).
Proof. exact pipe_run_inv. Qed.
Print Assumptions C04_pipeline.

Theorem C04_delivered_prefix :
  forall sent sched (stages : list nat),
    let p0 := {| p_todo := sent; p_stages := map (fun _ => []) stages; p_done := [] |} in
    exists rest, sent = p_done (fold_left pipe_step sched p0) ++ rest.
Proof. exact delivered_is_prefix. Qed.
Print Assumptions C04_delivered_prefix.

(* Any number of simultaneous connections, each with its own pipeline (a fresh handler and a
   fresh Conn per accept): under every interleaving of their hand-offs every connection keeps
   its own invariant -- nothing crosses over. *)
Theorem C04_connections :
  forall sents (sched : list (nat * move)) ps,
    Forall2 pipe_inv sents ps ->
    Forall2 pipe_inv sents (fold_left (fun ps cm => conns_step ps (fst cm) (snd cm)) sched ps).
Proof. exact conns_run_inv. Qed.
Print Assumptions C04_connections.

(* End of a connection, the reader. The stream may end (the peer closes, the connection breaks) inside
   a message -- complete segments none of which opens the trailer, then bytes without a delimiter,
   possibly none: for every way of cutting the stream into reads, exactly the messages that arrived
   complete have been delivered, the unfinished one has not. *)
Theorem C04_complete_before_eof :
  forall (msgs : list (list bytes * bytes)) segs partial (chunks : list bytes),
    Forall (fun m => wf_message (fst m) (snd m)) msgs ->
    unfinished segs partial ->
    concat chunks = concat (map (fun m => concat (fst m) ++ snd m) msgs) ++ concat segs ++ partial ->
    deliver chunks = map (fun m => concat (fst m) ++ snd m) msgs.
Proof. exact deliver_exact_then_eof. Qed.
Print Assumptions C04_complete_before_eof.

(* End of a connection, the pipeline. Once nothing is left to hand in and nothing is in flight the
   consumer holds exactly what was sent ... *)
Theorem C04_quiescent_complete :
  forall sent p, pipe_inv sent p -> quiescent p -> p_done p = sent.
Proof. exact quiescent_complete. Qed.
Print Assumptions C04_quiescent_complete.

(* ... and that point can be reached from every state: whatever schedule has run so far, there is a
   continuation after which the handler has been handed exactly what was sent. No message that
   entered the pipeline before the end of the connection can be wedged in a channel; an
   implementation that stops the handler while messages are in flight loses what the model delivers. *)
Theorem C04_nothing_wedged :
  forall sent sched p,
    pipe_inv sent p -> p_stages p <> nil ->
    exists more, p_done (fold_left pipe_step (sched ++ more) p) = sent.
Proof. exact everything_sent_can_be_delivered. Qed.
Print Assumptions C04_nothing_wedged.

(* Outbound. The writer writes each hand-off whole and in order; when the transport takes only part
   of a write (the deadline passes because the peer stopped reading, the connection breaks) the
   connection is cancelled and nothing more is written. Without a failure the stream is the
   hand-offs; with one, every earlier hand-off whole, then the bytes taken of the failing one; in
   every case a prefix of the hand-offs in order -- nothing interleaved, repeated or written behind a
   torn message. *)
Theorem C04_outbound_complete :
  forall msgs, writer msgs None = concat msgs.
Proof. exact writer_complete. Qed.
Print Assumptions C04_outbound_complete.

Theorem C04_outbound_failed_write :
  forall msgs k keep, (k < length msgs)%nat ->
    writer msgs (Some (k, keep)) = concat (firstn k msgs) ++ firstn keep (nth k msgs nil).
Proof. exact writer_failed. Qed.
Print Assumptions C04_outbound_failed_write.

Theorem C04_outbound_prefix :
  forall msgs f, exists rest, concat msgs = writer msgs f ++ rest.
Proof. exact writer_prefix. Qed.
Print Assumptions C04_outbound_prefix.
