(* C15 -- Logout is acknowledged once; Stop ends on the peer's answer or the deadline. *)
From SF Require Import Bytes Values Wire Parse Session Session_proofs Session_clean Session_handlers.

(* logged on + the peer's Logout: the request event, one Logout through Session.send, timers
   stopped, and the session is back to waiting for a Logon (not logged on) *)
Theorem C15_peer_logout :
  forall cfg s d lm,
    parse_as msgtype_Logout tpl_Logout d = Ok lm -> s_state s = SuccessfulLogged ->
    exists sa oa sb ob,
      change_state s WaitingLogoutAnswer = (sa, oa) /\
      session_send cfg sa (mk_msg msgtype_Logout tpl_Logout) = (sb, ob) /\
      run_in_handler cfg s HLogout d = (upd_state (stop_timers sb) (state_after_logout cfg), oa ++ ob, true).
Proof. exact peer_logout_when_logged. Qed.
Print Assumptions C15_peer_logout.

(* after our own Logout, the peer's answer produces no message at all and raises the logout event *)
Theorem C15_answer_to_own_logout :
  forall cfg s d lm,
    parse_as msgtype_Logout tpl_Logout d = Ok lm -> s_state s = WaitingLogoutAnswer ->
    exists s1 o1,
      run_ev_handlers (upd_state s ReceivedLogoutAnswer) (ev_get (s_ev s) EvLogout) = (s1, o1) /\
      run_in_handler cfg s HLogout d =
        (upd_state (stop_timers (upd_state s1 WaitingLogon)) (state_after_logout cfg), OEvent EvLogout :: o1, true)
      /\ wires (OEvent EvLogout :: o1) = [].
Proof. exact peer_logout_answer. Qed.
Print Assumptions C15_answer_to_own_logout.

(* Stop registered its handler for that event: running the event cancels the session context
   (unless an application handler registered earlier for it stops the chain) *)
Theorem C15_stop_cancels_on_answer :
  forall hs s s' o,
    In EStopLogout hs -> Forall (fun h => match h with EApp _ c => c = true | _ => True end) hs ->
    run_ev_handlers s hs = (s', o) -> s_cancelled s' = true.
Proof. exact stop_handler_cancels. Qed.
Print Assumptions C15_stop_cancels_on_answer.

(* and the close deadline cancels it unconditionally, whatever the close timeout *)
Theorem C15_deadline_cancels :
  forall cfg s, s_cancelled (fst (step cfg s CloseDeadline)) = true.
Proof. exact close_deadline_cancels. Qed.
Print Assumptions C15_deadline_cancels.
