(* C15 -- Logout is acknowledged once; Stop ends on the peer's answer or the deadline. *)
From Coq Require Import List.
From SF Require Import Bytes Values Wire Parse Session Session_proofs Session_clean Session_handlers
  Session_c05 Session_hist Session_c10 Session_c15.

(* logged on + the peer's Logout: the request event, one Logout through Session.send, timers
   stopped, and the session is back to waiting for a Logon (not logged on) *)
Theorem C15_peer_logout :
  forall cfg s d lm,
    parse_as msgtype_Logout tpl_Logout d = Ok lm -> s_state s = SuccessfulLogged ->
    exists sa oa sb ob,
      change_state s WaitingLogoutAnswer = (sa, oa) /\
      session_send cfg sa (mk_msg msgtype_Logout tpl_Logout) = (sb, ob) /\
      run_in_handler cfg s HLogout d = (upd_state (stop_timers sb) (state_after_logout cfg), oa ++ ob, true).
Proof. exact peer_logout_when_logged. Qed.
Print Assumptions C15_peer_logout.

(* after our own Logout, the peer's answer produces no message at all and raises the logout event *)
Theorem C15_answer_to_own_logout :
  forall cfg s d lm,
    parse_as msgtype_Logout tpl_Logout d = Ok lm -> s_state s = WaitingLogoutAnswer ->
    exists s1 o1,
      run_ev_handlers (upd_state s ReceivedLogoutAnswer) (ev_get (s_ev s) EvLogout) = (s1, o1) /\
      run_in_handler cfg s HLogout d =
        (upd_state (stop_timers (upd_state s1 WaitingLogon)) (state_after_logout cfg), OEvent EvLogout :: o1, true)
      /\ wires (OEvent EvLogout :: o1) = [].
Proof. exact peer_logout_answer. Qed.
Print Assumptions C15_answer_to_own_logout.

(* Stop registered its handler for that event: running the event cancels the session context
   (unless an application handler registered earlier for it stops the chain) *)
Theorem C15_stop_cancels_on_answer :
  forall hs s s' o,
    In EStopLogout hs -> Forall (fun h => match h with EApp _ c => c = true | _ => True end) hs ->
    run_ev_handlers s hs = (s', o) -> s_cancelled s' = true.
Proof. exact stop_handler_cancels. Qed.
Print Assumptions C15_stop_cancels_on_answer.

(* and the close deadline cancels it unconditionally, whatever the close timeout *)
Theorem C15_deadline_cancels :
  forall cfg s, s_cancelled (fst (step cfg s CloseDeadline)) = true.
Proof. exact close_deadline_cancels. Qed.
Print Assumptions C15_deadline_cancels.

(* ---- over whole histories ----
   The application stops the session at some point; whatever happens afterwards (inbound messages
   of any content, sends, registrations of pass-through handlers, timer expiries, the close
   deadline), Stop's handler for the logout event stays registered ... *)
Theorem C15_stop_registered_forever :
  forall cfg s s1 o1 ops s' os,
    step cfg s AppStop = (s1, o1) -> Forall op_clean ops -> run_ops cfg s1 ops = (s', os) ->
    stop_registered s'.
Proof. exact stop_registered_forever. Qed.
Print Assumptions C15_stop_registered_forever.

(* ... so that, if the session is still waiting for the answer when the peer's Logout arrives, that
   message is answered by nothing (no second Logout), signals the logout event, cancels the session
   context and leaves the session not logged on -- provided the application's own handlers for that
   event let the chain continue *)
Theorem C15_stop_history :
  forall cfg s s1 o1 ops s2 os d lm,
    step cfg s AppStop = (s1, o1) -> Forall op_clean ops -> run_ops cfg s1 ops = (s2, os) ->
    parse_as msgtype_Logout tpl_Logout d = Ok lm -> s_state s2 = WaitingLogoutAnswer ->
    Forall (fun h => match h with EApp _ c => c = true | _ => True end) (ev_get (s_ev s2) EvLogout) ->
    exists s' o, run_in_handler cfg s2 HLogout d = (s', o, true)
                 /\ s_cancelled s' = true /\ wires o = nil /\ In (OEvent EvLogout) o
                 /\ is_logged s' = false.
Proof. exact Session_c15.C15_stop_history. Qed.
Print Assumptions C15_stop_history.

(* the premises are satisfiable: a logged-on session is stopped, an application message is sent and
   a handler registered, the peer's Logout arrives: the context is cancelled by that message *)
Theorem C15_stop_history_nonvacuous :
  is_logged ex15_before = true
  /\ Forall op_clean (AppSend (AppTestRequest (120%N :: nil)) :: RegEv EvLogout 4 true :: nil)
  /\ s_state (fst ex15_later) = WaitingLogoutAnswer /\ s_cancelled (fst ex15_later) = false
  /\ (exists lm, parse_as msgtype_Logout tpl_Logout ex15_logout = Ok lm)
  /\ Forall (fun h => match h with EApp _ c => c = true | _ => True end) (ev_get (s_ev (fst ex15_later)) EvLogout)
  /\ s_cancelled (fst (fst (run_in_handler ex5_cfg (fst ex15_later) HLogout ex15_logout))) = true.
Proof. exact stop_example. Qed.
Print Assumptions C15_stop_history_nonvacuous.
