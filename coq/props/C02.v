(* C02 -- Parsing inverts serialization for every message shape and value. *)
From Coq Require Import List ZArith.
From SF Require Import Bytes Values Wire Parse Fields_proofs Damage_proofs Roundtrip_proofs
  Roundtrip_flat Roundtrip_group Roundtrip_nested.
Import ListNotations.

(* Values: parsing the canonical text of any populated value of any of the seven types into an
   empty value of the same type gives the value back (in its parsed form, [norm], which serializes
   to the same bytes). *)
Theorem C02_value_roundtrip :
  forall o v, populated v = true -> good_value o v ->
    val_from_bytes o (val_empty v) (canon v) = Ok (norm v).
Proof. exact value_roundtrip. Qed.
Print Assumptions C02_value_roundtrip.

Theorem C02_norm_same_bytes :
  forall tag v, kv_to_bytes tag (norm v) = kv_to_bytes tag v.
Proof. exact norm_to_bytes. Qed.
Print Assumptions C02_norm_same_bytes.

(* Every message shape: header, body and trailer made of key-values, components and repeating
   groups nested to any depth (a group entry may contain groups and components, a component may
   contain groups), any number of groups and entries, empty groups included.  Unmarshal of ToBytes
   into a fresh template returns the message with BodyLength and CheckSum as Prepare set them,
   every populated value in its parsed form, every unpopulated one still empty, every group with
   all its entries in order -- under exactly the guards the decoder needs: tags are digit strings
   and distinct over the whole template (the decoder finds fields by searching for their tag),
   values contain no delimiter and are canonical for their type, every group entry has the shape of
   its group's template and starts with a populated key-value (the delimiter field that splitGroup
   splits on), and the message fits Go's int.  The splitting of group regions into entry chunks and
   the recursion of the entry parser into its own chunk are part of what is proved. *)
Theorem C02_message_roundtrip :
  forall (o : oracle) (m : message) (bs mt : bytes),
    m_bs m = VString true bs -> bs <> [] -> sohfree bs ->
    m_mt m = VString true mt -> mt <> [] -> sohfree mt ->
    digits (m_bs_tag m) -> digits (m_bl_tag m) -> digits (m_mt_tag m) -> digits (m_cs_tag m) ->
    Forall (wfi o) (m_header m) -> Forall (wfi o) (m_body m) -> Forall (wfi o) (m_trailer m) ->
    Forall (fun it => negb (is_cs_kv (m_cs_tag m) it) = true) (m_trailer m) ->
    NoDup (all_tags_n m) ->
    (Z.of_nat (calc_body_length m) <= int_max)%Z ->
    unmarshal o (template_of m) (to_bytes m) = Ok (norm_msg_n (fst (prepare m))).
Proof. exact message_roundtrip. Qed.
Print Assumptions C02_message_roundtrip.

(* the premises are satisfiable: a message with a three-entry group whose entries contain a group
   of two, none and one entries goes through the theorem, and the parsed message has them all *)
Theorem C02_premises_satisfiable_nested :
  unmarshal ex_oracle (template_of exn_msg) (to_bytes exn_msg) = Ok (norm_msg_n (fst (prepare exn_msg))).
Proof. exact nested_roundtrip_applies. Qed.
Print Assumptions C02_premises_satisfiable_nested.

(* the two earlier stages of the same result, kept because their statements are simpler to read:
   flat messages, and messages with one level of groups *)
(* Whole messages without repeating groups (key-values and components, nested to any depth, in
   header, body and trailer): Unmarshal of ToBytes into a fresh template returns the message with
   BodyLength and CheckSum as Prepare set them, every populated value in its parsed form and every
   unpopulated one still empty -- whatever the values, as long as tags are digit strings, distinct
   over the whole template, and values contain no delimiter. *)
Theorem C02_flat_message_roundtrip :
  forall (o : oracle) (m : message) (bs mt : bytes),
    m_bs m = VString true bs -> bs <> [] -> sohfree bs ->
    m_mt m = VString true mt -> mt <> [] -> sohfree mt ->
    digits (m_bs_tag m) -> digits (m_bl_tag m) -> digits (m_mt_tag m) -> digits (m_cs_tag m) ->
    Forall flat (m_header m) -> Forall flat (m_body m) -> Forall flat (m_trailer m) ->
    Forall (fun it => negb (is_cs_kv (m_cs_tag m) it) = true) (m_trailer m) ->
    Forall (wf_kv o) (inner_kvs m) ->
    NoDup (m_bs_tag m :: m_bl_tag m :: m_mt_tag m :: map fst (inner_kvs m) ++ [m_cs_tag m]) ->
    (Z.of_nat (calc_body_length m) <= int_max)%Z ->
    unmarshal o (template_of m) (to_bytes m) = Ok (norm_msg (fst (prepare m))).
Proof. exact flat_message_roundtrip. Qed.
Print Assumptions C02_flat_message_roundtrip.

(* Messages whose body also holds repeating groups (any number of groups, any number of entries,
   entries made of key-values and components; the first member of every entry populated, as FIX
   requires of the delimiter field; empty groups allowed): every group comes back with all its
   entries, in order, member by member.  The splitting of the group region into entries
   (splitGroup) is part of what is proved.  Partial with respect to the property only in that a
   group nested inside a group entry is not covered by this theorem (the correspondence check
   exercises those shapes against the implementation). *)
Theorem C02_group_message_roundtrip :
  forall (o : oracle) (m : message) (bs mt : bytes),
    m_bs m = VString true bs -> bs <> [] -> sohfree bs ->
    m_mt m = VString true mt -> mt <> [] -> sohfree mt ->
    digits (m_bs_tag m) -> digits (m_bl_tag m) -> digits (m_mt_tag m) -> digits (m_cs_tag m) ->
    Forall flat (m_header m) -> Forall (wf_kv o) (kvs_list (m_header m)) ->
    Forall (item_wf o) (m_body m) ->
    Forall flat (m_trailer m) -> Forall (wf_kv o) (kvs_list (m_trailer m)) ->
    Forall (fun it => negb (is_cs_kv (m_cs_tag m) it) = true) (m_trailer m) ->
    NoDup (all_tags m) ->
    (Z.of_nat (calc_body_length m) <= int_max)%Z ->
    unmarshal o (template_of m) (to_bytes m) = Ok (norm_msg_g (fst (prepare m))).
Proof. exact group_message_roundtrip. Qed.
Print Assumptions C02_group_message_roundtrip.

(* the premises are satisfiable: concrete messages with a component, unpopulated members, a
   two-entry group and an empty group go through the theorems (Roundtrip_flat.flat_roundtrip_applies,
   Roundtrip_group.group_roundtrip_applies) *)
Theorem C02_premises_satisfiable :
  unmarshal ex_oracle (template_of exg_msg) (to_bytes exg_msg) = Ok (norm_msg_g (fst (prepare exg_msg))).
Proof. exact group_roundtrip_applies. Qed.
Print Assumptions C02_premises_satisfiable.
