(* C02 -- Parsing inverts serialization for every message shape and value. *)
From SF Require Import Bytes Values Wire Parse Fields_proofs Roundtrip_proofs.

(* Per-field part: parsing the canonical text of any populated value of any of the seven
   types into an empty value of the same type gives the value back (in its parsed form,
   [norm], which serializes to the same bytes). *)
Theorem C02_value_roundtrip_partial :
  forall o v, populated v = true -> good_value o v ->
    val_from_bytes o (val_empty v) (canon v) = Ok (norm v).
Proof. exact value_roundtrip. Qed.
Print Assumptions C02_value_roundtrip_partial.

Theorem C02_norm_same_bytes :
  forall tag v, kv_to_bytes tag (norm v) = kv_to_bytes tag v.
Proof. exact norm_to_bytes. Qed.
Print Assumptions C02_norm_same_bytes.
