(* C08 -- A logged-on session never stays silent longer than the heartbeat interval. *)
From Coq Require Import ZArith List.
From SF Require Import Timer Timer_proofs.
Open Scope Z_scope.

(* The outbound timer (timeout T = N seconds, polled every T/10) is refreshed by every outbound
   message and on entry of each wait; the loop sends a Heartbeat when the wait returns.
   Liveness bound: if the last refresh is at r and nothing is sent until r + T + G, the wait
   returns -- and the Heartbeat is sent -- by r + T + G, where G is the polling period plus the
   delay of the tick that notices (ticks dense up to that instant). *)
Theorem C08_never_silent_longer :
  forall T G start refs ticks from r,
    0 <= T -> 0 < G ->
    dense G from (r + T + G) ticks -> from <= r + T -> start <= from ->
    (forall t, r <= t -> t <= r + T + G -> last_refresh start refs t = r) ->
    (forall t, t < r -> last_refresh start refs t <= t) ->
    exists t, take_timeout T start refs ticks = Some t /\ t <= r + T + G.
Proof. exact returns_in_time. Qed.
Print Assumptions C08_never_silent_longer.

(* Postponement: when the wait returns at t, no outbound message (no refresh) happened at any
   instant in (t - T, t]: an unsolicited Heartbeat is never sent sooner than N seconds after the
   previous outbound message, so application traffic postpones it. *)
Theorem C08_not_sooner :
  forall T start refs ticks t,
    take_timeout T start refs ticks = Some t ->
    In t ticks /\ last_refresh start refs t + T <= t
    /\ forall r, In r refs -> r <= t -> r + T <= t.
Proof. exact no_early_return. Qed.
Print Assumptions C08_not_sooner.
