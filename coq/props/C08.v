(* C08 -- A logged-on session never stays silent longer than the heartbeat interval. *)
From Coq Require Import ZArith List.
From SF Require Import Timer Timer_proofs Timer_loop.
Open Scope Z_scope.

(* The outbound timer (timeout T = N seconds, polled every T/10) is refreshed by every outbound
   message and on entry of each wait; the loop sends a Heartbeat when the wait returns.
   Liveness bound: if the last refresh is at r and nothing is sent until r + T + G, the wait
   returns -- and the Heartbeat is sent -- by r + T + G, where G is the polling period plus the
   delay of the tick that notices (ticks dense up to that instant). *)
Theorem C08_never_silent_longer :
  forall T G start refs ticks from r,
    0 <= T -> 0 < G ->
    dense G from (r + T + G) ticks -> from <= r + T -> start <= from ->
    (forall t, r <= t -> t <= r + T + G -> last_refresh start refs t = r) ->
    exists t, take_timeout T start refs ticks = Some t /\ t <= r + T + G.
Proof. exact returns_in_time. Qed.
Print Assumptions C08_never_silent_longer.

(* Postponement: when the wait returns at t, no outbound message (no refresh) happened at any
   instant in (t - T, t]: an unsolicited Heartbeat is never sent sooner than N seconds after the
   previous outbound message, so application traffic postpones it. *)
Theorem C08_not_sooner :
  forall T start refs ticks t,
    take_timeout T start refs ticks = Some t ->
    In t ticks /\ last_refresh start refs t + T <= t
    /\ forall r, In r refs -> r <= t -> r + T <= t.
Proof. exact no_early_return. Qed.
Print Assumptions C08_not_sooner.

(* ---- many consecutive periods ----
   The loop: wait, send a Heartbeat when the wait returns, wait again (sending and re-entering the
   wait restart the clock).  [loop T fuel start refs ticks] lists the instants at which it sends. *)

(* never silent longer: with ticks at most G apart (polling period + tick delay) from the entry of
   the loop up to a horizon H and outbound messages (refs) at arbitrary instants, every stretch of
   T + G before the horizon contains an outbound message or a Heartbeat of the loop *)
Theorem C08_never_silent_many_periods :
  forall T G, 0 <= T -> 0 < G ->
  forall fuel start refs ticks H,
    (length ticks <= fuel)%nat ->
    dense G start H ticks ->
    forall x, start <= x -> x + T + G <= H ->
      exists e, (In e refs \/ In e (loop T fuel start refs ticks)) /\ x < e <= x + T + G.
Proof. exact loop_never_silent. Qed.
Print Assumptions C08_never_silent_many_periods.

(* not sooner: every Heartbeat of the loop comes at least T after the previous one and at least T
   after every outbound message that precedes it, however many periods pass *)
Theorem C08_not_sooner_many_periods :
  forall T fuel start refs ticks,
    spaced T start (loop T fuel start refs ticks)
    /\ forall h, In h (loop T fuel start refs ticks) -> forall r, In r refs -> r <= h -> r + T <= h.
Proof. exact loop_never_early. Qed.
Print Assumptions C08_not_sooner_many_periods.

(* the statements are not vacuous: three periods with one application message in the second *)
Theorem C08_loop_nonvacuous :
  loop 100 5 0 (130 :: nil) (10::20::30::40::50::60::70::80::90::100::110::120::130::140::150::160::170::180::190::200::210::220::230::240::250::260::270::280::290::300::310::320::330::340::nil)
  = (100 :: 230 :: 330 :: nil)
  /\ dense 10 0 340 (10::20::30::40::50::60::70::80::90::100::110::120::130::140::150::160::170::180::190::200::210::220::230::240::250::260::270::280::290::300::310::320::330::340::nil).
Proof. exact loop_example. Qed.
Print Assumptions C08_loop_nonvacuous.

(* what the harness's TICK lines are judged against is a run of this model: polled exactly every P
   from the entry of the wait, the wait returns at the first tick at or after (latest refresh + T),
   and with zero tolerance tick_conforms accepts exactly the instants from (latest refresh + T) up to
   that tick (a tick that is delivered late may notice between two grid instants) *)
Theorem C08_exact_ticks_run :
  forall T P start refs L n,
    0 < P -> 0 <= T -> start <= L ->
    (forall t, L <= t -> last_refresh start refs t = L) ->
    (forall t, In t (exact_ticks P start n) -> t < L -> t < last_refresh start refs t + T) ->
    ideal_tick P start (L + T) <= start + Z.of_nat n * P ->
    take_timeout T start refs (exact_ticks P start n) = Some (ideal_tick P start (L + T)).
Proof. exact take_timeout_ideal. Qed.
Print Assumptions C08_exact_ticks_run.
Theorem C08_tick_judgement_exact :
  forall T start last ret, 0 < period T ->
    (tick_conforms T 0 0 start last ret = true <->
     last + T <= ret <= ideal_tick (period T) start (last + T)).
Proof. exact tick_conforms_exact. Qed.
Print Assumptions C08_tick_judgement_exact.
(* the accepted interval is never empty: the noticing tick itself is in it *)
Theorem C08_noticing_tick_accepted :
  forall P start x, 0 < P -> x <= ideal_tick P start x.
Proof. exact ideal_tick_ge. Qed.
Print Assumptions C08_noticing_tick_accepted.
