(* C05 -- Outbound messages are numbered 1,2,3,... with no gap, duplicate or reordering:
   the sequential layer (per send and over whole histories) and the concurrency layer. *)
From SF Require Import Bytes Values Wire Parse Session Session_proofs Session_clean.

(* every message that Session.send transmits carries the counter value it has just advanced to,
   the session's sender and target identifiers and a sending time, and the counter has advanced
   by exactly one *)
Theorem C05_send_numbering :
  forall cfg s m, clean cfg s -> save_first s -> m_header m = tpl_Header ->
    exists s' calls,
      session_send cfg s m = (s', calls ++ [OWire (fst (prepare (stamped s m)))])
      /\ Forall is_call calls /\ In (OSave (s_cnt_out s + 1) true) calls
      /\ store_get (s_store s') (s_cnt_out s + 1) = Some (stamped s m)
      /\ (forall k, k <> (s_cnt_out s + 1)%Z -> store_get (s_store s') k = store_get (s_store s) k)
      /\ same_control s s' /\ s_cnt_out s' = (s_cnt_out s + 1)%Z /\ clean cfg s' /\ save_first s'.
Proof. exact session_send_clean. Qed.
Print Assumptions C05_send_numbering.

Theorem C05_stamp :
  forall s m, m_header m = tpl_Header ->
    seq_of (stamped s m) = (s_cnt_out s + 1)%Z /\
    get_string tag_TargetCompID (m_header (stamped s m)) = st_target (s_settings s) /\
    get_string tag_SenderCompID (m_header (stamped s m)) = st_sender (s_settings s) /\
    get_string tag_SendingTime (m_header (stamped s m)) = sending_time_placeholder.
Proof. intros s m H. split; [apply stamped_seq; exact H|apply stamped_ids; exact H]. Qed.
Print Assumptions C05_stamp.

(* over whole histories: whatever operations the application and the peer perform, in whatever
   order (sends, inbound messages of every kind incl. ResendRequests, logon/logout, timers firing,
   registrations of pass-through handlers), every message on the wire either carries exactly the
   next number or is a retransmission of a stored, already numbered message: the fresh numbers are
   c+1, c+2, ..., w' with no gap, duplicate or reordering, and w' is the outbound counter as long
   as the router has not been stopped (after Stop, numbers may be taken that never reach the wire) *)
From Coq Require Import List ZArith.
From SF Require Import Session_c05.
Theorem C05_history_numbering :
  forall cfg ci c store ops s' os,
    c_fail_saves cfg = nil ->
    (forall k m, store_get store k = Some m -> (seq_of m <= c)%Z) ->
    Forall op_clean ops ->
    run_ops cfg (init_state cfg ci c store) ops = (s', os) ->
    exists w',
      numbered c (wire_seqs (concat os)) w'
      /\ fresh c (wire_seqs (concat os)) = zrange c (Z.to_nat (w' - c))
      /\ (w' <= s_cnt_out s')%Z /\ (s_router_stopped s' = false -> w' = s_cnt_out s').
Proof. exact C05_history. Qed.
Print Assumptions C05_history_numbering.

Theorem C05_history_nonvacuous :
  wire_seqs (concat (snd (run_ops ex5_cfg (init_state ex5_cfg 0%Z 5%Z nil) ex5_ops))) = (6 :: 7 :: 8 :: 9 :: nil)%Z
  /\ Forall op_clean ex5_ops.
Proof. exact history_example. Qed.
Print Assumptions C05_history_nonvacuous.

(* the same from Session.Run onwards (the handlers of the session are registered by Run, the
   initiator's Logon is the first numbered message): construction, whatever the application
   registers before Run, Run, then any history *)
From SF Require Import Session_hist Session_c10.
Theorem C05_session_numbering :
  forall cfg ci c store pre ops sp op s0 o0 s' os,
    c_fail_saves cfg = nil ->
    (forall k m, store_get store k = Some m -> (seq_of m <= c)%Z) ->
    Forall op_clean pre -> run_ops cfg (init_state cfg ci c store) pre = (sp, op) ->
    run_session cfg sp = (s0, o0) ->
    Forall op_clean ops ->
    run_ops cfg s0 ops = (s', os) ->
    let sent := wire_seqs (concat op ++ o0 ++ concat os) in
    exists w',
      numbered c sent w'
      /\ fresh c sent = zrange c (Z.to_nat (w' - c))
      /\ (w' <= s_cnt_out s')%Z /\ (s_router_stopped s' = false -> w' = s_cnt_out s').
Proof. exact C05_session. Qed.
Print Assumptions C05_session_numbering.

(* non-vacuous: a run session in which the peer logs on, the application sends and the peer asks
   for a retransmission has wire numbers 1,2,3 and then the retransmitted 2,3 *)
Theorem C05_session_nonvacuous :
  wire_seqs (concat (snd (run_ops ex5_cfg (fst ex10_run) (ex10_ops ++ (Inbound (ex10_resend 2 3) :: nil)))))
  = (1 :: 2 :: 3 :: 2 :: 3 :: nil)%Z.
Proof. vm_compute. reflexivity. Qed.
Print Assumptions C05_session_nonvacuous.

(* ---- concurrency layer ---- *)
From Coq Require Import String List NArith.
From SF Require Import Conc Sites.

(* In the table regenerated from the source on this run, Session.send takes the outbound number
   and hands the message to the outgoing channel inside one exclusive section of Session.mu that
   lasts until the function returns, and no other function takes outbound numbers. *)
Theorem C05_critical_section : critical_ok site_names site_funcs = true.
Proof. vm_compute. reflexivity. Qed.
Print Assumptions C05_critical_section.

(* For programs of that shape, in every interleaving of any number of threads each running the
   section any number of times, the numbers reach the channel in the order they were taken (at
   most the one in hand is missing). Composed with C04's FIFO pipeline (channel -> single writer
   -> socket) the wire carries them in that order. *)
Theorem C05_enqueue_order :
  forall tr s, srun sinit tr = Some s ->
    taken s = queued s \/ exists n, taken s = (queued s ++ n :: nil)%list.
Proof. exact enqueue_order_is_take_order. Qed.
Print Assumptions C05_enqueue_order.
