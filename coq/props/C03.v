(* C03 -- Damaged messages are rejected: the integrity check is sound. *)
From SF Require Import Bytes Values Wire Parse Wire_proofs Fields_proofs Validate_proofs Damage_proofs.
Open Scope N_scope.

(* A: the parser accepts a byte string only if it is
   BeginString | BodyLength | region | CheckSum with the declared length equal to the measured
   length of the region and the declared checksum equal to the byte sum of everything before the
   CheckSum field, mod 256, in three digits; and the BeginString is the message type's own. *)
Theorem C03_accept_only_consistent :
  forall o tm d r,
    unmarshal o tm d = Ok r ->
    exists bs L B c,
      framed (m_bs_tag tm) (m_bl_tag tm) (m_cs_tag tm) d bs L B c
      /\ (forall wb, want_bs_of tm = Some wb -> bs = wb).
Proof. exact unmarshal_ok_framed. Qed.
Print Assumptions C03_accept_only_consistent.

(* B: every single-byte substitution, insertion, deletion and every proper prefix of a valid
   serialized message is rejected with an error (the strict flag is not an input of the model:
   the code never consults it). *)
Theorem C03_damage_rejected_thm :
  forall (o : oracle) (m tm : message) (bs mtF : bytes),
    kv_to_bytes (m_bs_tag m) (m_bs m) = Some (m_bs_tag m ++ EQS :: bs) ->
    kv_to_bytes (m_mt_tag m) (m_mt m) = Some mtF ->
    sohfree bs ->
    digits (m_bs_tag m) -> digits (m_bl_tag m) -> digits (m_cs_tag m) ->
    (Z.of_nat (length (counted_region m mtF)) <= int_max)%Z ->
    m_bs_tag tm = m_bs_tag m -> m_bl_tag tm = m_bl_tag m -> m_cs_tag tm = m_cs_tag m ->
    want_bs_of tm = Some bs ->
    let w := to_bytes m in
    (forall a x y b, w = a ++ x :: b -> x < 256 -> y < 256 -> x <> y -> unmarshal o tm (a ++ y :: b) = Err) /\
    (forall a b x, w = a ++ b -> x < 256 -> unmarshal o tm (a ++ x :: b) = Err) /\
    (forall a x b, w = a ++ x :: b -> x < 256 -> unmarshal o tm (a ++ b) = Err) /\
    (forall w' z, w = w' ++ z -> z <> [] -> unmarshal o tm w' = Err).
Proof. exact C03_damage_rejected. Qed.
Print Assumptions C03_damage_rejected_thm.
