(* C01 -- Serialized messages carry a correct BodyLength and CheckSum. *)
From SF Require Import Bytes Values Wire Wire_proofs.

Theorem C01 :
  forall (m : message) (bsF mtF : bytes),
    kv_to_bytes (m_bs_tag m) (m_bs m) = Some bsF ->
    kv_to_bytes (m_mt_tag m) (m_mt m) = Some mtF ->
    exists R : bytes,
      let P := bsF ++ SOH :: m_bl_tag m ++ EQS :: itoa (Z.of_nat (length R)) ++ SOH :: R in
      let c := pad3 (sum_bytes P mod 256) in
      to_bytes m = P ++ m_cs_tag m ++ EQS :: c ++ [SOH]
      /\ (exists rest, R = mtF ++ SOH :: rest)
      /\ (exists r, R = r ++ [SOH])
      /\ length c = 3%nat /\ parse_digits c = Some (sum_bytes P mod 256)%N
      /\ ((Z.of_nat (length R) <= int_max)%Z ->
          atoi (itoa (Z.of_nat (length R))) = Some (Z.of_nat (length R))).
Proof. exact C01_framing_length_checksum. Qed.
Print Assumptions C01.
