(* C07 -- Nothing but Logon, Logout and Reject is sent to a peer that has not logged on. *)
From SF Require Import Bytes Values Wire Parse Session Session_proofs Session_c07.

(* For every configuration (role, allowed methods, heartbeat limits, logon callback, failing
   saves), every initial message store (empty or already holding any messages of any other
   session) and counters, every set of handlers the application registered before Run and
   every history of operations other than application sends (inbound messages of any content,
   local Logout/Stop, registrations, timer expiries, the close deadline): every message handed
   to the outgoing channel before the step that completes the first logon has MsgType Logon,
   Logout or Reject. *)
Theorem C07 :
  forall cfg ci co store pre ops,
    Forall is_reg pre -> Forall not_app_send ops ->
    let s0 := fst (run_ops cfg (init_state cfg ci co store) pre) in
    let '(s1, o1) := run_session cfg s0 in
    Forall allowed_pre (wire_types o1 ++ pre_logon_wires cfg s1 ops).
Proof. exact C07_session. Qed.
Print Assumptions C07.

(* and the step that completes it adds at most the Logon answer and a gap ResendRequest *)
Theorem C07_logon_step :
  forall cfg s o s' os,
    not_logged s -> pools_ok s -> not_app_send o -> step cfg s o = (s', os) ->
    Forall post_logon_types (wire_types os).
Proof. exact logon_step_wires. Qed.
Print Assumptions C07_logon_step.
