(* C11 -- No byte string can crash or hang the decoder. *)
From SF Require Import Bytes Values Wire Parse Safety_proofs.

(* Unmarshal, for every conversion oracle, message type (any item tree,
   populated or not) and byte string: a value or an error, never a panic and
   never exhaustion of the fuel that stands for the Go loops. The model does
   not consult the strict flag at all (the code does not either). *)
Theorem C11_unmarshal :
  forall (o : oracle) (m : message) (d : bytes),
    (* the BeginString and BodyLength tags do not contain the delimiter byte *)
    Forall (fun x => x <> SOH) (m_bs_tag m) -> Forall (fun x => x <> SOH) (m_bl_tag m) ->
    match unmarshal o m d with Panic | OutOfFuel => False | Ok _ | Err => True end.
Proof. exact unmarshal_safe. Qed.
Print Assumptions C11_unmarshal.

Theorem C11_value_by_tag :
  forall (d t : bytes),
    match value_by_tag d t with Panic | OutOfFuel => False | Ok _ | Err => True end.
Proof. exact value_by_tag_safe. Qed.
Print Assumptions C11_value_by_tag.

(* the loop of splitGroup: with a non-empty first tag it returns within
   (length line + 1) iterations *)
Theorem C11_split_group_terminates :
  forall fuel line ft, ft <> [] -> line <> [] -> (length line < fuel)%nat ->
    exists chunks, split_group fuel line ft = Ok chunks.
Proof. exact split_group_safe. Qed.
Print Assumptions C11_split_group_terminates.
