(* Session_c10.v -- C10 and C19 over whole histories: the store and the wire agree.
   Whatever the application and the peer do, in whatever order,
     * every message that has been transmitted is in the store under its own number, byte for
       byte (store-before-send, at every point of every history);
     * two transmissions under the same number are the same bytes (a retransmission is the stored
       message, never a rebuilt one);
     * as long as the router is running, every number handed out since the session was built is
       in the store and was transmitted;
     * so a ResendRequest for from..to within that range is answered with exactly the messages
       transmitted under from, from+1, ..., to -- all of them, in ascending order, unchanged. *)
From Coq Require Import List ZArith Lia Bool.
From SF Require Import Bytes Values Wire Parse Session Bytes_proofs Session_proofs Session_clean
  Session_handlers Session_c07 Session_c05 Session_hist.
Import ListNotations.
Open Scope Z_scope.

Section Store.
Variable cfg : config.
Variable c : Z.        (* the outbound counter the session was built with *)

Definition stored_ok (s : sstate) : Prop :=
  forall k m, store_get (s_store s) k = Some m -> seq_of m = k /\ k <= s_cnt_out s.

Definition sent_stored (s : sstate) (tr : list message) : Prop :=
  forall w, In w tr -> exists m, store_get (s_store s) (seq_of w) = Some m /\ fst (prepare m) = w.

Definition numbered_stored (s : sstate) (tr : list message) : Prop :=
  s_router_stopped s = false ->
  forall k, c < k <= s_cnt_out s -> exists m, store_get (s_store s) k = Some m /\ In (fst (prepare m)) tr.

Definition K (s : sstate) (tr : list message) : Prop :=
  c_fail_saves cfg = [] /\ pools_clean s /\ stored_ok s /\ sent_stored s tr /\ numbered_stored s tr.

Lemma K_keeps s s' tr : K s tr -> keeps s s' -> K s' tr.
Proof.
  intros (Hf & (Hc & (rest & Hs)) & K1 & K2 & K3) (C & S & P & R & _).
  split; [exact Hf|]. split.
  { split.
    - intro k. destruct (P k) as (e & E & F). rewrite E. apply Forall_app. split; [apply Hc|exact F].
    - destruct (P ALL) as (e & E & _). exists (rest ++ e). rewrite E, Hs. reflexivity. }
  split; [|split].
  - intros k m Hk. rewrite S in Hk. rewrite C. exact (K1 k m Hk).
  - intros w Hw. rewrite S. exact (K2 w Hw).
  - intros Hn k Hk. rewrite S. rewrite C in Hk. apply K3; [|exact Hk].
    destruct (s_router_stopped s) eqn:E; [rewrite (R eq_refl) in Hn; discriminate|reflexivity].
Qed.

Lemma pools_clean_same s s' : s_out s' = s_out s -> pools_clean s -> pools_clean s'.
Proof.
  intros O (Hc & (rest & Hs)). split; [intro k; rewrite O; apply Hc|exists rest; rewrite O; exact Hs].
Qed.

(* Session.send *)
Lemma K_send s m s' o tr :
  K s tr -> m_header m = tpl_Header -> session_send cfg s m = (s', o) -> K s' (tr ++ wires o).
Proof.
  intros (Hf & Hp & K1 & K2 & K3) Hh H. unfold session_send in H.
  set (s1 := upd_cnt_out s (s_cnt_out s + 1)) in *. fold (stamped s m) in H.
  destruct (router_send cfg s1 (stamped s m)) as [[s2 o2] ok] eqn:E. inversion H; subst s' o.
  assert (Hp1 : pools_clean s1) by exact Hp.
  destruct (router_send_any cfg s1 (stamped s m) s2 o2 ok Hf Hp1 E) as (W & O & R & C & Sv & Oth).
  rewrite (stamped_seq s m Hh) in Sv, Oth.
  change (s_router_stopped s1) with (s_router_stopped s) in W, R.
  change (s_cnt_out s1) with (s_cnt_out s + 1) in C.
  change (s_store s1) with (s_store s) in Oth.
  split; [exact Hf|]. split; [exact (pools_clean_same s1 s2 O Hp1)|].
  assert (K1' : stored_ok s2).
  { intros k mm Hk. rewrite C. destruct (Z.eq_dec k (s_cnt_out s + 1)) as [->|Hne].
    - rewrite Sv in Hk. inversion Hk; subst mm. rewrite (stamped_seq s m Hh). lia.
    - rewrite (Oth k Hne) in Hk. destruct (K1 k mm Hk). lia. }
  assert (Hold : forall w, In w tr ->
             exists m0, store_get (s_store s2) (seq_of w) = Some m0 /\ fst (prepare m0) = w).
  { intros w Hw. destruct (K2 w Hw) as (m0 & G & P0). exists m0. split; [|exact P0].
    rewrite Oth; [exact G|]. destruct (K1 _ _ G). lia. }
  split; [exact K1'|]. split.
  - intros w Hw. apply in_app_or in Hw. destruct Hw as [Hw|Hw]; [exact (Hold w Hw)|].
    rewrite W in Hw. destruct (s_router_stopped s); [destruct Hw|].
    destruct Hw as [<-|[]]. exists (stamped s m). rewrite seq_of_prepare, (stamped_seq s m Hh).
    split; [exact Sv|reflexivity].
  - intros Hn k Hk. rewrite R in Hn. rewrite C in Hk.
    destruct (Z.eq_dec k (s_cnt_out s + 1)) as [->|Hne].
    + exists (stamped s m). split; [exact Sv|]. apply in_or_app. right. rewrite W, Hn. left. reflexivity.
    + destruct (K3 Hn k) as (m0 & G & I0); [lia|]. exists m0. split; [rewrite (Oth k Hne); exact G|].
      apply in_or_app. left. exact I0.
Qed.

(* SendBatch of messages that sit in the store under their own numbers *)
Lemma K_batch_gen ms : forall s s' o tr,
  K s tr -> Forall (fun m => store_get (s_store s) (seq_of m) = Some m) ms ->
  send_batch cfg s ms = (s', o) -> K s' (tr ++ wires o).
Proof.
  induction ms as [|m ms IH]; intros s s' o tr HK Hms H; cbn [send_batch] in H.
  - inversion H; subst. change (wires []) with (@nil message). rewrite app_nil_r. exact HK.
  - destruct HK as (Hf & Hp & K1 & K2 & K3). inversion Hms as [|? ? Hm Hms']; subst.
    destruct (router_send cfg s m) as [[s1 o1] ok] eqn:E.
    destruct (router_send_any cfg s m s1 o1 ok Hf Hp E) as (W & O & R & C & Sv & Oth).
    assert (Hsame : forall k, store_get (s_store s1) k = store_get (s_store s) k).
    { intro k. destruct (Z.eq_dec k (seq_of m)) as [->|Hne]; [rewrite Sv, Hm; reflexivity|exact (Oth k Hne)]. }
    assert (HK1 : K s1 (tr ++ wires o1)).
    { split; [exact Hf|]. split; [exact (pools_clean_same s s1 O Hp)|]. split; [|split].
      - intros k mm Hk. rewrite Hsame in Hk. rewrite C. exact (K1 k mm Hk).
      - intros w Hw. rewrite Hsame. apply in_app_or in Hw. destruct Hw as [Hw|Hw]; [exact (K2 w Hw)|].
        rewrite W in Hw. destruct (s_router_stopped s); [destruct Hw|]. destruct Hw as [<-|[]].
        exists m. rewrite seq_of_prepare. split; [exact Hm|reflexivity].
      - intros Hn k Hk. rewrite R in Hn. rewrite C in Hk. rewrite Hsame.
        destruct (K3 Hn k Hk) as (m0 & G & I0). exists m0. split; [exact G|apply in_or_app; left; exact I0]. }
    destruct ok.
    + destruct (send_batch cfg s1 ms) as [s2 o2] eqn:E2. inversion H; subst.
      rewrite wires_app, app_assoc. apply (IH s1 s' o2 _ HK1); [|exact E2].
      apply Forall_forall. intros x Hx. rewrite Hsame. rewrite Forall_forall in Hms'. exact (Hms' x Hx).
    + inversion H; subst. exact HK1.
Qed.

Lemma stored_under_own_number s from to ms :
  stored_ok s -> store_messages s from to = Some ms ->
  Forall (fun m => store_get (s_store s) (seq_of m) = Some m) ms.
Proof.
  intros K1 H. destruct (store_messages_spec s from to ms H) as (_ & _ & _ & Hn).
  apply Forall_forall. intros m Hin. destruct (In_nth_error _ _ Hin) as (i & Hi).
  assert (Hlt : (i < length ms)%nat) by (apply nth_error_Some; rewrite Hi; discriminate).
  rewrite (Hn i Hlt) in Hi. destruct (K1 _ _ Hi) as (-> & _). exact Hi.
Qed.

Lemma K_batch s from to ms s' o tr :
  K s tr -> store_messages s from to = Some ms -> send_batch cfg s ms = (s', o) -> K s' (tr ++ wires o).
Proof.
  intros HK Hs H. eapply K_batch_gen; [exact HK| |exact H].
  destruct HK as (_ & _ & K1 & _). exact (stored_under_own_number _ _ _ _ K1 Hs).
Qed.

(* ---- whole histories ---- *)
Theorem history_K ops s s' os tr :
  K s tr -> Forall op_clean ops -> run_ops cfg s ops = (s', os) -> K s' (tr ++ wires (concat os)).
Proof. exact (history_I cfg K K_keeps K_send K_batch ops s s' os tr). Qed.

Theorem lifetime_K pre ops s sp op s0 o0 s' os tr :
  K s tr -> Forall op_clean pre -> run_ops cfg s pre = (sp, op) ->
  run_session cfg sp = (s0, o0) -> Forall op_clean ops -> run_ops cfg s0 ops = (s', os) ->
  K s' (tr ++ wires (concat op ++ o0 ++ concat os)).
Proof. exact (lifetime_I cfg K K_keeps K_send K_batch pre ops s sp op s0 o0 s' os tr). Qed.

End Store.

(* a session as constructed, started from outbound counter c with a store whose entries sit under
   their own numbers, none beyond c *)
Lemma init_K cfg ci c store :
  c_fail_saves cfg = [] ->
  (forall k m, store_get store k = Some m -> seq_of m = k /\ k <= c) ->
  K cfg c (init_state cfg ci c store) [].
Proof.
  intros Hf Hst. split; [exact Hf|]. split.
  { split.
    - intro k. cbn [init_state s_out pool_get]. destruct (beq k ALL); repeat constructor.
    - exists []. reflexivity. }
  split; [exact Hst|]. split; [intros w []|]. intros _ k Hk. cbn [init_state s_cnt_out] in Hk. lia.
Qed.

(* C19 over histories: at the end of any history (hence, the theorem being about every history,
   at every point of it) everything that was transmitted is in the store under its own number,
   byte for byte; and what was transmitted twice under one number was the same bytes twice *)
Theorem history_sent_is_stored cfg ci c store pre ops sp op s0 o0 s' os :
  c_fail_saves cfg = [] ->
  (forall k m, store_get store k = Some m -> seq_of m = k /\ k <= c) ->
  Forall op_clean pre -> run_ops cfg (init_state cfg ci c store) pre = (sp, op) ->
  run_session cfg sp = (s0, o0) ->
  Forall op_clean ops ->
  run_ops cfg s0 ops = (s', os) ->
  let sent := wires (concat op ++ o0 ++ concat os) in
  (forall w, In w sent ->
     exists m, store_get (s_store s') (seq_of w) = Some m /\ fst (prepare m) = w)
  /\ (forall w1 w2, In w1 sent -> In w2 sent -> seq_of w1 = seq_of w2 -> w1 = w2).
Proof.
  intros Hf Hst Hp Hpre H0 Hc H sent.
  pose proof (lifetime_K cfg c pre ops _ _ _ _ _ _ _ [] (init_K cfg ci c store Hf Hst) Hp Hpre H0 Hc H) as (_ & _ & _ & K2 & _).
  cbn [app] in K2. split; [exact K2|].
  intros w1 w2 H1 H2 E. destruct (K2 w1 H1) as (m1 & G1 & P1). destruct (K2 w2 H2) as (m2 & G2 & P2).
  rewrite E in G1. rewrite G1 in G2. inversion G2; subst m2. congruence.
Qed.

(* the numbers from..to, ascending *)
Lemma zrange_seqs s : forall n from ms,
  stored_ok s -> store_range (s_store s) from n = Some ms -> map seq_of ms = zrange (from - 1) n.
Proof.
  induction n as [|n IH]; intros from ms K1 H; cbn [store_range] in H.
  - inversion H; reflexivity.
  - destruct (store_get (s_store s) from) as [m|] eqn:G; [|discriminate].
    destruct (store_range (s_store s) (from + 1) n) as [l|] eqn:R; [|discriminate].
    inversion H; subst. cbn [map zrange]. destruct (K1 _ _ G) as (Hq & _). rewrite Hq.
    replace (from - 1 + 1) with from by lia. f_equal.
    rewrite (IH (from + 1) l K1 R). f_equal. lia.
Qed.

Lemma store_range_total st : forall n from,
  (forall k, from <= k < from + Z.of_nat n -> store_get st k <> None) ->
  exists ms, store_range st from n = Some ms.
Proof.
  induction n as [|n IH]; intros from Hall; cbn [store_range].
  - exists []. reflexivity.
  - destruct (store_get st from) as [m|] eqn:G; [|exfalso; apply (Hall from); [lia|exact G]].
    destruct (IH (from + 1)) as (l & R); [intros k Hk; apply Hall; lia|]. rewrite R. exists (m :: l). reflexivity.
Qed.

(* C10 over histories.  After any history, with the session logged on and the router running, a
   ResendRequest for from..to (to = 0: up to the last number handed out) with c < from <= to <= last
   is answered -- whatever else is registered -- with exactly to-from+1 messages, numbered
   from, from+1, ..., to in this order, each of them byte-identical to what was transmitted under
   that number before; the store and the numbering are untouched. *)
Theorem history_resend_answer cfg ci c store pre ops sp op s0 o0 s os d rm :
  c_fail_saves cfg = [] ->
  (forall k m, store_get store k = Some m -> seq_of m = k /\ k <= c) ->
  Forall op_clean pre -> run_ops cfg (init_state cfg ci c store) pre = (sp, op) ->
  run_session cfg sp = (s0, o0) ->
  Forall op_clean ops ->
  run_ops cfg s0 ops = (s, os) ->
  parse_as msgtype_ResendRequest tpl_ResendRequest d = Ok rm -> is_logged s = true ->
  s_router_stopped s = false ->
  let from := get_int tag_BeginSeqNo (m_body rm) in
  let to0 := get_int tag_EndSeqNo (m_body rm) in
  let to := if Z.eqb to0 0 then s_cnt_out s else to0 in
  c < from -> from <= to -> to <= s_cnt_out s ->
  exists s' o,
    run_in_handler cfg s HResend d = (s', o, true)
    /\ map seq_of (wires o) = zrange (from - 1) (Z.to_nat (to - from + 1))
    /\ Forall (fun w => In w (wires (concat op ++ o0 ++ concat os))) (wires o)
    /\ s_cnt_out s' = s_cnt_out s
    /\ (forall k, store_get (s_store s') k = store_get (s_store s) k).
Proof.
  intros Hf Hst Hpc' Hpre H0 Hc H Hp Hl Hr from to0 to Hfrom Hft Hto.
  pose proof (lifetime_K cfg c pre ops _ _ _ _ _ _ _ [] (init_K cfg ci c store Hf Hst) Hpc' Hpre H0 Hc H) as HK.
  cbn [app] in HK. destruct HK as (_ & Hpc & K1 & K2 & K3).
  rewrite (resend_answer cfg s d rm Hp Hl). fold from to0 to.
  (* the store has the whole range *)
  assert (Hrange : exists ms, store_messages s from to = Some ms).
  { unfold store_messages. destruct (Z.ltb_spec to from); [lia|]. destruct (Z.ltb_spec (s_cnt_out s) to); [lia|].
    apply store_range_total. intros k Hk. destruct (K3 Hr k) as (m & G & _); [lia|]. rewrite G. discriminate. }
  destruct Hrange as (ms & Hms). rewrite Hms.
  assert (Hcl : clean cfg s) by (destruct Hpc as (Hcc & _); repeat split; assumption).
  assert (Hsf : save_first s) by (destruct Hpc as (_ & Hs); exact Hs).
  destruct (send_batch_clean cfg ms s Hcl Hsf) as (s' & o & E & W & Hne & _ & C & _ & _).
  rewrite E. exists s', (drop_err o). split; [reflexivity|].
  rewrite wires_drop_err, W.
  assert (Hown := stored_under_own_number s from to ms K1 Hms).
  split; [|split; [|split]].
  - rewrite map_map. rewrite (map_ext _ seq_of) by (intro; apply seq_of_prepare).
    unfold store_messages in Hms. destruct (Z.ltb to from); [discriminate|]. destruct (Z.ltb (s_cnt_out s) to); [discriminate|].
    exact (zrange_seqs s _ from ms K1 Hms).
  - apply Forall_forall. intros w Hw. apply in_map_iff in Hw. destruct Hw as (m & <- & Hm).
    rewrite Forall_forall in Hown. pose proof (Hown m Hm) as G.
    destruct (store_messages_spec s from to ms Hms) as (_ & _ & Hlen & Hn).
    destruct (In_nth_error _ _ Hm) as (i & Hi).
    assert (Hlt : (i < length ms)%nat) by (apply nth_error_Some; rewrite Hi; discriminate).
    destruct (K3 Hr (seq_of m)) as (m' & G' & I').
    { rewrite (Hn i Hlt) in Hi. destruct (K1 _ _ Hi) as (Hq & _). rewrite Hq. lia. }
    rewrite G in G'. inversion G'; subst m'. exact I'.
  - exact C.
  - (* the batch re-saves each message under its own number: the store is extensionally unchanged *)
    clear - E Hown Hf Hpc. revert s s' o E Hown Hpc.
    induction ms as [|m ms IH]; intros s s' o E Hown Hpc k; cbn [send_batch] in E.
    + inversion E; subst. reflexivity.
    + inversion Hown as [|? ? Hm Hms']; subst.
      destruct (router_send cfg s m) as [[s1 o1] ok] eqn:E1.
      destruct (router_send_any cfg s m s1 o1 ok Hf Hpc E1) as (_ & O & _ & _ & Sv & Oth).
      assert (Hsame : forall k, store_get (s_store s1) k = store_get (s_store s) k).
      { intro k0. destruct (Z.eq_dec k0 (seq_of m)) as [->|Hne0]; [rewrite Sv, Hm; reflexivity|exact (Oth k0 Hne0)]. }
      destruct ok.
      * destruct (send_batch cfg s1 ms) as [s2 o2] eqn:E2. inversion E; subst.
        rewrite (IH s1 s' o2 E2); [apply Hsame| |exact (pools_clean_same s s1 O Hpc)].
        apply Forall_forall. intros x Hx. rewrite Hsame. rewrite Forall_forall in Hms'. exact (Hms' x Hx).
      * inversion E; subst. apply Hsame.
Qed.

(* ---- non-vacuity: an acceptor session is run, the peer logs on, the application sends two
   messages and registers a pass-through handler, the peer asks for 2..3 again: the premises of
   history_resend_answer hold and the answer is the two messages transmitted under 2 and 3 ---- *)
Definition ex10_hdr (seq : Z) : list item :=
  set_kv tag_MsgSeqNum (VInt true seq)
   (set_kv tag_TargetCompID (VString true [83%N])
    (set_kv tag_SenderCompID (VString true [67%N])
     (set_kv tag_SendingTime (VString true sending_time_placeholder) tpl_Header))).
Definition ex10_logon : bytes :=
  to_bytes (with_header (mk_msg msgtype_Logon
     (set_kv tag_EncryptMethod (VString true [48%N]) (set_kv tag_HeartBtInt (VInt true 30) tpl_Logon))) (ex10_hdr 1)).
Definition ex10_resend (a b : Z) : bytes :=
  to_bytes (with_header (mk_msg msgtype_ResendRequest
     (set_kv tag_BeginSeqNo (VInt true a) (set_kv tag_EndSeqNo (VInt true b) tpl_ResendRequest))) (ex10_hdr 2)).
Definition ex10_ops : list op :=
  [Inbound ex10_logon; AppSend (AppTestRequest [120%N]); RegOut ALL 7 true false; AppSend (AppReject [97%N] [98%N])].
Definition ex10_run := run_session ex5_cfg (init_state ex5_cfg 0 0 []).
Definition ex10_hist := run_ops ex5_cfg (fst ex10_run) ex10_ops.

Example resend_example :
  Forall op_clean ex10_ops
  /\ is_logged (fst ex10_hist) = true /\ s_router_stopped (fst ex10_hist) = false
  /\ s_cnt_out (fst ex10_hist) = 3
  /\ (exists rm, parse_as msgtype_ResendRequest tpl_ResendRequest (ex10_resend 2 3) = Ok rm
                 /\ get_int tag_BeginSeqNo (m_body rm) = 2 /\ get_int tag_EndSeqNo (m_body rm) = 3)
  /\ wire_seqs (concat (snd ex10_hist)) = [1; 2; 3]
  /\ (let '(_, o, _) := run_in_handler ex5_cfg (fst ex10_hist) HResend (ex10_resend 2 3) in
      wires o = skipn 1 (wires (concat (snd ex10_hist)))).
Proof.
  split; [repeat constructor|].
  split; [vm_compute; reflexivity|]. split; [vm_compute; reflexivity|]. split; [vm_compute; reflexivity|].
  split; [eexists; split; [vm_compute; reflexivity|split; vm_compute; reflexivity]|].
  split; vm_compute; reflexivity.
Qed.

(* the premises of the clean-step theorems (C14, C16, C19, C10_batch_retransmits) hold in every state
   a session reaches from construction through Run and any history of operations in which the
   application registers only pass-through outgoing handlers, as long as the router is running *)
Theorem reachable_clean cfg ci c store pre ops sp op s0 o0 s' os :
  c_fail_saves cfg = [] ->
  (forall k m, store_get store k = Some m -> seq_of m = k /\ k <= c) ->
  Forall op_clean pre -> run_ops cfg (init_state cfg ci c store) pre = (sp, op) ->
  run_session cfg sp = (s0, o0) ->
  Forall op_clean ops ->
  run_ops cfg s0 ops = (s', os) ->
  s_router_stopped s' = false -> clean cfg s' /\ save_first s'.
Proof.
  intros Hf Hst Hp Hpre H0 Hc H Hr.
  pose proof (lifetime_K cfg c pre ops _ _ _ _ _ _ _ [] (init_K cfg ci c store Hf Hst) Hp Hpre H0 Hc H) as (_ & (Hcc & Hs) & _).
  split; [repeat split; assumption|exact Hs].
Qed.
