(* Timer.v -- utils.Timer and the two timer loops of Session.start over discrete time
   (nanoseconds as Z). *)
From Coq Require Import ZArith List Lia Bool.
From SF Require Export Bytes.
Import ListNotations.
Open Scope Z_scope.

(* the instant of the latest refresh not after t (the timer is refreshed at [start], when
   TakeTimeout is entered, and at every instant of [refs]) *)
Fixpoint last_refresh (start : Z) (refs : list Z) (t : Z) : Z :=
  match refs with
  | [] => start
  | r :: rest => let l := last_refresh start rest t in if (r <=? t) && (l <? r) then r else l
  end.

(* Timer.TakeTimeout: at each tick, return iff now >= lastUpdate + timeout *)
Fixpoint take_timeout (T : Z) (start : Z) (refs : list Z) (ticks : list Z) : option Z :=
  match ticks with
  | [] => None
  | t :: rest => if last_refresh start refs t + T <=? t then Some t else take_timeout T start refs rest
  end.

(* polling period: timeout / frequency with frequency = 10 *)
Definition period (T : Z) : Z := T / 10.

(* the two timeouts of Session.start for a heartbeat interval of n seconds *)
Definition second : Z := 1000000000.
Definition out_timeout (n : Z) : Z := n * second.
Definition in_timeout (n : Z) : Z := (n + Z.max (n / 20) 1) * second.

(* conformance predicates used by the timing harness: an observation is a run of the model
   with tick and scheduling delays within the slack *)
Definition timer_conforms (T slack last ret : Z) : bool :=
  (last + T <=? ret) && (ret <=? last + T + period T + slack).

Definition gap_conforms (n slack gap : Z) : bool :=
  gap <=? out_timeout n + period (out_timeout n) + slack.

Definition heartbeat_not_early (n jitter since_prev : Z) : bool :=
  out_timeout n - jitter <=? since_prev.

Definition probe_conforms (n slack jitter since_inbound : Z) : bool :=
  (in_timeout n - jitter <=? since_inbound)
  && (since_inbound <=? in_timeout n + period (in_timeout n) + slack).

(* the tick that notices: ticks are at start + k * period; the first one at or after x *)
Definition ideal_tick (P start x : Z) : Z :=
  if x <=? start then start + P else start + P * ((x - start + P - 1) / P).

(* an observed return instant: never before the timeout has passed since the latest refresh (up to
   the jitter of the inputs; no slack on this side), and not later than the noticing tick of the
   polling grid plus the delay (slack) with which a tick may be delivered.  A tick of the grid that
   is itself delivered late may be the one that notices: the wait then returns between two grid
   instants, which is why the lower bound is the timeout and not the grid. *)
Definition tick_conforms (T jitter slack start last ret : Z) : bool :=
  let P := period T in
  (0 <? P)
  && (last + T - jitter <=? ret)
  && (ret <=? ideal_tick P start (last + T + jitter) + slack).
