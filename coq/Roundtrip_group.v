(* Roundtrip_group.v -- C02 for messages with repeating groups (one level: the members of a group
   entry are key-values and components of key-values).  Serializing and parsing into a fresh
   template gives back every group with all its entries, in order, every populated value in the
   parser's normal form. *)
From SF Require Import Bytes Values Wire Parse Bytes_proofs Wire_proofs Item_ind Fields_proofs
  Parse_unfold Safety_proofs Lookup_proofs Validate_proofs Damage_proofs Roundtrip_proofs.
From SF Require Import Validate_complete Roundtrip_flat.
Open Scope N_scope.

(* ---- SOH-terminated layout: compositional ---- *)
Definition tlayout (fs : list pfield) : bytes := flat_map (fun f => prender f ++ [SOH]) fs.

Lemma tlayout_app a b : tlayout (a ++ b) = tlayout a ++ tlayout b.
Proof. unfold tlayout. apply flat_map_app. Qed.

Lemma tlayout_cons f fs : tlayout (f :: fs) = prender f ++ SOH :: tlayout fs.
Proof. unfold tlayout. cbn [flat_map]. rewrite <- app_assoc. reflexivity. Qed.

Lemma layout_tlayout fs : fs <> [] -> layout fs ++ [SOH] = tlayout fs.
Proof.
  intro H. unfold layout, tlayout. rewrite join_term by (destruct fs; [contradiction|discriminate]).
  unfold term. rewrite flat_map_concat_map, map_map, <- flat_map_concat_map. reflexivity.
Qed.

Lemma layout_app_t a b : a <> [] -> layout (a ++ b) ++ [SOH] = layout a ++ SOH :: tlayout b.
Proof.
  intro Ha. rewrite layout_tlayout by (destruct a; [contradiction|discriminate]).
  rewrite tlayout_app. rewrite <- (layout_tlayout a Ha). rewrite <- app_assoc. reflexivity.
Qed.

(* ---- lookups over concatenations ---- *)
Lemma lookup_app t a b :
  lookup t (a ++ b) = match lookup t a with Some v => Some v | None => lookup t b end.
Proof.
  induction a as [|f a IH]; [reflexivity|]. cbn [app lookup].
  destruct (beq (fst f) t); [reflexivity|exact IH].
Qed.

Lemma offset_of_app_skip t a b :
  ~ In t (map fst a) ->
  offset_of t (a ++ b) = option_map (fun p => (length (tlayout a) + p)%nat) (offset_of t b).
Proof.
  induction a as [|f a IH]; intro H.
  - cbn [app tlayout flat_map length]. destruct (offset_of t b); reflexivity.
  - cbn [app offset_of]. destruct (beq (fst f) t) eqn:E.
    + apply beq_eq in E. exfalso. apply H. left. exact E.
    + rewrite IH by (intro Hin; apply H; right; exact Hin).
      rewrite tlayout_cons. rewrite app_length. cbn [length].
      destruct (offset_of t b); cbn [option_map]; [f_equal; lia|reflexivity].
Qed.

Lemma offset_of_notin t a : ~ In t (map fst a) -> offset_of t a = None.
Proof.
  intro H. rewrite <- (app_nil_r a). rewrite offset_of_app_skip by exact H. reflexivity.
Qed.

Lemma tlayout_sohfree_fields fs : Forall wf_field fs -> True.
Proof. trivial. Qed.

(* ---- splitGroup on a sequence of entries ---- *)
(* the chunks: every entry but the last as SOH :: layout; the last one with everything after it *)
Fixpoint chunks_of (es : list (list pfield)) (B : list pfield) : list bytes :=
  match es with
  | [] => []
  | [e] => [SOH :: tlayout (e ++ B)]
  | e :: es' => (SOH :: layout e) :: chunks_of es' B
  end.

Lemma chunks_of_length es B : length (chunks_of es B) = length es.
Proof.
  induction es as [|e es IH]; [reflexivity|]. destruct es as [|e2 es]; [reflexivity|].
  cbn [chunks_of length] in *. rewrite IH. reflexivity.
Qed.

(* an entry: its first field carries the delimiting tag, which no other field of it carries *)
Definition entry_ok (t1 : bytes) (e : list pfield) : Prop :=
  exists v r, e = (t1, v) :: r /\ ~ In t1 (map fst r).

Lemma entry_ok_nonnil t1 e : entry_ok t1 e -> e <> [].
Proof. intros (v & r & -> & _). discriminate. Qed.

Definition catB (es : list (list pfield)) (B : list pfield) : list pfield :=
  fold_right (fun e acc => e ++ acc) B es.

Lemma catB_wf es B : Forall (Forall wf_field) es -> Forall wf_field B -> Forall wf_field (catB es B).
Proof.
  intros He HB. induction es as [|e es IH]; [exact HB|]. inversion He; subst.
  cbn [catB fold_right]. apply Forall_app. split; [assumption|]. apply IH. assumption.
Qed.

Lemma find_sub_tl t1 (X : list pfield) :
  eqfree t1 -> Forall wf_field X ->
  find_sub (SOH :: t1 ++ [EQS]) (SOH :: tlayout X) = offset_of t1 X.
Proof.
  intros He HX. destruct X as [|g G].
  - cbn [tlayout flat_map offset_of]. apply find_sub_no_eq.
    + right. apply in_or_app. right. left. reflexivity.
    + cbn. intuition discriminate.
  - rewrite <- (layout_tlayout (g :: G)) by discriminate.
    apply anchored_index; [exact He|exact HX|right; reflexivity].
Qed.

Lemma line_split (f : pfield) (r R : list pfield) :
  SOH :: prender f ++ SOH :: tlayout (r ++ R) = (SOH :: layout (f :: r)) ++ SOH :: tlayout R.
Proof.
  rewrite tlayout_app. destruct r as [|g r'].
  - cbn [layout map join tlayout flat_map app]. reflexivity.
  - rewrite layout_cons. rewrite <- (layout_tlayout (g :: r')) by discriminate.
    repeat (rewrite <- ?app_assoc; cbn [app]). reflexivity.
Qed.

Lemma line_split_len (f : pfield) (r : list pfield) :
  length (SOH :: layout (f :: r)) = (length (prender f) + length (tlayout r) + 1)%nat.
Proof.
  cbn [length]. destruct r as [|g r'].
  - cbn [layout map join tlayout flat_map length]. lia.
  - rewrite layout_cons. rewrite <- (layout_tlayout (g :: r')) by discriminate.
    rewrite ?app_length. cbn [length]. rewrite ?app_length. cbn [length]. rewrite ?app_length. cbn [length]. lia.
Qed.

Lemma split_group_entries t1 :
  wf_tag t1 ->
  forall es B fuel,
    es <> [] ->
    Forall (entry_ok t1) es -> Forall (Forall wf_field) es -> Forall wf_field B ->
    ~ In t1 (map fst B) ->
    (length (SOH :: tlayout (catB es B)) < fuel)%nat ->
    split_group fuel (SOH :: tlayout (catB es B)) (SOH :: t1 ++ [EQS]) = Ok (chunks_of es B).
Proof.
  intros [Hs1 He1] es. induction es as [|e es IH]; intros B fuel Hne Hok Hwf HB Hnb Hfuel; [contradiction|].
  inversion Hok as [|? ? Hoe Hoes]; subst. inversion Hwf as [|? ? Hwe Hwes]; subst.
  destruct Hoe as (v & r & -> & Hnr).
  destruct fuel as [|fuel]; [cbn in Hfuel; lia|]. cbn [split_group].
  cbn [catB fold_right] in *. fold (catB es B) in *.
  assert (Hwr : Forall wf_field r) by (inversion Hwe; assumption).
  assert (Hwf1 : wf_field (t1, v)) by (inversion Hwe; assumption).
  assert (HwR : Forall wf_field (catB es B)) by (apply catB_wf; assumption).
  cbn [app] in Hfuel |- *. rewrite tlayout_cons in Hfuel |- *.
  rewrite (find_sub_skip_sohfree (t1 ++ [EQS]) (prender (t1, v)) _ (prender_sohfree _ Hwf1)).
  rewrite find_sub_tl by (try exact He1; apply Forall_app; split; assumption).
  rewrite offset_of_app_skip by exact Hnr.
  destruct es as [|e2 es].
  - (* last entry *)
    cbn [catB fold_right]. rewrite (offset_of_notin t1 B Hnb). cbn [option_map chunks_of].
    cbn [app]. rewrite tlayout_cons. reflexivity.
  - (* another entry follows: it starts with t1 *)
    inversion Hoes as [|? ? Hoe2 Hoes']; subst. destruct Hoe2 as (v2 & r2 & E2 & Hnr2).
    assert (Eoff : offset_of t1 (catB (e2 :: es) B) = Some 0%nat).
    { cbn [catB fold_right]. rewrite E2. cbn [app offset_of fst]. rewrite beq_refl. reflexivity. }
    rewrite Eoff. cbn [option_map]. rewrite Nat.add_0_r.
    rewrite line_split.
    rewrite <- (line_split_len (t1, v) r). rewrite firstn_app_exact, skipn_app_exact.
    rewrite (IH B fuel); [reflexivity|discriminate|exact Hoes|exact Hwes|exact HB|exact Hnb|].
    cbn [length] in Hfuel |- *.
    rewrite tlayout_app in Hfuel. rewrite !app_length in Hfuel. cbn [length] in Hfuel. rewrite app_length in Hfuel. lia.
Qed.

(* ---- the group case of state.unmarshal on a whole message ---- *)
Lemma find_byte_eq_first (t1 v rest : bytes) :
  eqfree t1 -> find_byte EQS (SOH :: t1 ++ EQS :: v ++ rest) = Some (S (length t1)).
Proof.
  intro He. change (SOH :: t1 ++ EQS :: v ++ rest) with ((SOH :: t1) ++ EQS :: v ++ rest).
  rewrite find_byte_first; [reflexivity|]. constructor; [discriminate|exact He].
Qed.

Lemma tlayout_first_entry t1 v r (R : list pfield) :
  SOH :: tlayout (((t1, v) :: r) ++ R) = SOH :: t1 ++ EQS :: v ++ SOH :: tlayout (r ++ R).
Proof.
  cbn [app]. rewrite tlayout_cons. unfold prender. cbn [fst snd]. rewrite <- app_assoc. reflexivity.
Qed.

Lemma find_byte_eq_entry t1 v (r R : list pfield) :
  eqfree t1 -> find_byte EQS (SOH :: tlayout (((t1, v) :: r) ++ R)) = Some (S (length t1)).
Proof. intro He. rewrite tlayout_first_entry. apply find_byte_eq_first. exact He. Qed.

Lemma firstn_eq {A} (l p q : list A) n : l = p ++ q -> n = length p -> firstn n l = p.
Proof. intros -> ->. apply firstn_app_exact. Qed.

Lemma firstn_ft t1 v (r R : list pfield) :
  firstn (S (length t1) + 1) (SOH :: tlayout (((t1, v) :: r) ++ R)) = SOH :: t1 ++ [EQS].
Proof.
  rewrite tlayout_first_entry.
  apply (firstn_eq _ (SOH :: t1 ++ [EQS]) (v ++ SOH :: tlayout (r ++ R))).
  - cbn [app]. rewrite <- app_assoc. reflexivity.
  - cbn [length]. rewrite app_length. cbn [length]. lia.
Qed.

Lemma parse_group_wire o (T : list item) notag (A B : list pfield) (Es : list (list pfield)) t1 :
  wf_tag notag -> wf_tag t1 ->
  ~ In notag (map fst A) ->
  Forall wf_field A -> Forall (Forall wf_field) Es -> Forall wf_field B ->
  Es <> [] -> Forall (entry_ok t1) Es -> ~ In t1 (map fst B) ->
  in_int_range (Z.of_nat (length Es)) = true ->
  parse_group_entries o (tlayout (A ++ (notag, itoa (Z.of_nat (length Es))) :: catB Es B)) notag T
  = rmapM (unmarshal_entry o T) (chunks_of Es B).
Proof.
  intros Hn Ht1 HnA HwA HwE HwB Hne Hok HtB Hrange.
  pose (cnt := ((notag, itoa (Z.of_nat (length Es))) : pfield)).
  pose (W := A ++ cnt :: catB Es B).
  change (parse_group_entries o (tlayout W) notag T = rmapM (unmarshal_entry o T) (chunks_of Es B)).
  assert (Hwcnt : wf_field cnt).
  { split; cbn [fst snd]; [exact Hn|apply itoa_nat_sohfree]. }
  assert (HwW : Forall wf_field W).
  { unfold W. apply Forall_app. split; [exact HwA|]. constructor; [exact Hwcnt|apply catB_wf; assumption]. }
  assert (HWne : W <> []) by (unfold W; destruct A; discriminate).
  unfold parse_group_entries.
  (* the count *)
  assert (Escan : scan_value (tlayout W) notag = Some (itoa (Z.of_nat (length Es)))).
  { rewrite <- (layout_tlayout W HWne).
    rewrite (scan_value_message notag W [SOH] Hn HwW) by (right; reflexivity).
    unfold W. rewrite lookup_app. rewrite (lookup_notin notag A HnA).
    cbn [lookup cnt fst snd]. rewrite beq_refl. reflexivity. }
  unfold scan_kv. rewrite Escan. cbn [val_from_bytes]. rewrite (atoi_itoa _ Hrange).
  (* where the group starts *)
  assert (Estart : find_field_start (tlayout W) notag = Some (length (tlayout A))).
  { rewrite <- (layout_tlayout W HWne).
    rewrite (find_field_start_message notag W [SOH] Hn HwW) by (right; reflexivity).
    unfold W. rewrite offset_of_app_skip by exact HnA.
    cbn [offset_of cnt fst]. rewrite beq_refl. cbn [option_map]. f_equal. lia. }
  rewrite Estart.
  unfold W. rewrite tlayout_app, skipn_app_exact. rewrite tlayout_cons.
  rewrite (find_byte_first SOH (prender cnt) _ (prender_sohfree cnt Hwcnt)).
  rewrite skipn_app_exact.
  (* the first tag of the first entry *)
  destruct Es as [|e1 Es']; [contradiction|].
  inversion Hok as [|? ? Hoe1 _]; subst. destruct Hoe1 as (v1 & r1 & -> & Hnr1).
  destruct Ht1 as [Hs1 He1].
  cbn [catB fold_right]. fold (catB Es' B).
  rewrite (find_byte_eq_entry t1 v1 _ _ He1). rewrite firstn_ft.
  pose proof (split_group_entries t1 (conj Hs1 He1) (((t1, v1) :: r1) :: Es') B) as Sp.
  cbn [catB fold_right] in Sp. fold (catB Es' B) in Sp.
  rewrite Sp; try assumption; [|lia].
  rewrite chunks_of_length. rewrite Z.eqb_refl. reflexivity.
Qed.

(* ---- parsing the entries from their chunks ---- *)
Lemma val_empty_idem v : val_empty (val_empty v) = val_empty v.
Proof. destruct v; reflexivity. Qed.

Lemma fresh_is_item o data it :
  flat it -> unmarshal_fresh o data (as_template it) = unmarshal_item o data (as_template it).
Proof.
  induction it as [tag v|notag tpl es _ _|items IH] using item_ind2; intro F.
  - cbn [as_template unmarshal_fresh unmarshal_item]. rewrite val_empty_idem. reflexivity.
  - inversion F.
  - inversion F as [|? Hall]; subst. rewrite as_template_comp, unmarshal_fresh_comp, unmarshal_item_comp.
    f_equal. clear F. induction items as [|i l IHl]; [reflexivity|].
    inversion IH as [|? ? Hi Hl]; subst. inversion Hall as [|? ? Fi Fl]; subst.
    cbn [map rmapM]. rewrite (Hi Fi). rewrite (IHl Hl Fl). reflexivity.
Qed.

Definition epf (e : list item) : list pfield := pfs (kvs_list e).

Record entry_wf (o : oracle) (T : list item) (B : list pfield) (e : list item) : Prop := {
  ew_shape : map as_template e = T;
  ew_flat : Forall flat e;
  ew_nodup : NoDup (map fst (kvs_list e));
  ew_wf : Forall (wf_kv o) (kvs_list e);
  ew_nonnil : epf e <> [];
  ew_apart : forall t, In t (map fst (kvs_list e)) -> ~ In t (map fst B)
}.

Lemma entry_parse o T B e chunk :
  entry_wf o T B e ->
  (forall kv, In kv (kvs_list e) ->
              scan_value chunk (fst kv) = if populated (snd kv) then Some (canon (snd kv)) else None) ->
  unmarshal_entry o T chunk = Ok (map norm_item e).
Proof.
  intros [Hs Hf Hnd Hw Hnn Hap] Hlook. unfold unmarshal_entry. rewrite <- Hs.
  assert (E : rmapM (unmarshal_fresh o chunk) (map as_template e) = rmapM (unmarshal_item o chunk) (map as_template e)).
  { clear -Hf. induction e as [|i l IH]; [reflexivity|]. inversion Hf; subst.
    cbn [map rmapM]. rewrite (fresh_is_item o chunk i H1). rewrite (IH H2). reflexivity. }
  rewrite E. apply rmapM_flat.
  - apply Forall_forall. intros i _. apply unmarshal_item_flat.
  - exact Hf.
  - apply Forall_forall. intros kv Hin. exact (Hlook kv Hin).
  - apply Forall_forall. intros kv Hin Hp. rewrite Forall_forall in Hw. exact (proj2 (proj2 (Hw kv Hin) Hp)).
Qed.

Lemma epf_wf o e : Forall (wf_kv o) (kvs_list e) -> Forall wf_field (epf e).
Proof. apply pfs_wf. Qed.

Lemma entries_parse o T B es :
  Forall wf_field B ->
  Forall (entry_wf o T B) es ->
  rmapM (unmarshal_entry o T) (chunks_of (map epf es) B) = Ok (map (map norm_item) es).
Proof.
  intros HB Hes. induction es as [|e es IH]; [reflexivity|].
  inversion Hes as [|? ? He Hes']; subst. specialize (IH Hes').
  assert (Hwe : Forall wf_field (epf e)) by (apply (epf_wf o); exact (ew_wf _ _ _ _ He)).
  destruct es as [|e2 es].
  - (* the last entry: its chunk runs to the end of the message *)
    cbn [map chunks_of rmapM].
    rewrite (entry_parse o T B e _ He); [reflexivity|].
    intros kv Hin.
    assert (Hne : epf e ++ B <> []) by (pose proof (ew_nonnil _ _ _ _ He); destruct (epf e); [contradiction|discriminate]).
    rewrite <- (layout_tlayout _ Hne).
    rewrite (scan_value_chunk (fst kv) (epf e ++ B) [SOH]).
    + rewrite lookup_app. unfold epf. rewrite (lookup_nodup _ (ew_nodup _ _ _ _ He) kv Hin).
      destruct (populated (snd kv)); [reflexivity|].
      apply lookup_notin. apply (ew_apart _ _ _ _ He). apply in_map. exact Hin.
    + apply digits_wf_tag. pose proof (ew_wf _ _ _ _ He) as W. rewrite Forall_forall in W. exact (proj1 (W kv Hin)).
    + apply Forall_app. split; assumption.
    + right. reflexivity.
  - (* an inner entry: its chunk holds exactly its own fields *)
    cbn [map] in IH |- *. cbn [chunks_of rmapM].
    rewrite (entry_parse o T B e _ He).
    + cbn [chunks_of] in IH. rewrite IH. reflexivity.
    + intros kv Hin.
      rewrite <- (app_nil_r (layout (epf e))).
      rewrite (scan_value_chunk (fst kv) (epf e) []).
      * unfold epf. apply (lookup_nodup _ (ew_nodup _ _ _ _ He) kv Hin).
      * apply digits_wf_tag. pose proof (ew_wf _ _ _ _ He) as W. rewrite Forall_forall in W. exact (proj1 (W kv Hin)).
      * exact Hwe.
      * left. reflexivity.
Qed.

(* ---- items of a message body: flat items and one-level groups ---- *)
Definition item_tags (it : item) : list bytes :=
  match it with
  | IGroup notag tpl _ => notag :: map fst (kvs_list tpl)
  | _ => map fst (kvs it)
  end.

Definition norm_g (it : item) : item :=
  match it with
  | IGroup notag tpl es => IGroup notag (map as_template tpl) (map (map norm_item) es)
  | _ => norm_item it
  end.

Definition ipfs (it : item) : list pfield :=
  match it with
  | IGroup notag _ es =>
      match es with
      | [] => []
      | _ => (notag, itoa (Z.of_nat (length es))) :: catB (map epf es) []
      end
  | _ => pfs (kvs it)
  end.

Definition entry_cond (o : oracle) (tpl e : list item) : Prop :=
  map as_template e = map as_template tpl /\ Forall flat e /\ Forall (wf_kv o) (kvs_list e)
  /\ exists t1 v r, e = IKV t1 v :: r /\ populated v = true.

Record group_wf (o : oracle) (notag : bytes) (tpl : list item) (es : list (list item)) : Prop := {
  gw_notag : digits notag;
  gw_tpl_flat : Forall flat tpl;
  gw_entries : Forall (entry_cond o tpl) es;
  gw_count : in_int_range (Z.of_nat (length es)) = true
}.

Definition item_wf (o : oracle) (it : item) : Prop :=
  match it with
  | IGroup notag tpl es => group_wf o notag tpl es
  | _ => flat it /\ Forall (wf_kv o) (kvs it)
  end.

Lemma catB_nil es : catB es [] = concat es.
Proof. induction es as [|e es IH]; [reflexivity|]. cbn [catB fold_right concat]. fold (catB es []). rewrite IH. reflexivity. Qed.

Lemma catB_app es B : catB es [] ++ B = catB es B.
Proof.
  induction es as [|e es IH]; [reflexivity|]. cbn [catB fold_right]. fold (catB es []). fold (catB es B).
  rewrite <- app_assoc. rewrite IH. reflexivity.
Qed.

(* tags survive templating *)
Lemma kvs_tags_template it : flat it -> map fst (kvs (as_template it)) = map fst (kvs it).
Proof.
  induction it as [tag v|notag tpl es _ _|items IH] using item_ind2; intro F.
  - reflexivity.
  - inversion F.
  - inversion F as [|? Hall]; subst. rewrite as_template_comp, !kvs_comp.
    clear F. induction items as [|i l IHl]; [reflexivity|].
    inversion IH as [|? ? Hi Hl]; subst. inversion Hall as [|? ? Fi Fl]; subst.
    cbn [map flat_map]. rewrite !map_app. rewrite (Hi Fi). rewrite (IHl Hl Fl). reflexivity.
Qed.

Lemma kvs_list_tags_template l :
  Forall flat l -> map fst (kvs_list (map as_template l)) = map fst (kvs_list l).
Proof.
  unfold kvs_list. induction l as [|i l IH]; intro F; [reflexivity|]. inversion F; subst.
  cbn [map flat_map]. rewrite !map_app. rewrite (kvs_tags_template i H1). rewrite (IH H2). reflexivity.
Qed.

Lemma flat_template it : flat it -> flat (as_template it).
Proof.
  induction it as [tag v|notag tpl es _ _|items IH] using item_ind2; intro F.
  - constructor.
  - inversion F.
  - inversion F as [|? Hall]; subst. rewrite as_template_comp. constructor.
    clear F. induction items as [|i l IHl]; [constructor|].
    inversion IH; subst. inversion Hall; subst. cbn [map]. constructor; auto.
Qed.

Lemma entry_tags o tpl e :
  Forall flat tpl -> entry_cond o tpl e -> map fst (kvs_list e) = map fst (kvs_list tpl).
Proof.
  intros Ft (Hs & Fe & _ & _).
  rewrite <- (kvs_list_tags_template e Fe), <- (kvs_list_tags_template tpl Ft). rewrite Hs. reflexivity.
Qed.

(* the tags that occur on the wire for an item are among its template tags *)
Lemma ipfs_tags o it : item_wf o it -> incl (map fst (ipfs it)) (item_tags it).
Proof.
  destruct it as [tag v|notag tpl es|items]; intro W.
  - intros t Ht. apply pfs_tags_subset. exact Ht.
  - destruct W as [_ Ft He _]. cbn [ipfs item_tags]. destruct es as [|e es]; [intros t []|].
    intros t Ht. cbn [map fst] in Ht. destruct Ht as [<-|Ht]; [left; reflexivity|]. right.
    rewrite catB_nil in Ht. rewrite concat_map in Ht. apply in_concat in Ht. destruct Ht as (x & Hx & Htx).
    change (epf e :: map epf es) with (map epf (e :: es)) in Hx.
    rewrite map_map in Hx. apply in_map_iff in Hx. destruct Hx as (e' & <- & He').
    rewrite Forall_forall in He. specialize (He e' He').
    rewrite <- (entry_tags o tpl e' Ft He). apply pfs_tags_subset. exact Htx.
  - intros t Ht. apply pfs_tags_subset. exact Ht.
Qed.

Lemma wire_tags o l : Forall (item_wf o) l -> incl (map fst (flat_map ipfs l)) (flat_map item_tags l).
Proof.
  induction l as [|i l IH]; intro W; [intros t []|]. inversion W; subst.
  cbn [flat_map]. rewrite map_app. apply incl_app.
  - apply incl_appl. apply (ipfs_tags o). assumption.
  - apply incl_appr. apply IH. assumption.
Qed.

Lemma ipfs_wf o it : item_wf o it -> Forall wf_field (ipfs it).
Proof.
  destruct it as [tag v|notag tpl es|items]; intro W.
  - apply (pfs_wf o). exact (proj2 W).
  - destruct W as [Dn Ft He _]. cbn [ipfs]. destruct es as [|e es]; [constructor|].
    constructor.
    + split; cbn [fst snd]; [apply digits_wf_tag; exact Dn|apply itoa_nat_sohfree].
    + apply catB_wf; [|constructor]. apply Forall_forall. intros x Hx.
      apply in_map_iff in Hx. destruct Hx as (e' & <- & He').
      rewrite Forall_forall in He. destruct (He e' He') as (_ & _ & Hw & _). apply (epf_wf o). exact Hw.
  - apply (pfs_wf o). exact (proj2 W).
Qed.

Lemma wire_wf o l : Forall (item_wf o) l -> Forall wf_field (flat_map ipfs l).
Proof.
  induction l as [|i l IH]; intro W; [constructor|]. inversion W; subst.
  cbn [flat_map]. apply Forall_app. split; [apply (ipfs_wf o); assumption|auto].
Qed.

(* ---- NoDup plumbing ---- *)
Lemma nodup_app_l {A} (a b : list A) : NoDup (a ++ b) -> NoDup a.
Proof. induction a as [|x a IH]; intro H; [constructor|]. inversion H; subst. constructor; [intro Hx; apply H2; apply in_or_app; left; exact Hx|auto]. Qed.

Lemma nodup_app_r {A} (a b : list A) : NoDup (a ++ b) -> NoDup b.
Proof. induction a as [|x a IH]; intro H; [exact H|]. inversion H; subst. auto. Qed.

Lemma nodup_app_disj {A} (a b : list A) x : NoDup (a ++ b) -> In x a -> ~ In x b.
Proof.
  induction a as [|y a IH]; intros H Ha Hb; [destruct Ha|]. inversion H; subst.
  destruct Ha as [->|Ha]; [apply H2; apply in_or_app; right; exact Hb|exact (IH H3 Ha Hb)].
Qed.

Lemma nodup_app_disj' {A} (a b : list A) x : NoDup (a ++ b) -> In x b -> ~ In x a.
Proof. intros H Hb Ha. exact (nodup_app_disj a b x H Ha Hb). Qed.

Section Items.
  Variable o : oracle.

  (* what the NoDup hypothesis gives for the head item *)
  Lemma head_apart tagsA it rest tagsB (A R : list pfield) t :
    NoDup (tagsA ++ (item_tags it ++ flat_map item_tags rest) ++ tagsB) ->
    incl (map fst A) tagsA -> incl (map fst R) (flat_map item_tags rest ++ tagsB) ->
    In t (item_tags it) ->
    ~ In t (map fst A) /\ ~ In t (map fst R).
  Proof.
    intros ND HA HR Ht. split.
    - intro Hin. apply HA in Hin. revert Hin. apply (nodup_app_disj' _ _ t ND).
      apply in_or_app. left. apply in_or_app. left. exact Ht.
    - intro Hin. apply HR in Hin. apply nodup_app_r in ND. rewrite <- app_assoc in ND.
      exact (nodup_app_disj _ _ t ND Ht Hin).
  Qed.

  Lemma head_nodup tagsA it rest tagsB :
    NoDup (tagsA ++ (item_tags it ++ flat_map item_tags rest) ++ tagsB) -> NoDup (item_tags it).
  Proof. intro ND. apply nodup_app_r in ND. apply nodup_app_l in ND. apply nodup_app_l in ND. exact ND. Qed.

  (* a flat head item *)
  Lemma flat_head_parse it (A R : list pfield) :
    flat it -> Forall (wf_kv o) (kvs it) ->
    NoDup (map fst (kvs it)) ->
    (forall t, In t (map fst (kvs it)) -> ~ In t (map fst A) /\ ~ In t (map fst R)) ->
    Forall wf_field A -> Forall wf_field R -> A <> [] ->
    unmarshal_item o (tlayout (A ++ pfs (kvs it) ++ R)) (as_template it) = Ok (norm_item it).
  Proof.
    intros F W ND Hap HwA HwR HA.
    set (Wr := A ++ pfs (kvs it) ++ R).
    assert (HWne : Wr <> []) by (unfold Wr; destruct A; [contradiction|discriminate]).
    assert (HwW : Forall wf_field Wr).
    { unfold Wr. apply Forall_app. split; [exact HwA|]. apply Forall_app. split; [apply (pfs_wf o); exact W|exact HwR]. }
    apply unmarshal_item_flat; [exact F| |].
    - apply Forall_forall. intros kv Hin. unfold looks_up.
      rewrite <- (layout_tlayout Wr HWne).
      rewrite (scan_value_message (fst kv) Wr [SOH]); [| |exact HwW|right; reflexivity].
      + destruct (Hap (fst kv) (in_map fst _ _ Hin)) as [HnA HnR].
        unfold Wr. rewrite lookup_app_skip by exact HnA. rewrite lookup_app.
        rewrite (lookup_nodup _ ND kv Hin). destruct (populated (snd kv)); [reflexivity|].
        apply lookup_notin. exact HnR.
      + apply digits_wf_tag. rewrite Forall_forall in W. exact (proj1 (W kv Hin)).
    - apply Forall_forall. intros kv Hin Hp. rewrite Forall_forall in W. exact (proj2 (proj2 (W kv Hin) Hp)).
  Qed.

  (* an empty group: nothing on the wire, nothing parsed *)
  Lemma empty_group_parse notag (T : list item) (Wr : list pfield) :
    digits notag -> ~ In notag (map fst Wr) -> Forall wf_field Wr -> Wr <> [] ->
    parse_group_entries o (tlayout Wr) notag T = Ok [].
  Proof.
    intros Dn Hn Hw Hne. unfold parse_group_entries, scan_kv.
    rewrite <- (layout_tlayout Wr Hne).
    rewrite (scan_value_message notag Wr [SOH] (digits_wf_tag _ Dn) Hw) by (right; reflexivity).
    rewrite (lookup_notin notag Wr Hn).
    rewrite (find_field_start_message notag Wr [SOH] (digits_wf_tag _ Dn) Hw) by (right; reflexivity).
    rewrite (offset_of_notin notag Wr Hn). reflexivity.
  Qed.
End Items.

Section Groups.
  Variable o : oracle.

  (* all entries of a well-formed group start with the same populated key-value tag *)
  Lemma entries_first_tag tpl e1 es t1 v1 r1 :
    Forall (entry_cond o tpl) (e1 :: es) -> e1 = IKV t1 v1 :: r1 ->
    forall e, In e (e1 :: es) -> exists v r, e = IKV t1 v :: r /\ populated v = true.
  Proof.
    intros Hes E1 e Hin. rewrite Forall_forall in Hes.
    destruct (Hes e1 (or_introl eq_refl)) as (Hs1 & _ & _ & _).
    destruct (Hes e Hin) as (Hs & _ & _ & (t & v & r & -> & Hp)).
    rewrite <- Hs1 in Hs. rewrite E1 in Hs. cbn [map as_template] in Hs.
    inversion Hs; subst. exists v, r. split; [reflexivity|exact Hp].
  Qed.

  Lemma epf_first t1 v r : populated v = true -> epf (IKV t1 v :: r) = (t1, canon v) :: epf r.
  Proof.
    intro Hp. unfold epf, kvs_list. cbn [flat_map kvs]. cbn [app].
    unfold pfs at 1. cbn [flat_map]. unfold pf_of at 1. cbn [fst snd]. rewrite Hp. reflexivity.
  Qed.

  Lemma group_head_parse notag tpl e1 es (A R : list pfield) :
    group_wf o notag tpl (e1 :: es) ->
    NoDup (notag :: map fst (kvs_list tpl)) ->
    (forall t, In t (notag :: map fst (kvs_list tpl)) -> ~ In t (map fst A) /\ ~ In t (map fst R)) ->
    Forall wf_field A -> Forall wf_field R ->
    unmarshal_item o (tlayout (A ++ ipfs (IGroup notag tpl (e1 :: es)) ++ R))
                   (as_template (IGroup notag tpl (e1 :: es)))
    = Ok (norm_g (IGroup notag tpl (e1 :: es))).
  Proof.
    intros [Dn Ft Hes Hrange] ND Hap HwA HwR.
    rewrite as_template_group. cbn [unmarshal_item norm_g].
    set (T := map as_template tpl).
    set (ES := e1 :: es) in *.
    (* the first tag *)
    assert (H1 : exists t1 v1 r1, e1 = IKV t1 v1 :: r1 /\ populated v1 = true).
    { rewrite Forall_forall in Hes. destruct (Hes e1 (or_introl eq_refl)) as (_ & _ & _ & H). exact H. }
    destruct H1 as (t1 & v1 & r1 & E1 & Hp1).
    assert (Hfirst : forall e, In e ES -> exists v r, e = IKV t1 v :: r /\ populated v = true).
    { apply (entries_first_tag tpl e1 es t1 v1 r1 Hes E1). }
    assert (Htags : forall e, In e ES -> map fst (kvs_list e) = map fst (kvs_list tpl)).
    { intros e He. rewrite Forall_forall in Hes. exact (entry_tags o tpl e Ft (Hes e He)). }
    assert (Ht1 : In t1 (map fst (kvs_list tpl))).
    { rewrite <- (Htags e1 (or_introl eq_refl)). rewrite E1. left. reflexivity. }
    assert (NDt : NoDup (map fst (kvs_list tpl))) by (inversion ND; assumption).
    assert (Dt1 : digits t1).
    { rewrite Forall_forall in Hes. destruct (Hes e1 (or_introl eq_refl)) as (_ & _ & Hw & _).
      rewrite Forall_forall in Hw. rewrite E1 in Hw. exact (proj1 (Hw (t1, v1) (or_introl eq_refl))). }
    (* the wire *)
    assert (Ewire : A ++ ipfs (IGroup notag tpl ES) ++ R
                    = A ++ (notag, itoa (Z.of_nat (length (map epf ES)))) :: catB (map epf ES) R).
    { unfold ES. cbn [ipfs]. fold ES. rewrite map_length. cbn [app]. rewrite catB_app. reflexivity. }
    rewrite Ewire.
    rewrite (parse_group_wire o T notag A R (map epf ES) t1).
    - (* the chunks *)
      rewrite (entries_parse o T R ES HwR).
      + reflexivity.
      + apply Forall_forall. intros e He.
        destruct (Hfirst e He) as (v & r & Ee & Hp).
        rewrite Forall_forall in Hes. destruct (Hes e He) as (Hs & Fe & Hw & _).
        constructor.
        * exact Hs.
        * exact Fe.
        * rewrite (Htags e He). exact NDt.
        * exact Hw.
        * rewrite Ee, (epf_first t1 v r Hp). discriminate.
        * intros t Ht. rewrite (Htags e He) in Ht. exact (proj2 (Hap t (or_intror Ht))).
    - apply digits_wf_tag. exact Dn.
    - apply digits_wf_tag. exact Dt1.
    - exact (proj1 (Hap notag (or_introl eq_refl))).
    - exact HwA.
    - apply Forall_forall. intros x Hx. apply in_map_iff in Hx. destruct Hx as (e & <- & He).
      rewrite Forall_forall in Hes. destruct (Hes e He) as (_ & _ & Hw & _). apply (epf_wf o). exact Hw.
    - exact HwR.
    - unfold ES. discriminate.
    - apply Forall_forall. intros x Hx. apply in_map_iff in Hx. destruct Hx as (e & <- & He).
      destruct (Hfirst e He) as (v & r & Ee & Hp). rewrite Ee, (epf_first t1 v r Hp).
      exists (canon v), (epf r). split; [reflexivity|].
      intro Hin. apply pfs_tags_subset in Hin.
      assert (NDe : NoDup (map fst (kvs_list e))) by (rewrite (Htags e He); exact NDt).
      rewrite Ee in NDe. unfold kvs_list in NDe. cbn [flat_map kvs app map fst] in NDe.
      inversion NDe; subst. contradiction.
    - exact (proj2 (Hap t1 (or_intror Ht1))).
    - rewrite map_length. exact Hrange.
  Qed.
End Groups.

(* ---- a whole list of body items ---- *)
Lemma items_parse o : forall rest (A : list pfield) tagsA (Bp : list pfield) tagsB,
  incl (map fst A) tagsA -> incl (map fst Bp) tagsB ->
  NoDup (tagsA ++ flat_map item_tags rest ++ tagsB) ->
  Forall wf_field A -> Forall wf_field Bp ->
  Forall (item_wf o) rest ->
  A <> [] ->
  rmapM (unmarshal_item o (tlayout (A ++ flat_map ipfs rest ++ Bp))) (map as_template rest)
  = Ok (map norm_g rest).
Proof.
  induction rest as [|it rest IH]; intros A tagsA Bp tagsB HA HB ND HwA HwB Hwf HAne; [reflexivity|].
  inversion Hwf as [|? ? Hit Hrest]; subst.
  cbn [flat_map map rmapM] in ND |- *.
  set (R := flat_map ipfs rest ++ Bp).
  assert (HwR : Forall wf_field R).
  { unfold R. apply Forall_app. split; [apply (wire_wf o); exact Hrest|exact HwB]. }
  assert (HR : incl (map fst R) (flat_map item_tags rest ++ tagsB)).
  { unfold R. rewrite map_app. apply incl_app.
    - apply incl_appl. apply (wire_tags o). exact Hrest.
    - apply incl_appr. exact HB. }
  assert (Edata : A ++ (ipfs it ++ flat_map ipfs rest) ++ Bp = A ++ ipfs it ++ R).
  { unfold R. rewrite <- app_assoc. reflexivity. }
  rewrite Edata.
  assert (Hap : forall t, In t (item_tags it) -> ~ In t (map fst A) /\ ~ In t (map fst R)).
  { intros t Ht. exact (head_apart tagsA it rest tagsB A R t ND HA HR Ht). }
  assert (NDit : NoDup (item_tags it)) by exact (head_nodup tagsA it rest tagsB ND).
  (* the head *)
  assert (Hhead : unmarshal_item o (tlayout (A ++ ipfs it ++ R)) (as_template it) = Ok (norm_g it)).
  { destruct it as [tag v|notag tpl es|items].
    - destruct Hit as [F W]. apply (flat_head_parse o (IKV tag v) A R F W NDit Hap HwA HwR HAne).
    - destruct es as [|e1 es].
      + destruct Hit as [Dn Ft _ _]. cbn [ipfs app]. rewrite as_template_group. cbn [unmarshal_item norm_g map].
        rewrite (empty_group_parse o notag (map as_template tpl) (A ++ R)).
        * reflexivity.
        * exact Dn.
        * rewrite map_app. intro Hin. apply in_app_or in Hin.
          destruct (Hap notag (or_introl eq_refl)) as [H1 H2]. destruct Hin; contradiction.
        * apply Forall_app. split; assumption.
        * destruct A; [contradiction|discriminate].
      + apply (group_head_parse o notag tpl e1 es A R Hit NDit Hap HwA HwR).
    - destruct Hit as [F W]. apply (flat_head_parse o (IComp items) A R F W NDit Hap HwA HwR HAne). }
  rewrite Hhead.
  (* the rest, with the head's fields moved into the prefix *)
  assert (Edata2 : A ++ ipfs it ++ R = (A ++ ipfs it) ++ flat_map ipfs rest ++ Bp).
  { unfold R. rewrite <- app_assoc. reflexivity. }
  rewrite Edata2.
  rewrite (IH (A ++ ipfs it) (tagsA ++ item_tags it) Bp tagsB).
  - reflexivity.
  - rewrite map_app. apply incl_app; [apply incl_appl; exact HA|apply incl_appr; apply (ipfs_tags o); exact Hit].
  - exact HB.
  - rewrite <- !app_assoc in ND |- *. exact ND.
  - apply Forall_app. split; [exact HwA|apply (ipfs_wf o); exact Hit].
  - exact HwB.
  - exact Hrest.
  - destruct A; [contradiction|discriminate].
Qed.

(* ---- the wire image of body items ---- *)
Lemma epf_fields e : Forall flat e -> flat_map fields_of e = map prender (epf e).
Proof. intro F. unfold epf. exact (fields_list_pfs e F). Qed.

Lemma entries_fields o tpl l :
  Forall (entry_cond o tpl) l ->
  flat_map (fun e => flat_map fields_of e) l = map prender (concat (map epf l)).
Proof.
  induction l as [|x l IH]; intro Hl; [reflexivity|]. inversion Hl as [|? ? Hx Hl']; subst.
  cbn [flat_map map concat]. rewrite map_app. rewrite (IH Hl').
  destruct Hx as (_ & Fx & _ & _). rewrite (epf_fields x Fx). reflexivity.
Qed.

Lemma fields_ipfs o it : item_wf o it -> fields_of it = map prender (ipfs it).
Proof.
  destruct it as [tag v|notag tpl es|items]; intro W.
  - apply fields_pfs. exact (proj1 W).
  - destruct W as [_ _ He _]. cbn [fields_of ipfs]. destruct es as [|e es]; [reflexivity|].
    rewrite catB_nil. rewrite (entries_fields o tpl (e :: es) He). reflexivity.
  - apply fields_pfs. exact (proj1 W).
Qed.

Lemma item_entries_ok o it : item_wf o it -> entries_ok it = true.
Proof.
  destruct it as [tag v|notag tpl es|items]; intro W.
  - reflexivity.
  - destruct W as [_ _ He _]. cbn [entries_ok]. apply forallb_forall. intros e Hin.
    rewrite Forall_forall in He. destruct (He e Hin) as (_ & Fe & _ & (t1 & v & r & -> & Hp)).
    apply andb_true_intro. split.
    + rewrite (epf_fields _ Fe). rewrite (epf_first t1 v r Hp). reflexivity.
    + apply forallb_forall. intros i Hi. rewrite Forall_forall in Fe. apply flat_entries_ok. exact (Fe i Hi).
  - apply flat_entries_ok. exact (proj1 W).
Qed.

Lemma body_fields o l : Forall (item_wf o) l -> fields_of_list l = map prender (flat_map ipfs l).
Proof.
  unfold fields_of_list. induction l as [|i l IH]; intro W; [reflexivity|]. inversion W; subst.
  cbn [flat_map]. rewrite map_app. rewrite (fields_ipfs o i H1). rewrite (IH H2). reflexivity.
Qed.

Lemma body_list_ok o l : Forall (item_wf o) l -> list_ok l = true.
Proof.
  intro W. unfold list_ok. apply forallb_forall. intros i Hi. rewrite Forall_forall in W.
  apply (item_entries_ok o). exact (W i Hi).
Qed.

(* pointwise reading of a successful rmapM *)
Lemma rmapM_ok_in {A B C} (f : B -> result C) (h : A -> B) (g : A -> C) l :
  rmapM f (map h l) = Ok (map g l) -> forall x, In x l -> f (h x) = Ok (g x).
Proof.
  induction l as [|y l IH]; intros H x Hin; [destruct Hin|].
  cbn [map rmapM] in H. destruct (f (h y)) as [b| | |] eqn:E; try discriminate.
  destruct (rmapM f (map h l)) as [bs| | |] eqn:E2; try discriminate.
  inversion H; subst. destruct Hin as [<-|Hin]; [exact E|exact (IH eq_refl x Hin)].
Qed.

Lemma rmapM_pointwise {A B C} (f : B -> result C) (h : A -> B) (g : A -> C) l :
  (forall x, In x l -> f (h x) = Ok (g x)) -> rmapM f (map h l) = Ok (map g l).
Proof.
  induction l as [|y l IH]; intro H; [reflexivity|].
  cbn [map rmapM]. rewrite (H y (or_introl eq_refl)). rewrite IH; [reflexivity|].
  intros x Hx. apply H. right. exact Hx.
Qed.

Lemma scan_kv_string_any o d t s :
  s <> [] ->
  scan_kv o d t (VString false []) = Ok (VString true s) ->
  forall b s0, scan_kv o d t (VString b s0) = Ok (VString true s).
Proof.
  unfold scan_kv. intros Hs H b s0. destruct (scan_value d t) as [dd|]; [exact H|].
  inversion H.
Qed.

Lemma rmap_ok_inv {A B} (f : A -> B) (r : result A) b :
  rmap f r = Ok b -> exists a, r = Ok a /\ b = f a.
Proof. destruct r; cbn; intro H; try discriminate. inversion H. eauto. Qed.

(* ---- the message ---- *)
Definition norm_msg_g (pm : message) : message :=
  set_header_items pm (m_bs pm) (m_bl pm) (m_mt pm)
    (map norm_item (m_header pm)) (map norm_g (m_body pm)) (map norm_item (m_trailer pm)) (m_cs pm).

Definition all_tags (m : message) : list bytes :=
  m_bs_tag m :: m_bl_tag m :: m_mt_tag m
  :: map fst (kvs_list (m_header m)) ++ flat_map item_tags (m_body m)
     ++ map fst (kvs_list (m_trailer m)) ++ [m_cs_tag m].

Section MessageG.
  Variable o : oracle.
  Variable m : message.
  Variables bs mt : bytes.
  Hypothesis Hbs : m_bs m = VString true bs.
  Hypothesis Hbsn : bs <> [].
  Hypothesis Sbs : sohfree bs.
  Hypothesis Hmt : m_mt m = VString true mt.
  Hypothesis Hmtn : mt <> [].
  Hypothesis Smt : sohfree mt.
  Hypothesis Dbs : digits (m_bs_tag m).
  Hypothesis Dbl : digits (m_bl_tag m).
  Hypothesis Dmt : digits (m_mt_tag m).
  Hypothesis Dcs : digits (m_cs_tag m).
  Hypothesis Fh : Forall flat (m_header m).
  Hypothesis Wh : Forall (wf_kv o) (kvs_list (m_header m)).
  Hypothesis Wb : Forall (item_wf o) (m_body m).
  Hypothesis Ft : Forall flat (m_trailer m).
  Hypothesis Wt : Forall (wf_kv o) (kvs_list (m_trailer m)).
  Hypothesis Hnocs : Forall (fun it => negb (is_cs_kv (m_cs_tag m) it) = true) (m_trailer m).
  Hypothesis Hnd : NoDup (all_tags m).
  Hypothesis Hrange : (Z.of_nat (calc_body_length m) <= int_max)%Z.

  Let bsF := m_bs_tag m ++ EQS :: bs.
  Let mtF := m_mt_tag m ++ EQS :: mt.
  Let R := counted_region m mtF.
  Let blz := Z.of_nat (length R).
  Let P := bsF ++ SOH :: m_bl_tag m ++ EQS :: itoa blz ++ SOH :: R.
  Let C := pad3 (sum_bytes P mod 256).

  Let L_all : list item :=
    IKV (m_bl_tag m) (VInt true blz) :: IKV (m_mt_tag m) (m_mt m) :: IComp (m_header m)
    :: m_body m ++ [IComp (m_trailer m); IKV (m_cs_tag m) (VString true C)].

  Let A0 : list pfield := [(m_bs_tag m, bs)].
  Let Wm : list pfield := A0 ++ flat_map ipfs L_all ++ [].

  Lemma gKbs : kv_to_bytes (m_bs_tag m) (m_bs m) = Some bsF. Proof. exact (Kbs m bs Hbs Hbsn). Qed.
  Lemma gKmt : kv_to_bytes (m_mt_tag m) (m_mt m) = Some mtF. Proof. exact (Kmt m mt Hmt Hmtn). Qed.
  Lemma gC_nonnil : C <> []. Proof. exact (C_nonnil m bs mt). Qed.

  Lemma comp_ipfs l : ipfs (IComp l) = pfs (kvs_list l).
  Proof. cbn [ipfs]. rewrite kvs_comp. reflexivity. Qed.

  Lemma Wm_fields :
    map prender Wm
    = msg_fields m bsF (m_bl_tag m ++ EQS :: itoa blz) mtF (m_cs_tag m ++ EQS :: C).
  Proof.
    unfold Wm, A0, L_all, msg_fields. rewrite app_nil_r.
    cbn [flat_map app map]. rewrite !comp_ipfs.
    cbn [ipfs kvs]. unfold pfs at 1 2. cbn [flat_map]. unfold pf_of at 1 2. cbn [fst snd].
    rewrite Hmt, (populated_string mt Hmtn). change (populated (VInt true blz)) with true.
    cbv iota. cbn [app map canon]. unfold prender at 1 2 3. cbn [fst snd]. fold bsF. fold mtF.
    f_equal. f_equal. f_equal.
    rewrite flat_map_app. rewrite !map_app.
    rewrite (fields_list_pfs _ Fh). rewrite (body_fields o _ Wb).
    rewrite (trailer_items_id m Hnocs). rewrite (fields_list_pfs _ Ft).
    f_equal. f_equal.
    cbn [flat_map]. rewrite comp_ipfs. cbn [ipfs kvs]. rewrite app_nil_r. rewrite map_app. f_equal.
    unfold pfs; cbn [flat_map]. unfold pf_of; cbn [fst snd].
    rewrite (populated_string C gC_nonnil). reflexivity.
  Qed.

  Lemma wire_g : to_bytes m = tlayout Wm.
  Proof.
    pose proof (to_bytes_shape m bsF mtF gKbs gKmt) as S. cbv zeta in S.
    assert (HR : counted_region m mtF =
                 mtF ++ SOH :: term (fields_of_list (m_header m)) ++ term (fields_of_list (m_body m))
                     ++ term (fields_of_list (trailer_items m))).
    { unfold counted_region.
      rewrite (comp_obytes_fields _ (flat_list_ok _ Fh)), (items_to_bytes_fields _ (body_list_ok o _ Wb)).
      rewrite (trailer_obytes_fields m) by (rewrite (trailer_items_id m Hnocs); apply flat_list_ok; exact Ft).
      rewrite !sohterm_join by apply fields_of_list_nonnil. reflexivity. }
    fold R in HR.
    assert (E : to_bytes m = term (msg_fields m bsF (m_bl_tag m ++ EQS :: itoa blz) mtF (m_cs_tag m ++ EQS :: C))).
    { rewrite S. fold R. fold blz. fold P. fold C. unfold P. rewrite HR.
      unfold msg_fields. rewrite !term_app, !term_cons. change (term []) with (@nil N).
      repeat (rewrite <- ?app_assoc; cbn [app]). rewrite ?app_nil_r. reflexivity. }
    rewrite E, <- Wm_fields. unfold term, tlayout.
    rewrite flat_map_concat_map, map_map, <- flat_map_concat_map. reflexivity.
  Qed.

  Lemma L_all_wf : Forall (item_wf o) L_all.
  Proof.
    unfold L_all. constructor; [|constructor; [|constructor]].
    - split; [constructor|]. constructor; [|constructor]. split; cbn [fst snd]; [exact Dbl|].
      intros _. split; [apply itoa_nat_sohfree|]. exact (blz_range m mt Hmt Hmtn Hrange).
    - split; [constructor|]. constructor; [|constructor]. split; cbn [fst snd]; [exact Dmt|].
      rewrite Hmt. intros _. split; [exact Smt|exact I].
    - split; [constructor; exact Fh|]. rewrite kvs_comp. exact Wh.
    - apply Forall_app. split; [exact Wb|]. constructor; [|constructor; [|constructor]].
      + split; [constructor; exact Ft|]. rewrite kvs_comp. exact Wt.
      + split; [constructor|]. constructor; [|constructor]. split; cbn [fst snd]; [exact Dcs|].
        intros _. split; [|exact I]. cbn [canon]. apply pad3_sohfree. apply N.mod_lt. discriminate.
  Qed.

  Lemma comp_tags l : item_tags (IComp l) = map fst (kvs_list l).
  Proof. cbn [item_tags]. rewrite kvs_comp. reflexivity. Qed.

  Lemma kv_tags t v : item_tags (IKV t v) = [t].
  Proof. reflexivity. Qed.

  Lemma L_all_tags : [m_bs_tag m] ++ flat_map item_tags L_all ++ [] = all_tags m.
  Proof.
    unfold L_all, all_tags. rewrite app_nil_r. cbn [flat_map]. rewrite !kv_tags, comp_tags.
    rewrite flat_map_app. cbn [flat_map]. rewrite kv_tags, comp_tags. rewrite app_nil_r.
    cbn [app]. reflexivity.
  Qed.

  Lemma all_parsed :
    forall x, In x L_all -> unmarshal_item o (to_bytes m) (as_template x) = Ok (norm_g x).
  Proof.
    apply rmapM_ok_in. rewrite wire_g. unfold Wm.
    apply (items_parse o L_all A0 [m_bs_tag m] [] []).
    - intros t [<-|[]]. left. reflexivity.
    - intros t [].
    - rewrite L_all_tags. exact Hnd.
    - constructor; [|constructor]. split; cbn [fst snd]; [apply digits_wf_tag; exact Dbs|exact Sbs].
    - constructor.
    - exact L_all_wf.
    - discriminate.
  Qed.

  Lemma in_L_bl : In (IKV (m_bl_tag m) (VInt true blz)) L_all. Proof. left. reflexivity. Qed.
  Lemma in_L_mt : In (IKV (m_mt_tag m) (m_mt m)) L_all. Proof. right. left. reflexivity. Qed.
  Lemma in_L_hd : In (IComp (m_header m)) L_all. Proof. right. right. left. reflexivity. Qed.
  Lemma in_L_body x : In x (m_body m) -> In x L_all.
  Proof. intro H. right. right. right. apply in_or_app. left. exact H. Qed.
  Lemma in_L_tr : In (IComp (m_trailer m)) L_all.
  Proof. right. right. right. apply in_or_app. right. left. reflexivity. Qed.
  Lemma in_L_cs : In (IKV (m_cs_tag m) (VString true C)) L_all.
  Proof. right. right. right. apply in_or_app. right. right. left. reflexivity. Qed.

  Lemma scan_bs : scan_kv o (to_bytes m) (m_bs_tag m) (m_bs m) = Ok (VString true bs).
  Proof.
    unfold scan_kv. rewrite wire_g.
    assert (HWne : Wm <> []) by (unfold Wm, A0; discriminate).
    assert (HwW : Forall wf_field Wm).
    { unfold Wm. apply Forall_app. split.
      - constructor; [|constructor]. split; cbn [fst snd]; [apply digits_wf_tag; exact Dbs|exact Sbs].
      - rewrite app_nil_r. apply (wire_wf o). exact L_all_wf. }
    rewrite <- (layout_tlayout Wm HWne).
    rewrite (scan_value_message (m_bs_tag m) Wm [SOH] (digits_wf_tag _ Dbs) HwW) by (right; reflexivity).
    unfold Wm, A0. cbn [app lookup fst snd]. rewrite beq_refl. rewrite Hbs. reflexivity.
  Qed.

  Lemma scan_bl : scan_kv o (to_bytes m) (m_bl_tag m) (VInt false 0%Z) = Ok (VInt true blz).
  Proof.
    pose proof (all_parsed _ in_L_bl) as H. cbn [as_template unmarshal_item val_empty norm_g norm_item] in H.
    apply rmap_ok_inv in H. destruct H as (a & Ha & E). rewrite Ha. inversion E. reflexivity.
  Qed.

  Lemma scan_mt : scan_kv o (to_bytes m) (m_mt_tag m) (m_mt m) = Ok (VString true mt).
  Proof.
    pose proof (all_parsed _ in_L_mt) as H. rewrite Hmt in H.
    cbn [as_template unmarshal_item val_empty norm_g norm_item] in H.
    apply rmap_ok_inv in H. destruct H as (a & Ha & E).
    assert (En : norm (VString true mt) = VString true mt).
    { unfold norm. rewrite (populated_string mt Hmtn). reflexivity. }
    rewrite En in E. inversion E; subst a. rewrite Hmt.
    apply (scan_kv_string_any o _ _ mt Hmtn Ha).
  Qed.

  Lemma scan_cs : scan_kv o (to_bytes m) (m_cs_tag m) (VString false []) = Ok (VString true C).
  Proof.
    pose proof (all_parsed _ in_L_cs) as H.
    cbn [as_template unmarshal_item val_empty norm_g norm_item] in H.
    apply rmap_ok_inv in H. destruct H as (a & Ha & E).
    assert (En : norm (VString true C) = VString true C).
    { unfold norm. rewrite (populated_string C gC_nonnil). reflexivity. }
    rewrite En in E. inversion E; subst a. exact Ha.
  Qed.

  Theorem group_message_roundtrip :
    unmarshal o (template_of m) (to_bytes m) = Ok (norm_msg_g (fst (prepare m))).
  Proof.
    unfold unmarshal. rewrite (want_bs_template m bs Hbs Hbsn).
    cbn [template_of m_bs_tag m_bl_tag m_cs_tag m_mt_tag m_bs m_bl m_mt m_cs m_header m_body m_trailer].
    rewrite (validate_wire m bs mt Hbs Hbsn Sbs Hmt Hmtn Dbs Dbl Dcs Hrange).
    rewrite scan_bs, scan_bl, scan_mt.
    (* header *)
    pose proof (all_parsed _ in_L_hd) as HH. rewrite as_template_comp in HH.
    cbn [norm_g] in HH. rewrite norm_item_comp in HH. rewrite HH.
    (* body *)
    assert (HB : unmarshal_items o (to_bytes m) (map as_template (m_body m)) = Ok (map norm_g (m_body m))).
    { unfold unmarshal_items. apply rmapM_pointwise. intros x Hx. apply all_parsed. apply in_L_body. exact Hx. }
    rewrite HB.
    (* trailer *)
    pose proof (all_parsed _ in_L_tr) as HT. rewrite as_template_comp in HT.
    cbn [norm_g] in HT. rewrite norm_item_comp in HT. rewrite HT.
    rewrite scan_cs.
    assert (Hreq : check_required
                     (set_header_items (template_of m) (VString true bs) (VInt true blz) (VString true mt)
                        (map norm_item (m_header m)) (map norm_g (m_body m)) (map norm_item (m_trailer m))
                        (VString true C)) = true).
    { unfold check_required, set_header_items. cbn [m_bs m_bl m_mt m_cs is_null int_val string_val negb].
      assert (Hz : Z.eqb blz 0 = false).
      { apply Z.eqb_neq. unfold blz, R, counted_region, mtF. rewrite !app_length. cbn [length]. lia. }
      rewrite Hz, (is_nil_false mt Hmtn), (is_nil_false C gC_nonnil). reflexivity. }
    unfold template_of in Hreq |- *.
    cbn [m_bs_tag m_bl_tag m_cs_tag m_mt_tag m_bs m_bl m_mt m_cs m_header m_body m_trailer set_header_items] in Hreq |- *.
    rewrite Hreq.
    f_equal. unfold norm_msg_g, set_header_items.
    rewrite (prepare_bl m mt Hmt Hmtn), (prepare_cs m bs mt Hbs Hbsn Hmt Hmtn).
    unfold prepare. cbn [fst m_bs_tag m_bl_tag m_cs_tag m_mt_tag m_bs m_mt m_header m_body m_trailer].
    rewrite Hbs, Hmt. reflexivity.
  Qed.
End MessageG.

(* ---- the hypotheses are satisfiable: a message with a two-entry group between plain fields ---- *)
Definition exg_tpl : list item :=
  [IKV [50; 54; 57] (VString false []); IComp [IKV [50; 55; 48] (VFloat false None [48]); IKV [50; 55; 49] (VInt false 0%Z)];
   IKV [50; 55; 50] (VString false [])].

Definition exg_e1 : list item :=
  [IKV [50; 54; 57] (VString true [48]); IComp [IKV [50; 55; 48] (VFloat true None [49; 46; 53]); IKV [50; 55; 49] (VInt true 10%Z)];
   IKV [50; 55; 50] (VString false [])].

Definition exg_e2 : list item :=
  [IKV [50; 54; 57] (VString true [49]); IComp [IKV [50; 55; 48] (VFloat false None [48]); IKV [50; 55; 49] (VInt true 20%Z)];
   IKV [50; 55; 50] (VString true [120])].

Definition exg_msg : message :=
  {| m_bs_tag := [56]; m_bl_tag := [57]; m_cs_tag := [49; 48]; m_mt_tag := [51; 53];
     m_bs := VString true [70; 73; 88; 46; 52; 46; 52];
     m_bl := VInt false 0%Z; m_mt := VString true [87]; m_cs := VString false [];
     m_header := [IKV [52; 57] (VString true [65; 66]); IKV [51; 52] (VInt true 7%Z)];
     m_body := [IKV [53; 53] (VString true [88]);
                IGroup [50; 54; 56] exg_tpl [exg_e1; exg_e2];
                IGroup [49; 52; 54] [IKV [51; 49; 49] (VString false [])] [];
                IKV [49; 52; 49] (VBool true true)];
     m_trailer := [IKV [57; 51] (VInt true 2%Z)] |}.

Ltac solve_digits := repeat constructor; cbv; intuition discriminate.
Ltac solve_wfkv :=
  repeat (constructor;
          [split; cbn [fst snd];
           [solve_digits
           |let Hp := fresh "Hp" in
            intro Hp; split; [cbn [canon]; try discriminate Hp; repeat constructor; discriminate
                             |cbn; try reflexivity; try exact I; try (cbv; intuition discriminate)]]|]);
  try constructor.

Example group_roundtrip_applies :
  unmarshal ex_oracle (template_of exg_msg) (to_bytes exg_msg) = Ok (norm_msg_g (fst (prepare exg_msg))).
Proof.
  apply (group_message_roundtrip ex_oracle exg_msg [70; 73; 88; 46; 52; 46; 52] [87]);
    try reflexivity; try discriminate.
  - repeat constructor; discriminate.
  - repeat constructor; discriminate.
  - solve_digits.
  - solve_digits.
  - solve_digits.
  - solve_digits.
  - repeat constructor.
  - unfold kvs_list, exg_msg; cbn [flat_map kvs app m_header]. solve_wfkv.
  - unfold exg_msg; cbn [m_body]. constructor; [|constructor; [|constructor; [|constructor; [|constructor]]]].
    + split; [constructor|]. cbn [kvs]. solve_wfkv.
    + constructor.
      * solve_digits.
      * unfold exg_tpl. repeat constructor.
      * constructor; [|constructor; [|constructor]].
        -- split; [reflexivity|]. split; [unfold exg_e1; repeat constructor|].
           split; [unfold kvs_list, exg_e1; cbn [flat_map kvs app]; solve_wfkv|].
           eexists _, _, _. split; [reflexivity|reflexivity].
        -- split; [reflexivity|]. split; [unfold exg_e2; repeat constructor|].
           split; [unfold kvs_list, exg_e2; cbn [flat_map kvs app]; solve_wfkv|].
           eexists _, _, _. split; [reflexivity|reflexivity].
      * reflexivity.
    + constructor; [solve_digits|repeat constructor|constructor|reflexivity].
    + split; [constructor|]. cbn [kvs]. solve_wfkv.
  - repeat constructor.
  - unfold kvs_list, exg_msg; cbn [flat_map kvs app m_trailer]. solve_wfkv.
  - repeat constructor.
  - let l := eval vm_compute in (all_tags exg_msg) in change (NoDup l).
    repeat (constructor; [cbn [In]; intuition discriminate|]). constructor.
Qed.

(* and the parsed message really contains both entries *)
Example group_roundtrip_entries :
  match unmarshal ex_oracle (template_of exg_msg) (to_bytes exg_msg) with
  | Ok m' => match m_body m' with
             | [_; IGroup _ _ es; IGroup _ _ es0; _] => (length es, length es0)
             | _ => (0%nat, 0%nat)
             end
  | _ => (0%nat, 0%nat)
  end = (2%nat, 0%nat).
Proof. vm_compute. reflexivity. Qed.
