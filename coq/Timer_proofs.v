(* Timer_proofs.v -- bounds on when the timers fire (C08, C09). *)
From Coq Require Import ZArith List Lia Bool.
From SF Require Import Timer.
Import ListNotations.
Open Scope Z_scope.

Lemma last_refresh_le start refs t : start <= t -> last_refresh start refs t <= t.
Proof.
  intro H. induction refs as [|r rest IH]; cbn [last_refresh]; [exact H|].
  destruct (Z.leb_spec r t); destruct (Z.ltb_spec (last_refresh start rest t) r); cbn [andb]; lia.
Qed.

(* it is the start or one of the refresh instants *)
Lemma last_refresh_in start refs t :
  last_refresh start refs t = start \/ In (last_refresh start refs t) refs.
Proof.
  induction refs as [|r rest IH]; cbn [last_refresh]; [left; reflexivity|].
  destruct ((r <=? t) && (last_refresh start rest t <? r)); [right; left; reflexivity|].
  destruct IH as [IH|IH]; [left; exact IH|right; right; exact IH].
Qed.

(* and no refresh lies strictly between it and t *)
Lemma last_refresh_max start refs t r :
  In r refs -> r <= t -> r <= last_refresh start refs t.
Proof.
  induction refs as [|x rest IH]; intros Hin Hr; [destruct Hin|]. cbn [last_refresh].
  destruct Hin as [->|Hin].
  - destruct (Z.leb_spec r t); [|lia]. destruct (Z.ltb_spec (last_refresh start rest t) r); cbn [andb]; lia.
  - specialize (IH Hin Hr).
    destruct (Z.leb_spec x t); destruct (Z.ltb_spec (last_refresh start rest t) x); cbn [andb]; lia.
Qed.

(* C08 (postponement) / C09: the timer never returns early. If TakeTimeout returns at t, the
   timer was not refreshed at any instant in (t - T, t]: in particular every outbound message
   (each refreshes the outbound timer) is at least T older than an unsolicited Heartbeat, and an
   inbound message within the last T_in prevents the probe *)
Theorem no_early_return T start refs ticks t :
  take_timeout T start refs ticks = Some t ->
  In t ticks /\ last_refresh start refs t + T <= t
  /\ forall r, In r refs -> r <= t -> r + T <= t.
Proof.
  induction ticks as [|x rest IH]; cbn [take_timeout]; [discriminate|].
  destruct (Z.leb_spec (last_refresh start refs x + T) x) as [H|H].
  - intro E. inversion E; subst. split; [left; reflexivity|]. split; [exact H|].
    intros r Hin Hr. pose proof (last_refresh_max start refs t r Hin Hr). lia.
  - intro E. destruct (IH E) as (I1 & I2 & I3). split; [right; exact I1|]. split; assumption.
Qed.

(* ticks that are at most G apart, starting at most G after [from] and reaching [upto] *)
Fixpoint dense (G from upto : Z) (ticks : list Z) : Prop :=
  match ticks with
  | [] => upto <= from
  | t :: rest => from < t <= from + G /\ dense G t upto rest
  end.

(* C08 (liveness bound) / C09 (probe bound): if the last refresh is at r and nothing refreshes
   the timer until r + T + G, TakeTimeout returns by r + T + G (G = polling period plus tick
   delay), provided the ticks are dense up to that instant *)
Theorem returns_in_time T G start refs ticks from r :
  0 <= T -> 0 < G ->
  dense G from (r + T + G) ticks -> from <= r + T -> start <= from ->
  (forall t, r <= t -> t <= r + T + G -> last_refresh start refs t = r) ->
  exists t, take_timeout T start refs ticks = Some t /\ t <= r + T + G.
Proof.
  intros HT HG. revert from. induction ticks as [|x rest IH]; intros from Hd Hfrom Hs Hlast.
  - cbn [dense] in Hd. lia.
  - cbn [dense] in Hd. destruct Hd as [Hx Hd]. cbn [take_timeout].
    destruct (Z.leb_spec (last_refresh start refs x + T) x) as [H|H].
    + exists x. split; [reflexivity|]. lia.
    + (* x is too early: it is before r + T *)
      assert (Hxr : x < r + T).
      { destruct (Z.lt_ge_cases x r) as [Hlt|Hge].
        - lia.
        - destruct (Z.le_gt_cases x (r + T + G)) as [Hle|Hgt]; [|lia].
          rewrite (Hlast x Hge Hle) in H. lia. }
      apply (IH x Hd); try lia; assumption.
Qed.

(* C09: a peer that sends something at least every n seconds is never probed: whenever the
   inbound timer looks, the last refresh is less than its timeout ago *)
Theorem live_peer_never_probed n start refs ticks :
  1 <= n ->
  (forall t, In t ticks -> exists r, (r = start \/ In r refs) /\ r <= t /\ t <= r + out_timeout n) ->
  take_timeout (in_timeout n) start refs ticks = None.
Proof.
  intros Hn Hlive. induction ticks as [|x rest IH]; [reflexivity|]. cbn [take_timeout].
  destruct (Hlive x (or_introl eq_refl)) as (r & Hr & Hle & Hx).
  assert (Hl : r <= last_refresh start refs x).
  { destruct Hr as [->|Hin].
    - clear -Hle. induction refs as [|y ys IHy]; cbn [last_refresh]; [lia|].
      destruct ((y <=? x) && (last_refresh start ys x <? y)) eqn:E; [|exact IHy].
      apply andb_prop in E as [_ E]. apply Z.ltb_lt in E. lia.
    - apply last_refresh_max; assumption. }
  assert (Hgap : out_timeout n < in_timeout n).
  { unfold out_timeout, in_timeout, second. assert (1 <= Z.max (n / 20) 1) by lia. nia. }
  destruct (Z.leb_spec (last_refresh start refs x + in_timeout n) x) as [H|H]; [lia|].
  apply IH. intros t Ht. apply Hlive. right. exact Ht.
Qed.

(* the probe timeout: n + max(1, n/20) seconds (integer division first, as the code does) *)
Lemma in_timeout_values :
  in_timeout 1 = 2 * second /\ in_timeout 19 = 20 * second /\ in_timeout 20 = 21 * second
  /\ in_timeout 30 = 31 * second /\ in_timeout 40 = 42 * second /\ in_timeout 60 = 63 * second.
Proof. repeat split. Qed.

Example ex_timer :
  take_timeout 100 0 [30; 55] [10; 20; 30; 40; 50; 60; 70; 80; 90; 100; 110; 120; 130; 140; 150; 160] = Some 160.
Proof. reflexivity. Qed.

(* with ticks exactly at start + k * P the wait returns at [ideal_tick] of last + T *)
Lemma ideal_tick_spec P start x :
  0 < P -> let t := ideal_tick P start x in
  x <= t /\ start < t /\ (exists k, 1 <= k /\ t = start + k * P) /\ (start + P < t -> t - P < x).
Proof.
  intros HP t. unfold t, ideal_tick. destruct (Z.leb_spec x start) as [H|H].
  - split; [lia|]. split; [lia|]. split; [exists 1; lia|lia].
  - set (q := (x - start + P - 1) / P).
    assert (Hq : P * q <= x - start + P - 1 < P * q + P).
    { unfold q. pose proof (Z.div_mod (x - start + P - 1) P ltac:(lia)) as D.
      pose proof (Z.mod_pos_bound (x - start + P - 1) P HP) as B. lia. }
    assert (1 <= q) by (unfold q; apply Z.div_le_lower_bound; lia).
    split; [nia|]. split; [nia|]. split; [exists q; split; [lia|ring]|nia].
Qed.
