(* FrameProto.v -- line protocol for the stream-reassembly cases (harness/cmd/stream). *)
From SF Require Export Proto Frame.
Open Scope N_scope.

Definition k_FRAME : bytes := [70;82;65;77;69].

(* FRAME n chunk*  ->  k msg* *)
Definition run_frame_line (line : bytes) : bytes :=
  match tokens line with
  | k :: n :: r =>
      if negb (beq k_FRAME k) then s_BAD else
      match tok_nat n with
      | Some cnt =>
          match p_count (fun ts => match ts with
                                   | t :: r' => match unhex t with Some x => Some (x, r') | None => None end
                                   | [] => None end) cnt r with
          | Some (chunks, []) =>
              let ms := deliver chunks in
              spcat (pr_nat (length ms) :: map hex ms)
          | _ => s_BAD
          end
      | None => s_BAD
      end
  | _ => s_BAD
  end.
