(* FrameProto.v -- line protocol for the stream-reassembly cases (harness/cmd/stream). *)
From SF Require Export Proto Frame.
Open Scope N_scope.

Definition k_FRAME : bytes := [70;82;65;77;69].

(* FRAME n chunk*  ->  k msg* *)
Definition run_reassembly_line (line : bytes) : bytes :=
  match tokens line with
  | k :: n :: r =>
      if negb (beq k_FRAME k) then s_BAD else
      match tok_nat n with
      | Some cnt =>
          match p_count (fun ts => match ts with
                                   | t :: r' => match unhex t with Some x => Some (x, r') | None => None end
                                   | [] => None end) cnt r with
          | Some (chunks, []) =>
              let ms := deliver chunks in
              spcat (pr_nat (length ms) :: map hex ms)
          | _ => s_BAD
          end
      | None => s_BAD
      end
  | _ => s_BAD
  end.

Definition k_WRITE : bytes := [87;82;73;84;69].

(* WRITE n msg* at keep  ->  the outbound byte stream (hex); at = 0: no write fails, otherwise the
   write of hand-off number at (1-based) takes keep bytes *)
Definition run_write_line (line : bytes) : bytes :=
  match tokens line with
  | k :: n :: r =>
      if negb (beq k_WRITE k) then s_BAD else
      match tok_nat n with
      | Some cnt =>
          match p_count (fun ts => match ts with
                                   | t :: r' => match unhex t with Some x => Some (x, r') | None => None end
                                   | [] => None end) cnt r with
          | Some (msgs, [a; kp]) =>
              match tok_nat a, tok_nat kp with
              | Some O, Some _ => hex (writer msgs None)
              | Some (S at0), Some keep => hex (writer msgs (Some (at0, keep)))
              | _, _ => s_BAD
              end
          | _ => s_BAD
          end
      | None => s_BAD
      end
  | _ => s_BAD
  end.

(* the driver's entry point for the family "frame" *)
Definition run_frame_line (line : bytes) : bytes :=
  match tokens line with
  | k :: _ => if beq k_WRITE k then run_write_line line else run_reassembly_line line
  | [] => s_BAD
  end.
