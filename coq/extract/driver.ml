(* driver.ml -- glue only: one case line in, one answer line out.
   All parsing of the line protocol and all model logic is the extracted
   Gallina (the run functions of Model). *)
open Model

let rec pos_of_int (i : int) : positive =
  if i = 1 then XH
  else if i land 1 = 0 then XO (pos_of_int (i lsr 1))
  else XI (pos_of_int (i lsr 1))

let n_of_int (i : int) : n = if i = 0 then N0 else Npos (pos_of_int i)

let rec int_of_pos (p : positive) : int =
  match p with
  | XH -> 1
  | XO q -> 2 * int_of_pos q
  | XI q -> 2 * int_of_pos q + 1

let int_of_n (x : n) : int = match x with N0 -> 0 | Npos p -> int_of_pos p

let bytes_of_string (s : Stdlib.String.t) : n list =
  let r = ref [] in
  for i = Stdlib.String.length s - 1 downto 0 do
    r := n_of_int (Stdlib.Char.code s.[i]) :: !r
  done;
  !r

let string_of_bytes (l : n list) : Stdlib.String.t =
  let b = Stdlib.Buffer.create 256 in
  Stdlib.List.iter (fun x -> Stdlib.Buffer.add_char b (Stdlib.Char.chr (int_of_n x land 255))) l;
  Stdlib.Buffer.contents b

let () =
  let family = if Array.length Sys.argv > 1 then Sys.argv.(1) else "codec" in
  let run = match family with
    | "session" -> run_session_line
    | "frame" -> run_frame_line
    | "timer" -> run_timer_line
    | "gen" -> run_gen_line
    | _ -> run_codec in
  try
    while true do
      let line = input_line stdin in
      let out = string_of_bytes (run (bytes_of_string line)) in
      print_string out; print_char '\n'
    done
  with End_of_file -> flush stdout
