(* Extraction of the executable model. ExtrOcamlBasic only: bool, option,
   unit, list, prod, sumbool map to OCaml's; nat, positive, N, Z stay
   inductive. *)
From SF Require Import Proto SessionProto FrameProto TimerProto GenProto.
Require Extraction.
Require Import ExtrOcamlBasic.
Extraction Language OCaml.
Extraction "model.ml" run_codec run_session_line run_frame_line run_timer_line run_gen_line.
