(* Session_c06.v -- a session becomes logged on only through an acceptable Logon (C06). *)
From SF Require Import Bytes Values Wire Parse Session Bytes_proofs Session_proofs Session_c07
  Session_clean Session_handlers.
Open Scope N_scope.

(* the settings an accepting session derives from a received Logon *)
Definition logon_settings (cfg : config) (old : settings) (lm : message) : settings :=
  let t := get_string tag_TargetCompID (m_header lm) in
  let sd := get_string tag_SenderCompID (m_header lm) in
  {| st_target := match c_side cfg with Acceptor => sd | Initiator => t end;
     st_sender := match c_side cfg with Acceptor => t | Initiator => sd end;
     st_hb := get_int tag_HeartBtInt (m_body lm);
     st_enc := get_string tag_EncryptMethod (m_body lm);
     st_password := get_string tag_Password (m_body lm);
     st_username := get_string tag_Username (m_body lm);
     st_reset := get_bool tag_ResetSeqNumFlag (m_body lm);
     st_limits := st_limits old |}.

(* the Logon is acceptable: method allowed, heartbeat interval within the limits, callback approves *)
Definition acceptable (cfg : config) (s : sstate) (lm : message) : Prop :=
  let ns := logon_settings cfg (s_settings s) lm in
  existsb (beq (st_enc ns)) (c_allowed cfg) = true
  /\ match st_limits (s_settings s) with
     | None => True
     | Some (lo, hi) => (lo <= st_hb ns <= hi)%Z
     end
  /\ c_approve cfg ns = true
  /\ (0 < st_hb ns)%Z.    (* the timers can be started: Session.start succeeds *)

Lemma check_params_none cfg s enc hb :
  check_logon_params cfg s enc hb = None ->
  existsb (beq enc) (c_allowed cfg) = true
  /\ match st_limits (s_settings s) with None => True | Some (lo, hi) => (lo <= hb <= hi)%Z end.
Proof.
  unfold check_logon_params. destruct (existsb (beq enc) (c_allowed cfg)); cbn [negb]; [|discriminate].
  destruct (st_limits (s_settings s)) as [[lo hi]|]; [|auto].
  destruct (Z.ltb_spec hb lo); cbn [orb]; [discriminate|].
  destruct (Z.ltb_spec hi hb); [discriminate|]. intros _. split; [reflexivity|lia].
Qed.

(* the Logon handler is the only handler that can log a session on, and only under the
   stated conditions *)
Theorem logon_handler_accepts cfg s d s' o b :
  run_in_handler cfg s HLogon d = (s', o, b) -> not_logged s -> s_state s' = SuccessfulLogged ->
  exists lm, parse_as msgtype_Logon tpl_Logon d = Ok lm /\
    ((s_state s = WaitingLogon /\ acceptable cfg s lm
      /\ s_settings s' = logon_settings cfg (s_settings s) lm)
     \/ s_state s = WaitingLogonAnswer).
Proof.
  intros H N S'. cbn [run_in_handler] in H.
  destruct (parse_as _ _ d) as [lm| | |] eqn:P;
    try (exfalso; destruct (reject_message cfg s d) as [s1 o1] eqn:E; inversion H; subst;
         destruct (reject_outcome _ _ _ _ _ E N) as (N1 & _);
         unfold not_logged, logged_or_probing in N1; rewrite S' in N1; discriminate).
  exists lm. split; [reflexivity|].
  destruct (s_state s) eqn:St.
  - left. split; [reflexivity|].
    fold (logon_settings cfg (s_settings s) lm) in H.
    set (ns := logon_settings cfg (s_settings s) lm) in *.
    destruct (check_logon_params cfg (upd_settings s ns) _ _) as [tag|] eqn:Ck.
    + exfalso. destruct (session_send cfg (upd_settings s ns) _) as [s2 o2] eqn:E. inversion H; subst.
      destruct (session_send_spec _ _ _ _ _ E) as (_ & C & _). destruct C as (C & _).
      rewrite C in S'. cbn [s_state upd_settings] in S'. congruence.
    + destruct (c_approve cfg ns) eqn:Ap; cbn [negb] in H.
      * destruct (check_params_none _ _ _ _ Ck) as (A1 & A2). cbn [s_settings upd_settings st_limits logon_settings] in A2.
        match type of H with context [Z.leb ?hb 0] => destruct (Z.leb_spec hb 0) as [Hhb|Hhb] end.
        { exfalso. destruct (session_send cfg (upd_settings s ns) _) as [s2 o2] eqn:E. inversion H; subst.
          destruct (session_send_spec _ _ _ _ _ E) as (_ & C & _). destruct C as (C & _).
          rewrite C in S'. cbn [s_state upd_settings] in S'. congruence. }
        split; [unfold acceptable; fold ns; repeat split; try assumption; exact Hhb|].
        destruct (change_state (start_timers (upd_settings s ns)) SuccessfulLogged) as [s3 o3] eqn:E3.
        destruct (session_send cfg s3 _) as [s4 o4] eqn:E4.
        destruct (process_inc_seq cfg s4 _) as [s5 o5] eqn:E5. inversion H; subst.
        destruct (change_state_spec _ _ _ _ E3) as (_ & _ & Se3 & _).
        destruct (session_send_spec _ _ _ _ _ E4) as (_ & (_ & Se4 & _) & _).
        unfold process_inc_seq in E5. destruct (Z.ltb _ _).
        -- destruct (session_send cfg s4 _) as [s6 o6] eqn:E6. inversion E5; subst.
           destruct (session_send_spec _ _ _ _ _ E6) as (_ & (_ & Se6 & _) & _).
           cbn [s_settings upd_cnt_in]. rewrite Se6, Se4, Se3. reflexivity.
        -- inversion E5; subst. cbn [s_settings upd_cnt_in]. rewrite Se4, Se3. reflexivity.
      * exfalso. destruct (session_send cfg (upd_settings s ns) _) as [s2 o2] eqn:E. inversion H; subst.
        destruct (session_send_spec _ _ _ _ _ E) as (_ & C & _). destruct C as (C & _).
        rewrite C in S'. cbn [s_state upd_settings] in S'. congruence.
  - exfalso. unfold not_logged, logged_or_probing in N. rewrite St in N. discriminate.
  - right. reflexivity.
  - exfalso. inversion H; subst. congruence.
  - exfalso. inversion H; subst. congruence.
  - exfalso. unfold not_logged, logged_or_probing in N. rewrite St in N. cbn in N. discriminate.
  - exfalso. inversion H; subst. congruence.
Qed.

(* refused while waiting for a Logon: exactly what is sent back, and the session stays put *)
Theorem logon_refused cfg s d lm :
  parse_as msgtype_Logon tpl_Logon d = Ok lm -> s_state s = WaitingLogon ->
  let ns := logon_settings cfg (s_settings s) lm in
  let seq := get_int tag_MsgSeqNum (m_header lm) in
  (forall tag, check_logon_params cfg (upd_settings s ns) (st_enc ns) (st_hb ns) = Some tag ->
     run_in_handler cfg s HLogon d =
     (let '(s', o) := session_send cfg (upd_settings s ns) (mk_reject reject_incorrect_value tag seq) in (s', o, true)))
  /\ (check_logon_params cfg (upd_settings s ns) (st_enc ns) (st_hb ns) = None -> c_approve cfg ns = false ->
     run_in_handler cfg s HLogon d =
     (let '(s', o) := session_send cfg (upd_settings s ns) (mk_reject reject_other 0%Z seq) in (s', o, true))).
Proof.
  intros P St ns seq. split.
  - intros tag Ck. cbn [run_in_handler]. rewrite P, St.
    fold (logon_settings cfg (s_settings s) lm). fold ns.
    change (get_string tag_EncryptMethod (m_body lm)) with (st_enc ns).
    change (get_int tag_HeartBtInt (m_body lm)) with (st_hb ns). rewrite Ck. reflexivity.
  - intros Ck Ap. cbn [run_in_handler]. rewrite P, St.
    fold (logon_settings cfg (s_settings s) lm). fold ns.
    change (get_string tag_EncryptMethod (m_body lm)) with (st_enc ns).
    change (get_int tag_HeartBtInt (m_body lm)) with (st_hb ns). rewrite Ck, Ap. reflexivity.
Qed.

(* the offending tag named by the check *)
Lemma check_params_tag cfg s enc hb tag :
  check_logon_params cfg s enc hb = Some tag ->
  (existsb (beq enc) (c_allowed cfg) = false /\ tag = tagnum_EncryptMethod)
  \/ (existsb (beq enc) (c_allowed cfg) = true /\ tag = tagnum_HeartBtInt
      /\ exists lo hi, st_limits (s_settings s) = Some (lo, hi) /\ (hb < lo \/ hi < hb)%Z).
Proof.
  unfold check_logon_params. destruct (existsb (beq enc) (c_allowed cfg)); cbn [negb].
  - destruct (st_limits (s_settings s)) as [[lo hi]|]; [|discriminate].
    destruct (Z.ltb_spec hb lo); cbn [orb].
    + intro Hx; inversion Hx. right. repeat split. exists lo, hi. split; [reflexivity|lia].
    + destruct (Z.ltb_spec hi hb); [|discriminate]. intro Hx; inversion Hx. right. repeat split.
      exists lo, hi. split; [reflexivity|lia].
  - intro Hx; inversion Hx. left. split; reflexivity.
Qed.

(* the answer to an acceptable Logon *)
Definition logon_answer (enc : bytes) (hb : Z) : message :=
  mk_msg msgtype_Logon (set_kv tag_HeartBtInt (VInt true hb) (set_kv tag_EncryptMethod (VString true enc) tpl_Logon)).

Theorem logon_accepted cfg s d lm :
  parse_as msgtype_Logon tpl_Logon d = Ok lm -> s_state s = WaitingLogon ->
  let ns := logon_settings cfg (s_settings s) lm in
  check_logon_params cfg (upd_settings s ns) (st_enc ns) (st_hb ns) = None -> c_approve cfg ns = true ->
  (0 < st_hb ns)%Z ->
  run_in_handler cfg s HLogon d =
  (let '(s3, o3) := change_state (start_timers (upd_settings s ns)) SuccessfulLogged in
   let '(s4, o4) := session_send cfg s3 (logon_answer (st_enc ns) (st_hb ns)) in
   let '(s5, o5) := process_inc_seq cfg s4 (get_int tag_MsgSeqNum (m_header lm)) in
   (s5, o3 ++ o4 ++ o5, true)).
Proof.
  intros P St ns Ck Ap Hhb. cbn [run_in_handler]. rewrite P, St.
  fold (logon_settings cfg (s_settings s) lm). fold ns.
  change (get_string tag_EncryptMethod (m_body lm)) with (st_enc ns).
  change (get_int tag_HeartBtInt (m_body lm)) with (st_hb ns). rewrite Ck, Ap. cbn [negb].
  destruct (Z.leb_spec (st_hb ns) 0); [lia|]. reflexivity.
Qed.

(* a Logon within the limits and approved, but with an interval no timer can be started with
   (possible only when the configured limits admit a non-positive interval): one Reject naming
   HeartBtInt, and the session stays where it was *)
Theorem logon_unstartable cfg s d lm :
  parse_as msgtype_Logon tpl_Logon d = Ok lm -> s_state s = WaitingLogon ->
  let ns := logon_settings cfg (s_settings s) lm in
  check_logon_params cfg (upd_settings s ns) (st_enc ns) (st_hb ns) = None -> c_approve cfg ns = true ->
  (st_hb ns <= 0)%Z ->
  run_in_handler cfg s HLogon d =
  (let '(s', o) := session_send cfg (upd_settings s ns)
                     (mk_reject reject_incorrect_value tagnum_HeartBtInt (get_int tag_MsgSeqNum (m_header lm))) in (s', o, true)).
Proof.
  intros P St ns Ck Ap Hhb. cbn [run_in_handler]. rewrite P, St.
  fold (logon_settings cfg (s_settings s) lm). fold ns.
  change (get_string tag_EncryptMethod (m_body lm)) with (st_enc ns).
  change (get_int tag_HeartBtInt (m_body lm)) with (st_hb ns). rewrite Ck, Ap. cbn [negb].
  destruct (Z.leb_spec (st_hb ns) 0); [reflexivity|lia].
Qed.

Lemma logon_answer_fields enc hb :
  get_kv tag_EncryptMethod (m_body (logon_answer enc hb)) = Some (VString true enc)
  /\ get_kv tag_HeartBtInt (m_body (logon_answer enc hb)) = Some (VInt true hb)
  /\ mt_of (logon_answer enc hb) = msgtype_Logon.
Proof. repeat split. Qed.

(* the initiator's first message *)
Definition logon_request (st : settings) : message :=
  mk_msg msgtype_Logon
    (set_kv tag_Username (VString true (st_username st))
       (set_kv tag_Password (VString true (st_password st))
          (set_kv tag_HeartBtInt (VInt true (st_hb st))
             (set_kv tag_EncryptMethod (VString true (st_enc st)) tpl_Logon)))).

Lemma logon_request_fields st :
  get_kv tag_EncryptMethod (m_body (logon_request st)) = Some (VString true (st_enc st))
  /\ get_kv tag_HeartBtInt (m_body (logon_request st)) = Some (VInt true (st_hb st))
  /\ get_kv tag_Username (m_body (logon_request st)) = Some (VString true (st_username st))
  /\ get_kv tag_Password (m_body (logon_request st)) = Some (VString true (st_password st))
  /\ mt_of (logon_request st) = msgtype_Logon.
Proof. repeat split. Qed.

Theorem initiator_first_message cfg s :
  c_side cfg = Initiator -> clean cfg s -> save_first s ->
  exists s0, s_settings s0 = s_settings s /\ s_cnt_out s0 = s_cnt_out s /\
    wires (snd (run_session cfg s)) = [fst (prepare (stamped s0 (logon_request (s_settings s))))].
Proof.
  intros Hs Hc Hf. unfold run_session. rewrite Hs.
  set (s0 := upd_state (upd_pools (upd_state s WaitingLogon) (s_in s) (s_out s)
                          (ev_add (s_ev s) EvDisconnect EDisconnectCancel)) WaitingLogonAnswer).
  assert (Hc0 : clean cfg s0) by exact Hc. assert (Hf0 : save_first s0) by exact Hf.
  destruct (session_send_clean cfg s0 (logon_request (s_settings s)) Hc0 Hf0 eq_refl)
    as (sb & calls & E & Fc & _).
  cbv zeta. change (session_send cfg _ _) with (session_send cfg s0 (logon_request (s_settings s))).
  rewrite E. cbn [snd]. exists s0. split; [reflexivity|]. split; [reflexivity|].
  rewrite wires_app. cbn [wires flat_map app].
  assert (Hw : wires calls = []).
  { clear -Fc. induction calls as [|c cs IHc]; [reflexivity|]. inversion Fc; subst.
    destruct c; try contradiction; cbn [wires flat_map app]; apply IHc; assumption. }
  rewrite Hw. reflexivity.
Qed.

(* ---- step level: a step from a not-logged-on state ends logged on only if it is the
   delivery of a Logon that parses, in WaitingLogon under the acceptance conditions or in
   WaitingLogonAnswer ---- *)

(* handlers filed under ALL do not touch the logon state or the settings of a session that is
   not logged on *)
Lemma all_handler_frame cfg s h d s' o b :
  in_ok ALL h -> not_logged s -> run_in_handler cfg s h d = (s', o, b) ->
  s_state s' = s_state s /\ s_settings s' = s_settings s.
Proof.
  intros Ok N H. destruct h; cbn [in_ok] in Ok; try discriminate Ok; cbn [run_in_handler] in H.
  - destruct (_ || _); [inversion H; subst; split; reflexivity|].
    destruct (value_by_tag d tag_MsgSeqNum) as [sb| | |]; try (inversion H; subst; split; reflexivity).
    destruct (atoi sb); [|inversion H; subst; split; reflexivity].
    destruct (value_by_tag d tag_MsgType) as [mt| | |]; try (inversion H; subst; split; reflexivity).
    destruct (c_seqreset cfg && beq mt msgtype_SequenceReset); inversion H; subst; split; reflexivity.
  - destruct (lstate_eqb (s_state s) WaitingTestReqAnswer) eqn:E.
    + exfalso. unfold not_logged, logged_or_probing in N. rewrite E, orb_true_r in N. discriminate.
    + inversion H; subst. split; reflexivity.
  - inversion H; subst. split; reflexivity.
Qed.

Lemma all_chain_frame cfg d hs : forall s s' o,
  Forall (in_ok ALL) hs -> not_logged s -> run_in_handlers cfg s hs d = (s', o) ->
  s_state s' = s_state s /\ s_settings s' = s_settings s.
Proof.
  induction hs as [|h hs IH]; intros s s' o F N H; cbn [run_in_handlers] in H.
  - inversion H; subst. split; reflexivity.
  - inversion F as [|? ? Fh Fhs]; subst.
    destruct (run_in_handler cfg s h d) as [[s1 o1] cont] eqn:E.
    destruct (all_handler_frame _ _ _ _ _ _ _ Fh N E) as (S1 & T1).
    destruct cont.
    + destruct (run_in_handlers cfg s1 hs d) as [s2 o2] eqn:E2. inversion H; subst.
      assert (N1 : not_logged s1) by (eapply not_logged_state; eassumption).
      destruct (IH _ _ _ Fhs N1 E2) as (S2 & T2). split; congruence.
    + inversion H; subst. split; assumption.
Qed.

(* in a chain of handlers, the one that leaves the session logged on is the Logon handler,
   run in a state in which the session was not logged on *)
Lemma chain_logs_on cfg d hs : forall s s' o,
  not_logged s -> run_in_handlers cfg s hs d = (s', o) -> logged_or_probing s' = true ->
  exists s0 s1 o1 b,
    not_logged s0 /\ run_in_handler cfg s0 HLogon d = (s1, o1, b) /\ s_state s1 = SuccessfulLogged.
Proof.
  induction hs as [|h hs IH]; intros s s' o N H L; cbn [run_in_handlers] in H.
  - inversion H; subst. unfold not_logged in N. congruence.
  - destruct (run_in_handler cfg s h d) as [[s1 o1] cont] eqn:E.
    destruct (in_handler_pre_logon _ _ _ _ _ _ _ E N) as [(N1 & _)|(-> & S1 & _)].
    + destruct cont; [|inversion H; subst; unfold not_logged in N1; congruence].
      destruct (run_in_handlers cfg s1 hs d) as [s2 o2] eqn:E2. inversion H; subst.
      eapply IH; eassumption.
    + exists s, s1, o1, cont. split; [exact N|]. split; [exact E|exact S1].
Qed.

Theorem step_logs_on cfg s o s' os :
  not_logged s -> step cfg s o = (s', os) -> logged_or_probing s' = true ->
  exists d, o = Inbound d /\
    exists s0 lm, not_logged s0 /\ parse_as msgtype_Logon tpl_Logon d = Ok lm /\
      ((s_state s0 = WaitingLogon /\ acceptable cfg s0 lm) \/ s_state s0 = WaitingLogonAnswer).
Proof.
  intros N H L. destruct o; cbn [step] in H.
  - exists data. split; [reflexivity|]. unfold serve in H.
    destruct (value_by_tag data tag_MsgType) as [mt| | |];
      try (inversion H; subst; unfold not_logged in N; congruence).
    destruct (run_in_handlers cfg s (pool_get (s_in s) ALL) data) as [s1 o1] eqn:E1.
    destruct (run_in_handlers cfg s1 (pool_get (s_in s1) mt) data) as [s2 o2] eqn:E2. inversion H; subst.
    assert (Hx : exists s0 sa oa b, not_logged s0 /\ run_in_handler cfg s0 HLogon data = (sa, oa, b)
                                    /\ s_state sa = SuccessfulLogged).
    { destruct (logged_or_probing s1) eqn:L1.
      - eapply chain_logs_on; [exact N|exact E1|exact L1].
      - eapply chain_logs_on; [exact L1|exact E2|exact L]. }
    destruct Hx as (s0 & sa & oa & b & N0 & E0 & S0).
    destruct (logon_handler_accepts _ _ _ _ _ _ E0 N0 S0) as (lm & P & [(W & A & _)|W]).
    + exists s0, lm. split; [exact N0|]. split; [exact P|]. left. split; assumption.
    + exists s0, lm. split; [exact N0|]. split; [exact P|]. right. exact W.
  - exfalso. destruct (session_send_spec _ _ _ _ _ H) as (_ & (C & _) & _).
    unfold not_logged, logged_or_probing in *. rewrite C in L. congruence.
  - exfalso. unfold do_logout in H.
    destruct (change_state s WaitingLogoutAnswer) as [s1 o1] eqn:E1.
    destruct (session_send cfg s1 _) as [s2 o2] eqn:E2. inversion H; subst.
    destruct (change_state_spec _ _ _ _ E1) as (_ & S1 & _).
    destruct (session_send_spec _ _ _ _ _ E2) as (_ & (C & _) & _).
    unfold logged_or_probing in L. rewrite C, S1 in L. discriminate.
  - exfalso. unfold do_logout in H.
    destruct (change_state _ WaitingLogoutAnswer) as [s1 o1] eqn:E1.
    destruct (session_send cfg s1 _) as [s2 o2] eqn:E2. inversion H; subst.
    destruct (change_state_spec _ _ _ _ E1) as (_ & S1 & _).
    destruct (session_send_spec _ _ _ _ _ E2) as (_ & (C & _) & _).
    unfold logged_or_probing in L. rewrite C, S1 in L. discriminate.
  - exfalso. inversion H; subst. unfold not_logged, logged_or_probing in *. cbn in *. congruence.
  - exfalso. inversion H; subst. unfold not_logged, logged_or_probing in *. cbn in *. congruence.
  - exfalso. inversion H; subst. unfold not_logged, logged_or_probing in *. cbn in *. congruence.
  - exfalso. inversion H; subst. unfold not_logged, logged_or_probing in *. cbn in *. congruence.
  - exfalso. unfold not_logged in N.
    destruct (negb (timer_live s g) || s_intimer_done s); [inversion H; subst; congruence|].
    rewrite N in H. cbn [negb] in H. inversion H; subst. congruence.
  - exfalso. unfold not_logged in N.
    destruct (negb (timer_live s g)); [inversion H; subst; congruence|].
    rewrite N in H. cbn [negb] in H. inversion H; subst. congruence.
Qed.

(* histories: if a session that starts not logged on is logged on (or probing) after a history,
   some operation of that history delivered an acceptable Logon *)
Theorem history_logged_implies_logon cfg ops : forall s,
  not_logged s -> logged_or_probing (fst (run_ops cfg s ops)) = true ->
  exists d s0 lm, In (Inbound d) ops /\ not_logged s0 /\ parse_as msgtype_Logon tpl_Logon d = Ok lm /\
    ((s_state s0 = WaitingLogon /\ acceptable cfg s0 lm) \/ s_state s0 = WaitingLogonAnswer).
Proof.
  induction ops as [|o r IH]; intros s N L; cbn [run_ops] in L.
  - cbn in L. unfold not_logged in N. congruence.
  - destruct (step cfg s o) as [s1 o1] eqn:E. destruct (run_ops cfg s1 r) as [s2 os] eqn:E2. cbn [fst] in L.
    destruct (logged_or_probing s1) eqn:L1.
    + destruct (step_logs_on _ _ _ _ _ N E L1) as (d & -> & s0 & lm & N0 & P & Hc).
      exists d, s0, lm. split; [left; reflexivity|]. split; [exact N0|]. split; [exact P|exact Hc].
    + assert (L2 : logged_or_probing (fst (run_ops cfg s1 r)) = true) by (rewrite E2; exact L).
      destruct (IH s1 L1 L2) as (d & s0 & lm & Hin & R). exists d, s0, lm. split; [right; exact Hin|exact R].
Qed.

(* with limits whose lower bound is positive (NewAcceptorSession refuses a bound of 0, so this is every
   configuration but those with a negative lower bound) an interval within the limits is positive:
   the unstartable case cannot arise and [acceptable] is exactly method, limits and approval *)
Lemma positive_limits_startable cfg s enc hb lo hi :
  st_limits (s_settings s) = Some (lo, hi) -> (0 < lo)%Z ->
  check_logon_params cfg s enc hb = None -> (0 < hb)%Z.
Proof.
  intros L Hlo Ck. destruct (check_params_none _ _ _ _ Ck) as (_ & A). rewrite L in A. lia.
Qed.
