(* Session.v -- the session state machine of session/session.go together with the
   handler pools of handler.go / handler_func_pool.go, the event pool of
   utils/event_handler_pool.go and the memory store of storages/memory/storage.go,
   as one sequential step function over operations.  Messages are built from the
   templates transcribed from the XML (gen/Schema.v) and inbound bytes go through
   the codec model (Parse.v). *)
From SF Require Export Parse.
From SF Require Export Schema.
Open Scope N_scope.

Inductive lstate :=
| WaitingLogon | SuccessfulLogged | WaitingLogonAnswer | WaitingLogoutAnswer
| ReceivedLogoutAnswer | WaitingTestReqAnswer | Disconnect.

Definition lstate_eqb (a b : lstate) : bool :=
  match a, b with
  | WaitingLogon, WaitingLogon | SuccessfulLogged, SuccessfulLogged
  | WaitingLogonAnswer, WaitingLogonAnswer | WaitingLogoutAnswer, WaitingLogoutAnswer
  | ReceivedLogoutAnswer, ReceivedLogoutAnswer | WaitingTestReqAnswer, WaitingTestReqAnswer
  | Disconnect, Disconnect => true
  | _, _ => false
  end.

Inductive side := Acceptor | Initiator.

Record settings := {
  st_target : bytes;
  st_sender : bytes;
  st_hb : Z;
  st_enc : bytes;
  st_password : bytes;
  st_username : bytes;
  st_reset : bool;
  st_limits : option (Z * Z)
}.

Inductive event := EvDisconnect | EvConnect | EvStopped | EvLogon | EvRequest | EvLogout.

Definition event_eqb (a b : event) : bool :=
  match a, b with
  | EvDisconnect, EvDisconnect | EvConnect, EvConnect | EvStopped, EvStopped
  | EvLogon, EvLogon | EvRequest, EvRequest | EvLogout, EvLogout => true
  | _, _ => false
  end.

(* handlers are closures in Go; here they are named *)
Inductive in_handler :=
| HStoreSeq                 (* setStorageCallbacks: record the inbound sequence number *)
| HResend                   (* setStorageCallbacks: ResendRequest *)
| HLogon | HLogout | HHeartbeat | HTestRequest   (* Run *)
| HTimerRefresh (gen : nat) (* start: refresh the inbound timer, leave WaitingTestReqAnswer *)
| HApp (id : nat) (accept : bool).  (* application handler with a scripted verdict *)

Inductive out_handler :=
| OSaveH                    (* setStorageCallbacks: store before send *)
| OTimerRefresh (gen : nat) (* start: refresh the outbound timer *)
| OApp (id : nat) (accept : bool) (amend : bool).  (* amend: the handler rewrites TargetCompID *)

Inductive ev_handler :=
| EDisconnectCancel         (* Run: cancel the session, stop the handler *)
| ELogonStart               (* Run (initiator): start the timers on logon *)
| EStopLogout               (* Stop: cancel on the peer's Logout answer *)
| EApp (id : nat) (continue : bool).

Definition pool (H : Type) := list (bytes * list H).

Fixpoint pool_get {H} (p : pool H) (k : bytes) : list H :=
  match p with
  | [] => []
  | (k', hs) :: r => if beq k k' then hs else pool_get r k
  end.

Fixpoint pool_add {H} (p : pool H) (k : bytes) (h : H) : pool H :=
  match p with
  | [] => [(k, [h])]
  | (k', hs) :: r => if beq k k' then (k', hs ++ [h]) :: r else (k', hs) :: pool_add r k h
  end.

Definition ALL : bytes := [65; 76; 76].

Record config := {
  c_side : side;
  c_allowed : list bytes;              (* AllowedEncryptedMethods *)
  c_approve : settings -> bool;        (* the application's logon callback *)
  c_fail_saves : list nat;             (* 0-based indices of MessageStorage.Save calls that fail *)
  c_seqreset : bool;                   (* Opts.MessageBuilders.SequenceResetBuilder is configured *)
  c_settings : settings                (* initial LogonSettings *)
}.

Record sstate := {
  s_state : lstate;
  s_settings : settings;
  s_cnt_in : Z;                        (* Storage.counterIncoming *)
  s_cnt_out : Z;                       (* Storage.counterOutgoing *)
  s_store : list (Z * message);        (* Storage.messages, newest first *)
  s_in : pool in_handler;
  s_out : pool out_handler;
  s_ev : list (event * list ev_handler);
  s_gen : nat;                         (* number of start() calls so far *)
  s_timers_on : bool;                  (* cancelTimers is set: the current generation is live *)
  s_testreq : Z;                       (* testReqCounter of the current generation *)
  s_intimer_done : bool;               (* the inbound timer goroutine of this generation returned *)
  s_cancelled : bool;                  (* session context cancelled *)
  s_router_stopped : bool;             (* Router.Stop() called *)
  s_saves : nat                        (* number of Save calls so far *)
}.

Inductive out :=
| OWire (m : message)                  (* handed to the outgoing channel; the bytes are to_bytes m *)
| OEvent (e : event)
| OSave (seq : Z) (ok : bool)
| OAppIn (id : nat)
| OAppOut (id : nat) (seq : Z)
| OAppEv (id : nat)
| OSendErr
| OServeErr.

(* ---- record updates ---- *)

Definition upd_state (s : sstate) (x : lstate) : sstate :=
  {| s_state := x; s_settings := s_settings s; s_cnt_in := s_cnt_in s; s_cnt_out := s_cnt_out s;
     s_store := s_store s; s_in := s_in s; s_out := s_out s; s_ev := s_ev s; s_gen := s_gen s;
     s_timers_on := s_timers_on s; s_testreq := s_testreq s; s_intimer_done := s_intimer_done s;
     s_cancelled := s_cancelled s; s_router_stopped := s_router_stopped s; s_saves := s_saves s |}.

Definition upd_settings (s : sstate) (x : settings) : sstate :=
  {| s_state := s_state s; s_settings := x; s_cnt_in := s_cnt_in s; s_cnt_out := s_cnt_out s;
     s_store := s_store s; s_in := s_in s; s_out := s_out s; s_ev := s_ev s; s_gen := s_gen s;
     s_timers_on := s_timers_on s; s_testreq := s_testreq s; s_intimer_done := s_intimer_done s;
     s_cancelled := s_cancelled s; s_router_stopped := s_router_stopped s; s_saves := s_saves s |}.

Definition upd_cnt_in (s : sstate) (x : Z) : sstate :=
  {| s_state := s_state s; s_settings := s_settings s; s_cnt_in := x; s_cnt_out := s_cnt_out s;
     s_store := s_store s; s_in := s_in s; s_out := s_out s; s_ev := s_ev s; s_gen := s_gen s;
     s_timers_on := s_timers_on s; s_testreq := s_testreq s; s_intimer_done := s_intimer_done s;
     s_cancelled := s_cancelled s; s_router_stopped := s_router_stopped s; s_saves := s_saves s |}.

Definition upd_cnt_out (s : sstate) (x : Z) : sstate :=
  {| s_state := s_state s; s_settings := s_settings s; s_cnt_in := s_cnt_in s; s_cnt_out := x;
     s_store := s_store s; s_in := s_in s; s_out := s_out s; s_ev := s_ev s; s_gen := s_gen s;
     s_timers_on := s_timers_on s; s_testreq := s_testreq s; s_intimer_done := s_intimer_done s;
     s_cancelled := s_cancelled s; s_router_stopped := s_router_stopped s; s_saves := s_saves s |}.

Definition upd_store (s : sstate) (x : list (Z * message)) (n : nat) : sstate :=
  {| s_state := s_state s; s_settings := s_settings s; s_cnt_in := s_cnt_in s; s_cnt_out := s_cnt_out s;
     s_store := x; s_in := s_in s; s_out := s_out s; s_ev := s_ev s; s_gen := s_gen s;
     s_timers_on := s_timers_on s; s_testreq := s_testreq s; s_intimer_done := s_intimer_done s;
     s_cancelled := s_cancelled s; s_router_stopped := s_router_stopped s; s_saves := n |}.

Definition upd_pools (s : sstate) (pi : pool in_handler) (po : pool out_handler)
           (pe : list (event * list ev_handler)) : sstate :=
  {| s_state := s_state s; s_settings := s_settings s; s_cnt_in := s_cnt_in s; s_cnt_out := s_cnt_out s;
     s_store := s_store s; s_in := pi; s_out := po; s_ev := pe; s_gen := s_gen s;
     s_timers_on := s_timers_on s; s_testreq := s_testreq s; s_intimer_done := s_intimer_done s;
     s_cancelled := s_cancelled s; s_router_stopped := s_router_stopped s; s_saves := s_saves s |}.

Definition upd_timers (s : sstate) (g : nat) (on : bool) (tr : Z) (done : bool) : sstate :=
  {| s_state := s_state s; s_settings := s_settings s; s_cnt_in := s_cnt_in s; s_cnt_out := s_cnt_out s;
     s_store := s_store s; s_in := s_in s; s_out := s_out s; s_ev := s_ev s; s_gen := g;
     s_timers_on := on; s_testreq := tr; s_intimer_done := done;
     s_cancelled := s_cancelled s; s_router_stopped := s_router_stopped s; s_saves := s_saves s |}.

Definition upd_cancel (s : sstate) (c r : bool) : sstate :=
  {| s_state := s_state s; s_settings := s_settings s; s_cnt_in := s_cnt_in s; s_cnt_out := s_cnt_out s;
     s_store := s_store s; s_in := s_in s; s_out := s_out s; s_ev := s_ev s; s_gen := s_gen s;
     s_timers_on := s_timers_on s; s_testreq := s_testreq s; s_intimer_done := s_intimer_done s;
     s_cancelled := c; s_router_stopped := r; s_saves := s_saves s |}.

(* ---- messages ---- *)

(* generated setter on a component: Get(i) as a KeyValue, then Load().Set(x); addressed
   here by the field's tag, which is what the generated index stands for *)
Fixpoint set_kv (tag : bytes) (v : value) (l : list item) : list item :=
  match l with
  | [] => []
  | IKV t old :: r => if beq t tag then IKV t v :: r else IKV t old :: set_kv tag v r
  | it :: r => it :: set_kv tag v r
  end.

Fixpoint get_kv (tag : bytes) (l : list item) : option value :=
  match l with
  | [] => None
  | IKV t v :: r => if beq t tag then Some v else get_kv tag r
  | _ :: r => get_kv tag r
  end.

(* Value() of a String / Int / Bool field through the generated typed getter *)
Definition get_string (tag : bytes) (l : list item) : bytes :=
  match get_kv tag l with Some (VString _ s) => s | _ => [] end.
Definition get_int (tag : bytes) (l : list item) : Z :=
  match get_kv tag l with Some (VInt _ z) => z | _ => 0%Z end.
Definition get_bool (tag : bytes) (l : list item) : bool :=
  match get_kv tag l with Some (VBool _ b) => b | _ => false end.

(* make<Type>(): a fresh message of a type *)
Definition mk_msg (mt : bytes) (body : list item) : message :=
  {| m_bs_tag := tag_BeginString; m_bl_tag := tag_BodyLength; m_cs_tag := tag_CheckSum;
     m_mt_tag := tag_MsgType; m_bs := VString true schema_begin_string; m_bl := VInt false 0%Z;
     m_mt := VString true mt; m_cs := VString false [];
     m_header := tpl_Header; m_body := body; m_trailer := tpl_Trailer |}.

Definition with_body (m : message) (b : list item) : message :=
  {| m_bs_tag := m_bs_tag m; m_bl_tag := m_bl_tag m; m_cs_tag := m_cs_tag m; m_mt_tag := m_mt_tag m;
     m_bs := m_bs m; m_bl := m_bl m; m_mt := m_mt m; m_cs := m_cs m;
     m_header := m_header m; m_body := b; m_trailer := m_trailer m |}.

Definition with_header (m : message) (h : list item) : message :=
  {| m_bs_tag := m_bs_tag m; m_bl_tag := m_bl_tag m; m_cs_tag := m_cs_tag m; m_mt_tag := m_mt_tag m;
     m_bs := m_bs m; m_bl := m_bl m; m_mt := m_mt m; m_cs := m_cs m;
     m_header := h; m_body := m_body m; m_trailer := m_trailer m |}.

Definition mt_of (m : message) : bytes := string_val (m_mt m).

(* the placeholder standing for time.Now().Format(TimeLayout): 21 bytes of that layout *)
Definition sending_time_placeholder : bytes :=
  [48;48;48;48;48;48;48;48;45;48;48;58;48;48;58;48;48;46;48;48;48].

Definition no_oracle : oracle := {| float_ok := fun _ => false; time_canon := fun _ => None |}.

Definition parse_as (mt : bytes) (tpl : list item) (data : bytes) : result message :=
  unmarshal no_oracle (mk_msg mt tpl) data.

Definition mk_reject (reason tag seq : Z) : message :=
  let b := set_kv tag_RefSeqNum (VInt true seq) tpl_Reject in
  let b := set_kv tag_SessionRejectReason (VString true (itoa reason)) b in
  let b := if Z.eqb tag 0 then b else set_kv tag_RefTagID (VInt true tag) b in
  mk_msg msgtype_Reject b.

(* ---- the machine ---- *)

Definition is_logged (s : sstate) : bool := lstate_eqb (s_state s) SuccessfulLogged.

Definition logged_or_probing (s : sstate) : bool :=
  lstate_eqb (s_state s) SuccessfulLogged || lstate_eqb (s_state s) WaitingTestReqAnswer.

Fixpoint ev_get (p : list (event * list ev_handler)) (e : event) : list ev_handler :=
  match p with
  | [] => []
  | (e', hs) :: r => if event_eqb e e' then hs else ev_get r e
  end.

Fixpoint ev_add (p : list (event * list ev_handler)) (e : event) (h : ev_handler)
  : list (event * list ev_handler) :=
  match p with
  | [] => [(e, [h])]
  | (e', hs) :: r => if event_eqb e e' then (e', hs ++ [h]) :: r else (e', hs) :: ev_add r e h
  end.

(* Storage.Messages(from, to) *)
Fixpoint store_get (st : list (Z * message)) (k : Z) : option message :=
  match st with
  | [] => None
  | (k', m) :: r => if Z.eqb k k' then Some m else store_get r k
  end.

Fixpoint store_range (st : list (Z * message)) (from : Z) (n : nat) : option (list message) :=
  match n with
  | O => Some []
  | S n' =>
      match store_get st from with
      | None => None
      | Some m =>
          match store_range st (from + 1)%Z n' with
          | Some l => Some (m :: l)
          | None => None
          end
      end
  end.

Definition store_messages (s : sstate) (from to : Z) : option (list message) :=
  if Z.ltb to from then None                       (* ErrInvalidBoundaries *)
  else if Z.ltb (s_cnt_out s) to then None         (* ErrNotEnoughMessages *)
  else store_range (s_store s) from (Z.to_nat (to - from + 1)).

(* what an amending application handler does to the message it is shown *)
Definition amend_msg (id : nat) (m : message) : message :=
  with_header m (set_kv tag_TargetCompID (VString true ([97;109;100] ++ utoa (N.of_nat id))) (m_header m)).

(* the store keeps the message object itself (a pointer in Go): what a later handler changes in
   the message is changed in the stored message too *)
Fixpoint store_alias (st : list (Z * message)) (k : Z) (m : message) : list (Z * message) :=
  match st with
  | [] => []
  | (k', m') :: r => if Z.eqb k k' then (k', m) :: r else (k', m') :: store_alias r k m
  end.

(* DefaultHandler.send: outgoing ALL handlers, type handlers, ToBytes, enqueue *)
Fixpoint run_out_handlers (cfg : config) (s : sstate) (m : message) (hs : list out_handler)
  : sstate * list out * bool * message :=
  match hs with
  | [] => (s, [], true, m)
  | h :: r =>
      match h with
      | OSaveH =>
          let seq := get_int tag_MsgSeqNum (m_header m) in
          let fails := existsb (Nat.eqb (s_saves s)) (c_fail_saves cfg) in
          if fails then (upd_store s (s_store s) (S (s_saves s)), [OSave seq false], false, m)
          else
            let s' := upd_store s ((seq, m) :: s_store s) (S (s_saves s)) in
            let '(s'', o, ok, m') := run_out_handlers cfg s' m r in
            (s'', OSave seq true :: o, ok, m')
      | OTimerRefresh _ => run_out_handlers cfg s m r
      | OApp id accept amend =>
          let seq := get_int tag_MsgSeqNum (m_header m) in
          if accept then
            let m1 := if amend then amend_msg id m else m in
            let s1 := if amend then upd_store s (store_alias (s_store s) seq m1) (s_saves s) else s in
            let '(s', o, ok, m') := run_out_handlers cfg s1 m1 r in (s', OAppOut id seq :: o, ok, m')
          else (s, [OAppOut id seq], false, m)
      end
  end.

Definition router_send (cfg : config) (s : sstate) (m : message) : sstate * list out * bool :=
  let '(s1, o1, ok1, m1) := run_out_handlers cfg s m (pool_get (s_out s) ALL) in
  if negb ok1 then (s1, o1 ++ [OSendErr], false) else
  let '(s2, o2, ok2, m2) := run_out_handlers cfg s1 m1 (pool_get (s_out s1) (mt_of m1)) in
  if negb ok2 then (s2, o1 ++ o2 ++ [OSendErr], false) else
  if s_router_stopped s2 then (s2, o1 ++ o2 ++ [OSendErr], false)
  else (s2, o1 ++ o2 ++ [OWire (fst (prepare m2))], true).

(* Session.send: number, stamp, Router.Send *)
Definition session_send (cfg : config) (s : sstate) (m : message) : sstate * list out :=
  let seq := (s_cnt_out s + 1)%Z in
  let s1 := upd_cnt_out s seq in
  let st := s_settings s in
  let h := set_kv tag_MsgSeqNum (VInt true seq) (m_header m) in
  let h := set_kv tag_TargetCompID (VString true (st_target st)) h in
  let h := set_kv tag_SenderCompID (VString true (st_sender st)) h in
  let h := set_kv tag_SendingTime (VString true sending_time_placeholder) h in
  let '(s2, o, _) := router_send cfg s1 (with_header m h) in
  (s2, o).

(* SendBatch: each stored message through DefaultHandler.send, stopping at the first error *)
Fixpoint send_batch (cfg : config) (s : sstate) (ms : list message) : sstate * list out :=
  match ms with
  | [] => (s, [])
  | m :: r =>
      let '(s1, o1, ok) := router_send cfg s m in
      if ok then let '(s2, o2) := send_batch cfg s1 r in (s2, o1 ++ o2) else (s1, o1)
  end.

(* the error of SendBatch is discarded by the ResendRequest handler *)
Definition is_send_err (o : out) : bool := match o with OSendErr => true | _ => false end.
Definition drop_err (l : list out) : list out := filter (fun o => negb (is_send_err o)) l.

(* EventHandlerPool.Trigger *)
Definition stop_timers (s : sstate) : sstate :=
  upd_timers s (s_gen s) false (s_testreq s) (s_intimer_done s).

(* Session.start: a new timer generation; its two ALL handlers are registered *)
Definition start_timers (s : sstate) : sstate :=
  let g := S (s_gen s) in
  let s1 := upd_timers s g true 0%Z false in
  upd_pools s1 (pool_add (s_in s1) ALL (HTimerRefresh g)) (pool_add (s_out s1) ALL (OTimerRefresh g)) (s_ev s1).

Fixpoint run_ev_handlers (s : sstate) (hs : list ev_handler) : sstate * list out :=
  match hs with
  | [] => (s, [])
  | h :: r =>
      match h with
      | EDisconnectCancel =>
          let '(s', o) := run_ev_handlers (upd_cancel s true true) r in (s', o)
      | ELogonStart =>
          let '(s', o) := run_ev_handlers (start_timers s) r in (s', o)
      | EStopLogout =>
          let '(s', o) := run_ev_handlers (upd_cancel s true (s_router_stopped s)) r in (s', o)
      | EApp id cont =>
          if cont then let '(s', o) := run_ev_handlers s r in (s', OAppEv id :: o)
          else (s, [OAppEv id])
      end
  end.

Definition event_of_state (x : lstate) : option event :=
  match x with
  | SuccessfulLogged => Some EvLogon
  | WaitingLogoutAnswer => Some EvRequest
  | ReceivedLogoutAnswer => Some EvLogout
  | Disconnect => Some EvDisconnect
  | _ => None
  end.

(* Session.changeState(state, true) *)
Definition change_state (s : sstate) (x : lstate) : sstate * list out :=
  let s1 := upd_state s x in
  match event_of_state x with
  | None => (s1, [])
  | Some e => let '(s2, o) := run_ev_handlers s1 (ev_get (s_ev s1) e) in (s2, OEvent e :: o)
  end.

(* Session.RejectMessage *)
Definition reject_message (cfg : config) (s : sstate) (data : bytes) : sstate * list out :=
  let r := mk_reject reject_other 0%Z 0%Z in
  match value_by_tag data tag_MsgSeqNum with
  | Ok sb =>
      match atoi sb with
      | Some seq => session_send cfg s (with_body r (set_kv tag_RefSeqNum (VInt true seq) (m_body r)))
      | None =>
          let b := set_kv tag_SessionRejectReason (VString true (itoa 5)) (m_body r) in
          let b := set_kv tag_RefTagID (VInt true tagnum_MsgSeqNum) b in
          session_send cfg s (with_body r b)
      end
  | _ => session_send cfg s (with_body r (set_kv tag_RefTagID (VInt true tagnum_MsgSeqNum) (m_body r)))
  end.

(* Session.processIncSeq *)
Definition process_inc_seq (cfg : config) (s : sstate) (inc_seq : Z) : sstate * list out :=
  let cur := s_cnt_in s in
  let '(s1, o) :=
    if Z.ltb (cur + 1) inc_seq then
      let b := set_kv tag_BeginSeqNo (VInt true (cur + 1)) tpl_ResendRequest in
      let b := set_kv tag_EndSeqNo (VInt true 0) b in
      session_send cfg s (mk_msg msgtype_ResendRequest b)
    else (s, []) in
  (upd_cnt_in s1 inc_seq, o).

Definition check_logon_params (cfg : config) (s : sstate) (enc : bytes) (hb : Z) : option Z :=
  (* Some tag = refused, naming the offending tag *)
  if negb (existsb (beq enc) (c_allowed cfg)) then Some tagnum_EncryptMethod
  else match st_limits (s_settings s) with
       | None => None
       | Some (lo, hi) => if Z.ltb hb lo || Z.ltb hi hb then Some tagnum_HeartBtInt else None
       end.

Definition state_after_logout (cfg : config) : lstate :=
  match c_side cfg with Initiator => WaitingLogonAnswer | Acceptor => WaitingLogon end.

(* one incoming handler; the boolean is the handler's verdict (false stops the Range) *)
Definition run_in_handler (cfg : config) (s : sstate) (h : in_handler) (data : bytes)
  : sstate * list out * bool :=
  match h with
  | HApp id accept => (s, [OAppIn id], accept)
  | HTimerRefresh _ =>
      if lstate_eqb (s_state s) WaitingTestReqAnswer then (upd_state s SuccessfulLogged, [], true)
      else (s, [], true)
  | HStoreSeq =>
      if lstate_eqb (s_state s) WaitingLogonAnswer || lstate_eqb (s_state s) WaitingLogon then (s, [], true)
      else
        match value_by_tag data tag_MsgSeqNum with
        | Ok sb =>
            match atoi sb with
            | Some seq =>
                match value_by_tag data tag_MsgType with
                | Ok mt =>
                    (* a SequenceReset announces the next number, it has none of its own to record
                       (only when the optional builder tells the session what a SequenceReset is) *)
                    if c_seqreset cfg && beq mt msgtype_SequenceReset then (s, [], true)
                    else (upd_cnt_in s seq, [], true)
                | _ => (s, [], true)
                end
            | None => (s, [], true)
            end
        | _ => (s, [], true)
        end
  | HResend =>
      match parse_as msgtype_ResendRequest tpl_ResendRequest data with
      | Ok rm =>
          if negb (is_logged s) then let '(s', o) := reject_message cfg s data in (s', o, true) else
          let from := get_int tag_BeginSeqNo (m_body rm) in
          let to0 := get_int tag_EndSeqNo (m_body rm) in
          let to := if Z.eqb to0 0 then s_cnt_out s else to0 in
          match store_messages s from to with
          | Some ms => let '(s', o) := send_batch cfg s ms in (s', drop_err o, true)
          | None => (s, [], true)
          end
      | _ => let '(s', o) := reject_message cfg s data in (s', o, true)
      end
  | HLogon =>
      match parse_as msgtype_Logon tpl_Logon data with
      | Ok lm =>
          let seq := get_int tag_MsgSeqNum (m_header lm) in
          match s_state s with
          | WaitingLogon =>
              let old := s_settings s in
              let t := get_string tag_TargetCompID (m_header lm) in
              let sd := get_string tag_SenderCompID (m_header lm) in
              let enc := get_string tag_EncryptMethod (m_body lm) in
              let hb := get_int tag_HeartBtInt (m_body lm) in
              let ns := {| st_target := match c_side cfg with Acceptor => sd | Initiator => t end;
                           st_sender := match c_side cfg with Acceptor => t | Initiator => sd end;
                           st_hb := hb; st_enc := enc;
                           st_password := get_string tag_Password (m_body lm);
                           st_username := get_string tag_Username (m_body lm);
                           st_reset := get_bool tag_ResetSeqNumFlag (m_body lm);
                           st_limits := st_limits old |} in
              let s1 := upd_settings s ns in
              match check_logon_params cfg s1 enc hb with
              | Some tag =>
                  let '(s2, o) := session_send cfg s1 (mk_reject reject_incorrect_value tag seq) in (s2, o, true)
              | None =>
                  if negb (c_approve cfg ns) then
                    let '(s2, o) := session_send cfg s1 (mk_reject reject_other 0%Z seq) in (s2, o, true)
                  else if Z.leb hb 0 then
                    (* Session.start fails: a timer needs a positive duration (reachable only with
                       heartbeat limits that admit a non-positive interval) *)
                    let '(s2, o) := session_send cfg s1 (mk_reject reject_incorrect_value tagnum_HeartBtInt seq) in (s2, o, true)
                  else
                    let s2 := start_timers s1 in
                    let b := set_kv tag_EncryptMethod (VString true enc) tpl_Logon in
                    let b := set_kv tag_HeartBtInt (VInt true hb) b in
                    let '(s3, o3) := change_state s2 SuccessfulLogged in
                    let '(s4, o4) := session_send cfg s3 (mk_msg msgtype_Logon b) in
                    let '(s5, o5) := process_inc_seq cfg s4 seq in
                    (s5, o3 ++ o4 ++ o5, true)
              end
          | WaitingLogonAnswer =>
              let '(s1, o1) := change_state s SuccessfulLogged in
              let '(s2, o2) := process_inc_seq cfg s1 seq in
              (s2, o1 ++ o2, true)
          | SuccessfulLogged =>
              let '(s1, o) := session_send cfg s (mk_reject reject_other 0%Z seq) in (s1, o, true)
          | _ => (s, [], true)
          end
      | _ => let '(s', o) := reject_message cfg s data in (s', o, true)
      end
  | HLogout =>
      match parse_as msgtype_Logout tpl_Logout data with
      | Ok _ =>
          let '(s1, o1) :=
            match s_state s with
            | WaitingLogoutAnswer =>
                let '(sa, oa) := change_state s ReceivedLogoutAnswer in
                let '(sb, ob) := change_state sa WaitingLogon in
                (sb, oa ++ ob)
            | SuccessfulLogged =>
                let '(sa, oa) := change_state s WaitingLogoutAnswer in
                let '(sb, ob) := session_send cfg sa (mk_msg msgtype_Logout tpl_Logout) in
                (sb, oa ++ ob)
            | _ => reject_message cfg s data
            end in
          let s2 := stop_timers s1 in
          let '(s3, o3) := change_state s2 (state_after_logout cfg) in
          (s3, o1 ++ o3, true)
      | _ => let '(s', o) := reject_message cfg s data in (s', o, true)
      end
  | HHeartbeat =>
      match parse_as msgtype_Heartbeat tpl_Heartbeat data with
      | Ok _ =>
          if negb (is_logged s) then let '(s', o) := reject_message cfg s data in (s', o, true)
          else (s, [], true)
      | _ => let '(s', o) := reject_message cfg s data in (s', o, true)
      end
  | HTestRequest =>
      match parse_as msgtype_TestRequest tpl_TestRequest data with
      | Ok tm =>
          if negb (is_logged s) then let '(s', o) := reject_message cfg s data in (s', o, true)
          else
            let id := get_string tag_TestReqID (m_body tm) in
            let b := set_kv tag_TestReqID (VString true id) tpl_Heartbeat in
            let '(s', o) := session_send cfg s (mk_msg msgtype_Heartbeat b) in (s', o, true)
      | _ => let '(s', o) := reject_message cfg s data in (s', o, true)
      end
  end.

(* IncomingHandlerPool.Range over a snapshot of the handlers, early exit on false *)
Fixpoint run_in_handlers (cfg : config) (s : sstate) (hs : list in_handler) (data : bytes)
  : sstate * list out :=
  match hs with
  | [] => (s, [])
  | h :: r =>
      let '(s1, o1, cont) := run_in_handler cfg s h data in
      if cont then let '(s2, o2) := run_in_handlers cfg s1 r data in (s2, o1 ++ o2)
      else (s1, o1)
  end.

(* DefaultHandler.serve *)
Definition serve (cfg : config) (s : sstate) (data : bytes) : sstate * list out :=
  match value_by_tag data tag_MsgType with
  | Ok mt =>
      let '(s1, o1) := run_in_handlers cfg s (pool_get (s_in s) ALL) data in
      let '(s2, o2) := run_in_handlers cfg s1 (pool_get (s_in s1) mt) data in
      (s2, o1 ++ o2)
  | _ => (s, [OServeErr])
  end.

(* ---- operations ---- *)

Inductive app_msg :=
| AppHeartbeat (id : bytes)          (* Heartbeat with TestReqID (empty = none) *)
| AppTestRequest (id : bytes)
| AppReject (mdreqid text : bytes).  (* MarketDataRequestReject with MDReqID and Text *)

Definition tag_MDReqID : bytes := [50; 54; 50].

Definition build_app (a : app_msg) : message :=
  match a with
  | AppHeartbeat id =>
      mk_msg msgtype_Heartbeat
        (match id with [] => tpl_Heartbeat | _ => set_kv tag_TestReqID (VString true id) tpl_Heartbeat end)
  | AppTestRequest id => mk_msg msgtype_TestRequest (set_kv tag_TestReqID (VString true id) tpl_TestRequest)
  | AppReject r t =>
      mk_msg msgtype_MarketDataRequestReject
        (set_kv tag_Text (VString true t) (set_kv tag_MDReqID (VString true r) tpl_MarketDataRequestReject))
  end.

Inductive op :=
| Inbound (data : bytes)                           (* one message delivered by the connection *)
| AppSend (a : app_msg)                            (* Session.Send from the application *)
| AppLogout                                        (* Session.Logout *)
| AppStop                                          (* Session.Stop *)
| CloseDeadline                                    (* the close timeout of a Stop elapses *)
| RegIn (mt : bytes) (id : nat) (accept : bool)    (* HandleIncoming *)
| RegOut (mt : bytes) (id : nat) (accept amend : bool)   (* HandleOutgoing *)
| RegEv (e : event) (id : nat) (cont : bool)       (* OnChangeState *)
| InTimerFire (g : nat)                            (* the inbound timer of generation g expires *)
| OutTimerFire (g : nat).                          (* the outbound timer of generation g expires *)

Definition do_logout (cfg : config) (s : sstate) : sstate * list out :=
  let '(s1, o1) := change_state s WaitingLogoutAnswer in
  let '(s2, o2) := session_send cfg s1 (mk_msg msgtype_Logout tpl_Logout) in
  (s2, o1 ++ o2).

Definition timer_live (s : sstate) (g : nat) : bool :=
  Nat.eqb g (s_gen s) && s_timers_on s && negb (s_cancelled s).

Definition step (cfg : config) (s : sstate) (o : op) : sstate * list out :=
  match o with
  | Inbound data => serve cfg s data
  | AppSend a => session_send cfg s (build_app a)
  | AppLogout => do_logout cfg s
  | AppStop =>
      let s1 := upd_pools s (s_in s) (s_out s) (ev_add (s_ev s) EvLogout EStopLogout) in
      do_logout cfg s1
  | CloseDeadline => (upd_cancel s true (s_router_stopped s), [])
  | RegIn mt id a => (upd_pools s (pool_add (s_in s) mt (HApp id a)) (s_out s) (s_ev s), [])
  | RegOut mt id a am => (upd_pools s (s_in s) (pool_add (s_out s) mt (OApp id a am)) (s_ev s), [])
  | RegEv e id c => (upd_pools s (s_in s) (s_out s) (ev_add (s_ev s) e (EApp id c)), [])
  | InTimerFire g =>
      if negb (timer_live s g) || s_intimer_done s then (s, [])
      else if negb (logged_or_probing s) then (s, [])
      else if lstate_eqb (s_state s) WaitingTestReqAnswer then
             let '(s1, o1) := change_state s Disconnect in
             (upd_timers s1 (s_gen s1) (s_timers_on s1) (s_testreq s1) true, o1)
           else
             let n := (s_testreq s + 1)%Z in
             let s1 := upd_timers s (s_gen s) (s_timers_on s) n false in
             let b := set_kv tag_TestReqID (VString true (itoa n)) tpl_TestRequest in
             let '(s2, o2) := change_state s1 WaitingTestReqAnswer in
             let '(s3, o3) := session_send cfg s2 (mk_msg msgtype_TestRequest b) in
             (s3, o2 ++ o3)
  | OutTimerFire g =>
      if negb (timer_live s g) then (s, [])
      else if negb (logged_or_probing s) then (s, [])
      else session_send cfg s (mk_msg msgtype_Heartbeat tpl_Heartbeat)
  end.

(* NewAcceptorSession / NewInitiatorSession followed by Session.Run *)
Definition init_state (cfg : config) (cnt_in cnt_out : Z) (store : list (Z * message)) : sstate :=
  {| s_state := WaitingLogon; s_settings := c_settings cfg; s_cnt_in := cnt_in; s_cnt_out := cnt_out;
     s_store := store;
     s_in := [(ALL, [HStoreSeq]); (msgtype_ResendRequest, [HResend])];
     s_out := [(ALL, [OSaveH])];
     s_ev := []; s_gen := 0%nat; s_timers_on := false; s_testreq := 0%Z; s_intimer_done := false;
     s_cancelled := false; s_router_stopped := false; s_saves := 0%nat |}.

(* Session.Run, given handlers the application registered between construction and Run *)
Definition run_session (cfg : config) (s : sstate) : sstate * list out :=
  let s0 := upd_state s WaitingLogon in
  let s1 := upd_pools s0 (s_in s0) (s_out s0) (ev_add (s_ev s0) EvDisconnect EDisconnectCancel) in
  let '(s2, o2) :=
    match c_side cfg with
    | Acceptor => (s1, [])
    | Initiator =>
        (* LogonRequest *)
        let sa := upd_state s1 WaitingLogonAnswer in
        let st := s_settings sa in
        let b := set_kv tag_EncryptMethod (VString true (st_enc st)) tpl_Logon in
        let b := set_kv tag_HeartBtInt (VInt true (st_hb st)) b in
        let b := set_kv tag_Password (VString true (st_password st)) b in
        let b := set_kv tag_Username (VString true (st_username st)) b in
        let '(sb, ob) := session_send cfg sa (mk_msg msgtype_Logon b) in
        (upd_pools sb (s_in sb) (s_out sb) (ev_add (s_ev sb) EvLogon ELogonStart), ob)
    end in
  let pin := pool_add (s_in s2) msgtype_Logon HLogon in
  let pin := pool_add pin msgtype_Logout HLogout in
  let pin := pool_add pin msgtype_Heartbeat HHeartbeat in
  let pin := pool_add pin msgtype_TestRequest HTestRequest in
  (upd_pools s2 pin (s_out s2) (s_ev s2), o2).

(* a whole history *)
Fixpoint run_ops (cfg : config) (s : sstate) (ops : list op) : sstate * list (list out) :=
  match ops with
  | [] => (s, [])
  | o :: r =>
      let '(s1, o1) := step cfg s o in
      let '(s2, os) := run_ops cfg s1 r in
      (s2, o1 :: os)
  end.
