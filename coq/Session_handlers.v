(* Session_handlers.v -- what each of the session's own handlers does with one inbound
   message (C06, C10, C14, C15, C16), and how messages are dispatched to handlers (C19). *)
From SF Require Import Bytes Values Wire Parse Session Bytes_proofs Session_proofs Session_clean.
Open Scope N_scope.

(* ---- the Reject built by Session.RejectMessage ---- *)

Definition reject_for (d : bytes) : message :=
  let r := mk_reject reject_other 0%Z 0%Z in
  match value_by_tag d tag_MsgSeqNum with
  | Ok sb =>
      match atoi sb with
      | Some seq => with_body r (set_kv tag_RefSeqNum (VInt true seq) (m_body r))
      | None => with_body r (set_kv tag_RefTagID (VInt true tagnum_MsgSeqNum)
                               (set_kv tag_SessionRejectReason (VString true (itoa 5)) (m_body r)))
      end
  | _ => with_body r (set_kv tag_RefTagID (VInt true tagnum_MsgSeqNum) (m_body r))
  end.

Lemma reject_message_eq cfg s d : reject_message cfg s d = session_send cfg s (reject_for d).
Proof.
  unfold reject_message, reject_for.
  destruct (value_by_tag d tag_MsgSeqNum) as [sb| | |]; try reflexivity. destruct (atoi sb); reflexivity.
Qed.

Lemma reject_for_header d : m_header (reject_for d) = tpl_Header.
Proof. unfold reject_for. destruct (value_by_tag d tag_MsgSeqNum) as [sb| | |]; try reflexivity. destruct (atoi sb); reflexivity. Qed.

Lemma reject_for_type d : mt_of (reject_for d) = msgtype_Reject.
Proof. unfold reject_for. destruct (value_by_tag d tag_MsgSeqNum) as [sb| | |]; try reflexivity. destruct (atoi sb); reflexivity. Qed.

(* the Reject names the offending message by sequence number, or names tag 34 when that
   number is missing or not numeric *)
Lemma reject_for_refs d :
  match value_by_tag d tag_MsgSeqNum with
  | Ok sb =>
      match atoi sb with
      | Some seq => get_kv tag_RefSeqNum (m_body (reject_for d)) = Some (VInt true seq)
                    /\ get_kv tag_RefTagID (m_body (reject_for d)) = Some (VInt false 0%Z)
      | None => get_kv tag_RefTagID (m_body (reject_for d)) = Some (VInt true tagnum_MsgSeqNum)
      end
  | _ => get_kv tag_RefTagID (m_body (reject_for d)) = Some (VInt true tagnum_MsgSeqNum)
  end.
Proof.
  unfold reject_for. destruct (value_by_tag d tag_MsgSeqNum) as [sb| | |]; try reflexivity.
  destruct (atoi sb); [split|]; reflexivity.
Qed.

(* exactly one message, the Reject, stored first; nothing that governs the session changes *)
Theorem reject_message_clean cfg s d :
  clean cfg s -> save_first s ->
  exists s' calls,
    reject_message cfg s d = (s', calls ++ [OWire (fst (prepare (stamped s (reject_for d))))])
    /\ Forall is_call calls /\ same_control s s' /\ s_cnt_out s' = (s_cnt_out s + 1)%Z
    /\ clean cfg s' /\ save_first s'.
Proof.
  intros Hc Hs. rewrite reject_message_eq.
  destruct (session_send_clean cfg s (reject_for d) Hc Hs (reject_for_header d))
    as (s' & calls & E & Fc & _ & _ & _ & C & O & Cl & Sf).
  exists s', calls. rewrite E.
  split; [reflexivity|]. split; [exact Fc|]. split; [exact C|]. split; [exact O|]. split; [exact Cl|exact Sf].
Qed.

(* ---- C16: invalid or not permitted administrative messages are handed to RejectMessage ---- *)

Definition handler_rejects cfg s h d : Prop :=
  run_in_handler cfg s h d = (let '(s', o) := reject_message cfg s d in (s', o, true)).

Lemma heartbeat_invalid cfg s d :
  (forall m, parse_as msgtype_Heartbeat tpl_Heartbeat d <> Ok m) \/ is_logged s = false ->
  handler_rejects cfg s HHeartbeat d.
Proof.
  unfold handler_rejects. cbn [run_in_handler]. intros [H|H].
  - destruct (parse_as _ _ d) as [m| | |]; try reflexivity. exfalso. eapply H. reflexivity.
  - destruct (parse_as _ _ d) as [m| | |]; try reflexivity. rewrite H. reflexivity.
Qed.

Lemma testrequest_invalid cfg s d :
  (forall m, parse_as msgtype_TestRequest tpl_TestRequest d <> Ok m) \/ is_logged s = false ->
  handler_rejects cfg s HTestRequest d.
Proof.
  unfold handler_rejects. cbn [run_in_handler]. intros [H|H].
  - destruct (parse_as _ _ d) as [m| | |]; try reflexivity. exfalso. eapply H. reflexivity.
  - destruct (parse_as _ _ d) as [m| | |]; try reflexivity. rewrite H. reflexivity.
Qed.

Lemma resend_invalid cfg s d :
  (forall m, parse_as msgtype_ResendRequest tpl_ResendRequest d <> Ok m) \/ is_logged s = false ->
  handler_rejects cfg s HResend d.
Proof.
  unfold handler_rejects. cbn [run_in_handler]. intros [H|H].
  - destruct (parse_as _ _ d) as [m| | |]; try reflexivity. exfalso. eapply H. reflexivity.
  - destruct (parse_as _ _ d) as [m| | |]; try reflexivity. rewrite H. reflexivity.
Qed.

Lemma logon_damaged cfg s d :
  (forall m, parse_as msgtype_Logon tpl_Logon d <> Ok m) -> handler_rejects cfg s HLogon d.
Proof.
  unfold handler_rejects. cbn [run_in_handler]. intro H.
  destruct (parse_as _ _ d) as [m| | |]; try reflexivity. exfalso. eapply H. reflexivity.
Qed.

Lemma logout_damaged cfg s d :
  (forall m, parse_as msgtype_Logout tpl_Logout d <> Ok m) -> handler_rejects cfg s HLogout d.
Proof.
  unfold handler_rejects. cbn [run_in_handler]. intro H.
  destruct (parse_as _ _ d) as [m| | |]; try reflexivity. exfalso. eapply H. reflexivity.
Qed.

(* a Logon while logged on: one Reject by the Logon's sequence number, nothing else *)
Lemma logon_when_logged cfg s d lm :
  parse_as msgtype_Logon tpl_Logon d = Ok lm -> s_state s = SuccessfulLogged ->
  run_in_handler cfg s HLogon d =
  (let '(s', o) := session_send cfg s (mk_reject reject_other 0%Z (get_int tag_MsgSeqNum (m_header lm))) in (s', o, true)).
Proof. intros P St. cbn [run_in_handler]. rewrite P, St. reflexivity. Qed.

(* a Logout that is not permitted (neither logged on nor waiting for the answer to our own
   Logout): one Reject; the session stays not logged on and is neither cancelled nor stopped *)
Lemma logout_not_permitted cfg s d lm :
  parse_as msgtype_Logout tpl_Logout d = Ok lm ->
  s_state s <> SuccessfulLogged -> s_state s <> WaitingLogoutAnswer ->
  exists s1 o1,
    reject_message cfg s d = (s1, o1) /\
    run_in_handler cfg s HLogout d = (upd_state (stop_timers s1) (state_after_logout cfg), o1, true).
Proof.
  intros P N1 N2. cbn [run_in_handler]. rewrite P.
  destruct (reject_message cfg s d) as [s1 o1] eqn:E. exists s1, o1. split; [reflexivity|].
  assert (Hcs : forall s2, change_state (stop_timers s2) (state_after_logout cfg)
                           = (upd_state (stop_timers s2) (state_after_logout cfg), [])).
  { intro s2. unfold change_state, state_after_logout. destruct (c_side cfg); reflexivity. }
  destruct (s_state s); try contradiction; rewrite Hcs, app_nil_r; reflexivity.
Qed.

(* ---- C14: a TestRequest while logged on ---- *)

Definition heartbeat_echo (id : bytes) : message :=
  mk_msg msgtype_Heartbeat (set_kv tag_TestReqID (VString true id) tpl_Heartbeat).

Theorem testrequest_answer cfg s d tm :
  parse_as msgtype_TestRequest tpl_TestRequest d = Ok tm -> is_logged s = true ->
  run_in_handler cfg s HTestRequest d =
  (let '(s', o) := session_send cfg s (heartbeat_echo (get_string tag_TestReqID (m_body tm))) in (s', o, true)).
Proof. intros P L. cbn [run_in_handler]. rewrite P, L. reflexivity. Qed.

Lemma heartbeat_echo_field id :
  get_kv tag_TestReqID (m_body (heartbeat_echo id)) = Some (VString true id)
  /\ mt_of (heartbeat_echo id) = msgtype_Heartbeat /\ m_header (heartbeat_echo id) = tpl_Header.
Proof. repeat split. Qed.

(* exactly one Heartbeat, echoing the id, stored first, and the state is untouched *)
Theorem testrequest_clean cfg s d tm :
  clean cfg s -> save_first s ->
  parse_as msgtype_TestRequest tpl_TestRequest d = Ok tm -> is_logged s = true ->
  exists s' calls,
    run_in_handler cfg s HTestRequest d =
      (s', calls ++ [OWire (fst (prepare (stamped s (heartbeat_echo (get_string tag_TestReqID (m_body tm))))))], true)
    /\ Forall is_call calls /\ same_control s s' /\ clean cfg s' /\ save_first s'.
Proof.
  intros Hc Hs P L. rewrite (testrequest_answer cfg s d tm P L).
  destruct (session_send_clean cfg s (heartbeat_echo (get_string tag_TestReqID (m_body tm))) Hc Hs eq_refl)
    as (s' & calls & E & Fc & _ & _ & _ & C & _ & Cl & Sf).
  rewrite E. exists s', calls.
  split; [reflexivity|]. split; [exact Fc|]. split; [exact C|]. split; [exact Cl|exact Sf].
Qed.

(* ---- C10: a ResendRequest while logged on ---- *)

Theorem resend_answer cfg s d rm :
  parse_as msgtype_ResendRequest tpl_ResendRequest d = Ok rm -> is_logged s = true ->
  let from := get_int tag_BeginSeqNo (m_body rm) in
  let to0 := get_int tag_EndSeqNo (m_body rm) in
  let to := if Z.eqb to0 0 then s_cnt_out s else to0 in
  run_in_handler cfg s HResend d =
  match store_messages s from to with
  | Some ms => let '(s', o) := send_batch cfg s ms in (s', drop_err o, true)
  | None => (s, [], true)
  end.
Proof. intros P L. cbn [run_in_handler]. rewrite P, L. reflexivity. Qed.

(* what the store hands back for a range: exactly the stored messages from..to in ascending
   order, or nothing at all *)
Lemma store_range_spec st : forall n from l,
  store_range st from n = Some l ->
  length l = n /\ forall i, (i < n)%nat -> nth_error l i = store_get st (from + Z.of_nat i).
Proof.
  induction n as [|n IH]; intros from l H; cbn [store_range] in H.
  - inversion H; subst. split; [reflexivity|]. intros i Hi. lia.
  - destruct (store_get st from) as [m|] eqn:G; [|discriminate].
    destruct (store_range st (from + 1) n) as [l'|] eqn:R; [|discriminate]. inversion H; subst.
    destruct (IH _ _ R) as (L & N). split; [cbn; lia|].
    intros [|i] Hi.
    + cbn [nth_error]. rewrite Z.add_0_r. symmetry. exact G.
    + cbn [nth_error]. rewrite N by lia. f_equal. lia.
Qed.

Lemma store_messages_spec s from to ms :
  store_messages s from to = Some ms ->
  (from <= to)%Z /\ (to <= s_cnt_out s)%Z /\ length ms = Z.to_nat (to - from + 1)
  /\ forall i, (i < length ms)%nat -> nth_error ms i = store_get (s_store s) (from + Z.of_nat i).
Proof.
  unfold store_messages. intro H.
  destruct (Z.ltb_spec to from); [discriminate|]. destruct (Z.ltb_spec (s_cnt_out s) to); [discriminate|].
  destruct (store_range_spec _ _ _ _ H) as (L & N).
  split; [lia|]. split; [lia|]. split; [exact L|]. intros i Hi. apply N. lia.
Qed.

(* a clean batch retransmits each message of the list, in order, unchanged *)
Lemma send_batch_clean cfg ms : forall s,
  clean cfg s -> save_first s ->
  exists s' o, send_batch cfg s ms = (s', o)
               /\ wires o = map (fun m => fst (prepare m)) ms
               /\ ~ In OSendErr o /\ same_control s s' /\ s_cnt_out s' = s_cnt_out s
               /\ clean cfg s' /\ save_first s'.
Proof.
  induction ms as [|m ms IH]; intros s Hc Hs; cbn [send_batch].
  - exists s, []. split; [reflexivity|]. split; [reflexivity|]. split; [intros []|].
    split; [apply same_control_refl|]. split; [reflexivity|]. split; assumption.
  - destruct (router_send_clean cfg s m Hc Hs) as (s1 & calls & E & Fc & _ & _ & _ & C & O & Cl & Sf).
    rewrite E. destruct (IH s1 Cl Sf) as (s2 & o2 & E2 & W2 & N2 & C2 & O2 & Cl2 & Sf2). rewrite E2.
    exists s2, ((calls ++ [OWire (fst (prepare m))]) ++ o2).
    split; [reflexivity|]. split.
    { rewrite !wires_app, W2. cbn [map wires flat_map app].
      assert (Hw : wires calls = []).
      { clear -Fc. induction calls as [|c cs IHc]; [reflexivity|]. inversion Fc; subst.
        destruct c; try contradiction; cbn [wires flat_map app]; apply IHc; assumption. }
      rewrite Hw. reflexivity. }
    split.
    { intro Hin. apply in_app_or in Hin as [Hin|Hin]; [|exact (N2 Hin)].
      apply in_app_or in Hin as [Hin|[Hin|[]]]; [|discriminate].
      rewrite Forall_forall in Fc. specialize (Fc _ Hin). exact Fc. }
    split; [eapply same_control_trans; eassumption|]. split; [congruence|]. split; assumption.
Qed.

(* ---- C15: Logout ---- *)

(* the peer's Logout while logged on: the logout-request event, one Logout, timers stopped,
   back to waiting for a Logon: not logged on any more *)
Theorem peer_logout_when_logged cfg s d lm :
  parse_as msgtype_Logout tpl_Logout d = Ok lm -> s_state s = SuccessfulLogged ->
  exists sa oa sb ob,
    change_state s WaitingLogoutAnswer = (sa, oa) /\
    session_send cfg sa (mk_msg msgtype_Logout tpl_Logout) = (sb, ob) /\
    run_in_handler cfg s HLogout d = (upd_state (stop_timers sb) (state_after_logout cfg), oa ++ ob, true).
Proof.
  intros P St. cbn [run_in_handler]. rewrite P, St.
  destruct (change_state s WaitingLogoutAnswer) as [sa oa] eqn:Ea.
  destruct (session_send cfg sa _) as [sb ob] eqn:Eb.
  exists sa, oa, sb, ob. split; [reflexivity|]. split; [exact Eb|].
  assert (Hcs : change_state (stop_timers sb) (state_after_logout cfg)
                = (upd_state (stop_timers sb) (state_after_logout cfg), [])).
  { unfold change_state, state_after_logout. destruct (c_side cfg); reflexivity. }
  rewrite Hcs, app_nil_r. reflexivity.
Qed.

(* the peer's answer to our own Logout: no message at all, the logout event is raised *)
Theorem peer_logout_answer cfg s d lm :
  parse_as msgtype_Logout tpl_Logout d = Ok lm -> s_state s = WaitingLogoutAnswer ->
  exists s1 o1,
    run_ev_handlers (upd_state s ReceivedLogoutAnswer) (ev_get (s_ev s) EvLogout) = (s1, o1) /\
    run_in_handler cfg s HLogout d =
      (upd_state (stop_timers (upd_state s1 WaitingLogon)) (state_after_logout cfg), OEvent EvLogout :: o1, true)
    /\ wires (OEvent EvLogout :: o1) = [].
Proof.
  intros P St. cbn [run_in_handler]. rewrite P, St.
  unfold change_state at 1. cbn [event_of_state].
  destruct (run_ev_handlers (upd_state s ReceivedLogoutAnswer) _) as [s1 o1] eqn:E1.
  exists s1, o1. split; [reflexivity|].
  assert (Hw : change_state s1 WaitingLogon = (upd_state s1 WaitingLogon, [])) by reflexivity.
  rewrite Hw.
  assert (Hcs : forall s2, change_state (stop_timers s2) (state_after_logout cfg)
                           = (upd_state (stop_timers s2) (state_after_logout cfg), [])).
  { intro s2. unfold change_state, state_after_logout. destruct (c_side cfg); reflexivity. }
  rewrite Hcs, !app_nil_r. split; [reflexivity|].
  cbn [wires flat_map app].
  destruct (run_ev_handlers_spec _ _ _ _ E1) as (T & _).
  clear -T. induction o1 as [|x o1 IH]; [reflexivity|].
  destruct x; cbn [wire_types wires flat_map app] in *; try (apply IH; exact T). discriminate T.
Qed.

(* Stop registered its handler: when the logout event runs, the session context is cancelled,
   provided no earlier handler of that event stops the chain *)
Lemma stop_handler_cancels hs : forall s s' o,
  In EStopLogout hs -> Forall (fun h => match h with EApp _ c => c = true | _ => True end) hs ->
  run_ev_handlers s hs = (s', o) -> s_cancelled s' = true.
Proof.
  assert (Mono : forall hs0 s s' o, s_cancelled s = true -> run_ev_handlers s hs0 = (s', o) -> s_cancelled s' = true).
  { clear hs. intro hs. induction hs as [|h hs IH]; intros s s' o C E; cbn [run_ev_handlers] in E.
    - inversion E; subst. exact C.
    - destruct h as [| | |id cont].
      + destruct (run_ev_handlers _ hs) as [sx ox] eqn:Ex. inversion E; subst. eapply IH; [|exact Ex]. reflexivity.
      + destruct (run_ev_handlers _ hs) as [sx ox] eqn:Ex. inversion E; subst. eapply IH; [|exact Ex]. exact C.
      + destruct (run_ev_handlers _ hs) as [sx ox] eqn:Ex. inversion E; subst. eapply IH; [|exact Ex]. reflexivity.
      + destruct cont.
        * destruct (run_ev_handlers _ hs) as [sx ox] eqn:Ex. inversion E; subst. eapply IH; [|exact Ex]. exact C.
        * inversion E; subst. exact C. }
  induction hs as [|h hs IH]; intros s s' o Hin Hf E; [destruct Hin|].
  inversion Hf as [|? ? Hh Hhs]; subst. cbn [run_ev_handlers] in E.
  destruct h as [| | |id cont].
  - destruct (run_ev_handlers _ hs) as [sx ox] eqn:Ex. inversion E; subst. eapply Mono; [|exact Ex]. reflexivity.
  - destruct Hin as [Hd|Hin]; [discriminate|].
    destruct (run_ev_handlers _ hs) as [sx ox] eqn:Ex. inversion E; subst. eapply IH; eassumption.
  - destruct (run_ev_handlers _ hs) as [sx ox] eqn:Ex. inversion E; subst. eapply Mono; [|exact Ex]. reflexivity.
  - destruct Hin as [Hd|Hin]; [discriminate|]. subst cont.
    destruct (run_ev_handlers _ hs) as [sx ox] eqn:Ex. inversion E; subst. eapply IH; eassumption.
Qed.

(* the close deadline cancels the context unconditionally, for every close timeout *)
Lemma close_deadline_cancels cfg s : s_cancelled (fst (step cfg s CloseDeadline)) = true.
Proof. reflexivity. Qed.

(* ---- C19: dispatch of an inbound message ---- *)

(* all-types handlers first, then the handlers of the message's own type, each pool in
   registration order; a handler answering false ends its own pool's round only *)
Theorem serve_dispatch cfg s d mt :
  value_by_tag d tag_MsgType = Ok mt ->
  serve cfg s d =
  (let '(s1, o1) := run_in_handlers cfg s (pool_get (s_in s) ALL) d in
   let '(s2, o2) := run_in_handlers cfg s1 (pool_get (s_in s1) mt) d in
   (s2, o1 ++ o2)).
Proof. intro H. unfold serve. rewrite H. reflexivity. Qed.

Lemma handlers_early_exit cfg s h hs d s1 o1 :
  run_in_handler cfg s h d = (s1, o1, false) -> run_in_handlers cfg s (h :: hs) d = (s1, o1).
Proof. intro H. cbn [run_in_handlers]. rewrite H. reflexivity. Qed.

Lemma handlers_continue cfg s h hs d s1 o1 :
  run_in_handler cfg s h d = (s1, o1, true) ->
  run_in_handlers cfg s (h :: hs) d =
  (let '(s2, o2) := run_in_handlers cfg s1 hs d in (s2, o1 ++ o2)).
Proof. intro H. cbn [run_in_handlers]. rewrite H. reflexivity. Qed.

(* registration appends: a pool is the list of its registrations in order *)
Lemma pool_registration_order {H} (p : pool H) k h :
  pool_get (pool_add p k h) k = pool_get p k ++ [h].
Proof.
  induction p as [|[k0 hs] p IH]; cbn [pool_add pool_get].
  - rewrite beq_refl. reflexivity.
  - destruct (beq k k0) eqn:E; cbn [pool_get]; rewrite E; [reflexivity|exact IH].
Qed.

(* ---- C10: gap detection at logon ---- *)

Definition gap_request (first_missing : Z) : message :=
  mk_msg msgtype_ResendRequest
    (set_kv tag_EndSeqNo (VInt true 0) (set_kv tag_BeginSeqNo (VInt true first_missing) tpl_ResendRequest)).

Theorem gap_detection cfg s inc :
  process_inc_seq cfg s inc =
  (if Z.ltb (s_cnt_in s + 1) inc
   then let '(s1, o) := session_send cfg s (gap_request (s_cnt_in s + 1)) in (upd_cnt_in s1 inc, o)
   else (upd_cnt_in s inc, [])).
Proof. unfold process_inc_seq, gap_request. destruct (Z.ltb _ _); reflexivity. Qed.

Lemma gap_request_fields n :
  get_kv tag_BeginSeqNo (m_body (gap_request n)) = Some (VInt true n)
  /\ get_kv tag_EndSeqNo (m_body (gap_request n)) = Some (VInt true 0%Z)
  /\ mt_of (gap_request n) = msgtype_ResendRequest.
Proof. repeat split. Qed.
