(* TimerProto.v -- line protocol for timing observations (harness/cmd/timing): each line is an
   observed interval; the answer says whether it is a run of the timer model within the slack. *)
From SF Require Export Proto Timer.
Open Scope N_scope.

Definition k_TT : bytes := [84;84].
Definition k_GAP : bytes := [71;65;80].
Definition k_HB : bytes := [72;66].
Definition k_PROBE : bytes := [80;82;79;66;69].
Definition k_TICK : bytes := [84;73;67;75].

Definition okbad (b : bool) : bytes := if b then s_OK else s_BAD.

Definition run_timer_line (line : bytes) : bytes :=
  match tokens line with
  | k :: r =>
      match map tok_int r with
      | [Some a; Some b; Some c; Some d] =>
          if beq k k_TT then okbad (timer_conforms a b c d)           (* TT T slack last ret *)
          else if beq k k_PROBE then okbad (probe_conforms a b c d)   (* PROBE n slack jitter since *)
          else s_ERR
      | [Some a; Some b; Some c; Some d; Some e; Some f] =>
          if beq k k_TICK then okbad (tick_conforms a b c d e f)      (* TICK T jitter slack start last ret *)
          else s_ERR
      | [Some a; Some b; Some c] =>
          if beq k k_GAP then okbad (gap_conforms a b c)              (* GAP n slack gap *)
          else if beq k k_HB then okbad (heartbeat_not_early a b c)   (* HB n jitter since_prev *)
          else s_ERR
      | _ => s_ERR
      end
  | [] => s_ERR
  end.
