(* Item_ind.v -- induction principle for the nested item type, and the
   unfolding equations of the functions defined by nested fixpoints. *)
From SF Require Import Bytes Values Wire.
Open Scope N_scope.

Section ItemInd.
  Variable P : item -> Prop.
  Hypothesis HKV : forall tag v, P (IKV tag v).
  Hypothesis HGroup : forall notag tpl es,
      Forall P tpl -> Forall (Forall P) es -> P (IGroup notag tpl es).
  Hypothesis HComp : forall items, Forall P items -> P (IComp items).

  Fixpoint item_ind2 (it : item) : P it :=
    match it with
    | IKV tag v => HKV tag v
    | IGroup notag tpl es =>
        HGroup notag tpl es
          ((fix go (l : list item) : Forall P l :=
              match l with
              | [] => Forall_nil P
              | i :: l' => Forall_cons i (item_ind2 i) (go l')
              end) tpl)
          ((fix goe (l : list (list item)) : Forall (Forall P) l :=
              match l with
              | [] => Forall_nil (Forall P)
              | e :: l' =>
                  Forall_cons e
                    ((fix go (l2 : list item) : Forall P l2 :=
                        match l2 with
                        | [] => Forall_nil P
                        | i :: l2' => Forall_cons i (item_ind2 i) (go l2')
                        end) e) (goe l')
              end) es)
    | IComp items =>
        HComp items
          ((fix go (l : list item) : Forall P l :=
              match l with
              | [] => Forall_nil P
              | i :: l' => Forall_cons i (item_ind2 i) (go l')
              end) items)
    end.
End ItemInd.

(* the inner fixpoints are [map] *)
Lemma inner_map_item_to_bytes l :
  (fix go2 (l : list item) : list (option bytes) :=
     match l with [] => [] | i :: l' => item_to_bytes i :: go2 l' end) l
  = map item_to_bytes l.
Proof. induction l as [|i l IH]; [reflexivity|]. cbn [map]. rewrite <- IH. reflexivity. Qed.

Lemma item_to_bytes_comp items :
  item_to_bytes (IComp items) =
  match somes (map item_to_bytes items) with
  | [] => None
  | parts => Some (join [SOH] parts)
  end.
Proof. cbn [item_to_bytes]. rewrite inner_map_item_to_bytes. reflexivity. Qed.

Lemma inner_entries l :
  (fix go (es : list (list item)) : list bytes :=
     match es with
     | [] => []
     | e :: es' =>
         join [SOH]
           (somes ((fix go2 (l : list item) : list (option bytes) :=
                      match l with [] => [] | i :: l' => item_to_bytes i :: go2 l' end) e)) :: go es'
     end) l = map items_to_bytes l.
Proof.
  induction l as [|e l IH]; [reflexivity|].
  cbn [map]. rewrite <- IH. unfold items_to_bytes. rewrite inner_map_item_to_bytes. reflexivity.
Qed.

Lemma item_to_bytes_group notag tpl es :
  item_to_bytes (IGroup notag tpl es) =
  match es with
  | [] => None
  | _ => Some (join [SOH] ((notag ++ EQS :: itoa (Z.of_nat (length es))) :: map items_to_bytes es))
  end.
Proof.
  destruct es as [|e es]; [reflexivity|].
  rewrite <- inner_entries. reflexivity.
Qed.
