(* Validate_proofs.v -- soundness of the integrity check (C03, theorem A):
   what acceptance by validate_raw implies about the bytes. *)
From SF Require Import Bytes Values Wire Parse Bytes_proofs Fields_proofs Safety_proofs.
Open Scope N_scope.

Lemma find_byte_split b l i :
  find_byte b l = Some i ->
  exists u v, l = u ++ b :: v /\ length u = i /\ Forall (fun x => x <> b) u.
Proof.
  revert i. induction l as [|x l IH]; intros i H; cbn [find_byte] in H; [discriminate|].
  destruct (N.eqb_spec x b) as [E|E].
  - inversion H; subst. exists [], l. repeat split. constructor.
  - destruct (find_byte b l) as [j|]; [|discriminate]. inversion H; subst.
    destruct (IH j eq_refl) as (u & v & -> & Hl & Hf).
    exists (x :: u), v. repeat split; [cbn; lia|constructor; assumption].
Qed.

Lemma rfind_byte_none b l : rfind_byte b l = None -> Forall (fun x => x <> b) l.
Proof.
  induction l as [|y l IH]; intro R; [constructor|].
  cbn [rfind_byte] in R. destruct (rfind_byte b l); [discriminate|].
  destruct (N.eqb_spec y b); [discriminate|]. constructor; [assumption|]. apply IH. reflexivity.
Qed.

Lemma rfind_byte_split b l i :
  rfind_byte b l = Some i ->
  exists u v, l = u ++ b :: v /\ length u = i /\ Forall (fun x => x <> b) v.
Proof.
  revert i. induction l as [|x l IH]; intros i H; cbn [rfind_byte] in H; [discriminate|].
  destruct (rfind_byte b l) as [j|] eqn:R.
  - inversion H; subst. destruct (IH j eq_refl) as (u & v & -> & Hl & Hf).
    exists (x :: u), v. repeat split; [cbn; lia|assumption].
  - destruct (N.eqb_spec x b) as [E|E]; [|discriminate]. inversion H; subst.
    exists [], l. repeat split. apply rfind_byte_none. exact R.
Qed.

Lemma firstn_exact {A} (u v : list A) i : length u = i -> firstn i (u ++ v) = u.
Proof. intros <-. rewrite firstn_app, Nat.sub_diag, firstn_all. cbn. apply app_nil_r. Qed.

Lemma skipn_exact {A} (u v : list A) i : length u = i -> skipn i (u ++ v) = v.
Proof. intros <-. rewrite skipn_app, Nat.sub_diag, skipn_all. reflexivity. Qed.

Lemma skipn_exact1 {A} (u v : list A) (b : A) i : length u = i -> skipn (i + 1) (u ++ b :: v) = v.
Proof.
  intro H. replace (u ++ b :: v) with ((u ++ [b]) ++ v) by (rewrite <- app_assoc; reflexivity).
  apply skipn_exact. rewrite app_length. cbn. lia.
Qed.

Lemma prefixb_split q d : prefixb q d = true -> exists r, d = q ++ r.
Proof. apply prefixb_spec. Qed.

(* a prefix that ends before position |u| of (u ++ rest) is a prefix of u *)
Lemma prefix_within {A} (q u r rest : list A) :
  u ++ rest = q ++ r -> (length q <= length u)%nat -> exists u', u = q ++ u'.
Proof.
  revert u. induction q as [|x q IH]; intros u H Hl; [exists u; reflexivity|].
  destruct u as [|y u]; [cbn in Hl; lia|].
  cbn [app] in H. inversion H; subst. cbn [length] in Hl.
  destruct (IH u H2 ltac:(lia)) as [u' ->]. exists u'. reflexivity.
Qed.

Lemma removelast_last_split (d : bytes) : d <> [] -> last d 0 = SOH -> exists d0, d = d0 ++ [SOH] /\ removelast d = d0.
Proof.
  intros Hd Hl. exists (removelast d). split; [|reflexivity].
  rewrite <- Hl. apply app_removelast_last. exact Hd.
Qed.

Lemma last_app_r {A} (a b : list A) (x : A) : b <> [] -> last (a ++ b) x = last b x.
Proof.
  intro Hb. induction a as [|y a IH]; [reflexivity|].
  cbn [app]. destruct (a ++ b) eqn:E.
  - destruct a; [cbn in E; contradiction|discriminate].
  - rewrite <- E in *. cbn [last]. rewrite E. rewrite <- E. exact IH.
Qed.

(* what the bytes look like when validate_raw accepts them *)
Record framed (bst blt cst : bytes) (d : bytes) (bs L B c : bytes) : Prop := {
  fr_shape : d = (bst ++ EQS :: bs) ++ SOH :: (blt ++ EQS :: L) ++ SOH :: B ++ (cst ++ EQS :: c) ++ [SOH];
  fr_bs_sohfree : sohfree bs;
  fr_L_sohfree : sohfree L;
  fr_c_sohfree : sohfree (cst ++ EQS :: c);
  (* the byte before the CheckSum field is a delimiter: the last byte of the counted region,
     or the BodyLength field's own delimiter when the region is empty *)
  fr_B_end : B = [] \/ exists B0, B = B0 ++ [SOH];
  (* declared length = measured length of the counted region *)
  fr_length : atoi L = Some (Z.of_nat (length B));
  (* declared checksum = byte sum of everything before the CheckSum field, mod 256, three digits *)
  fr_checksum :
    c = pad3 (sum_bytes ((bst ++ EQS :: bs) ++ SOH :: (blt ++ EQS :: L) ++ SOH :: B) mod 256)
}.

Theorem validate_raw_sound :
  forall bst blt cst w d,
    validate_raw bst blt cst w d = Ok tt ->
    exists bs L B c,
      framed bst blt cst d bs L B c /\ (forall wb, w = Some wb -> bs = wb).
Proof.
  intros bst blt cst w d H. unfold validate_raw in H.
  destruct (prefixb (bst ++ [EQS]) d) eqn:P1; cbn [negb] in H; [|discriminate].
  destruct (find_byte SOH d) as [bs_end|] eqn:F1; [|discriminate].
  destruct (Nat.ltb_spec bs_end (length (bst ++ [EQS]))) as [|G1]; [discriminate|].
  destruct (find_byte_split _ _ _ F1) as (u1 & rest & Ed & Lu1 & Su1).
  rewrite Ed in H. rewrite (skipn_exact1 u1 rest SOH bs_end Lu1) in H.
  rewrite (firstn_exact u1 (SOH :: rest) bs_end Lu1) in H.
  destruct (prefixb (blt ++ [EQS]) rest) eqn:P2; cbn [negb] in H; [|discriminate].
  destruct (find_byte SOH rest) as [bl_end|] eqn:F2; [|discriminate].
  destruct (Nat.ltb_spec bl_end (length (blt ++ [EQS]))) as [|G2]; [discriminate|].
  destruct (find_byte_split _ _ _ F2) as (u2 & tail & Er & Lu2 & Su2).
  rewrite Er in H. rewrite (firstn_exact u2 (SOH :: tail) bl_end Lu2) in H.
  rewrite <- Er, <- Ed in H.
  destruct (N.eqb_spec (last d 0) SOH) as [Elast|]; cbn [negb] in H; [|discriminate].
  destruct (rfind_byte SOH (removelast d)) as [cs_start|] eqn:R; [|discriminate].
  set (offset := (bs_end + 1 + bl_end + 1)%nat) in *.
  destruct (Nat.ltb_spec cs_start (offset - 1)) as [|Hcs]; cbn [orb] in H; [discriminate|].
  destruct (prefixb (SOH :: cst ++ [EQS]) (skipn cs_start d)) eqn:P3; cbn [negb] in H; [|discriminate].
  destruct (atoi (skipn (length (blt ++ [EQS])) u2)) as [body_length|] eqn:A; [|discriminate].
  destruct (Z.eqb_spec (Z.of_nat (cs_start + 1 - offset)) body_length) as [EL|]; cbn [negb] in H; [|discriminate].
  destruct (beq _ (calc_checksum (firstn cs_start d))) eqn:EC; cbn [negb] in H; [|discriminate].
  apply beq_eq in EC.
  (* the two leading fields *)
  apply prefixb_split in P1 as [r1 Hr1].
  assert (Hu1 : exists bs, u1 = (bst ++ [EQS]) ++ bs).
  { apply (prefix_within (bst ++ [EQS]) u1 r1 (SOH :: rest)).
    - rewrite <- Ed. exact Hr1.
    - lia. }
  destruct Hu1 as [bs Hu1].
  apply prefixb_split in P2 as [r2 Hr2].
  assert (Hu2 : exists L, u2 = (blt ++ [EQS]) ++ L).
  { apply (prefix_within (blt ++ [EQS]) u2 r2 (SOH :: tail)).
    - rewrite <- Er. exact Hr2.
    - lia. }
  destruct Hu2 as [L Hu2].
  rewrite Hu2 in A. rewrite skipn_exact in A by reflexivity.
  (* the trailing field *)
  assert (Hd : d <> []) by (rewrite Ed; destruct u1; discriminate).
  destruct (removelast_last_split d Hd Elast) as (d0 & Ed0 & Erl).
  rewrite Erl in R.
  destruct (rfind_byte_split _ _ _ R) as (u3 & v3 & Ed3 & Lu3 & Sv3).
  (* d = u3 ++ SOH :: v3 ++ [SOH] *)
  assert (Ed' : d = u3 ++ SOH :: v3 ++ [SOH]).
  { rewrite Ed0, Ed3. rewrite <- app_assoc. reflexivity. }
  rewrite Ed' in P3. rewrite (skipn_exact u3 _ cs_start Lu3) in P3.
  cbn [prefixb] in P3. rewrite N.eqb_refl in P3. cbn [andb] in P3.
  apply prefixb_split in P3 as [r3 Hr3].
  (* cst= lies inside v3 (it cannot reach the final delimiter, its last byte is '=') *)
  assert (Hv3 : exists c, v3 = (cst ++ [EQS]) ++ c).
  { destruct (Nat.le_gt_cases (length (cst ++ [EQS])) (length v3)) as [Hle|Hgt].
    - apply (prefix_within (cst ++ [EQS]) v3 r3 [SOH]); assumption.
    - exfalso.
      assert (Hlen : length (cst ++ [EQS]) = S (length v3)).
      { assert (length (v3 ++ [SOH]) = length ((cst ++ [EQS]) ++ r3)) by (rewrite Hr3; reflexivity).
        rewrite !app_length in H0. cbn [length] in H0. rewrite app_length in Hgt. cbn [length] in Hgt.
        rewrite !app_length. cbn [length]. lia. }
      assert (r3 = []).
      { assert (length (v3 ++ [SOH]) = length ((cst ++ [EQS]) ++ r3)) by (rewrite Hr3; reflexivity).
        rewrite !app_length in H0. rewrite app_length in Hlen. cbn [length] in *.
        destruct r3; [reflexivity|cbn [length] in H0; lia]. }
      subst r3. rewrite app_nil_r in Hr3.
      apply (f_equal (fun l => last l 0)) in Hr3. rewrite !last_last in Hr3. discriminate. }
  destruct Hv3 as [c Hv3].
  (* assemble *)
  assert (Hcsval : skipn (cs_start + length (SOH :: cst ++ [EQS])) (removelast d) = c).
  { rewrite Erl, Ed3, Hv3.
    replace (u3 ++ SOH :: (cst ++ [EQS]) ++ c) with ((u3 ++ SOH :: cst ++ [EQS]) ++ c)
      by (repeat (rewrite <- ?app_assoc; cbn [app]); reflexivity).
    apply skipn_exact. rewrite app_length. cbn [length]. lia. }
  rewrite Hcsval in EC.
  assert (Hfirst : firstn cs_start d = u3).
  { rewrite Ed'. apply firstn_exact. exact Lu3. }
  rewrite Hfirst in EC.
  (* u3 ++ [SOH] = header ++ B *)
  set (hdr := (bst ++ EQS :: bs) ++ SOH :: (blt ++ EQS :: L) ++ [SOH]).
  assert (Hhdr : d = hdr ++ tail).
  { unfold hdr. rewrite Ed, Er, Hu1, Hu2. repeat (rewrite <- ?app_assoc; cbn [app]). reflexivity. }
  assert (Lhdr : length hdr = offset).
  { unfold hdr, offset. rewrite <- Lu1, <- Lu2, Hu1, Hu2. rewrite !app_length. cbn [length].
    rewrite !app_length. cbn [length]. lia. }
  assert (HB : exists B, u3 ++ [SOH] = hdr ++ B /\ length B = (cs_start + 1 - offset)%nat).
  { assert (Hlen : (length hdr <= length (u3 ++ [SOH]))%nat) by (rewrite app_length; cbn [length]; lia).
    assert (E : (u3 ++ [SOH]) ++ (v3 ++ [SOH]) = hdr ++ tail).
    { rewrite <- Hhdr, Ed'. rewrite <- app_assoc. reflexivity. }
    destruct (prefix_within hdr (u3 ++ [SOH]) tail (v3 ++ [SOH]) E Hlen) as [B HB].
    exists B. split; [exact HB|].
    apply (f_equal (@length N)) in HB. rewrite !app_length in HB. cbn [length] in HB. lia. }
  destruct HB as (B & HB & LB).
  exists bs, L, B, c. split.
  - constructor.
    + rewrite Ed'. rewrite Hv3.
      replace (u3 ++ SOH :: ((cst ++ [EQS]) ++ c) ++ [SOH]) with ((u3 ++ [SOH]) ++ (cst ++ EQS :: c) ++ [SOH])
        by (repeat (rewrite <- ?app_assoc; cbn [app]); reflexivity).
      rewrite HB. unfold hdr. repeat (rewrite <- ?app_assoc; cbn [app]). reflexivity.
    + rewrite Hu1 in Su1. apply Forall_app in Su1 as [_ S]. exact S.
    + rewrite Hu2 in Su2. apply Forall_app in Su2 as [_ S]. exact S.
    + rewrite Hv3 in Sv3. rewrite <- app_assoc in Sv3. exact Sv3.
    + destruct B as [|b0 B'] eqn:EB; [left; reflexivity|right].
      rewrite <- EB in *. assert (B <> []) by (rewrite EB; discriminate).
      exists (removelast B).
      assert (last (u3 ++ [SOH]) 0 = last (hdr ++ B) 0) by (rewrite HB; reflexivity).
      rewrite last_last in H1. rewrite last_app_r in H1 by assumption.
      rewrite H1. apply app_removelast_last. assumption.
    + rewrite A. f_equal. rewrite LB. symmetry. exact EL.
    + rewrite EC. rewrite calc_checksum_spec. f_equal. f_equal. f_equal.
      rewrite HB. unfold hdr. repeat (rewrite <- ?app_assoc; cbn [app]). reflexivity.
  - intros wb ->. destruct (beq wb _) eqn:EW; [|discriminate].
    apply beq_eq in EW. rewrite Hu1 in EW. rewrite skipn_exact in EW by reflexivity. congruence.
Qed.
