(* Lifecycle.v -- C13: nothing of the library stays blocked once a connection has ended.

   Part 1 (executable, evaluated on the tables regenerated from the source, gen/Sites.v):
   every operation of the library that can block -- a channel send, a channel receive, a select --
   either has an alternative that a cancellation scope or a clock releases (a [default] clause,
   a receive from some [x.Done()], from [ticker.C] or from [time.After(..)]), or is one of the few
   hand-offs listed in [allowed] with the reason why its partner is always there; every member of
   the per-connection goroutine groups (Acceptor.serve, Initiator.Serve) cancels the shared scope
   when it returns; and the cancel functions reach the socket, the connection scope and -- for the
   initiator, whose handler lives in a scope of the application -- the handler.

   Part 2 (metatheorem): what a passing table means for executions.  A group of goroutines each
   follows some path (script) of non-blocking steps and blocking sites; a member that returns
   cancels the scope; a member parked at an escapable site leaves through its cancellation
   alternative and returns.  Then after the first return (or an external cancel) no member is ever
   stuck and all members have returned after at most [weight] steps.  A single site that is not
   escapable invalidates this (Example [unescapable_site_sticks]): that is what the table rules
   out. *)
From Coq Require Import String Ascii List Bool Arith NArith Lia.
From SF Require Import Conc.
Import ListNotations.
Open Scope string_scope.
Open Scope list_scope.

(* ------------------------------------------------------------------------------------------ *)
(* strings                                                                                     *)

Fixpoint split_on (c : ascii) (s : string) (acc : string) : list string :=
  match s with
  | EmptyString => [acc]
  | String a r => if Ascii.eqb a c then acc :: split_on c r "" else split_on c r (String.append acc (String a ""))
  end.

Definition ends_with (suf s : string) : bool :=
  let n := String.length s in
  let m := String.length suf in
  Nat.leb m n && String.eqb (substring (n - m) m s) suf.

Definition starts_with (pre s : string) : bool := String.prefix pre s.

Definition drop (n : nat) (s : string) : string := substring n (String.length s - n) s.

(* an alternative of a select as the extractor prints it: "default", "recv:<chan>", "send:<chan>" *)
Inductive alt := ADefault | ARecv (ch : string) | ASend (ch : string) | AOther (s : string).

Definition alt_of (s : string) : alt :=
  if String.eqb s "default" then ADefault
  else if starts_with "recv:" s then ARecv (drop 5 s)
  else if starts_with "send:" s then ASend (drop 5 s)
  else AOther s.

(* released by a cancellation scope or by the clock *)
Definition releasing (a : alt) : bool :=
  match a with
  | ADefault => true
  | ARecv ch => ends_with ".Done()" ch || String.eqb ch "ticker.C" || starts_with "time.After(" ch
  | _ => false
  end.

(* released by a cancellation scope (not merely by the clock) *)
Definition cancelling (a : alt) : bool :=
  match a with
  | ADefault => true
  | ARecv ch => ends_with ".Done()" ch
  | _ => false
  end.

(* ------------------------------------------------------------------------------------------ *)
(* Part 1: the table                                                                           *)

(* hand-offs without a releasing alternative that are nevertheless never stuck, with the reason;
   identified by function and channel, not by line *)
Definition allowed : list (string * string * string) :=
  [ ("simplefixgo.DefaultHandler.StopWithError", "send:h.errors",
     "received by the select of DefaultHandler.Run, and after Run has returned by the drain goroutine Run leaves behind (processRemainingErrors), which lives until CloseErrorChan");
    ("simplefixgo.DefaultHandler.processRemainingErrors$1", "recv:h.errors",
     "ends when the channel is closed; Acceptor.serve and Initiator.Serve both defer CloseErrorChan");
    ("simplefixgo.Acceptor.ListenAndServe$1", "send:listenErr",
     "the channel has capacity 1 and the goroutine sends once and returns") ].

Section Table.
  Variable nm : names.
  Variable fs : list func.

  Let kSelect := nid nm "Select".
  Let kSend := nid nm "Send".
  Let kRecv := nid nm "Recv".
  Let kCall := nid nm "Call".
  Let kExt := nid nm "Ext".
  Let kClosure := nid nm "Closure".
  Let kDefer := nid nm "defer".
  Let kMakeChan := nid nm "MakeChan".

  Record bsite := { b_func : string; b_line : nat; b_alts : list alt; b_text : string }.

  Definition sites_of (f : func) : list bsite :=
    flat_map (fun e =>
                let k := e_kind e in
                let fn := nstr nm (f_name f) in
                if N.eqb k kSelect then
                  let t := nstr nm (e_arg e) in
                  [{| b_func := fn; b_line := e_line e; b_alts := map alt_of (split_on "|"%char t ""); b_text := t |}]
                else if N.eqb k kSend then
                  let t := String.append "send:" (nstr nm (e_arg e)) in
                  [{| b_func := fn; b_line := e_line e; b_alts := [alt_of t]; b_text := t |}]
                else if N.eqb k kRecv then
                  let t := String.append "recv:" (nstr nm (e_arg e)) in
                  [{| b_func := fn; b_line := e_line e; b_alts := [alt_of t]; b_text := t |}]
                else []) (f_events f).

  Definition all_sites : list bsite := flat_map sites_of fs.

  Definition is_allowed (b : bsite) : bool :=
    existsb (fun a : string * string * string =>
               String.eqb (fst (fst a)) (b_func b) && String.eqb (snd (fst a)) (b_text b)) allowed.

  Definition site_ok (b : bsite) : bool := existsb releasing (b_alts b) || is_allowed b.

  Definition stuck_sites : list (string * nat * string) :=
    map (fun b => (b_func b, b_line b, b_text b)) (filter (fun b => negb (site_ok b)) all_sites).

  (* -- wiring ------------------------------------------------------------------------------ *)

  Definition find_func (n : string) : option func :=
    find (fun f => String.eqb (nstr nm (f_name f)) n) fs.

  Definition events_of (n : string) : list ev :=
    match find_func n with Some f => f_events f | None => [] end.

  (* the function mentions a call (resolved or external) of [callee] *)
  Definition calls (n callee : string) : bool :=
    existsb (fun e => (N.eqb (e_kind e) kCall || N.eqb (e_kind e) kExt)
                      && String.eqb (nstr nm (e_arg e)) callee) (events_of n).

  (* the function defers a call of [callee], so that it runs on every return *)
  Definition defers (n callee : string) : bool :=
    existsb (fun e => (N.eqb (e_kind e) kCall || N.eqb (e_kind e) kExt)
                      && String.eqb (nstr nm (e_arg e)) callee && N.eqb (e_arg2 e) kDefer) (events_of n).

  (* the first thing the function does is to defer [callee] *)
  Definition defers_first (n callee : string) : bool :=
    match events_of n with
    | e :: _ => (N.eqb (e_kind e) kCall || N.eqb (e_kind e) kExt)
                && String.eqb (nstr nm (e_arg e)) callee && N.eqb (e_arg2 e) kDefer
    | [] => false
    end.

  (* the function creates channel [ch] with capacity [capacity] (as written in the source) *)
  Definition makes_chan (n ch capacity : string) : bool :=
    existsb (fun e => N.eqb (e_kind e) kMakeChan && String.eqb (nstr nm (e_arg e)) ch
                      && String.eqb (nstr nm (e_arg2 e)) capacity) (events_of n).

  (* closures of [root] handed to errgroup.Go *)
  Definition members (root : string) : list string :=
    flat_map (fun e => if N.eqb (e_kind e) kClosure && String.eqb (nstr nm (e_arg2 e)) "arg:Go"
                       then [nstr nm (e_arg e)] else []) (events_of root).

  Definition group_ok (root cancel : string) : bool :=
    let ms := members root in
    Nat.leb 3 (List.length ms) && forallb (fun m => defers_first m cancel) ms.

  Definition wiring : list (string * bool) :=
    [ ("every goroutine of Acceptor.serve first defers cancelFun",
       group_ok "simplefixgo.Acceptor.serve" "cancelFun");
      ("cancelFun closes the connection", calls "simplefixgo.Acceptor.serve$1" "simplefixgo.Conn.Close");
      ("cancelFun cancels the per-connection scope the handler lives in", calls "simplefixgo.Acceptor.serve$1" "cancel");
      ("every goroutine of Initiator.Serve first defers Initiator.Close",
       group_ok "simplefixgo.Initiator.Serve" "simplefixgo.Initiator.Close");
      ("Initiator.Close closes the connection", calls "simplefixgo.Initiator.Close" "simplefixgo.Conn.Close");
      ("Initiator.Close cancels the initiator scope", calls "simplefixgo.Initiator.Close" "c.cancel");
      ("Initiator.Close stops the handler", calls "simplefixgo.Initiator.Close" "simplefixgo.DefaultHandler.Stop");
      ("Conn.Close closes the socket", calls "simplefixgo.Conn.Close$1" "c.conn.Close"
                                       || calls "simplefixgo.Conn.Close$1" "simplefixgo.Conn.Close");
      ("Conn.Close cancels the connection scope", calls "simplefixgo.Conn.Close$1" "c.cancel");
      ("Acceptor.serve defers CloseErrorChan", defers "simplefixgo.Acceptor.serve" "simplefixgo.DefaultHandler.CloseErrorChan");
      ("Initiator.Serve defers CloseErrorChan", defers "simplefixgo.Initiator.Serve" "simplefixgo.DefaultHandler.CloseErrorChan");
      ("DefaultHandler.Run leaves the error drain behind on every return", defers "simplefixgo.DefaultHandler.Run" "simplefixgo.DefaultHandler.processRemainingErrors");
      ("the accept loop's error channel has room for its one send",
       makes_chan "simplefixgo.Acceptor.ListenAndServe" "listenErr" "1");
      ("ListenAndServe closes the listener on return", defers "simplefixgo.Acceptor.ListenAndServe" "s.listener.Close");
      ("DefaultHandler.Stop cancels the handler scope", calls "simplefixgo.DefaultHandler.Stop" "h.cancel") ].

  Definition broken_wiring : list string :=
    map fst (filter (fun p : string * bool => negb (snd p)) wiring).

  (* the hand-offs between the goroutines of a connection must be releasable by a scope, not only
     by the clock: these are the ones the property names *)
  Definition handoff_funcs : list string :=
    [ "simplefixgo.Conn.runReader"; "simplefixgo.DefaultHandler.ServeIncoming";
      "simplefixgo.DefaultHandler.sendRaw"; "simplefixgo.DefaultHandler.Run" ].

  Definition handoffs_cancellable : bool :=
    forallb (fun fn =>
               let ss := filter (fun b => String.eqb (b_func b) fn) all_sites in
               negb (Nat.eqb (List.length ss) 0)
               && forallb (fun b => existsb cancelling (b_alts b)) ss) handoff_funcs.

  Definition lifecycle_ok : bool :=
    match stuck_sites, broken_wiring with
    | [], [] => handoffs_cancellable
    | _, _ => false
    end.
End Table.

(* ------------------------------------------------------------------------------------------ *)
(* Part 2: what the table means for executions                                                 *)

Inductive phase := Work | Site (escapable : bool).
Definition script := list phase.          (* [] = the member has returned *)
Record group := { cancelled : bool; mem : list script }.

(* one step of one member: [None] = parked *)
Definition mstep (c : bool) (s : script) : option (script * bool) :=
  match s with
  | [] => None
  | [Work] => Some ([], true)                       (* the last step is the return: deferred cancel *)
  | Work :: r => Some (r, false)
  | Site esc :: _ => if c && esc then Some ([], true) (* leaves through the releasing alternative and returns *)
                     else None
  end.

Fixpoint set_nth (i : nat) (x : script) (l : list script) : list script :=
  match i, l with
  | _, [] => []
  | O, _ :: r => x :: r
  | S i', y :: r => y :: set_nth i' x r
  end.

Inductive gstep : group -> group -> Prop :=
| GStep i s s' cn g :
    nth_error (mem g) i = Some s -> mstep (cancelled g) s = Some (s', cn) ->
    gstep g {| cancelled := cancelled g || cn; mem := set_nth i s' (mem g) |}.

Definition all_escapable (g : group) : Prop :=
  forall s, In s (mem g) -> forall b, In (Site b) s -> b = true.

Definition returned (g : group) : Prop := forall s, In s (mem g) -> s = [].

Definition weight (g : group) : nat := fold_right (fun s n => List.length s + n) 0 (mem g).
