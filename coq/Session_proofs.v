(* Session_proofs.v -- basic facts about the session machine: which messages a step can
   emit, which components a sub-step can change. *)
From SF Require Import Bytes Values Wire Parse Session Bytes_proofs.
Open Scope N_scope.

Definition wire_types (os : list out) : list bytes :=
  flat_map (fun o => match o with OWire m => [mt_of m] | _ => [] end) os.

Lemma wire_types_app a b : wire_types (a ++ b) = wire_types a ++ wire_types b.
Proof. unfold wire_types. apply flat_map_app. Qed.

Lemma wire_types_cons_nowire o os :
  (forall m, o <> OWire m) -> wire_types (o :: os) = wire_types os.
Proof. intro H. destruct o; try reflexivity. exfalso. eapply H. reflexivity. Qed.

Lemma mt_of_prepare m : mt_of (fst (prepare m)) = mt_of m.
Proof. reflexivity. Qed.

Lemma mt_of_with_header m h : mt_of (with_header m h) = mt_of m.
Proof. reflexivity. Qed.
Lemma mt_of_with_body m b : mt_of (with_body m b) = mt_of m.
Proof. reflexivity. Qed.
Lemma mt_of_mk mt b : mt_of (mk_msg mt b) = mt.
Proof. reflexivity. Qed.

(* ---- the outgoing handler chain emits no wire and never touches the logon state ---- *)

Lemma mt_of_amend id m : mt_of (amend_msg id m) = mt_of m.
Proof. reflexivity. Qed.

Lemma run_out_handlers_spec cfg hs : forall m s s' o ok m',
  run_out_handlers cfg s m hs = (s', o, ok, m') ->
  wire_types o = [] /\ mt_of m' = mt_of m /\ s_state s' = s_state s /\ s_settings s' = s_settings s
  /\ s_cnt_out s' = s_cnt_out s /\ s_cnt_in s' = s_cnt_in s /\ s_in s' = s_in s /\ s_out s' = s_out s
  /\ s_ev s' = s_ev s /\ s_cancelled s' = s_cancelled s /\ s_router_stopped s' = s_router_stopped s
  /\ s_gen s' = s_gen s /\ s_timers_on s' = s_timers_on s /\ s_testreq s' = s_testreq s
  /\ s_intimer_done s' = s_intimer_done s.
Proof.
  induction hs as [|h hs IH]; intros m s s' o ok m' H; cbn [run_out_handlers] in H.
  - inversion H; subst. repeat split.
  - destruct h as [|g|id acc am].
    + destruct (existsb _ _).
      * inversion H; subst. repeat split.
      * destruct (run_out_handlers cfg _ m hs) as [[[s1 o1] ok1] m1] eqn:E. inversion H; subst.
        destruct (IH _ _ _ _ _ _ E) as (T & R). cbn [wire_types flat_map app]. split; [exact T|exact R].
    + eapply IH. exact H.
    + destruct acc.
      * destruct am.
        -- destruct (run_out_handlers cfg _ (amend_msg id m) hs) as [[[s1 o1] ok1] m1] eqn:E. inversion H; subst.
           destruct (IH _ _ _ _ _ _ E) as (T & M & R). split; [exact T|]. split; [rewrite M; reflexivity|exact R].
        -- destruct (run_out_handlers cfg s m hs) as [[[s1 o1] ok1] m1] eqn:E. inversion H; subst.
           destruct (IH _ _ _ _ _ _ E) as (T & R). split; [exact T|exact R].
      * inversion H; subst. repeat split.
Qed.

Definition same_control (s s' : sstate) : Prop :=
  s_state s' = s_state s /\ s_settings s' = s_settings s /\ s_cnt_in s' = s_cnt_in s
  /\ s_in s' = s_in s /\ s_out s' = s_out s /\ s_ev s' = s_ev s
  /\ s_cancelled s' = s_cancelled s /\ s_router_stopped s' = s_router_stopped s
  /\ s_gen s' = s_gen s /\ s_timers_on s' = s_timers_on s /\ s_testreq s' = s_testreq s
  /\ s_intimer_done s' = s_intimer_done s.

Lemma same_control_refl s : same_control s s.
Proof. repeat split. Qed.

Lemma same_control_trans a b c : same_control a b -> same_control b c -> same_control a c.
Proof. unfold same_control. intuition congruence. Qed.

(* DefaultHandler.send: at most one wire, of the message's own type *)
Lemma router_send_spec cfg s m s' o ok :
  router_send cfg s m = (s', o, ok) ->
  (wire_types o = [] \/ wire_types o = [mt_of m]) /\ (ok = true -> wire_types o = [mt_of m])
  /\ same_control s s' /\ s_cnt_out s' = s_cnt_out s.
Proof.
  unfold router_send. intro H.
  destruct (run_out_handlers cfg s m (pool_get (s_out s) ALL)) as [[[s1 o1] ok1] m1] eqn:E1.
  destruct (run_out_handlers_spec _ _ _ _ _ _ _ _ E1) as (T1 & M1 & A1).
  assert (C1 : same_control s s1 /\ s_cnt_out s1 = s_cnt_out s) by (unfold same_control; intuition).
  destruct ok1; cbn [negb] in H.
  2:{ inversion H; subst. rewrite wire_types_app, T1. cbn. split; [left; reflexivity|]. split; [discriminate|]. exact C1. }
  destruct (run_out_handlers cfg s1 m1 (pool_get (s_out s1) (mt_of m1))) as [[[s2 o2] ok2] m2] eqn:E2.
  destruct (run_out_handlers_spec _ _ _ _ _ _ _ _ E2) as (T2 & M2 & A2).
  assert (C2 : same_control s s2 /\ s_cnt_out s2 = s_cnt_out s).
  { destruct C1 as [C1 O1]. split; [eapply same_control_trans; [exact C1|]; unfold same_control; intuition|].
    destruct A2 as (_ & _ & O2 & _). congruence. }
  destruct ok2; cbn [negb] in H.
  2:{ inversion H; subst. rewrite !wire_types_app, T1, T2. cbn. split; [left; reflexivity|]. split; [discriminate|]. exact C2. }
  destruct (s_router_stopped s2).
  - inversion H; subst. rewrite !wire_types_app, T1, T2. cbn. split; [left; reflexivity|]. split; [discriminate|]. exact C2.
  - inversion H; subst. rewrite !wire_types_app, T1, T2.
    assert (HM : mt_of m2 = mt_of m) by congruence.
    split; [right|split; [intros _|exact C2]];
      cbn [wire_types flat_map app]; unfold mt_of in *; cbn [m_mt]; rewrite HM; reflexivity.
Qed.

(* Session.send *)
Lemma session_send_spec cfg s m s' o :
  session_send cfg s m = (s', o) ->
  (wire_types o = [] \/ wire_types o = [mt_of m]) /\ same_control s s'
  /\ s_cnt_out s' = (s_cnt_out s + 1)%Z.
Proof.
  unfold session_send. intro H.
  destruct (router_send cfg (upd_cnt_out s (s_cnt_out s + 1)) _) as [[s2 o2] ok] eqn:E.
  inversion H; subst.
  destruct (router_send_spec _ _ _ _ _ _ E) as (T & _ & C & O).
  rewrite mt_of_with_header in T. split; [exact T|]. split; [exact C|exact O].
Qed.

Lemma send_batch_spec cfg ms : forall s s' o,
  send_batch cfg s ms = (s', o) ->
  incl (wire_types o) (map mt_of ms) /\ same_control s s' /\ s_cnt_out s' = s_cnt_out s.
Proof.
  induction ms as [|m ms IH]; intros s s' o H; cbn [send_batch] in H.
  - inversion H; subst. split; [intros x []|]. split; [apply same_control_refl|reflexivity].
  - destruct (router_send cfg s m) as [[s1 o1] ok] eqn:E.
    destruct (router_send_spec _ _ _ _ _ _ E) as (T & _ & C & O).
    destruct ok.
    + destruct (send_batch cfg s1 ms) as [s2 o2] eqn:E2. inversion H; subst.
      destruct (IH _ _ _ E2) as (T2 & C2 & O2).
      split.
      * rewrite wire_types_app. cbn [map]. intros x Hx. apply in_app_or in Hx as [Hx|Hx].
        -- destruct T as [T|T]; rewrite T in Hx; [destruct Hx|]. destruct Hx as [<-|[]]. left. reflexivity.
        -- right. apply T2. exact Hx.
      * split; [eapply same_control_trans; eassumption|congruence].
    + inversion H; subst. split.
      * cbn [map]. intros x Hx. destruct T as [T|T]; rewrite T in Hx; [destruct Hx|]. destruct Hx as [<-|[]]. left. reflexivity.
      * split; assumption.
Qed.

(* event handlers emit nothing on the wire and leave the logon state alone *)
Lemma run_ev_handlers_spec hs : forall s s' o,
  run_ev_handlers s hs = (s', o) ->
  wire_types o = [] /\ s_state s' = s_state s /\ s_settings s' = s_settings s
  /\ s_cnt_in s' = s_cnt_in s /\ s_cnt_out s' = s_cnt_out s /\ s_store s' = s_store s.
Proof.
  induction hs as [|h hs IH]; intros s s' o H; cbn [run_ev_handlers] in H.
  - inversion H; subst. repeat split.
  - destruct h as [| | |id cont].
    + destruct (run_ev_handlers (upd_cancel s true true) hs) as [s1 o1] eqn:E. inversion H; subst.
      destruct (IH _ _ _ E) as (T & A). split; [exact T|]. exact A.
    + destruct (run_ev_handlers (start_timers s) hs) as [s1 o1] eqn:E. inversion H; subst.
      destruct (IH _ _ _ E) as (T & A). split; [exact T|]. exact A.
    + destruct (run_ev_handlers (upd_cancel s true (s_router_stopped s)) hs) as [s1 o1] eqn:E. inversion H; subst.
      destruct (IH _ _ _ E) as (T & A). split; [exact T|]. exact A.
    + destruct cont.
      * destruct (run_ev_handlers s hs) as [s1 o1] eqn:E. inversion H; subst.
        destruct (IH _ _ _ E) as (T & A). split; [exact T|]. exact A.
      * inversion H; subst. repeat split.
Qed.

Lemma change_state_spec s x s' o :
  change_state s x = (s', o) ->
  wire_types o = [] /\ s_state s' = x /\ s_settings s' = s_settings s
  /\ s_cnt_in s' = s_cnt_in s /\ s_cnt_out s' = s_cnt_out s /\ s_store s' = s_store s.
Proof.
  unfold change_state. intro H. destruct (event_of_state x) as [e|].
  - destruct (run_ev_handlers (upd_state s x) _) as [s2 o2] eqn:E. inversion H; subst.
    destruct (run_ev_handlers_spec _ _ _ _ E) as (T & A). split; [exact T|]. exact A.
  - inversion H; subst. repeat split.
Qed.

Lemma reject_message_spec cfg s d s' o :
  reject_message cfg s d = (s', o) ->
  (wire_types o = [] \/ wire_types o = [msgtype_Reject]) /\ same_control s s'
  /\ s_cnt_out s' = (s_cnt_out s + 1)%Z.
Proof.
  unfold reject_message. intro H.
  destruct (value_by_tag d tag_MsgSeqNum) as [sb| | |]; try destruct (atoi sb);
    apply session_send_spec in H; exact H.
Qed.

Lemma process_inc_seq_spec cfg s q s' o :
  process_inc_seq cfg s q = (s', o) ->
  (wire_types o = [] \/ wire_types o = [msgtype_ResendRequest]) /\ s_state s' = s_state s.
Proof.
  unfold process_inc_seq. intro H. destruct (Z.ltb _ _).
  - destruct (session_send cfg s _) as [s1 o1] eqn:E. inversion H; subst.
    destruct (session_send_spec _ _ _ _ _ E) as (T & C & _). split; [exact T|]. apply C.
  - inversion H; subst. split; [left; reflexivity|reflexivity].
Qed.
