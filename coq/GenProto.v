(* GenProto.v -- line protocol for the generator model.

   in : GEN type major minor ntypes {name cast} nfields {number name type nvalues {enum descr}}
            header trailer nmessages {compdef} ncomponents {compdef}
        compdef = name msgtype members;  members = n {member};
        member = f|g|c|o name 0|1 members;  all names hex ("x..")
   out: OK|ERR|PANIC|BADCASE followed by " ; "-separated records (names hex):
        BEGIN v ; CONST n v ; ENUM n v ; STRUCT T kind [msgtype] ; ITEM T i kv F ty | group G | comp C ;
        ACC T name idx kind type param ; ARG T i name type ; CALL T i name arg ; FLOW T name param type ;
        GROUP G entry notag ; GITEM G i ... ; SHADOW name *)
From Coq Require Import String.
From SF Require Import Proto Gen.
Import ListNotations.
Open Scope N_scope.
Open Scope string_scope.
Open Scope list_scope.

Definition p_hex : parser bytes := fun ts =>
  match ts with t :: r => match unhex t with Some b => Some (b, r) | None => None end | [] => None end.

Definition p_nat : parser nat := fun ts =>
  match ts with t :: r => match tok_nat t with Some n => Some (n, r) | None => None end | [] => None end.

Fixpoint p_member (fuel : nat) : parser member := fun ts =>
  match fuel with
  | O => None
  | S f =>
      match ts with
      | k :: nm :: rq :: cnt :: r =>
          match (match k with [102] => Some KField | [103] => Some KGroup | [99] => Some KComp | [111] => Some KOther | _ => None end),
                unhex nm, tok_bool rq, tok_nat cnt with
          | Some kd, Some name, Some req, Some n =>
              match p_count (p_member f) n r with
              | Some (subs, r') => Some (Member kd name req subs, r')
              | None => None
              end
          | _, _, _, _ => None
          end
      | _ => None
      end
  end.

Definition p_members (fuel : nat) : parser (list member) := fun ts =>
  match p_nat ts with
  | Some (n, r) => p_count (p_member fuel) n r
  | None => None
  end.

Definition p_compdef (fuel : nat) : parser compdef := fun ts =>
  match ts with
  | nm :: mt :: r =>
      match unhex nm, unhex mt, p_members fuel r with
      | Some name, Some msgtype, Some (ms, r') =>
          Some ({| cd_name := name; cd_msgtype := msgtype; cd_members := ms |}, r')
      | _, _, _ => None
      end
  | _ => None
  end.

Definition p_pair : parser (bytes * bytes) := fun ts =>
  match ts with
  | a :: b :: r => match unhex a, unhex b with Some x, Some y => Some ((x, y), r) | _, _ => None end
  | _ => None
  end.

Definition p_field : parser fielddef := fun ts =>
  match ts with
  | num :: nm :: ty :: cnt :: r =>
      match unhex num, unhex nm, unhex ty, tok_nat cnt with
      | Some number, Some name, Some type, Some n =>
          match p_count p_pair n r with
          | Some (vs, r') => Some ({| fd_number := number; fd_name := name; fd_type := type; fd_values := vs |}, r')
          | None => None
          end
      | _, _, _, _ => None
      end
  | _ => None
  end.

Definition p_list {A} (p : parser A) : parser (list A) := fun ts =>
  match p_nat ts with Some (n, r) => p_count p n r | None => None end.

Definition p_schema (fuel : nat) : parser schema := fun ts =>
  match ts with
  | ty :: ma :: mi :: r =>
      match unhex ty, unhex ma, unhex mi with
      | Some type, Some major, Some minor =>
          match p_list p_pair r with
          | Some (types, r1) =>
              match p_list p_field r1 with
              | Some (fields, r2) =>
                  match p_compdef fuel r2 with
                  | Some (hdr, r3) =>
                      match p_compdef fuel r3 with
                      | Some (trl, r4) =>
                          match p_list (p_compdef fuel) r4 with
                          | Some (msgs, r5) =>
                              match p_list (p_compdef fuel) r5 with
                              | Some (comps, r6) =>
                                  Some ({| s_type := type; s_major := major; s_minor := minor;
                                           s_header := hdr; s_trailer := trl; s_messages := msgs;
                                           s_components := comps; s_fields := fields; s_types := types |}, r6)
                              | None => None
                              end
                          | None => None
                          end
                      | None => None
                      end
                  | None => None
                  end
              | None => None
              end
          | None => None
          end
      | _, _, _ => None
      end
  | _ => None
  end.

(* -- printing ------------------------------------------------------------------------------- *)
Definition w (s : String.string) : bytes := s2b s.

Definition rec_sep : bytes := [32; 59; 32].   (* " ; " *)

Definition pr_kind (k : mkind) : bytes :=
  match k with KField => w "field" | KGroup => w "group" | KComp => w "comp" | KOther => w "other" end.

Definition pr_gitem (it : gitem) : list bytes :=
  match it with
  | GKV f t => [w "kv"; hex f; hex t]
  | GGroup g => [w "group"; hex g]
  | GComp c => [w "comp"; hex c]
  end.

Fixpoint number_from {A} (i : nat) (l : list A) : list (nat * A) :=
  match l with [] => [] | x :: r => (i, x) :: number_from (S i) r end.

Definition pr_struct (g : gstruct) : list bytes :=
  let T := hex (gs_name g) in
  [spcat ([w "STRUCT"; T] ++ match gs_message g with
                              | Some mt => [w "message"; hex mt]
                              | None => [w "component"]
                              end)]
  ++ map (fun p : nat * gitem => spcat ([w "ITEM"; T; pr_nat (fst p)] ++ pr_gitem (snd p))) (number_from 0 (gs_items g))
  ++ map (fun a => spcat [w "ACC"; T; hex (ga_name a); pr_nat (ga_index a); pr_kind (ga_kind a); hex (ga_type a); hex (ga_param a)])
         (gs_accs g)
  ++ map (fun p : nat * (bytes * bytes) => spcat [w "ARG"; T; pr_nat (fst p); hex (fst (snd p)); hex (snd (snd p))])
         (number_from 0 (gs_args g))
  ++ map (fun p : nat * (bytes * bytes) => spcat [w "CALL"; T; pr_nat (fst p); hex (fst (snd p)); hex (snd (snd p))])
         (number_from 0 (gs_calls g))
  ++ map (fun f : bytes * bytes * bytes => spcat [w "FLOW"; T; hex (fst (fst f)); hex (snd (fst f)); hex (snd f)]) (gs_flow g).

Definition pr_group (p : ggroup * gstruct) : list bytes :=
  let g := fst p in
  let G := hex (gg_name g) in
  [spcat [w "GROUP"; G; hex (gg_entry g); hex (gg_notag g)]]
  ++ map (fun q : nat * gitem => spcat ([w "GITEM"; G; pr_nat (fst q)] ++ pr_gitem (snd q))) (number_from 0 (gg_items g))
  ++ pr_struct (snd p).

Definition pr_package (s : schema) (p : gpackage) : list bytes :=
  [spcat [w "BEGIN"; hex (gp_begin p)]]
  ++ map (fun c : bytes * bytes => spcat [w "CONST"; hex (fst c); hex (snd c)]) (gp_consts p)
  ++ map (fun c : bytes * bytes => spcat [w "ENUM"; hex (fst c); hex (snd c)]) (gp_enums p)
  ++ pr_struct (gp_header p) ++ pr_struct (gp_trailer p)
  ++ flat_map pr_struct (gp_messages p)
  ++ flat_map pr_struct (gp_components p)
  ++ flat_map pr_group (gp_groups p)
  ++ map (fun n => spcat [w "SHADOW"; hex n]) (shadowed_groups s).

Definition run_gen_line (line : bytes) : bytes :=
  match tokens line with
  | cmd :: r =>
      if beq cmd (w "GEN") then
        match p_schema (List.length r) r with
        | Some (s, []) =>
            match gen s with
            | Ok p => join rec_sep (s_OK :: pr_package s p)
            | Err => s_ERR
            | Panic => s_PANIC
            | OutOfFuel => s_FUEL
            end
        | _ => s_BAD
        end
      else s_BAD
  | [] => s_BAD
  end.
