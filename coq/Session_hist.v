(* Session_hist.v -- a generic way to carry an invariant about (state, everything transmitted so
   far) through every handler and every operation of the session model, and so through whole
   histories.  The only places where the store, the outbound counter or the wire are touched are
   Session.send and the SendBatch of a ResendRequest answer; everything else "keeps" the state in
   the sense of Session_c05.keeps.  An invariant that survives those three things survives every
   history. *)
From Coq Require Import List ZArith Lia Bool.
From SF Require Import Bytes Values Wire Parse Session Bytes_proofs Session_proofs Session_clean
  Session_handlers Session_c07 Session_c05.
Import ListNotations.
Open Scope Z_scope.

Section Generic.
Variable cfg : config.
Variable Inv : sstate -> list message -> Prop.

Hypothesis Inv_keeps : forall s s' tr, Inv s tr -> keeps s s' -> Inv s' tr.
Hypothesis Inv_send : forall s m s' o tr,
  Inv s tr -> m_header m = tpl_Header -> session_send cfg s m = (s', o) -> Inv s' (tr ++ wires o).
Hypothesis Inv_batch : forall s from to ms s' o tr,
  Inv s tr -> store_messages s from to = Some ms -> send_batch cfg s ms = (s', o) -> Inv s' (tr ++ wires o).

Definition Istep (tr : list message) (s' : sstate) (o : list out) : Prop := Inv s' (tr ++ wires o).

Lemma Istep_keeps s tr s' o : Inv s tr -> keeps s s' -> wires o = [] -> Istep tr s' o.
Proof. intros HI K W. unfold Istep. rewrite W, app_nil_r. eapply Inv_keeps; eassumption. Qed.

Lemma Istep_nil s tr s' : Inv s tr -> keeps s s' -> Istep tr s' [].
Proof. intros HI K. eapply Istep_keeps; [exact HI|exact K|reflexivity]. Qed.

Lemma Istep_seq tr s1 o1 s2 o2 :
  Istep tr s1 o1 -> (forall tr1, Inv s1 tr1 -> Istep tr1 s2 o2) -> Istep tr s2 (o1 ++ o2).
Proof. unfold Istep. intros H1 H2. rewrite wires_app, app_assoc. apply H2. exact H1. Qed.

Lemma Istep_post tr s1 s2 o : Istep tr s1 o -> keeps s1 s2 -> Istep tr s2 o.
Proof. unfold Istep. intros H K. eapply Inv_keeps; eassumption. Qed.

Lemma change_state_I s x s' o tr : Inv s tr -> change_state s x = (s', o) -> Istep tr s' o.
Proof. intros HI H. destruct (change_state_keeps _ _ _ _ H) as (K & W). eapply Istep_keeps; eassumption. Qed.

Lemma session_send_I s m s' o tr :
  Inv s tr -> m_header m = tpl_Header -> session_send cfg s m = (s', o) -> Istep tr s' o.
Proof. intros. unfold Istep. eapply Inv_send; eassumption. Qed.

Lemma reject_message_I s d s' o tr : Inv s tr -> reject_message cfg s d = (s', o) -> Istep tr s' o.
Proof.
  intros HI H. rewrite reject_message_eq in H. eapply session_send_I; [exact HI|apply reject_for_header|exact H].
Qed.

Lemma process_inc_seq_I s q s' o tr : Inv s tr -> process_inc_seq cfg s q = (s', o) -> Istep tr s' o.
Proof.
  intros HI H. unfold process_inc_seq in H.
  destruct (Z.ltb (s_cnt_in s + 1) q).
  - match type of H with context [session_send cfg s ?mm] => destruct (session_send cfg s mm) as [s1 o1] eqn:E end.
    inversion H; subst.
    eapply Istep_post; [exact (session_send_I _ _ _ _ _ HI (mk_msg_header _ _) E)|].
    apply keeps_same; try reflexivity; auto.
  - inversion H; subst. eapply Istep_nil; [exact HI|]. apply keeps_same; try reflexivity; auto.
Qed.

Ltac I_reject HI H :=
  match type of H with
  | context [reject_message ?c ?s ?d] =>
      let s1 := fresh "s" in let o1 := fresh "o" in let E := fresh "E" in
      destruct (reject_message c s d) as [s1 o1] eqn:E; inversion H; subst;
      exact (reject_message_I _ _ _ _ _ HI E)
  end.

Ltac I_send HI H :=
  match type of H with
  | context [session_send ?c ?s ?m] =>
      let s1 := fresh "s" in let o1 := fresh "o" in let E := fresh "E" in
      destruct (session_send c s m) as [s1 o1] eqn:E; inversion H; subst;
      first [ exact (session_send_I _ _ _ _ _ HI (mk_msg_header _ _) E)
            | exact (session_send_I _ _ _ _ _ HI (mk_reject_header _ _ _) E) ]
  end.

Lemma run_in_handler_I s h d s' o b tr :
  Inv s tr -> run_in_handler cfg s h d = (s', o, b) -> Istep tr s' o.
Proof.
  intros HI H. destruct h as [| | | | | |g|id acc]; cbn [run_in_handler] in H.
  - (* HStoreSeq *)
    destruct (lstate_eqb (s_state s) WaitingLogonAnswer || lstate_eqb (s_state s) WaitingLogon).
    + inversion H; subst. eapply Istep_nil; [exact HI|apply keeps_refl].
    + destruct (value_by_tag d tag_MsgSeqNum) as [sb| | |]; try (inversion H; subst; eapply Istep_nil; [exact HI|apply keeps_refl]).
      destruct (atoi sb) as [q|]; try (inversion H; subst; eapply Istep_nil; [exact HI|apply keeps_refl]).
      destruct (value_by_tag d tag_MsgType) as [mt| | |]; try (inversion H; subst; eapply Istep_nil; [exact HI|apply keeps_refl]).
      destruct (c_seqreset cfg && beq mt msgtype_SequenceReset); inversion H; subst; eapply Istep_nil; try exact HI;
        [apply keeps_refl|apply keeps_upd_cnt_in].
  - (* HResend *)
    destruct (parse_as msgtype_ResendRequest tpl_ResendRequest d) as [rm| | |]; try (I_reject HI H).
    destruct (negb (is_logged s)); [I_reject HI H|].
    match type of H with context [store_messages s ?f ?t] => destruct (store_messages s f t) as [ms|] eqn:Es end.
    + destruct (send_batch cfg s ms) as [s1 o1] eqn:E. inversion H; subst.
      unfold Istep. rewrite wires_drop_err. eapply Inv_batch; eassumption.
    + inversion H; subst. eapply Istep_nil; [exact HI|apply keeps_refl].
  - (* HLogon *)
    destruct (parse_as msgtype_Logon tpl_Logon d) as [lm| | |]; try (I_reject HI H).
    destruct (s_state s).
    all: try (inversion H; subst; eapply Istep_nil; [exact HI|apply keeps_refl]).
    + (* WaitingLogon *)
      match type of H with context [upd_settings s ?ns] => set (s1 := upd_settings s ns) in * end.
      assert (HI1 : Inv s1 tr) by (eapply Inv_keeps; [exact HI|apply keeps_upd_settings]).
      match type of H with context [check_logon_params cfg s1 ?e ?hb] => destruct (check_logon_params cfg s1 e hb) end.
      * I_send HI1 H.
      * match type of H with context [c_approve cfg ?ns] => destruct (negb (c_approve cfg ns)) end.
        -- I_send HI1 H.
        -- match type of H with context [Z.leb ?hb 0] => destruct (Z.leb hb 0) end; [I_send HI1 H|].
           destruct (change_state (start_timers s1) SuccessfulLogged) as [s3 o3] eqn:E3.
           match type of H with context [session_send cfg s3 ?m] => destruct (session_send cfg s3 m) as [s4 o4] eqn:E4 end.
           match type of H with context [process_inc_seq cfg s4 ?q] => destruct (process_inc_seq cfg s4 q) as [s5 o5] eqn:E5 end.
           inversion H; subst.
           assert (HI2 : Inv (start_timers s1) tr) by (eapply Inv_keeps; [exact HI1|apply start_timers_keeps]).
           apply (Istep_seq tr s3 o3 s' (o4 ++ o5)).
           { exact (change_state_I _ _ _ _ _ HI2 E3). }
           intros tr1 I1. apply (Istep_seq tr1 s4 o4 s' o5).
           { exact (session_send_I _ _ _ _ _ I1 (mk_msg_header _ _) E4). }
           intros tr2 I2. exact (process_inc_seq_I _ _ _ _ _ I2 E5).
    + (* SuccessfulLogged *) I_send HI H.
    + (* WaitingLogonAnswer *)
      destruct (change_state s SuccessfulLogged) as [s1 o1] eqn:E1.
      match type of H with context [process_inc_seq cfg s1 ?q] => destruct (process_inc_seq cfg s1 q) as [s2 o2] eqn:E2 end.
      inversion H; subst.
      apply (Istep_seq tr s1 o1 s' o2); [exact (change_state_I _ _ _ _ _ HI E1)|].
      intros tr1 I1. exact (process_inc_seq_I _ _ _ _ _ I1 E2).
  - (* HLogout *)
    destruct (parse_as msgtype_Logout tpl_Logout d) as [lm| | |]; try (I_reject HI H).
    assert (Hmid : forall s1 o1,
               match s_state s with
               | WaitingLogoutAnswer =>
                   let '(sa, oa) := change_state s ReceivedLogoutAnswer in
                   let '(sb, ob) := change_state sa WaitingLogon in (sb, oa ++ ob)
               | SuccessfulLogged =>
                   let '(sa, oa) := change_state s WaitingLogoutAnswer in
                   let '(sb, ob) := session_send cfg sa (mk_msg msgtype_Logout tpl_Logout) in (sb, oa ++ ob)
               | _ => reject_message cfg s d
               end = (s1, o1) -> Istep tr s1 o1).
    { intros s1 o1 Hm. destruct (s_state s).
      all: try exact (reject_message_I _ _ _ _ _ HI Hm).
      - destruct (change_state s WaitingLogoutAnswer) as [sa oa] eqn:Ea.
        destruct (session_send cfg sa (mk_msg msgtype_Logout tpl_Logout)) as [sb ob] eqn:Eb. inversion Hm; subst.
        apply (Istep_seq tr sa oa s1 ob); [exact (change_state_I _ _ _ _ _ HI Ea)|].
        intros tr1 I1. exact (session_send_I _ _ _ _ _ I1 (mk_msg_header _ _) Eb).
      - destruct (change_state s ReceivedLogoutAnswer) as [sa oa] eqn:Ea.
        destruct (change_state sa WaitingLogon) as [sb ob] eqn:Eb. inversion Hm; subst.
        apply (Istep_seq tr sa oa s1 ob); [exact (change_state_I _ _ _ _ _ HI Ea)|].
        intros tr1 I1. exact (change_state_I _ _ _ _ _ I1 Eb). }
    match type of H with
    | context [let '(s1, o1) := ?X in _] => destruct X as [s1 o1] eqn:E1
    end.
    destruct (change_state (stop_timers s1) (state_after_logout cfg)) as [s3 o3] eqn:E3. inversion H; subst.
    apply (Istep_seq tr s1 o1 s' o3); [exact (Hmid _ _ eq_refl)|].
    intros tr1 I1. assert (I2 : Inv (stop_timers s1) tr1) by (eapply Inv_keeps; [exact I1|apply keeps_stop_timers]).
    exact (change_state_I _ _ _ _ _ I2 E3).
  - (* HHeartbeat *)
    destruct (parse_as msgtype_Heartbeat tpl_Heartbeat d) as [hm| | |]; try (I_reject HI H).
    destruct (negb (is_logged s)); [I_reject HI H|].
    inversion H; subst. eapply Istep_nil; [exact HI|apply keeps_refl].
  - (* HTestRequest *)
    destruct (parse_as msgtype_TestRequest tpl_TestRequest d) as [tm| | |]; try (I_reject HI H).
    destruct (negb (is_logged s)); [I_reject HI H|]. I_send HI H.
  - (* HTimerRefresh *)
    destruct (lstate_eqb (s_state s) WaitingTestReqAnswer); inversion H; subst;
      eapply Istep_nil; try exact HI; [apply keeps_upd_state|apply keeps_refl].
  - (* HApp *) inversion H; subst. eapply Istep_keeps; [exact HI|apply keeps_refl|reflexivity].
Qed.

Lemma run_in_handlers_I d hs : forall s s' o tr,
  Inv s tr -> run_in_handlers cfg s hs d = (s', o) -> Istep tr s' o.
Proof.
  induction hs as [|h hs IH]; intros s s' o tr HI H; cbn [run_in_handlers] in H.
  - inversion H; subst. eapply Istep_nil; [exact HI|apply keeps_refl].
  - destruct (run_in_handler cfg s h d) as [[s1 o1] cont] eqn:E1.
    pose proof (run_in_handler_I _ _ _ _ _ _ _ HI E1) as I1.
    destruct cont.
    + destruct (run_in_handlers cfg s1 hs d) as [s2 o2] eqn:E2. inversion H; subst.
      apply (Istep_seq tr s1 o1 s' o2); [exact I1|]. intros tr1 HI1. exact (IH _ _ _ _ HI1 E2).
    + inversion H; subst. exact I1.
Qed.

Lemma serve_I s d s' o tr : Inv s tr -> serve cfg s d = (s', o) -> Istep tr s' o.
Proof.
  intros HI H. unfold serve in H. destruct (value_by_tag d tag_MsgType) as [mt| | |].
  - destruct (run_in_handlers cfg s (pool_get (s_in s) ALL) d) as [s1 o1] eqn:E1.
    destruct (run_in_handlers cfg s1 (pool_get (s_in s1) mt) d) as [s2 o2] eqn:E2. inversion H; subst.
    apply (Istep_seq tr s1 o1 s' o2); [exact (run_in_handlers_I _ _ _ _ _ _ HI E1)|].
    intros tr1 I1. exact (run_in_handlers_I _ _ _ _ _ _ I1 E2).
  - inversion H; subst. eapply Istep_keeps; [exact HI|apply keeps_refl|reflexivity].
  - inversion H; subst. eapply Istep_keeps; [exact HI|apply keeps_refl|reflexivity].
  - inversion H; subst. eapply Istep_keeps; [exact HI|apply keeps_refl|reflexivity].
Qed.

Lemma do_logout_I s s' o tr : Inv s tr -> do_logout cfg s = (s', o) -> Istep tr s' o.
Proof.
  intros HI H. unfold do_logout in H.
  destruct (change_state s WaitingLogoutAnswer) as [s1 o1] eqn:E1.
  destruct (session_send cfg s1 (mk_msg msgtype_Logout tpl_Logout)) as [s2 o2] eqn:E2. inversion H; subst.
  apply (Istep_seq tr s1 o1 s' o2); [exact (change_state_I _ _ _ _ _ HI E1)|].
  intros tr1 I1. exact (session_send_I _ _ _ _ _ I1 (mk_msg_header _ _) E2).
Qed.

Theorem step_I s op s' o tr :
  Inv s tr -> op_clean op -> step cfg s op = (s', o) -> Istep tr s' o.
Proof.
  intros HI Hop H. destruct op as [d|a| | | |mt id acc|mt id acc am|e id c|g|g]; cbn [step] in H.
  - exact (serve_I _ _ _ _ _ HI H).
  - exact (session_send_I _ _ _ _ _ HI (build_app_header a) H).
  - exact (do_logout_I _ _ _ _ HI H).
  - match type of H with do_logout cfg ?sx = _ =>
      assert (HI1 : Inv sx tr) by (eapply Inv_keeps; [exact HI|apply keeps_ev_add]) end.
    exact (do_logout_I _ _ _ _ HI1 H).
  - inversion H; subst. eapply Istep_nil; [exact HI|]. apply keeps_same; try reflexivity; auto.
  - inversion H; subst. eapply Istep_nil; [exact HI|]. apply keeps_same; try reflexivity; auto.
  - inversion H; subst. eapply Istep_nil; [exact HI|]. apply keeps_reg_out. exact Hop.
  - inversion H; subst. eapply Istep_nil; [exact HI|]. apply keeps_ev_add.
  - destruct (negb (timer_live s g) || s_intimer_done s); [inversion H; subst; eapply Istep_nil; [exact HI|apply keeps_refl]|].
    destruct (negb (logged_or_probing s)); [inversion H; subst; eapply Istep_nil; [exact HI|apply keeps_refl]|].
    destruct (lstate_eqb (s_state s) WaitingTestReqAnswer).
    + destruct (change_state s Disconnect) as [s1 o1] eqn:E1. inversion H; subst.
      eapply Istep_post; [exact (change_state_I _ _ _ _ _ HI E1)|apply keeps_upd_timers].
    + match type of H with context [change_state ?sx WaitingTestReqAnswer] =>
        destruct (change_state sx WaitingTestReqAnswer) as [s2 o2] eqn:E2;
        assert (HIx : Inv sx tr) by (eapply Inv_keeps; [exact HI|apply keeps_upd_timers]) end.
      match type of H with context [session_send cfg s2 ?m] => destruct (session_send cfg s2 m) as [s3 o3] eqn:E3 end.
      inversion H; subst.
      apply (Istep_seq tr s2 o2 s' o3); [exact (change_state_I _ _ _ _ _ HIx E2)|].
      intros tr1 I1. exact (session_send_I _ _ _ _ _ I1 (mk_msg_header _ _) E3).
  - destruct (negb (timer_live s g)); [inversion H; subst; eapply Istep_nil; [exact HI|apply keeps_refl]|].
    destruct (negb (logged_or_probing s)); [inversion H; subst; eapply Istep_nil; [exact HI|apply keeps_refl]|].
    exact (session_send_I _ _ _ _ _ HI (mk_msg_header _ _) H).
Qed.

(* whole histories: the invariant holds of the final state and of everything transmitted *)
Theorem history_I ops : forall s s' os tr,
  Inv s tr -> Forall op_clean ops -> run_ops cfg s ops = (s', os) ->
  Inv s' (tr ++ wires (concat os)).
Proof.
  induction ops as [|op ops IH]; intros s s' os tr HI Hc H; cbn [run_ops] in H.
  - inversion H; subst. cbn [concat]. change (wires []) with (@nil message). rewrite app_nil_r. exact HI.
  - inversion Hc as [|? ? Hop Hc']; subst.
    destruct (step cfg s op) as [s1 o1] eqn:E1. destruct (run_ops cfg s1 ops) as [s2 os2] eqn:E2.
    inversion H; subst. cbn [concat]. rewrite wires_app, app_assoc.
    apply (IH _ _ _ _ (step_I _ _ _ _ _ HI Hop E1) Hc' E2).
Qed.

(* Session.Run: the handlers are registered, the initiator sends its Logon *)
Lemma run_session_I s s' o tr : Inv s tr -> run_session cfg s = (s', o) -> Istep tr s' o.
Proof.
  intros HI H. unfold run_session in H.
  set (s0 := upd_state s WaitingLogon) in *.
  set (s1 := upd_pools s0 (s_in s0) (s_out s0) (ev_add (s_ev s0) EvDisconnect EDisconnectCancel)) in *.
  assert (HI1 : Inv s1 tr).
  { eapply Inv_keeps; [exact HI|]. eapply keeps_trans; [apply (keeps_upd_state s WaitingLogon)|apply keeps_ev_add]. }
  destruct (c_side cfg).
  - inversion H; subst. eapply Istep_nil; [exact HI1|]. apply keeps_same; try reflexivity; auto.
  - match type of H with context [session_send cfg ?sa ?m] =>
      destruct (session_send cfg sa m) as [sb ob] eqn:E;
      assert (HIa : Inv sa tr) by (eapply Inv_keeps; [exact HI1|apply keeps_upd_state]) end.
    inversion H; subst.
    eapply Istep_post; [exact (session_send_I _ _ _ _ _ HIa (mk_msg_header _ _) E)|].
    eapply keeps_trans; [apply keeps_ev_add|]. apply keeps_same; try reflexivity; auto.
Qed.

(* a session run from construction: Run, then any history *)
Theorem session_history_I ops s s0 o0 s' os tr :
  Inv s tr -> run_session cfg s = (s0, o0) -> Forall op_clean ops -> run_ops cfg s0 ops = (s', os) ->
  Inv s' (tr ++ wires (o0 ++ concat os)).
Proof.
  intros HI H0 Hc H. rewrite wires_app, app_assoc.
  exact (history_I ops _ _ _ _ (run_session_I _ _ _ _ HI H0) Hc H).
Qed.

(* a whole lifetime: construction, whatever the application does before Run (registrations), Run,
   then any history *)
Theorem lifetime_I pre ops s sp op s0 o0 s' os tr :
  Inv s tr -> Forall op_clean pre -> run_ops cfg s pre = (sp, op) ->
  run_session cfg sp = (s0, o0) -> Forall op_clean ops -> run_ops cfg s0 ops = (s', os) ->
  Inv s' (tr ++ wires (concat op ++ o0 ++ concat os)).
Proof.
  intros HI Hp Hpre H0 Hc H. rewrite wires_app, app_assoc.
  exact (session_history_I ops _ _ _ _ _ _ (history_I pre _ _ _ _ HI Hp Hpre) H0 Hc H).
Qed.

End Generic.

(* ---- instance: the numbering invariant of Session_c05, now from Session.Run onwards ---- *)
Section Numbering.
Variable cfg : config.
Variable c : Z.

Definition N5 (s : sstate) (tr : list message) : Prop :=
  exists w, numbered c (map seq_of tr) w /\ J cfg s w.

Lemma N5_keeps s s' tr : N5 s tr -> keeps s s' -> N5 s' tr.
Proof. intros (w & N & HJ) K. exists w. split; [exact N|eapply J_keeps; eassumption]. Qed.

Lemma N5_send s m s' o tr :
  N5 s tr -> m_header m = tpl_Header -> session_send cfg s m = (s', o) -> N5 s' (tr ++ wires o).
Proof.
  intros (w & N & HJ) Hh H. destruct (session_send_J cfg s m s' o w HJ Hh H) as (w' & N' & J').
  exists w'. split; [|exact J']. rewrite map_app. eapply numbered_app; [exact N|exact N'].
Qed.

Lemma N5_batch s from to ms s' o tr :
  N5 s tr -> store_messages s from to = Some ms -> send_batch cfg s ms = (s', o) -> N5 s' (tr ++ wires o).
Proof.
  intros (w & N & HJ) Hs H.
  assert (Hst : store_ok s) by (destruct HJ as (_ & _ & Hst & _); exact Hst).
  destruct (send_batch_J cfg ms s s' o w HJ (stored_are_old _ _ _ _ Hst Hs) H) as (N' & J').
  exists w. split; [|exact J']. rewrite map_app. eapply numbered_app; [exact N|exact N'].
Qed.

Theorem session_numbered pre ops s sp op s0 o0 s' os :
  J cfg s c -> Forall op_clean pre -> run_ops cfg s pre = (sp, op) ->
  run_session cfg sp = (s0, o0) -> Forall op_clean ops -> run_ops cfg s0 ops = (s', os) ->
  exists w', numbered c (wire_seqs (concat op ++ o0 ++ concat os)) w' /\ J cfg s' w'.
Proof.
  intros HJ Hp Hpre H0 Hc H.
  assert (H5 : N5 s []) by (exists c; split; [constructor|exact HJ]).
  exact (lifetime_I cfg N5 N5_keeps N5_send N5_batch pre ops s sp op s0 o0 s' os [] H5 Hp Hpre H0 Hc H).
Qed.
End Numbering.

(* C05 over whole sessions: construction, what the application does before Run, Run (the
   initiator's Logon included), then any history *)
Theorem C05_session cfg ci c store pre ops sp op s0 o0 s' os :
  c_fail_saves cfg = [] ->
  (forall k m, store_get store k = Some m -> seq_of m <= c) ->
  Forall op_clean pre -> run_ops cfg (init_state cfg ci c store) pre = (sp, op) ->
  run_session cfg sp = (s0, o0) ->
  Forall op_clean ops -> run_ops cfg s0 ops = (s', os) ->
  let sent := wire_seqs (concat op ++ o0 ++ concat os) in
  exists w',
    numbered c sent w'
    /\ fresh c sent = zrange c (Z.to_nat (w' - c))
    /\ w' <= s_cnt_out s' /\ (s_router_stopped s' = false -> w' = s_cnt_out s').
Proof.
  intros Hf Hst Hp Hpre H0 Hc H sent.
  destruct (session_numbered cfg c pre ops _ _ _ _ _ _ _ (init_J cfg ci c store Hf Hst) Hp Hpre H0 Hc H) as (w' & N & (_ & _ & _ & Hw & Hr)).
  exists w'. split; [exact N|]. split; [exact (numbered_fresh _ _ _ N)|]. split; assumption.
Qed.
