(* Fields_proofs.v -- the wire image as a list of fields (C17). *)
From SF Require Import Bytes Values Wire Bytes_proofs Wire_proofs Item_ind.
Open Scope N_scope.

(* ---- specification: the fields a populated item tree denotes ---- *)

(* canonical text of a value and whether the application populated it *)
Definition canon (v : value) : bytes :=
  match v with
  | VString _ s => s
  | VInt _ z => itoa z
  | VUint _ n => utoa n
  | VFloat _ (Some src) _ => src
  | VFloat _ None text => text
  | VTime _ text => text
  | VBool _ b => if b then [89] else [78]
  | VRaw (Some d) => d
  | VRaw None => []
  end.

Definition populated (v : value) : bool :=
  negb (is_null v) &&
  match v with VString _ s => negb (is_nil s) | _ => true end.

Definition render (tag : bytes) (v : value) : bytes := tag ++ EQS :: canon v.

Fixpoint fields_of (it : item) : list bytes :=
  match it with
  | IKV tag v => if populated v then [render tag v] else []
  | IGroup notag _ es =>
      match es with
      | [] => []
      | _ => (notag ++ EQS :: itoa (Z.of_nat (length es)))
             :: flat_map (fun e => flat_map fields_of e) es
      end
  | IComp items => flat_map fields_of items
  end.

Definition fields_of_list (l : list item) : list bytes := flat_map fields_of l.

(* every group entry, at every depth, has at least one populated member *)
Fixpoint entries_ok (it : item) : bool :=
  match it with
  | IKV _ _ => true
  | IGroup _ _ es =>
      forallb (fun e => negb (match flat_map fields_of e with [] => true | _ => false end)
                        && forallb entries_ok e) es
  | IComp items => forallb entries_ok items
  end.

(* ---- join algebra ---- *)

Lemma join_cons2 sep (a b : bytes) l : join sep (a :: b :: l) = a ++ sep ++ join sep (b :: l).
Proof. reflexivity. Qed.

Lemma join_app sep (a b : list bytes) :
  a <> [] -> b <> [] -> join sep (a ++ b) = join sep a ++ sep ++ join sep b.
Proof.
  intros Ha Hb. induction a as [|x a IH]; [contradiction|].
  destruct a as [|y a].
  - cbn [app]. destruct b as [|z b]; [contradiction|]. reflexivity.
  - change ((x :: y :: a) ++ b) with (x :: (y :: a) ++ b).
    cbn [app]. rewrite join_cons2. cbn [app] in IH. rewrite IH by discriminate.
    rewrite join_cons2. rewrite <- !app_assoc. reflexivity.
Qed.

Lemma join_flat sep (groups : list (list bytes)) :
  Forall (fun g => g <> []) groups ->
  join sep (map (join sep) groups) = join sep (concat groups).
Proof.
  induction groups as [|g gs IH]; intro H; [reflexivity|].
  inversion H as [|? ? Hg Hgs]; subst. specialize (IH Hgs).
  destruct gs as [|g2 gs].
  - cbn. rewrite app_nil_r. reflexivity.
  - cbn [map]. rewrite join_cons2.
    change (concat (g :: g2 :: gs)) with (g ++ concat (g2 :: gs)).
    assert (Hne : concat (g2 :: gs) <> []).
    { inversion Hgs; subst. cbn [concat]. destruct g2; [contradiction|discriminate]. }
    rewrite (join_app sep g (concat (g2 :: gs)) Hg Hne).
    cbn [map] in IH. rewrite IH. reflexivity.
Qed.

Lemma concat_nonnil_filter (l : list (list bytes)) :
  concat (filter (fun g => match g with [] => false | _ => true end) l) = concat l.
Proof.
  induction l as [|g l IH]; [reflexivity|]. cbn [filter].
  destruct g; cbn [concat]; rewrite IH; reflexivity.
Qed.

(* ---- item_to_bytes in terms of fields ---- *)

Definition obj_of_fields (fs : list bytes) : option bytes :=
  match fs with [] => None | _ => Some (join [SOH] fs) end.

Lemma kv_to_bytes_fields tag v :
  kv_to_bytes tag v = obj_of_fields (if populated v then [render tag v] else []).
Proof.
  unfold kv_to_bytes, populated, render.
  destruct v as [valid s|valid z|valid n|valid src text|valid text|valid b|o];
    cbn [is_null val_to_bytes canon negb andb].
  - destruct valid; cbn [negb andb]; [|reflexivity]. destruct s; reflexivity.
  - destruct valid; reflexivity.
  - destruct valid; reflexivity.
  - destruct valid; [|reflexivity]. destruct src; reflexivity.
  - destruct valid; reflexivity.
  - destruct valid; [|reflexivity]. destruct b; reflexivity.
  - destruct o; reflexivity.
Qed.

(* somes of per-item bytes = joins of the non-empty field groups *)
Lemma somes_map_fields (l : list item) :
  Forall (fun it => item_to_bytes it = obj_of_fields (fields_of it)) l ->
  somes (map item_to_bytes l) =
  map (join [SOH]) (filter (fun g => match g with [] => false | _ => true end) (map fields_of l)).
Proof.
  induction l as [|it l IH]; intro H; [reflexivity|].
  inversion H as [|? ? Hit Hl]; subst. cbn [map]. rewrite Hit.
  destruct (fields_of it) eqn:E; cbn [obj_of_fields somes filter map]; rewrite (IH Hl); reflexivity.
Qed.

Lemma filter_nonnil_forall (l : list (list bytes)) :
  Forall (fun g => g <> []) (filter (fun g => match g with [] => false | _ => true end) l).
Proof.
  induction l as [|g l IH]; [constructor|]. cbn [filter]. destruct g; [exact IH|].
  constructor; [discriminate|exact IH].
Qed.

Lemma items_join_fields (l : list item) :
  Forall (fun it => item_to_bytes it = obj_of_fields (fields_of it)) l ->
  join [SOH] (somes (map item_to_bytes l)) = join [SOH] (flat_map fields_of l)
  /\ (somes (map item_to_bytes l) = [] <-> flat_map fields_of l = []).
Proof.
  intro H. rewrite (somes_map_fields l H). rewrite flat_map_concat_map.
  rewrite <- (concat_nonnil_filter (map fields_of l)).
  split.
  - apply join_flat. apply filter_nonnil_forall.
  - set (F := filter _ _). pose proof (filter_nonnil_forall (map fields_of l)) as HF. fold F in HF.
    destruct F as [|g F']; [split; reflexivity|].
    inversion HF; subst. split; [discriminate|].
    cbn [concat]. destruct g; [contradiction|discriminate].
Qed.

Lemma item_fields (it : item) :
  entries_ok it = true -> item_to_bytes it = obj_of_fields (fields_of it).
Proof.
  induction it as [tag v|notag tpl es IHtpl IHes|items IH] using item_ind2; intro Hok.
  - cbn [item_to_bytes fields_of]. apply kv_to_bytes_fields.
  - rewrite item_to_bytes_group. cbn [fields_of].
    destruct es as [|e es]; [reflexivity|].
    set (ES := e :: es) in *.
    cbn [obj_of_fields]. f_equal.
    (* each entry's bytes = join of its fields, and the fields are non-empty *)
    cbn [entries_ok] in Hok. rewrite forallb_forall in Hok.
    assert (Hmap : map items_to_bytes ES = map (join [SOH]) (map (fun e => flat_map fields_of e) ES)).
    { rewrite map_map. apply map_ext_in. intros e' He'.
      specialize (Hok e' He'). apply andb_prop in Hok as [_ Hok2].
      rewrite forallb_forall in Hok2.
      rewrite Forall_forall in IHes. specialize (IHes e' He').
      assert (HF : Forall (fun it => item_to_bytes it = obj_of_fields (fields_of it)) e').
      { rewrite Forall_forall in *. intros it Hit. apply IHes; [exact Hit|]. apply Hok2. exact Hit. }
      unfold items_to_bytes. apply (items_join_fields e' HF). }
    rewrite Hmap.
    assert (Hne : Forall (fun g : list bytes => g <> []) (map (fun e => flat_map fields_of e) ES)).
    { rewrite Forall_forall. intros g Hg. apply in_map_iff in Hg as [e' [<- He']].
      specialize (Hok e' He'). apply andb_prop in Hok as [Hok1 _].
      destruct (flat_map fields_of e'); [discriminate|discriminate]. }
    change ((notag ++ EQS :: itoa (Z.of_nat (length ES))) :: map (join [SOH]) (map (fun e => flat_map fields_of e) ES))
      with (map (join [SOH]) ([notag ++ EQS :: itoa (Z.of_nat (length ES))] :: map (fun e => flat_map fields_of e) ES)).
    rewrite join_flat.
    + cbn [concat app]. rewrite flat_map_concat_map. reflexivity.
    + constructor; [discriminate|exact Hne].
  - rewrite item_to_bytes_comp. cbn [fields_of].
    cbn [entries_ok] in Hok. rewrite forallb_forall in Hok.
    assert (HF : Forall (fun it => item_to_bytes it = obj_of_fields (fields_of it)) items).
    { rewrite Forall_forall in *. intros it Hit. apply IH; [exact Hit|]. apply Hok. exact Hit. }
    destruct (items_join_fields items HF) as [Hj Hnil].
    destruct (somes (map item_to_bytes items)) eqn:E.
    + destruct Hnil as [Hn _]. rewrite (Hn eq_refl). reflexivity.
    + destruct (flat_map fields_of items) eqn:E2.
      * destruct Hnil as [_ Hn]. specialize (Hn eq_refl). discriminate.
      * cbn [obj_of_fields]. f_equal. exact Hj.
Qed.

(* ---- every field carries '=' hence is non-empty ---- *)

Lemma fields_of_nonnil (it : item) : Forall (fun f => f <> []) (fields_of it).
Proof.
  induction it as [tag v|notag tpl es IHtpl IHes|items IH] using item_ind2.
  - cbn [fields_of]. destruct (populated v); [|constructor].
    constructor; [|constructor]. unfold render. destruct tag; discriminate.
  - cbn [fields_of]. destruct es as [|e es]; [constructor|].
    constructor; [destruct notag; discriminate|].
    rewrite Forall_forall. intros f Hf. apply in_flat_map in Hf as [e' [He' Hf]].
    apply in_flat_map in Hf as [it [Hit Hf]].
    rewrite Forall_forall in IHes. specialize (IHes e' He'). rewrite Forall_forall in IHes.
    specialize (IHes it Hit). rewrite Forall_forall in IHes. apply IHes. exact Hf.
  - cbn [fields_of]. rewrite Forall_forall. intros f Hf. apply in_flat_map in Hf as [it [Hit Hf]].
    rewrite Forall_forall in IH. specialize (IH it Hit). rewrite Forall_forall in IH. apply IH. exact Hf.
Qed.

Lemma fields_of_list_nonnil l : Forall (fun f => f <> []) (fields_of_list l).
Proof.
  unfold fields_of_list. rewrite Forall_forall. intros f Hf. apply in_flat_map in Hf as [it [_ Hf]].
  pose proof (fields_of_nonnil it) as H. rewrite Forall_forall in H. apply H. exact Hf.
Qed.

(* each field followed by its delimiter *)
Definition term (fs : list bytes) : bytes := flat_map (fun f => f ++ [SOH]) fs.

Lemma term_app a b : term (a ++ b) = term a ++ term b.
Proof. unfold term. apply flat_map_app. Qed.

Lemma term_cons f fs : term (f :: fs) = f ++ SOH :: term fs.
Proof. unfold term. cbn [flat_map]. rewrite <- app_assoc. reflexivity. Qed.

Lemma join_term fs : fs <> [] -> join [SOH] fs ++ [SOH] = term fs.
Proof.
  induction fs as [|f fs IH]; [contradiction|]. intros _.
  destruct fs as [|g fs].
  - cbn. rewrite app_nil_r. reflexivity.
  - rewrite join_cons2, term_cons. rewrite <- !app_assoc. f_equal. cbn [app]. f_equal.
    apply IH. discriminate.
Qed.

Lemma sohterm_join fs :
  Forall (fun f => f <> []) fs -> sohterm (join [SOH] fs) = term fs.
Proof.
  intro H. unfold sohterm. destruct fs as [|f fs]; [reflexivity|].
  inversion H; subst.
  assert (Hn : is_nil (join [SOH] (f :: fs)) = false).
  { destruct fs; cbn [join]; destruct f; try contradiction; reflexivity. }
  rewrite Hn. apply join_term. discriminate.
Qed.

Definition list_ok (l : list item) : bool := forallb entries_ok l.

Lemma list_fields l :
  list_ok l = true ->
  Forall (fun it => item_to_bytes it = obj_of_fields (fields_of it)) l.
Proof.
  unfold list_ok. rewrite forallb_forall, Forall_forall. intros H it Hit. apply item_fields, H, Hit.
Qed.

Lemma items_to_bytes_fields l :
  list_ok l = true -> items_to_bytes l = join [SOH] (fields_of_list l).
Proof. intro H. unfold items_to_bytes, fields_of_list. apply (items_join_fields l (list_fields l H)). Qed.

Lemma comp_obytes_fields l :
  list_ok l = true -> obytes (item_to_bytes (IComp l)) = join [SOH] (fields_of_list l).
Proof.
  intro H. rewrite item_to_bytes_comp.
  destruct (items_join_fields l (list_fields l H)) as [Hj Hn].
  destruct (somes (map item_to_bytes l)) eqn:E.
  - destruct Hn as [Hn _]. unfold fields_of_list. rewrite (Hn eq_refl). reflexivity.
  - cbn [obytes]. exact Hj.
Qed.

Definition trailer_items (m : message) : list item :=
  filter (fun it => negb (is_cs_kv (m_cs_tag m) it)) (m_trailer m).

Lemma trailer_obytes_fields m :
  list_ok (trailer_items m) = true ->
  obytes (trailer_bytes m) = join [SOH] (fields_of_list (trailer_items m)).
Proof.
  intro H. unfold trailer_bytes. fold (trailer_items m).
  destruct (items_join_fields _ (list_fields _ H)) as [Hj Hn].
  destruct (somes (map item_to_bytes (trailer_items m))) eqn:E.
  - destruct Hn as [Hn _]. unfold fields_of_list. rewrite (Hn eq_refl). reflexivity.
  - cbn [obytes]. exact Hj.
Qed.

(* the complete field list of a serialized message *)
Definition msg_fields (m : message) (bsF blF mtF csF : bytes) : list bytes :=
  [bsF; blF; mtF] ++ fields_of_list (m_header m) ++ fields_of_list (m_body m)
  ++ fields_of_list (trailer_items m) ++ [csF].

Theorem to_bytes_fields :
  forall (m : message) (bsF mtF : bytes),
    kv_to_bytes (m_bs_tag m) (m_bs m) = Some bsF ->
    kv_to_bytes (m_mt_tag m) (m_mt m) = Some mtF ->
    list_ok (m_header m) = true -> list_ok (m_body m) = true -> list_ok (trailer_items m) = true ->
    exists blv csv,
      to_bytes m = term (msg_fields m bsF (m_bl_tag m ++ EQS :: blv) mtF (m_cs_tag m ++ EQS :: csv)).
Proof.
  intros m bsF mtF Hbs Hmt Hh Hb Ht.
  pose proof (to_bytes_shape m bsF mtF Hbs Hmt) as S. cbv zeta in S.
  assert (HR : counted_region m mtF =
               mtF ++ SOH :: term (fields_of_list (m_header m)) ++ term (fields_of_list (m_body m))
                   ++ term (fields_of_list (trailer_items m))).
  { unfold counted_region.
    rewrite (comp_obytes_fields _ Hh), (items_to_bytes_fields _ Hb), (trailer_obytes_fields _ Ht).
    rewrite !sohterm_join by apply fields_of_list_nonnil. reflexivity. }
  set (R := counted_region m mtF) in *.
  set (L := itoa (Z.of_nat (length R))) in *.
  set (C := pad3 _) in S.
  exists L, C. rewrite S. clearbody L C. rewrite HR.
  unfold msg_fields. rewrite !term_app, !term_cons. change (term []) with (@nil N).
  repeat (rewrite <- ?app_assoc; cbn [app]).
  rewrite ?app_nil_r. reflexivity.
Qed.

(* ---- tokenizing the wire image back into its fields ---- *)

Definition sohfree (f : bytes) : Prop := Forall (fun b => b <> SOH) f.

Lemma split_soh_aux_field cur f rest :
  sohfree f ->
  split_soh_aux cur (f ++ SOH :: rest) = (rev cur ++ f) :: split_soh_aux [] rest.
Proof.
  revert cur. induction f as [|b f IH]; intros cur H.
  - cbn [app split_soh_aux]. rewrite N.eqb_refl. rewrite app_nil_r. reflexivity.
  - inversion H as [|? ? Hb Hf]; subst. cbn [app split_soh_aux].
    destruct (N.eqb_spec b SOH) as [E|_]; [contradiction|].
    rewrite (IH (b :: cur) Hf). cbn [rev]. rewrite <- app_assoc. reflexivity.
Qed.

Lemma split_soh_term fs : Forall sohfree fs -> split_soh (term fs) = fs ++ [[]].
Proof.
  unfold split_soh. induction fs as [|f fs IH]; intro H; [reflexivity|].
  inversion H; subst. rewrite term_cons, split_soh_aux_field by assumption.
  cbn [rev app]. f_equal. apply IH. assumption.
Qed.

(* C17 *)
Theorem C17_exact_fields :
  forall (m : message) (bsF mtF : bytes),
    kv_to_bytes (m_bs_tag m) (m_bs m) = Some bsF ->
    kv_to_bytes (m_mt_tag m) (m_mt m) = Some mtF ->
    (* every group entry has at least one populated member *)
    list_ok (m_header m) = true -> list_ok (m_body m) = true -> list_ok (trailer_items m) = true ->
    exists blv csv,
      let fs := msg_fields m bsF (m_bl_tag m ++ EQS :: blv) mtF (m_cs_tag m ++ EQS :: csv) in
      (* every field, and nothing else, each followed by one delimiter *)
      to_bytes m = term fs
      (* and when no tag or value contains the delimiter, splitting on it gives the fields back *)
      /\ (Forall sohfree fs -> split_soh (to_bytes m) = fs ++ [[]]).
Proof.
  intros m bsF mtF Hbs Hmt Hh Hb Ht.
  destruct (to_bytes_fields m bsF mtF Hbs Hmt Hh Hb Ht) as [blv [csv E]].
  exists blv, csv. cbv zeta. split; [exact E|].
  intro Hs. rewrite E. apply split_soh_term. exact Hs.
Qed.

(* "populated" is what the public API produces: constructors, setters and
   parsing all yield a value that is populated and whose canonical text is
   the text of the value given *)
Lemma api_populates :
  (forall s, s <> [] -> populated (new_string s) = true /\ canon (new_string s) = s) /\
  (forall z, populated (new_int z) = true /\ canon (new_int z) = itoa z) /\
  (forall n, populated (new_uint n) = true /\ canon (new_uint n) = utoa n) /\
  (forall t, populated (new_float t) = true /\ canon (new_float t) = t) /\
  (forall t, populated (new_time t) = true /\ canon (new_time t) = t) /\
  (forall d, populated (new_raw (Some d)) = true /\ canon (new_raw (Some d)) = d) /\
  (forall v s, s <> [] -> populated (set_string v s) = true /\ canon (set_string v s) = s) /\
  (forall v z, populated (set_int v z) = true /\ canon (set_int v z) = itoa z) /\
  (forall v n, populated (set_uint v n) = true /\ canon (set_uint v n) = utoa n) /\
  (forall v t, populated (set_float v t) = true /\ canon (set_float v t) = t) /\
  (forall v t, populated (set_time v t) = true /\ canon (set_time v t) = t) /\
  (forall v b, populated (set_bool v b) = true /\ canon (set_bool v b) = if b then [89] else [78]) /\
  (forall v d, populated (set_raw v d) = true /\ canon (set_raw v d) = d).
Proof.
  repeat split; try reflexivity;
    match goal with |- populated _ = true => unfold populated; cbn; destruct s; [contradiction|reflexivity] end.
Qed.

Lemma parse_populates o v d v' :
  d <> [] -> val_from_bytes o v d = Ok v' -> populated v' = true.
Proof.
  intros Hd H. destruct v; cbn [val_from_bytes] in H.
  - inversion H; subst. unfold populated. cbn. destruct d; [contradiction|reflexivity].
  - destruct (atoi d); inversion H; reflexivity.
  - destruct (parse_uint d); inversion H; reflexivity.
  - destruct (float_ok o d); inversion H; reflexivity.
  - destruct (time_canon o d); inversion H; reflexivity.
  - inversion H; reflexivity.
  - inversion H; reflexivity.
Qed.

(* unpopulated fields are absent *)
Lemma unpopulated_absent tag v : populated v = false -> fields_of (IKV tag v) = [].
Proof. intro H. cbn [fields_of]. rewrite H. reflexivity. Qed.

(* a group contributes its count field first, equal to its number of entries *)
Lemma group_count_first notag tpl e es :
  exists rest, fields_of (IGroup notag tpl (e :: es)) =
               (notag ++ EQS :: itoa (Z.of_nat (length (e :: es)))) :: rest.
Proof. eexists. reflexivity. Qed.

Example ex_c17 :
  list_ok (m_body ex_c01_msg) = true /\
  length (fields_of_list (m_body ex_c01_msg)) = 6%nat.
Proof. vm_compute. split; reflexivity. Qed.
