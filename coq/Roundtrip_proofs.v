(* Roundtrip_proofs.v -- parsing inverts serialization (C02). *)
From SF Require Import Bytes Values Wire Parse Bytes_proofs Wire_proofs Item_ind Fields_proofs
  Parse_unfold Safety_proofs Lookup_proofs.
Open Scope N_scope.

(* the form in which a populated value comes back from the parser *)
Definition norm (v : value) : value :=
  if populated v then
    match v with
    | VString _ s => VString true s
    | VInt _ z => VInt true z
    | VUint _ n => VUint true n
    | VFloat _ _ _ => VFloat true (Some (canon v)) (canon v)
    | VTime _ t => VTime true t
    | VBool _ b => VBool true b
    | VRaw o => VRaw o
    end
  else val_empty v.

(* a value the property quantifies over: canonical for its type *)
Definition good_value (o : oracle) (v : value) : Prop :=
  match v with
  | VString _ _ => True
  | VInt _ z => in_int_range z = true
  | VUint _ n => n <= uint64_max
  | VFloat _ _ _ => float_ok o (canon v) = true       (* ParseFloat accepts the formatter's text *)
  | VTime _ t => time_canon o t = Some t              (* Parse . Format = id at ms precision *)
  | VBool _ _ => True
  | VRaw _ => True
  end.

Lemma beq_Y (b : bool) : beq (if b then [89] else [78]) [89] = b.
Proof. destruct b; reflexivity. Qed.

Theorem value_roundtrip o v :
  populated v = true -> good_value o v ->
  val_from_bytes o (val_empty v) (canon v) = Ok (norm v).
Proof.
  intros Hp Hg. unfold norm. rewrite Hp.
  destruct v as [valid s|valid z|valid n|valid src text|valid text|valid b|r];
    cbn [val_empty val_from_bytes canon good_value] in *.
  - reflexivity.
  - rewrite (atoi_itoa z Hg). reflexivity.
  - rewrite (parse_uint_utoa n Hg). reflexivity.
  - destruct src; rewrite Hg; reflexivity.
  - rewrite Hg. reflexivity.
  - rewrite beq_Y. reflexivity.
  - destruct r; [reflexivity|]. unfold populated in Hp. cbn in Hp. discriminate.
Qed.

(* the parsed form serializes to the same bytes and is populated alike *)
Lemma norm_to_bytes tag v : kv_to_bytes tag (norm v) = kv_to_bytes tag v.
Proof.
  unfold norm. destruct (populated v) eqn:P.
  - destruct v as [valid s|valid z|valid n|valid src text|valid text|valid b|r];
      unfold populated in P; cbn [is_null negb andb] in P.
    + destruct valid; [|discriminate]. reflexivity.
    + destruct valid; [|discriminate]. reflexivity.
    + destruct valid; [|discriminate]. reflexivity.
    + destruct valid; [|discriminate]. destruct src; reflexivity.
    + destruct valid; [|discriminate]. reflexivity.
    + destruct valid; [|discriminate]. reflexivity.
    + reflexivity.
  - rewrite !kv_to_bytes_fields. rewrite P.
    assert (H : populated (val_empty v) = false) by (destruct v; reflexivity).
    rewrite H. reflexivity.
Qed.

Lemma norm_canon v : populated v = true -> canon (norm v) = canon v /\ populated (norm v) = true.
Proof.
  intro P. unfold norm. rewrite P.
  destruct v as [valid s|valid z|valid n|valid src text|valid text|valid b|r];
    unfold populated in *; cbn [is_null negb andb canon] in *.
  - destruct valid; [|discriminate]. split; [reflexivity|exact P].
  - split; reflexivity.
  - split; reflexivity.
  - destruct src; split; reflexivity.
  - split; reflexivity.
  - split; reflexivity.
  - split; [reflexivity|exact P].
Qed.
