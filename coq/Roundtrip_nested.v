(* Roundtrip_nested.v -- C02 at full strength: the round trip for messages whose repeating groups
   nest to any depth (a group entry may itself contain groups, and components may contain groups). *)
From SF Require Import Bytes Values Wire Parse Bytes_proofs Wire_proofs Item_ind Fields_proofs
  Parse_unfold Safety_proofs Lookup_proofs Validate_proofs Damage_proofs Roundtrip_proofs
  Validate_complete Roundtrip_flat Roundtrip_group.
Open Scope N_scope.

(* ---- wire image, tags and normal form of arbitrary items ---- *)
Fixpoint wpf (it : item) : list pfield :=
  match it with
  | IKV tag v => pf_of (tag, v)
  | IComp items => flat_map wpf items
  | IGroup notag _ es =>
      match es with
      | [] => []
      | _ => (notag, itoa (Z.of_nat (length es))) :: flat_map (fun e => flat_map wpf e) es
      end
  end.

Fixpoint tags_of (it : item) : list bytes :=
  match it with
  | IKV tag _ => [tag]
  | IComp items => flat_map tags_of items
  | IGroup notag tpl _ => notag :: flat_map tags_of tpl
  end.

Fixpoint norm_all (it : item) : item :=
  match it with
  | IKV tag v => IKV tag (norm v)
  | IComp items => IComp (map norm_all items)
  | IGroup notag tpl es => IGroup notag (map as_template tpl) (map (map norm_all) es)
  end.

(* well-formed items: values as in [wf_kv]; every group entry has the shape of the group's template
   and starts with a populated key-value (the delimiter field) *)
Inductive wfi (o : oracle) : item -> Prop :=
| wfi_kv tag v : wf_kv o (tag, v) -> wfi o (IKV tag v)
| wfi_comp items : Forall (wfi o) items -> wfi o (IComp items)
| wfi_group notag tpl es :
    digits notag ->
    Forall (fun e => map as_template e = map as_template tpl /\ Forall (wfi o) e
                     /\ exists t1 v r, e = IKV t1 v :: r /\ populated v = true) es ->
    in_int_range (Z.of_nat (length es)) = true ->
    wfi o (IGroup notag tpl es).

(* ---- the wire image is the field list, for every item ---- *)
Lemma flat_map_ext_Forall {A B} (f g : A -> list B) l :
  Forall (fun x => f x = g x) l -> flat_map f l = flat_map g l.
Proof. induction 1; [reflexivity|]. cbn [flat_map]. congruence. Qed.

Lemma flat_map_prender {A} (f : A -> list bytes) (g : A -> list pfield) l :
  Forall (fun x => f x = map prender (g x)) l -> flat_map f l = map prender (flat_map g l).
Proof.
  induction 1 as [|x l Hx Hl IH]; [reflexivity|]. cbn [flat_map]. rewrite map_app, Hx, IH. reflexivity.
Qed.

Lemma fields_wpf it : fields_of it = map prender (wpf it).
Proof.
  induction it as [tag v|notag tpl es _ IHes|items IH] using item_ind2.
  - cbn [fields_of wpf]. unfold pf_of; cbn [fst snd]. destruct (populated v); reflexivity.
  - cbn [fields_of wpf]. destruct es as [|e es]; [reflexivity|].
    cbn [map]. unfold prender at 1. cbn [fst snd]. f_equal.
    apply flat_map_prender. eapply Forall_impl; [|exact IHes].
    intros x Hx. apply flat_map_prender. exact Hx.
  - cbn [fields_of wpf]. apply flat_map_prender. exact IH.
Qed.

Lemma fields_list_wpf l : fields_of_list l = map prender (flat_map wpf l).
Proof.
  unfold fields_of_list. induction l as [|i l IH]; [reflexivity|].
  cbn [flat_map]. rewrite map_app, IH, fields_wpf. reflexivity.
Qed.

(* ---- templates ---- *)
Lemma as_template_idem it : as_template (as_template it) = as_template it.
Proof.
  induction it as [tag v|notag tpl es IHt _|items IH] using item_ind2.
  - cbn [as_template]. rewrite val_empty_idem. reflexivity.
  - rewrite as_template_group. rewrite as_template_group. f_equal.
    rewrite map_map. apply map_ext_Forall. exact IHt.
  - rewrite as_template_comp. rewrite as_template_comp. f_equal.
    rewrite map_map. apply map_ext_Forall. exact IH.
Qed.

Lemma map_as_template_idem l : map as_template (map as_template l) = map as_template l.
Proof. rewrite map_map. apply map_ext. intro. apply as_template_idem. Qed.

Lemma tags_template it : tags_of (as_template it) = tags_of it.
Proof.
  induction it as [tag v|notag tpl es IHt _|items IH] using item_ind2.
  - reflexivity.
  - rewrite as_template_group. cbn [tags_of]. f_equal.
    rewrite flat_map_concat_map, map_map, <- flat_map_concat_map. apply flat_map_ext_Forall. exact IHt.
  - rewrite as_template_comp. cbn [tags_of].
    rewrite flat_map_concat_map, map_map, <- flat_map_concat_map. apply flat_map_ext_Forall. exact IH.
Qed.

Lemma tags_list_template l : flat_map tags_of (map as_template l) = flat_map tags_of l.
Proof.
  rewrite flat_map_concat_map, map_map, <- flat_map_concat_map. apply flat_map_ext_Forall.
  apply Forall_forall. intros. apply tags_template.
Qed.

(* the fresh-copy parser and the in-place parser agree on templates *)
Lemma fresh_is_item_all o data it :
  unmarshal_fresh o data (as_template it) = unmarshal_item o data (as_template it).
Proof.
  induction it as [tag v|notag tpl es _ _|items IH] using item_ind2.
  - cbn [as_template unmarshal_fresh unmarshal_item]. rewrite val_empty_idem. reflexivity.
  - rewrite as_template_group. rewrite unmarshal_fresh_group. cbn [unmarshal_item].
    rewrite map_as_template_idem.
    destruct (parse_group_entries o data notag (map as_template tpl)); reflexivity.
  - rewrite as_template_comp, unmarshal_fresh_comp, unmarshal_item_comp. f_equal.
    induction items as [|i l IHl]; [reflexivity|]. inversion IH; subst.
    cbn [map rmapM]. rewrite H1. rewrite IHl by assumption. reflexivity.
Qed.

Lemma entry_fresh o chunk e :
  unmarshal_entry o (map as_template e) chunk = rmapM (unmarshal_item o chunk) (map as_template e).
Proof.
  unfold unmarshal_entry. induction e as [|i l IH]; [reflexivity|].
  cbn [map rmapM]. rewrite fresh_is_item_all, IH. reflexivity.
Qed.

(* ---- data of the general shape  pre ++ layout W ++ post  (a whole message, or an entry chunk) ---- *)
Definition pre_ok (pre : bytes) : Prop := pre = [] \/ pre = [SOH].

Lemma scan_value_gen pre W post t :
  pre_ok pre -> wf_tag t -> Forall wf_field W -> post_ok post ->
  scan_value (pre ++ layout W ++ post) t = lookup t W.
Proof.
  intros [->| ->] Ht HW Hp; cbn [app].
  - apply scan_value_message; assumption.
  - apply scan_value_chunk; assumption.
Qed.

Lemma find_field_start_gen pre W post t :
  pre_ok pre -> wf_tag t -> Forall wf_field W -> post_ok post ->
  find_field_start (pre ++ layout W ++ post) t = option_map (fun p => (length pre + p)%nat) (offset_of t W).
Proof.
  intros [->| ->] Ht HW Hp; cbn [app length].
  - rewrite find_field_start_message by assumption. destruct (offset_of t W); reflexivity.
  - rewrite find_field_start_chunk by assumption. destruct (offset_of t W); reflexivity.
Qed.

Lemma layout_app_l (A X : list pfield) : X <> [] -> layout (A ++ X) = tlayout A ++ layout X.
Proof.
  intro HX. induction A as [|a A IH]; [reflexivity|].
  cbn [app]. rewrite tlayout_cons. rewrite <- app_assoc. cbn [app]. rewrite <- IH.
  destruct (A ++ X) as [|g G] eqn:E; [destruct A; [cbn in E; contradiction|discriminate]|].
  rewrite layout_cons. reflexivity.
Qed.

(* what follows the first field of a layout *)
Definition tailp (X : list pfield) (post : bytes) : bytes :=
  match X with [] => post | _ => SOH :: layout X ++ post end.

Lemma layout_cons_post f X post : layout (f :: X) ++ post = prender f ++ tailp X post.
Proof.
  destruct X as [|g G]; [reflexivity|]. rewrite layout_cons. rewrite <- app_assoc. reflexivity.
Qed.

Lemma find_sub_tailp t1 X post :
  eqfree t1 -> Forall wf_field X -> post_ok post ->
  find_sub (SOH :: t1 ++ [EQS]) (tailp X post) = offset_of t1 X.
Proof.
  intros He HX Hp. destruct X as [|g G].
  - cbn [tailp offset_of]. apply find_sub_no_eq.
    + right. apply in_or_app. right. left. reflexivity.
    + destruct Hp as [->| ->]; cbn; intuition discriminate.
  - cbn [tailp]. apply anchored_index; assumption.
Qed.

Lemma line_split_p (f : pfield) (r R : list pfield) post :
  R <> [] ->
  SOH :: prender f ++ tailp (r ++ R) post = (SOH :: layout (f :: r)) ++ SOH :: layout R ++ post.
Proof.
  intro HR. destruct r as [|g r'].
  - cbn [app]. destruct R as [|x R']; [contradiction|]. reflexivity.
  - assert (E : (g :: r') ++ R = g :: (r' ++ R)) by reflexivity. rewrite E. cbn [tailp].
    rewrite <- E. rewrite (layout_app_l (g :: r') R HR). rewrite layout_cons.
    rewrite <- (layout_tlayout (g :: r')) by discriminate.
    repeat (rewrite <- ?app_assoc; cbn [app]). reflexivity.
Qed.

Fixpoint chunks_p (es : list (list pfield)) (B : list pfield) (post : bytes) : list bytes :=
  match es with
  | [] => []
  | [e] => [SOH :: layout (e ++ B) ++ post]
  | e :: es' => (SOH :: layout e) :: chunks_p es' B post
  end.

Lemma chunks_p_length es B post : length (chunks_p es B post) = length es.
Proof.
  induction es as [|e es IH]; [reflexivity|]. destruct es as [|e2 es]; [reflexivity|].
  cbn [chunks_p length] in *. rewrite IH. reflexivity.
Qed.

Lemma catB_nonnil t1 es B : es <> [] -> Forall (entry_ok t1) es -> catB es B <> [].
Proof.
  intros Hne Hok. destruct es as [|e es]; [contradiction|]. inversion Hok as [|? ? (v & r & -> & _) _]; subst.
  cbn [catB fold_right]. discriminate.
Qed.

Lemma split_group_entries_p t1 :
  wf_tag t1 ->
  forall es B post fuel,
    es <> [] -> post_ok post ->
    Forall (entry_ok t1) es -> Forall (Forall wf_field) es -> Forall wf_field B ->
    ~ In t1 (map fst B) ->
    (length (SOH :: layout (catB es B) ++ post) < fuel)%nat ->
    split_group fuel (SOH :: layout (catB es B) ++ post) (SOH :: t1 ++ [EQS]) = Ok (chunks_p es B post).
Proof.
  intros [Hs1 He1] es. induction es as [|e es IH]; intros B post fuel Hne Hp Hok Hwf HB Hnb Hfuel; [contradiction|].
  inversion Hok as [|? ? Hoe Hoes]; subst. inversion Hwf as [|? ? Hwe Hwes]; subst.
  destruct Hoe as (v & r & -> & Hnr).
  destruct fuel as [|fuel]; [cbn in Hfuel; lia|]. cbn [split_group].
  cbn [catB fold_right] in *. fold (catB es B) in *.
  assert (Hwr : Forall wf_field r) by (inversion Hwe; assumption).
  assert (Hwf1 : wf_field (t1, v)) by (inversion Hwe; assumption).
  assert (HwR : Forall wf_field (catB es B)) by (apply catB_wf; assumption).
  cbn [app] in Hfuel |- *. rewrite layout_cons_post in Hfuel |- *.
  rewrite (find_sub_skip_sohfree (t1 ++ [EQS]) (prender (t1, v)) _ (prender_sohfree _ Hwf1)).
  rewrite find_sub_tailp by (try exact He1; try exact Hp; apply Forall_app; split; assumption).
  rewrite offset_of_app_skip by exact Hnr.
  destruct es as [|e2 es].
  - cbn [catB fold_right]. rewrite (offset_of_notin t1 B Hnb). cbn [option_map chunks_p].
    cbn [app]. rewrite layout_cons_post. reflexivity.
  - inversion Hoes as [|? ? Hoe2 Hoes']; subst. destruct Hoe2 as (v2 & r2 & E2 & Hnr2).
    assert (Eoff : offset_of t1 (catB (e2 :: es) B) = Some 0%nat).
    { cbn [catB fold_right]. rewrite E2. cbn [app offset_of fst]. rewrite beq_refl. reflexivity. }
    rewrite Eoff. cbn [option_map]. rewrite Nat.add_0_r.
    assert (HRne : catB (e2 :: es) B <> []) by (cbn [catB fold_right]; rewrite E2; discriminate).
    rewrite (line_split_p (t1, v) r _ post HRne).
    rewrite <- (line_split_len (t1, v) r). rewrite firstn_app_exact, skipn_app_exact.
    rewrite (IH B post fuel); [reflexivity|discriminate|exact Hp|exact Hoes|exact Hwes|exact HB|exact Hnb|].
    rewrite (line_split_p (t1, v) r _ post HRne) in Hfuel.
    rewrite app_length in Hfuel.
    match type of Hfuel with (?a + ?b < _)%nat =>
      assert (L1 : (1 <= a)%nat) by (cbn [length]; lia);
      match goal with |- (?c < _)%nat => change c with b end;
      generalize dependent a; generalize b; intros; lia end.
Qed.

Lemma skipn_app2 {A} (u v w : list A) : skipn (length u + length v) (u ++ v ++ w) = w.
Proof. rewrite <- app_length, app_assoc. apply skipn_app_exact. Qed.

Lemma arr_first_entry t1 v (r R : list pfield) post :
  SOH :: layout (((t1, v) :: r) ++ R) ++ post = SOH :: t1 ++ EQS :: v ++ tailp (r ++ R) post.
Proof.
  cbn [app]. rewrite layout_cons_post. unfold prender. cbn [fst snd]. rewrite <- app_assoc. reflexivity.
Qed.

Lemma find_byte_eq_entry_p t1 v (r R : list pfield) post :
  eqfree t1 -> find_byte EQS (SOH :: layout (((t1, v) :: r) ++ R) ++ post) = Some (S (length t1)).
Proof. intro He. rewrite arr_first_entry. apply find_byte_eq_first. exact He. Qed.

Lemma firstn_ft_p t1 v (r R : list pfield) post :
  firstn (S (length t1) + 1) (SOH :: layout (((t1, v) :: r) ++ R) ++ post) = SOH :: t1 ++ [EQS].
Proof.
  rewrite arr_first_entry.
  apply (firstn_eq _ (SOH :: t1 ++ [EQS]) (v ++ tailp (r ++ R) post)).
  - cbn [app]. rewrite <- app_assoc. reflexivity.
  - cbn [length]. rewrite app_length. cbn [length]. lia.
Qed.

Lemma parse_group_gen o (T : list item) notag pre post (A B : list pfield) (Es : list (list pfield)) t1 :
  pre_ok pre -> post_ok post -> wf_tag notag -> wf_tag t1 ->
  ~ In notag (map fst A) ->
  Forall wf_field A -> Forall (Forall wf_field) Es -> Forall wf_field B ->
  Es <> [] -> Forall (entry_ok t1) Es -> ~ In t1 (map fst B) ->
  in_int_range (Z.of_nat (length Es)) = true ->
  parse_group_entries o (pre ++ layout (A ++ (notag, itoa (Z.of_nat (length Es))) :: catB Es B) ++ post) notag T
  = rmapM (unmarshal_entry o T) (chunks_p Es B post).
Proof.
  intros Hpre Hpost Hn Ht1 HnA HwA HwE HwB Hne Hok HtB Hrange.
  pose (cnt := ((notag, itoa (Z.of_nat (length Es))) : pfield)).
  pose (C := catB Es B).
  pose (W := A ++ cnt :: C).
  change (parse_group_entries o (pre ++ layout W ++ post) notag T = rmapM (unmarshal_entry o T) (chunks_p Es B post)).
  assert (Hwcnt : wf_field cnt).
  { split; cbn [fst snd]; [exact Hn|apply itoa_nat_sohfree]. }
  assert (HwC : Forall wf_field C) by (apply catB_wf; assumption).
  assert (HCne : C <> []) by (apply (catB_nonnil t1); assumption).
  assert (HwW : Forall wf_field W).
  { unfold W. apply Forall_app. split; [exact HwA|]. constructor; assumption. }
  unfold parse_group_entries.
  assert (Escan : scan_value (pre ++ layout W ++ post) notag = Some (itoa (Z.of_nat (length Es)))).
  { rewrite (scan_value_gen pre W post notag Hpre Hn HwW Hpost).
    unfold W. rewrite lookup_app. rewrite (lookup_notin notag A HnA).
    cbn [lookup cnt fst snd]. rewrite beq_refl. reflexivity. }
  unfold scan_kv. rewrite Escan. cbn [val_from_bytes]. rewrite (atoi_itoa _ Hrange).
  assert (Estart : find_field_start (pre ++ layout W ++ post) notag = Some (length pre + length (tlayout A))%nat).
  { rewrite (find_field_start_gen pre W post notag Hpre Hn HwW Hpost).
    unfold W. rewrite offset_of_app_skip by exact HnA.
    cbn [offset_of cnt fst]. rewrite beq_refl. cbn [option_map]. f_equal. lia. }
  rewrite Estart.
  assert (Efrom : skipn (length pre + length (tlayout A)) (pre ++ layout W ++ post)
                  = prender cnt ++ SOH :: layout C ++ post).
  { unfold W. rewrite (layout_app_l A (cnt :: C)) by discriminate. rewrite <- app_assoc.
    rewrite skipn_app2. rewrite layout_cons_post. unfold tailp. destruct C; [contradiction|reflexivity]. }
  rewrite Efrom.
  rewrite (find_byte_first SOH (prender cnt) _ (prender_sohfree cnt Hwcnt)).
  rewrite skipn_app_exact.
  destruct Es as [|e1 Es']; [contradiction|].
  inversion Hok as [|? ? Hoe1 _]; subst. destruct Hoe1 as (v1 & r1 & -> & Hnr1).
  destruct Ht1 as [Hs1 He1].
  unfold C. cbn [catB fold_right]. fold (catB Es' B).
  rewrite (find_byte_eq_entry_p t1 v1 _ _ post He1). rewrite firstn_ft_p.
  pose proof (split_group_entries_p t1 (conj Hs1 He1) (((t1, v1) :: r1) :: Es') B post) as Sp.
  cbn [catB fold_right] in Sp. fold (catB Es' B) in Sp.
  rewrite Sp; try assumption; [|lia].
  rewrite chunks_p_length. rewrite Z.eqb_refl. reflexivity.
Qed.

(* ---- tags and well-formedness of the wire image ---- *)
Lemma entry_tags_all e tpl :
  map as_template e = map as_template tpl -> flat_map tags_of e = flat_map tags_of tpl.
Proof. intro H. rewrite <- (tags_list_template e), <- (tags_list_template tpl), H. reflexivity. Qed.

Lemma incl_flat_map {A B} (f g : A -> list B) l :
  Forall (fun x => incl (f x) (g x)) l -> incl (flat_map f l) (flat_map g l).
Proof.
  induction 1 as [|x l Hx Hl IH]; [intros t []|]. cbn [flat_map].
  apply incl_app; [apply incl_appl; exact Hx|apply incl_appr; exact IH].
Qed.

Lemma map_fst_flat_map {A} (f : A -> list pfield) l :
  map fst (flat_map f l) = flat_map (fun x => map fst (f x)) l.
Proof. induction l as [|x l IH]; [reflexivity|]. cbn [flat_map]. rewrite map_app. f_equal. exact IH. Qed.

Lemma wpf_tags o it : wfi o it -> incl (map fst (wpf it)) (tags_of it).
Proof.
  induction it as [tag v|notag tpl es _ IHes|items IH] using item_ind2; intro W.
  - cbn [wpf tags_of]. unfold pf_of; cbn [fst snd]. destruct (populated v); [|intros t []].
    intros t [<-|[]]. left. reflexivity.
  - inversion W as [| |? ? ? Dn He Hr]; subst. cbn [wpf tags_of]. destruct es as [|e es]; [intros t []|].
    cbn [map fst]. intros t [<-|Ht]; [left; reflexivity|]. right.
    rewrite map_fst_flat_map in Ht. apply in_flat_map in Ht. destruct Ht as (e' & He' & Ht).
    rewrite Forall_forall in He, IHes. destruct (He e' He') as (Hs & We & _).
    rewrite <- (entry_tags_all e' tpl Hs).
    rewrite map_fst_flat_map in Ht. apply in_flat_map in Ht. destruct Ht as (i & Hi & Ht).
    apply in_flat_map. exists i. split; [exact Hi|].
    pose proof (IHes e' He') as IHe. rewrite Forall_forall in IHe, We. exact (IHe i Hi (We i Hi) t Ht).
  - inversion W as [|? Hall|]; subst. cbn [wpf tags_of]. rewrite map_fst_flat_map.
    apply incl_flat_map. rewrite Forall_forall in *. intros i Hi. exact (IH i Hi (Hall i Hi)).
Qed.

Lemma wpf_list_tags o l : Forall (wfi o) l -> incl (map fst (flat_map wpf l)) (flat_map tags_of l).
Proof.
  intro W. rewrite map_fst_flat_map. apply incl_flat_map.
  eapply Forall_impl; [|exact W]. intros i Wi. exact (wpf_tags o i Wi).
Qed.

Lemma Forall_flat_map {A B} (P : B -> Prop) (f : A -> list B) l :
  Forall (fun x => Forall P (f x)) l -> Forall P (flat_map f l).
Proof. induction 1; [constructor|]. cbn [flat_map]. apply Forall_app. split; assumption. Qed.

Lemma wpf_wf o it : wfi o it -> Forall wf_field (wpf it).
Proof.
  induction it as [tag v|notag tpl es _ IHes|items IH] using item_ind2; intro W.
  - inversion W as [? ? [Hd Hv]| |]; subst. cbn [wpf]. unfold pf_of; cbn [fst snd] in *.
    destruct (populated v) eqn:P; [|constructor]. constructor; [|constructor].
    split; cbn [fst snd]; [apply digits_wf_tag; exact Hd|exact (proj1 (Hv eq_refl))].
  - inversion W as [| |? ? ? Dn He Hr]; subst. cbn [wpf]. destruct es as [|e es]; [constructor|].
    constructor.
    + split; cbn [fst snd]; [apply digits_wf_tag; exact Dn|apply itoa_nat_sohfree].
    + apply Forall_flat_map. rewrite Forall_forall in *. intros e' He'.
      destruct (He e' He') as (_ & We & _). apply Forall_flat_map.
      pose proof (IHes e' He') as IHe. rewrite Forall_forall in *. intros i Hi. exact (IHe i Hi (We i Hi)).
  - inversion W as [|? Hall|]; subst. cbn [wpf]. apply Forall_flat_map.
    rewrite Forall_forall in *. intros i Hi. exact (IH i Hi (Hall i Hi)).
Qed.

Lemma wpf_list_wf o l : Forall (wfi o) l -> Forall wf_field (flat_map wpf l).
Proof. intro W. apply Forall_flat_map. eapply Forall_impl; [|exact W]. intros i Wi. exact (wpf_wf o i Wi). Qed.

Lemma catB_map_wpf es (R : list pfield) :
  flat_map (fun e => flat_map wpf e) es ++ R = catB (map (flat_map wpf) es) R.
Proof.
  induction es as [|e es IH]; [reflexivity|]. cbn [flat_map map catB fold_right]. fold (catB (map (flat_map wpf) es) R).
  rewrite <- app_assoc, IH. reflexivity.
Qed.

(* ---- the parser on any item, on data of the general shape ---- *)
Section Nested.
  Variable o : oracle.

  Definition P_item (it : item) : Prop :=
    forall pre post (A R : list pfield) tagsA tagsR,
      pre_ok pre -> post_ok post ->
      incl (map fst A) tagsA -> incl (map fst R) tagsR ->
      NoDup (tagsA ++ tags_of it ++ tagsR) ->
      Forall wf_field A -> Forall wf_field R -> wfi o it ->
      unmarshal_item o (pre ++ layout (A ++ wpf it ++ R) ++ post) (as_template it) = Ok (norm_all it).

  Definition Q_list (l : list item) : Prop :=
    forall pre post (A R : list pfield) tagsA tagsR,
      pre_ok pre -> post_ok post ->
      incl (map fst A) tagsA -> incl (map fst R) tagsR ->
      NoDup (tagsA ++ flat_map tags_of l ++ tagsR) ->
      Forall wf_field A -> Forall wf_field R -> Forall (wfi o) l ->
      rmapM (unmarshal_item o (pre ++ layout (A ++ flat_map wpf l ++ R) ++ post)) (map as_template l)
      = Ok (map norm_all l).

  Lemma Q_of_P l : Forall P_item l -> Q_list l.
  Proof.
    induction l as [|it l IH]; intros HP pre post A R tagsA tagsR Hpre Hpost HA HR ND HwA HwR Hwf; [reflexivity|].
    inversion HP as [|? ? Pit Pl]; subst. inversion Hwf as [|? ? Wit Wl]; subst.
    cbn [flat_map map rmapM] in ND |- *.
    set (R1 := flat_map wpf l ++ R).
    assert (HwR1 : Forall wf_field R1) by (unfold R1; apply Forall_app; split; [apply (wpf_list_wf o); exact Wl|exact HwR]).
    assert (HR1 : incl (map fst R1) (flat_map tags_of l ++ tagsR)).
    { unfold R1. rewrite map_app. apply incl_app; [apply incl_appl; apply (wpf_list_tags o); exact Wl|apply incl_appr; exact HR]. }
    assert (E1 : A ++ (wpf it ++ flat_map wpf l) ++ R = A ++ wpf it ++ R1) by (unfold R1; rewrite <- app_assoc; reflexivity).
    rewrite E1.
    assert (ND1 : NoDup (tagsA ++ tags_of it ++ flat_map tags_of l ++ tagsR)) by (rewrite <- app_assoc in ND; exact ND).
    rewrite (Pit pre post A R1 tagsA (flat_map tags_of l ++ tagsR) Hpre Hpost HA HR1 ND1 HwA HwR1 Wit).
    assert (E2 : A ++ wpf it ++ R1 = (A ++ wpf it) ++ flat_map wpf l ++ R) by (unfold R1; rewrite <- app_assoc; reflexivity).
    rewrite E2.
    rewrite (IH Pl pre post (A ++ wpf it) R (tagsA ++ tags_of it) tagsR Hpre Hpost).
    - reflexivity.
    - rewrite map_app. apply incl_app; [apply incl_appl; exact HA|apply incl_appr; apply (wpf_tags o); exact Wit].
    - exact HR.
    - rewrite <- !app_assoc in ND |- *. exact ND.
    - apply Forall_app. split; [exact HwA|apply (wpf_wf o); exact Wit].
    - exact HwR.
    - exact Wl.
  Qed.

  (* key-value *)
  Lemma P_kv tag v : P_item (IKV tag v).
  Proof.
    intros pre post A R tagsA tagsR Hpre Hpost HA HR ND HwA HwR W.
    inversion W as [? ? [Hd Hv]| |]; subst. cbn [fst snd] in *.
    cbn [as_template unmarshal_item norm_all wpf]. unfold scan_kv.
    assert (HwW : Forall wf_field (A ++ pf_of (tag, v) ++ R)).
    { apply Forall_app. split; [exact HwA|]. apply Forall_app. split; [|exact HwR].
      unfold pf_of; cbn [fst snd]. destruct (populated v) eqn:P; [|constructor].
      constructor; [|constructor]. split; cbn [fst snd]; [apply digits_wf_tag; exact Hd|exact (proj1 (Hv eq_refl))]. }
    rewrite (scan_value_gen pre _ post tag Hpre (digits_wf_tag _ Hd) HwW Hpost).
    assert (HnA : ~ In tag (map fst A)).
    { intro Hin. apply HA in Hin. revert Hin. apply (nodup_app_disj' _ _ tag ND). apply in_or_app. left. left. reflexivity. }
    assert (HnR : ~ In tag (map fst R)).
    { intro Hin. apply HR in Hin. apply nodup_app_r in ND. cbn [tags_of app] in ND. inversion ND; subst. contradiction. }
    rewrite lookup_app_skip by exact HnA. rewrite lookup_app.
    unfold pf_of; cbn [fst snd]. destruct (populated v) eqn:P.
    - cbn [lookup fst snd]. rewrite beq_refl. rewrite (value_roundtrip o v P (proj2 (Hv eq_refl))). reflexivity.
    - cbn [lookup]. rewrite (lookup_notin tag R HnR). rewrite (norm_unpopulated v P). reflexivity.
  Qed.

  (* component: its members are parsed one after the other on the same data *)
  Lemma P_comp items : Forall P_item items -> P_item (IComp items).
  Proof.
    intros HP pre post A R tagsA tagsR Hpre Hpost HA HR ND HwA HwR W.
    inversion W as [|? Hall|]; subst.
    rewrite as_template_comp, unmarshal_item_comp. cbn [wpf norm_all tags_of] in *.
    rewrite (Q_of_P items HP pre post A R tagsA tagsR Hpre Hpost HA HR ND HwA HwR Hall). reflexivity.
  Qed.

  Lemma empty_group_gen notag (T : list item) pre post (Wr : list pfield) :
    pre_ok pre -> post_ok post -> digits notag -> ~ In notag (map fst Wr) -> Forall wf_field Wr ->
    parse_group_entries o (pre ++ layout Wr ++ post) notag T = Ok [].
  Proof.
    intros Hpre Hpost Dn Hn Hw. unfold parse_group_entries, scan_kv.
    rewrite (scan_value_gen pre Wr post notag Hpre (digits_wf_tag _ Dn) Hw Hpost).
    rewrite (lookup_notin notag Wr Hn).
    rewrite (find_field_start_gen pre Wr post notag Hpre (digits_wf_tag _ Dn) Hw Hpost).
    rewrite (offset_of_notin notag Wr Hn). reflexivity.
  Qed.

  (* the entries of a group, each parsed from its own chunk *)
  Lemma entries_gen (T : list item) (R : list pfield) tagsR post ES :
    post_ok post -> incl (map fst R) tagsR -> Forall wf_field R ->
    Forall (fun e => Q_list e /\ map as_template e = T /\ Forall (wfi o) e
                     /\ NoDup (flat_map tags_of e ++ tagsR)) ES ->
    rmapM (unmarshal_entry o T) (chunks_p (map (flat_map wpf) ES) R post) = Ok (map (map norm_all) ES).
  Proof.
    intros Hpost HR HwR Hes. induction ES as [|e ES IH]; [reflexivity|].
    inversion Hes as [|? ? (Qe & Hs & We & NDe) Hes']; subst. specialize (IH Hes').
    destruct ES as [|e2 ES].
    - cbn [map chunks_p rmapM]. rewrite entry_fresh.
      pose proof (Qe [SOH] post [] R [] tagsR (or_intror eq_refl) Hpost (fun t H => match H with end) HR NDe
                     (Forall_nil _) HwR We) as Hq.
      cbn [app] in Hq. rewrite Hq. reflexivity.
    - cbn [map] in IH |- *. cbn [chunks_p rmapM]. rewrite entry_fresh.
      pose proof (Qe [SOH] [] [] [] [] [] (or_intror eq_refl) (or_introl eq_refl)
                     (fun t H => match H with end) (fun t H => match H with end)) as Hq.
      cbn [app] in Hq. rewrite !app_nil_r in Hq.
      rewrite Hq; [|exact (nodup_app_l _ _ NDe)|constructor|constructor|exact We].
      cbn [chunks_p] in IH. rewrite IH. reflexivity.
  Qed.

  Lemma wpf_entry_first t1 v r : populated v = true ->
    flat_map wpf (IKV t1 v :: r) = (t1, canon v) :: flat_map wpf r.
  Proof. intro Hp. cbn [flat_map wpf]. unfold pf_of; cbn [fst snd]. rewrite Hp. reflexivity. Qed.

  Lemma P_group notag tpl es :
    Forall (Forall P_item) es -> P_item (IGroup notag tpl es).
  Proof.
    intros HPes pre post A R tagsA tagsR Hpre Hpost HA HR ND HwA HwR W.
    inversion W as [| |? ? ? Dn He Hrange]; subst.
    rewrite as_template_group. cbn [unmarshal_item norm_all tags_of] in *.
    set (T := map as_template tpl).
    (* apartness of the group's tags *)
    assert (Hap : forall t, In t (notag :: flat_map tags_of tpl) -> ~ In t (map fst A) /\ ~ In t (map fst R)).
    { intros t Ht. split.
      - intro Hin. apply HA in Hin. revert Hin. apply (nodup_app_disj' _ _ t ND). apply in_or_app. left. exact Ht.
      - intro Hin. apply HR in Hin. apply nodup_app_r in ND. exact (nodup_app_disj _ _ t ND Ht Hin). }
    assert (NDg : NoDup (notag :: flat_map tags_of tpl)).
    { apply nodup_app_r in ND. apply nodup_app_l in ND. exact ND. }
    destruct es as [|e1 es].
    - cbn [wpf app map]. rewrite (empty_group_gen notag T pre post (A ++ R)); [reflexivity|exact Hpre|exact Hpost|exact Dn| |].
      + rewrite map_app. intro Hin. apply in_app_or in Hin.
        destruct (Hap notag (or_introl eq_refl)) as [H1 H2]. destruct Hin; contradiction.
      + apply Forall_app. split; assumption.
    - set (ES := e1 :: es) in *.
      assert (H1 : exists t1 v1 r1, e1 = IKV t1 v1 :: r1 /\ populated v1 = true).
      { rewrite Forall_forall in He. destruct (He e1 (or_introl eq_refl)) as (_ & _ & H). exact H. }
      destruct H1 as (t1 & v1 & r1 & E1 & Hp1).
      assert (Hshape : forall e, In e ES -> map as_template e = T).
      { intros e Hin. rewrite Forall_forall in He. exact (proj1 (He e Hin)). }
      assert (Hfirst : forall e, In e ES -> exists v r, e = IKV t1 v :: r /\ populated v = true).
      { intros e Hin. rewrite Forall_forall in He. destruct (He e Hin) as (Hs & _ & (t & v & r & -> & Hp)).
        pose proof (Hshape e1 (or_introl eq_refl)) as Hs1. unfold T in Hs1. rewrite E1 in Hs1. rewrite <- Hs1 in Hs.
        cbn [map as_template] in Hs. inversion Hs; subst. exists v, r. split; [reflexivity|exact Hp]. }
      assert (Htags : forall e, In e ES -> flat_map tags_of e = flat_map tags_of tpl).
      { intros e Hin. apply entry_tags_all. exact (Hshape e Hin). }
      assert (Hwe : forall e, In e ES -> Forall (wfi o) e).
      { intros e Hin. rewrite Forall_forall in He. exact (proj1 (proj2 (He e Hin))). }
      assert (NDt : NoDup (flat_map tags_of tpl)) by (inversion NDg; assumption).
      assert (Ht1 : In t1 (flat_map tags_of tpl)).
      { rewrite <- (Htags e1 (or_introl eq_refl)). rewrite E1. left. reflexivity. }
      assert (Dt1 : digits t1).
      { pose proof (Hwe e1 (or_introl eq_refl)) as W1. rewrite E1 in W1. inversion W1 as [|? ? Wk _]; subst.
        inversion Wk as [? ? [Hd _]| |]; subst. exact Hd. }
      (* the wire *)
      assert (Ewire : A ++ wpf (IGroup notag tpl ES) ++ R
                      = A ++ (notag, itoa (Z.of_nat (length (map (flat_map wpf) ES)))) :: catB (map (flat_map wpf) ES) R).
      { unfold ES. cbn [wpf]. fold ES. rewrite map_length. cbn [app]. rewrite catB_map_wpf. reflexivity. }
      rewrite Ewire.
      rewrite (parse_group_gen o T notag pre post A R (map (flat_map wpf) ES) t1).
      + rewrite (entries_gen T R tagsR post ES Hpost HR HwR).
        * reflexivity.
        * apply Forall_forall. intros e Hin. split; [|split; [|split]].
          -- apply Q_of_P. rewrite Forall_forall in HPes. exact (HPes e Hin).
          -- exact (Hshape e Hin).
          -- exact (Hwe e Hin).
          -- rewrite (Htags e Hin). apply nodup_app_r in ND. rewrite <- app_comm_cons in ND.
             inversion ND; assumption.
      + exact Hpre.
      + exact Hpost.
      + apply digits_wf_tag. exact Dn.
      + apply digits_wf_tag. exact Dt1.
      + exact (proj1 (Hap notag (or_introl eq_refl))).
      + exact HwA.
      + apply Forall_forall. intros x Hx. apply in_map_iff in Hx. destruct Hx as (e & <- & Hin).
        apply (wpf_list_wf o). exact (Hwe e Hin).
      + exact HwR.
      + unfold ES. discriminate.
      + apply Forall_forall. intros x Hx. apply in_map_iff in Hx. destruct Hx as (e & <- & Hin).
        destruct (Hfirst e Hin) as (v & r & Ee & Hp). rewrite Ee, (wpf_entry_first t1 v r Hp).
        exists (canon v), (flat_map wpf r). split; [reflexivity|].
        intro Hx. assert (Wr : Forall (wfi o) r) by (pose proof (Hwe e Hin) as We; rewrite Ee in We; inversion We; assumption).
        apply (wpf_list_tags o r Wr) in Hx.
        assert (NDe : NoDup (flat_map tags_of e)) by (rewrite (Htags e Hin); exact NDt).
        rewrite Ee in NDe. cbn [flat_map tags_of app] in NDe. inversion NDe; subst. contradiction.
      + exact (proj2 (Hap t1 (or_intror Ht1))).
      + rewrite map_length. exact Hrange.
  Qed.

  (* every item *)
  Theorem P_all it : P_item it.
  Proof.
    induction it as [tag v|notag tpl es _ IHes|items IH] using item_ind2.
    - apply P_kv.
    - apply P_group. exact IHes.
    - apply P_comp. exact IH.
  Qed.

  Theorem Q_all l : Q_list l.
  Proof. apply Q_of_P. apply Forall_forall. intros. apply P_all. Qed.
End Nested.

(* ---- the message ---- *)
Lemma wfi_entries_ok o it : wfi o it -> entries_ok it = true.
Proof.
  induction it as [tag v|notag tpl es _ IHes|items IH] using item_ind2; intro W.
  - reflexivity.
  - inversion W as [| |? ? ? Dn He Hr]; subst. cbn [entries_ok]. apply forallb_forall. intros e Hin.
    rewrite Forall_forall in He, IHes. destruct (He e Hin) as (_ & We & (t1 & v & r & -> & Hp)).
    apply andb_true_intro. split.
    + cbn [flat_map fields_of]. rewrite Hp. reflexivity.
    + apply forallb_forall. intros i Hi. pose proof (IHes _ Hin) as IHe. rewrite Forall_forall in IHe, We.
      exact (IHe i Hi (We i Hi)).
  - inversion W as [|? Hall|]; subst. cbn [entries_ok]. apply forallb_forall. intros i Hi.
    rewrite Forall_forall in IH, Hall. exact (IH i Hi (Hall i Hi)).
Qed.

Lemma wfi_list_ok o l : Forall (wfi o) l -> list_ok l = true.
Proof.
  intro W. unfold list_ok. apply forallb_forall. intros i Hi. rewrite Forall_forall in W.
  apply (wfi_entries_ok o). exact (W i Hi).
Qed.

Definition norm_msg_n (pm : message) : message :=
  set_header_items pm (m_bs pm) (m_bl pm) (m_mt pm)
    (map norm_all (m_header pm)) (map norm_all (m_body pm)) (map norm_all (m_trailer pm)) (m_cs pm).

Definition all_tags_n (m : message) : list bytes :=
  m_bs_tag m :: m_bl_tag m :: m_mt_tag m
  :: flat_map tags_of (m_header m) ++ flat_map tags_of (m_body m)
     ++ flat_map tags_of (m_trailer m) ++ [m_cs_tag m].

Section MessageN.
  Variable o : oracle.
  Variable m : message.
  Variables bs mt : bytes.
  Hypothesis Hbs : m_bs m = VString true bs.
  Hypothesis Hbsn : bs <> [].
  Hypothesis Sbs : sohfree bs.
  Hypothesis Hmt : m_mt m = VString true mt.
  Hypothesis Hmtn : mt <> [].
  Hypothesis Smt : sohfree mt.
  Hypothesis Dbs : digits (m_bs_tag m).
  Hypothesis Dbl : digits (m_bl_tag m).
  Hypothesis Dmt : digits (m_mt_tag m).
  Hypothesis Dcs : digits (m_cs_tag m).
  Hypothesis Wh : Forall (wfi o) (m_header m).
  Hypothesis Wb : Forall (wfi o) (m_body m).
  Hypothesis Wt : Forall (wfi o) (m_trailer m).
  Hypothesis Hnocs : Forall (fun it => negb (is_cs_kv (m_cs_tag m) it) = true) (m_trailer m).
  Hypothesis Hnd : NoDup (all_tags_n m).
  Hypothesis Hrange : (Z.of_nat (calc_body_length m) <= int_max)%Z.

  Let bsF := m_bs_tag m ++ EQS :: bs.
  Let mtF := m_mt_tag m ++ EQS :: mt.
  Let R := counted_region m mtF.
  Let blz := Z.of_nat (length R).
  Let P := bsF ++ SOH :: m_bl_tag m ++ EQS :: itoa blz ++ SOH :: R.
  Let C := pad3 (sum_bytes P mod 256).

  Let L_all : list item :=
    IKV (m_bl_tag m) (VInt true blz) :: IKV (m_mt_tag m) (m_mt m) :: IComp (m_header m)
    :: m_body m ++ [IComp (m_trailer m); IKV (m_cs_tag m) (VString true C)].

  Let A0 : list pfield := [(m_bs_tag m, bs)].
  Let Wm : list pfield := A0 ++ flat_map wpf L_all ++ [].

  Lemma nC_nonnil : C <> []. Proof. exact (C_nonnil m bs mt). Qed.

  Lemma nWm_fields :
    map prender Wm
    = msg_fields m bsF (m_bl_tag m ++ EQS :: itoa blz) mtF (m_cs_tag m ++ EQS :: C).
  Proof.
    unfold Wm, A0, L_all, msg_fields. rewrite app_nil_r.
    cbn [flat_map app map wpf]. unfold pf_of at 1 2. cbn [fst snd].
    rewrite Hmt, (populated_string mt Hmtn). change (populated (VInt true blz)) with true.
    cbv iota. cbn [app map canon]. unfold prender at 1 2 3. cbn [fst snd]. fold bsF. fold mtF.
    f_equal. f_equal. f_equal.
    rewrite flat_map_app. rewrite !map_app.
    rewrite (fields_list_wpf (m_header m)), (fields_list_wpf (m_body m)).
    rewrite (trailer_items_id m Hnocs). rewrite (fields_list_wpf (m_trailer m)).
    f_equal. f_equal.
    cbn [flat_map wpf]. rewrite app_nil_r. rewrite map_app. f_equal.
    unfold pf_of; cbn [fst snd]. rewrite (populated_string C nC_nonnil). reflexivity.
  Qed.

  Lemma nwire : to_bytes m = [] ++ layout Wm ++ [SOH].
  Proof.
    pose proof (to_bytes_shape m bsF mtF (Kbs m bs Hbs Hbsn) (Kmt m mt Hmt Hmtn)) as S. cbv zeta in S.
    assert (HR : counted_region m mtF =
                 mtF ++ SOH :: term (fields_of_list (m_header m)) ++ term (fields_of_list (m_body m))
                     ++ term (fields_of_list (trailer_items m))).
    { unfold counted_region.
      rewrite (comp_obytes_fields _ (wfi_list_ok o _ Wh)), (items_to_bytes_fields _ (wfi_list_ok o _ Wb)).
      rewrite (trailer_obytes_fields m) by (rewrite (trailer_items_id m Hnocs); apply (wfi_list_ok o); exact Wt).
      rewrite !sohterm_join by apply fields_of_list_nonnil. reflexivity. }
    fold R in HR.
    assert (E : to_bytes m = term (msg_fields m bsF (m_bl_tag m ++ EQS :: itoa blz) mtF (m_cs_tag m ++ EQS :: C))).
    { rewrite S. fold R. fold blz. fold P. fold C. unfold P. rewrite HR.
      unfold msg_fields. rewrite !term_app, !term_cons. change (term []) with (@nil N).
      repeat (rewrite <- ?app_assoc; cbn [app]). rewrite ?app_nil_r. reflexivity. }
    rewrite E, <- nWm_fields. cbn [app]. rewrite layout_tlayout by (unfold Wm, A0; discriminate).
    unfold term, tlayout. rewrite flat_map_concat_map, map_map, <- flat_map_concat_map. reflexivity.
  Qed.

  Lemma nL_all_wf : Forall (wfi o) L_all.
  Proof.
    unfold L_all. constructor; [|constructor; [|constructor]].
    - constructor. split; cbn [fst snd]; [exact Dbl|].
      intros _. split; [apply itoa_nat_sohfree|]. exact (blz_range m mt Hmt Hmtn Hrange).
    - constructor. split; cbn [fst snd]; [exact Dmt|]. rewrite Hmt. intros _. split; [exact Smt|exact I].
    - constructor. exact Wh.
    - apply Forall_app. split; [exact Wb|]. constructor; [|constructor; [|constructor]].
      + constructor. exact Wt.
      + constructor. split; cbn [fst snd]; [exact Dcs|].
        intros _. split; [|exact I]. cbn [canon]. apply pad3_sohfree. apply N.mod_lt. discriminate.
  Qed.

  Lemma nL_all_tags : [m_bs_tag m] ++ flat_map tags_of L_all ++ [] = all_tags_n m.
  Proof.
    unfold L_all, all_tags_n. rewrite app_nil_r. cbn [flat_map tags_of app].
    rewrite flat_map_app. cbn [flat_map tags_of]. rewrite app_nil_r. reflexivity.
  Qed.

  Lemma nall_parsed :
    forall x, In x L_all -> unmarshal_item o (to_bytes m) (as_template x) = Ok (norm_all x).
  Proof.
    apply rmapM_ok_in. rewrite nwire. unfold Wm.
    apply (Q_all o L_all [] [SOH] A0 [] [m_bs_tag m] []).
    - left. reflexivity.
    - right. reflexivity.
    - intros t [<-|[]]. left. reflexivity.
    - intros t [].
    - rewrite nL_all_tags. exact Hnd.
    - constructor; [|constructor]. split; cbn [fst snd]; [apply digits_wf_tag; exact Dbs|exact Sbs].
    - constructor.
    - exact nL_all_wf.
  Qed.

  Lemma nscan_bs : scan_kv o (to_bytes m) (m_bs_tag m) (m_bs m) = Ok (VString true bs).
  Proof.
    unfold scan_kv. rewrite nwire.
    assert (HwW : Forall wf_field Wm).
    { unfold Wm. apply Forall_app. split.
      - constructor; [|constructor]. split; cbn [fst snd]; [apply digits_wf_tag; exact Dbs|exact Sbs].
      - rewrite app_nil_r. apply (wpf_list_wf o). exact nL_all_wf. }
    rewrite (scan_value_gen [] Wm [SOH] (m_bs_tag m) (or_introl eq_refl) (digits_wf_tag _ Dbs) HwW (or_intror eq_refl)).
    unfold Wm, A0. cbn [app lookup fst snd]. rewrite beq_refl. rewrite Hbs. reflexivity.
  Qed.

  Lemma nin_bl : In (IKV (m_bl_tag m) (VInt true blz)) L_all. Proof. left. reflexivity. Qed.
  Lemma nin_mt : In (IKV (m_mt_tag m) (m_mt m)) L_all. Proof. right. left. reflexivity. Qed.
  Lemma nin_hd : In (IComp (m_header m)) L_all. Proof. right. right. left. reflexivity. Qed.
  Lemma nin_body x : In x (m_body m) -> In x L_all.
  Proof. intro H. right. right. right. apply in_or_app. left. exact H. Qed.
  Lemma nin_tr : In (IComp (m_trailer m)) L_all.
  Proof. right. right. right. apply in_or_app. right. left. reflexivity. Qed.
  Lemma nin_cs : In (IKV (m_cs_tag m) (VString true C)) L_all.
  Proof. right. right. right. apply in_or_app. right. right. left. reflexivity. Qed.

  Lemma nscan_bl : scan_kv o (to_bytes m) (m_bl_tag m) (VInt false 0%Z) = Ok (VInt true blz).
  Proof.
    pose proof (nall_parsed _ nin_bl) as H. cbn [as_template unmarshal_item val_empty norm_all] in H.
    apply rmap_ok_inv in H. destruct H as (a & Ha & E). rewrite Ha. inversion E. reflexivity.
  Qed.

  Lemma nscan_mt : scan_kv o (to_bytes m) (m_mt_tag m) (m_mt m) = Ok (VString true mt).
  Proof.
    pose proof (nall_parsed _ nin_mt) as H. rewrite Hmt in H.
    cbn [as_template unmarshal_item val_empty norm_all] in H.
    apply rmap_ok_inv in H. destruct H as (a & Ha & E).
    assert (En : norm (VString true mt) = VString true mt).
    { unfold norm. rewrite (populated_string mt Hmtn). reflexivity. }
    rewrite En in E. inversion E; subst a. rewrite Hmt.
    apply (scan_kv_string_any o _ _ mt Hmtn Ha).
  Qed.

  Lemma nscan_cs : scan_kv o (to_bytes m) (m_cs_tag m) (VString false []) = Ok (VString true C).
  Proof.
    pose proof (nall_parsed _ nin_cs) as H.
    cbn [as_template unmarshal_item val_empty norm_all] in H.
    apply rmap_ok_inv in H. destruct H as (a & Ha & E).
    assert (En : norm (VString true C) = VString true C).
    { unfold norm. rewrite (populated_string C nC_nonnil). reflexivity. }
    rewrite En in E. inversion E; subst a. exact Ha.
  Qed.

  Theorem message_roundtrip :
    unmarshal o (template_of m) (to_bytes m) = Ok (norm_msg_n (fst (prepare m))).
  Proof.
    unfold unmarshal. rewrite (want_bs_template m bs Hbs Hbsn).
    cbn [template_of m_bs_tag m_bl_tag m_cs_tag m_mt_tag m_bs m_bl m_mt m_cs m_header m_body m_trailer].
    rewrite (validate_wire m bs mt Hbs Hbsn Sbs Hmt Hmtn Dbs Dbl Dcs Hrange).
    rewrite nscan_bs, nscan_bl, nscan_mt.
    pose proof (nall_parsed _ nin_hd) as HH. rewrite as_template_comp in HH. cbn [norm_all] in HH. rewrite HH.
    assert (HB : unmarshal_items o (to_bytes m) (map as_template (m_body m)) = Ok (map norm_all (m_body m))).
    { unfold unmarshal_items. apply rmapM_pointwise. intros x Hx. apply nall_parsed. apply nin_body. exact Hx. }
    rewrite HB.
    pose proof (nall_parsed _ nin_tr) as HT. rewrite as_template_comp in HT. cbn [norm_all] in HT. rewrite HT.
    rewrite nscan_cs.
    assert (Hreq : check_required
                     (set_header_items (template_of m) (VString true bs) (VInt true blz) (VString true mt)
                        (map norm_all (m_header m)) (map norm_all (m_body m)) (map norm_all (m_trailer m))
                        (VString true C)) = true).
    { unfold check_required, set_header_items. cbn [m_bs m_bl m_mt m_cs is_null int_val string_val negb].
      assert (Hz : Z.eqb blz 0 = false).
      { apply Z.eqb_neq. unfold blz, R, counted_region, mtF. rewrite !app_length. cbn [length]. lia. }
      rewrite Hz, (is_nil_false mt Hmtn), (is_nil_false C nC_nonnil). reflexivity. }
    unfold template_of in Hreq |- *.
    cbn [m_bs_tag m_bl_tag m_cs_tag m_mt_tag m_bs m_bl m_mt m_cs m_header m_body m_trailer set_header_items] in Hreq |- *.
    rewrite Hreq.
    f_equal. unfold norm_msg_n, set_header_items.
    rewrite (prepare_bl m mt Hmt Hmtn), (prepare_cs m bs mt Hbs Hbsn Hmt Hmtn).
    unfold prepare. cbn [fst m_bs_tag m_bl_tag m_cs_tag m_mt_tag m_bs m_mt m_header m_body m_trailer].
    rewrite Hbs, Hmt. reflexivity.
  Qed.
End MessageN.

(* ---- the hypotheses are satisfiable: a group whose entries contain a group, two entries each ---- *)
Definition exn_inner_tpl : list item := [IKV [53; 51; 57] (VString false []); IKV [53; 50; 52] (VString false [])].
Definition exn_inner (a b : N) : list item := [IKV [53; 51; 57] (VString true [a]); IKV [53; 50; 52] (VString true [b])].
Definition exn_inner1 (a : N) : list item := [IKV [53; 51; 57] (VString true [a]); IKV [53; 50; 52] (VString false [])].

Definition exn_tpl : list item :=
  [IKV [50; 54; 57] (VString false []); IGroup [53; 51; 57; 57] exn_inner_tpl []; IKV [50; 55; 48] (VInt false 0%Z)].

Definition exn_e1 : list item :=
  [IKV [50; 54; 57] (VString true [48]);
   IGroup [53; 51; 57; 57] exn_inner_tpl [exn_inner 65 66; exn_inner1 67];
   IKV [50; 55; 48] (VInt true 10%Z)].

Definition exn_e2 : list item :=
  [IKV [50; 54; 57] (VString true [49]);
   IGroup [53; 51; 57; 57] exn_inner_tpl [];
   IKV [50; 55; 48] (VInt false 0%Z)].

Definition exn_e3 : list item :=
  [IKV [50; 54; 57] (VString true [50]);
   IGroup [53; 51; 57; 57] exn_inner_tpl [exn_inner 68 69];
   IKV [50; 55; 48] (VInt true 30%Z)].

Definition exn_msg : message :=
  {| m_bs_tag := [56]; m_bl_tag := [57]; m_cs_tag := [49; 48]; m_mt_tag := [51; 53];
     m_bs := VString true [70; 73; 88; 46; 52; 46; 52];
     m_bl := VInt false 0%Z; m_mt := VString true [87]; m_cs := VString false [];
     m_header := [IKV [52; 57] (VString true [65; 66]); IKV [51; 52] (VInt true 7%Z)];
     m_body := [IKV [53; 53] (VString true [88]);
                IGroup [50; 54; 56] exn_tpl [exn_e1; exn_e2; exn_e3];
                IKV [49; 52; 49] (VBool true true)];
     m_trailer := [IKV [57; 51] (VInt true 2%Z)] |}.

Ltac solve_wfkv1 :=
  split; cbn [fst snd];
  [solve_digits
  |let Hp := fresh "Hp" in
   intro Hp; split; [cbn [canon]; try discriminate Hp; repeat constructor; discriminate
                    |cbn; try reflexivity; try exact I; try (cbv; intuition discriminate)]].

Ltac solve_wfi :=
  repeat first
    [ apply Forall_nil
    | apply Forall_cons
    | apply wfi_kv; solve_wfkv1
    | apply wfi_comp
    | apply wfi_group; [solve_digits| |reflexivity]
    | split; [reflexivity|split; [|eexists _, _, _; split; reflexivity]] ].

Example nested_roundtrip_applies :
  unmarshal ex_oracle (template_of exn_msg) (to_bytes exn_msg) = Ok (norm_msg_n (fst (prepare exn_msg))).
Proof.
  apply (message_roundtrip ex_oracle exn_msg [70; 73; 88; 46; 52; 46; 52] [87]);
    try reflexivity; try discriminate.
  - repeat constructor; discriminate.
  - repeat constructor; discriminate.
  - solve_digits.
  - solve_digits.
  - solve_digits.
  - solve_digits.
  - unfold exn_msg; cbn [m_header]. solve_wfi.
  - unfold exn_msg, exn_e1, exn_e2, exn_e3, exn_tpl, exn_inner, exn_inner1, exn_inner_tpl; cbn [m_body]. solve_wfi.
  - unfold exn_msg; cbn [m_trailer]. solve_wfi.
  - repeat constructor.
  - let l := eval vm_compute in (all_tags_n exn_msg) in change (NoDup l).
    repeat (constructor; [cbn [In]; intuition discriminate|]). constructor.
Qed.

Example nested_roundtrip_entries :
  match unmarshal ex_oracle (template_of exn_msg) (to_bytes exn_msg) with
  | Ok m' => match m_body m' with
             | [_; IGroup _ _ [[_; IGroup _ _ i1; _]; [_; IGroup _ _ i2; _]; [_; IGroup _ _ i3; _]]; _] =>
                 (length i1, length i2, length i3)
             | _ => (0%nat, 0%nat, 0%nat)
             end
  | _ => (0%nat, 0%nat, 0%nat)
  end = (2%nat, 0%nat, 1%nat).
Proof. vm_compute. reflexivity. Qed.
