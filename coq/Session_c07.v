(* Session_c07.v -- nothing but Logon, Logout and Reject leaves before a successful logon (C07). *)
From SF Require Import Bytes Values Wire Parse Session Bytes_proofs Session_proofs.
Open Scope N_scope.

(* ---- pools: each session handler sits under its own key ---- *)

Definition in_ok (k : bytes) (h : in_handler) : Prop :=
  match h with
  | HApp _ _ => True
  | HStoreSeq | HTimerRefresh _ => k = ALL
  | HResend => k = msgtype_ResendRequest
  | HLogon => k = msgtype_Logon
  | HLogout => k = msgtype_Logout
  | HHeartbeat => k = msgtype_Heartbeat
  | HTestRequest => k = msgtype_TestRequest
  end.

Definition pools_ok (s : sstate) : Prop := forall k, Forall (in_ok k) (pool_get (s_in s) k).

Lemma pool_get_add {H} (p : pool H) k h k' :
  pool_get (pool_add p k h) k' = if beq k' k then pool_get p k' ++ [h] else pool_get p k'.
Proof.
  induction p as [|[k0 hs] p IH]; cbn [pool_add pool_get].
  - destruct (beq k' k); reflexivity.
  - destruct (beq k k0) eqn:E.
    + apply beq_eq in E. subst k0. cbn [pool_get]. destruct (beq k' k); reflexivity.
    + cbn [pool_get]. destruct (beq k' k0) eqn:E2.
      * apply beq_eq in E2. subst k0. destruct (beq k' k) eqn:E3; [|reflexivity].
        apply beq_eq in E3. subst. rewrite beq_refl in E. discriminate.
      * exact IH.
Qed.

Lemma pools_ok_add s k h :
  pools_ok s -> in_ok k h -> forall k', Forall (in_ok k') (pool_get (pool_add (s_in s) k h) k').
Proof.
  intros P Hh k'. rewrite pool_get_add. destruct (beq k' k) eqn:E; [|apply P].
  apply beq_eq in E. subst. apply Forall_app. split; [apply P|]. constructor; [exact Hh|constructor].
Qed.

(* ---- what one incoming handler can emit while the session is not logged on ---- *)

Definition not_logged (s : sstate) : Prop := logged_or_probing s = false.

Definition allowed_pre (t : bytes) : Prop :=
  t = msgtype_Logon \/ t = msgtype_Logout \/ t = msgtype_Reject.

Lemma not_logged_state s s' : s_state s' = s_state s -> not_logged s -> not_logged s'.
Proof. unfold not_logged, logged_or_probing. intros ->. auto. Qed.

Lemma is_logged_false s : not_logged s -> is_logged s = false.
Proof. unfold not_logged, logged_or_probing, is_logged. intro H. apply orb_false_elim in H. tauto. Qed.

Ltac types_of H :=
  match type of H with
  | session_send _ _ _ = _ => let T := fresh "T" in let C := fresh "C" in let O := fresh "O" in
                              destruct (session_send_spec _ _ _ _ _ H) as (T & C & O)
  | reject_message _ _ _ = _ => let T := fresh "T" in let C := fresh "C" in let O := fresh "O" in
                                destruct (reject_message_spec _ _ _ _ _ H) as (T & C & O)
  end.

Lemma forall_types_one (P : bytes -> Prop) ts t : (ts = [] \/ ts = [t]) -> P t -> Forall P ts.
Proof. intros [->| ->] H; [constructor|constructor; [exact H|constructor]]. Qed.

(* outcome of a handler that only rejects *)
Lemma reject_outcome cfg s d s' o :
  reject_message cfg s d = (s', o) -> not_logged s ->
  not_logged s' /\ Forall allowed_pre (wire_types o).
Proof.
  intros H N. types_of H. split.
  - eapply not_logged_state; [apply C|exact N].
  - eapply forall_types_one; [exact T|]. right. right. reflexivity.
Qed.

Definition post_logon_types (t : bytes) : Prop :=
  allowed_pre t \/ t = msgtype_ResendRequest.

Lemma in_handler_pre_logon cfg s h d s' o b :
  run_in_handler cfg s h d = (s', o, b) -> not_logged s ->
  (not_logged s' /\ Forall allowed_pre (wire_types o))
  \/ (h = HLogon /\ s_state s' = SuccessfulLogged /\ Forall post_logon_types (wire_types o)).
Proof.
  intros H N. pose proof (is_logged_false s N) as NL.
  destruct h; cbn [run_in_handler] in H.
  - (* HStoreSeq *)
    left.
    assert (G : forall x, not_logged (upd_cnt_in s x)) by (intro; exact N).
    destruct (_ || _); [inversion H; subst; split; [exact N|constructor]|].
    destruct (value_by_tag d tag_MsgSeqNum) as [sb| | |]; try (inversion H; subst; split; [exact N|constructor]).
    destruct (atoi sb); [|inversion H; subst; split; [exact N|constructor]].
    destruct (value_by_tag d tag_MsgType) as [mt| | |]; try (inversion H; subst; split; [exact N|constructor]).
    destruct (c_seqreset cfg && beq mt msgtype_SequenceReset); inversion H; subst; split; try exact N; try apply G; constructor.
  - (* HResend *)
    left. destruct (parse_as _ _ d) as [rm| | |].
    + rewrite NL in H. cbn [negb] in H.
      destruct (reject_message cfg s d) as [s1 o1] eqn:E. inversion H; subst. eapply reject_outcome; eassumption.
    + destruct (reject_message cfg s d) as [s1 o1] eqn:E. inversion H; subst. eapply reject_outcome; eassumption.
    + destruct (reject_message cfg s d) as [s1 o1] eqn:E. inversion H; subst. eapply reject_outcome; eassumption.
    + destruct (reject_message cfg s d) as [s1 o1] eqn:E. inversion H; subst. eapply reject_outcome; eassumption.
  - (* HLogon *)
    destruct (parse_as _ _ d) as [lm| | |];
      try (left; destruct (reject_message cfg s d) as [s1 o1] eqn:E; inversion H; subst; eapply reject_outcome; eassumption).
    destruct (s_state s) eqn:St.
    + (* WaitingLogon *)
      set (ns := {| st_target := _ |}) in H.
      destruct (check_logon_params cfg (upd_settings s ns) _ _) as [tag|].
      * left. destruct (session_send cfg (upd_settings s ns) _) as [s2 o2] eqn:E. inversion H; subst.
        types_of E. split.
        -- eapply not_logged_state; [apply C|]. unfold not_logged, logged_or_probing. cbn. rewrite St. reflexivity.
        -- eapply forall_types_one; [exact T|]. right. right. reflexivity.
      * destruct (c_approve cfg ns); cbn [negb] in H.
        -- match type of H with context [Z.leb ?hb 0] => destruct (Z.leb hb 0) end.
           { left. destruct (session_send cfg (upd_settings s ns) _) as [s2 o2] eqn:E. inversion H; subst.
             types_of E. split.
             - eapply not_logged_state; [apply C|]. unfold not_logged, logged_or_probing. cbn. rewrite St. reflexivity.
             - eapply forall_types_one; [exact T|]. right. right. reflexivity. }
           right.
           destruct (change_state (start_timers (upd_settings s ns)) SuccessfulLogged) as [s3 o3] eqn:E3.
           destruct (session_send cfg s3 _) as [s4 o4] eqn:E4.
           destruct (process_inc_seq cfg s4 _) as [s5 o5] eqn:E5. inversion H; subst.
           destruct (change_state_spec _ _ _ _ E3) as (T3 & S3 & _).
           types_of E4. destruct (process_inc_seq_spec _ _ _ _ _ E5) as (T5 & S5).
           split; [reflexivity|]. split.
           ++ rewrite S5. destruct C as (C & _). rewrite C. exact S3.
           ++ rewrite !wire_types_app, T3. cbn [app]. apply Forall_app. split.
              ** eapply forall_types_one; [exact T|]. left. left. reflexivity.
              ** eapply forall_types_one; [exact T5|]. right. reflexivity.
        -- left. destruct (session_send cfg (upd_settings s ns) _) as [s2 o2] eqn:E. inversion H; subst.
           types_of E. split.
           ++ eapply not_logged_state; [apply C|]. unfold not_logged, logged_or_probing. cbn. rewrite St. reflexivity.
           ++ eapply forall_types_one; [exact T|]. right. right. reflexivity.
    + (* SuccessfulLogged: impossible *)
      exfalso. unfold not_logged, logged_or_probing in N. rewrite St in N. discriminate.
    + (* WaitingLogonAnswer *)
      right. destruct (change_state s SuccessfulLogged) as [s1 o1] eqn:E1.
      destruct (process_inc_seq cfg s1 _) as [s2 o2] eqn:E2. inversion H; subst.
      destruct (change_state_spec _ _ _ _ E1) as (T1 & S1 & _).
      destruct (process_inc_seq_spec _ _ _ _ _ E2) as (T2 & S2).
      split; [reflexivity|]. split; [congruence|].
      rewrite wire_types_app, T1. cbn [app]. eapply forall_types_one; [exact T2|]. right. reflexivity.
    + left. inversion H; subst. split; [exact N|constructor].
    + left. inversion H; subst. split; [exact N|constructor].
    + exfalso. unfold not_logged, logged_or_probing in N. rewrite St in N. cbn in N. discriminate.
    + left. inversion H; subst. split; [exact N|constructor].
  - (* HLogout *)
    left. destruct (parse_as _ _ d) as [lm| | |];
      try (destruct (reject_message cfg s d) as [s1 o1] eqn:E; inversion H; subst; eapply reject_outcome; eassumption).
    assert (Hafter : forall s2 s3 o3, change_state (stop_timers s2) (state_after_logout cfg) = (s3, o3) ->
                                      not_logged s3 /\ wire_types o3 = []).
    { intros s2 s3 o3 E. destruct (change_state_spec _ _ _ _ E) as (T & S & _). split; [|exact T].
      unfold not_logged, logged_or_probing. rewrite S. unfold state_after_logout. destruct (c_side cfg); reflexivity. }
    destruct (s_state s) eqn:St.
    + destruct (reject_message cfg s d) as [s1 o1] eqn:E1.
      destruct (change_state (stop_timers s1) _) as [s3 o3] eqn:E3. inversion H; subst.
      destruct (Hafter _ _ _ E3) as (N3 & T3). destruct (reject_outcome _ _ _ _ _ E1 N) as (_ & F1).
      split; [exact N3|]. rewrite wire_types_app, T3, app_nil_r. exact F1.
    + exfalso. unfold not_logged, logged_or_probing in N. rewrite St in N. discriminate.
    + destruct (reject_message cfg s d) as [s1 o1] eqn:E1.
      destruct (change_state (stop_timers s1) _) as [s3 o3] eqn:E3. inversion H; subst.
      destruct (Hafter _ _ _ E3) as (N3 & T3). destruct (reject_outcome _ _ _ _ _ E1 N) as (_ & F1).
      split; [exact N3|]. rewrite wire_types_app, T3, app_nil_r. exact F1.
    + destruct (change_state s ReceivedLogoutAnswer) as [sa oa] eqn:Ea.
      destruct (change_state sa WaitingLogon) as [sb ob] eqn:Eb.
      destruct (change_state (stop_timers sb) _) as [s3 o3] eqn:E3. inversion H; subst.
      destruct (Hafter _ _ _ E3) as (N3 & T3).
      destruct (change_state_spec _ _ _ _ Ea) as (Ta & _). destruct (change_state_spec _ _ _ _ Eb) as (Tb & _).
      split; [exact N3|]. rewrite !wire_types_app, Ta, Tb, T3. constructor.
    + destruct (reject_message cfg s d) as [s1 o1] eqn:E1.
      destruct (change_state (stop_timers s1) _) as [s3 o3] eqn:E3. inversion H; subst.
      destruct (Hafter _ _ _ E3) as (N3 & T3). destruct (reject_outcome _ _ _ _ _ E1 N) as (_ & F1).
      split; [exact N3|]. rewrite wire_types_app, T3, app_nil_r. exact F1.
    + exfalso. unfold not_logged, logged_or_probing in N. rewrite St in N. cbn in N. discriminate.
    + destruct (reject_message cfg s d) as [s1 o1] eqn:E1.
      destruct (change_state (stop_timers s1) _) as [s3 o3] eqn:E3. inversion H; subst.
      destruct (Hafter _ _ _ E3) as (N3 & T3). destruct (reject_outcome _ _ _ _ _ E1 N) as (_ & F1).
      split; [exact N3|]. rewrite wire_types_app, T3, app_nil_r. exact F1.
  - (* HHeartbeat *)
    left. destruct (parse_as _ _ d) as [lm| | |]; rewrite ?NL in H; cbn [negb] in H;
      destruct (reject_message cfg s d) as [s1 o1] eqn:E; inversion H; subst; eapply reject_outcome; eassumption.
  - (* HTestRequest *)
    left. destruct (parse_as _ _ d) as [lm| | |]; rewrite ?NL in H; cbn [negb] in H;
      destruct (reject_message cfg s d) as [s1 o1] eqn:E; inversion H; subst; eapply reject_outcome; eassumption.
  - (* HTimerRefresh *)
    left. destruct (lstate_eqb (s_state s) WaitingTestReqAnswer) eqn:E.
    + exfalso. unfold not_logged, logged_or_probing in N. rewrite E in N. rewrite orb_true_r in N. discriminate.
    + inversion H; subst. split; [exact N|constructor].
  - (* HApp *)
    left. inversion H; subst. split; [exact N|constructor].
Qed.

(* ---- chains of handlers ---- *)

Lemma logon_key_handlers h : in_ok msgtype_Logon h -> h = HLogon \/ exists id a, h = HApp id a.
Proof.
  destruct h; cbn [in_ok]; intro H; try discriminate H; try (left; reflexivity).
  right. eexists. eexists. reflexivity.
Qed.

Lemma all_key_handlers h : in_ok ALL h -> h <> HLogon.
Proof. destruct h; cbn [in_ok]; intros H E; try discriminate E. discriminate H. Qed.

(* once logged on, the remaining handlers of the Logon key can only reject *)
Lemma chain_logged_logon cfg d hs : forall s s' o,
  s_state s = SuccessfulLogged -> Forall (in_ok msgtype_Logon) hs ->
  run_in_handlers cfg s hs d = (s', o) ->
  s_state s' = SuccessfulLogged /\ Forall allowed_pre (wire_types o).
Proof.
  induction hs as [|h hs IH]; intros s s' o St F H; cbn [run_in_handlers] in H.
  - inversion H; subst. split; [exact St|constructor].
  - inversion F as [|? ? Fh Fhs]; subst.
    destruct (run_in_handler cfg s h d) as [[s1 o1] cont] eqn:E.
    assert (G : s_state s1 = SuccessfulLogged /\ Forall allowed_pre (wire_types o1)).
    { destruct (logon_key_handlers h Fh) as [->|(id & a & ->)]; cbn [run_in_handler] in E.
      - destruct (parse_as _ _ d) as [lm| | |].
        + rewrite St in E. destruct (session_send cfg s _) as [s2 o2] eqn:E2. inversion E; subst.
          types_of E2. split; [destruct C as (C & _); congruence|].
          eapply forall_types_one; [exact T|]. right. right. reflexivity.
        + destruct (reject_message cfg s d) as [s2 o2] eqn:E2. inversion E; subst. types_of E2.
          split; [destruct C as (C & _); congruence|]. eapply forall_types_one; [exact T|]. right. right. reflexivity.
        + destruct (reject_message cfg s d) as [s2 o2] eqn:E2. inversion E; subst. types_of E2.
          split; [destruct C as (C & _); congruence|]. eapply forall_types_one; [exact T|]. right. right. reflexivity.
        + destruct (reject_message cfg s d) as [s2 o2] eqn:E2. inversion E; subst. types_of E2.
          split; [destruct C as (C & _); congruence|]. eapply forall_types_one; [exact T|]. right. right. reflexivity.
      - inversion E; subst. split; [exact St|constructor]. }
    destruct G as (S1 & F1). destruct cont.
    + destruct (run_in_handlers cfg s1 hs d) as [s2 o2] eqn:E2. inversion H; subst.
      destruct (IH _ _ _ S1 Fhs E2) as (S2 & F2). split; [exact S2|].
      rewrite wire_types_app. apply Forall_app. split; assumption.
    + inversion H; subst. split; assumption.
Qed.

Lemma allowed_pre_post t : allowed_pre t -> post_logon_types t.
Proof. intro H. left. exact H. Qed.

Lemma chain_pre_logon cfg d k hs : forall s s' o,
  not_logged s -> Forall (in_ok k) hs ->
  run_in_handlers cfg s hs d = (s', o) ->
  (not_logged s' /\ Forall allowed_pre (wire_types o))
  \/ (k = msgtype_Logon /\ s_state s' = SuccessfulLogged /\ Forall post_logon_types (wire_types o)).
Proof.
  induction hs as [|h hs IH]; intros s s' o N F H; cbn [run_in_handlers] in H.
  - inversion H; subst. left. split; [exact N|constructor].
  - inversion F as [|? ? Fh Fhs]; subst.
    destruct (run_in_handler cfg s h d) as [[s1 o1] cont] eqn:E.
    destruct (in_handler_pre_logon _ _ _ _ _ _ _ E N) as [(N1 & F1)|(-> & S1 & F1)].
    + destruct cont.
      * destruct (run_in_handlers cfg s1 hs d) as [s2 o2] eqn:E2. inversion H; subst.
        destruct (IH _ _ _ N1 Fhs E2) as [(N2 & F2)|(Ek & S2 & F2)].
        -- left. split; [exact N2|]. rewrite wire_types_app. apply Forall_app. split; assumption.
        -- right. split; [exact Ek|]. split; [exact S2|]. rewrite wire_types_app. apply Forall_app.
           split; [eapply Forall_impl; [apply allowed_pre_post|exact F1]|exact F2].
      * inversion H; subst. left. split; assumption.
    + cbn [in_ok] in Fh. subst k. right. split; [reflexivity|]. destruct cont.
      * destruct (run_in_handlers cfg s1 hs d) as [s2 o2] eqn:E2. inversion H; subst.
        destruct (chain_logged_logon _ _ _ _ _ _ S1 Fhs E2) as (S2 & F2).
        split; [exact S2|]. rewrite wire_types_app. apply Forall_app.
        split; [exact F1|eapply Forall_impl; [apply allowed_pre_post|exact F2]].
      * inversion H; subst. split; assumption.
Qed.

(* the in-pool is not changed by a chain unless timers start (which only appends under ALL) *)
Lemma serve_pre_logon cfg s d s' o :
  not_logged s -> pools_ok s ->
  (forall k s1 o1, run_in_handlers cfg s (pool_get (s_in s) ALL) d = (s1, o1) ->
                   Forall (in_ok k) (pool_get (s_in s1) k)) ->
  serve cfg s d = (s', o) ->
  (not_logged s' /\ Forall allowed_pre (wire_types o))
  \/ (s_state s' = SuccessfulLogged /\ Forall post_logon_types (wire_types o)).
Proof.
  intros N P Pk H. unfold serve in H.
  destruct (value_by_tag d tag_MsgType) as [mt| | |];
    try (inversion H; subst; left; split; [exact N|constructor]).
  destruct (run_in_handlers cfg s (pool_get (s_in s) ALL) d) as [s1 o1] eqn:E1.
  destruct (run_in_handlers cfg s1 (pool_get (s_in s1) mt) d) as [s2 o2] eqn:E2. inversion H; subst.
  destruct (chain_pre_logon _ _ ALL _ _ _ _ N (P ALL) E1) as [(N1 & F1)|(Ek & _)]; [|discriminate Ek].
  destruct (chain_pre_logon _ _ mt _ _ _ _ N1 (Pk mt s1 o1 eq_refl) E2) as [(N2 & F2)|(_ & S2 & F2)].
  - left. split; [exact N2|]. rewrite wire_types_app. apply Forall_app. split; assumption.
  - right. split; [exact S2|]. rewrite wire_types_app. apply Forall_app.
    split; [eapply Forall_impl; [apply allowed_pre_post|exact F1]|exact F2].
Qed.

(* ---- the incoming pool only ever grows by timer-refresh handlers under ALL (and by the
   application's own registrations) ---- *)

Inductive grows : pool in_handler -> pool in_handler -> Prop :=
| grows_refl p : grows p p
| grows_timer p p' g : grows p p' -> grows p (pool_add p' ALL (HTimerRefresh g)).

Lemma grows_trans a b c : grows a b -> grows b c -> grows a c.
Proof. intros H1 H2. induction H2; [exact H1|]. constructor. apply IHgrows. exact H1. Qed.

Lemma grows_ok p p' :
  grows p p' -> (forall k, Forall (in_ok k) (pool_get p k)) -> forall k, Forall (in_ok k) (pool_get p' k).
Proof.
  induction 1 as [|p p' g G IH]; intros P k; [apply P|].
  rewrite pool_get_add. destruct (beq k ALL) eqn:E; [|apply IH; exact P].
  apply beq_eq in E. subst. apply Forall_app. split; [apply IH; exact P|].
  constructor; [reflexivity|constructor].
Qed.

Lemma grows_eq s s' : s_in s' = s_in s -> grows (s_in s) (s_in s').
Proof. intros ->. constructor. Qed.

Lemma ev_grows hs : forall s s' o, run_ev_handlers s hs = (s', o) -> grows (s_in s) (s_in s').
Proof.
  induction hs as [|h hs IH]; intros s s' o H; cbn [run_ev_handlers] in H.
  - inversion H; subst. constructor.
  - destruct h as [| | |id cont].
    + destruct (run_ev_handlers (upd_cancel s true true) hs) as [s1 o1] eqn:E. inversion H; subst.
      apply (IH _ _ _ E).
    + destruct (run_ev_handlers (start_timers s) hs) as [s1 o1] eqn:E. inversion H; subst.
      eapply grows_trans; [|apply (IH _ _ _ E)]. unfold start_timers. cbn [s_in upd_pools upd_timers].
      constructor. constructor.
    + destruct (run_ev_handlers (upd_cancel s true (s_router_stopped s)) hs) as [s1 o1] eqn:E. inversion H; subst.
      apply (IH _ _ _ E).
    + destruct cont.
      * destruct (run_ev_handlers s hs) as [s1 o1] eqn:E. inversion H; subst. apply (IH _ _ _ E).
      * inversion H; subst. constructor.
Qed.

Lemma change_state_grows s x s' o : change_state s x = (s', o) -> grows (s_in s) (s_in s').
Proof.
  unfold change_state. intro H. destruct (event_of_state x).
  - destruct (run_ev_handlers (upd_state s x) _) as [s2 o2] eqn:E. inversion H; subst. apply (ev_grows _ _ _ _ E).
  - inversion H; subst. constructor.
Qed.

Lemma session_send_grows cfg s m s' o : session_send cfg s m = (s', o) -> grows (s_in s) (s_in s').
Proof. intro H. apply grows_eq. apply (session_send_spec _ _ _ _ _ H). Qed.

Lemma reject_message_grows cfg s d s' o : reject_message cfg s d = (s', o) -> grows (s_in s) (s_in s').
Proof. intro H. apply grows_eq. apply (reject_message_spec _ _ _ _ _ H). Qed.

Lemma send_batch_grows cfg s ms s' o : send_batch cfg s ms = (s', o) -> grows (s_in s) (s_in s').
Proof. intro H. apply grows_eq. apply (send_batch_spec _ _ _ _ _ H). Qed.

Lemma process_inc_seq_grows cfg s q s' o : process_inc_seq cfg s q = (s', o) -> grows (s_in s) (s_in s').
Proof.
  unfold process_inc_seq. intro H. destruct (Z.ltb _ _).
  - destruct (session_send cfg s _) as [s1 o1] eqn:E. inversion H; subst. apply (session_send_grows _ _ _ _ _ E).
  - inversion H; subst. constructor.
Qed.

Lemma start_timers_grows s : grows (s_in s) (s_in (start_timers s)).
Proof. unfold start_timers. cbn [s_in upd_pools upd_timers]. constructor. constructor. Qed.

Ltac pair_split H :=
  repeat match type of H with
         | context [match ?e with pair _ _ => _ end] =>
             lazymatch e with
             | session_send _ _ _ => let E := fresh "E" in destruct e as [? ?] eqn:E; apply session_send_grows in E
             | reject_message _ _ _ => let E := fresh "E" in destruct e as [? ?] eqn:E; apply reject_message_grows in E
             | send_batch _ _ _ => let E := fresh "E" in destruct e as [? ?] eqn:E; apply send_batch_grows in E
             | change_state _ _ => let E := fresh "E" in destruct e as [? ?] eqn:E; apply change_state_grows in E
             | process_inc_seq _ _ _ => let E := fresh "E" in destruct e as [? ?] eqn:E; apply process_inc_seq_grows in E
             end
         end.

Ltac grows_chain :=
  cbn [s_in upd_state upd_settings upd_cnt_in upd_cnt_out upd_store upd_pools upd_timers upd_cancel stop_timers] in *;
  solve [ constructor
        | eauto 8 using grows_trans, grows_refl, start_timers_grows ].

Lemma in_handler_grows cfg s h d s' o b :
  run_in_handler cfg s h d = (s', o, b) -> grows (s_in s) (s_in s').
Proof.
  intro H. destruct h; cbn [run_in_handler] in H.
  - destruct (_ || _); [inversion H; subst; constructor|].
    destruct (value_by_tag d tag_MsgSeqNum) as [sb| | |]; try (inversion H; subst; constructor).
    destruct (atoi sb); [|inversion H; subst; constructor].
    destruct (value_by_tag d tag_MsgType) as [mt| | |]; try (inversion H; subst; constructor).
    destruct (c_seqreset cfg && beq mt msgtype_SequenceReset); inversion H; subst; constructor.
  - destruct (parse_as _ _ d) as [rm| | |];
      [|pair_split H; inversion H; subst; grows_chain|pair_split H; inversion H; subst; grows_chain|pair_split H; inversion H; subst; grows_chain].
    destruct (negb (is_logged s)); [pair_split H; inversion H; subst; grows_chain|].
    destruct (store_messages s _ _); [pair_split H; inversion H; subst; grows_chain|inversion H; subst; constructor].
  - destruct (parse_as _ _ d) as [lm| | |];
      [|pair_split H; inversion H; subst; grows_chain|pair_split H; inversion H; subst; grows_chain|pair_split H; inversion H; subst; grows_chain].
    destruct (s_state s); try (inversion H; subst; constructor).
    + set (ns := {| st_target := _ |}) in H.
      destruct (check_logon_params cfg (upd_settings s ns) _ _); [pair_split H; inversion H; subst; grows_chain|].
      destruct (negb (c_approve cfg ns)); [pair_split H; inversion H; subst; grows_chain|].
      match type of H with context [Z.leb ?hb 0] => destruct (Z.leb hb 0) end;
        [pair_split H; inversion H; subst; grows_chain|].
      destruct (change_state (start_timers (upd_settings s ns)) SuccessfulLogged) as [s3 o3] eqn:E3.
      apply change_state_grows in E3.
      pair_split H. inversion H; subst.
      pose proof (start_timers_grows (upd_settings s ns)) as G0.
      cbn [s_in upd_settings] in G0.
      eapply grows_trans; [exact G0|]. eapply grows_trans; [exact E3|]. eapply grows_trans; eassumption.
    + pair_split H. inversion H; subst. grows_chain.
    + pair_split H. inversion H; subst. grows_chain.
  - destruct (parse_as _ _ d) as [lm| | |];
      [|pair_split H; inversion H; subst; grows_chain|pair_split H; inversion H; subst; grows_chain|pair_split H; inversion H; subst; grows_chain].
    destruct (s_state s).
    all: try (destruct (reject_message cfg s d) as [s1 o1] eqn:E1; apply reject_message_grows in E1;
              destruct (change_state (stop_timers s1) _) as [s3 o3] eqn:E3; apply change_state_grows in E3;
              inversion H; subst; cbn [s_in stop_timers upd_timers] in *; eapply grows_trans; eassumption).
    + destruct (change_state s WaitingLogoutAnswer) as [sa oa] eqn:Ea. apply change_state_grows in Ea.
      destruct (session_send cfg sa _) as [sb ob] eqn:Eb. apply session_send_grows in Eb.
      destruct (change_state (stop_timers sb) _) as [s3 o3] eqn:E3. apply change_state_grows in E3.
      inversion H; subst. cbn [s_in stop_timers upd_timers] in *.
      eapply grows_trans; [exact Ea|]. eapply grows_trans; eassumption.
    + destruct (change_state s ReceivedLogoutAnswer) as [sa oa] eqn:Ea. apply change_state_grows in Ea.
      destruct (change_state sa WaitingLogon) as [sb ob] eqn:Eb. apply change_state_grows in Eb.
      destruct (change_state (stop_timers sb) _) as [s3 o3] eqn:E3. apply change_state_grows in E3.
      inversion H; subst. cbn [s_in stop_timers upd_timers] in *.
      eapply grows_trans; [exact Ea|]. eapply grows_trans; eassumption.
  - destruct (parse_as _ _ d) as [lm| | |];
      [|pair_split H; inversion H; subst; grows_chain|pair_split H; inversion H; subst; grows_chain|pair_split H; inversion H; subst; grows_chain].
    destruct (negb (is_logged s)); [pair_split H; inversion H; subst; grows_chain|inversion H; subst; constructor].
  - destruct (parse_as _ _ d) as [lm| | |];
      [|pair_split H; inversion H; subst; grows_chain|pair_split H; inversion H; subst; grows_chain|pair_split H; inversion H; subst; grows_chain].
    destruct (negb (is_logged s)); pair_split H; inversion H; subst; grows_chain.
  - destruct (lstate_eqb _ _); inversion H; subst; constructor.
  - inversion H; subst. constructor.
Qed.

Lemma in_handlers_grows cfg d hs : forall s s' o,
  run_in_handlers cfg s hs d = (s', o) -> grows (s_in s) (s_in s').
Proof.
  induction hs as [|h hs IH]; intros s s' o H; cbn [run_in_handlers] in H.
  - inversion H; subst. constructor.
  - destruct (run_in_handler cfg s h d) as [[s1 o1] cont] eqn:E. apply in_handler_grows in E.
    destruct cont.
    + destruct (run_in_handlers cfg s1 hs d) as [s2 o2] eqn:E2. inversion H; subst.
      eapply grows_trans; [exact E|]. apply (IH _ _ _ E2).
    + inversion H; subst. exact E.
Qed.

Lemma serve_grows cfg s d s' o : serve cfg s d = (s', o) -> grows (s_in s) (s_in s').
Proof.
  unfold serve. intro H. destruct (value_by_tag d tag_MsgType) as [mt| | |]; try (inversion H; subst; constructor).
  destruct (run_in_handlers cfg s _ d) as [s1 o1] eqn:E1.
  destruct (run_in_handlers cfg s1 _ d) as [s2 o2] eqn:E2. inversion H; subst.
  eapply grows_trans; [apply (in_handlers_grows _ _ _ _ _ _ E1)|apply (in_handlers_grows _ _ _ _ _ _ E2)].
Qed.

(* one inbound message, before any logon *)
Theorem serve_pre_logon' cfg s d s' o :
  not_logged s -> pools_ok s -> serve cfg s d = (s', o) ->
  pools_ok s' /\
  ((not_logged s' /\ Forall allowed_pre (wire_types o))
   \/ (s_state s' = SuccessfulLogged /\ Forall post_logon_types (wire_types o))).
Proof.
  intros N P H. split.
  - intro k. eapply grows_ok; [apply (serve_grows _ _ _ _ _ H)|exact P].
  - eapply serve_pre_logon; try eassumption.
    intros k s1 o1 E. eapply grows_ok; [apply (in_handlers_grows _ _ _ _ _ _ E)|exact P].
Qed.

(* ---- every operation other than an application send ---- *)

Definition not_app_send (o : op) : Prop := match o with AppSend _ => False | _ => True end.

Lemma do_logout_pre cfg s s' o :
  pools_ok s -> do_logout cfg s = (s', o) ->
  pools_ok s' /\ not_logged s' /\ Forall allowed_pre (wire_types o).
Proof.
  intros P H. unfold do_logout in H.
  destruct (change_state s WaitingLogoutAnswer) as [s1 o1] eqn:E1.
  destruct (session_send cfg s1 _) as [s2 o2] eqn:E2. inversion H; subst.
  destruct (change_state_spec _ _ _ _ E1) as (T1 & S1 & _). types_of E2.
  split; [|split].
  - intro k. eapply grows_ok; [|exact P].
    eapply grows_trans; [apply (change_state_grows _ _ _ _ E1)|apply (session_send_grows _ _ _ _ _ E2)].
  - unfold not_logged, logged_or_probing. destruct C as (C & _). rewrite C, S1. reflexivity.
  - rewrite wire_types_app, T1. cbn [app]. eapply forall_types_one; [exact T|]. right. left. reflexivity.
Qed.

Theorem step_pre_logon cfg s o s' os :
  not_logged s -> pools_ok s -> not_app_send o -> step cfg s o = (s', os) ->
  pools_ok s' /\
  ((not_logged s' /\ Forall allowed_pre (wire_types os))
   \/ (s_state s' = SuccessfulLogged /\ Forall post_logon_types (wire_types os))).
Proof.
  intros N P A H. destruct o; cbn [step] in H.
  - eapply serve_pre_logon'; eassumption.
  - destruct A.
  - destruct (do_logout_pre _ _ _ _ P H) as (P' & N' & F'). split; [exact P'|left; split; assumption].
  - assert (P1 : pools_ok (upd_pools s (s_in s) (s_out s) (ev_add (s_ev s) EvLogout EStopLogout))) by exact P.
    destruct (do_logout_pre _ _ _ _ P1 H) as (P' & N' & F'). split; [exact P'|left; split; assumption].
  - inversion H; subst. split; [exact P|left; split; [exact N|constructor]].
  - inversion H; subst. split; [|left; split; [exact N|constructor]].
    intro k. cbn [s_in upd_pools]. apply pools_ok_add; [exact P|exact I].
  - inversion H; subst. split; [exact P|left; split; [exact N|constructor]].
  - inversion H; subst. split; [exact P|left; split; [exact N|constructor]].
  - destruct (negb (timer_live s g) || s_intimer_done s); [inversion H; subst; split; [exact P|left; split; [exact N|constructor]]|].
    unfold not_logged in N. rewrite N in H. cbn [negb] in H. inversion H; subst.
    split; [exact P|left; split; [exact N|constructor]].
  - destruct (negb (timer_live s g)); [inversion H; subst; split; [exact P|left; split; [exact N|constructor]]|].
    unfold not_logged in N. rewrite N in H. cbn [negb] in H. inversion H; subst.
    split; [exact P|left; split; [exact N|constructor]].
Qed.

(* ---- histories: all the messages emitted up to and including the step that completes the
   first logon ---- *)

Fixpoint pre_logon_wires (cfg : config) (s : sstate) (ops : list op) : list bytes :=
  match ops with
  | [] => []
  | o :: r =>
      let '(s', os) := step cfg s o in
      if logged_or_probing s' then []          (* the logon completed in this step *)
      else wire_types os ++ pre_logon_wires cfg s' r
  end.

Theorem history_pre_logon cfg ops : forall s,
  not_logged s -> pools_ok s -> Forall not_app_send ops ->
  Forall allowed_pre (pre_logon_wires cfg s ops).
Proof.
  induction ops as [|o r IH]; intros s N P A; cbn [pre_logon_wires]; [constructor|].
  inversion A as [|? ? Ao Ar]; subst.
  destruct (step cfg s o) as [s' os] eqn:E.
  destruct (step_pre_logon _ _ _ _ _ N P Ao E) as (P' & [(N' & F')|(S' & _)]).
  - unfold not_logged in N'. rewrite N'. apply Forall_app. split; [exact F'|]. apply IH; assumption.
  - unfold logged_or_probing. rewrite S'. constructor.
Qed.

(* the step that completes the logon emits only the Logon answer, a gap ResendRequest and Rejects *)
Theorem logon_step_wires cfg s o s' os :
  not_logged s -> pools_ok s -> not_app_send o -> step cfg s o = (s', os) ->
  Forall post_logon_types (wire_types os).
Proof.
  intros N P A H. destruct (step_pre_logon _ _ _ _ _ N P A H) as (_ & [(_ & F)|(_ & F)]); [|exact F].
  eapply Forall_impl; [apply allowed_pre_post|exact F].
Qed.

(* the initial states *)
Lemma init_pools_ok cfg ci co st : pools_ok (init_state cfg ci co st).
Proof.
  intro k. cbn [init_state s_in pool_get].
  destruct (beq k ALL) eqn:E1.
  - apply beq_eq in E1. subst. constructor; [reflexivity|constructor].
  - destruct (beq k msgtype_ResendRequest) eqn:E2; [|constructor].
    apply beq_eq in E2. subst. constructor; [reflexivity|constructor].
Qed.

Definition is_reg (o : op) : Prop :=
  match o with RegIn _ _ _ | RegOut _ _ _ _ | RegEv _ _ _ => True | _ => False end.

Lemma reg_ops_keep cfg pre : forall s,
  Forall is_reg pre -> pools_ok s -> not_logged s ->
  pools_ok (fst (run_ops cfg s pre)) /\ not_logged (fst (run_ops cfg s pre)).
Proof.
  induction pre as [|o r IH]; intros s F P N; cbn [run_ops]; [split; assumption|].
  inversion F as [|? ? Fo Fr]; subst.
  destruct (step cfg s o) as [s1 o1] eqn:E. destruct (run_ops cfg s1 r) as [s2 os] eqn:E2. cbn [fst].
  assert (A : not_app_send o) by (destruct o; try exact I; destruct Fo).
  assert (N1 : not_logged s1 /\ pools_ok s1).
  { destruct o; try destruct Fo; cbn [step] in E; inversion E; subst; split; try exact N; try exact P.
    intro k. cbn [s_in upd_pools]. apply pools_ok_add; [exact P|exact I]. }
  destruct N1 as (N1 & P1). specialize (IH s1 Fr P1 N1). rewrite E2 in IH. exact IH.
Qed.

Definition pok (p : pool in_handler) : Prop := forall k, Forall (in_ok k) (pool_get p k).

Lemma pok_add p k h : pok p -> in_ok k h -> pok (pool_add p k h).
Proof.
  intros P Hh k'. rewrite pool_get_add. destruct (beq k' k) eqn:E; [|apply P].
  apply beq_eq in E. subst. apply Forall_app. split; [apply P|]. constructor; [exact Hh|constructor].
Qed.

Lemma run_session_pool p :
  pok p ->
  pok (pool_add (pool_add (pool_add (pool_add p msgtype_Logon HLogon) msgtype_Logout HLogout)
                   msgtype_Heartbeat HHeartbeat) msgtype_TestRequest HTestRequest).
Proof. intro P. repeat apply pok_add; try reflexivity. exact P. Qed.

Lemma run_session_ok cfg s s' o :
  pools_ok s -> run_session cfg s = (s', o) ->
  pools_ok s' /\ not_logged s' /\ Forall allowed_pre (wire_types o).
Proof.
  intros P H. unfold run_session in H.
  set (s1 := upd_pools (upd_state s WaitingLogon) _ _ _) in H.
  destruct (c_side cfg).
  - inversion H; subst. split; [|split; [reflexivity|constructor]].
    unfold pools_ok. cbn [s_in upd_pools]. apply run_session_pool. exact P.
  - destruct (session_send cfg (upd_state s1 WaitingLogonAnswer) _) as [sb ob] eqn:E. inversion H; subst.
    types_of E. destruct C as (CS & _ & _ & CI & _).
    split; [|split].
    + unfold pools_ok. cbn [s_in upd_pools]. rewrite CI. apply run_session_pool. exact P.
    + unfold not_logged, logged_or_probing. cbn [s_state upd_pools]. rewrite CS. reflexivity.
    + eapply forall_types_one; [exact T|]. left. reflexivity.
Qed.

(* C07 for a whole session life: construction, the application's registrations, Run, then any
   history of operations that are not application sends *)
Theorem C07_session cfg ci co store pre ops :
  Forall is_reg pre -> Forall not_app_send ops ->
  let s0 := fst (run_ops cfg (init_state cfg ci co store) pre) in
  let '(s1, o1) := run_session cfg s0 in
  Forall allowed_pre (wire_types o1 ++ pre_logon_wires cfg s1 ops).
Proof.
  intros Fp Fo s0.
  destruct (reg_ops_keep cfg pre _ Fp (init_pools_ok cfg ci co store) eq_refl) as (P0 & N0).
  fold s0 in P0, N0.
  destruct (run_session cfg s0) as [s1 o1] eqn:E.
  destruct (run_session_ok _ _ _ _ P0 E) as (P1 & N1 & F1).
  apply Forall_app. split; [exact F1|]. apply history_pre_logon; assumption.
Qed.
