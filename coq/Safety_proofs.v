(* Safety_proofs.v -- the decoder never panics and never runs out of fuel (C11). *)
From SF Require Import Bytes Values Wire Parse Bytes_proofs Item_ind Parse_unfold.
Open Scope N_scope.

Definition safe {A} (r : result A) : Prop :=
  match r with Panic | OutOfFuel => False | _ => True end.

Lemma safe_rbind {A B} (r : result A) (f : A -> result B) :
  safe r -> (forall a, r = Ok a -> safe (f a)) -> safe (rbind r f).
Proof. destruct r; cbn; intros H Hf; auto. Qed.

Lemma safe_rmap {A B} (f : A -> B) (r : result A) : safe r -> safe (rmap f r).
Proof. destruct r; cbn; auto. Qed.

Lemma safe_rmapM {A B} (f : A -> result B) l :
  Forall (fun a => safe (f a)) l -> safe (rmapM f l).
Proof.
  induction l as [|a l IH]; intro H; [exact I|].
  inversion H as [|? ? Ha Hl]; subst. cbn [rmapM].
  destruct (f a); try exact Ha; try exact I.
  specialize (IH Hl). destruct (rmapM f l); try exact IH; exact I.
Qed.

(* ---- search primitives ---- *)

Lemma find_sub_spec p l i :
  find_sub p l = Some i -> prefixb p (skipn i l) = true /\ (i + length p <= length l)%nat.
Proof.
  revert i. induction l as [|x l IH]; intros i H; cbn [find_sub] in H.
  - destruct (prefixb p []) eqn:E; [|discriminate]. inversion H; subst. cbn [skipn].
    split; [exact E|]. destruct p; [cbn; lia|discriminate].
  - destruct (prefixb p (x :: l)) eqn:E.
    + inversion H; subst. cbn [skipn]. split; [exact E|].
      apply prefixb_spec in E as [r Hr]. rewrite Hr, app_length. lia.
    + destruct (find_sub p l) as [j|] eqn:F; [|discriminate]. inversion H; subst.
      destruct (IH j eq_refl) as [H1 H2]. cbn [skipn length]. split; [exact H1|lia].
Qed.

Lemma find_byte_spec b l i :
  find_byte b l = Some i -> (i < length l)%nat /\ nth i l 0 = b.
Proof.
  revert i. induction l as [|x l IH]; intros i H; cbn [find_byte] in H; [discriminate|].
  destruct (N.eqb_spec x b) as [E|E].
  - inversion H; subst. cbn. split; [lia|reflexivity].
  - destruct (find_byte b l) as [j|]; [|discriminate]. inversion H; subst.
    destruct (IH j eq_refl) as [H1 H2]. cbn [length nth]. split; [lia|exact H2].
Qed.

Lemma skipn_nonnil_of_lt {A} (l : list A) i : (i < length l)%nat -> skipn i l <> [].
Proof.
  intros H E. assert (L : length (skipn i l) = 0%nat) by (rewrite E; reflexivity).
  rewrite skipn_length in L. lia.
Qed.

Lemma prefixb_nonnil p l : p <> [] -> prefixb p l = true -> l <> [].
Proof. intros Hp H E. subst. destruct p; [contradiction|discriminate]. Qed.

(* ---- splitGroup terminates without panicking when firstTag is non-empty ---- *)

Lemma split_group_safe fuel line ft :
  ft <> [] -> line <> [] -> (length line < fuel)%nat ->
  exists chunks, split_group fuel line ft = Ok chunks.
Proof.
  revert line. induction fuel as [|f IH]; intros line Hft Hl Hlen; [lia|].
  destruct line as [|x tl]; [contradiction|]. cbn [split_group].
  destruct (find_sub ft tl) as [next|] eqn:F.
  - destruct (find_sub_spec ft tl next F) as [Hp Hb].
    assert (Hs : skipn (next + 1) (x :: tl) = skipn next tl).
    { rewrite Nat.add_1_r. reflexivity. }
    rewrite Hs.
    destruct (IH (skipn next tl) Hft) as [chunks Hc].
    + apply (prefixb_nonnil ft); assumption.
    + rewrite skipn_length. cbn [length] in Hlen. lia.
    + rewrite Hc. eexists. reflexivity.
  - eexists. reflexivity.
Qed.

(* ---- values ---- *)

Lemma val_from_bytes_safe o v d : safe (val_from_bytes o v d).
Proof.
  destruct v; cbn [val_from_bytes]; try exact I.
  - destruct (atoi d); exact I.
  - destruct (parse_uint d); exact I.
  - destruct (float_ok o d); exact I.
  - destruct (time_canon o d); exact I.
Qed.

Lemma scan_kv_safe o data tag v : safe (scan_kv o data tag v).
Proof. unfold scan_kv. destruct (scan_value data tag); [apply val_from_bytes_safe|exact I]. Qed.

(* ---- groups ---- *)

Lemma parse_group_entries_safe o data notag tpl :
  (forall chunk, Forall (fun i => safe (unmarshal_fresh o chunk i)) tpl) ->
  safe (parse_group_entries o data notag tpl).
Proof.
  intro Htpl. unfold parse_group_entries.
  pose proof (scan_kv_safe o data notag (VInt false 0%Z)) as Hs.
  destruct (scan_kv o data notag (VInt false 0%Z)) as [cntv| | |]; try exact Hs; try exact I.
  destruct (find_field_start data notag) as [start|]; [|exact I].
  set (from := skipn start data).
  destruct (find_byte SOH from) as [sff|] eqn:Fs; [|exact I].
  set (arr := skipn sff from).
  destruct (find_byte EQS arr) as [eft|] eqn:Fe; [|exact I].
  destruct (find_byte_spec _ _ _ Fs) as [Hs1 _].
  destruct (find_byte_spec _ _ _ Fe) as [He1 _].
  assert (Harr : arr <> []) by (apply skipn_nonnil_of_lt; exact Hs1).
  assert (Hft : firstn (eft + 1) arr <> []).
  { intro E. assert (L : length (firstn (eft + 1) arr) = 0%nat) by (rewrite E; reflexivity).
    rewrite firstn_length in L. lia. }
  destruct (split_group_safe (S (length arr)) arr (firstn (eft + 1) arr) Hft Harr) as [chunks Hc]; [lia|].
  rewrite Hc.
  destruct (Z.eqb _ _); [|exact I].
  apply safe_rmapM. rewrite Forall_forall. intros c _.
  unfold unmarshal_entry. apply safe_rmapM. apply Htpl.
Qed.

Lemma unmarshal_fresh_safe o (it : item) : forall data, safe (unmarshal_fresh o data it).
Proof.
  induction it as [tag v|notag tpl es IHtpl IHes|items IH] using item_ind2; intro data.
  - cbn [unmarshal_fresh]. apply safe_rmap, scan_kv_safe.
  - rewrite unmarshal_fresh_group. apply safe_rmap. apply parse_group_entries_safe.
    intro chunk. rewrite Forall_forall in *. intros i Hi. apply IHtpl. exact Hi.
  - rewrite unmarshal_fresh_comp. apply safe_rmap, safe_rmapM.
    rewrite Forall_forall in *. intros i Hi. apply IH. exact Hi.
Qed.

Lemma unmarshal_item_safe o (it : item) : forall data, safe (unmarshal_item o data it).
Proof.
  induction it as [tag v|notag tpl es IHtpl IHes|items IH] using item_ind2; intro data.
  - cbn [unmarshal_item]. apply safe_rmap, scan_kv_safe.
  - cbn [unmarshal_item]. apply safe_rmap. apply parse_group_entries_safe.
    intro chunk. rewrite Forall_forall. intros i _. apply unmarshal_fresh_safe.
  - rewrite unmarshal_item_comp. apply safe_rmap, safe_rmapM.
    rewrite Forall_forall in *. intros i Hi. apply IH. exact Hi.
Qed.

Lemma unmarshal_items_safe o data l : safe (unmarshal_items o data l).
Proof.
  unfold unmarshal_items. apply safe_rmapM. rewrite Forall_forall. intros i _. apply unmarshal_item_safe.
Qed.

Lemma find_byte_after_prefix b q d i :
  prefixb q d = true -> Forall (fun x => x <> b) q -> find_byte b d = Some i -> (length q <= i)%nat.
Proof.
  revert d i. induction q as [|x q IH]; intros d i Hp Hq Hf; [cbn; lia|].
  destruct d as [|y d]; [discriminate|]. cbn [prefixb] in Hp.
  apply andb_prop in Hp as [Hxy Hp]. apply N.eqb_eq in Hxy. subst y.
  inversion Hq as [|? ? Hx Hq']; subst.
  cbn [find_byte] in Hf. destruct (N.eqb_spec x b) as [E|E]; [contradiction|].
  destruct (find_byte b d) as [j|] eqn:F; [|discriminate]. inversion Hf; subst.
  specialize (IH d j Hp Hq' F). cbn [length]. lia.
Qed.

Definition sohfreeb_tag (t : bytes) : Prop := Forall (fun x => x <> SOH) t.

Lemma tagq_sohfree t : sohfreeb_tag t -> Forall (fun x => x <> SOH) (t ++ [EQS]).
Proof. intro H. apply Forall_app. split; [exact H|]. constructor; [discriminate|constructor]. Qed.

Lemma validate_raw_safe a b c w d :
  sohfreeb_tag a -> sohfreeb_tag b -> safe (validate_raw a b c w d).
Proof.
  intros Ha Hb. unfold validate_raw.
  destruct (prefixb (a ++ [EQS]) d) eqn:P1; cbn [negb]; [|exact I].
  destruct (find_byte SOH d) as [bs_end|] eqn:F1; [|exact I].
  pose proof (find_byte_after_prefix SOH _ _ _ P1 (tagq_sohfree a Ha) F1) as L1.
  destruct (Nat.ltb_spec bs_end (length (a ++ [EQS]))) as [|_]; [lia|].
  destruct (prefixb (b ++ [EQS]) (skipn (bs_end + 1) d)) eqn:P2; cbn [negb]; [|exact I].
  destruct (find_byte SOH (skipn (bs_end + 1) d)) as [bl_end|] eqn:F2; [|exact I].
  pose proof (find_byte_after_prefix SOH _ _ _ P2 (tagq_sohfree b Hb) F2) as L2.
  destruct (Nat.ltb_spec bl_end (length (b ++ [EQS]))) as [|_]; [lia|].
  repeat match goal with
         | |- safe (if ?x then _ else _) => destruct x
         | |- safe (match ?x with _ => _ end) => destruct x
         | |- safe (let _ := _ in _) => cbv zeta
         end; exact I.
Qed.

Lemma unmarshal_comp_shape o data l r :
  unmarshal_item o data (IComp l) = Ok r -> exists l', r = IComp l'.
Proof.
  rewrite unmarshal_item_comp. destruct (rmapM _ _); cbn; intro H; inversion H. eexists; reflexivity.
Qed.

(* C11: for every template, oracle and byte string the decoder returns a
   value or an error *)
Theorem unmarshal_safe :
  forall o m d,
    sohfreeb_tag (m_bs_tag m) -> sohfreeb_tag (m_bl_tag m) -> safe (unmarshal o m d).
Proof.
  intros o m d Hbs Hbl. unfold unmarshal.
  destruct (validate_raw _ _ _ _ d) eqn:V;
    try exact I; try (pose proof (validate_raw_safe (m_bs_tag m) (m_bl_tag m) (m_cs_tag m) (want_bs_of m) d Hbs Hbl) as S;
                      rewrite V in S; exact S).
  pose proof (scan_kv_safe o d (m_bs_tag m) (m_bs m)) as S1.
  destruct (scan_kv o d (m_bs_tag m) (m_bs m)); try exact S1; try exact I.
  pose proof (scan_kv_safe o d (m_bl_tag m) (m_bl m)) as S2.
  destruct (scan_kv o d (m_bl_tag m) (m_bl m)); try exact S2; try exact I.
  pose proof (scan_kv_safe o d (m_mt_tag m) (m_mt m)) as S3.
  destruct (scan_kv o d (m_mt_tag m) (m_mt m)); try exact S3; try exact I.
  pose proof (unmarshal_item_safe o (IComp (m_header m)) d) as S4.
  destruct (unmarshal_item o d (IComp (m_header m))) as [hd| | |] eqn:E4; try exact S4; try exact I.
  destruct (unmarshal_comp_shape _ _ _ _ E4) as [hd' ->].
  pose proof (unmarshal_items_safe o d (m_body m)) as S5.
  destruct (unmarshal_items o d (m_body m)); try exact S5; try exact I.
  pose proof (unmarshal_item_safe o (IComp (m_trailer m)) d) as S6.
  destruct (unmarshal_item o d (IComp (m_trailer m))) as [tr| | |] eqn:E6; try exact S6; try exact I.
  destruct (unmarshal_comp_shape _ _ _ _ E6) as [tr' ->].
  pose proof (scan_kv_safe o d (m_cs_tag m) (m_cs m)) as S7.
  destruct (scan_kv o d (m_cs_tag m) (m_cs m)); try exact S7; try exact I.
  destruct (check_required _); exact I.
Qed.

Theorem value_by_tag_safe : forall d t, safe (value_by_tag d t).
Proof.
  intros d t. unfold value_by_tag.
  destruct (Nat.leb _ _); [exact I|].
  destruct (prefixb _ _); [exact I|].
  destruct (find_sub _ _); exact I.
Qed.

(* the firstTag = [] case is a panic in the model too (it is excluded above
   only because the group code never produces it) *)
Example split_group_empty_tag_panics : split_group 10 [1; 2] [] = Panic.
Proof. vm_compute. reflexivity. Qed.
