(* Gen.v -- model of the code generator (generator/generator.go, templates.go, type_caster.go,
   required.go): from a schema to the declarations of the emitted package.

   The model follows the generator function by function (prepare, makeComponent with its running
   counter, makeMessage, makeGroupConstructor, makeArg, makeSetterCall, makeSetterGetterField,
   makeType / typeToFix / fixTypeToGo, the group registry with "last occurrence wins") and
   produces a structured package description [gpackage]; GenProto.v prints it in the line format
   that harness/cmd/gen extracts from the Go files the real generator wrote. *)
From Coq Require Import String Ascii List Bool Arith NArith Lia.
From SF Require Import Bytes.
Import ListNotations.
Open Scope nat_scope.
Open Scope list_scope.

Fixpoint s2b (s : string) : bytes :=
  match s with
  | EmptyString => []
  | String a r => N_of_ascii a :: s2b r
  end.

(* ------------------------------------------------------------------------------------------ *)
(* the schema (generator/xml.go)                                                               *)

Inductive mkind := KField | KGroup | KComp | KOther.

Inductive member := Member (k : mkind) (name : bytes) (required : bool) (subs : list member).

Definition m_kind (m : member) := let (k, _, _, _) := m in k.
Definition m_name (m : member) := let (_, n, _, _) := m in n.
Definition m_req (m : member) := let (_, _, r, _) := m in r.
Definition m_subs (m : member) := let (_, _, _, s) := m in s.

Record fielddef := { fd_number : bytes; fd_name : bytes; fd_type : bytes; fd_values : list (bytes * bytes) }.
Record compdef := { cd_name : bytes; cd_msgtype : bytes; cd_members : list member }.

Record schema := {
  s_type : bytes; s_major : bytes; s_minor : bytes;
  s_header : compdef; s_trailer : compdef;
  s_messages : list compdef; s_components : list compdef;
  s_fields : list fielddef;
  s_types : list (bytes * bytes)     (* types.xml: name, cast *)
}.

(* ------------------------------------------------------------------------------------------ *)
(* what is generated                                                                           *)

Inductive gitem :=
| GKV (fieldconst fixtype : bytes)      (* fix.NewKeyValue(Field<Name>, &fix.<Type>{}) *)
| GGroup (ty : bytes)                   (* New<Ty>().Group *)
| GComp (ty : bytes).                   (* make<Ty>().Component *)

Record gacc := { ga_name : bytes; ga_index : nat; ga_kind : mkind; ga_type : bytes; ga_param : bytes }.

Record gstruct := {
  gs_name : bytes;
  gs_message : option bytes;               (* Some msgtype for a message *)
  gs_items : list gitem;
  gs_accs : list gacc;
  gs_args : list (bytes * bytes);          (* constructor parameters: name, type *)
  gs_calls : list (bytes * bytes);         (* Set<Name>(<arg>) chain of the constructor *)
  gs_flow : list (bytes * bytes * bytes)   (* SetField<Name>(<param> <type>) of the standard pipelines *)
}.

Record ggroup := { gg_name : bytes; gg_entry : bytes; gg_notag : bytes; gg_items : list gitem }.

Record gpackage := {
  gp_begin : bytes;
  gp_consts : list (bytes * bytes);
  gp_enums : list (bytes * bytes);
  gp_header : gstruct; gp_trailer : gstruct;
  gp_messages : list gstruct;
  gp_components : list gstruct;
  gp_groups : list (ggroup * gstruct)
}.

(* ------------------------------------------------------------------------------------------ *)
(* names                                                                                       *)

Definition lower_byte (b : N) : N := if (65 <=? b)%N && (b <=? 90)%N then (b + 32)%N else b.
Definition to_lower (l : bytes) : bytes := map lower_byte l.

(* strings.ToLower(name[:1]) + name[1:]; name[:1] of an empty name panics *)
Definition local_name (n : bytes) : result bytes :=
  match n with
  | [] => Panic
  | b :: r => Ok (lower_byte b :: r)
  end.

(* strings.Replace(name, "No", "", 1) *)
Definition drop_first_no (n : bytes) : bytes :=
  match find_sub [78%N; 111%N] n with
  | Some i => firstn i n ++ skipn (i + 2) n
  | None => n
  end.

Definition group_type_name (n : bytes) : bytes := drop_first_no n ++ s2b "Grp".
Definition group_entry_name (n : bytes) : bytes := drop_first_no n ++ s2b "Entry".
Definition field_const (n : bytes) : bytes := s2b "Field" ++ n.

(* ------------------------------------------------------------------------------------------ *)
(* type mapping (type_caster.go)                                                               *)

Definition allowed_types : list (bytes * bytes) :=
  [ (s2b "Float", s2b "float64"); (s2b "Int", s2b "int"); (s2b "Raw", s2b "[]byte");
    (s2b "Bool", s2b "bool"); (s2b "String", s2b "string"); (s2b "Time", s2b "time.Time") ].

(* a Go map built by successive assignments: the last binding of a key wins *)
Fixpoint lookup_last {A} (l : list (bytes * A)) (k : bytes) : option A :=
  match l with
  | [] => None
  | (k', v) :: r => match lookup_last r k with
                    | Some v' => Some v'
                    | None => if beq k k' then Some v else None
                    end
  end.

Definition fix_type_to_go (t : bytes) : bytes :=
  match lookup_last allowed_types t with Some g => g | None => s2b "string" end.

(* initTypes: an empty or unknown cast panics *)
Definition types_ok (ts : list (bytes * bytes)) : bool :=
  forallb (fun p : bytes * bytes =>
             match lookup_last allowed_types (snd p) with Some _ => true | None => false end) ts.

Section WithSchema.
  Variable s : schema.

  Definition type_cast (t : bytes) : option bytes := lookup_last (s_types s) t.

  Definition is_enum (f : fielddef) : bool :=
    negb (Nat.eqb (List.length (fd_values f)) 0)
    && negb (match type_cast (fd_type f) with Some c => beq c (s2b "Bool") | None => false end).

  (* g.fields / g.enums: maps by field name *)
  Definition plain_fields : list (bytes * fielddef) :=
    map (fun f => (fd_name f, f)) (filter (fun f => negb (is_enum f)) (s_fields s)).
  Definition enum_fields : list (bytes * fielddef) :=
    map (fun f => (fd_name f, f)) (filter is_enum (s_fields s)).

  (* typeToFix *)
  Definition type_to_fix (t : bytes) : result bytes :=
    match type_cast t with
    | Some c => Ok c
    | None => match lookup_last enum_fields t with Some _ => Ok (s2b "Raw") | None => Panic end
    end.

  (* makeType *)
  Definition make_type (fname : bytes) : result bytes :=
    match lookup_last plain_fields fname with
    | Some f => type_to_fix (fd_type f)
    | None => match lookup_last enum_fields fname with
              | Some _ => Ok (s2b "Enum" ++ fname)
              | None => Panic
              end
    end.

  (* the Go type of a field member: fixTypeToGo(makeType(name)) *)
  Definition go_type (fname : bytes) : result bytes := rmap fix_type_to_go (make_type fname).

  (* makeTypeConstructor: the library value type the key-value is built with *)
  Definition value_type (fname : bytes) : result bytes :=
    match lookup_last plain_fields fname with
    | Some f => type_to_fix (fd_type f)
    | None => match lookup_last enum_fields fname with
              | Some _ => Ok (s2b "String")
              | None => Panic
              end
    end.

  (* makeCallConstructor *)
  Definition item_of (m : member) : result gitem :=
    match m_kind m with
    | KField => rmap (GKV (field_const (m_name m))) (value_type (m_name m))
    | KGroup => Ok (GGroup (group_type_name (m_name m)))
    | KComp => Ok (GComp (m_name m))
    | KOther => Panic
    end.

  (* makeSetterGetterField *)
  Definition acc_of (m : member) (index : nat) : result gacc :=
    rbind (local_name (m_name m)) (fun ln =>
    match m_kind m with
    | KField => rmap (fun t => {| ga_name := m_name m; ga_index := index; ga_kind := KField; ga_type := t; ga_param := ln |})
                     (go_type (m_name m))
    | KGroup => Ok {| ga_name := group_type_name (m_name m); ga_index := index; ga_kind := KGroup;
                      ga_type := group_type_name (m_name m); ga_param := ln |}
    | KComp => Ok {| ga_name := m_name m; ga_index := index; ga_kind := KComp; ga_type := m_name m; ga_param := ln |}
    | KOther => Panic
    end).

  (* makeArg *)
  Definition arg_of (m : member) : result (bytes * bytes) :=
    rbind (local_name (m_name m)) (fun ln =>
    match m_kind m with
    | KField => rmap (fun t => (ln, t)) (go_type (m_name m))
    | KGroup => Ok (ln, 42%N :: group_type_name (m_name m))
    | KComp => Ok (ln, 42%N :: m_name m)
    | KOther => Panic
    end).

  (* makeSetterCall *)
  Definition call_of (m : member) : result (bytes * bytes) :=
    rbind (local_name (m_name m)) (fun ln =>
    match m_kind m with
    | KField | KComp => Ok (m_name m, ln)
    | KGroup => Ok (group_type_name (m_name m), ln)
    | KOther => Panic
    end).

  Definition excluded (n : bytes) : bool :=
    existsb (beq n) [s2b "BeginString"; s2b "BodyLength"; s2b "MsgType"; s2b "CheckSum"].

  Fixpoint rall {A B} (f : A -> result B) (l : list A) : result (list B) :=
    match l with
    | [] => Ok []
    | x :: r => rbind (f x) (fun y => rmap (cons y) (rall f r))
    end.

  (* the member loop of makeComponent / makeMessage / makeGroupConstructor: [skip] says whether
     excluded fields are left out (makeComponent only); [counter] is the running accessor index *)
  Fixpoint accs_from (skip : bool) (counter : nat) (ms : list member) : result (list gacc) :=
    match ms with
    | [] => Ok []
    | m :: r =>
        if skip && excluded (m_name m) then accs_from skip counter r
        else rbind (acc_of m counter) (fun a => rmap (cons a) (accs_from skip (S counter) r))
    end.

  Definition kept (skip : bool) (ms : list member) : list member :=
    filter (fun m => negb (skip && excluded (m_name m))) ms.

  Definition make_struct (skip with_args : bool) (name : bytes) (msgtype : option bytes) (ms : list member)
    : result gstruct :=
    rbind (rall item_of (kept skip ms)) (fun items =>
    rbind (accs_from skip 0 ms) (fun accs =>
    rbind (if with_args then rall arg_of (filter m_req (kept skip ms)) else Ok []) (fun args =>
    rbind (if with_args then rall call_of (filter m_req (kept skip ms)) else Ok []) (fun calls =>
    Ok {| gs_name := name; gs_message := msgtype; gs_items := items; gs_accs := accs;
          gs_args := args; gs_calls := calls; gs_flow := [] |})))).

  (* the SetField<Name> setters of the standard pipelines *)
  Definition flow_setter (fname : bytes) : result (bytes * bytes * bytes) :=
    match lookup_last plain_fields fname, lookup_last enum_fields fname with
    | None, None => Panic
    | _, _ => rbind (local_name fname) (fun ln => rmap (fun t => (fname, ln, t)) (go_type fname))
    end.

  Definition default_flow : list (bytes * list bytes) :=
    [ (s2b "Logon", map s2b ["HeartBtInt"; "EncryptMethod"; "Password"; "Username"; "ResetSeqNumFlag"]%string);
      (s2b "Logout", []);
      (s2b "Heartbeat", [s2b "TestReqID"]);
      (s2b "TestRequest", [s2b "TestReqID"]);
      (s2b "ResendRequest", map s2b ["BeginSeqNo"; "EndSeqNo"]%string);
      (s2b "SequenceReset", map s2b ["NewSeqNo"; "GapFillFlag"]%string);
      (s2b "Reject", map s2b ["SessionRejectReason"; "RefSeqNum"; "RefTagID"]%string);
      (s2b "ExecutionReport", []); (s2b "NewOrderSingle", []); (s2b "MarketDataRequest", []);
      (s2b "OrderCancelRequest", []) ].

  (* the builders of the standard pipelines use the accessors of these fields: they must be field
     members of the message itself *)
  Definition has_field_member (ms : list member) (n : bytes) : bool :=
    existsb (fun m => match m_kind m with KField => beq (m_name m) n | _ => false end) ms.

  Definition make_message (c : compdef) : result gstruct :=
    rbind (make_struct false true (cd_name c) (Some (cd_msgtype c)) (cd_members c)) (fun g =>
    match lookup_last default_flow (cd_name c) with
    | None => Ok g
    | Some fs => rmap (fun fl => {| gs_name := gs_name g; gs_message := gs_message g; gs_items := gs_items g;
                                   gs_accs := gs_accs g; gs_args := gs_args g; gs_calls := gs_calls g;
                                   gs_flow := fl |})
                      (rall (fun f => if has_field_member (cd_members c) f then flow_setter f else Panic) fs)
    end).

  (* header: the required fields must be there; setters for the non-excluded required ones, sorted *)
  Definition has_member (ms : list member) (n : bytes) : bool := existsb (fun m => beq (m_name m) n) ms.

  Definition required_header : list bytes :=
    map s2b ["BeginString"; "BodyLength"; "MsgType"; "SenderCompID"; "TargetCompID"; "MsgSeqNum"; "SendingTime"]%string.

  Definition header_flow : list bytes :=     (* sortedMapKeys(RequiredHeaderFields) minus the excluded ones *)
    map s2b ["MsgSeqNum"; "SenderCompID"; "SendingTime"; "TargetCompID"]%string.

  Definition make_header : result gstruct :=
    let ms := cd_members (s_header s) in
    if Nat.eqb (List.length ms) 0 then Panic
    else if negb (forallb (has_member ms) required_header) then Panic
    else rbind (make_struct true true (s2b "Header") None ms) (fun g =>
         rmap (fun fl => {| gs_name := gs_name g; gs_message := None; gs_items := gs_items g; gs_accs := gs_accs g;
                            gs_args := gs_args g; gs_calls := gs_calls g; gs_flow := fl |})
              (rall flow_setter header_flow)).

  Definition make_trailer : result gstruct :=
    let ms := cd_members (s_trailer s) in
    if negb (has_member ms (s2b "CheckSum")) then Panic
    else make_struct true true (s2b "Trailer") None ms.

  (* -- the group registry: every group below any message, component, header, trailer; one entry
        per name, the last occurrence wins (appendGroup overwrites) ---------------------------- *)
  Fixpoint groups_in (fuel : nat) (m : member) : list member :=
    match fuel with
    | O => []
    | S fuel' =>
        (match m_kind m with KGroup => [m] | _ => [] end)
        ++ flat_map (groups_in fuel') (m_subs m)
    end.

  Fixpoint member_depth (m : member) : nat :=
    match m with
    | Member _ _ _ subs => S (fold_right (fun x n => Nat.max (member_depth x) n) 0 subs)
    end.

  Definition groups_of_members (ms : list member) : list member :=
    flat_map (fun m => groups_in (member_depth m) m) ms.

  Definition all_group_occurrences : list member :=
    flat_map (fun c => groups_of_members (cd_members c)) (s_messages s)
    ++ flat_map (fun c => groups_of_members (cd_members c)) (s_components s)
    ++ groups_of_members (cd_members (s_header s))
    ++ groups_of_members (cd_members (s_trailer s)).

  (* a group found below another member must have a name and members (validateComponent); the
     top-level members themselves are appended without that test *)
  Definition nested_groups_valid : bool :=
    let nested (m : member) := flat_map (fun x => groups_in (member_depth x) x) (m_subs m) in
    let tops := flat_map cd_members (s_messages s) ++ flat_map cd_members (s_components s)
                ++ cd_members (s_header s) ++ cd_members (s_trailer s) in
    forallb (fun g => negb (Nat.eqb (List.length (m_name g)) 0) && negb (Nat.eqb (List.length (m_subs g)) 0))
            (flat_map nested tops).

  Fixpoint dedup_last (seen : list bytes) (l : list member) : list member :=   (* on the reversed list *)
    match l with
    | [] => []
    | g :: r => if existsb (beq (m_name g)) seen then dedup_last seen r
                else g :: dedup_last (m_name g :: seen) r
    end.

  Definition group_registry : list member := rev (dedup_last [] (rev all_group_occurrences)).

  Definition make_group (g : member) : result (ggroup * gstruct) :=
    rbind (rall item_of (m_subs g)) (fun items =>
    rbind (make_struct false false (group_entry_name (m_name g)) None (m_subs g)) (fun entry =>
    Ok ({| gg_name := group_type_name (m_name g); gg_entry := group_entry_name (m_name g);
           gg_notag := field_const (m_name g); gg_items := items |}, entry))).

  (* -- enums --------------------------------------------------------------------------------- *)
  Fixpoint split_us (cur : bytes) (l : bytes) : list bytes :=
    match l with
    | [] => [rev cur]
    | b :: r => if (b =? 95)%N then rev cur :: split_us [] r else split_us (b :: cur) r
    end.

  (* string(part[0]) + strings.ToLower(part)[1:]; an empty part panics *)
  Definition variant_part (p : bytes) : result bytes :=
    match p with [] => Panic | b :: r => Ok (b :: to_lower r) end.

  Definition enum_variants (f : fielddef) : result (list (bytes * bytes)) :=
    rall (fun v : bytes * bytes =>
            rmap (fun parts => (s2b "Enum" ++ fd_name f ++ concat parts, fst v))
                 (rall variant_part (split_us [] (snd v)))) (fd_values f).

  (* the enums map is keyed by name: one file per name, the last field of that name *)
  Fixpoint dedup_last_fields (seen : list bytes) (l : list fielddef) : list fielddef :=
    match l with
    | [] => []
    | f :: r => if existsb (beq (fd_name f)) seen then dedup_last_fields seen r
                else f :: dedup_last_fields (fd_name f :: seen) r
    end.

  Definition enum_registry : list fielddef := rev (dedup_last_fields [] (rev (filter is_enum (s_fields s)))).

  (* -- prepare: duplicates are rejected ------------------------------------------------------ *)
  Fixpoint has_dup (l : list bytes) : bool :=
    match l with
    | [] => false
    | x :: r => existsb (beq x) r || has_dup r
    end.

  Definition components_registry : list compdef :=
    let fix go (seen : list bytes) (l : list compdef) :=
      match l with
      | [] => []
      | c :: r => if existsb (beq (cd_name c)) seen then go seen r else c :: go (cd_name c :: seen) r
      end in
    rev (go [] (rev (s_components s))).

  Definition gen : result gpackage :=
    if negb (types_ok (s_types s)) then Panic
    else if has_dup (map fd_number (s_fields s)) then Err
    else if has_dup (map cd_msgtype (s_messages s)) then Err
    else if negb nested_groups_valid then Panic
    else
      rbind make_header (fun h =>
      rbind make_trailer (fun t =>
      rbind (rall enum_variants enum_registry) (fun ens =>
      rbind (rall make_message (s_messages s)) (fun msgs =>
      rbind (rall (fun c => make_struct true true (cd_name c) None (cd_members c)) components_registry) (fun comps =>
      rbind (rall make_group group_registry) (fun grps =>
      Ok {| gp_begin := s_type s ++ 46%N :: s_major s ++ 46%N :: s_minor s;
            gp_consts := map (fun f => (field_const (fd_name f), fd_number f)) (s_fields s)
                         ++ map (fun c => (s2b "MsgType" ++ cd_name c, cd_msgtype c)) (s_messages s);
            gp_enums := concat ens;
            gp_header := h; gp_trailer := t; gp_messages := msgs; gp_components := comps;
            gp_groups := grps |})))))).

  (* every occurrence of a group name has the member list its generated type was built from *)
  Fixpoint member_eqb (fuel : nat) (a b : member) : bool :=
    match fuel with
    | O => false
    | S fuel' =>
        (match m_kind a, m_kind b with
         | KField, KField | KGroup, KGroup | KComp, KComp | KOther, KOther => true
         | _, _ => false
         end)
        && beq (m_name a) (m_name b) && Bool.eqb (m_req a) (m_req b)
        && (fix all2 (x y : list member) :=
              match x, y with
              | [], [] => true
              | p :: x', q :: y' => member_eqb fuel' p q && all2 x' y'
              | _, _ => false
              end) (m_subs a) (m_subs b)
    end.

  Definition same_members (a b : member) : bool :=
    (fix all2 (x y : list member) :=
       match x, y with
       | [], [] => true
       | p :: x', q :: y' => member_eqb (S (member_depth p)) p q && all2 x' y'
       | _, _ => false
       end) (m_subs a) (m_subs b).

  (* occurrences whose members differ from the registered (generated) definition of that name *)
  Definition shadowed_groups : list bytes :=
    flat_map (fun o => match find (fun g => beq (m_name g) (m_name o)) group_registry with
                       | Some g => if same_members g o then [] else [m_name o]
                       | None => [m_name o]
                       end) all_group_occurrences.
End WithSchema.
