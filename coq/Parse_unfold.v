(* Parse_unfold.v -- unfolding equations for the nested fixpoints of Parse.v. *)
From SF Require Import Bytes Values Wire Parse Item_ind.
Open Scope N_scope.

Lemma inner_as_template l :
  (fix go (l : list item) : list item :=
     match l with [] => [] | i :: l' => as_template i :: go l' end) l = map as_template l.
Proof. induction l as [|i l IH]; [reflexivity|]. cbn [map]. rewrite <- IH. reflexivity. Qed.

Lemma as_template_group notag tpl es :
  as_template (IGroup notag tpl es) = IGroup notag (map as_template tpl) [].
Proof. cbn [as_template]. rewrite inner_as_template. reflexivity. Qed.

Lemma as_template_comp items : as_template (IComp items) = IComp (map as_template items).
Proof. cbn [as_template]. rewrite inner_as_template. reflexivity. Qed.

Lemma inner_fresh o data l :
  (fix go (l : list item) : result (list item) :=
     match l with
     | [] => Ok []
     | i :: l' =>
         match unmarshal_fresh o data i with
         | Ok i' => match go l' with Ok r => Ok (i' :: r) | e => e end
         | Err => Err | Panic => Panic | OutOfFuel => OutOfFuel
         end
     end) l = rmapM (unmarshal_fresh o data) l.
Proof.
  induction l as [|i l IH]; [reflexivity|]. cbn [rmapM]. rewrite <- IH. reflexivity.
Qed.

Lemma unmarshal_fresh_comp o data items :
  unmarshal_fresh o data (IComp items) = rmap IComp (rmapM (unmarshal_fresh o data) items).
Proof. cbn [unmarshal_fresh]. rewrite inner_fresh. reflexivity. Qed.

Lemma inner_entries_fresh o tpl chunks :
  (fix entries (cs : list bytes) : result (list (list item)) :=
     match cs with
     | [] => Ok []
     | c :: cs' =>
         match
           (fix go (l : list item) : result (list item) :=
              match l with
              | [] => Ok []
              | i :: l' =>
                  match unmarshal_fresh o c i with
                  | Ok i' => match go l' with Ok r => Ok (i' :: r) | e => e end
                  | Err => Err | Panic => Panic | OutOfFuel => OutOfFuel
                  end
              end) tpl
         with
         | Ok e => match entries cs' with Ok r => Ok (e :: r) | e' => e' end
         | Err => Err | Panic => Panic | OutOfFuel => OutOfFuel
         end
     end) chunks = rmapM (unmarshal_entry o tpl) chunks.
Proof.
  induction chunks as [|c cs IH]; [reflexivity|].
  cbn [rmapM]. rewrite <- IH. unfold unmarshal_entry. rewrite <- inner_fresh. reflexivity.
Qed.

Lemma unmarshal_fresh_group o data notag tpl es :
  unmarshal_fresh o data (IGroup notag tpl es) =
  rmap (IGroup notag (map as_template tpl)) (parse_group_entries o data notag tpl).
Proof.
  cbn [unmarshal_fresh]. unfold parse_group_entries. rewrite inner_as_template.
  destruct (scan_kv o data notag (VInt false 0%Z)) as [cntv| | |]; try reflexivity.
  destruct (find_field_start data notag) as [start|]; [|reflexivity].
  destruct (find_byte SOH (skipn start data)) as [sff|]; [|reflexivity].
  destruct (find_byte EQS (skipn sff (skipn start data))) as [eft|]; [|reflexivity].
  destruct (split_group _ _ _) as [chunks| | |]; try reflexivity.
  destruct (Z.eqb _ _); [|reflexivity].
  rewrite inner_entries_fresh. reflexivity.
Qed.

Lemma inner_item o data l :
  (fix go (l : list item) : result (list item) :=
     match l with
     | [] => Ok []
     | i :: l' =>
         match unmarshal_item o data i with
         | Ok i' => match go l' with Ok r => Ok (i' :: r) | e => e end
         | Err => Err | Panic => Panic | OutOfFuel => OutOfFuel
         end
     end) l = rmapM (unmarshal_item o data) l.
Proof.
  induction l as [|i l IH]; [reflexivity|]. cbn [rmapM]. rewrite <- IH. reflexivity.
Qed.

Lemma unmarshal_item_comp o data items :
  unmarshal_item o data (IComp items) = rmap IComp (rmapM (unmarshal_item o data) items).
Proof. cbn [unmarshal_item]. rewrite inner_item. reflexivity. Qed.
