(* Bytes_proofs.v -- facts about the byte-string primitives. *)
From SF Require Import Bytes.
From Coq Require Import DecimalN DecimalFacts.
Open Scope N_scope.

Lemma beq_refl a : beq a a = true.
Proof. induction a as [|x a IH]; cbn [beq]; [reflexivity|]. rewrite N.eqb_refl, IH. reflexivity. Qed.

Lemma beq_eq a b : beq a b = true <-> a = b.
Proof.
  revert b; induction a as [|x a IH]; intros [|y b]; cbn [beq]; split; intro H;
    try reflexivity; try discriminate.
  - apply andb_prop in H as [H1 H2]. apply N.eqb_eq in H1. apply IH in H2. congruence.
  - inversion H; subst. rewrite N.eqb_refl. apply beq_refl.
Qed.

Lemma beq_neq a b : beq a b = false <-> a <> b.
Proof.
  split; intro H.
  - intro E. apply beq_eq in E. congruence.
  - destruct (beq a b) eqn:E; [|reflexivity]. apply beq_eq in E. contradiction.
Qed.

Lemma prefixb_app p l : prefixb p (p ++ l) = true.
Proof. induction p as [|x p IH]; cbn [prefixb app]; [reflexivity|]. rewrite N.eqb_refl. exact IH. Qed.

Lemma prefixb_spec p l : prefixb p l = true <-> exists r, l = p ++ r.
Proof.
  revert l; induction p as [|x p IH]; intros l; cbn [prefixb].
  - split; [intros _; exists l; reflexivity | reflexivity].
  - destruct l as [|y l].
    + split; [discriminate | intros [r Hr]; discriminate].
    + split.
      * intro H. apply andb_prop in H as [H1 H2]. apply N.eqb_eq in H1. apply IH in H2 as [r Hr].
        exists r. subst. reflexivity.
      * intros [r Hr]. cbn [app] in Hr. inversion Hr; subst. rewrite N.eqb_refl. apply prefixb_app.
Qed.

Lemma sum_bytes_cons x a : sum_bytes (x :: a) = x + sum_bytes a.
Proof. reflexivity. Qed.

Lemma sum_bytes_app a b : sum_bytes (a ++ b) = sum_bytes a + sum_bytes b.
Proof.
  induction a as [|x a IH]; cbn [app].
  - change (sum_bytes []) with 0. lia.
  - rewrite !sum_bytes_cons, IH. lia.
Qed.

(* ---- decimal round trips ---- *)

Lemma bytes_to_uint_to_bytes d : bytes_to_uint (uint_to_bytes d) = Some d.
Proof. induction d; cbn [uint_to_bytes bytes_to_uint]; try reflexivity; rewrite IHd; reflexivity. Qed.

Lemma uint_to_bytes_nonnil d : d <> Decimal.Nil -> uint_to_bytes d <> [].
Proof. destruct d; cbn; congruence. Qed.

Lemma to_uint_nonnil n : N.to_uint n <> Decimal.Nil.
Proof.
  destruct n as [|p]; cbn; [discriminate|].
  unfold Pos.to_uint. intro H.
  pose proof (DecimalPos.Unsigned.to_uint_nonnil p) as Hn. apply Hn. exact H.
Qed.

Lemma parse_digits_utoa n : parse_digits (utoa n) = Some n.
Proof.
  unfold parse_digits, utoa.
  destruct (uint_to_bytes (N.to_uint n)) eqn:E.
  - exfalso. eapply uint_to_bytes_nonnil; [apply to_uint_nonnil | exact E].
  - rewrite <- E. rewrite bytes_to_uint_to_bytes. cbn [option_map]. rewrite Unsigned.of_to. reflexivity.
Qed.

Lemma utoa_nonnil n : utoa n <> [].
Proof. unfold utoa. apply uint_to_bytes_nonnil, to_uint_nonnil. Qed.

(* first byte of utoa is a digit, hence neither '-' (45) nor '+' (43) *)
Lemma uint_to_bytes_head d x l : uint_to_bytes d = x :: l -> 48 <= x <= 57.
Proof. destruct d; cbn [uint_to_bytes]; intro H; inversion H; subst; lia. Qed.

Lemma atoi_digit_head x l :
  48 <= x <= 57 ->
  atoi (x :: l) = match parse_digits (x :: l) with
                  | None => None
                  | Some n => if in_int_range (Z.of_N n) then Some (Z.of_N n) else None
                  end.
Proof.
  intro Hx. unfold atoi.
  destruct x as [|q]; [lia|].
  do 6 (destruct q as [q|q|]; try lia; try reflexivity).
Qed.

Lemma atoi_itoa z : in_int_range z = true -> atoi (itoa z) = Some z.
Proof.
  intro Hr. destruct z as [|p|p]; unfold itoa.
  - reflexivity.
  - destruct (utoa (Npos p)) as [|x l] eqn:E; [exfalso; eapply utoa_nonnil; exact E|].
    assert (Hx : 48 <= x <= 57) by (eapply uint_to_bytes_head; exact E).
    rewrite (atoi_digit_head x l Hx), <- E, parse_digits_utoa.
    cbn [Z.of_N]. rewrite Hr. reflexivity.
  - unfold atoi. rewrite parse_digits_utoa. cbn [Z.of_N Z.opp]. rewrite Hr. reflexivity.
Qed.

Lemma parse_uint_utoa n : n <= uint64_max -> parse_uint (utoa n) = Some n.
Proof. intro H. unfold parse_uint. rewrite parse_digits_utoa. apply N.leb_le in H. rewrite H. reflexivity. Qed.

(* ---- pad3: three digits, value preserved, for every n < 256 (finite sweep) ---- *)

Definition pad3_ok (n : N) : bool :=
  Nat.eqb (length (pad3 n)) 3 &&
  match parse_digits (pad3 n) with Some m => N.eqb m n | None => false end.

Definition below256 : list N := map N.of_nat (seq 0 256).

Lemma pad3_sweep : forallb pad3_ok below256 = true.
Proof. vm_compute. reflexivity. Qed.

Lemma in_below256 n : n < 256 -> In n below256.
Proof.
  intro H. unfold below256. apply in_map_iff. exists (N.to_nat n). split; [apply N2Nat.id|].
  apply in_seq. lia.
Qed.

Lemma pad3_spec n : n < 256 -> length (pad3 n) = 3%nat /\ parse_digits (pad3 n) = Some n.
Proof.
  intro H. pose proof pad3_sweep as S. rewrite forallb_forall in S.
  specialize (S n (in_below256 n H)). unfold pad3_ok in S.
  apply andb_prop in S as [S1 S2]. apply Nat.eqb_eq in S1. split; [exact S1|].
  destruct (parse_digits (pad3 n)) as [m|]; [|discriminate]. apply N.eqb_eq in S2. congruence.
Qed.

Lemma pad3_inj a b : a < 256 -> b < 256 -> pad3 a = pad3 b -> a = b.
Proof.
  intros Ha Hb E. destruct (pad3_spec a Ha) as [_ Pa]. destruct (pad3_spec b Hb) as [_ Pb].
  rewrite E in Pa. congruence.
Qed.

Lemma calc_checksum_spec body :
  calc_checksum body = pad3 (sum_bytes (body ++ [SOH]) mod 256).
Proof. unfold calc_checksum. rewrite sum_bytes_app. cbn [sum_bytes fold_right SOH]. rewrite N.add_0_r. reflexivity. Qed.
