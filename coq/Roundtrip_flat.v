(* Roundtrip_flat.v -- C02 for whole messages without repeating groups: parsing the
   serialization of a message into a fresh template gives the message back, every populated value
   in the form the parser produces ([norm]), every unpopulated one still empty. *)
From SF Require Import Bytes Values Wire Parse Bytes_proofs Wire_proofs Item_ind Fields_proofs
  Parse_unfold Safety_proofs Lookup_proofs Validate_proofs Damage_proofs Roundtrip_proofs.
From SF Require Import Validate_complete.
Open Scope N_scope.

(* ---- flat items: key-values and components of flat items ---- *)
Inductive flat : item -> Prop :=
| flat_kv tag v : flat (IKV tag v)
| flat_comp items : Forall flat items -> flat (IComp items).

Fixpoint kvs (it : item) : list (bytes * value) :=
  match it with
  | IKV tag v => [(tag, v)]
  | IGroup _ _ _ => []
  | IComp items =>
      (fix go (l : list item) : list (bytes * value) :=
         match l with [] => [] | i :: l' => kvs i ++ go l' end) items
  end.

Lemma kvs_comp items : kvs (IComp items) = flat_map kvs items.
Proof.
  cbn [kvs]. induction items as [|i l IH]; [reflexivity|]. cbn [flat_map]. rewrite <- IH. reflexivity.
Qed.

Definition kvs_list (l : list item) : list (bytes * value) := flat_map kvs l.

Fixpoint norm_item (it : item) : item :=
  match it with
  | IKV tag v => IKV tag (norm v)
  | IGroup n t es => IGroup n t es
  | IComp items =>
      IComp ((fix go (l : list item) : list item :=
                match l with [] => [] | i :: l' => norm_item i :: go l' end) items)
  end.

Lemma inner_norm l :
  (fix go (l : list item) : list item :=
     match l with [] => [] | i :: l' => norm_item i :: go l' end) l = map norm_item l.
Proof. induction l as [|i l IH]; [reflexivity|]. cbn [map]. rewrite <- IH. reflexivity. Qed.

Lemma norm_item_comp items : norm_item (IComp items) = IComp (map norm_item items).
Proof. cbn [norm_item]. rewrite inner_norm. reflexivity. Qed.

(* the populated key-values as (tag, text) pairs *)
Definition pf_of (kv : bytes * value) : list pfield :=
  if populated (snd kv) then [(fst kv, canon (snd kv))] else [].
Definition pfs (l : list (bytes * value)) : list pfield := flat_map pf_of l.

Lemma pfs_app a b : pfs (a ++ b) = pfs a ++ pfs b.
Proof. unfold pfs. apply flat_map_app. Qed.

Lemma flat_map_fields l :
  Forall (fun i => flat i -> fields_of i = map prender (pfs (kvs i))) l -> Forall flat l ->
  flat_map fields_of l = map prender (pfs (flat_map kvs l)).
Proof.
  induction l as [|i l IHl]; intros HP HF; [reflexivity|].
  inversion HP as [|? ? Hi Hl]; subst. inversion HF as [|? ? Fi Fl]; subst.
  cbn [flat_map]. rewrite pfs_app, map_app. rewrite (Hi Fi), (IHl Hl Fl). reflexivity.
Qed.

Lemma fields_pfs it : flat it -> fields_of it = map prender (pfs (kvs it)).
Proof.
  induction it as [tag v|notag tpl es _ _|items IH] using item_ind2; intro F.
  - cbn [fields_of kvs]. unfold pfs; cbn [flat_map]. unfold pf_of; cbn [fst snd].
    rewrite app_nil_r. destruct (populated v); reflexivity.
  - inversion F.
  - inversion F as [|? Hall]; subst. rewrite kvs_comp. cbn [fields_of].
    apply flat_map_fields; assumption.
Qed.

Lemma fields_list_pfs l : Forall flat l -> fields_of_list l = map prender (pfs (kvs_list l)).
Proof.
  intro F. unfold fields_of_list, kvs_list. apply flat_map_fields; [|exact F].
  apply Forall_forall. intros i _. apply fields_pfs.
Qed.

Lemma flat_entries_ok it : flat it -> entries_ok it = true.
Proof.
  induction it as [tag v|notag tpl es _ _|items IH] using item_ind2; intro F; [reflexivity|inversion F|].
  inversion F as [|? Hall]; subst. cbn [entries_ok].
  apply forallb_forall. intros i Hi.
  rewrite Forall_forall in IH, Hall. exact (IH i Hi (Hall i Hi)).
Qed.

Lemma flat_list_ok l : Forall flat l -> list_ok l = true.
Proof.
  intro F. unfold list_ok. apply forallb_forall. intros i Hi.
  rewrite Forall_forall in F. apply flat_entries_ok. exact (F i Hi).
Qed.

(* ---- one item: the parser returns the normal form when every tag looks up as specified ---- *)
Definition looks_up (data : bytes) (kv : bytes * value) : Prop :=
  scan_value data (fst kv) = if populated (snd kv) then Some (canon (snd kv)) else None.

Definition good_kv (o : oracle) (kv : bytes * value) : Prop :=
  populated (snd kv) = true -> good_value o (snd kv).

Lemma norm_unpopulated v : populated v = false -> norm v = val_empty v.
Proof. intro P. unfold norm. rewrite P. reflexivity. Qed.

Definition item_rt (o : oracle) (data : bytes) (it : item) : Prop :=
  flat it -> Forall (looks_up data) (kvs it) -> Forall (good_kv o) (kvs it) ->
  unmarshal_item o data (as_template it) = Ok (norm_item it).

Lemma rmapM_flat o data l :
  Forall (item_rt o data) l -> Forall flat l ->
  Forall (looks_up data) (flat_map kvs l) -> Forall (good_kv o) (flat_map kvs l) ->
  rmapM (unmarshal_item o data) (map as_template l) = Ok (map norm_item l).
Proof.
  induction l as [|i l IHl]; intros HP HF HL HG; [reflexivity|].
  inversion HP as [|? ? Pi Pl]; subst. inversion HF as [|? ? Fi Fl]; subst.
  cbn [flat_map] in HL, HG. apply Forall_app in HL. apply Forall_app in HG.
  destruct HL as [HL1 HL2]. destruct HG as [HG1 HG2].
  cbn [map rmapM]. rewrite (Pi Fi HL1 HG1). rewrite (IHl Pl Fl HL2 HG2). reflexivity.
Qed.

Lemma unmarshal_item_flat o data it : item_rt o data it.
Proof.
  induction it as [tag v|notag tpl es _ _|items IH] using item_ind2; intros F HL HG.
  - cbn [as_template unmarshal_item norm_item]. unfold scan_kv.
    inversion HL as [|? ? Hl _]; subst. inversion HG as [|? ? Hg _]; subst.
    unfold looks_up in Hl; cbn [fst snd] in Hl. rewrite Hl.
    destruct (populated v) eqn:P.
    + unfold good_kv in Hg; cbn [snd] in Hg. rewrite (value_roundtrip o v P (Hg P)). reflexivity.
    + rewrite (norm_unpopulated v P). reflexivity.
  - inversion F.
  - inversion F as [|? Hall]; subst. rewrite as_template_comp, unmarshal_item_comp, norm_item_comp.
    rewrite kvs_comp in HL, HG. rewrite (rmapM_flat o data items IH Hall HL HG). reflexivity.
Qed.

Lemma unmarshal_items_flat o data l :
  Forall flat l ->
  Forall (looks_up data) (kvs_list l) -> Forall (good_kv o) (kvs_list l) ->
  unmarshal_items o data (map as_template l) = Ok (map norm_item l).
Proof.
  intros F HL HG. unfold unmarshal_items. apply rmapM_flat; try assumption.
  apply Forall_forall. intros i _. apply unmarshal_item_flat.
Qed.

(* ---- exact-tag lookup in the populated fields of a list with distinct tags ---- *)
Lemma pfs_tags_subset L t : In t (map fst (pfs L)) -> In t (map fst L).
Proof.
  induction L as [|kv L IH]; [intros []|]. unfold pfs; cbn [flat_map]. fold (pfs L).
  rewrite map_app, in_app_iff. intros [H|H].
  - unfold pf_of in H. destruct (populated (snd kv)); [|destruct H].
    cbn in H. destruct H as [<-|[]]. left. reflexivity.
  - right. exact (IH H).
Qed.

Lemma lookup_notin t fs : ~ In t (map fst fs) -> lookup t fs = None.
Proof.
  induction fs as [|f fs IH]; intro H; [reflexivity|]. cbn [lookup].
  destruct (beq (fst f) t) eqn:E.
  - apply beq_eq in E. exfalso. apply H. left. exact E.
  - apply IH. intro Hin. apply H. right. exact Hin.
Qed.

Lemma lookup_app_skip t a b : ~ In t (map fst a) -> lookup t (a ++ b) = lookup t b.
Proof.
  induction a as [|f a IH]; intro H; [reflexivity|]. cbn [app lookup].
  destruct (beq (fst f) t) eqn:E.
  - apply beq_eq in E. exfalso. apply H. left. exact E.
  - apply IH. intro Hin. apply H. right. exact Hin.
Qed.

Lemma lookup_nodup L :
  NoDup (map fst L) ->
  forall kv, In kv L ->
    lookup (fst kv) (pfs L) = if populated (snd kv) then Some (canon (snd kv)) else None.
Proof.
  induction L as [|k L IH]; intros ND kv Hin; [destruct Hin|].
  cbn [map] in ND. inversion ND as [|? ? Hk NDl]; subst.
  unfold pfs; cbn [flat_map]. fold (pfs L).
  destruct Hin as [->|Hin].
  - unfold pf_of. destruct (populated (snd kv)) eqn:P.
    + cbn [app lookup fst snd]. rewrite beq_refl. reflexivity.
    + cbn [app]. apply lookup_notin. intro H. apply Hk. apply pfs_tags_subset. exact H.
  - assert (Hne : fst kv <> fst k).
    { intro E. apply Hk. rewrite <- E. apply in_map. exact Hin. }
    rewrite lookup_app_skip.
    + apply IH; assumption.
    + unfold pf_of. destruct (populated (snd k)); [|intros []].
      cbn. intros [E|[]]. apply Hne. symmetry. exact E.
Qed.

(* ---- the message ---- *)
Definition template_of (m : message) : message :=
  {| m_bs_tag := m_bs_tag m; m_bl_tag := m_bl_tag m; m_cs_tag := m_cs_tag m; m_mt_tag := m_mt_tag m;
     m_bs := m_bs m; m_bl := VInt false 0%Z; m_mt := m_mt m; m_cs := VString false [];
     m_header := map as_template (m_header m); m_body := map as_template (m_body m);
     m_trailer := map as_template (m_trailer m) |}.

Definition norm_msg (pm : message) : message :=
  set_header_items pm (m_bs pm) (m_bl pm) (m_mt pm)
    (map norm_item (m_header pm)) (map norm_item (m_body pm)) (map norm_item (m_trailer pm)) (m_cs pm).

Definition inner_kvs (m : message) : list (bytes * value) :=
  kvs_list (m_header m) ++ kvs_list (m_body m) ++ kvs_list (m_trailer m).

Definition wf_kv (o : oracle) (kv : bytes * value) : Prop :=
  digits (fst kv) /\ (populated (snd kv) = true -> sohfree (canon (snd kv)) /\ good_value o (snd kv)).

Lemma digits_wf_tag t : digits t -> wf_tag t.
Proof.
  intro D. split; [apply digits_sohfree; exact D|].
  eapply Forall_impl; [|exact D]. intros b Hb E. rewrite E in Hb. unfold EQS in Hb. lia.
Qed.

Lemma pfs_wf o L : Forall (wf_kv o) L -> Forall wf_field (pfs L).
Proof.
  induction L as [|kv L IH]; intro H; [constructor|].
  inversion H as [|? ? [Hd Hv] Hl]; subst. unfold pfs; cbn [flat_map]. fold (pfs L).
  apply Forall_app. split; [|exact (IH Hl)].
  unfold pf_of. destruct (populated (snd kv)) eqn:P; [|constructor].
  constructor; [|constructor]. split; cbn [fst snd]; [apply digits_wf_tag; exact Hd|exact (proj1 (Hv eq_refl))].
Qed.

Lemma filter_id {A} (f : A -> bool) l : Forall (fun x => f x = true) l -> filter f l = l.
Proof.
  induction l as [|x l IH]; intro H; [reflexivity|]. inversion H; subst. cbn [filter].
  rewrite H2. f_equal. auto.
Qed.

Lemma term_layout (fs : list pfield) : fs <> [] -> term (map prender fs) = layout fs ++ [SOH].
Proof.
  intro H. unfold layout. symmetry. apply join_term. destruct fs; [contradiction|discriminate].
Qed.

Lemma kv_string_to_bytes tag s : s <> [] -> kv_to_bytes tag (VString true s) = Some (tag ++ EQS :: s).
Proof. intro H. destruct s; [contradiction|reflexivity]. Qed.

Lemma populated_string s : s <> [] -> populated (VString true s) = true.
Proof. intro H. destruct s; [contradiction|reflexivity]. Qed.

Lemma is_nil_false (l : bytes) : l <> [] -> is_nil l = false.
Proof. destruct l; [contradiction|reflexivity]. Qed.

Section Message.
  Variable o : oracle.
  Variable m : message.
  Variables bs mt : bytes.
  Hypothesis Hbs : m_bs m = VString true bs.
  Hypothesis Hbsn : bs <> [].
  Hypothesis Sbs : sohfree bs.
  Hypothesis Hmt : m_mt m = VString true mt.
  Hypothesis Hmtn : mt <> [].
  Hypothesis Smt : sohfree mt.
  Hypothesis Dbs : digits (m_bs_tag m).
  Hypothesis Dbl : digits (m_bl_tag m).
  Hypothesis Dmt : digits (m_mt_tag m).
  Hypothesis Dcs : digits (m_cs_tag m).
  Hypothesis Fh : Forall flat (m_header m).
  Hypothesis Fb : Forall flat (m_body m).
  Hypothesis Ft : Forall flat (m_trailer m).
  Hypothesis Hnocs : Forall (fun it => negb (is_cs_kv (m_cs_tag m) it) = true) (m_trailer m).
  Hypothesis Hwf : Forall (wf_kv o) (inner_kvs m).
  Hypothesis Hnd : NoDup (m_bs_tag m :: m_bl_tag m :: m_mt_tag m :: map fst (inner_kvs m) ++ [m_cs_tag m]).
  Hypothesis Hrange : (Z.of_nat (calc_body_length m) <= int_max)%Z.

  Let bsF := m_bs_tag m ++ EQS :: bs.
  Let mtF := m_mt_tag m ++ EQS :: mt.
  Let R := counted_region m mtF.
  Let blz := Z.of_nat (length R).
  Let P := bsF ++ SOH :: m_bl_tag m ++ EQS :: itoa blz ++ SOH :: R.
  Let C := pad3 (sum_bytes P mod 256).

  Let allkvs : list (bytes * value) :=
    (m_bs_tag m, m_bs m) :: (m_bl_tag m, VInt true blz) :: (m_mt_tag m, m_mt m)
    :: inner_kvs m ++ [(m_cs_tag m, VString true C)].

  Lemma Kbs : kv_to_bytes (m_bs_tag m) (m_bs m) = Some bsF.
  Proof. rewrite Hbs. apply kv_string_to_bytes. exact Hbsn. Qed.

  Lemma Kmt : kv_to_bytes (m_mt_tag m) (m_mt m) = Some mtF.
  Proof. rewrite Hmt. apply kv_string_to_bytes. exact Hmtn. Qed.

  Lemma Rlen : length R = calc_body_length m.
  Proof. apply counted_region_length. exact Kmt. Qed.

  Lemma trailer_items_id : trailer_items m = m_trailer m.
  Proof. unfold trailer_items. apply filter_id. exact Hnocs. Qed.

  Lemma C_nonnil : C <> [].
  Proof.
    unfold C. intro E. pose proof (pad3_len (sum_bytes P)) as L. rewrite E in L. discriminate.
  Qed.

  Lemma wire_fields :
    to_bytes m = term (msg_fields m bsF (m_bl_tag m ++ EQS :: itoa blz) mtF (m_cs_tag m ++ EQS :: C)).
  Proof.
    pose proof (to_bytes_shape m bsF mtF Kbs Kmt) as S. cbv zeta in S.
    assert (HR : counted_region m mtF =
                 mtF ++ SOH :: term (fields_of_list (m_header m)) ++ term (fields_of_list (m_body m))
                     ++ term (fields_of_list (trailer_items m))).
    { unfold counted_region.
      rewrite (comp_obytes_fields _ (flat_list_ok _ Fh)), (items_to_bytes_fields _ (flat_list_ok _ Fb)).
      rewrite (trailer_obytes_fields m) by (rewrite trailer_items_id; apply flat_list_ok; exact Ft).
      rewrite !sohterm_join by apply fields_of_list_nonnil. reflexivity. }
    fold R in HR. rewrite S. fold R. fold blz. fold P. fold C.
    unfold P. rewrite HR.
    unfold msg_fields. rewrite !term_app, !term_cons. change (term []) with (@nil N).
    repeat (rewrite <- ?app_assoc; cbn [app]).
    rewrite ?app_nil_r. reflexivity.
  Qed.

  Lemma allkvs_fields :
    map prender (pfs allkvs)
    = msg_fields m bsF (m_bl_tag m ++ EQS :: itoa blz) mtF (m_cs_tag m ++ EQS :: C).
  Proof.
    unfold allkvs, msg_fields. unfold pfs. cbn [flat_map]. fold (pfs (inner_kvs m ++ [(m_cs_tag m, VString true C)])).
    unfold pf_of at 1 2 3. cbn [fst snd]. rewrite Hbs, Hmt.
    rewrite (populated_string bs Hbsn), (populated_string mt Hmtn).
    change (populated (VInt true blz)) with true. cbn [app map canon].
    unfold prender at 1 2 3. cbn [fst snd]. fold bsF. fold mtF.
    f_equal. f_equal. f_equal.
    rewrite pfs_app, map_app. unfold inner_kvs. rewrite !pfs_app, !map_app.
    rewrite <- !fields_list_pfs by assumption. rewrite trailer_items_id.
    rewrite <- !app_assoc. f_equal. f_equal. f_equal.
    unfold pfs; cbn [flat_map]. unfold pf_of; cbn [fst snd].
    rewrite (populated_string C C_nonnil). reflexivity.
  Qed.

  Lemma pfs_allkvs_nonnil : pfs allkvs <> [].
  Proof.
    unfold allkvs, pfs. cbn [flat_map]. unfold pf_of at 1. cbn [fst snd]. rewrite Hbs.
    rewrite (populated_string bs Hbsn). discriminate.
  Qed.

  Lemma wire_layout : to_bytes m = layout (pfs allkvs) ++ [SOH].
  Proof. rewrite wire_fields, <- allkvs_fields. apply term_layout. exact pfs_allkvs_nonnil. Qed.

  Lemma blz_range : in_int_range blz = true.
  Proof.
    unfold in_int_range, blz. rewrite Rlen. apply andb_true_intro.
    split; apply Z.leb_le; [unfold int_min; lia|exact Hrange].
  Qed.

  Lemma allkvs_wf : Forall (wf_kv o) allkvs.
  Proof.
    unfold allkvs. constructor; [|constructor; [|constructor]].
    - split; cbn [fst snd]; [exact Dbs|]. rewrite Hbs. intros _. split; [exact Sbs|exact I].
    - split; cbn [fst snd]; [exact Dbl|]. intros _. split; [apply itoa_nat_sohfree|exact blz_range].
    - split; cbn [fst snd]; [exact Dmt|]. rewrite Hmt. intros _. split; [exact Smt|exact I].
    - apply Forall_app. split; [exact Hwf|]. constructor; [|constructor].
      split; cbn [fst snd]; [exact Dcs|]. intros _. split; [|exact I].
      cbn [canon]. apply pad3_sohfree. apply N.mod_lt. discriminate.
  Qed.

  Lemma allkvs_nodup : NoDup (map fst allkvs).
  Proof. unfold allkvs. cbn [map fst]. rewrite map_app. cbn [map fst]. exact Hnd. Qed.

  Lemma all_look_up : Forall (looks_up (to_bytes m)) allkvs.
  Proof.
    apply Forall_forall. intros kv Hin. unfold looks_up.
    rewrite wire_layout.
    rewrite (scan_value_message (fst kv) (pfs allkvs) [SOH]).
    - apply lookup_nodup; [exact allkvs_nodup|exact Hin].
    - apply digits_wf_tag. pose proof allkvs_wf as W. rewrite Forall_forall in W. exact (proj1 (W kv Hin)).
    - apply (pfs_wf o). exact allkvs_wf.
    - right. reflexivity.
  Qed.

  Lemma prepare_bl : m_bl (fst (prepare m)) = VInt true blz.
  Proof. unfold prepare; cbn [fst m_bl]. unfold blz. rewrite Rlen. reflexivity. Qed.

  Lemma prepare_cs : m_cs (fst (prepare m)) = VString true C.
  Proof.
    unfold prepare; cbn [fst m_cs]. f_equal.
    rewrite calc_checksum_spec.
    rewrite (bwc_shape m _ bsF _ mtF Kbs (kv_int_to_bytes (m_bl_tag m) _) Kmt).
    unfold C, P, blz. rewrite Rlen. fold R.
    repeat (rewrite <- ?app_assoc; cbn [app]). reflexivity.
  Qed.

  Lemma in_allkvs_bs : In (m_bs_tag m, m_bs m) allkvs. Proof. left. reflexivity. Qed.
  Lemma in_allkvs_bl : In (m_bl_tag m, VInt true blz) allkvs. Proof. right. left. reflexivity. Qed.
  Lemma in_allkvs_mt : In (m_mt_tag m, m_mt m) allkvs. Proof. right. right. left. reflexivity. Qed.
  Lemma in_allkvs_cs : In (m_cs_tag m, VString true C) allkvs.
  Proof. right. right. right. apply in_or_app. right. left. reflexivity. Qed.
  Lemma in_allkvs_inner kv : In kv (inner_kvs m) -> In kv allkvs.
  Proof. intro H. right. right. right. apply in_or_app. left. exact H. Qed.

  Lemma scan_populated kv :
    In kv allkvs -> populated (snd kv) = true -> scan_value (to_bytes m) (fst kv) = Some (canon (snd kv)).
  Proof.
    intros Hin Hp. pose proof all_look_up as L. rewrite Forall_forall in L.
    specialize (L kv Hin). unfold looks_up in L. rewrite Hp in L. exact L.
  Qed.

  Lemma inner_look_up l :
    (forall kv, In kv (kvs_list l) -> In kv (inner_kvs m)) ->
    Forall (looks_up (to_bytes m)) (kvs_list l) /\ Forall (good_kv o) (kvs_list l).
  Proof.
    intro Hsub. pose proof all_look_up as L. rewrite Forall_forall in L.
    pose proof Hwf as W. rewrite Forall_forall in W.
    split; apply Forall_forall; intros kv Hin.
    - apply L. apply in_allkvs_inner. apply Hsub. exact Hin.
    - intro Hp. exact (proj2 (proj2 (W kv (Hsub kv Hin)) Hp)).
  Qed.

  Lemma want_bs_template : want_bs_of (template_of m) = Some bs.
  Proof.
    unfold want_bs_of, template_of. cbn [m_bs_tag m_bs]. rewrite Kbs. rewrite Hbs.
    cbn [val_to_bytes]. rewrite (is_nil_false bs Hbsn). reflexivity.
  Qed.

  Lemma validate_wire :
    validate_raw (m_bs_tag m) (m_bl_tag m) (m_cs_tag m) (Some bs) (to_bytes m) = Ok tt.
  Proof.
    assert (Hr : (Z.of_nat (length (counted_region m mtF)) <= int_max)%Z).
    { fold R. rewrite Rlen. exact Hrange. }
    destruct (to_bytes_framed m bs mtF Kbs Kmt Sbs Dcs Hr) as (L & B & c & F).
    eapply validate_raw_complete; [exact F|exact Dbs|exact Dbl|exact Dcs|right; reflexivity].
  Qed.

  Theorem flat_message_roundtrip :
    unmarshal o (template_of m) (to_bytes m) = Ok (norm_msg (fst (prepare m))).
  Proof.
    unfold unmarshal. rewrite want_bs_template.
    cbn [template_of m_bs_tag m_bl_tag m_cs_tag m_mt_tag m_bs m_bl m_mt m_cs m_header m_body m_trailer].
    rewrite validate_wire.
    (* BeginString *)
    unfold scan_kv at 1.
    pose proof (scan_populated (m_bs_tag m, m_bs m) in_allkvs_bs) as E1. cbn [fst snd] in E1.
    rewrite E1 by (rewrite Hbs; apply populated_string; exact Hbsn).
    rewrite Hbs. cbn [val_from_bytes canon].
    (* BodyLength *)
    unfold scan_kv at 1.
    pose proof (scan_populated (m_bl_tag m, VInt true blz) in_allkvs_bl) as E2. cbn [fst snd] in E2.
    rewrite E2 by reflexivity.
    cbn [val_from_bytes canon]. rewrite (atoi_itoa blz blz_range).
    (* MsgType *)
    unfold scan_kv at 1.
    pose proof (scan_populated (m_mt_tag m, m_mt m) in_allkvs_mt) as E3. cbn [fst snd] in E3.
    rewrite E3 by (rewrite Hmt; apply populated_string; exact Hmtn).
    rewrite Hmt. cbn [val_from_bytes canon].
    (* header *)
    assert (HH : unmarshal_item o (to_bytes m) (IComp (map as_template (m_header m))) = Ok (IComp (map norm_item (m_header m)))).
    { rewrite <- as_template_comp, <- norm_item_comp.
      destruct (inner_look_up (m_header m)) as [L1 G1].
      { intros kv Hin. unfold inner_kvs. apply in_or_app. left. exact Hin. }
      apply unmarshal_item_flat; [constructor; exact Fh|rewrite kvs_comp; exact L1|rewrite kvs_comp; exact G1]. }
    rewrite HH.
    (* body *)
    assert (HB : unmarshal_items o (to_bytes m) (map as_template (m_body m)) = Ok (map norm_item (m_body m))).
    { destruct (inner_look_up (m_body m)) as [L1 G1].
      { intros kv Hin. unfold inner_kvs. apply in_or_app. right. apply in_or_app. left. exact Hin. }
      apply unmarshal_items_flat; assumption. }
    rewrite HB.
    (* trailer *)
    assert (HT : unmarshal_item o (to_bytes m) (IComp (map as_template (m_trailer m))) = Ok (IComp (map norm_item (m_trailer m)))).
    { rewrite <- as_template_comp, <- norm_item_comp.
      destruct (inner_look_up (m_trailer m)) as [L1 G1].
      { intros kv Hin. unfold inner_kvs. apply in_or_app. right. apply in_or_app. right. exact Hin. }
      apply unmarshal_item_flat; [constructor; exact Ft|rewrite kvs_comp; exact L1|rewrite kvs_comp; exact G1]. }
    rewrite HT.
    (* CheckSum *)
    unfold scan_kv at 1.
    pose proof (scan_populated (m_cs_tag m, VString true C) in_allkvs_cs) as E4. cbn [fst snd] in E4.
    rewrite E4 by (apply populated_string; exact C_nonnil).
    cbn [val_from_bytes canon].
    (* required fields *)
    assert (Hreq : check_required
                     (set_header_items (template_of m) (VString true bs) (VInt true blz) (VString true mt)
                        (map norm_item (m_header m)) (map norm_item (m_body m)) (map norm_item (m_trailer m))
                        (VString true C)) = true).
    { unfold check_required, set_header_items. cbn [m_bs m_bl m_mt m_cs is_null int_val string_val negb].
      assert (Hz : Z.eqb blz 0 = false).
      { apply Z.eqb_neq. unfold blz, R, counted_region, mtF. rewrite !app_length. cbn [length]. lia. }
      rewrite Hz, (is_nil_false mt Hmtn), (is_nil_false C C_nonnil). reflexivity. }
    unfold template_of in Hreq |- *.
    cbn [m_bs_tag m_bl_tag m_cs_tag m_mt_tag m_bs m_bl m_mt m_cs m_header m_body m_trailer set_header_items] in Hreq |- *.
    rewrite Hreq.
    f_equal. unfold norm_msg, set_header_items. rewrite prepare_bl, prepare_cs.
    unfold prepare. cbn [fst m_bs_tag m_bl_tag m_cs_tag m_mt_tag m_bs m_mt m_header m_body m_trailer].
    rewrite Hbs, Hmt. reflexivity.
  Qed.
End Message.

(* ---- the hypotheses are satisfiable: a message with header, a component in the body, trailer ---- *)
Definition ex_oracle : oracle := {| float_ok := fun _ => true; time_canon := fun t => Some t |}.

Definition ex_msg : message :=
  {| m_bs_tag := [56]; m_bl_tag := [57]; m_cs_tag := [49; 48]; m_mt_tag := [51; 53];
     m_bs := VString true [70; 73; 88; 46; 52; 46; 52];
     m_bl := VInt false 0%Z; m_mt := VString true [68]; m_cs := VString false [];
     m_header := [IKV [52; 57] (VString true [65; 66]); IKV [51; 52] (VInt true 7%Z); IKV [53; 48] (VString false [])];
     m_body := [IKV [53; 53] (VString true [88]);
                IComp [IKV [52; 52] (VFloat true None [49; 46; 53]); IKV [51; 56] (VUint true 100); IKV [53; 57] (VBool false false)];
                IKV [49; 52; 49] (VBool true true)];
     m_trailer := [IKV [57; 51] (VInt true 2%Z); IKV [56; 57] (VRaw (Some [90; 90]))] |}.

Example flat_roundtrip_applies :
  unmarshal ex_oracle (template_of ex_msg) (to_bytes ex_msg) = Ok (norm_msg (fst (prepare ex_msg))).
Proof.
  apply (flat_message_roundtrip ex_oracle ex_msg [70; 73; 88; 46; 52; 46; 52] [68]);
    try reflexivity; try discriminate.
  - repeat constructor; discriminate.
  - repeat constructor; discriminate.
  - repeat constructor; cbv; intuition discriminate.
  - repeat constructor; cbv; intuition discriminate.
  - repeat constructor; cbv; intuition discriminate.
  - repeat constructor; cbv; intuition discriminate.
  - repeat constructor.
  - repeat constructor.
  - repeat constructor.
  - repeat constructor.
  - unfold inner_kvs, kvs_list, ex_msg; cbn [flat_map kvs app m_header m_body m_trailer].
    repeat (constructor; [split; cbn [fst snd]; [repeat constructor; cbv; intuition discriminate|
                                                  intro Hp; split; [cbn [canon]; try discriminate Hp; repeat constructor; discriminate|
                                                                    cbn; try reflexivity; try exact I; try (cbv; intuition discriminate)]]|]).
    constructor.
  - unfold inner_kvs, kvs_list, ex_msg; cbn [flat_map kvs app map fst m_header m_body m_trailer m_bs_tag m_bl_tag m_mt_tag m_cs_tag].
    repeat (constructor; [cbn [In]; intuition discriminate|]). constructor.
Qed.
