(* Wire.v -- item trees and Message serialization (fix/key_value.go,
   fix/group.go, fix/component.go, fix/fix_item.go, fix/message.go,
   fix/generator.go). *)
From SF Require Export Values.
Open Scope N_scope.

Inductive item :=
| IKV (tag : bytes) (v : value)
| IGroup (notag : bytes) (template : list item) (entries : list (list item))
| IComp (items : list item).

(* keep the Some's of a list *)
Fixpoint somes {A} (l : list (option A)) : list A :=
  match l with
  | [] => []
  | Some a :: l' => a :: somes l'
  | None :: l' => somes l'
  end.

(* KeyValue.ToBytes *)
Definition kv_to_bytes (tag : bytes) (v : value) : option bytes :=
  if is_null v then None
  else match val_to_bytes v with
       | None => None
       | Some b => Some (tag ++ EQS :: b)
       end.

(* Item.ToBytes for the three item kinds; None is Go's nil.
   Items.ToBytes (a plain slice of items, used for the message body and for
   group entries) never returns nil: see [items_to_bytes]. *)
Fixpoint item_to_bytes (it : item) : option bytes :=
  match it with
  | IKV tag v => kv_to_bytes tag v
  | IGroup notag _ entries =>
      match entries with
      | [] => None
      | _ =>
          let cnt := kv_to_bytes notag (VInt true (Z.of_nat (length entries))) in
          let ents :=
            (fix go (es : list (list item)) : list bytes :=
               match es with
               | [] => []
               | e :: es' =>
                   join [SOH]
                     (somes ((fix go2 (l : list item) : list (option bytes) :=
                                match l with
                                | [] => []
                                | i :: l' => item_to_bytes i :: go2 l'
                                end) e)) :: go es'
               end) entries in
          Some (join [SOH] (somes [cnt] ++ ents))
      end
  | IComp items =>
      match somes ((fix go2 (l : list item) : list (option bytes) :=
                      match l with
                      | [] => []
                      | i :: l' => item_to_bytes i :: go2 l'
                      end) items) with
      | [] => None
      | parts => Some (join [SOH] parts)
      end
  end.

(* Items.ToBytes *)
Definition items_to_bytes (l : list item) : bytes :=
  join [SOH] (somes (map item_to_bytes l)).

Record message := {
  m_bs_tag : bytes;  (* BeginString tag *)
  m_bl_tag : bytes;  (* BodyLength tag *)
  m_cs_tag : bytes;  (* CheckSum tag *)
  m_mt_tag : bytes;  (* MsgType tag *)
  m_bs : value;      (* BeginString value (a String) *)
  m_bl : value;      (* BodyLength value (an Int), overwritten by Prepare *)
  m_mt : value;      (* MsgType value (a String) *)
  m_cs : value;      (* CheckSum value (a String), overwritten by Prepare *)
  m_header : list item;
  m_body : list item;
  m_trailer : list item
}.

Definition olen (o : option bytes) : nat :=
  match o with None => 0%nat | Some b => length b end.
Definition obytes (o : option bytes) : bytes :=
  match o with None => [] | Some b => b end.

(* Message.trailerBytes: trailer items except a top-level field carrying the
   CheckSum tag *)
Definition is_cs_kv (cs_tag : bytes) (it : item) : bool :=
  match it with IKV tag _ => beq tag cs_tag | _ => false end.

Definition trailer_bytes (m : message) : option bytes :=
  match somes (map item_to_bytes
                 (filter (fun it => negb (is_cs_kv (m_cs_tag m) it)) (m_trailer m))) with
  | [] => None
  | parts => Some (join [SOH] parts)
  end.

(* Message.CalcBodyLength *)
Definition calc_body_length (m : message) : nat :=
  let bh := olen (item_to_bytes (IComp (m_header m))) in
  let bb := length (items_to_bytes (m_body m)) in
  let mt := olen (kv_to_bytes (m_mt_tag m) (m_mt m)) in
  let bt := olen (trailer_bytes m) in
  ((if Nat.ltb 0 mt then mt + 1 else 0) +
   (if Nat.ltb 0 bb then bb + 1 else 0) +
   (if Nat.ltb 0 bh then bh + 1 else 0) +
   (if Nat.ltb 0 bt then bt + 1 else 0))%nat.

(* Message.BytesWithoutChecksum, given the BodyLength value already set *)
Definition bytes_without_checksum (m : message) (bl : value) : bytes :=
  let bh := obytes (item_to_bytes (IComp (m_header m))) in
  let bb := items_to_bytes (m_body m) in
  let bt := obytes (trailer_bytes m) in
  let bm := join [SOH] [obytes (kv_to_bytes (m_bs_tag m) (m_bs m));
                        obytes (kv_to_bytes (m_bl_tag m) bl);
                        obytes (kv_to_bytes (m_mt_tag m) (m_mt m))] in
  let bm := if is_nil bh then bm else bm ++ SOH :: bh in
  let bm := if is_nil bb then bm else bm ++ SOH :: bb in
  if is_nil bt then bm else bm ++ SOH :: bt.

(* Message.Prepare / ToBytes: returns the message with BodyLength and
   CheckSum set, and the wire bytes *)
Definition prepare (m : message) : message * bytes :=
  let bl := VInt true (Z.of_nat (calc_body_length m)) in
  let bm := bytes_without_checksum m bl in
  let cs := calc_checksum bm in
  let m' := {| m_bs_tag := m_bs_tag m; m_bl_tag := m_bl_tag m; m_cs_tag := m_cs_tag m;
               m_mt_tag := m_mt_tag m; m_bs := m_bs m; m_bl := bl; m_mt := m_mt m;
               m_cs := VString true cs;
               m_header := m_header m; m_body := m_body m; m_trailer := m_trailer m |} in
  (m', bm ++ SOH :: m_cs_tag m ++ EQS :: cs ++ [SOH]).

Definition to_bytes (m : message) : bytes := snd (prepare m).
