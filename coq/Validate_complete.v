(* Validate_complete.v -- validateRaw accepts every well-framed message (the converse of
   validate_raw_sound): needed for the round trip. *)
From SF Require Import Bytes Values Wire Parse Bytes_proofs Fields_proofs Safety_proofs
  Lookup_proofs Validate_proofs Damage_proofs.
Open Scope N_scope.

Lemma find_byte_first b u v :
  Forall (fun x => x <> b) u -> find_byte b (u ++ b :: v) = Some (length u).
Proof.
  induction u as [|x u IH]; intro H; cbn [app find_byte length].
  - rewrite N.eqb_refl. reflexivity.
  - inversion H as [|? ? Hx Hu]; subst. destruct (N.eqb_spec x b) as [E|_]; [contradiction|].
    rewrite (IH Hu). reflexivity.
Qed.

Lemma rfind_byte_none_free b u : Forall (fun x => x <> b) u -> rfind_byte b u = None.
Proof.
  induction u as [|x u IH]; intro H; [reflexivity|].
  inversion H as [|? ? Hx Hu]; subst. cbn [rfind_byte]. rewrite (IH Hu).
  destruct (N.eqb_spec x b) as [E|_]; [contradiction|reflexivity].
Qed.

Lemma rfind_byte_last b a u :
  Forall (fun x => x <> b) u -> rfind_byte b (a ++ b :: u) = Some (length a).
Proof.
  intro H. induction a as [|x a IH]; cbn [app rfind_byte length].
  - rewrite (rfind_byte_none_free b u H). rewrite N.eqb_refl. reflexivity.
  - rewrite IH. reflexivity.
Qed.

Lemma removelast_app_single {A} (l : list A) (x : A) : removelast (l ++ [x]) = l.
Proof. apply removelast_last. Qed.

Lemma last_app_single (l : bytes) (x : N) : last (l ++ [x]) 0 = x.
Proof. apply last_last. Qed.

Lemma skipn_app_exact {A} (u v : list A) : skipn (length u) (u ++ v) = v.
Proof. induction u; [reflexivity|assumption]. Qed.

Lemma firstn_app_exact {A} (u v : list A) : firstn (length u) (u ++ v) = u.
Proof. induction u as [|x u IH]; [destruct v; reflexivity|]. cbn. f_equal. exact IH. Qed.

Theorem validate_raw_complete :
  forall bst blt cst d bs L B c w,
    framed bst blt cst d bs L B c ->
    digits bst -> digits blt -> digits cst ->
    (w = None \/ w = Some bs) ->
    validate_raw bst blt cst w d = Ok tt.
Proof.
  intros bst blt cst d bs L B c w F Dbs Dbl Dcs Hw.
  destruct F as [Hshape Sbs SL Sc Bend Hlen Hsum].
  set (f1 := bst ++ EQS :: bs) in *.
  set (f2 := blt ++ EQS :: L) in *.
  set (f3 := cst ++ EQS :: c) in *.
  assert (S1 : sohfree f1) by (apply sohfree_tagfield; assumption).
  assert (S2 : sohfree f2) by (apply sohfree_tagfield; assumption).
  unfold validate_raw.
  (* BeginString first *)
  assert (P1 : prefixb (bst ++ [EQS]) d = true).
  { rewrite Hshape. unfold f1. replace ((bst ++ EQS :: bs) ++ SOH :: f2 ++ SOH :: B ++ f3 ++ [SOH])
      with ((bst ++ [EQS]) ++ bs ++ SOH :: f2 ++ SOH :: B ++ f3 ++ [SOH])
      by (repeat (rewrite <- ?app_assoc; cbn [app]); reflexivity).
    apply prefixb_app. }
  rewrite P1. cbn [negb].
  assert (F1 : find_byte SOH d = Some (length f1)).
  { rewrite Hshape. apply find_byte_first. exact S1. }
  rewrite F1.
  assert (G1 : Nat.ltb (length f1) (length (bst ++ [EQS])) = false).
  { apply Nat.ltb_ge. unfold f1. rewrite !app_length. cbn [length]. lia. }
  rewrite G1.
  assert (Ebs : skipn (length (bst ++ [EQS])) (firstn (length f1) d) = bs).
  { rewrite Hshape, firstn_app_exact. unfold f1.
    replace (bst ++ EQS :: bs) with ((bst ++ [EQS]) ++ bs) by (rewrite <- app_assoc; reflexivity).
    apply skipn_app_exact. }
  rewrite Ebs.
  assert (Erest : skipn (length f1 + 1) d = f2 ++ SOH :: B ++ f3 ++ [SOH]).
  { rewrite Hshape. apply skipn_exact1. reflexivity. }
  rewrite Erest.
  assert (P2 : prefixb (blt ++ [EQS]) (f2 ++ SOH :: B ++ f3 ++ [SOH]) = true).
  { unfold f2. replace ((blt ++ EQS :: L) ++ SOH :: B ++ f3 ++ [SOH])
      with ((blt ++ [EQS]) ++ L ++ SOH :: B ++ f3 ++ [SOH])
      by (repeat (rewrite <- ?app_assoc; cbn [app]); reflexivity).
    apply prefixb_app. }
  rewrite P2. cbn [negb].
  rewrite (find_byte_first SOH f2 (B ++ f3 ++ [SOH]) S2).
  assert (G2 : Nat.ltb (length f2) (length (blt ++ [EQS])) = false).
  { apply Nat.ltb_ge. unfold f2. rewrite !app_length. cbn [length]. lia. }
  rewrite G2.
  assert (EL : skipn (length (blt ++ [EQS])) (firstn (length f2) (f2 ++ SOH :: B ++ f3 ++ [SOH])) = L).
  { rewrite firstn_app_exact. unfold f2.
    replace (blt ++ EQS :: L) with ((blt ++ [EQS]) ++ L) by (rewrite <- app_assoc; reflexivity).
    apply skipn_app_exact. }
  rewrite EL.
  (* the tail *)
  set (X := f1 ++ SOH :: f2 ++ SOH :: B) in *.
  assert (Ed : d = (X ++ f3) ++ [SOH]).
  { rewrite Hshape. unfold X. repeat (rewrite <- ?app_assoc; cbn [app]). reflexivity. }
  assert (Elast : last d 0 = SOH) by (rewrite Ed; apply last_app_single).
  rewrite Elast, N.eqb_refl. cbn [negb].
  assert (Erl : removelast d = X ++ f3) by (rewrite Ed; apply removelast_app_single).
  rewrite Erl.
  (* X ends with a delimiter: X = X0 ++ [SOH] *)
  assert (HX : exists X0, X = X0 ++ [SOH]).
  { unfold X. destruct Bend as [->|[B0 ->]].
    - exists (f1 ++ SOH :: f2). rewrite <- app_assoc. reflexivity.
    - exists (f1 ++ SOH :: f2 ++ SOH :: B0). repeat (rewrite <- ?app_assoc; cbn [app]). reflexivity. }
  destruct HX as [X0 HX0].
  assert (R : rfind_byte SOH (X ++ f3) = Some (length X0)).
  { rewrite HX0. rewrite <- app_assoc. cbn [app]. apply rfind_byte_last. exact Sc. }
  rewrite R.
  assert (LX : length X = S (length X0)) by (rewrite HX0, app_length; cbn [length]; lia).
  assert (LXv : length X = (length f1 + 1 + length f2 + 1 + length B)%nat).
  { unfold X. rewrite !app_length. cbn [length]. rewrite !app_length. cbn [length]. lia. }
  assert (Hoff : Nat.ltb (length X0) (length f1 + 1 + length f2 + 1 - 1) = false).
  { apply Nat.ltb_ge. lia. }
  rewrite Hoff. cbn [orb].
  assert (P3 : prefixb (SOH :: cst ++ [EQS]) (skipn (length X0) d) = true).
  { rewrite Ed, HX0. rewrite <- !app_assoc. rewrite skipn_app_exact. cbn [app].
    unfold f3. replace ((cst ++ EQS :: c) ++ [SOH]) with ((cst ++ [EQS]) ++ c ++ [SOH])
      by (repeat (rewrite <- ?app_assoc; cbn [app]); reflexivity).
    cbn [prefixb]. rewrite N.eqb_refl. apply prefixb_app. }
  rewrite P3. cbn [negb].
  rewrite Hlen.
  assert (Hbl : Z.eqb (Z.of_nat (length X0 + 1 - (length f1 + 1 + length f2 + 1))) (Z.of_nat (length B)) = true).
  { apply Z.eqb_eq. f_equal. lia. }
  rewrite Hbl. cbn [negb].
  assert (Ecs : skipn (length X0 + length (SOH :: cst ++ [EQS])) (X ++ f3) = c).
  { rewrite HX0. rewrite <- app_assoc. cbn [app].
    replace (X0 ++ SOH :: f3) with ((X0 ++ SOH :: cst ++ [EQS]) ++ c).
    2:{ unfold f3. repeat (rewrite <- ?app_assoc; cbn [app]). reflexivity. }
    replace (length X0 + length (SOH :: cst ++ [EQS]))%nat with (length (X0 ++ SOH :: cst ++ [EQS])).
    2:{ rewrite app_length. reflexivity. }
    apply skipn_app_exact. }
  rewrite Ecs.
  assert (Efirst : firstn (length X0) d = X0).
  { rewrite Ed, HX0. rewrite <- !app_assoc. apply firstn_app_exact. }
  rewrite Efirst.
  assert (Ecsum : beq c (calc_checksum X0) = true).
  { apply beq_eq. rewrite Hsum, calc_checksum_spec. fold f1 f2. fold X. rewrite HX0. reflexivity. }
  rewrite Ecsum. cbn [negb].
  destruct Hw as [->| ->]; [reflexivity|]. rewrite beq_refl. reflexivity.
Qed.
