(* Session_c05.v -- C05 over whole histories (sequential layer): whatever the application and the
   peer do, in whatever order, the messages a session puts on the wire are numbered without gap,
   duplicate or reordering: every wire message either carries exactly the next number, or is a
   retransmission of an already numbered, stored message (ResendRequest service). *)
From Coq Require Import List ZArith Lia Bool.
From SF Require Import Bytes Values Wire Parse Session Bytes_proofs Session_proofs Session_clean
  Session_handlers Session_c07.
Import ListNotations.
Open Scope Z_scope.

(* the sequence numbers on the wire, in order *)
Definition wire_seqs (os : list out) : list Z := map seq_of (wires os).

Lemma wire_seqs_app a b : wire_seqs (a ++ b) = wire_seqs a ++ wire_seqs b.
Proof. unfold wire_seqs. rewrite wires_app, map_app. reflexivity. Qed.

(* [numbered w l w']: starting after number w, the list l consists of next numbers (w+1, w+2, ...)
   interleaved with old ones (<= the last fresh number so far), and ends at w' *)
Inductive numbered : Z -> list Z -> Z -> Prop :=
| num_nil w : numbered w [] w
| num_next w l w' : numbered (w + 1) l w' -> numbered w ((w + 1) :: l) w'
| num_old w q l w' : q <= w -> numbered w l w' -> numbered w (q :: l) w'.

Lemma numbered_app a l b l' c : numbered a l b -> numbered b l' c -> numbered a (l ++ l') c.
Proof. induction 1; intro H2; cbn [app]; [exact H2|apply num_next; auto|apply num_old; auto]. Qed.

Lemma numbered_mono a l b : numbered a l b -> a <= b.
Proof. induction 1; lia. Qed.

(* the fresh numbers of a numbered list are exactly a+1 .. b, each once, in order *)
Fixpoint fresh (w : Z) (l : list Z) : list Z :=
  match l with
  | [] => []
  | q :: r => if Z.eqb q (w + 1) then q :: fresh (w + 1) r else fresh w r
  end.

Fixpoint zrange (a : Z) (n : nat) : list Z :=
  match n with O => [] | S k => (a + 1) :: zrange (a + 1) k end.

Lemma numbered_fresh a l b : numbered a l b -> fresh a l = zrange a (Z.to_nat (b - a)).
Proof.
  induction 1 as [w|w l w' H IH|w q l w' Hq H IH].
  - rewrite Z.sub_diag. reflexivity.
  - cbn [fresh]. rewrite Z.eqb_refl. rewrite IH.
    pose proof (numbered_mono _ _ _ H).
    replace (Z.to_nat (w' - w)) with (S (Z.to_nat (w' - (w + 1)))) by lia. reflexivity.
  - cbn [fresh]. destruct (Z.eqb_spec q (w + 1)); [lia|exact IH].
Qed.

(* ---- what does not touch numbering ---- *)
Definition store_ok (s : sstate) : Prop :=
  forall k m, store_get (s_store s) k = Some m -> seq_of m <= s_cnt_out s.

Definition pools_clean (s : sstate) : Prop :=
  (forall k, Forall out_h_clean (pool_get (s_out s) k)) /\ save_first s.

Definition J (cfg : config) (s : sstate) (w : Z) : Prop :=
  c_fail_saves cfg = [] /\ pools_clean s /\ store_ok s
  /\ w <= s_cnt_out s /\ (s_router_stopped s = false -> w = s_cnt_out s).

(* s' differs from s only in ways that keep J: same counter and store, the outgoing pool only grew
   by clean handlers, a stopped router stays stopped *)
(* the event pools only grow: what is registered for an event stays registered, in place *)
Definition ev_grows (s s' : sstate) : Prop :=
  forall e, exists extra, ev_get (s_ev s') e = ev_get (s_ev s) e ++ extra.

Lemma ev_grows_same s s' : s_ev s' = s_ev s -> ev_grows s s'.
Proof. intros E e. exists []. rewrite E, app_nil_r. reflexivity. Qed.

Lemma ev_grows_trans a b c : ev_grows a b -> ev_grows b c -> ev_grows a c.
Proof.
  intros H1 H2 e. destruct (H1 e) as (x1 & E1). destruct (H2 e) as (x2 & E2).
  exists (x1 ++ x2). rewrite E2, E1, app_assoc. reflexivity.
Qed.

Definition keeps (s s' : sstate) : Prop :=
  s_cnt_out s' = s_cnt_out s /\ s_store s' = s_store s
  /\ (forall k, exists extra, pool_get (s_out s') k = pool_get (s_out s) k ++ extra /\ Forall out_h_clean extra)
  /\ (s_router_stopped s = true -> s_router_stopped s' = true)
  /\ ev_grows s s'.

Lemma keeps_refl s : keeps s s.
Proof.
  split; [reflexivity|]. split; [reflexivity|]. split; [|split; [auto|apply ev_grows_same; reflexivity]].
  intro k. exists []. rewrite app_nil_r. split; [reflexivity|constructor].
Qed.

Lemma keeps_trans a b c : keeps a b -> keeps b c -> keeps a c.
Proof.
  intros (C1 & S1 & P1 & R1 & G1) (C2 & S2 & P2 & R2 & G2).
  split; [congruence|]. split; [congruence|]. split; [|split; [auto|eapply ev_grows_trans; eassumption]].
  intro k. destruct (P1 k) as (e1 & E1 & F1). destruct (P2 k) as (e2 & E2 & F2).
  exists (e1 ++ e2). rewrite E2, E1, app_assoc. split; [reflexivity|apply Forall_app; split; assumption].
Qed.

Lemma keeps_grow s s' :
  s_cnt_out s' = s_cnt_out s -> s_store s' = s_store s -> s_out s' = s_out s ->
  (s_router_stopped s = true -> s_router_stopped s' = true) -> ev_grows s s' -> keeps s s'.
Proof.
  intros C S O R G. split; [exact C|]. split; [exact S|]. split; [|split; [exact R|exact G]].
  intro k. exists []. rewrite O, app_nil_r. split; [reflexivity|constructor].
Qed.

Lemma keeps_same s s' :
  s_cnt_out s' = s_cnt_out s -> s_store s' = s_store s -> s_out s' = s_out s ->
  (s_router_stopped s = true -> s_router_stopped s' = true) -> s_ev s' = s_ev s -> keeps s s'.
Proof. intros C S O R E. apply keeps_grow; auto. apply ev_grows_same. exact E. Qed.

(* registering one more handler for an event *)
Lemma ev_get_add p e h e' :
  ev_get (ev_add p e h) e' = if event_eqb e' e then ev_get p e' ++ [h] else ev_get p e'.
Proof.
  induction p as [|[e0 hs] p IH]; cbn [ev_add ev_get].
  - destruct (event_eqb e' e); reflexivity.
  - destruct (event_eqb e e0) eqn:E.
    + assert (e = e0) by (destruct e, e0; try discriminate; reflexivity). subst e0.
      cbn [ev_get]. destruct (event_eqb e' e); reflexivity.
    + cbn [ev_get]. destruct (event_eqb e' e0) eqn:E2; [|exact IH].
      assert (e' = e0) by (destruct e', e0; try discriminate; reflexivity). subst e0.
      destruct (event_eqb e' e) eqn:E3; [|reflexivity].
      assert (e' = e) by (destruct e', e; try discriminate; reflexivity). subst.
      rewrite E in E3. discriminate.
Qed.

Lemma keeps_ev_add s e h : keeps s (upd_pools s (s_in s) (s_out s) (ev_add (s_ev s) e h)).
Proof.
  apply keeps_grow; try reflexivity; [auto|].
  intro e'. cbn [s_ev upd_pools]. rewrite ev_get_add. destruct (event_eqb e' e).
  - exists [h]. reflexivity.
  - exists []. rewrite app_nil_r. reflexivity.
Qed.

Lemma J_keeps cfg s s' w : J cfg s w -> keeps s s' -> J cfg s' w.
Proof.
  intros (Hf & (Hc & (rest & Hs)) & Hst & Hw & Hr) (C & S & P & R & _).
  split; [exact Hf|]. split.
  - split.
    + intro k. destruct (P k) as (e & E & F). rewrite E. apply Forall_app. split; [apply Hc|exact F].
    + destruct (P ALL) as (e & E & _). exists (rest ++ e). rewrite E, Hs. reflexivity.
  - split; [|split].
    + intros k m Hk. rewrite S in Hk. rewrite C. exact (Hst k m Hk).
    + rewrite C. exact Hw.
    + intro Hn. rewrite C. apply Hr. destruct (s_router_stopped s) eqn:E; [rewrite (R eq_refl) in Hn; discriminate|reflexivity].
Qed.

(* ---- DefaultHandler.send with clean pools, stopped or not ---- *)
Lemma seq_of_prepare m : seq_of (fst (prepare m)) = seq_of m.
Proof. reflexivity. Qed.

Lemma router_send_any cfg s m s' o ok :
  c_fail_saves cfg = [] -> pools_clean s ->
  router_send cfg s m = (s', o, ok) ->
  wires o = (if s_router_stopped s then [] else [fst (prepare m)])
  /\ s_out s' = s_out s /\ s_router_stopped s' = s_router_stopped s /\ s_cnt_out s' = s_cnt_out s
  /\ store_get (s_store s') (seq_of m) = Some m
  /\ (forall k, k <> seq_of m -> store_get (s_store s') k = store_get (s_store s) k).
Proof.
  intros Hf (Hc & (rest & Hs)) H. unfold router_send in H.
  destruct (run_out_handlers_clean cfg m (pool_get (s_out s) ALL) s Hf (Hc ALL))
    as (s1 & o1 & E1 & F1 & W1 & O1 & R1 & C1 & Sv1 & Si1 & Oth1).
  rewrite E1 in H. cbn [negb] in H.
  assert (Hc1 : Forall out_h_clean (pool_get (s_out s1) (mt_of m))) by (rewrite O1; apply Hc).
  destruct (run_out_handlers_clean cfg m (pool_get (s_out s1) (mt_of m)) s1 Hf Hc1)
    as (s2 & o2 & E2 & F2 & W2 & O2 & R2 & C2 & Sv2 & Si2 & Oth2).
  rewrite E2 in H. cbn [negb] in H.
  cbv zeta in *. rewrite Hs in Sv1. cbn [existsb is_save orb] in Sv1.
  assert (Hst : store_get (s_store s2) (seq_of m) = Some m).
  { unfold seq_of. rewrite Sv2. destruct (existsb is_save (pool_get (s_out s1) (mt_of m))); [reflexivity|exact Sv1]. }
  assert (Hoth : forall k, k <> seq_of m -> store_get (s_store s2) k = store_get (s_store s) k).
  { intros k Hk. unfold seq_of in Hk. rewrite (Oth2 k Hk). apply Oth1. exact Hk. }
  rewrite R2, R1 in H.
  destruct (s_router_stopped s) eqn:Er; inversion H; subst.
  - rewrite !wires_app, W1, W2. cbn. repeat split; try congruence; assumption.
  - rewrite !wires_app, W1, W2. cbn. repeat split; try congruence; assumption.
Qed.

(* Session.send *)
Lemma session_send_J cfg s m s' o w :
  J cfg s w -> m_header m = tpl_Header -> session_send cfg s m = (s', o) ->
  exists w', numbered w (wire_seqs o) w' /\ J cfg s' w'.
Proof.
  intros (Hf & Hp & Hst & Hw & Hr) Hh H. unfold session_send in H.
  set (s1 := upd_cnt_out s (s_cnt_out s + 1)) in *. fold (stamped s m) in H.
  destruct (router_send cfg s1 (stamped s m)) as [[s2 o2] ok] eqn:E. inversion H; subst s' o.
  assert (Hp1 : pools_clean s1) by exact Hp.
  destruct (router_send_any cfg s1 (stamped s m) s2 o2 ok Hf Hp1 E) as (W & O & R & C & Sv & Oth).
  rewrite (stamped_seq s m Hh) in Sv, Oth.
  change (s_router_stopped s1) with (s_router_stopped s) in W, R.
  change (s_cnt_out s1) with (s_cnt_out s + 1) in C.
  assert (Hp2 : pools_clean s2).
  { destruct Hp as (Hc & (rest & Hs)). split; [intro k; rewrite O; apply Hc|exists rest; rewrite O; exact Hs]. }
  assert (Hst2 : store_ok s2).
  { intros k mm Hk. rewrite C. destruct (Z.eq_dec k (s_cnt_out s + 1)) as [->|Hne].
    - rewrite Sv in Hk. inversion Hk; subst mm. rewrite (stamped_seq s m Hh). lia.
    - rewrite (Oth k Hne) in Hk. pose proof (Hst k mm Hk). lia. }
  destruct (s_router_stopped s) eqn:Er.
  - exists w. unfold wire_seqs. rewrite W. split; [constructor|].
    split; [exact Hf|]. split; [exact Hp2|]. split; [exact Hst2|]. split; [lia|].
    intro Hn. rewrite R in Hn. discriminate.
  - exists (s_cnt_out s + 1). unfold wire_seqs. rewrite W. cbn [map]. rewrite seq_of_prepare, (stamped_seq s m Hh).
    rewrite (Hr eq_refl). split; [apply num_next; constructor|].
    split; [exact Hf|]. split; [exact Hp2|]. split; [exact Hst2|]. split; [lia|]. intros _. lia.
Qed.

(* SendBatch of stored messages: nothing but old numbers *)
Lemma send_batch_J cfg ms : forall s s' o w,
  J cfg s w -> Forall (fun m => seq_of m <= s_cnt_out s) ms ->
  send_batch cfg s ms = (s', o) ->
  numbered w (wire_seqs o) w /\ J cfg s' w.
Proof.
  induction ms as [|m ms IH]; intros s s' o w HJ Hms H; cbn [send_batch] in H.
  - inversion H; subst. split; [constructor|exact HJ].
  - destruct HJ as (Hf & Hp & Hst & Hw & Hr). inversion Hms as [|? ? Hm Hms']; subst.
    destruct (router_send cfg s m) as [[s1 o1] ok] eqn:E.
    destruct (router_send_any cfg s m s1 o1 ok Hf Hp E) as (W & O & R & C & Sv & Oth).
    assert (HJ1 : J cfg s1 w).
    { split; [exact Hf|]. split.
      - destruct Hp as (Hc & (rest & Hs)). split; [intro k; rewrite O; apply Hc|exists rest; rewrite O; exact Hs].
      - split; [|split; [lia|intro Hn; rewrite R in Hn; rewrite C; exact (Hr Hn)]].
        intros k mm Hk. rewrite C. destruct (Z.eq_dec k (seq_of m)) as [->|Hne].
        + rewrite Sv in Hk. inversion Hk; subst mm. exact Hm.
        + rewrite (Oth k Hne) in Hk. exact (Hst k mm Hk). }
    assert (N1 : numbered w (wire_seqs o1) w).
    { unfold wire_seqs. rewrite W. destruct (s_router_stopped s) eqn:Er; [constructor|].
      cbn [map]. rewrite seq_of_prepare. apply num_old; [rewrite (Hr eq_refl); exact Hm|constructor]. }
    destruct ok.
    + destruct (send_batch cfg s1 ms) as [s2 o2] eqn:E2. inversion H; subst.
      assert (Hms1 : Forall (fun m0 => seq_of m0 <= s_cnt_out s1) ms) by (rewrite C; exact Hms').
      destruct (IH s1 s' o2 w HJ1 Hms1 E2) as (N2 & J2).
      split; [rewrite wire_seqs_app; eapply numbered_app; eassumption|exact J2].
    + inversion H; subst. split; assumption.
Qed.

Lemma wires_drop_err o : wires (drop_err o) = wires o.
Proof.
  unfold drop_err, wires. induction o as [|x o IH]; [reflexivity|].
  cbn [filter]. destruct x; cbn [is_send_err negb flat_map app]; rewrite ?IH; reflexivity.
Qed.

Lemma wire_seqs_drop_err o : wire_seqs (drop_err o) = wire_seqs o.
Proof. unfold wire_seqs. rewrite wires_drop_err. reflexivity. Qed.

(* ---- state changes and events: nothing on the wire, J kept ---- *)
Lemma pool_add_keeps_out s k h :
  out_h_clean h ->
  forall k', exists extra, pool_get (pool_add (s_out s) k h) k' = pool_get (s_out s) k' ++ extra
                           /\ Forall out_h_clean extra.
Proof.
  intros Hh k'. rewrite pool_get_add. destruct (beq k' k).
  - exists [h]. split; [reflexivity|constructor; [exact Hh|constructor]].
  - exists []. rewrite app_nil_r. split; [reflexivity|constructor].
Qed.

Lemma keeps_reg_out s k h :
  out_h_clean h -> keeps s (upd_pools s (s_in s) (pool_add (s_out s) k h) (s_ev s)).
Proof.
  intro Hh. split; [reflexivity|]. split; [reflexivity|]. split; [|split; [auto|apply ev_grows_same; reflexivity]].
  intro k'. cbn [s_out upd_pools]. apply pool_add_keeps_out. exact Hh.
Qed.

Lemma start_timers_keeps s : keeps s (start_timers s).
Proof.
  unfold start_timers. split; [reflexivity|]. split; [reflexivity|]. split; [|split].
  - intro k. cbn [s_out upd_pools upd_timers]. apply pool_add_keeps_out. exact I.
  - cbn. auto.
  - apply ev_grows_same. reflexivity.
Qed.

Lemma run_ev_handlers_keeps hs : forall s s' o,
  run_ev_handlers s hs = (s', o) -> keeps s s' /\ wires o = [].
Proof.
  induction hs as [|h hs IH]; intros s s' o H; cbn [run_ev_handlers] in H.
  - inversion H; subst. split; [apply keeps_refl|reflexivity].
  - destruct h as [| | |id cont].
    + destruct (run_ev_handlers (upd_cancel s true true) hs) as [s1 o1] eqn:E. inversion H; subst.
      destruct (IH _ _ _ E) as (K & W). split; [|exact W].
      eapply keeps_trans; [|exact K]. apply keeps_same; try reflexivity; try (cbn; auto).
    + destruct (run_ev_handlers (start_timers s) hs) as [s1 o1] eqn:E. inversion H; subst.
      destruct (IH _ _ _ E) as (K & W). split; [|exact W].
      eapply keeps_trans; [apply start_timers_keeps|exact K].
    + destruct (run_ev_handlers (upd_cancel s true (s_router_stopped s)) hs) as [s1 o1] eqn:E. inversion H; subst.
      destruct (IH _ _ _ E) as (K & W). split; [|exact W].
      eapply keeps_trans; [|exact K]. apply keeps_same; try reflexivity; try (cbn; auto).
    + destruct cont.
      * destruct (run_ev_handlers s hs) as [s1 o1] eqn:E. inversion H; subst.
        destruct (IH _ _ _ E) as (K & W). split; [exact K|exact W].
      * inversion H; subst. split; [apply keeps_refl|reflexivity].
Qed.

Lemma change_state_keeps s x s' o : change_state s x = (s', o) -> keeps s s' /\ wires o = [].
Proof.
  unfold change_state. intro H. destruct (event_of_state x) as [e|].
  - destruct (run_ev_handlers (upd_state s x) (ev_get (s_ev (upd_state s x)) e)) as [s2 o2] eqn:E.
    inversion H; subst. destruct (run_ev_handlers_keeps _ _ _ _ E) as (K & W).
    split; [|exact W]. eapply keeps_trans; [|exact K]. apply keeps_same; try reflexivity; auto.
  - inversion H; subst. split; [|reflexivity]. apply keeps_same; try reflexivity; auto.
Qed.

(* the shape every J-lemma has *)
Definition Jstep (cfg : config) (s : sstate) (w : Z) (s' : sstate) (o : list out) : Prop :=
  exists w', numbered w (wire_seqs o) w' /\ J cfg s' w'.

Lemma Jstep_keeps cfg s w s' o : J cfg s w -> keeps s s' -> wires o = [] -> Jstep cfg s w s' o.
Proof.
  intros HJ K W. exists w. unfold wire_seqs. rewrite W. split; [constructor|eapply J_keeps; eassumption].
Qed.

Lemma Jstep_seq cfg s w s1 o1 s2 o2 :
  Jstep cfg s w s1 o1 -> (forall w1, J cfg s1 w1 -> Jstep cfg s1 w1 s2 o2) -> Jstep cfg s w s2 (o1 ++ o2).
Proof.
  intros (w1 & N1 & J1) H. destruct (H w1 J1) as (w2 & N2 & J2).
  exists w2. rewrite wire_seqs_app. split; [eapply numbered_app; eassumption|exact J2].
Qed.

Lemma change_state_J cfg s x s' o w : J cfg s w -> change_state s x = (s', o) -> Jstep cfg s w s' o.
Proof. intros HJ H. destruct (change_state_keeps _ _ _ _ H) as (K & W). eapply Jstep_keeps; eassumption. Qed.

Lemma reject_message_J cfg s d s' o w : J cfg s w -> reject_message cfg s d = (s', o) -> Jstep cfg s w s' o.
Proof.
  intros HJ H. rewrite reject_message_eq in H. eapply session_send_J; [exact HJ|apply reject_for_header|exact H].
Qed.

Lemma process_inc_seq_J cfg s q s' o w : J cfg s w -> process_inc_seq cfg s q = (s', o) -> Jstep cfg s w s' o.
Proof.
  intros HJ H. unfold process_inc_seq in H.
  destruct (Z.ltb (s_cnt_in s + 1) q).
  - match type of H with context [session_send cfg s ?mm] => destruct (session_send cfg s mm) as [s1 o1] eqn:E end.
    inversion H; subst.
    assert (Hh : forall mt b, m_header (mk_msg mt b) = tpl_Header) by reflexivity.
    destruct (session_send_J cfg s _ s1 o w HJ (Hh _ _) E) as (w' & N & J1).
    exists w'. split; [exact N|]. eapply J_keeps; [exact J1|]. apply keeps_same; try reflexivity; auto.
  - inversion H; subst. apply Jstep_keeps; [exact HJ| |reflexivity]. apply keeps_same; try reflexivity; auto.
Qed.

Lemma Jstep_post cfg s w s1 s2 o : Jstep cfg s w s1 o -> keeps s1 s2 -> Jstep cfg s w s2 o.
Proof. intros (w' & N & J1) K. exists w'. split; [exact N|eapply J_keeps; eassumption]. Qed.

Lemma Jstep_nil cfg s w s' : J cfg s w -> keeps s s' -> Jstep cfg s w s' [].
Proof. intros HJ K. apply Jstep_keeps; [exact HJ|exact K|reflexivity]. Qed.

Lemma keeps_upd_state s x : keeps s (upd_state s x).
Proof. apply keeps_same; try reflexivity; auto. Qed.
Lemma keeps_upd_settings s x : keeps s (upd_settings s x).
Proof. apply keeps_same; try reflexivity; auto. Qed.
Lemma keeps_upd_cnt_in s x : keeps s (upd_cnt_in s x).
Proof. apply keeps_same; try reflexivity; auto. Qed.
Lemma keeps_upd_timers s g on tr d : keeps s (upd_timers s g on tr d).
Proof. apply keeps_same; try reflexivity; auto. Qed.
Lemma keeps_stop_timers s : keeps s (stop_timers s).
Proof. apply keeps_upd_timers. Qed.

Lemma mk_msg_header mt b : m_header (mk_msg mt b) = tpl_Header.
Proof. reflexivity. Qed.
Lemma mk_reject_header r t q : m_header (mk_reject r t q) = tpl_Header.
Proof. reflexivity. Qed.

(* the messages a ResendRequest is answered with are stored ones: old numbers *)
Lemma stored_are_old s from to ms :
  store_ok s -> store_messages s from to = Some ms -> Forall (fun m => seq_of m <= s_cnt_out s) ms.
Proof.
  intros Hst H. destruct (store_messages_spec s from to ms H) as (_ & _ & _ & Hn).
  apply Forall_forall. intros m Hin. destruct (In_nth_error _ _ Hin) as (i & Hi).
  assert (Hlt : (i < length ms)%nat) by (apply nth_error_Some; rewrite Hi; discriminate).
  rewrite (Hn i Hlt) in Hi. exact (Hst _ _ Hi).
Qed.

Ltac J_reject HJ H :=
  match type of H with
  | context [reject_message ?cfg ?s ?d] =>
      let s1 := fresh "s" in let o1 := fresh "o" in let E := fresh "E" in
      destruct (reject_message cfg s d) as [s1 o1] eqn:E; inversion H; subst;
      exact (reject_message_J _ _ _ _ _ _ HJ E)
  end.

Ltac J_send HJ H :=
  match type of H with
  | context [session_send ?cfg ?s ?m] =>
      let s1 := fresh "s" in let o1 := fresh "o" in let E := fresh "E" in
      destruct (session_send cfg s m) as [s1 o1] eqn:E; inversion H; subst;
      first [ exact (session_send_J _ _ _ _ _ _ HJ (mk_msg_header _ _) E)
            | exact (session_send_J _ _ _ _ _ _ HJ (mk_reject_header _ _ _) E) ]
  end.

Lemma run_in_handler_J cfg s h d s' o b w :
  J cfg s w -> run_in_handler cfg s h d = (s', o, b) -> Jstep cfg s w s' o.
Proof.
  intros HJ H. destruct h as [| | | | | |g|id acc]; cbn [run_in_handler] in H.
  - (* HStoreSeq *)
    destruct (lstate_eqb (s_state s) WaitingLogonAnswer || lstate_eqb (s_state s) WaitingLogon).
    + inversion H; subst. apply Jstep_nil; [exact HJ|apply keeps_refl].
    + destruct (value_by_tag d tag_MsgSeqNum) as [sb| | |]; try (inversion H; subst; apply Jstep_nil; [exact HJ|apply keeps_refl]).
      destruct (atoi sb) as [q|]; try (inversion H; subst; apply Jstep_nil; [exact HJ|apply keeps_refl]).
      destruct (value_by_tag d tag_MsgType) as [mt| | |]; try (inversion H; subst; apply Jstep_nil; [exact HJ|apply keeps_refl]).
      destruct (c_seqreset cfg && beq mt msgtype_SequenceReset); inversion H; subst; apply Jstep_nil; try exact HJ;
        [apply keeps_refl|apply keeps_upd_cnt_in].
  - (* HResend *)
    destruct (parse_as msgtype_ResendRequest tpl_ResendRequest d) as [rm| | |]; try (J_reject HJ H).
    destruct (negb (is_logged s)); [J_reject HJ H|].
    match type of H with context [store_messages s ?f ?t] => destruct (store_messages s f t) as [ms|] eqn:Es end.
    + destruct (send_batch cfg s ms) as [s1 o1] eqn:E. inversion H; subst.
      destruct HJ as (Hf & Hp & Hst & Hw & Hr).
      destruct (send_batch_J cfg ms s s' o1 w (conj Hf (conj Hp (conj Hst (conj Hw Hr)))) (stored_are_old _ _ _ _ Hst Es) E) as (N & J1).
      exists w. rewrite wire_seqs_drop_err. split; assumption.
    + inversion H; subst. apply Jstep_nil; [exact HJ|apply keeps_refl].
  - (* HLogon *)
    destruct (parse_as msgtype_Logon tpl_Logon d) as [lm| | |]; try (J_reject HJ H).
    destruct (s_state s).
    all: try (inversion H; subst; apply Jstep_nil; [exact HJ|apply keeps_refl]).
    + (* WaitingLogon *)
      match type of H with context [upd_settings s ?ns] => set (s1 := upd_settings s ns) in * end.
      assert (HJ1 : J cfg s1 w) by (eapply J_keeps; [exact HJ|apply keeps_upd_settings]).
      match type of H with context [check_logon_params cfg s1 ?e ?hb] => destruct (check_logon_params cfg s1 e hb) end.
      * J_send HJ1 H.
      * match type of H with context [c_approve cfg ?ns] => destruct (negb (c_approve cfg ns)) end.
        -- J_send HJ1 H.
        -- match type of H with context [Z.leb ?hb 0] => destruct (Z.leb hb 0) end; [J_send HJ1 H|].
           destruct (change_state (start_timers s1) SuccessfulLogged) as [s3 o3] eqn:E3.
           match type of H with context [session_send cfg s3 ?m] => destruct (session_send cfg s3 m) as [s4 o4] eqn:E4 end.
           match type of H with context [process_inc_seq cfg s4 ?q] => destruct (process_inc_seq cfg s4 q) as [s5 o5] eqn:E5 end.
           inversion H; subst.
           assert (HJ2 : J cfg (start_timers s1) w) by (eapply J_keeps; [exact HJ1|apply start_timers_keeps]).
           apply (Jstep_seq cfg _ w s3 o3 s' (o4 ++ o5)).
           { eapply Jstep_post; [exact (change_state_J _ _ _ _ _ _ HJ2 E3)|apply keeps_refl]. }
           intros w1 J1. apply (Jstep_seq cfg _ w1 s4 o4 s' o5).
           { exact (session_send_J _ _ _ _ _ _ J1 (mk_msg_header _ _) E4). }
           intros w2 J2. exact (process_inc_seq_J _ _ _ _ _ _ J2 E5).
    + (* SuccessfulLogged *) J_send HJ H.
    + (* WaitingLogonAnswer *)
      destruct (change_state s SuccessfulLogged) as [s1 o1] eqn:E1.
      match type of H with context [process_inc_seq cfg s1 ?q] => destruct (process_inc_seq cfg s1 q) as [s2 o2] eqn:E2 end.
      inversion H; subst.
      apply (Jstep_seq cfg _ w s1 o1 s' o2); [exact (change_state_J _ _ _ _ _ _ HJ E1)|].
      intros w1 J1. exact (process_inc_seq_J _ _ _ _ _ _ J1 E2).
  - (* HLogout *)
    destruct (parse_as msgtype_Logout tpl_Logout d) as [lm| | |]; try (J_reject HJ H).
    assert (Hmid : forall s1 o1,
               match s_state s with
               | WaitingLogoutAnswer =>
                   let '(sa, oa) := change_state s ReceivedLogoutAnswer in
                   let '(sb, ob) := change_state sa WaitingLogon in (sb, oa ++ ob)
               | SuccessfulLogged =>
                   let '(sa, oa) := change_state s WaitingLogoutAnswer in
                   let '(sb, ob) := session_send cfg sa (mk_msg msgtype_Logout tpl_Logout) in (sb, oa ++ ob)
               | _ => reject_message cfg s d
               end = (s1, o1) -> Jstep cfg s w s1 o1).
    { intros s1 o1 Hm. destruct (s_state s).
      all: try exact (reject_message_J _ _ _ _ _ _ HJ Hm).
      - destruct (change_state s WaitingLogoutAnswer) as [sa oa] eqn:Ea.
        destruct (session_send cfg sa (mk_msg msgtype_Logout tpl_Logout)) as [sb ob] eqn:Eb. inversion Hm; subst.
        apply (Jstep_seq cfg _ w sa oa s1 ob); [exact (change_state_J _ _ _ _ _ _ HJ Ea)|].
        intros w1 J1. exact (session_send_J _ _ _ _ _ _ J1 (mk_msg_header _ _) Eb).
      - destruct (change_state s ReceivedLogoutAnswer) as [sa oa] eqn:Ea.
        destruct (change_state sa WaitingLogon) as [sb ob] eqn:Eb. inversion Hm; subst.
        apply (Jstep_seq cfg _ w sa oa s1 ob); [exact (change_state_J _ _ _ _ _ _ HJ Ea)|].
        intros w1 J1. exact (change_state_J _ _ _ _ _ _ J1 Eb). }
    match type of H with
    | context [let '(s1, o1) := ?X in _] => destruct X as [s1 o1] eqn:E1
    end.
    destruct (change_state (stop_timers s1) (state_after_logout cfg)) as [s3 o3] eqn:E3. inversion H; subst.
    apply (Jstep_seq cfg _ w s1 o1 s' o3); [exact (Hmid _ _ eq_refl)|].
    intros w1 J1. assert (J2 : J cfg (stop_timers s1) w1) by (eapply J_keeps; [exact J1|apply keeps_stop_timers]).
    exact (change_state_J _ _ _ _ _ _ J2 E3).
  - (* HHeartbeat *)
    destruct (parse_as msgtype_Heartbeat tpl_Heartbeat d) as [hm| | |]; try (J_reject HJ H).
    destruct (negb (is_logged s)); [J_reject HJ H|].
    inversion H; subst. apply Jstep_nil; [exact HJ|apply keeps_refl].
  - (* HTestRequest *)
    destruct (parse_as msgtype_TestRequest tpl_TestRequest d) as [tm| | |]; try (J_reject HJ H).
    destruct (negb (is_logged s)); [J_reject HJ H|]. J_send HJ H.
  - (* HTimerRefresh *)
    destruct (lstate_eqb (s_state s) WaitingTestReqAnswer); inversion H; subst;
      apply Jstep_nil; try exact HJ; [apply keeps_upd_state|apply keeps_refl].
  - (* HApp *) inversion H; subst. apply Jstep_keeps; [exact HJ|apply keeps_refl|reflexivity].
Qed.

Lemma run_in_handlers_J cfg d hs : forall s s' o w,
  J cfg s w -> run_in_handlers cfg s hs d = (s', o) -> Jstep cfg s w s' o.
Proof.
  induction hs as [|h hs IH]; intros s s' o w HJ H; cbn [run_in_handlers] in H.
  - inversion H; subst. apply Jstep_nil; [exact HJ|apply keeps_refl].
  - destruct (run_in_handler cfg s h d) as [[s1 o1] cont] eqn:E1.
    pose proof (run_in_handler_J _ _ _ _ _ _ _ _ HJ E1) as J1.
    destruct cont.
    + destruct (run_in_handlers cfg s1 hs d) as [s2 o2] eqn:E2. inversion H; subst.
      apply (Jstep_seq cfg _ w s1 o1 s' o2); [exact J1|]. intros w1 HJ1. exact (IH _ _ _ _ HJ1 E2).
    + inversion H; subst. exact J1.
Qed.

Lemma serve_J cfg s d s' o w : J cfg s w -> serve cfg s d = (s', o) -> Jstep cfg s w s' o.
Proof.
  intros HJ H. unfold serve in H. destruct (value_by_tag d tag_MsgType) as [mt| | |].
  - destruct (run_in_handlers cfg s (pool_get (s_in s) ALL) d) as [s1 o1] eqn:E1.
    destruct (run_in_handlers cfg s1 (pool_get (s_in s1) mt) d) as [s2 o2] eqn:E2. inversion H; subst.
    apply (Jstep_seq cfg _ w s1 o1 s' o2); [exact (run_in_handlers_J _ _ _ _ _ _ _ HJ E1)|].
    intros w1 J1. exact (run_in_handlers_J _ _ _ _ _ _ _ J1 E2).
  - inversion H; subst. apply Jstep_keeps; [exact HJ|apply keeps_refl|reflexivity].
  - inversion H; subst. apply Jstep_keeps; [exact HJ|apply keeps_refl|reflexivity].
  - inversion H; subst. apply Jstep_keeps; [exact HJ|apply keeps_refl|reflexivity].
Qed.

Lemma do_logout_J cfg s s' o w : J cfg s w -> do_logout cfg s = (s', o) -> Jstep cfg s w s' o.
Proof.
  intros HJ H. unfold do_logout in H.
  destruct (change_state s WaitingLogoutAnswer) as [s1 o1] eqn:E1.
  destruct (session_send cfg s1 (mk_msg msgtype_Logout tpl_Logout)) as [s2 o2] eqn:E2. inversion H; subst.
  apply (Jstep_seq cfg _ w s1 o1 s' o2); [exact (change_state_J _ _ _ _ _ _ HJ E1)|].
  intros w1 J1. exact (session_send_J _ _ _ _ _ _ J1 (mk_msg_header _ _) E2).
Qed.

(* the application registers only handlers that let messages pass unchanged *)
Definition op_clean (o : op) : Prop :=
  match o with RegOut _ _ accept amend => accept = true /\ amend = false | _ => True end.

Lemma build_app_header a : m_header (build_app a) = tpl_Header.
Proof. destruct a; reflexivity. Qed.

Theorem step_J cfg s op s' o w :
  J cfg s w -> op_clean op -> step cfg s op = (s', o) -> Jstep cfg s w s' o.
Proof.
  intros HJ Hop H. destruct op as [d|a| | | |mt id acc|mt id acc am|e id c|g|g]; cbn [step] in H.
  - exact (serve_J _ _ _ _ _ _ HJ H).
  - exact (session_send_J _ _ _ _ _ _ HJ (build_app_header a) H).
  - exact (do_logout_J _ _ _ _ _ HJ H).
  - match type of H with do_logout cfg ?sx = _ =>
      assert (HJ1 : J cfg sx w) by (eapply J_keeps; [exact HJ|apply keeps_ev_add]) end.
    exact (do_logout_J _ _ _ _ _ HJ1 H).
  - inversion H; subst. apply Jstep_nil; [exact HJ|]. apply keeps_same; try reflexivity; auto.
  - inversion H; subst. apply Jstep_nil; [exact HJ|]. apply keeps_same; try reflexivity; auto.
  - inversion H; subst. apply Jstep_nil; [exact HJ|]. apply keeps_reg_out. exact Hop.
  - inversion H; subst. apply Jstep_nil; [exact HJ|]. apply keeps_ev_add.
  - destruct (negb (timer_live s g) || s_intimer_done s); [inversion H; subst; apply Jstep_nil; [exact HJ|apply keeps_refl]|].
    destruct (negb (logged_or_probing s)); [inversion H; subst; apply Jstep_nil; [exact HJ|apply keeps_refl]|].
    destruct (lstate_eqb (s_state s) WaitingTestReqAnswer).
    + destruct (change_state s Disconnect) as [s1 o1] eqn:E1. inversion H; subst.
      eapply Jstep_post; [exact (change_state_J _ _ _ _ _ _ HJ E1)|apply keeps_upd_timers].
    + match type of H with context [change_state ?sx WaitingTestReqAnswer] =>
        destruct (change_state sx WaitingTestReqAnswer) as [s2 o2] eqn:E2;
        assert (HJx : J cfg sx w) by (eapply J_keeps; [exact HJ|apply keeps_upd_timers]) end.
      match type of H with context [session_send cfg s2 ?m] => destruct (session_send cfg s2 m) as [s3 o3] eqn:E3 end.
      inversion H; subst.
      apply (Jstep_seq cfg _ w s2 o2 s' o3); [exact (change_state_J _ _ _ _ _ _ HJx E2)|].
      intros w1 J1. exact (session_send_J _ _ _ _ _ _ J1 (mk_msg_header _ _) E3).
  - destruct (negb (timer_live s g)); [inversion H; subst; apply Jstep_nil; [exact HJ|apply keeps_refl]|].
    destruct (negb (logged_or_probing s)); [inversion H; subst; apply Jstep_nil; [exact HJ|apply keeps_refl]|].
    exact (session_send_J _ _ _ _ _ _ HJ (mk_msg_header _ _) H).
Qed.

(* ---- whole histories ---- *)
Theorem history_numbered cfg ops : forall s s' os w,
  J cfg s w -> Forall op_clean ops -> run_ops cfg s ops = (s', os) ->
  exists w', numbered w (wire_seqs (concat os)) w' /\ J cfg s' w'.
Proof.
  induction ops as [|op ops IH]; intros s s' os w HJ Hc H; cbn [run_ops] in H.
  - inversion H; subst. exists w. split; [constructor|exact HJ].
  - inversion Hc as [|? ? Hop Hc']; subst.
    destruct (step cfg s op) as [s1 o1] eqn:E1. destruct (run_ops cfg s1 ops) as [s2 os2] eqn:E2.
    inversion H; subst. cbn [concat].
    destruct (step_J _ _ _ _ _ _ HJ Hop E1) as (w1 & N1 & J1).
    destruct (IH _ _ _ _ J1 Hc' E2) as (w2 & N2 & J2).
    exists w2. rewrite wire_seqs_app. split; [eapply numbered_app; eassumption|exact J2].
Qed.

(* a session as constructed (store-before-send handler first, nothing stopped), started from
   outbound counter c with a store of messages numbered at most c *)
Lemma init_J cfg ci c store :
  c_fail_saves cfg = [] ->
  (forall k m, store_get store k = Some m -> seq_of m <= c) ->
  J cfg (init_state cfg ci c store) c.
Proof.
  intros Hf Hst. split; [exact Hf|]. split.
  - split.
    + intro k. cbn [init_state s_out pool_get]. destruct (beq k ALL); repeat constructor.
    + exists []. reflexivity.
  - split; [exact Hst|]. split; [cbn; lia|]. intros _. reflexivity.
Qed.

(* C05, sequential layer, over histories: the fresh numbers on the wire are exactly c+1 .. w',
   each once and in order, everything else on the wire is a retransmission of a stored message;
   as long as the router has not been stopped w' is the outbound counter: no number was skipped *)
Theorem C05_history cfg ci c store ops s' os :
  c_fail_saves cfg = [] ->
  (forall k m, store_get store k = Some m -> seq_of m <= c) ->
  Forall op_clean ops ->
  run_ops cfg (init_state cfg ci c store) ops = (s', os) ->
  exists w',
    numbered c (wire_seqs (concat os)) w'
    /\ fresh c (wire_seqs (concat os)) = zrange c (Z.to_nat (w' - c))
    /\ w' <= s_cnt_out s' /\ (s_router_stopped s' = false -> w' = s_cnt_out s').
Proof.
  intros Hf Hst Hc H.
  destruct (history_numbered cfg ops _ _ _ c (init_J cfg ci c store Hf Hst) Hc H) as (w' & N & (_ & _ & _ & Hw & Hr)).
  exists w'. split; [exact N|]. split; [exact (numbered_fresh _ _ _ N)|]. split; assumption.
Qed.

(* ---- non-vacuity: a concrete history (three application sends, a registration, a logout) ---- *)
Definition ex5_cfg : config :=
  {| c_side := Acceptor; c_allowed := [[48%N]]; c_approve := fun _ => true; c_fail_saves := []; c_seqreset := true;
     c_settings := {| st_target := [67%N]; st_sender := [83%N]; st_hb := 30; st_enc := [48%N];
                      st_password := []; st_username := []; st_reset := false; st_limits := None |} |}.

Definition ex5_ops : list op :=
  [AppSend (AppHeartbeat []); RegOut ALL 7 true false; AppSend (AppTestRequest [120%N]);
   AppSend (AppReject [97%N] [98%N]); AppLogout].

Example history_example :
  wire_seqs (concat (snd (run_ops ex5_cfg (init_state ex5_cfg 0 5 []) ex5_ops))) = [6; 7; 8; 9]
  /\ Forall op_clean ex5_ops.
Proof. split; [vm_compute; reflexivity|repeat constructor]. Qed.
