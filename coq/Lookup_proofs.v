(* Lookup_proofs.v -- a tag is recognised only at a field boundary (C18):
   field lookup on wire bytes equals the exact-tag lookup on the field list. *)
From SF Require Import Bytes Values Wire Parse Bytes_proofs Fields_proofs Safety_proofs.
Open Scope N_scope.

(* fields as (tag, value text) pairs *)
Definition pfield := (bytes * bytes)%type.
Definition prender (f : pfield) : bytes := fst f ++ EQS :: snd f.

Definition eqfree (t : bytes) : Prop := Forall (fun b => b <> EQS) t.

(* tags contain neither the delimiter nor '='; values do not contain the delimiter *)
Definition wf_tag (t : bytes) : Prop := sohfree t /\ eqfree t.
Definition wf_field (f : pfield) : Prop := wf_tag (fst f) /\ sohfree (snd f).

(* the specification: exact tag, first field *)
Fixpoint lookup (t : bytes) (fs : list pfield) : option bytes :=
  match fs with
  | [] => None
  | f :: r => if beq (fst f) t then Some (snd f) else lookup t r
  end.

(* ---- elementary facts ---- *)

Lemma prefixb_tag t tg x :
  eqfree t -> eqfree tg -> prefixb (t ++ [EQS]) (tg ++ EQS :: x) = beq tg t.
Proof.
  revert tg. induction t as [|a t IH]; intros tg Ht Htg.
  - destruct tg as [|b tg]; cbn [app prefixb beq].
    + rewrite N.eqb_refl. reflexivity.
    + inversion Htg; subst. destruct (N.eqb_spec EQS b) as [E|E]; [symmetry in E; contradiction|reflexivity].
  - inversion Ht as [|? ? Ha Ht']; subst. destruct tg as [|b tg]; cbn [app prefixb beq].
    + destruct (N.eqb_spec a EQS) as [E|E]; [contradiction|reflexivity].
    + inversion Htg; subst. rewrite (N.eqb_sym a b). destruct (N.eqb b a); cbn [andb]; [|reflexivity].
      apply IH; assumption.
Qed.

Lemma find_sub_skip_sohfree q u rest :
  sohfree u ->
  find_sub (SOH :: q) (u ++ rest) = option_map (fun i => (length u + i)%nat) (find_sub (SOH :: q) rest).
Proof.
  intro Hu. induction u as [|x u IH]; cbn [app length].
  - destruct (find_sub (SOH :: q) rest); reflexivity.
  - inversion Hu as [|? ? Hx Hu']; subst. cbn [find_sub prefixb].
    destruct (N.eqb_spec SOH x) as [E|E]; [symmetry in E; contradiction|]. cbn [andb].
    rewrite (IH Hu'). destruct (find_sub (SOH :: q) rest); reflexivity.
Qed.

Lemma take_field_sohfree v rest :
  sohfree v -> (rest = [] \/ exists r, rest = SOH :: r) -> take_field (v ++ rest) = v.
Proof.
  intros Hv Hr. induction v as [|x v IH]; cbn [app take_field].
  - destruct Hr as [->|[r ->]]; [reflexivity|]. cbn [take_field]. rewrite N.eqb_refl. reflexivity.
  - inversion Hv as [|? ? Hx Hv']; subst. destruct (N.eqb_spec x SOH); [contradiction|].
    rewrite (IH Hv'). reflexivity.
Qed.

Lemma prender_sohfree f : wf_field f -> sohfree (prender f).
Proof.
  intros [[Hs _] Hv]. unfold prender. apply Forall_app. split; [exact Hs|].
  constructor; [discriminate|exact Hv].
Qed.

Lemma in_skipn {A} (x : A) n l : In x (skipn n l) -> In x l.
Proof. intro H. rewrite <- (firstn_skipn n l). apply in_or_app. right. exact H. Qed.

(* a pattern containing '=' is not found in bytes without '=' *)
Lemma find_sub_no_eq p l : In EQS p -> ~ In EQS l -> find_sub p l = None.
Proof.
  intros Hp Hl. destruct (find_sub p l) as [i|] eqn:F; [|reflexivity].
  exfalso. destruct (find_sub_spec _ _ _ F) as [Hpre _].
  apply prefixb_spec in Hpre as [r Hr]. apply Hl. apply (in_skipn _ i). rewrite Hr.
  apply in_or_app. left. exact Hp.
Qed.

(* a field list laid out on the wire: fields joined by the delimiter *)
Definition layout (fs : list pfield) : bytes := join [SOH] (map prender fs).

Lemma layout_cons f g fs : layout (f :: g :: fs) = prender f ++ SOH :: layout (g :: fs).
Proof. reflexivity. Qed.

Definition post_ok (post : bytes) : Prop := post = [] \/ post = [SOH].

(* ---- the anchored search lemma ---- *)

(* In SOH :: layout fs ++ post the search for SOH t = finds exactly the first field whose
   whole tag is t, and the bytes after "t=" up to the next delimiter are that field's value. *)
Lemma anchored_search t fs post :
  eqfree t -> Forall wf_field fs -> post_ok post ->
  let q := t ++ [EQS] in
  let data := SOH :: layout fs ++ post in
  match lookup t fs with
  | Some v => exists i, find_sub (SOH :: q) data = Some i
                        /\ take_field (skipn (i + 1 + length q) data) = v
  | None => find_sub (SOH :: q) data = None
  end.
Proof.
  intros Ht Hfs Hpost q data. subst data.
  induction fs as [|f fs IH].
  - cbn [lookup layout map join app]. apply find_sub_no_eq.
    + right. unfold q. apply in_or_app. right. left. reflexivity.
    + destruct Hpost as [->| ->]; cbn; intuition discriminate.
  - inversion Hfs as [|? ? Hf Hfs']; subst. specialize (IH Hfs').
    cbn [lookup].
    assert (Hpre : forall rest, prefixb (SOH :: q) (SOH :: prender f ++ rest) = beq (fst f) t).
    { intro rest. cbn [prefixb]. rewrite N.eqb_refl. cbn [andb]. unfold q, prender.
      rewrite <- app_assoc. cbn [app]. apply prefixb_tag; [exact Ht|apply Hf]. }
    assert (Hlay : exists rest, layout (f :: fs) ++ post = prender f ++ rest /\
                                (rest = [] \/ exists r, rest = SOH :: r) /\
                                (fs <> [] -> rest = SOH :: layout fs ++ post) /\
                                (fs = [] -> rest = post)).
    { destruct fs as [|g fs].
      - exists post. cbn [layout map join]. repeat split; try reflexivity; try contradiction.
        destruct Hpost as [->| ->]; [left; reflexivity|right; eexists; reflexivity].
      - exists (SOH :: layout (g :: fs) ++ post). rewrite layout_cons. rewrite <- app_assoc. cbn [app].
        repeat split; try reflexivity; try discriminate. right. eexists. reflexivity. }
    destruct Hlay as (rest & El & Hrest & Hne & Hnil). rewrite El.
    destruct (beq (fst f) t) eqn:Etag.
    + (* this field carries the tag *)
      exists 0%nat. split.
      * cbn [find_sub]. rewrite Hpre. reflexivity.
      * apply beq_eq in Etag.
        replace (skipn (0 + 1 + length q) (SOH :: prender f ++ rest)) with (snd f ++ rest).
        -- apply take_field_sohfree; [apply Hf|exact Hrest].
        -- unfold prender, q. rewrite Etag. cbn [Nat.add skipn].
           replace (length (t ++ [EQS])) with (length (t ++ [EQS]) + 0)%nat by lia.
           replace ((t ++ EQS :: snd f) ++ rest) with ((t ++ [EQS]) ++ snd f ++ rest)
             by (repeat (rewrite <- ?app_assoc; cbn [app]); reflexivity).
           rewrite skipn_app, skipn_all2 by lia.
           replace (length (t ++ [EQS]) + 0 - length (t ++ [EQS]))%nat with 0%nat by lia. reflexivity.
    + (* skip this field *)
      cbn [find_sub]. rewrite Hpre.
      rewrite (find_sub_skip_sohfree q (prender f) rest (prender_sohfree f Hf)).
      destruct fs as [|g fs].
      * rewrite (Hnil eq_refl). cbn [lookup].
        assert (find_sub (SOH :: q) post = None).
        { apply find_sub_no_eq.
          - right. unfold q. apply in_or_app. right. left. reflexivity.
          - destruct Hpost as [->| ->]; cbn; intuition discriminate. }
        rewrite H. reflexivity.
      * rewrite (Hne ltac:(discriminate)).
        destruct (lookup t (g :: fs)) as [v|].
        -- destruct IH as (i & Hi & Hv). rewrite Hi. cbn [option_map].
           exists (S (length (prender f) + i)). split; [reflexivity|].
           rewrite <- Hv. cbn [Nat.add skipn].
           replace (length (prender f) + i + 1 + length q)%nat with (length (prender f) + (i + 1 + length q))%nat by lia.
           rewrite skipn_app. rewrite skipn_all2 by lia. cbn [app].
           f_equal. f_equal. lia.
        -- rewrite IH. reflexivity.
Qed.

(* ---- scan_value / ValueByTag / group-start search against the specification ---- *)

Lemma prefixb_soh_false q rest : q <> [] -> sohfree q -> prefixb q (SOH :: rest) = false.
Proof.
  intros Hq Hs. destruct q as [|a q]; [contradiction|]. inversion Hs; subst. cbn [prefixb].
  destruct (N.eqb_spec a SOH); [contradiction|reflexivity].
Qed.

Lemma tagq_nonnil t : t ++ [EQS] <> [].
Proof. destruct t; discriminate. Qed.

(* data that starts with a delimiter: an entry chunk *)
Theorem scan_value_chunk t fs post :
  wf_tag t -> Forall wf_field fs -> post_ok post ->
  scan_value (SOH :: layout fs ++ post) t = lookup t fs.
Proof.
  intros [Hs He] Hfs Hp. unfold scan_value.
  rewrite prefixb_soh_false; [|apply tagq_nonnil|].
  2:{ apply Forall_app. split; [exact Hs|]. constructor; [discriminate|constructor]. }
  pose proof (anchored_search t fs post He Hfs Hp) as A. cbv zeta in A.
  destruct (lookup t fs) as [v|].
  - destruct A as (i & Hi & Hv). rewrite Hi. f_equal. exact Hv.
  - rewrite A. reflexivity.
Qed.

(* data that starts with a field: a whole message *)
Theorem scan_value_message t fs post :
  wf_tag t -> Forall wf_field fs -> post_ok post ->
  scan_value (layout fs ++ post) t = lookup t fs.
Proof.
  intros Ht Hfs Hp. destruct fs as [|f fs].
  - cbn [layout map join app lookup]. unfold scan_value.
    destruct Ht as [Hs He].
    assert (Hpre : prefixb (t ++ [EQS]) post = false).
    { destruct Hp as [->| ->].
      - destruct t; reflexivity.
      - apply prefixb_soh_false; [apply tagq_nonnil|].
        apply Forall_app. split; [exact Hs|]. constructor; [discriminate|constructor]. }
    rewrite Hpre. rewrite find_sub_no_eq; [reflexivity| |].
    + right. apply in_or_app. right. left. reflexivity.
    + destruct Hp as [->| ->]; cbn; intuition discriminate.
  - inversion Hfs as [|? ? Hf Hfs']; subst. cbn [lookup].
    assert (Hlay : exists rest, layout (f :: fs) ++ post = prender f ++ rest /\
                                (rest = [] \/ exists r, rest = SOH :: r) /\
                                (fs <> [] -> rest = SOH :: layout fs ++ post) /\ (fs = [] -> rest = post)).
    { destruct fs as [|g fs].
      - exists post. cbn [layout map join]. repeat split; try reflexivity; try contradiction.
        destruct Hp as [->| ->]; [left; reflexivity|right; eexists; reflexivity].
      - exists (SOH :: layout (g :: fs) ++ post). rewrite layout_cons. rewrite <- app_assoc. cbn [app].
        repeat split; try reflexivity; try discriminate. right. eexists. reflexivity. }
    destruct Hlay as (rest & El & Hrest & Hne & Hnil). rewrite El.
    unfold scan_value. destruct Ht as [Hs He].
    assert (Hpre : prefixb (t ++ [EQS]) (prender f ++ rest) = beq (fst f) t).
    { unfold prender. rewrite <- app_assoc. cbn [app]. apply prefixb_tag; [exact He|apply Hf]. }
    rewrite Hpre. destruct (beq (fst f) t) eqn:Etag.
    + apply beq_eq in Etag. f_equal. unfold prender. rewrite Etag.
      replace ((t ++ EQS :: snd f) ++ rest) with ((t ++ [EQS]) ++ snd f ++ rest)
        by (repeat (rewrite <- ?app_assoc; cbn [app]); reflexivity).
      rewrite skipn_app, skipn_all2, Nat.sub_diag by lia. cbn [skipn app].
      apply take_field_sohfree; [apply Hf|exact Hrest].
    + rewrite (find_sub_skip_sohfree (t ++ [EQS]) (prender f) rest (prender_sohfree f Hf)).
      destruct fs as [|g fs].
      * rewrite (Hnil eq_refl). cbn [lookup]. rewrite find_sub_no_eq; [reflexivity| |].
        -- right. apply in_or_app. right. left. reflexivity.
        -- destruct Hp as [->| ->]; cbn; intuition discriminate.
      * rewrite (Hne ltac:(discriminate)).
        pose proof (anchored_search t (g :: fs) post He Hfs' Hp) as A. cbv zeta in A.
        destruct (lookup t (g :: fs)) as [v|].
        -- destruct A as (i & Hi & Hv). rewrite Hi. cbn [option_map]. f_equal. rewrite <- Hv.
           replace (length (prender f) + i + 1 + length (t ++ [EQS]))%nat
             with (length (prender f) + (i + 1 + length (t ++ [EQS])))%nat by lia.
           rewrite skipn_app, skipn_all2 by lia. cbn [app]. f_equal. f_equal. lia.
        -- rewrite A. reflexivity.
Qed.

(* a found field needs more bytes than its tag *)
Lemma lookup_some_length t fs post v :
  lookup t fs = Some v -> (length t < length (layout fs ++ post))%nat.
Proof.
  revert v. induction fs as [|f fs IH]; intros v H; [discriminate|]. cbn [lookup] in H.
  destruct (beq (fst f) t) eqn:E.
  - apply beq_eq in E. destruct fs as [|g fs].
    + cbn [layout map join]. unfold prender. rewrite E. rewrite !app_length. cbn [length]. lia.
    + rewrite layout_cons. unfold prender at 1. rewrite E. rewrite !app_length. cbn [length]. lia.
  - specialize (IH v H). destruct fs as [|g fs]; [discriminate|].
    rewrite layout_cons. rewrite <- app_assoc. rewrite app_length. cbn [app length]. lia.
Qed.

(* fix.ValueByTag on a well-formed message *)
Theorem value_by_tag_spec t fs post :
  wf_tag t -> Forall wf_field fs -> post_ok post ->
  value_by_tag (layout fs ++ post) t = match lookup t fs with Some v => Ok v | None => Err end.
Proof.
  intros Ht Hfs Hp.
  pose proof (scan_value_message t fs post Ht Hfs Hp) as S. unfold scan_value in S.
  unfold value_by_tag.
  destruct (Nat.leb_spec (length (layout fs ++ post)) (length t)) as [Hle|Hgt].
  - destruct (lookup t fs) as [v|] eqn:L; [|reflexivity].
    pose proof (lookup_some_length t fs post v L). lia.
  - destruct (prefixb (t ++ [EQS]) (layout fs ++ post)).
    + rewrite <- S. reflexivity.
    + destruct (find_sub (SOH :: t ++ [EQS]) (layout fs ++ post)); rewrite <- S; reflexivity.
Qed.

(* C18, lookup form: what any other field's value contains, and which other tags exist,
   does not matter -- only the fields that carry exactly the tag t *)
Theorem lookup_insensitive t fs fs' post post' :
  wf_tag t -> Forall wf_field fs -> Forall wf_field fs' -> post_ok post -> post_ok post' ->
  lookup t fs = lookup t fs' ->
  value_by_tag (layout fs ++ post) t = value_by_tag (layout fs' ++ post') t /\
  scan_value (layout fs ++ post) t = scan_value (layout fs' ++ post') t /\
  scan_value (SOH :: layout fs ++ post) t = scan_value (SOH :: layout fs' ++ post') t.
Proof.
  intros Ht H1 H2 P1 P2 E.
  rewrite !value_by_tag_spec, !scan_value_message, !scan_value_chunk by assumption.
  rewrite E. repeat split.
Qed.

(* fields that do not carry the tag can be dropped or changed at will *)
Lemma lookup_filter t fs : lookup t (filter (fun f => beq (fst f) t) fs) = lookup t fs.
Proof.
  induction fs as [|f fs IH]; [reflexivity|]. cbn [filter lookup].
  destruct (beq (fst f) t) eqn:E; cbn [lookup]; rewrite ?E; [reflexivity|exact IH].
Qed.

Example ex_c18 :
  (* 1146=7 and a value containing "146=9" ahead of the genuine 146=2 *)
  let fs := [([49;49;52;54], [55]); ([53;56], [49;52;54;61;57]); ([49;52;54], [50])] in
  value_by_tag (layout fs ++ [SOH]) [49;52;54] = Ok [50] /\ Forall wf_field fs.
Proof.
  split; [vm_compute; reflexivity|].
  repeat constructor; cbn; try discriminate.
Qed.

(* ---- where the search lands: the byte offset of the first field carrying the tag ---- *)

Fixpoint offset_of (t : bytes) (fs : list pfield) : option nat :=
  match fs with
  | [] => None
  | f :: r => if beq (fst f) t then Some 0%nat
              else option_map (fun p => (length (prender f) + 1 + p)%nat) (offset_of t r)
  end.

Lemma anchored_index t fs post :
  eqfree t -> Forall wf_field fs -> post_ok post ->
  find_sub (SOH :: t ++ [EQS]) (SOH :: layout fs ++ post) = offset_of t fs.
Proof.
  intros Ht Hfs Hpost. set (q := t ++ [EQS]).
  induction fs as [|f fs IH].
  - cbn [offset_of layout map join app]. apply find_sub_no_eq.
    + right. unfold q. apply in_or_app. right. left. reflexivity.
    + destruct Hpost as [->| ->]; cbn; intuition discriminate.
  - inversion Hfs as [|? ? Hf Hfs']; subst. specialize (IH Hfs'). cbn [offset_of].
    assert (Hpre : forall rest, prefixb (SOH :: q) (SOH :: prender f ++ rest) = beq (fst f) t).
    { intro rest. cbn [prefixb]. rewrite N.eqb_refl. cbn [andb]. unfold q, prender.
      rewrite <- app_assoc. cbn [app]. apply prefixb_tag; [exact Ht|apply Hf]. }
    destruct fs as [|g fs].
    + cbn [layout map join]. cbn [find_sub]. rewrite Hpre.
      destruct (beq (fst f) t); [reflexivity|].
      rewrite (find_sub_skip_sohfree q (prender f) post (prender_sohfree f Hf)).
      rewrite find_sub_no_eq; [reflexivity| |].
      * right. unfold q. apply in_or_app. right. left. reflexivity.
      * destruct Hpost as [->| ->]; cbn; intuition discriminate.
    + rewrite layout_cons. rewrite <- app_assoc. cbn [app]. cbn [find_sub]. rewrite Hpre.
      destruct (beq (fst f) t); [reflexivity|].
      rewrite (find_sub_skip_sohfree q (prender f) _ (prender_sohfree f Hf)).
      rewrite IH. destruct (offset_of t (g :: fs)); cbn [option_map]; [f_equal; lia|reflexivity].
Qed.

(* the group-start search of state.unmarshal *)
Theorem find_field_start_chunk t fs post :
  wf_tag t -> Forall wf_field fs -> post_ok post ->
  find_field_start (SOH :: layout fs ++ post) t = option_map S (offset_of t fs).
Proof.
  intros [Hs He] Hfs Hp. unfold find_field_start.
  rewrite prefixb_soh_false; [|apply tagq_nonnil|].
  2:{ apply Forall_app. split; [exact Hs|]. constructor; [discriminate|constructor]. }
  rewrite anchored_index by assumption. reflexivity.
Qed.

Theorem find_field_start_message t fs post :
  wf_tag t -> Forall wf_field fs -> post_ok post ->
  find_field_start (layout fs ++ post) t = offset_of t fs.
Proof.
  intros [Hs He] Hfs Hp. unfold find_field_start. destruct fs as [|f fs].
  - cbn [layout map join app offset_of].
    assert (Hpre : prefixb (t ++ [EQS]) post = false).
    { destruct Hp as [->| ->].
      - destruct t; reflexivity.
      - apply prefixb_soh_false; [apply tagq_nonnil|].
        apply Forall_app. split; [exact Hs|]. constructor; [discriminate|constructor]. }
    rewrite Hpre. rewrite find_sub_no_eq; [reflexivity| |].
    + right. apply in_or_app. right. left. reflexivity.
    + destruct Hp as [->| ->]; cbn; intuition discriminate.
  - inversion Hfs as [|? ? Hf Hfs']; subst. cbn [offset_of].
    destruct fs as [|g fs].
    + cbn [layout map join].
      assert (Hpre : prefixb (t ++ [EQS]) (prender f ++ post) = beq (fst f) t).
      { unfold prender. rewrite <- app_assoc. cbn [app]. apply prefixb_tag; [exact He|apply Hf]. }
      rewrite Hpre. destruct (beq (fst f) t); [reflexivity|].
      rewrite (find_sub_skip_sohfree (t ++ [EQS]) (prender f) post (prender_sohfree f Hf)).
      rewrite find_sub_no_eq; [reflexivity| |].
      * right. apply in_or_app. right. left. reflexivity.
      * destruct Hp as [->| ->]; cbn; intuition discriminate.
    + rewrite layout_cons. rewrite <- app_assoc. cbn [app].
      assert (Hpre : forall rest, prefixb (t ++ [EQS]) (prender f ++ rest) = beq (fst f) t).
      { intro rest. unfold prender. rewrite <- app_assoc. cbn [app]. apply prefixb_tag; [exact He|apply Hf]. }
      rewrite Hpre. destruct (beq (fst f) t); [reflexivity|].
      rewrite (find_sub_skip_sohfree (t ++ [EQS]) (prender f) _ (prender_sohfree f Hf)).
      rewrite anchored_index by assumption.
      destruct (offset_of t (g :: fs)); cbn [option_map]; [f_equal; lia|reflexivity].
Qed.
