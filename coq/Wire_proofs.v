(* Wire_proofs.v -- serialization facts: framing shape, BodyLength, CheckSum (C01). *)
From SF Require Import Bytes Values Wire Bytes_proofs.
Open Scope N_scope.

Lemma is_nil_length (l : bytes) : is_nil l = true <-> length l = 0%nat.
Proof. destruct l; cbn; split; intro H; try reflexivity; try discriminate. Qed.

Lemma is_nil_false_length (l : bytes) : is_nil l = false <-> (0 < length l)%nat.
Proof. destruct l; cbn; split; intro H; try discriminate; try lia; reflexivity. Qed.

Lemma olen_obytes o : olen o = length (obytes o).
Proof. destruct o; reflexivity. Qed.

(* x followed by a delimiter when x is non-empty *)
Definition sohterm (x : bytes) : bytes := if is_nil x then [] else x ++ [SOH].

Lemma sohterm_length x : length (sohterm x) = if Nat.ltb 0 (length x) then (length x + 1)%nat else 0%nat.
Proof.
  unfold sohterm. destruct x as [|a x]; cbn [is_nil length]; [reflexivity|].
  rewrite app_length. cbn. reflexivity.
Qed.

(* the region counted by BodyLength *)
Definition counted_region (m : message) (mtF : bytes) : bytes :=
  mtF ++ [SOH]
  ++ sohterm (obytes (item_to_bytes (IComp (m_header m))))
  ++ sohterm (items_to_bytes (m_body m))
  ++ sohterm (obytes (trailer_bytes m)).

Lemma kv_to_bytes_nonnil tag v b : kv_to_bytes tag v = Some b -> (0 < length b)%nat.
Proof.
  unfold kv_to_bytes. destruct (is_null v); [discriminate|].
  destruct (val_to_bytes v); [|discriminate]. intro H; inversion H; subst.
  rewrite app_length. cbn. lia.
Qed.

Lemma counted_region_length m mtF :
  kv_to_bytes (m_mt_tag m) (m_mt m) = Some mtF ->
  length (counted_region m mtF) = calc_body_length m.
Proof.
  intro Hmt. unfold counted_region, calc_body_length.
  rewrite Hmt. cbn [olen].
  pose proof (kv_to_bytes_nonnil _ _ _ Hmt) as Hpos.
  rewrite !app_length, !sohterm_length, !olen_obytes. cbn [length].
  destruct (Nat.ltb_spec 0 (length mtF)); [|lia].
  lia.
Qed.

Lemma ends_with_soh_counted m mtF : exists r, counted_region m mtF = r ++ [SOH].
Proof.
  unfold counted_region, sohterm.
  destruct (is_nil (obytes (trailer_bytes m)));
  destruct (is_nil (items_to_bytes (m_body m)));
  destruct (is_nil (obytes (item_to_bytes (IComp (m_header m)))));
  rewrite ?app_nil_r, ?app_assoc; eexists; reflexivity.
Qed.

(* BytesWithoutChecksum followed by the delimiter = framing prefix + counted region *)
Lemma bwc_shape m bl bsF blF mtF :
  kv_to_bytes (m_bs_tag m) (m_bs m) = Some bsF ->
  kv_to_bytes (m_bl_tag m) bl = Some blF ->
  kv_to_bytes (m_mt_tag m) (m_mt m) = Some mtF ->
  bytes_without_checksum m bl ++ [SOH] = bsF ++ SOH :: blF ++ SOH :: counted_region m mtF.
Proof.
  intros Hbs Hbl Hmt. unfold bytes_without_checksum, counted_region, sohterm.
  rewrite Hbs, Hbl, Hmt. cbn [obytes join].
  destruct (is_nil (obytes (item_to_bytes (IComp (m_header m)))));
  destruct (is_nil (items_to_bytes (m_body m)));
  destruct (is_nil (obytes (trailer_bytes m)));
  repeat (rewrite <- ?app_assoc; cbn [app]); reflexivity.
Qed.

Lemma kv_int_to_bytes tag z : kv_to_bytes tag (VInt true z) = Some (tag ++ EQS :: itoa z).
Proof. reflexivity. Qed.

(* C01: the exact wire shape of every serialized message *)
Theorem to_bytes_shape :
  forall (m : message) (bsF mtF : bytes),
    kv_to_bytes (m_bs_tag m) (m_bs m) = Some bsF ->
    kv_to_bytes (m_mt_tag m) (m_mt m) = Some mtF ->
    let R := counted_region m mtF in
    let P := bsF ++ SOH :: m_bl_tag m ++ EQS :: itoa (Z.of_nat (length R)) ++ SOH :: R in
    to_bytes m = P ++ m_cs_tag m ++ EQS :: pad3 (sum_bytes P mod 256) ++ [SOH].
Proof.
  intros m bsF mtF Hbs Hmt R P.
  unfold to_bytes, prepare. cbn [snd].
  set (bl := VInt true (Z.of_nat (calc_body_length m))).
  pose proof (bwc_shape m bl bsF _ mtF Hbs (kv_int_to_bytes (m_bl_tag m) _) Hmt) as Hshape.
  rewrite calc_checksum_spec, Hshape.
  assert (HP : bsF ++ SOH :: (m_bl_tag m ++ EQS :: itoa (Z.of_nat (calc_body_length m))) ++ SOH :: counted_region m mtF = P).
  { unfold P, R. rewrite (counted_region_length m mtF Hmt). rewrite <- app_assoc. reflexivity. }
  rewrite HP.
  change (bytes_without_checksum m bl ++ SOH :: m_cs_tag m ++ EQS :: pad3 (sum_bytes P mod 256) ++ [SOH])
    with (bytes_without_checksum m bl ++ [SOH] ++ (m_cs_tag m ++ EQS :: pad3 (sum_bytes P mod 256) ++ [SOH])).
  rewrite app_assoc, Hshape, HP. reflexivity.
Qed.

(* MsgType is the third field and the counted region ends with the delimiter
   that precedes CheckSum *)
Lemma counted_region_starts m mtF : exists rest, counted_region m mtF = mtF ++ SOH :: rest.
Proof. unfold counted_region. eexists. reflexivity. Qed.

Lemma checksum_three_digits l :
  let c := pad3 (sum_bytes l mod 256) in
  length c = 3%nat /\ parse_digits c = Some (sum_bytes l mod 256).
Proof. apply pad3_spec. apply N.mod_lt. discriminate. Qed.

(* C01, full statement. *)
Theorem C01_framing_length_checksum :
  forall (m : message) (bsF mtF : bytes),
    (* BeginString and MsgType are populated (non-empty) *)
    kv_to_bytes (m_bs_tag m) (m_bs m) = Some bsF ->
    kv_to_bytes (m_mt_tag m) (m_mt m) = Some mtF ->
    exists R : bytes,
      let P := bsF ++ SOH :: m_bl_tag m ++ EQS :: itoa (Z.of_nat (length R)) ++ SOH :: R in
      let c := pad3 (sum_bytes P mod 256) in
      (* BeginString, BodyLength, counted region, CheckSum; nothing else *)
      to_bytes m = P ++ m_cs_tag m ++ EQS :: c ++ [SOH]
      (* MsgType is the third field *)
      /\ (exists rest, R = mtF ++ SOH :: rest)
      (* the counted region runs up to and including the delimiter before CheckSum *)
      /\ (exists r, R = r ++ [SOH])
      (* three digits, value = byte sum of everything before the CheckSum field, mod 256 *)
      /\ length c = 3%nat /\ parse_digits c = Some (sum_bytes P mod 256)
      (* the BodyLength text parses back to the region's length (for lengths a Go int holds) *)
      /\ ((Z.of_nat (length R) <= int_max)%Z ->
          atoi (itoa (Z.of_nat (length R))) = Some (Z.of_nat (length R))).
Proof.
  intros m bsF mtF Hbs Hmt. exists (counted_region m mtF). cbv zeta.
  split; [apply to_bytes_shape; assumption|].
  split; [apply counted_region_starts|].
  split; [apply ends_with_soh_counted|].
  split; [apply checksum_three_digits|].
  split; [apply checksum_three_digits|].
  intro Hle. apply atoi_itoa. unfold in_int_range.
  apply andb_true_intro; split; apply Z.leb_le; [unfold int_min; lia | exact Hle].
Qed.

(* Non-vacuity: a message with an empty header, a nested group and a
   four-digit body length meets the hypotheses. *)
Definition ex_c01_msg : message :=
  {| m_bs_tag := [56]; m_bl_tag := [57]; m_cs_tag := [49;48]; m_mt_tag := [51;53];
     m_bs := VString true [70;73;88]; m_bl := VInt false 0%Z; m_mt := VString true [86];
     m_cs := VString false [];
     m_header := [];
     m_body := [IKV [53;56] (VString true (repeat 65 980));
                IGroup [49;52;54] [IKV [53;53] (VString false [])]
                  [[IKV [53;53] (VString true [66])];
                   [IKV [53;53] (VString true [67]);
                    IGroup [52;53;52] [IKV [52;53;53] (VInt false 0%Z)] [[IKV [52;53;53] (VInt true 7%Z)]]]]];
     m_trailer := [] |}.

Example ex_c01_hyps :
  kv_to_bytes (m_bs_tag ex_c01_msg) (m_bs ex_c01_msg) = Some [56;61;70;73;88] /\
  kv_to_bytes (m_mt_tag ex_c01_msg) (m_mt ex_c01_msg) = Some [51;53;61;86] /\
  calc_body_length ex_c01_msg = 1017%nat.
Proof. vm_compute. repeat split. Qed.
