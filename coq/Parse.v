(* Parse.v -- fix.ValueByTag, encoding.scanKeyValue, splitGroup,
   state.unmarshal, validateRaw, DefaultValidator, Unmarshal. *)
From SF Require Export Wire.
Open Scope N_scope.

(* fix.ValueByTag(msg, tag) *)
Definition value_by_tag (msg tag : bytes) : result bytes :=
  if Nat.leb (length msg) (length tag) then Err
  else
    let q := tag ++ [EQS] in
    if prefixb q msg then Ok (take_field (skipn (length q) msg))
    else match find_sub (SOH :: q) msg with
         | None => Err
         | Some i => Ok (take_field (skipn (i + 1 + length q) msg))
         end.

(* the lookup part of state.scanKeyValue: the value bytes of the first
   field tagged [tag] found at the start of [data] or after a delimiter *)
Definition scan_value (data tag : bytes) : option bytes :=
  let q := tag ++ [EQS] in
  if prefixb q data then Some (take_field (skipn (length q) data))
  else match find_sub (SOH :: q) data with
       | None => None
       | Some i => Some (take_field (skipn (i + 1 + length q) data))
       end.

(* state.scanKeyValue: absent field leaves the value untouched *)
Definition scan_kv (o : oracle) (data tag : bytes) (v : value) : result value :=
  match scan_value data tag with
  | None => Ok v
  | Some d => val_from_bytes o v d
  end.

(* splitGroup, literally: the loop body once per unit of fuel *)
Fixpoint split_group (fuel : nat) (line ft : bytes) : result (list bytes) :=
  match fuel with
  | O => OutOfFuel
  | S f =>
      match line with
      | [] => Panic   (* line[1:] on an empty slice *)
      | _ :: tl =>
          match find_sub ft tl with
          | None => Ok [line]
          | Some next =>
              match split_group f (skipn (next + 1) line) ft with
              | Ok arr => Ok (firstn (next + 1) line :: arr)
              | e => e
              end
          end
      end
  end.

(* where the group's count field starts: start of data or after a delimiter *)
Definition find_field_start (data tag : bytes) : option nat :=
  let q := tag ++ [EQS] in
  if prefixb q data then Some 0%nat
  else option_map S (find_sub (SOH :: q) data).

(* KeyValue.AsTemplate / Group.AsTemplate / Component.AsTemplate *)
Fixpoint as_template (it : item) : item :=
  match it with
  | IKV tag v => IKV tag (val_empty v)
  | IGroup notag tpl _ =>
      IGroup notag
        ((fix go (l : list item) : list item :=
            match l with [] => [] | i :: l' => as_template i :: go l' end) tpl) []
  | IComp items =>
      IComp ((fix go (l : list item) : list item :=
                match l with [] => [] | i :: l' => as_template i :: go l' end) items)
  end.

Definition as_template_list (l : list item) : list item := map as_template l.

(* sequentially unmarshal a list of results-producing steps *)
Fixpoint rmapM {A B} (f : A -> result B) (l : list A) : result (list B) :=
  match l with
  | [] => Ok []
  | a :: l' =>
      match f a with
      | Ok b => match rmapM f l' with Ok bs => Ok (b :: bs) | e => e end
      | Err => Err | Panic => Panic | OutOfFuel => OutOfFuel
      end
  end.

(* state.unmarshal applied to a *fresh copy* of a template item
   (el.AsTemplate() then unmarshal): structural recursion on the template *)
Fixpoint unmarshal_fresh (o : oracle) (data : bytes) (tpl : item) : result item :=
  match tpl with
  | IKV tag v => rmap (IKV tag) (scan_kv o data tag (val_empty v))
  | IComp items =>
      rmap IComp
        ((fix go (l : list item) : result (list item) :=
            match l with
            | [] => Ok []
            | i :: l' =>
                match unmarshal_fresh o data i with
                | Ok i' => match go l' with Ok r => Ok (i' :: r) | e => e end
                | Err => Err | Panic => Panic | OutOfFuel => OutOfFuel
                end
            end) items)
  | IGroup notag tpl _ =>
      let tpl0 := (fix go (l : list item) : list item :=
                     match l with [] => [] | i :: l' => as_template i :: go l' end) tpl in
      match scan_kv o data notag (VInt false 0%Z) with
      | Ok cntv =>
          let cnt := match cntv with VInt _ z => z | _ => 0%Z end in
          match find_field_start data notag with
          | None => Ok (IGroup notag tpl0 [])
          | Some start =>
              let from := skipn start data in
              match find_byte SOH from with
              | None => Err
              | Some sff =>
                  let arr := skipn sff from in
                  match find_byte EQS arr with
                  | None => Err
                  | Some eft =>
                      let ft := firstn (eft + 1) arr in
                      match split_group (S (length arr)) arr ft with
                      | Ok chunks =>
                          if Z.eqb (Z.of_nat (length chunks)) cnt then
                            rmap (IGroup notag tpl0)
                              ((fix entries (cs : list bytes) : result (list (list item)) :=
                                  match cs with
                                  | [] => Ok []
                                  | c :: cs' =>
                                      match
                                        (fix go (l : list item) : result (list item) :=
                                           match l with
                                           | [] => Ok []
                                           | i :: l' =>
                                               match unmarshal_fresh o c i with
                                               | Ok i' => match go l' with Ok r => Ok (i' :: r) | e => e end
                                               | Err => Err | Panic => Panic | OutOfFuel => OutOfFuel
                                               end
                                           end) tpl
                                      with
                                      | Ok e => match entries cs' with Ok r => Ok (e :: r) | e' => e' end
                                      | Err => Err | Panic => Panic | OutOfFuel => OutOfFuel
                                      end
                                  end) chunks)
                          else Err
                      | Err => Err | Panic => Panic | OutOfFuel => OutOfFuel
                      end
                  end
              end
          end
      | Err => Err | Panic => Panic | OutOfFuel => OutOfFuel
      end
  end.

(* one group entry parsed from its chunk *)
Definition unmarshal_entry (o : oracle) (tpl : list item) (chunk : bytes) : result (list item) :=
  rmapM (unmarshal_fresh o chunk) tpl.

(* the Group case of state.unmarshal, shared by the fresh and in-place
   variants: the entries parsed from [data], to be appended *)
Definition parse_group_entries (o : oracle) (data notag : bytes) (tpl : list item)
  : result (list (list item)) :=
  match scan_kv o data notag (VInt false 0%Z) with
  | Ok cntv =>
      let cnt := match cntv with VInt _ z => z | _ => 0%Z end in
      match find_field_start data notag with
      | None => Ok []
      | Some start =>
          let from := skipn start data in
          match find_byte SOH from with
          | None => Err
          | Some sff =>
              let arr := skipn sff from in
              match find_byte EQS arr with
              | None => Err
              | Some eft =>
                  let ft := firstn (eft + 1) arr in
                  match split_group (S (length arr)) arr ft with
                  | Ok chunks =>
                      if Z.eqb (Z.of_nat (length chunks)) cnt
                      then rmapM (unmarshal_entry o tpl) chunks
                      else Err
                  | Err => Err | Panic => Panic | OutOfFuel => OutOfFuel
                  end
              end
          end
      end
  | Err => Err | Panic => Panic | OutOfFuel => OutOfFuel
  end.

(* state.unmarshal on an existing (possibly populated) item, in place *)
Fixpoint unmarshal_item (o : oracle) (data : bytes) (it : item) : result item :=
  match it with
  | IKV tag v => rmap (IKV tag) (scan_kv o data tag v)
  | IGroup notag tpl es =>
      rmap (fun new => IGroup notag tpl (es ++ new)) (parse_group_entries o data notag tpl)
  | IComp items =>
      rmap IComp
        ((fix go (l : list item) : result (list item) :=
            match l with
            | [] => Ok []
            | i :: l' =>
                match unmarshal_item o data i with
                | Ok i' => match go l' with Ok r => Ok (i' :: r) | e => e end
                | Err => Err | Panic => Panic | OutOfFuel => OutOfFuel
                end
            end) items)
  end.

Definition unmarshal_items (o : oracle) (data : bytes) (l : list item) : result (list item) :=
  rmapM (unmarshal_item o data) l.

(* validateRaw *)
Definition validate_raw (bs_tag bl_tag cs_tag : bytes) (want_bs : option bytes) (d : bytes)
  : result unit :=
  let bsq := bs_tag ++ [EQS] in
  if negb (prefixb bsq d) then Err else
  match find_byte SOH d with
  | None => Err
  | Some bs_end =>
      (* d[len(bsQ):bsEnd]: a tag containing the delimiter makes this slice panic *)
      if Nat.ltb bs_end (length bsq) then Panic else
      let bs_val := skipn (length bsq) (firstn bs_end d) in
      let blq := bl_tag ++ [EQS] in
      let rest := skipn (bs_end + 1) d in
      if negb (prefixb blq rest) then Err else
      match find_byte SOH rest with
      | None => Err
      | Some bl_end =>
          if Nat.ltb bl_end (length blq) then Panic else
          let bl_val := skipn (length blq) (firstn bl_end rest) in
          let offset := (bs_end + 1 + bl_end + 1)%nat in
          if negb (N.eqb (last d 0) SOH) then Err else
          match rfind_byte SOH (removelast d) with
          | None => Err
          | Some cs_start =>
              let csq := SOH :: cs_tag ++ [EQS] in
              if Nat.ltb cs_start (offset - 1) || negb (prefixb csq (skipn cs_start d)) then Err else
              let cs_val := skipn (cs_start + length csq) (removelast d) in
              match atoi bl_val with
              | None => Err
              | Some body_length =>
                  if negb (Z.eqb (Z.of_nat (cs_start + 1 - offset)) body_length) then Err else
                  if negb (beq cs_val (calc_checksum (firstn cs_start d))) then Err else
                  match want_bs with
                  | Some w => if beq w bs_val then Ok tt else Err
                  | None => Ok tt
                  end
              end
          end
      end
  end.

(* the BeginString value validateRaw compares against: msg.BeginString().ToBytes()
   without its "tag=" prefix, when that is non-nil *)
Definition want_bs_of (m : message) : option bytes :=
  match kv_to_bytes (m_bs_tag m) (m_bs m) with
  | None => None
  | Some _ => val_to_bytes (m_bs m)
  end.

Definition set_header_items (m : message) bs bl mt hd bd tr cs : message :=
  {| m_bs_tag := m_bs_tag m; m_bl_tag := m_bl_tag m; m_cs_tag := m_cs_tag m;
     m_mt_tag := m_mt_tag m; m_bs := bs; m_bl := bl; m_mt := mt; m_cs := cs;
     m_header := hd; m_body := bd; m_trailer := tr |}.

(* DefaultValidator.checkRequiredFields *)
Definition string_val (v : value) : bytes :=
  match v with VString _ s => s | _ => [] end.
Definition int_val (v : value) : Z := match v with VInt _ z => z | _ => 0%Z end.

Definition check_required (m : message) : bool :=
  negb (is_null (m_bs m)) && negb (Z.eqb (int_val (m_bl m)) 0)
  && negb (is_nil (string_val (m_mt m))) && negb (is_nil (string_val (m_cs m))).

(* DefaultUnmarshaller.Unmarshal (strict is not consulted by the code) *)
Definition unmarshal (o : oracle) (m : message) (d : bytes) : result message :=
  match validate_raw (m_bs_tag m) (m_bl_tag m) (m_cs_tag m) (want_bs_of m) d with
  | Ok _ =>
      (* msg.Items(): beginString, bodyLength, msgType, header, body..., trailer, checkSum *)
      match scan_kv o d (m_bs_tag m) (m_bs m) with
      | Ok bs =>
      match scan_kv o d (m_bl_tag m) (m_bl m) with
      | Ok bl =>
      match scan_kv o d (m_mt_tag m) (m_mt m) with
      | Ok mt =>
      match unmarshal_item o d (IComp (m_header m)) with
      | Ok (IComp hd) =>
      match unmarshal_items o d (m_body m) with
      | Ok bd =>
      match unmarshal_item o d (IComp (m_trailer m)) with
      | Ok (IComp tr) =>
      match scan_kv o d (m_cs_tag m) (m_cs m) with
      | Ok cs =>
          let m' := set_header_items m bs bl mt hd bd tr cs in
          if check_required m' then Ok m' else Err
      | Err => Err | Panic => Panic | OutOfFuel => OutOfFuel end
      | Ok _ => Panic
      | Err => Err | Panic => Panic | OutOfFuel => OutOfFuel end
      | Err => Err | Panic => Panic | OutOfFuel => OutOfFuel end
      | Ok _ => Panic
      | Err => Err | Panic => Panic | OutOfFuel => OutOfFuel end
      | Err => Err | Panic => Panic | OutOfFuel => OutOfFuel end
      | Err => Err | Panic => Panic | OutOfFuel => OutOfFuel end
      | Err => Err | Panic => Panic | OutOfFuel => OutOfFuel end
  | Err => Err | Panic => Panic | OutOfFuel => OutOfFuel
  end.
