(* Values.v -- the seven field value types of fix/types.go with their
   null flag, ToBytes, FromBytes and AsTemplate. *)
From SF Require Export Bytes.
Open Scope N_scope.

(* Oracle for the two conversions of the Go standard library that are not
   re-implemented: strconv.ParseFloat (accept / reject) and time.Parse with
   the layout 20060102-15:04:05.000 followed by Format (canonical text).
   The correspondence harness supplies its graph on every value the decoder
   can consult; theorems quantify over all oracles. *)
Record oracle := {
  float_ok : bytes -> bool;
  time_canon : bytes -> option bytes
}.

Inductive value :=
| VString (valid : bool) (s : bytes)
| VInt (valid : bool) (z : Z)
| VUint (valid : bool) (n : N)
| VFloat (valid : bool) (source : option bytes) (text : bytes)
    (* text = strconv.FormatFloat(value,'f',-1,64) of the held number *)
| VTime (valid : bool) (text : bytes)
    (* text = value.Format(TimeLayout) of the held instant *)
| VBool (valid : bool) (b : bool)
| VRaw (v : option bytes).

Definition is_null (v : value) : bool :=
  match v with
  | VString valid _ | VInt valid _ | VUint valid _ | VFloat valid _ _
  | VTime valid _ | VBool valid _ => negb valid
  | VRaw o => match o with None => true | Some _ => false end
  end.

Definition is_nil (l : bytes) : bool := match l with [] => true | _ => false end.

(* Value.ToBytes; None is Go's nil slice *)
Definition val_to_bytes (v : value) : option bytes :=
  match v with
  | VString valid s => if valid && negb (is_nil s) then Some s else None
  | VInt valid z => if valid then Some (itoa z) else None
  | VUint valid n => if valid then Some (utoa n) else None
  | VFloat valid src text =>
      if valid then Some (match src with Some s => s | None => text end) else None
  | VTime valid text => if valid then Some text else None
  | VBool valid b => if valid then Some (if b then [89] else [78]) else None
  | VRaw o => o
  end.

(* Value.FromBytes on a non-nil slice (the decoder only ever passes
   sub-slices of non-nil data) *)
Definition val_from_bytes (o : oracle) (v : value) (d : bytes) : result value :=
  match v with
  | VString _ _ => Ok (VString true d)
  | VInt _ _ => match atoi d with Some z => Ok (VInt true z) | None => Err end
  | VUint _ _ => match parse_uint d with Some n => Ok (VUint true n) | None => Err end
  | VFloat _ _ _ => if float_ok o d then Ok (VFloat true (Some d) d) else Err
  | VTime _ _ => match time_canon o d with Some t => Ok (VTime true t) | None => Err end
  | VBool _ _ => Ok (VBool true (beq d [89]))
  | VRaw _ => Ok (VRaw (Some d))
  end.

(* the zero value of the same type: &String{}, &Int{}, ... *)
Definition val_empty (v : value) : value :=
  match v with
  | VString _ _ => VString false []
  | VInt _ _ => VInt false 0%Z
  | VUint _ _ => VUint false 0
  | VFloat _ _ _ => VFloat false None [48]
  | VTime _ _ => VTime false []
  | VBool _ _ => VBool false false
  | VRaw _ => VRaw None
  end.

Definition same_type (a b : value) : bool :=
  match a, b with
  | VString _ _, VString _ _ | VInt _ _, VInt _ _ | VUint _ _, VUint _ _
  | VFloat _ _ _, VFloat _ _ _ | VTime _ _, VTime _ _ | VBool _ _, VBool _ _
  | VRaw _, VRaw _ => true
  | _, _ => false
  end.

(* Public constructors and setters (fix/types.go) *)
Definition new_string (s : bytes) := VString true s.
Definition new_int (z : Z) := VInt true z.
Definition new_uint (n : N) := VUint true n.
Definition new_float (text : bytes) := VFloat true None text.
Definition new_time (text : bytes) := VTime true text.
Definition new_raw (o : option bytes) := VRaw o.

(* v.Set(x) with x of the value's own Go type *)
Definition set_string (v : value) (s : bytes) := VString true s.
Definition set_int (v : value) (z : Z) := VInt true z.
Definition set_uint (v : value) (n : N) := VUint true n.
Definition set_float (v : value) (text : bytes) := VFloat true None text.
Definition set_time (v : value) (text : bytes) := VTime true text.
Definition set_bool (v : value) (b : bool) := VBool true b.
Definition set_raw (v : value) (d : bytes) := VRaw (Some d).
