(* SessionProto.v -- line protocol for session scenarios (see harness/cmd/session). *)
From SF Require Export Proto Session.
Open Scope N_scope.

Definition tok_is (s : bytes) (t : tok) : bool := beq s t.

Definition k_IN : bytes := [73;78].
Definition k_SEND : bytes := [83;69;78;68].
Definition k_LOGOUT : bytes := [76;79;71;79;85;84].
Definition k_STOP : bytes := [83;84;79;80].
Definition k_DEADLINE : bytes := [68;69;65;68;76;73;78;69].
Definition k_REGIN : bytes := [82;69;71;73;78].
Definition k_REGOUT : bytes := [82;69;71;79;85;84].
Definition k_REGEV : bytes := [82;69;71;69;86].
Definition k_INTIMER : bytes := [73;78;84;73;77;69;82].
Definition k_OUTTIMER : bytes := [79;85;84;84;73;77;69;82].

Definition event_of_nat (n : nat) : option event :=
  match n with
  | 0%nat => Some EvDisconnect | 1%nat => Some EvConnect | 2%nat => Some EvStopped
  | 3%nat => Some EvLogon | 4%nat => Some EvRequest | 5%nat => Some EvLogout
  | _ => None
  end.

Definition p_app : parser app_msg := fun ts =>
  match ts with
  | [72] :: id :: r => match unhex id with Some x => Some (AppHeartbeat x, r) | None => None end
  | [84] :: id :: r => match unhex id with Some x => Some (AppTestRequest x, r) | None => None end
  | [82] :: a :: b :: r =>
      match unhex a, unhex b with Some x, Some y => Some (AppReject x y, r) | _, _ => None end
  | _ => None
  end.

Definition p_op : parser op := fun ts =>
  match ts with
  | k :: r =>
      if tok_is k_IN k then
        match r with d :: r' => match unhex d with Some x => Some (Inbound x, r') | None => None end | _ => None end
      else if tok_is k_SEND k then
        match p_app r with Some (a, r') => Some (AppSend a, r') | None => None end
      else if tok_is k_LOGOUT k then Some (AppLogout, r)
      else if tok_is k_STOP k then Some (AppStop, r)
      else if tok_is k_DEADLINE k then Some (CloseDeadline, r)
      else if tok_is k_REGIN k then
        match r with
        | mt :: id :: a :: r' =>
            match unhex mt, tok_nat id, tok_bool a with
            | Some m, Some i, Some b => Some (RegIn m i b, r') | _, _, _ => None end
        | _ => None end
      else if tok_is k_REGOUT k then
        match r with
        | mt :: id :: a :: am :: r' =>
            match unhex mt, tok_nat id, tok_bool a, tok_bool am with
            | Some m, Some i, Some b, Some c => Some (RegOut m i b c, r') | _, _, _, _ => None end
        | _ => None end
      else if tok_is k_REGEV k then
        match r with
        | e :: id :: a :: r' =>
            match tok_nat e, tok_nat id, tok_bool a with
            | Some en, Some i, Some b =>
                match event_of_nat en with Some ev => Some (RegEv ev i b, r') | None => None end
            | _, _, _ => None end
        | _ => None end
      else if tok_is k_INTIMER k then
        match r with g :: r' => match tok_nat g with Some n => Some (InTimerFire n, r') | None => None end | _ => None end
      else if tok_is k_OUTTIMER k then
        match r with g :: r' => match tok_nat g with Some n => Some (OutTimerFire n, r') | None => None end | _ => None end
      else None
  | [] => None
  end.

Definition p_ops : parser (list op) := fun ts =>
  match ts with
  | n :: r => match tok_nat n with Some k => p_count p_op k r | None => None end
  | [] => None
  end.

Definition p_hexlist : parser (list bytes) := fun ts =>
  match ts with
  | n :: r =>
      match tok_nat n with
      | Some k => p_count (fun ts' => match ts' with
                                      | t :: r' => match unhex t with Some x => Some (x, r') | None => None end
                                      | [] => None end) k r
      | None => None
      end
  | [] => None
  end.

Definition p_natlist : parser (list nat) := fun ts =>
  match ts with
  | n :: r =>
      match tok_nat n with
      | Some k => p_count (fun ts' => match ts' with
                                      | t :: r' => match tok_nat t with Some x => Some (x, r') | None => None end
                                      | [] => None end) k r
      | None => None
      end
  | [] => None
  end.

(* settings: target sender hb enc password username reset lo hi   (lo = "-" : no limits) *)
Definition p_settings : parser settings := fun ts =>
  match ts with
  | t :: sd :: hb :: enc :: pw :: un :: rs :: lo :: hi :: r =>
      match unhex t, unhex sd, tok_int hb, unhex enc, unhex pw, unhex un, tok_bool rs with
      | Some t', Some sd', Some hb', Some enc', Some pw', Some un', Some rs' =>
          let lim := match tok_int lo, tok_int hi with Some a, Some b => Some (a, b) | _, _ => None end in
          Some ({| st_target := t'; st_sender := sd'; st_hb := hb'; st_enc := enc'; st_password := pw';
                   st_username := un'; st_reset := rs'; st_limits := lim |}, r)
      | _, _, _, _, _, _, _ => None
      end
  | _ => None
  end.

(* an earlier session's stored message: seq app sender target *)
Definition stamp (m : message) (seq : Z) (sender target : bytes) : message :=
  let h := set_kv tag_MsgSeqNum (VInt true seq) (m_header m) in
  let h := set_kv tag_TargetCompID (VString true target) h in
  let h := set_kv tag_SenderCompID (VString true sender) h in
  let h := set_kv tag_SendingTime (VString true sending_time_placeholder) h in
  with_header m h.

Definition p_stored : parser (Z * message) := fun ts =>
  match ts with
  | sq :: r =>
      match tok_int sq, p_app r with
      | Some seq, Some (a, sd :: tg :: r') =>
          match unhex sd, unhex tg with
          | Some s', Some t' => Some ((seq, stamp (build_app a) seq s' t'), r')
          | _, _ => None
          end
      | _, _ => None
      end
  | [] => None
  end.

Definition p_store : parser (list (Z * message)) := fun ts =>
  match ts with
  | n :: r => match tok_nat n with Some k => p_count p_stored k r | None => None end
  | [] => None
  end.

(* ---- printing one op's observation ---- *)

Definition state_num (x : lstate) : bytes :=
  match x with
  | WaitingLogon => [48] | SuccessfulLogged => [49] | WaitingLogonAnswer => [50]
  | WaitingLogoutAnswer => [51] | ReceivedLogoutAnswer => [52] | WaitingTestReqAnswer => [53]
  | Disconnect => [54]
  end.

Definition pr_out (o : out) : list bytes :=
  match o with
  | OWire m => [[87] ++ hex (to_bytes m)]                 (* W<hex> *)
  | OEvent _ => []
  | OSave seq ok => [[83] ++ itoa seq ++ (if ok then [43] else [33])]   (* S<seq>+ / S<seq>! *)
  | OAppIn id => [[73] ++ pr_nat id]
  | OAppOut id seq => [[79] ++ pr_nat id ++ [58] ++ itoa seq]
  | OAppEv id => [[69] ++ pr_nat id]
  | OSendErr => [[88]]
  | OServeErr => [[89]]
  end.

Definition pr_obs (s : sstate) (os : list out) : bytes :=
  spcat ([state_num (s_state s); pr_bool (s_cancelled s); pr_bool (s_router_stopped s);
          itoa (s_cnt_in s); itoa (s_cnt_out s)] ++ flat_map pr_out os).

Fixpoint run_print (cfg : config) (s : sstate) (ops : list op) : list bytes :=
  match ops with
  | [] => []
  | o :: r => let '(s1, o1) := step cfg s o in pr_obs s1 o1 :: run_print cfg s1 r
  end.

Fixpoint join_bar (l : list bytes) : bytes :=
  match l with [] => [] | [a] => a | a :: r => a ++ [32; 124; 32] ++ join_bar r end.

(* SESSION side allowed refusedpw failsaves settings cntin cntout store preregs ops
   (side: A or I, followed by S when the SequenceReset builder is configured) *)
Definition k_SESSION : bytes := [83;69;83;83;73;79;78].

Definition run_session_line (line : bytes) : bytes :=
  match tokens line with
  | k :: sd :: r =>
      if negb (tok_is k_SESSION k) then s_BAD else
      match p_hexlist r with
      | Some (allowed, rp :: r1) =>
          match unhex_opt rp, p_natlist r1 with
          | Some refused, Some (fails, r2) =>
              match p_settings r2 with
              | Some (st, ci :: co :: r3) =>
                  match tok_int ci, tok_int co, p_store r3 with
                  | Some cin, Some cout, Some (store, r4) =>
                      match p_ops r4 with
                      | Some (pre, r5) =>
                          match p_ops r5 with
                          | Some (ops, []) =>
                              let cfg := {| c_side := match sd with 73 :: _ => Initiator | _ => Acceptor end;
                                            c_allowed := allowed;
                                            c_approve := fun x => match refused with
                                                                  | Some pw => negb (beq (st_password x) pw)
                                                                  | None => true end;
                                            c_fail_saves := fails;
                                            c_seqreset := match sd with [_; 83] => true | _ => false end;
                                            c_settings := st |} in
                              let s0 := init_state cfg cin cout store in
                              let s1 := fst (run_ops cfg s0 pre) in
                              let '(s2, o2) := run_session cfg s1 in
                              join_bar (pr_obs s2 o2 :: run_print cfg s2 ops)
                          | _ => s_BAD
                          end
                      | None => s_BAD
                      end
                  | _, _, _ => s_BAD
                  end
              | _ => s_BAD
              end
          | _, _ => s_BAD
          end
      | _ => s_BAD
      end
  | _ => s_BAD
  end.
