// race: the scenario driver for C20, built with -race. It makes the accesses the lock table talks
// about actually meet: concurrent senders, inbound dispatch (test requests, resend requests,
// logon/logout processing), both timer goroutines really expiring (heartbeat interval 1 s and a
// silent phase that forces the TestRequest path), state queries, event registration and Stop,
// on both roles, with the bundled in-memory store. The race detector's reports go to stderr.
package main

import (
	"flag"
	"fmt"
	"os"
	"strconv"
	"sync"
	"time"

	fixgen "github.com/b2broker/simplefix-go/tests/fix44"
	"github.com/b2broker/simplefix-go/utils"

	"verifharness/internal/live"
)

func scenario(role string, seed int) string {
	l, err := live.Start(live.Config{Role: role, Hb: 1, Buf: []int{0, 1, 10}[seed%3]})
	if err != nil {
		return "setup failed: " + err.Error()
	}
	defer l.Shutdown()
	if !l.Logon(1) {
		return "logon failed"
	}
	var wg sync.WaitGroup
	stop := make(chan struct{})
	// concurrent senders
	for g := 0; g < 4; g++ {
		wg.Add(1)
		go func(g int) {
			defer wg.Done()
			for i := 0; i < 40; i++ {
				select {
				case <-stop:
					return
				default:
				}
				m := fixgen.NewMarketDataRequestReject()
				m.SetMDReqID("g" + strconv.Itoa(g) + "-" + strconv.Itoa(i))
				_ = l.Sess.Send(m)
				time.Sleep(time.Duration(5+g*7) * time.Millisecond)
			}
		}(g)
	}
	// two senders without pauses: while they run, some message is always between its Save and the
	// end of its serialization, which is when a ResendRequest up to "the last number" meets it
	for g := 4; g < 6; g++ {
		wg.Add(1)
		go func(g int) {
			defer wg.Done()
			time.Sleep(150 * time.Millisecond)
			for i := 0; i < 250; i++ {
				select {
				case <-stop:
					return
				default:
				}
				m := fixgen.NewMarketDataRequestReject()
				m.SetMDReqID("b" + strconv.Itoa(g) + "-" + strconv.Itoa(i))
				_ = l.Sess.Send(m)
			}
		}(g)
	}
	// state queries and event registration
	wg.Add(2)
	go func() {
		defer wg.Done()
		for {
			select {
			case <-stop:
				return
			default:
				_ = l.Sess.IsLogged()
				_ = l.Sess.Context().Err()
				time.Sleep(time.Millisecond)
			}
		}
	}()
	go func() {
		defer wg.Done()
		// registrations go on for the whole scenario: some of them meet the events the logon, the
		// logout, the probe and the stop fire
		evs := []utils.Event{utils.EventLogout, utils.EventLogon, utils.EventDisconnect, utils.EventRequest}
		for i := 0; ; i++ {
			select {
			case <-stop:
				return
			default:
			}
			l.Sess.OnChangeState(evs[i%len(evs)], func() bool { return true })
			if i%3 == 0 {
				l.H.HandleIncoming("Y", func([]byte) bool { return true })
			}
			time.Sleep(25 * time.Millisecond)
		}
	}()
	// the peer's script
	for i := 0; i < 12; i++ { // 1.2 s of inbound traffic
		_ = l.Send(l.PeerMsg("1", "112=t"+strconv.Itoa(i)+"\x01"))
		if i%4 == 1 {
			_ = l.Send(l.PeerMsg("2", "7=1\x0116=3\x01"))
		}
		if i%4 == 3 {
			_ = l.Send(l.PeerMsg("0", ""))
		}
		// an open-ended ResendRequest that covers the newest messages, which the senders are
		// still producing: the resend path and Send then work on the same message objects
		if snap := l.Snapshot(); len(snap) > 0 {
			from := snap[len(snap)-1].Seq - 1
			if from < 1 {
				from = 1
			}
			for k := 0; k < 3; k++ {
				_ = l.Send(l.PeerMsg("2", "7="+strconv.Itoa(from)+"\x0116=0\x01"))
			}
			// and a request for exactly one message, the newest one seen
			last := snap[len(snap)-1].Seq
			_ = l.Send(l.PeerMsg("2", "7="+strconv.Itoa(last)+"\x0116="+strconv.Itoa(last)+"\x01"))
			if i >= 1 && i <= 3 { // while the pause-less senders run: open-ended requests in quick succession
				for k := 0; k < 12; k++ {
					time.Sleep(2 * time.Millisecond)
					if sn := l.Snapshot(); len(sn) > 0 {
						_ = l.Send(l.PeerMsg("2", "7="+strconv.Itoa(sn[len(sn)-1].Seq)+"\x0116=0\x01"))
					}
				}
			}
		}
		time.Sleep(100 * time.Millisecond)
	}
	// silence: the inbound timer (N + max(1,N/20) = 2 s) expires, a TestRequest must come
	if _, ok := l.WaitType("1", 3500*time.Millisecond); ok {
		// the answer comes late enough for the heartbeat timer to expire while the session probes
		// (it is judged in the not-logged-on state), and early enough not to be disconnected
		time.Sleep(1150 * time.Millisecond)
		_ = l.Send(l.PeerMsg("0", "112=1\x01"))
	}
	// logout / logon again while senders are still active
	_ = l.Send(l.PeerMsg("5", ""))
	time.Sleep(150 * time.Millisecond)
	if role == "A" {
		_ = l.Send(l.PeerMsg("A", "98=0\x01108=1\x01"))
	}
	time.Sleep(400 * time.Millisecond)
	_ = l.Sess.Stop()
	time.Sleep(100 * time.Millisecond)
	_ = l.Send(l.PeerMsg("5", ""))
	time.Sleep(200 * time.Millisecond)
	close(stop)
	wg.Wait()
	return fmt.Sprintf("ok messages_at_peer=%d", len(l.Snapshot()))
}

func main() {
	seed := flag.Int("seed", 1, "seed")
	rounds := flag.Int("rounds", 1, "rounds per role")
	flag.Parse()
	var wg sync.WaitGroup
	res := make(chan string, 64)
	for r := 0; r < *rounds; r++ {
		for _, role := range []string{"A", "I"} {
			wg.Add(1)
			go func(role string, r int) {
				defer wg.Done()
				res <- role + ": " + scenario(role, *seed+r)
			}(role, r)
		}
	}
	wg.Wait()
	close(res)
	for s := range res {
		fmt.Println(s)
	}
	os.Exit(0)
}
