// timing: trace-conformance driver for C08 and C09 (and the real-time parts of C14/C15).
// (i) utils.Timer driven directly with scripted Refresh patterns; (ii) full sessions with
// heartbeat intervals of 1 and 2 s on an in-memory connection, both roles, timestamps taken at
// the peer end. Every observed interval is written as a protocol line that the timer model
// (coq/Timer.v, extracted) judges: is it a run of the model within the slack?
package main

import (
	"bufio"
	"encoding/json"
	"errors"
	"flag"
	"fmt"
	"os"
	"strconv"
	"strings"
	"sync"
	"sync/atomic"
	"time"

	simplefixgo "github.com/b2broker/simplefix-go"
	"github.com/b2broker/simplefix-go/fix"
	"github.com/b2broker/simplefix-go/storages/memory"

	fixgen "github.com/b2broker/simplefix-go/tests/fix44"
	"github.com/b2broker/simplefix-go/utils"

	"verifharness/internal/live"
)

type Rec struct {
	ID     int               `json:"id"`
	Mode   string            `json:"mode"`
	Case   string            `json:"case"`
	Impl   string            `json:"impl"`
	Oracle map[string]string `json:"oracle"`
	Tags   []string          `json:"tags,omitempty"`
	Size   int               `json:"size"`
	Skip   bool              `json:"skip,omitempty"`
}

var (
	mu    sync.Mutex
	recs  []*Rec
	slack = int64(250 * time.Millisecond)
	jit   = int64(30 * time.Millisecond) // arrival-time jitter allowed on lower bounds measured at the peer
)

// obs records one observed interval: the model decides whether it conforms.
func obs(prop, mode, line string, tags ...string) {
	mu.Lock()
	recs = append(recs, &Rec{Mode: mode, Case: line, Impl: "OK", Oracle: map[string]string{prop: "ok"}, Tags: tags})
	mu.Unlock()
}

// verdict records a property judgement that needs no model arithmetic.
func verdict(prop, mode, what, result string, tags ...string) {
	mu.Lock()
	recs = append(recs, &Rec{Mode: mode, Case: what, Impl: result, Skip: true, Oracle: map[string]string{prop: result}, Tags: tags})
	mu.Unlock()
}

// ---------- (i) utils.Timer directly ----------

func timerDirect(T time.Duration, pattern string) {
	tm, err := utils.NewTimer(T)
	if err != nil {
		verdict("C08", "timer", "NewTimer "+T.String(), "fail: "+err.Error())
		return
	}
	start := time.Now()
	var refMu sync.Mutex
	last := start
	refresh := func() {
		tm.Refresh()
		refMu.Lock()
		last = time.Now()
		refMu.Unlock()
	}
	stop := make(chan struct{})
	go func() {
		switch pattern {
		case "idle":
		case "before": // refresh just before the deadline, twice
			for i := 0; i < 2; i++ {
				select {
				case <-time.After(T * 9 / 10):
					refresh()
				case <-stop:
					return
				}
			}
		case "burst":
			for i := 0; i < 20; i++ {
				select {
				case <-time.After(T / 25):
					refresh()
				case <-stop:
					return
				}
			}
		case "after": // nothing until after the deadline
		}
	}()
	tm.TakeTimeout()
	ret := time.Now()
	close(stop)
	refMu.Lock()
	l := last
	refMu.Unlock()
	obs("C08", "timer", fmt.Sprintf("TT %d %d %d %d", int64(T), slack, l.Sub(start).Nanoseconds(), ret.Sub(start).Nanoseconds()),
		"timer-"+pattern, "T="+T.String())
	// the noticing tick: ticks are T/10 apart from the entry of TakeTimeout
	obs("C08", "timer-tick", fmt.Sprintf("TICK %d %d %d %d %d %d", int64(T), int64(2*time.Millisecond), slack, 0,
		l.Sub(start).Nanoseconds(), ret.Sub(start).Nanoseconds()), "timer-"+pattern, "T="+T.String())
}

// ---------- (ii) sessions ----------

func sendApp(l *live.Live, id string) {
	m := fixgen.NewMarketDataRequestReject()
	m.SetMDReqID(id)
	_ = l.Sess.Send(m)
}

// C08: outbound gaps and heartbeat postponement under an application send pattern.
func heartbeatScenario(role string, n int, pattern string) {
	mode := "hb-" + pattern
	tags := []string{"role=" + role, "N=" + strconv.Itoa(n), mode}
	l, err := live.Start(live.Config{Role: role, Hb: n, Buf: 10})
	if err != nil {
		verdict("C08", mode, "setup", "fail: "+err.Error(), tags...)
		return
	}
	defer l.Shutdown()
	if !l.Logon(n) {
		verdict("C08", mode, "logon", "fail: logon exchange did not complete", tags...)
		return
	}
	if strings.HasPrefix(pattern, "relogon-") { // the same pattern on the second logon of one session
		pattern = strings.TrimPrefix(pattern, "relogon-")
		time.Sleep(300 * time.Millisecond)
		if !l.Relogon(n) {
			verdict("C08", mode, "relogon", "fail: Logout exchange and second Logon did not complete", tags...)
			return
		}
	}
	N := time.Duration(n) * time.Second
	stop := make(chan struct{})
	// keep the peer alive so that the session is not disconnected: a heartbeat every 0.7 N
	go func() {
		tk := time.NewTicker(N * 7 / 10)
		defer tk.Stop()
		for {
			select {
			case <-tk.C:
				_ = l.Send(l.PeerMsg("0", ""))
			case <-stop:
				return
			}
		}
	}()
	dur := N*3 + N/2
	switch pattern {
	case "idle":
		time.Sleep(dur)
	case "just-before": // a send 50 ms before each expected heartbeat postpones it
		deadline := time.Now().Add(dur)
		for time.Now().Before(deadline) {
			time.Sleep(N - 50*time.Millisecond)
			sendApp(l, "jb")
		}
	case "just-after":
		deadline := time.Now().Add(dur)
		for time.Now().Before(deadline) {
			time.Sleep(N + 160*time.Millisecond)
			sendApp(l, "ja")
		}
	case "burst":
		for i := 0; i < 30; i++ {
			sendApp(l, "b"+strconv.Itoa(i))
			time.Sleep(N / 40)
		}
		time.Sleep(N*2 + N/2)
	case "resend-mid": // a message retransmitted on a ResendRequest is outbound traffic like any other
		sendApp(l, "rm")
		var first int
		if m, ok := l.WaitType("Y", time.Second); ok {
			first = m.Seq
		}
		deadline := time.Now().Add(dur)
		for time.Now().Before(deadline) && first > 0 {
			time.Sleep(N / 2)
			_ = l.Send(l.PeerMsg("2", fmt.Sprintf("7=%d\x0116=%d\x01", first, first)))
			time.Sleep(N + N/4)
		}
	case "testrequest-mid": // the Heartbeat that answers a TestRequest is outbound traffic like any other
		deadline := time.Now().Add(dur)
		for i := 0; time.Now().Before(deadline); i++ {
			time.Sleep(N / 2)
			_ = l.Send(l.PeerMsg("1", "112=mid"+strconv.Itoa(i)+"\x01"))
			time.Sleep(N + N/4)
		}
	}
	close(stop)
	msgs := l.Snapshot()
	// outbound messages after the Logon answer
	var prev *live.Msg
	for i := range msgs {
		m := msgs[i]
		if prev != nil {
			gap := m.At.Sub(prev.At).Nanoseconds()
			obs("C08", mode, fmt.Sprintf("GAP %d %d %d", n, slack, gap), tags...)
			if m.Type == "0" {
				if _, solicited := live.Field(m.Raw, "112"); !solicited {
					obs("C08", mode, fmt.Sprintf("HB %d %d %d", n, jit, gap), append(tags, "unsolicited-heartbeat")...)
				}
			}
		}
		prev = &msgs[i]
	}
	if len(msgs) < 3 {
		verdict("C08", mode, "traffic", fmt.Sprintf("fail: only %d outbound messages in %s", len(msgs), dur), tags...)
	}
}

// C09: the silent peer.
func silenceScenario(role string, n int, pattern string) {
	mode := "silence-" + pattern
	tags := []string{"role=" + role, "N=" + strconv.Itoa(n), mode}
	l, err := live.Start(live.Config{Role: role, Hb: n, Buf: 10})
	if err != nil {
		verdict("C09", mode, "setup", "fail: "+err.Error(), tags...)
		return
	}
	defer l.Shutdown()
	if !l.Logon(n) {
		verdict("C09", mode, "logon", "fail: logon exchange did not complete", tags...)
		return
	}
	if strings.HasPrefix(pattern, "relogon-") { // the same pattern on the second logon of one session
		pattern = strings.TrimPrefix(pattern, "relogon-")
		time.Sleep(300 * time.Millisecond)
		if !l.Relogon(n) {
			verdict("C09", mode, "relogon", "fail: Logout exchange and second Logon did not complete", tags...)
			return
		}
	}
	logonAt := time.Now()      // the timers start with the logon: their ticks are counted from here
	loggedUntil := time.Time{} // set when the session stops being logged on (disconnect)
	defer func() {
		end := loggedUntil
		if end.IsZero() {
			end = time.Now()
		}
		if msgs := l.Snapshot(); len(msgs) > 0 && end.After(msgs[len(msgs)-1].At) {
			// the silence after the last message, up to the moment the session stopped being logged on
			obs("C08", mode, fmt.Sprintf("GAP %d %d %d", n, slack, end.Sub(msgs[len(msgs)-1].At).Nanoseconds()), append(tags, "tail")...)
		}
	}()
	defer func() {
		// C08 holds throughout: while the session is logged on (probing included) it is never silent for long
		var prev *live.Msg
		msgs := l.Snapshot()
		for i := range msgs {
			if prev != nil && msgs[i].At.After(logonAt) {
				obs("C08", mode, fmt.Sprintf("GAP %d %d %d", n, slack, msgs[i].At.Sub(prev.At).Nanoseconds()), tags...)
			}
			prev = &msgs[i]
		}
	}()
	N := time.Duration(n) * time.Second
	tol := n / 20
	if tol < 1 {
		tol = 1
	}
	Tin := time.Duration(n+tol) * time.Second
	// the last inbound message arrives half a polling period after the timers started, so that the
	// instant at which the timeout elapses falls between two ticks (an unambiguous noticing tick)
	time.Sleep(Tin / 20)
	_ = l.Send(l.PeerMsg("0", ""))
	lastInbound := time.Now()
	waitProbe := func() (live.Msg, bool) {
		return l.WaitType("1", Tin+Tin/10+2*time.Second)
	}
	switch pattern {
	case "probe-only": // long intervals: only the first expiry is awaited
		p, ok := waitProbe()
		if !ok {
			verdict("C09", mode, "probe", "fail: no TestRequest after total silence", tags...)
			return
		}
		obs("C09", mode, fmt.Sprintf("PROBE %d %d %d %d", n, slack, jit, p.At.Sub(lastInbound).Nanoseconds()), tags...)
		obs("C09", mode, fmt.Sprintf("TICK %d %d %d %d %d %d", int64(Tin), jit, slack, 0, lastInbound.Sub(logonAt).Nanoseconds(), p.At.Sub(logonAt).Nanoseconds()), append(tags, "noticing-tick")...)
	case "total": // nothing at all: probe, then disconnect
		p, ok := waitProbe()
		if !ok {
			verdict("C09", mode, "probe", "fail: no TestRequest after total silence", tags...)
			return
		}
		obs("C09", mode, fmt.Sprintf("PROBE %d %d %d %d", n, slack, jit, p.At.Sub(lastInbound).Nanoseconds()), tags...)
		obs("C09", mode, fmt.Sprintf("TICK %d %d %d %d %d %d", int64(Tin), jit, slack, 0, lastInbound.Sub(logonAt).Nanoseconds(), p.At.Sub(logonAt).Nanoseconds()), append(tags, "noticing-tick")...)
		if !l.WaitEvent("disconnect", Tin+Tin/10+2*time.Second) {
			verdict("C09", mode, "disconnect", "fail: no disconnect event after a second silent period", tags...)
			return
		}
		loggedUntil = time.Now()
		since := time.Since(p.At).Nanoseconds()
		obs("C09", mode, fmt.Sprintf("PROBE %d %d %d %d", n, slack, jit, since), append(tags, "disconnect")...)
		select {
		case <-l.EOF:
			verdict("C09", mode, "closed", "ok", tags...)
		case <-time.After(2 * time.Second):
			verdict("C09", mode, "closed", "fail: the connection was not closed after the disconnect event", tags...)
		}
	case "answer-resend": // a ResendRequest arriving while the session probes is served (C10)
		if _, ok := waitProbe(); !ok {
			verdict("C10", mode, "probe", "skip: no TestRequest after silence", tags...)
			return
		}
		first := l.Snapshot()
		if len(first) == 0 {
			verdict("C10", mode, "resend", "skip: nothing was sent", tags...)
			return
		}
		orig := first[0]
		time.Sleep(Tin / 4)
		asked := time.Now()
		_ = l.Send(l.PeerMsg("2", fmt.Sprintf("7=%d\x0116=%d\x01", orig.Seq, orig.Seq)))
		got := false
		rejected := false
		deadline := time.Now().Add(time.Second)
		for time.Now().Before(deadline) && !got && !rejected {
			for _, m := range l.Snapshot() {
				if m.At.After(asked) && m.Seq == orig.Seq && m.Type == orig.Type {
					got = true
				}
				if m.At.After(asked) && m.Type == "3" {
					rejected = true
				}
			}
			time.Sleep(20 * time.Millisecond)
		}
		switch {
		case got:
			verdict("C10", mode, "resend", "ok", tags...)
		case rejected:
			verdict("C10", mode, "resend", "fail: a ResendRequest received while the session waits for the answer to its own TestRequest was rejected instead of served", tags...)
		default:
			verdict("C10", mode, "resend", "fail: a ResendRequest received while the session waits for the answer to its own TestRequest was not served", tags...)
		}
		return
	case "answer-logout": // the peer's Logout arriving while the session probes is acknowledged once (C15)
		if _, ok := waitProbe(); !ok {
			verdict("C15", mode, "probe", "skip: no TestRequest after silence", tags...)
			return
		}
		time.Sleep(Tin / 4)
		asked := time.Now()
		_ = l.Send(l.PeerMsg("5", ""))
		time.Sleep(700 * time.Millisecond)
		loggedUntil = time.Now()
		logouts, rejects := 0, 0
		for _, m := range l.Snapshot() {
			if m.At.After(asked) && m.Type == "5" {
				logouts++
			}
			if m.At.After(asked) && m.Type == "3" {
				rejects++
			}
		}
		if logouts == 1 && rejects == 0 {
			verdict("C15", mode, "logout", "ok", tags...)
		} else {
			verdict("C15", mode, "logout", fmt.Sprintf("fail: the peer's Logout received while the session waits for the answer to its own TestRequest was answered by %d Logout(s) and %d Reject(s)", logouts, rejects), tags...)
		}
		return
	case "answer-heartbeat", "answer-other", "answer-testrequest", "answer-seqreset": // an answer in the second period cancels the disconnect
		p, ok := waitProbe()
		if !ok {
			verdict("C09", mode, "probe", "fail: no TestRequest after silence", tags...)
			return
		}
		obs("C09", mode, fmt.Sprintf("PROBE %d %d %d %d", n, slack, jit, p.At.Sub(lastInbound).Nanoseconds()), tags...)
		time.Sleep(Tin / 2)
		switch pattern {
		case "answer-heartbeat":
			id, _ := live.Field(p.Raw, "112")
			_ = l.Send(l.PeerMsg("0", "112="+id+"\x01"))
		case "answer-other":
			_ = l.Send(l.PeerMsg("Y", "262=x\x01"))
		case "answer-seqreset": // anything the peer sends is a sign of life, a gap fill too
			_ = l.Send(l.PeerMsg("4", "123=Y\x0136=1000\x01"))
		case "answer-testrequest":
			_ = l.Send(l.PeerMsg("1", "112=while-probing\x01"))
			echoed := false
			deadline := time.Now().Add(time.Second)
			for time.Now().Before(deadline) && !echoed {
				m, ok := l.WaitType("0", time.Until(deadline))
				if !ok {
					break
				}
				if id, _ := live.Field(m.Raw, "112"); id == "while-probing" {
					echoed = true
				}
			}
			if !echoed {
				verdict("C14", mode, "echo", "fail: a TestRequest received while the session waits for the answer to its own TestRequest was not answered by a Heartbeat echoing its id", tags...)
			} else {
				verdict("C14", mode, "echo", "ok", tags...)
			}
		}
		answered := time.Now()
		// no disconnect within the rest of the original second period (+ a margin)
		if l.WaitEvent("disconnect", Tin/2+Tin/10+300*time.Millisecond) {
			verdict("C09", mode, "cancel", "fail: disconnected although the peer answered within the period", tags...)
			return
		}
		if !l.Sess.IsLogged() {
			verdict("C09", mode, "cancel", "fail: not logged on after the peer answered the TestRequest", tags...)
			return
		}
		verdict("C09", mode, "cancel", "ok", tags...)
		_ = answered
	case "steady-1.0", "steady-0.9", "steady-0.5", "steady-mixed": // a live peer is never probed
		f := map[string]float64{"steady-1.0": 0.97, "steady-0.9": 0.9, "steady-0.5": 0.5, "steady-mixed": 0.8}[pattern]
		period := time.Duration(float64(N) * f)
		deadline := time.Now().Add(N*5 + N/2)
		probed := false
		for k := 0; time.Now().Before(deadline); k++ {
			if pattern == "steady-mixed" { // the traffic of a replay: gap fills and application messages, no Heartbeat
				if k%3 == 2 {
					_ = l.Send(l.PeerMsg("Y", "262=x\x01"))
				} else {
					_ = l.Send(l.PeerMsg("4", "123=Y\x0136=1000\x01"))
				}
			} else {
				_ = l.Send(l.PeerMsg("0", ""))
			}
			select {
			case m := <-l.In:
				if m.Type == "1" {
					probed = true
				}
			default:
			}
			time.Sleep(period)
		}
		for _, m := range l.Snapshot() {
			if m.Type == "1" {
				probed = true
			}
		}
		if probed {
			verdict("C09", mode, "no-probe", "fail: a peer sending every "+period.String()+" was sent a TestRequest", tags...)
		} else if !l.Sess.IsLogged() {
			verdict("C09", mode, "no-probe", "fail: a live peer was logged out / disconnected", tags...)
		} else {
			verdict("C09", mode, "no-probe", "ok", tags...)
		}
	}
}

// C15: Stop with a close timeout: the context ends at the deadline when the peer never answers.
func stopDeadline(role string, d time.Duration) {
	mode := "stop-deadline"
	tags := []string{"role=" + role, "close=" + d.String()}
	l, err := live.Start(live.Config{Role: role, Hb: 30, Buf: 10, CloseTimeout: d, ZeroClose: d == 0})
	if err != nil {
		verdict("C15", mode, "setup", "fail: "+err.Error(), tags...)
		return
	}
	defer l.Shutdown()
	if !l.Logon(30) {
		verdict("C15", mode, "logon", "fail: logon exchange did not complete", tags...)
		return
	}
	t0 := time.Now()
	_ = l.Sess.Stop()
	select {
	case <-l.Sess.Context().Done():
		el := time.Since(t0)
		if el+5*time.Millisecond < d {
			verdict("C15", mode, "deadline", fmt.Sprintf("fail: context cancelled after %s, before the close timeout %s, without an answer", el, d), tags...)
		} else if el > d+time.Duration(slack) {
			verdict("C15", mode, "deadline", fmt.Sprintf("fail: context cancelled only after %s, close timeout %s", el, d), tags...)
		} else {
			verdict("C15", mode, "deadline", "ok", tags...)
		}
	case <-time.After(d + 2*time.Second):
		verdict("C15", mode, "deadline", "fail: context not cancelled "+(d+2*time.Second).String()+" after Stop with a silent peer", tags...)
	}
}

// C10: the messages a session emits from its own timers are stored like any other: a ResendRequest
// for the first of several timer heartbeats gets those very messages back, each under its own number.
func resendTimerHeartbeats(role string) {
	mode := "resend-timer-heartbeats"
	tags := []string{"role=" + role}
	l, err := live.Start(live.Config{Role: role, Hb: 1, Buf: 10})
	if err != nil {
		verdict("C10", mode, "setup", "fail: "+err.Error(), tags...)
		return
	}
	defer l.Shutdown()
	if !l.Logon(1) {
		verdict("C10", mode, "logon", "fail: logon exchange did not complete", tags...)
		return
	}
	// keep the session from probing: the peer sends a heartbeat every 0.5 s; collect three timer heartbeats
	stop := make(chan struct{})
	go func() {
		for {
			select {
			case <-stop:
				return
			case <-time.After(500 * time.Millisecond):
				_ = l.Send(l.PeerMsg("0", ""))
			}
		}
	}()
	var hbs []live.Msg
	deadline := time.Now().Add(5 * time.Second)
	for len(hbs) < 3 && time.Now().Before(deadline) {
		m, ok := l.WaitType("0", time.Until(deadline))
		if !ok {
			break
		}
		if _, has := live.Field(m.Raw, "112"); !has {
			hbs = append(hbs, m)
		}
	}
	close(stop)
	if len(hbs) < 3 {
		verdict("C10", mode, "heartbeats", "skip: fewer than three timer heartbeats within 5 s", tags...)
		return
	}
	first, last := hbs[0].Seq, hbs[1].Seq
	_ = l.Send(l.PeerMsg("2", fmt.Sprintf("7=%d\x0116=%d\x01", first, last)))
	got := map[int][]byte{}
	deadline = time.Now().Add(2 * time.Second)
	for len(got) < last-first+1 && time.Now().Before(deadline) {
		m, ok := l.WaitType("0", time.Until(deadline))
		if !ok {
			break
		}
		if m.Seq >= first && m.Seq <= last && m.At.After(hbs[2].At) {
			got[m.Seq] = m.Raw
		}
	}
	var problems []string
	for _, h := range hbs[:2] {
		r, ok := got[h.Seq]
		if !ok {
			problems = append(problems, fmt.Sprintf("the heartbeat numbered %d was not retransmitted", h.Seq))
			continue
		}
		if string(r) != string(h.Raw) {
			problems = append(problems, fmt.Sprintf("the retransmission under number %d differs from what was sent: %q vs %q", h.Seq, r, h.Raw))
		}
	}
	if len(problems) > 0 {
		verdict("C10", mode, "resend", "fail: "+problems[0], tags...)
	} else {
		verdict("C10", mode, "resend", "ok", tags...)
	}
}

// lateAnswer: the session says Logout (Logout or Stop, close timeout well above the wait) and the
// peer stays silent for longer than the heartbeat interval plus tolerance before it reacts. While a
// session waits for the answer to its own Logout it is not logged on: the peer's late Logout is the
// answer (no second Logout, logout event, context cancelled after Stop), and anything else the
// peer sends does not make it logged on again.
func lateAnswer(role string, variant string) {
	mode := "late-answer-" + variant
	tags := []string{"role=" + role, "n=1"}
	prop := "C15"
	if variant == "logout-then-heartbeat" {
		prop = "C06"
	}
	l, err := live.Start(live.Config{Role: role, Hb: 1, Buf: 10, CloseTimeout: 8 * time.Second})
	if err != nil {
		verdict(prop, mode, "setup", "fail: "+err.Error(), tags...)
		return
	}
	defer l.Shutdown()
	if !l.Logon(1) {
		verdict(prop, mode, "logon", "fail: logon exchange did not complete", tags...)
		return
	}
	t0 := time.Now()
	if variant == "stop-then-logout" {
		_ = l.Sess.Stop()
	} else {
		_ = l.Sess.Logout()
	}
	if _, ok := l.WaitType("5", 2*time.Second); !ok {
		verdict(prop, mode, "own logout", "fail: no Logout was sent", tags...)
		return
	}
	time.Sleep(time.Until(t0.Add(2700 * time.Millisecond))) // silence: more than N + tolerance + a checking period
	before := len(l.Snapshot())
	if variant == "logout-then-heartbeat" {
		_ = l.Send(l.PeerMsg("0", ""))
		time.Sleep(300 * time.Millisecond)
		if l.Sess.IsLogged() {
			verdict("C06", mode, "state", "fail: after its own Logout, 2.7 s of silence and a Heartbeat from the peer the session reports itself logged on, without any Logon", tags...)
		} else {
			verdict("C06", mode, "state", "ok", tags...)
		}
		return
	}
	tAns := time.Now()
	_ = l.Send(l.PeerMsg("5", ""))
	gotEvent := l.WaitEvent("logout", 1500*time.Millisecond)
	cancelled := true
	var cancelAfter time.Duration
	if variant == "stop-then-logout" {
		select {
		case <-l.Sess.Context().Done():
			cancelAfter = time.Since(tAns)
		case <-time.After(1500 * time.Millisecond):
			cancelled = false
		}
	}
	time.Sleep(200 * time.Millisecond)
	second := 0
	for _, m := range l.Snapshot()[before:] {
		if m.Type == "5" {
			second++
		}
	}
	switch {
	case second > 0:
		verdict("C15", mode, "answer", fmt.Sprintf("fail: %d further Logout(s) sent when the peer's answer arrived 2.7 s after the session's own Logout", second), tags...)
	case !gotEvent:
		verdict("C15", mode, "answer", "fail: the logout event was not signalled when the peer's answer arrived 2.7 s after the session's own Logout", tags...)
	case !cancelled:
		verdict("C15", mode, "answer", "fail: the context was not cancelled within 1.5 s of the peer's answer to the Logout sent by Stop (close timeout 8 s)", tags...)
	case cancelAfter > time.Duration(slack):
		verdict("C15", mode, "answer", fmt.Sprintf("fail: the context was cancelled only %s after the peer's answer", cancelAfter), tags...)
	default:
		verdict("C15", mode, "answer", "ok", tags...)
	}
}

// failingStore is the bundled store whose Save can be made to fail (a full disk, a lost database).
type failingStore struct {
	*memory.Storage
	failing int32
}

func (s *failingStore) Save(id fix.StorageID, m simplefixgo.SendingMessage, n int) error {
	if atomic.LoadInt32(&s.failing) == 1 {
		return errors.New("scripted save failure")
	}
	return s.Storage.Save(id, m, n)
}

// C09 when the probe cannot be sent: the message store fails from the logon on, so the TestRequest
// of the first silent period never leaves. The peer is silent all the same: after the second period
// the session disconnects.
func unsendableProbe(role string) {
	mode := "silence-unsendable-probe"
	n := 1
	tags := []string{"role=" + role, "N=1", mode}
	st := &failingStore{Storage: memory.NewStorage()}
	l, err := live.Start(live.Config{Role: role, Hb: n, Buf: 10, Counter: st, Messages: st})
	if err != nil {
		verdict("C09", mode, "setup", "fail: "+err.Error(), tags...)
		return
	}
	defer l.Shutdown()
	if !l.Logon(n) {
		verdict("C09", mode, "logon", "fail: logon exchange did not complete", tags...)
		return
	}
	atomic.StoreInt32(&st.failing, 1)
	t0 := time.Now()
	Tin := 2 * time.Second
	if !l.WaitEvent("disconnect", 2*Tin+Tin/5+2*time.Second) {
		verdict("C09", mode, "disconnect", fmt.Sprintf("fail: no disconnect event %s after the last inbound message although the peer stayed silent (the TestRequest could not be stored, hence not sent)", time.Since(t0).Round(time.Millisecond)), tags...)
		return
	}
	select {
	case <-l.EOF:
		verdict("C09", mode, "closed", "ok", tags...)
	case <-time.After(2 * time.Second):
		verdict("C09", mode, "closed", "fail: the connection was not closed after the disconnect event", tags...)
	}
}

// C14 under back-pressure: the peer reads slowly (1.3 s before every read), the outbound buffer holds
// one message, four TestRequests arrive in a row. Every one of them is answered by its Heartbeat,
// however long the answers have to wait for room.
func testRequestsUnderBackPressure(role string) {
	mode := "testrequest-backpressure"
	tags := []string{"role=" + role, "buf=1", "read-delay=1.3s"}
	l, err := live.Start(live.Config{Role: role, Hb: 30, Buf: 1, WriteTimeout: 10 * time.Second})
	if err != nil {
		verdict("C14", mode, "setup", "fail: "+err.Error(), tags...)
		return
	}
	defer l.Shutdown()
	if !l.Logon(30) {
		verdict("C14", mode, "logon", "fail: logon exchange did not complete", tags...)
		return
	}
	l.SlowReads(1300 * time.Millisecond)
	ids := []string{"bp-1", "bp-2", "bp-3", "bp-4"}
	for _, id := range ids {
		_ = l.Send(l.PeerMsg("1", "112="+id+"\x01"))
	}
	got := map[string]int{}
	deadline := time.Now().Add(12 * time.Second)
	for time.Now().Before(deadline) && len(got) < len(ids) {
		m, ok := l.WaitType("0", time.Until(deadline))
		if !ok {
			break
		}
		if id, _ := live.Field(m.Raw, "112"); id != "" {
			got[id]++
		}
	}
	l.SlowReads(0)
	for _, id := range ids {
		if got[id] != 1 {
			verdict("C14", mode, "answers", fmt.Sprintf("fail: TestRequest %s was answered by %d Heartbeat(s) while the peer read slowly and the outbound buffer (1) was full: %v", id, got[id], got), tags...)
			return
		}
	}
	verdict("C14", mode, "answers", "ok", tags...)
}

// C14 through a real connection: a TestRequest whose TestReqID is longer than any buffer on the
// way (4 KiB, 64 KiB) is answered by one Heartbeat echoing it, byte for byte.
func longTestRequest(role string, size int) {
	mode := "testrequest-long"
	tags := []string{"role=" + role, fmt.Sprintf("id-bytes=%d", size)}
	l, err := live.Start(live.Config{Role: role, Hb: 30, Buf: 10})
	if err != nil {
		verdict("C14", mode, "setup", "fail: "+err.Error(), tags...)
		return
	}
	defer l.Shutdown()
	if !l.Logon(30) {
		verdict("C14", mode, "logon", "fail: logon exchange did not complete", tags...)
		return
	}
	id := make([]byte, size)
	for i := range id {
		id[i] = "abcdefghijklmnopqrstuvwxyz0123456789"[(i*7+size)%36]
	}
	_ = l.Send(l.PeerMsg("1", "112="+string(id)+"\x01"))
	hb, ok := l.WaitType("0", 3*time.Second)
	switch {
	case !ok:
		verdict("C14", mode, "answer", fmt.Sprintf("fail: a TestRequest with a TestReqID of %d bytes was not answered by a Heartbeat within 3 s", size), tags...)
	default:
		if got, _ := live.Field(hb.Raw, "112"); got != string(id) {
			verdict("C14", mode, "answer", fmt.Sprintf("fail: the Heartbeat echoes %d bytes, the TestReqID had %d", len(got), size), tags...)
		} else {
			verdict("C14", mode, "answer", "ok", tags...)
		}
	}
}

func main() {
	tier := flag.String("tier", "quick", "quick|thorough")
	outPath := flag.String("out", "-", "output")
	_ = flag.Uint64("seed", 1, "seed (the scenarios are deterministic scripts)")
	_ = flag.Int("n", 0, "unused")
	flag.Parse()
	var wg sync.WaitGroup
	run := func(f func()) {
		wg.Add(1)
		go func() { defer wg.Done(); f() }()
	}
	for _, T := range []time.Duration{20 * time.Millisecond, 50 * time.Millisecond, 200 * time.Millisecond} {
		for _, p := range []string{"idle", "before", "burst", "after"} {
			T, p := T, p
			reps := 3
			if *tier == "thorough" {
				reps = 30
			}
			for i := 0; i < reps; i++ {
				run(func() { timerDirect(T, p) })
			}
		}
	}
	ns := []int{1}
	if *tier == "thorough" {
		ns = []int{1, 2, 3}
	}
	for _, n := range ns {
		for _, role := range []string{"A", "I"} {
			n, role := n, role
			for _, p := range []string{"idle", "just-before", "just-after", "burst", "testrequest-mid", "resend-mid"} {
				p := p
				run(func() { heartbeatScenario(role, n, p) })
			}
			for _, p := range []string{"total", "answer-heartbeat", "answer-other", "answer-testrequest", "answer-seqreset", "answer-resend", "answer-logout", "steady-1.0", "steady-0.9", "steady-0.5", "steady-mixed"} {
				p := p
				run(func() { silenceScenario(role, n, p) })
			}
			if role == "A" {
				run(func() { heartbeatScenario(role, n, "relogon-testrequest-mid") })
				run(func() { heartbeatScenario(role, n, "relogon-idle") })
				run(func() { silenceScenario(role, n, "relogon-steady-0.9") })
				run(func() { silenceScenario(role, n, "relogon-total") })
			}
		}
	}
	// intervals above 20 s, where the tolerance n/20 starts to matter (integer division)
	run(func() { silenceScenario("A", 21, "probe-only") })
	if *tier == "thorough" {
		run(func() { silenceScenario("I", 40, "probe-only") })
		run(func() { silenceScenario("A", 39, "probe-only") })
	}
	for _, role := range []string{"A", "I"} {
		role := role
		for _, v := range []string{"stop-then-logout", "logout-then-logout", "logout-then-heartbeat"} {
			v := v
			run(func() { lateAnswer(role, v) })
		}
	}
	for _, sz := range []int{4092, 9000, 70000} {
		sz := sz
		run(func() { longTestRequest("A", sz) })
		run(func() { longTestRequest("I", sz) })
	}
	run(func() { testRequestsUnderBackPressure("A") })
	run(func() { testRequestsUnderBackPressure("I") })
	run(func() { unsendableProbe("A") })
	run(func() { unsendableProbe("I") })
	run(func() { resendTimerHeartbeats("A") })
	run(func() { resendTimerHeartbeats("I") })
	for _, d := range []time.Duration{0, 50 * time.Millisecond, 500 * time.Millisecond} {
		d := d
		run(func() { stopDeadline("A", d) })
		run(func() { stopDeadline("I", d) })
	}
	wg.Wait()
	var out *bufio.Writer
	if *outPath == "-" {
		out = bufio.NewWriter(os.Stdout)
	} else {
		f, err := os.Create(*outPath)
		if err != nil {
			panic(err)
		}
		defer f.Close()
		out = bufio.NewWriter(f)
	}
	defer out.Flush()
	for i, r := range recs {
		r.ID = i
		b, _ := json.Marshal(r)
		out.Write(b)
		out.WriteByte('\n')
	}
}
