package main

import (
	"bytes"
	"fmt"
	"strconv"
	"time"

	"github.com/b2broker/simplefix-go/fix"
	"github.com/b2broker/simplefix-go/fix/encoding"

	"verifharness/internal/desc"
	"verifharness/internal/gen"
	"verifharness/internal/rng"
)

// withWatchdog runs f; if it does not return within d the process reports a hang and exits.
func withWatchdog(d time.Duration, what func() string, f func()) {
	done := make(chan struct{})
	go func() {
		defer close(done)
		f()
	}()
	select {
	case <-done:
	case <-time.After(d):
		emit(&Rec{Mode: "hang", Case: what(), Impl: "TIMEOUT", Oracle: map[string]string{"C11": "fail: decoder did not return within " + d.String()}})
		out.Flush()
		panic("hang")
	}
}

// frame wraps a body (which must end with SOH or be empty) into an integrity-passing message.
func frame(bsTag, blTag, csTag, bs string, body []byte) []byte {
	head := []byte(bsTag + "=" + bs + "\x01" + blTag + "=" + strconv.Itoa(len(body)) + "\x01")
	pre := append(head, body...)
	sum := 0
	for _, c := range pre {
		sum += int(c)
	}
	return append(pre, []byte(fmt.Sprintf("%s=%03d\x01", csTag, sum%256))...)
}

// collectTags lists (tag, kind) of the template: 'K' plain, 'G' count tag, 'F' first member of a group.
func collectTags(items []*desc.Item, first bool, acc *[][2]string) {
	for i, it := range items {
		switch it.Kind {
		case 'K':
			k := "K"
			if first && i == 0 {
				k = "F"
			}
			*acc = append(*acc, [2]string{it.Tag, k})
		case 'C':
			collectTags(it.Items, false, acc)
		case 'G':
			*acc = append(*acc, [2]string{it.Tag, "G"})
			collectTags(it.Tpl, true, acc)
		}
	}
}

func hostileBody(r *rng.R, m *desc.Msg) []byte {
	var tags [][2]string
	collectTags(m.Header, false, &tags)
	collectTags(m.Body, false, &tags)
	collectTags(m.Trailer, false, &tags)
	var segs [][]byte
	n := r.Range(0, 8)
	segs = append(segs, []byte(m.MtTag+"="+m.Mt))
	for i := 0; i < n; i++ {
		var tag string
		if len(tags) > 0 && r.Chance(4, 5) {
			tag = tags[r.Intn(len(tags))][0]
		} else {
			tag = strconv.Itoa(r.Range(1, 999))
		}
		var seg []byte
		switch r.Intn(12) {
		case 0:
			seg = []byte(tag) // no '='
		case 1:
			seg = []byte(tag + "=") // empty value
		case 2:
			seg = []byte{} // repeated delimiter
		case 3:
			seg = []byte("=" + tag)
		case 4:
			seg = []byte(tag + "=" + strconv.Itoa(r.Range(-2, 5))) // plausible count
		case 5:
			seg = []byte(tag + "=" + strconv.Itoa(r.Range(0, 3)) + "=")
		case 6:
			seg = append([]byte(tag+"="), byte(r.Intn(256)))
		default:
			v := []byte(strconv.Itoa(r.Range(0, 99)))
			if r.Bool() {
				v = []byte{byte(r.Range(32, 126)), byte(r.Range(32, 126))}
			}
			seg = append([]byte(tag+"="), v...)
		}
		segs = append(segs, seg)
	}
	if r.Chance(1, 6) {
		segs = segs[1:] // drop MsgType
	}
	body := bytes.Join(segs, []byte{1})
	if len(segs) > 0 {
		body = append(body, 1)
	}
	// the delimiter byte inside values is legal here: the decoder must not crash whatever it sees
	return body
}

func randomBytes(r *rng.R, m *desc.Msg) []byte {
	n := r.Range(0, 40)
	if r.Chance(1, 8) {
		n = r.Range(40, 200)
	}
	alpha := []byte{1, 1, '=', '=', '0', '1', '2', '8', '9', '3', '5', 'A', 0, 255}
	var tags [][2]string
	collectTags(m.Header, false, &tags)
	collectTags(m.Body, false, &tags)
	var b []byte
	for len(b) < n {
		switch r.Intn(6) {
		case 0:
			if len(tags) > 0 {
				b = append(b, tags[r.Intn(len(tags))][0]...)
			}
		case 1:
			b = append(b, byte(r.Intn(256)))
		case 2:
			b = append(b, []byte(m.BsTag+"=")...)
		default:
			b = append(b, alpha[r.Intn(len(alpha))])
		}
	}
	return b
}

// mutateValid damages a valid message structurally (fields dropped, duplicated, counts changed,
// cut at a group boundary) and re-frames it so that it passes the integrity check.
func mutateValid(r *rng.R, m *desc.Msg, b []byte) []byte {
	fs, ok := splitFields(b)
	if !ok || len(fs) < 4 {
		return b
	}
	segs := [][]byte{}
	for _, f := range fs[2 : len(fs)-1] { // from MsgType to the field before CheckSum
		segs = append(segs, append(append(append([]byte{}, f.tag...), '='), f.val...))
	}
	k := r.Range(1, 3)
	for j := 0; j < k && len(segs) > 0; j++ {
		i := r.Intn(len(segs))
		switch r.Intn(8) {
		case 0: // drop
			segs = append(segs[:i], segs[i+1:]...)
		case 1: // duplicate
			segs = append(segs[:i+1], segs[i:]...)
		case 2: // cut here
			segs = segs[:i]
		case 3: // strip value
			if e := bytes.IndexByte(segs[i], '='); e >= 0 {
				segs[i] = segs[i][:e+1]
			}
		case 4: // strip '='
			if e := bytes.IndexByte(segs[i], '='); e >= 0 {
				segs[i] = segs[i][:e]
			}
		case 5: // change a number
			if e := bytes.IndexByte(segs[i], '='); e >= 0 {
				segs[i] = append(segs[i][:e+1:e+1], []byte(strconv.Itoa(r.Range(-1, 6)))...)
			}
		case 6: // swap with neighbour
			if i+1 < len(segs) {
				segs[i], segs[i+1] = segs[i+1], segs[i]
			}
		case 7: // empty segment
			segs[i] = []byte{}
		}
	}
	body := bytes.Join(segs, []byte{1})
	if len(segs) > 0 {
		body = append(body, 1)
	}
	return frame(m.BsTag, m.BlTag, m.CsTag, m.Bs, body)
}

func runDecode(id int, tm *desc.Msg, data []byte, tag string) {
	rec := &Rec{ID: id, Mode: "decode", Oracle: map[string]string{}, Tags: []string{tag, sizeTag(len(data))}, Size: len(data)}
	rec.Case = "UNMARSHAL " + oracleTable(needOracle(tm), data) + " " + tm.Enc() + " " + desc.Hex(data)
	var impl string
	var agree bool
	withWatchdog(5*time.Second, func() string { return rec.Case }, func() {
		impl, _, agree = unmarshalCase(tm, data)
	})
	rec.Impl = impl
	switch {
	case impl == "PANIC":
		rec.Oracle["C11"] = "fail: the decoder panicked"
	case !agree:
		rec.Oracle["C11"] = "fail: strict and non-strict modes disagree"
	default:
		rec.Oracle["C11"] = "ok"
	}
	rec.Tags = append(rec.Tags, "result="+impl[:min(len(impl), 3)])
	emit(rec)
}

func min(a, b int) int {
	if a < b {
		return a
	}
	return b
}

func runValByTag(id int, data []byte, tag string, label string) {
	rec := &Rec{ID: id, Mode: "valbytag", Oracle: map[string]string{}, Tags: []string{label}, Size: len(data)}
	rec.Case = "VALBYTAG " + desc.Hex(data) + " " + desc.Hex([]byte(tag))
	var v []byte
	var err error
	p := ""
	withWatchdog(5*time.Second, func() string { return rec.Case }, func() {
		p = guarded(func() { v, err = fix.ValueByTag(data, tag) })
	})
	switch {
	case p != "":
		rec.Impl = "PANIC"
		rec.Oracle["C11"] = "fail: ValueByTag panicked: " + p
	case err != nil:
		rec.Impl = "ERR"
		rec.Oracle["C11"] = "ok"
	default:
		rec.Impl = "OK " + desc.Hex(v)
		rec.Oracle["C11"] = "ok"
	}
	emit(rec)
}

// findNested looks for a group with two or more entries whose first entry contains a group with
// at least one entry; it returns the outer group's first member tag and the inner count tag.
func findNested(items []*desc.Item) (outerFirst, innerCount string, ok bool) {
	for _, it := range items {
		switch it.Kind {
		case 'C':
			if a, b, ok := findNested(it.Items); ok {
				return a, b, true
			}
		case 'G':
			if len(it.Entries) >= 2 && len(it.Tpl) > 0 && it.Tpl[0].Kind == 'K' {
				var inner func(es []*desc.Item) string
				inner = func(es []*desc.Item) string {
					for _, x := range es {
						if x.Kind == 'G' && len(x.Entries) >= 1 {
							return x.Tag
						}
						if x.Kind == 'C' {
							if t := inner(x.Items); t != "" {
								return t
							}
						}
					}
					return ""
				}
				if t := inner(it.Entries[0]); t != "" {
					return it.Tpl[0].Tag, t, true
				}
			}
			for _, e := range it.Entries {
				if a, b, ok := findNested(e); ok {
					return a, b, true
				}
			}
		}
	}
	return "", "", false
}

// nestedCountCut damages what follows the count field of a group nested inside a non-last entry:
// up to the start of the next outer entry the segments lose their '=' (or are replaced by junk or
// by empty segments), so that the nested group's count field is followed by no field at all inside
// its entry chunk. The message is re-framed and passes the integrity check.
func nestedCountCut(r *rng.R, m *desc.Msg, b []byte) ([]byte, bool) {
	outerFirst, innerCount, ok := findNested(m.Body)
	if !ok {
		return nil, false
	}
	fs, ok := splitFields(b)
	if !ok || len(fs) < 4 {
		return nil, false
	}
	var segs [][]byte
	for _, f := range fs[2 : len(fs)-1] {
		segs = append(segs, append(append(append([]byte{}, f.tag...), '='), f.val...))
	}
	i := -1
	for k, sg := range segs {
		if bytes.HasPrefix(sg, []byte(innerCount+"=")) {
			i = k
			break
		}
	}
	if i < 0 {
		return nil, false
	}
	j := len(segs)
	for k := i + 1; k < len(segs); k++ {
		if bytes.HasPrefix(segs[k], []byte(outerFirst+"=")) {
			j = k
			break
		}
	}
	if j == len(segs) {
		return nil, false // the nested group sits in the last outer entry
	}
	var mid [][]byte
	switch r.Intn(4) {
	case 0: // the following segments lose their '='
		for _, sg := range segs[i+1 : j] {
			mid = append(mid, bytes.ReplaceAll(sg, []byte("="), nil))
		}
	case 1: // replaced by one junk segment
		mid = [][]byte{[]byte("junk")}
	case 2: // replaced by an empty segment: doubled delimiter
		mid = [][]byte{{}}
	case 3: // nothing follows the count inside the entry
	}
	out := append(append(append([][]byte{}, segs[:i+1]...), mid...), segs[j:]...)
	body := append(bytes.Join(out, []byte{1}), 1)
	return frame(m.BsTag, m.BlTag, m.CsTag, m.Bs, body), true
}

func modeDecode(root *rng.R, n int) {
	for i := 0; i < n; i++ {
		r := root.Fork()
		o := gen.DefaultOpts()
		o.FixedFraming = r.Chance(2, 3)
		o.MaxDepth = r.Range(1, 4)
		g := gen.New(r, o)
		m := g.Message()
		tm := m.TemplateMsg()
		switch i % 5 {
		case 0:
			if i%10 == 0 {
				// a valid message cut at a boundary of its own structure: right behind a delimiter, right
				// behind a tag's '=', right before the closing delimiter; the trailer's boundaries most often
				if b, err := m.Build().ToBytes(); err == nil && len(b) > 8 {
					var cuts []int
					for k, c := range b {
						if c == 1 || c == '=' {
							cuts = append(cuts, k, k+1)
						}
					}
					cut := cuts[r.Intn(len(cuts))]
					if r.Bool() && len(cuts) > 6 {
						cut = cuts[len(cuts)-1-r.Intn(6)]
					}
					runDecode(i, tm, b[:cut], "truncated-at-boundary")
					break
				}
			}
			runDecode(i, tm, randomBytes(r, m), "random-bytes")
		case 1, 2:
			runDecode(i, tm, frame(m.BsTag, m.BlTag, m.CsTag, m.Bs, hostileBody(r, m)), "framed-hostile")
		case 3:
			b, _ := m.Build().ToBytes()
			if i%2 == 1 {
				if d, ok := nestedCountCut(r, m, b); ok {
					runDecode(i, tm, d, "nested-count-cut")
					break
				}
			}
			runDecode(i, tm, mutateValid(r, m, b), "mutated-valid")
		case 4:
			data := randomBytes(r, m)
			if r.Bool() {
				data, _ = m.Build().ToBytes()
				if r.Bool() && len(data) > 0 {
					data = data[:r.Intn(len(data))]
				}
			}
			var tags [][2]string
			collectTags(m.Header, false, &tags)
			collectTags(m.Body, false, &tags)
			tag := m.MtTag
			if len(tags) > 0 && r.Chance(2, 3) {
				tag = tags[r.Intn(len(tags))][0]
			}
			switch r.Intn(6) {
			case 0:
				tag = ""
			case 1:
				tag = tag + "0"
			case 2:
				if len(tag) > 1 {
					tag = tag[1:]
				}
			}
			runValByTag(i, data, tag, "valbytag")
		}
	}
	// fixed corner cases, always
	id := n
	tm := &desc.Msg{BsTag: "8", BlTag: "9", CsTag: "10", MtTag: "35", Bs: "FIX.4.4", Mt: "V",
		Body: []*desc.Item{{Kind: 'G', Tag: "146", Tpl: []*desc.Item{{Kind: 'K', Tag: "55", V: gen.Empty('S')}}}}}
	for _, d := range [][]byte{{}, {1}, {'8'}, []byte("8="), []byte("8=\x01"), []byte("146=1"), []byte("146=1\x01"),
		[]byte("146=1\x0155"), frame("8", "9", "10", "FIX.4.4", []byte("35=V\x01146=1\x01")),
		frame("8", "9", "10", "FIX.4.4", []byte("35=V\x01146=1\x0155\x01")),
		frame("8", "9", "10", "FIX.4.4", []byte("35=V\x01146=2\x0155=a\x01")),
		frame("8", "9", "10", "FIX.4.4", []byte("35=V\x01146\x01")),
		frame("8", "9", "10", "FIX.4.4", []byte("146=1\x01")),
		frame("8", "9", "10", "FIX.4.4", []byte{})} {
		runDecode(id, tm, d, "corner")
		id++
	}
	for _, c := range [][2]string{{"", "8"}, {"8", "8"}, {"8=", "8"}, {"89=FIX\x01", "8"}, {"8=FIX", "8"}, {"\x018=FIX", "8"}, {"35=A\x0135=B\x01", "35"}, {"x", ""}} {
		runValByTag(id, []byte(c[0]), c[1], "corner")
		id++
	}
}

// ---------- C03: exhaustive damage neighbourhood ----------

func accepted(tm *desc.Msg, data []byte) (string, bool) {
	var e1, e2 error
	p1 := guarded(func() { e1 = encoding.Unmarshal(tm.Build(), data) })
	p2 := guarded(func() { e2 = encoding.NewDefaultUnmarshaller(false).Unmarshal(tm.Build(), data) })
	if p1 != "" || p2 != "" {
		return "PANIC", false
	}
	if e1 == nil || e2 == nil {
		return "OK", true
	}
	// the decoder configured by hand, without a Validator: the integrity check does not depend on it
	// (a panic on the missing Validator comes after the check and is not an acceptance)
	for _, strict := range []bool{true, false} {
		var e3 error
		if p3 := guarded(func() { e3 = encoding.DefaultUnmarshaller{Strict: strict}.Unmarshal(tm.Build(), data) }); p3 == "" && e3 == nil {
			return "OK", true
		}
	}
	return "ERR", false
}

func modeDamage(root *rng.R, n int) {
	id := 0
	for i := 0; i < n; i++ {
		r := root.Fork()
		o := gen.DefaultOpts()
		o.MaxDepth = r.Range(1, 3)
		o.MaxWidth = 3
		o.MaxEntries = 2
		o.FixedFraming = r.Chance(3, 4)
		g := gen.New(r, o)
		m := g.Message()
		if i%7 == 3 {
			m.Bs = "FIX\x00.4\x00\x00.4" // NUL bytes in the BeginString value
		}
		w, err := m.Build().ToBytes()
		if err != nil {
			continue
		}
		tm := m.TemplateMsg()
		if s, ok := accepted(tm, w); !ok {
			emit(&Rec{ID: id, Mode: "damage", Case: "UNMARSHAL O 0 " + tm.Enc() + " " + desc.Hex(w), Impl: s, Skip: true,
				Oracle: map[string]string{"C03": "skip: the undamaged message is not accepted (" + s + "); C02's concern"}})
			id++
			continue
		}
		total, acc := 0, 0
		var firstAcc []byte
		var firstKind string
		variants := func(kind string, v []byte) {
			total++
			if _, ok := accepted(tm, v); ok {
				acc++
				if firstAcc == nil {
					firstAcc = append([]byte{}, v...)
					firstKind = kind
				}
			}
		}
		buf := make([]byte, 0, len(w)+1)
		for p := 0; p < len(w); p++ { // substitutions
			for c := 0; c < 256; c++ {
				if byte(c) == w[p] {
					continue
				}
				buf = append(buf[:0], w...)
				buf[p] = byte(c)
				variants("substitute", buf)
			}
		}
		for p := 1; p < len(w); p++ { // interior insertions
			for c := 0; c < 256; c++ {
				buf = append(buf[:0], w[:p]...)
				buf = append(buf, byte(c))
				buf = append(buf, w[p:]...)
				variants("insert", buf)
			}
		}
		for p := 0; p < len(w); p++ { // deletions
			buf = append(buf[:0], w[:p]...)
			buf = append(buf, w[p+1:]...)
			variants("delete", buf)
		}
		for k := 0; k < len(w); k++ { // proper prefixes
			variants("prefix", w[:k])
		}
		sum := &Rec{ID: id, Mode: "damage", Skip: true, Size: len(w),
			Case: "UNMARSHAL " + oracleTable(needOracle(m), w) + " " + tm.Enc() + " " + desc.Hex(w),
			Impl: fmt.Sprintf("neighbourhood=%d accepted=%d", total, acc), Oracle: map[string]string{},
			Tags: []string{sizeTag(len(w)), fmt.Sprintf("variants=%d", total)}}
		if acc > 0 {
			sum.Oracle["C03"] = fmt.Sprintf("fail: %d damaged variants accepted; first (%s): %s", acc, firstKind, desc.Hex(firstAcc))
		} else {
			sum.Oracle["C03"] = "ok"
		}
		emit(sum)
		id++
		// stratified sample for the model: all positions, a few byte values, plus the original
		sample := [][]byte{w}
		if firstAcc != nil {
			sample = append(sample, firstAcc)
		}
		vals := []byte{0, 1, '=', '0', '9', 0xff, byte(r.Intn(256))}
		for p := 0; p < len(w); p++ {
			c := vals[(p+i)%len(vals)]
			if c != w[p] {
				b := append([]byte{}, w...)
				b[p] = c
				sample = append(sample, b)
			}
			if p > 0 && p%3 == i%3 {
				b := append(append(append([]byte{}, w[:p]...), vals[(p+1)%len(vals)]), w[p:]...)
				sample = append(sample, b)
			}
			if p%2 == i%2 {
				sample = append(sample, append(append([]byte{}, w[:p]...), w[p+1:]...))
			}
			if p%4 == i%4 {
				sample = append(sample, w[:p])
			}
		}
		want := "-"
		if m.Bs != "" {
			want = desc.Hex([]byte(m.Bs))
		}
		for _, v := range sample {
			rec := &Rec{ID: id, Mode: "validate", Oracle: map[string]string{}, Size: len(v)}
			rec.Case = "VALIDATE " + desc.Hex([]byte(m.BsTag)) + " " + desc.Hex([]byte(m.BlTag)) + " " + desc.Hex([]byte(m.CsTag)) + " " + want + " " + desc.Hex(v)
			var err error
			p := guarded(func() { err = encoding.VerifValidateRaw(tm.Build(), v, true) })
			switch {
			case p != "":
				rec.Impl = "PANIC"
			case err != nil:
				rec.Impl = "ERR"
			default:
				rec.Impl = "OK"
			}
			emit(rec)
			id++
		}
	}
}

// ---------- C18: lookups against the boundary-anchored specification ----------

// specLookup is the exact-tag, boundary-anchored specification: the value of the first field
// (at the start of the message or after a delimiter) whose whole tag is t.
func specLookup(b []byte, t string) ([]byte, bool) {
	for _, seg := range bytes.Split(b, []byte{1}) {
		if bytes.HasPrefix(seg, []byte(t+"=")) {
			return seg[len(t)+1:], true
		}
	}
	return nil, false
}

func modeLookup(root *rng.R, n int) {
	id := 0
	for i := 0; i < n; i++ {
		r := root.Fork()
		o := gen.DefaultOpts()
		o.FixedFraming = true
		o.MaxDepth = r.Range(1, 4)
		o.PopulateProb = []int{30, 60, 90}[r.Intn(3)]
		g := gen.New(r, o)
		m := g.Message()
		runRoundTrip(id, m, "decoys")
		id++
		b, err := m.Build().ToBytes()
		if err != nil {
			continue
		}
		// every template tag, plus look-alikes of it, looked up on the raw bytes
		var tags [][2]string
		collectTags(m.Header, false, &tags)
		collectTags(m.Body, false, &tags)
		collectTags(m.Trailer, false, &tags)
		tags = append(tags, [2]string{"8", "BS"}, [2]string{"9", "BL"}, [2]string{"35", "MT"}, [2]string{"10", "CS"}, [2]string{"34", "SEQ"})
		for _, tk := range tags {
			cands := []string{tk[0]}
			if len(tk[0]) > 1 {
				cands = append(cands, tk[0][1:], tk[0][:len(tk[0])-1])
			}
			cands = append(cands, "1"+tk[0], tk[0]+"0")
			for _, t := range cands {
				rec := &Rec{ID: id, Mode: "valbytag", Oracle: map[string]string{}, Tags: []string{"lookup-" + tk[1]}, Size: len(b)}
				rec.Case = "VALBYTAG " + desc.Hex(b) + " " + desc.Hex([]byte(t))
				var v []byte
				var e error
				p := guarded(func() { v, e = fix.ValueByTag(b, t) })
				want, found := specLookup(b, t)
				switch {
				case p != "":
					rec.Impl = "PANIC"
					rec.Oracle["C18"] = "fail: panic " + p
				case e != nil:
					rec.Impl = "ERR"
					if found {
						rec.Oracle["C18"] = fmt.Sprintf("fail: tag %s not found although a field %s=%q exists", t, t, want)
					} else {
						rec.Oracle["C18"] = "ok"
					}
				default:
					rec.Impl = "OK " + desc.Hex(v)
					if !found {
						rec.Oracle["C18"] = fmt.Sprintf("fail: lookup of tag %s returned %q but no field has that tag", t, v)
					} else if !bytes.Equal(v, want) {
						rec.Oracle["C18"] = fmt.Sprintf("fail: lookup of tag %s returned %q, the field holds %q", t, v, want)
					} else {
						rec.Oracle["C18"] = "ok"
					}
				}
				emit(rec)
				id++
			}
		}
	}
}
