package main

import "verifharness/internal/rng"

func modeDecode(root *rng.R, n int) {}
func modeDamage(root *rng.R, n int) {}
func modeLookup(root *rng.R, n int) {}
