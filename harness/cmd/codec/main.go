// codec: correspondence and oracle driver for the codec properties
// (C01, C17, C02, C18, C03, C11).  It generates cases from one seed, runs
// the implementation built from /repo on each, evaluates the property
// oracles on the implementation's output alone, and writes one JSON line
// per case: the protocol line the model must be run on, the
// implementation's answer in the same protocol, the oracle verdicts.
package main

import (
	"bufio"
	"bytes"
	"encoding/json"
	"flag"
	"fmt"
	"os"
	"strconv"
	"strings"
	"time"

	"github.com/b2broker/simplefix-go/fix"
	"github.com/b2broker/simplefix-go/fix/encoding"

	"verifharness/internal/desc"
	"verifharness/internal/gen"
	"verifharness/internal/rng"
)

type Rec struct {
	ID     int               `json:"id"`
	Mode   string            `json:"mode"`
	Case   string            `json:"case"`           // protocol line for the model
	Impl   string            `json:"impl"`           // implementation's answer, same protocol
	Oracle map[string]string `json:"oracle"`         // property id -> "ok" | "fail: ..." | "known: ..."
	Tags   []string          `json:"tags,omitempty"` // distribution labels
	Size   int               `json:"size"`
	Skip   bool              `json:"skip,omitempty"` // do not compare with the model (impl-only case)
}

var out *bufio.Writer

func emit(r *Rec) {
	b, _ := json.Marshal(r)
	out.Write(b)
	out.WriteByte('\n')
}

// guarded runs f and reports a panic as a string.
func guarded(f func()) (p string) {
	defer func() {
		if r := recover(); r != nil {
			p = fmt.Sprint(r)
		}
	}()
	f()
	return ""
}

// ---------- independent tokenizer / oracles ----------

type field struct{ tag, val []byte }

// splitFields tokenizes wire bytes into tag=value fields on SOH, independently of the library.
func splitFields(b []byte) (fs []field, ok bool) {
	if len(b) == 0 || b[len(b)-1] != 1 {
		return nil, false
	}
	for _, seg := range bytes.Split(b[:len(b)-1], []byte{1}) {
		i := bytes.IndexByte(seg, '=')
		if i < 0 {
			return fs, false
		}
		fs = append(fs, field{seg[:i], seg[i+1:]})
	}
	return fs, true
}

// oracleC01 recomputes BodyLength and CheckSum from the emitted bytes alone.
func oracleC01(m *desc.Msg, b []byte) string {
	segs := bytes.Split(b, []byte{1})
	if len(segs) < 5 || len(segs[len(segs)-1]) != 0 {
		return "fail: not SOH-terminated or fewer than four fields"
	}
	segs = segs[:len(segs)-1]
	if !bytes.Equal(segs[0], []byte(m.BsTag+"="+m.Bs)) {
		return "fail: first field is not BeginString"
	}
	if !bytes.HasPrefix(segs[1], []byte(m.BlTag+"=")) {
		return "fail: second field is not BodyLength"
	}
	if !bytes.Equal(segs[2], []byte(m.MtTag+"="+m.Mt)) {
		return "fail: third field is not MsgType"
	}
	last := segs[len(segs)-1]
	if !bytes.HasPrefix(last, []byte(m.CsTag+"=")) {
		return "fail: last field is not CheckSum"
	}
	bodyStart := len(segs[0]) + 1 + len(segs[1]) + 1
	csStart := len(b) - len(last) - 1
	want := csStart - bodyStart
	got := string(segs[1][len(m.BlTag)+1:])
	if got != strconv.Itoa(want) {
		return fmt.Sprintf("fail: BodyLength %s, measured %d", got, want)
	}
	sum := 0
	for _, c := range b[:csStart] {
		sum += int(c)
	}
	wantCs := fmt.Sprintf("%03d", sum%256)
	if string(last[len(m.CsTag)+1:]) != wantCs {
		return fmt.Sprintf("fail: CheckSum %s, recomputed %s", last[len(m.CsTag)+1:], wantCs)
	}
	return "ok"
}

// canon is the canonical text of a described populated value (independent of the library types).
func canon(v *desc.Val) []byte {
	switch v.Kind {
	case 'S', 'R':
		return v.S
	case 'I':
		return []byte(strconv.FormatInt(v.I, 10))
	case 'U':
		return []byte(strconv.FormatUint(v.U, 10))
	case 'F':
		return []byte(strconv.FormatFloat(v.F, 'f', -1, 64))
	case 'T':
		return []byte(fmt.Sprintf("%04d%02d%02d-%02d:%02d:%02d.%03d", v.Tm.Year(), int(v.Tm.Month()), v.Tm.Day(),
			v.Tm.Hour(), v.Tm.Minute(), v.Tm.Second(), v.Tm.Nanosecond()/1000000))
	case 'B':
		if v.B {
			return []byte("Y")
		}
		return []byte("N")
	}
	return nil
}

// leaves lists the populated leaves of a described item list in template order.
// emptyEntry is set when some group entry has no populated leaf.
func leaves(items []*desc.Item, acc *[]field, emptyEntry *bool, emptyVal *bool) {
	for _, it := range items {
		switch it.Kind {
		case 'K':
			if it.V.Valid && !(it.V.Kind == 'R' && it.V.Nil) {
				c := canon(it.V)
				if len(c) == 0 {
					*emptyVal = true
					if it.V.Kind == 'S' {
						continue
					}
				}
				*acc = append(*acc, field{[]byte(it.Tag), c})
			}
		case 'C':
			leaves(it.Items, acc, emptyEntry, emptyVal)
		case 'G':
			if len(it.Entries) > 0 {
				*acc = append(*acc, field{[]byte(it.Tag), []byte(strconv.Itoa(len(it.Entries)))})
				for _, e := range it.Entries {
					before := len(*acc)
					leaves(e, acc, emptyEntry, emptyVal)
					if len(*acc) == before {
						*emptyEntry = true
					}
				}
			}
		}
	}
}

// oracleC17: the fields on the wire are exactly the populated leaves, in order.
func oracleC17(m *desc.Msg, b []byte) string {
	var want []field
	var emptyEntry, emptyVal bool
	leaves(m.Header, &want, &emptyEntry, &emptyVal)
	leaves(m.Body, &want, &emptyEntry, &emptyVal)
	var tr []*desc.Item
	for _, it := range m.Trailer {
		if it.Kind == 'K' && it.Tag == m.CsTag {
			continue
		}
		tr = append(tr, it)
	}
	leaves(tr, &want, &emptyEntry, &emptyVal)
	if emptyEntry {
		return "skip: a group entry with no populated member (outside the quantifier: not a FIX entry)"
	}
	if emptyVal {
		return "skip: an empty value (outside the quantifier)"
	}
	fs, ok := splitFields(b)
	if !ok || len(fs) < 4 {
		return "fail: output does not tokenize into tag=value fields"
	}
	got := fs[3 : len(fs)-1]
	if len(got) != len(want) {
		return fmt.Sprintf("fail: %d fields on the wire, %d populated leaves", len(got), len(want))
	}
	for i := range want {
		if !bytes.Equal(got[i].tag, want[i].tag) || !bytes.Equal(got[i].val, want[i].val) {
			return fmt.Sprintf("fail: field %d is %s=%q, expected %s=%q", i, got[i].tag, got[i].val, want[i].tag, want[i].val)
		}
	}
	return "ok"
}

// ---------- oracle table for ParseFloat / time.Parse ----------

func hasKind(items []*desc.Item, k1, k2 byte) bool {
	for _, it := range items {
		switch it.Kind {
		case 'K':
			if it.V.Kind == k1 || it.V.Kind == k2 {
				return true
			}
		case 'C':
			if hasKind(it.Items, k1, k2) {
				return true
			}
		case 'G':
			if hasKind(it.Tpl, k1, k2) {
				return true
			}
		}
	}
	return false
}

// oracleTable renders "O n (text fok tcanon)*" for every value the decoder could consult in data.
func oracleTable(need bool, data []byte) string {
	if !need {
		return "O 0"
	}
	seen := map[string]bool{}
	var sb strings.Builder
	n := 0
	for i := 0; i < len(data); i++ {
		if data[i] != '=' {
			continue
		}
		rest := data[i+1:]
		if j := bytes.IndexByte(rest, 1); j >= 0 {
			rest = rest[:j]
		}
		k := string(rest)
		if seen[k] {
			continue
		}
		seen[k] = true
		_, ferr := strconv.ParseFloat(k, 64)
		tv, terr := time.Parse(fix.TimeLayout, k)
		if ferr != nil && terr != nil {
			continue
		}
		tc := "-"
		if terr == nil {
			tc = desc.Hex([]byte(tv.Format(fix.TimeLayout)))
		}
		f := "0"
		if ferr == nil {
			f = "1"
		}
		sb.WriteString(" " + desc.Hex(rest) + " " + f + " " + tc)
		n++
	}
	return "O " + strconv.Itoa(n) + sb.String()
}

func needOracle(m *desc.Msg) bool {
	return hasKind(m.Header, 'F', 'T') || hasKind(m.Body, 'F', 'T') || hasKind(m.Trailer, 'F', 'T')
}

// ---------- modes ----------

func sizeTag(n int) string {
	switch {
	case n < 50:
		return "len<50"
	case n < 200:
		return "len<200"
	case n < 1000:
		return "len<1000"
	default:
		return "len>=1000"
	}
}

func countItems(items []*desc.Item, depth int, maxDepth *int, groups, leavesN *int) {
	if depth > *maxDepth {
		*maxDepth = depth
	}
	for _, it := range items {
		switch it.Kind {
		case 'K':
			if it.V.Valid {
				*leavesN++
			}
		case 'C':
			countItems(it.Items, depth+1, maxDepth, groups, leavesN)
		case 'G':
			if len(it.Entries) > 0 {
				*groups++
			}
			for _, e := range it.Entries {
				countItems(e, depth+1, maxDepth, groups, leavesN)
			}
		}
	}
}

func shapeTags(m *desc.Msg) (tags []string, nontrivial bool) {
	var md, gr, lv int
	countItems(m.Header, 1, &md, &gr, &lv)
	countItems(m.Body, 1, &md, &gr, &lv)
	countItems(m.Trailer, 1, &md, &gr, &lv)
	tags = append(tags, fmt.Sprintf("depth=%d", md))
	if gr > 0 {
		tags = append(tags, "groups")
	}
	if len(m.Header) == 0 {
		tags = append(tags, "empty-header")
	}
	if len(m.Body) == 0 {
		tags = append(tags, "empty-body")
	}
	if len(m.Trailer) > 0 {
		tags = append(tags, "trailer")
	}
	return tags, lv > 0
}

// tobytes: C01 + C17
func runToBytes(id int, m *desc.Msg, extra ...string) {
	rec := &Rec{ID: id, Mode: "tobytes", Case: "TOBYTES " + m.Enc(), Oracle: map[string]string{}}
	var b []byte
	var fm *fix.Message
	var err error
	reser := false
	viaTpl := false
	firstOutput := ""
	p := guarded(func() {
		// every second message with groups is built the way an application builds entries from
		// the group's own template (AsTemplate, setters, AddEntry); the wire image must be the same
		if id%2 == 0 && m.HasGroup() {
			if x := m.BuildViaTemplates(); x != nil {
				fm, viaTpl = x, true
			}
		}
		if fm == nil {
			fm = m.Build()
		}
		b, err = fm.ToBytes()
		// multi-step use: a message already serialized once is changed through a setter and
		// serialized again; the description (hence the model's input) follows the change
		if err == nil && id%3 == 1 {
			before := m.Clone()
			first := b
			if mutateAfterFirstSerialization(m, fm, id) {
				reser = true
				b, err = fm.ToBytes()
				// the first output is still in the caller's hands (queued for writing, stored):
				// it has to be the well-framed message it was
				if err == nil && before.Bs != "" && before.Mt != "" {
					if v := oracleC01(before, first); v != "ok" {
						firstOutput = "fail: after the same message was changed and serialized again, the output of the first ToBytes no longer is a framed message: " + strings.TrimPrefix(v, "fail: ")
					}
				}
			}
		}
	})
	if viaTpl {
		extra = append(extra, "entries-from-AsTemplate")
	}
	for _, it := range m.Trailer {
		if it.Kind == 'K' && it.Tag == m.CsTag {
			extra = append(extra, "trailer-lists-checksum")
		}
	}
	if reser {
		rec.Case = "TOBYTES " + m.Enc()
		extra = append(extra, "reserialized-after-change")
	}
	switch {
	case p != "":
		rec.Impl = "PANIC"
		rec.Oracle["C01"] = "fail: ToBytes panicked: " + p
	case err != nil:
		rec.Impl = "ERR"
		rec.Oracle["C01"] = "fail: ToBytes returned an error: " + err.Error()
	default:
		rec.Impl = desc.Hex(b) + " " + desc.ProjMsg(fm)
		if m.Bs != "" && m.Mt != "" {
			rec.Oracle["C01"] = oracleC01(m, b)
			if rec.Oracle["C01"] == "ok" && firstOutput != "" {
				rec.Oracle["C01"] = firstOutput
			}
			rec.Oracle["C17"] = oracleC17(m, b)
		} else {
			rec.Oracle["C01"] = "skip: empty BeginString or MsgType"
		}
	}
	rec.Size = len(b)
	tags, _ := shapeTags(m)
	rec.Tags = append(append(tags, sizeTag(len(b))), extra...)
	if len(b) >= 7 {
		rec.Tags = append(rec.Tags, "cs<"+map[bool]string{true: "10", false: map[bool]string{true: "100", false: "256"}[b[len(b)-4] == '0']}[b[len(b)-4] == '0' && b[len(b)-3] == '0'])
	}
	emit(rec)
}

// mutateAfterFirstSerialization changes the first top-level String field of the body (or header)
// through its setter, in the real object and in the description alike.
func mutateAfterFirstSerialization(m *desc.Msg, fm *fix.Message, id int) bool {
	try := func(ds []*desc.Item, real fix.Items) bool {
		for i, it := range ds {
			if it.Kind == 'K' && it.V.Kind == 'S' {
				kv, ok := real[i].(*fix.KeyValue)
				if !ok {
					return false
				}
				nv := bytes.Repeat([]byte("w"), 1+id%120)
				if kv.Value.Set(string(nv)) != nil {
					return false
				}
				it.V = &desc.Val{Kind: 'S', Valid: true, S: nv, Route: "set"}
				return true
			}
		}
		return false
	}
	if try(m.Body, fm.Body()) {
		return true
	}
	return try(m.Header, fm.Header().Items())
}

// typed getter comparison for the round trip oracle
func valuesEqual(want []*desc.Item, got fix.Items, path string) string {
	if len(want) != len(got) {
		return fmt.Sprintf("%s: %d items, expected %d", path, len(got), len(want))
	}
	for i, w := range want {
		p := fmt.Sprintf("%s/%d", path, i)
		switch w.Kind {
		case 'K':
			kv, ok := got[i].(*fix.KeyValue)
			if !ok {
				return p + ": not a KeyValue"
			}
			if kv.Key != w.Tag {
				return p + ": tag differs"
			}
			populated := w.V.Valid && !(w.V.Kind == 'R' && w.V.Nil)
			if !populated {
				if !kv.Value.IsNull() {
					return fmt.Sprintf("%s: tag %s populated by the parse, expected absent", p, w.Tag)
				}
				continue
			}
			if kv.Value.IsNull() {
				return fmt.Sprintf("%s: tag %s null after the parse", p, w.Tag)
			}
			val := kv.Value.Value()
			okv := false
			switch w.V.Kind {
			case 'S':
				s, is := val.(string)
				okv = is && s == string(w.V.S)
			case 'R':
				s, is := val.([]byte)
				okv = is && bytes.Equal(s, w.V.S)
			case 'I':
				s, is := val.(int)
				okv = is && int64(s) == w.V.I
			case 'U':
				s, is := val.(uint64)
				okv = is && s == w.V.U
			case 'F':
				s, is := val.(float64)
				okv = is && s == w.V.F
			case 'T':
				s, is := val.(time.Time)
				okv = is && s.Equal(w.V.Tm)
			case 'B':
				s, is := val.(bool)
				okv = is && s == w.V.B
			}
			if !okv {
				return fmt.Sprintf("%s: tag %s has value %v (%T) after the round trip", p, w.Tag, val, val)
			}
		case 'C':
			c, ok := got[i].(*fix.Component)
			if !ok {
				return p + ": not a Component"
			}
			if r := valuesEqual(w.Items, c.Items(), p); r != "" {
				return r
			}
		case 'G':
			g, ok := got[i].(*fix.Group)
			if !ok {
				return p + ": not a Group"
			}
			if len(g.Entries()) != len(w.Entries) {
				return fmt.Sprintf("%s: group %s has %d entries, expected %d", p, w.Tag, len(g.Entries()), len(w.Entries))
			}
			for e := range w.Entries {
				if r := valuesEqual(w.Entries[e], g.Entries()[e], fmt.Sprintf("%s[%d]", p, e)); r != "" {
					return r
				}
			}
		}
	}
	return ""
}

// unmarshalCase runs Unmarshal of data into the empty message of m's type, in both modes.
func unmarshalCase(tm *desc.Msg, data []byte) (impl string, fm *fix.Message, modesAgree bool) {
	modesAgree = true
	var err error
	p := guarded(func() {
		fm = tm.Build()
		err = encoding.Unmarshal(fm, data)
	})
	var err2 error
	p2 := guarded(func() {
		fm2 := tm.Build()
		err2 = encoding.NewDefaultUnmarshaller(false).Unmarshal(fm2, data)
	})
	if (p != "") != (p2 != "") || (err != nil) != (err2 != nil) {
		modesAgree = false
	}
	switch {
	case p != "":
		return "PANIC", nil, modesAgree
	case err != nil:
		return "ERR", nil, modesAgree
	}
	return "OK " + desc.ProjMsg(fm), fm, modesAgree
}

// roundTripVerdict serializes m, parses the bytes into the empty template and compares: "" when
// the message came back as it was built.
func roundTripVerdict(m *desc.Msg) string {
	var b []byte
	var err error
	if p := guarded(func() { b, err = m.Build().ToBytes() }); p != "" || err != nil {
		return "serialization failed"
	}
	_, fm, _ := unmarshalCase(m.TemplateMsg(), b)
	if fm == nil {
		return "parsing the serialized message failed"
	}
	r := valuesEqual(m.Header, fm.Header().Items(), "header")
	if r == "" {
		r = valuesEqual(m.Body, fm.Body(), "body")
	}
	if r == "" {
		r = valuesEqual(m.Trailer, fm.Trailer().Items(), "trailer")
	}
	return r
}

// decoyVerdict is the metamorphic oracle of C18 for a message that did not come back: if the same
// message parses back once the text that only looks like a tag is taken out -- '=' inside values,
// fields whose tag number contains another template tag as decimal suffix or prefix -- then that
// text changed how some other field or group was parsed.
func decoyVerdict(m *desc.Msg, why string) string {
	if t, ch := m.NoEqualsInValues(); ch && roundTripVerdict(t) == "" {
		return "fail: the message does not parse back (" + why + "); the same message with every '=' inside a value replaced by ':' does: text inside a value changed how another field or group was parsed"
	}
	if t, ch := m.WithoutLookalikeFields(); ch && roundTripVerdict(t) == "" {
		return "fail: the message does not parse back (" + why + "); the same message without the fields whose tag number has another template tag as decimal suffix or prefix does: such a tag changed how another field or group was parsed"
	}
	if t, ch := m.NoEqualsInValues(); ch {
		if t2, ch2 := t.WithoutLookalikeFields(); ch2 && roundTripVerdict(t2) == "" {
			return "fail: the message does not parse back (" + why + "); the same message without '=' inside values and without look-alike tag fields does"
		}
	}
	return "ok"
}

// roundtrip: C02
func runRoundTrip(id int, m *desc.Msg, extra ...string) {
	rec := &Rec{ID: id, Mode: "roundtrip", Oracle: map[string]string{}}
	var b []byte
	var err error
	p := guarded(func() { b, err = m.Build().ToBytes() })
	if p != "" || err != nil {
		rec.Case = "TOBYTES " + m.Enc()
		rec.Impl = "PANIC"
		rec.Oracle["C02"] = "fail: serialization failed: " + p
		emit(rec)
		return
	}
	tm := m.TemplateMsg()
	rec.Case = "UNMARSHAL " + oracleTable(needOracle(m), b) + " " + tm.Enc() + " " + desc.Hex(b)
	impl, fm, agree := unmarshalCase(tm, b)
	rec.Impl = impl
	rec.Size = len(b)
	valueVerdict := ""
	switch {
	case fm == nil:
		rec.Oracle["C02"] = "fail: parsing the serialized message returned " + impl
		valueVerdict = "Unmarshal returned " + impl
	default:
		r := valuesEqual(m.Header, fm.Header().Items(), "header")
		if r == "" {
			r = valuesEqual(m.Body, fm.Body(), "body")
		}
		if r == "" {
			r = valuesEqual(m.Trailer, fm.Trailer().Items(), "trailer")
		}
		valueVerdict = r
		if r == "" {
			var b2 []byte
			p := guarded(func() { b2, err = fm.ToBytes() })
			if p != "" || err != nil {
				r = "re-serialization failed"
			} else if !bytes.Equal(b, b2) {
				r = fmt.Sprintf("re-serialized bytes differ: %q vs %q", b2, b)
			}
		}
		if r == "" {
			rec.Oracle["C02"] = "ok"
		} else {
			rec.Oracle["C02"] = "fail: " + r
		}
	}
	if !agree {
		rec.Oracle["C02"] = "fail: strict and non-strict modes disagree"
	}
	if valueVerdict == "" {
		rec.Oracle["C18"] = "ok"
	} else {
		rec.Oracle["C18"] = decoyVerdict(m, valueVerdict)
	}
	tags, _ := shapeTags(m)
	rec.Tags = append(append(tags, sizeTag(len(b))), extra...)
	emit(rec)
}

func main() {
	mode := flag.String("mode", "tobytes", "tobytes|roundtrip|decode|damage|lookup")
	seed := flag.Uint64("seed", 1, "seed")
	n := flag.Int("n", 100, "number of cases")
	outPath := flag.String("out", "-", "output file")
	flag.Parse()
	if *outPath == "-" {
		out = bufio.NewWriterSize(os.Stdout, 1<<20)
	} else {
		f, err := os.Create(*outPath)
		if err != nil {
			panic(err)
		}
		defer f.Close()
		out = bufio.NewWriterSize(f, 1<<20)
	}
	defer out.Flush()
	root := rng.New(*seed)
	switch *mode {
	case "tobytes":
		modeToBytes(root, *n)
	case "roundtrip":
		modeRoundTrip(root, *n)
	case "decode":
		modeDecode(root, *n)
	case "damage":
		modeDamage(root, *n)
	case "lookup":
		modeLookup(root, *n)
	case "parallel":
		modeParallel(root, *n)
	default:
		fmt.Fprintln(os.Stderr, "unknown mode")
		os.Exit(2)
	}
}

func modeToBytes(root *rng.R, n int) {
	id := 0
	// targeted boundary cases first (deterministic): body lengths across digit
	// boundaries and every checksum residue
	for _, L := range []int{8, 9, 10, 11, 98, 99, 100, 101, 998, 999, 1000, 1001, 9999, 10000} {
		runToBytes(id, lengthTarget(L), "target-length")
		id++
	}
	for r := 0; r < 256; r++ {
		runToBytes(id, residueTarget(r), "target-residue")
		id++
	}
	for i := 0; i < n; i++ {
		r := root.Fork()
		o := gen.DefaultOpts()
		o.FirstPopulated = r.Chance(3, 4)
		o.AllowEmptyVals = r.Chance(1, 6)
		o.PopulateProb = []int{30, 60, 90}[r.Intn(3)]
		o.LongLists = true
		o.TrailerCheckSum = true
		g := gen.New(r, o)
		runToBytes(id, g.Message())
		id++
	}
}

// lengthTarget builds a message whose BodyLength is exactly L (L >= 8).
func lengthTarget(L int) *desc.Msg {
	// body: "35=A|" (5) + "58=" + k bytes + "|" (4+k) => k = L-9; for L=8: "35=A|1=|"? use tag "1" : "1=x|" (4) -> L=9.
	m := &desc.Msg{BsTag: "8", BlTag: "9", CsTag: "10", MtTag: "35", Bs: "FIX.4.4", Mt: "A"}
	switch {
	case L == 8:
		m.Mt = "AB"   // "35=AB|"=6 + "1=|"? cannot; use "35=ABCDE|" = 9? keep simple: 35=ABCDE -> 9 bytes
		m.Mt = "ABCD" // "35=ABCD|" = 8
	case L == 9:
		m.Body = []*desc.Item{{Kind: 'K', Tag: "1", V: &desc.Val{Kind: 'S', Valid: true, S: []byte("x"), Route: "new"}}}
	default:
		k := L - 9
		m.Body = []*desc.Item{{Kind: 'K', Tag: "58", V: &desc.Val{Kind: 'S', Valid: true, S: bytes.Repeat([]byte("z"), k), Route: "new"}}}
	}
	return m
}

// residueTarget builds a message whose checksum is exactly r.
func residueTarget(r int) *desc.Msg {
	fill := []byte("AAAAA")
	mk := func() *desc.Msg {
		return &desc.Msg{BsTag: "8", BlTag: "9", CsTag: "10", MtTag: "35", Bs: "FIX.4.4", Mt: "0",
			Header: []*desc.Item{{Kind: 'K', Tag: "49", V: &desc.Val{Kind: 'S', Valid: true, S: append([]byte{}, fill...), Route: "new"}}}}
	}
	b, _ := mk().Build().ToBytes()
	cur, _ := strconv.Atoi(string(b[len(b)-4 : len(b)-1]))
	d := ((r-cur)%256 + 256) % 256
	for i := 0; i < 5 && d > 0; i++ {
		add := d
		if add > 61 {
			add = 61
		}
		fill[i] += byte(add)
		d -= add
	}
	return mk()
}

func modeRoundTrip(root *rng.R, n int) {
	for i := 0; i < n; i++ {
		r := root.Fork()
		o := gen.DefaultOpts()
		o.FirstPopulated = true
		o.PopulateProb = []int{30, 60, 90}[r.Intn(3)]
		o.MaxDepth = r.Range(2, 5)
		o.LongLists = true
		g := gen.New(r, o)
		runRoundTrip(i, g.Message())
	}
}
