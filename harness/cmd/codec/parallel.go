package main

// parallel: the codec used from several goroutines at once, each working on messages of its own.
// Nothing is shared between them but the library, so every result has to be what the same call
// returns when it runs alone: the sequential result is the reference, and the property oracles judge
// what came out differently (C01/C17 for serialization, C02 for parsing, C03 for a damaged variant
// that is let through, C11 for a panic).

import (
	"bytes"
	"fmt"
	"sync"
	"time"

	"github.com/b2broker/simplefix-go/fix/encoding"

	"verifharness/internal/desc"
	"verifharness/internal/gen"
	"verifharness/internal/rng"
)

type parCase struct {
	m      *desc.Msg
	want   []byte // serialized alone
	dmg    []byte // one byte of want changed (not inside the CheckSum value)
	serial string // first discrepancy seen while serializing concurrently
	serOut []byte
	parse  string
	damage string
	panics string
	rounds int
}

func modeParallel(root *rng.R, n int) {
	var cases []*parCase
	for len(cases) < n {
		r := root.Fork()
		o := gen.DefaultOpts()
		o.FirstPopulated = true
		o.PopulateProb = []int{60, 90}[r.Intn(2)]
		o.MaxDepth = r.Range(1, 3)
		g := gen.New(r, o)
		m := g.Message()
		if !m.HasGroup() && r.Chance(2, 3) { // groups are where the codec does most of its work
			continue
		}
		var b []byte
		var err error
		if p := guarded(func() { b, err = m.Build().ToBytes() }); p != "" || err != nil || len(b) < 20 {
			continue
		}
		if roundTripVerdict(m) != "" { // judged by the round-trip mode; here only what parses alone
			continue
		}
		c := &parCase{m: m, want: b}
		// damage: one byte somewhere before the CheckSum field, changed by one bit that keeps it a
		// non-delimiter (alone, the integrity check rejects it)
		pos := r.Range(0, len(b)-8)
		d := append([]byte{}, b...)
		d[pos] ^= 0x02
		if d[pos] == 1 || b[pos] == 1 {
			d[pos] = b[pos] ^ 0x10
		}
		if imp, _, _ := unmarshalCase(m.TemplateMsg(), d); imp == "ERR" {
			c.dmg = d
		}
		cases = append(cases, c)
	}
	const G = 8
	shared := encoding.NewDefaultUnmarshaller(true)
	deadline := time.Now().Add(1500 * time.Millisecond)
	var wg sync.WaitGroup
	var mu sync.Mutex
	note := func(f func()) { mu.Lock(); f(); mu.Unlock() }
	for g := 0; g < G; g++ {
		wg.Add(1)
		go func(g int) {
			defer wg.Done()
			// goroutines g and g+G/2 work through the same list, each on objects and byte slices of
			// its own: equal content in two places at once, and different content in the others
			var mine []int
			for i := g % (G / 2); i < len(cases); i += G / 2 {
				mine = append(mine, i)
			}
			own := map[int][2][]byte{}
			for _, i := range mine {
				own[i] = [2][]byte{append([]byte{}, cases[i].want...), append([]byte(nil), cases[i].dmg...)}
			}
			for time.Now().Before(deadline) {
				for _, i := range mine {
					c := cases[i]
					want, dmg := own[i][0], own[i][1]
					if p := guarded(func() {
						b, err := c.m.Build().ToBytes()
						if err != nil || !bytes.Equal(b, want) {
							note(func() {
								if c.serial == "" {
									c.serial, c.serOut = "differs", b
								}
							})
						}
						fm := c.m.TemplateMsg().Build()
						// every second parse goes through one decoder object shared by all goroutines (as
						// several sessions given the same instance would use it)
						perr := error(nil)
						if c.rounds%2 == 0 {
							perr = shared.Unmarshal(fm, want)
						} else {
							perr = encoding.Unmarshal(fm, want)
						}
						if err := perr; err != nil {
							note(func() {
								if c.parse == "" {
									c.parse = "the message that parses alone was refused: " + err.Error()
								}
							})
						} else if b2, err := fm.ToBytes(); err != nil || !bytes.Equal(b2, want) {
							note(func() {
								if c.parse == "" {
									c.parse = fmt.Sprintf("parsed and serialized again it is %q", b2)
								}
							})
						}
						if len(dmg) > 0 {
							fm := c.m.TemplateMsg().Build()
							if err := encoding.Unmarshal(fm, dmg); err == nil {
								note(func() { c.damage = "accepted" })
							}
						}
					}); p != "" {
						note(func() {
							if c.panics == "" {
								c.panics = p
							}
						})
					}
					note(func() { c.rounds++ })
				}
			}
		}(g)
	}
	wg.Wait()
	// second phase, for the integrity check alone: while four goroutines keep parsing a valid message,
	// four others keep offering its damaged variant (everyone on byte slices and message objects of its
	// own); the variant is refused every time, whatever the others are in the middle of
	k := 0
	for _, c := range cases {
		if c.dmg == nil || k >= 6 {
			continue
		}
		k++
		c := c
		stop := time.Now().Add(200 * time.Millisecond)
		var wg2 sync.WaitGroup
		for g := 0; g < G; g++ {
			wg2.Add(1)
			go func(g int) {
				defer wg2.Done()
				data := append([]byte{}, c.want...)
				if g%2 == 1 {
					data = append([]byte{}, c.dmg...)
				}
				tm := c.m.TemplateMsg()
				for time.Now().Before(stop) {
					var err error
					p := guarded(func() { err = encoding.Unmarshal(tm.Build(), data) })
					if g%2 == 1 && p == "" && err == nil {
						note(func() { c.damage = "accepted" })
						return
					}
				}
			}(g)
		}
		wg2.Wait()
	}
	for i, c := range cases {
		rec := &Rec{ID: i, Mode: "parallel", Case: "PARALLEL " + desc.Hex(c.want), Impl: fmt.Sprintf("rounds=%d", c.rounds),
			Oracle: map[string]string{"C01": "ok", "C17": "ok", "C02": "ok", "C18": "ok", "C03": "ok", "C11": "ok"}, Skip: true, Size: len(c.want)}
		const ctx = " (the same call on the same message, made alone, does not: 8 goroutines were using the codec on messages of their own)"
		if c.serial != "" {
			v1, v17 := oracleC01(c.m, c.serOut), oracleC17(c.m, c.serOut)
			if v1 == "ok" && v17 == "ok" || len(c.serOut) == 0 {
				v1 = fmt.Sprintf("fail: serialized concurrently the message is %q, alone it is %q", c.serOut, c.want)
				v17 = v1
			}
			if v1 != "ok" {
				rec.Oracle["C01"] = v1 + ctx
			}
			if v17 != "ok" && len(v17) > 5 && v17[:4] == "fail" {
				rec.Oracle["C17"] = v17 + ctx
			}
		}
		if c.parse != "" {
			rec.Oracle["C02"] = "fail: " + c.parse + ctx
			// a field found under another field's tag, or not found although it is there: the lookup
			// matched something that is not that field's boundary
			rec.Oracle["C18"] = rec.Oracle["C02"]
		}
		if c.damage != "" {
			rec.Oracle["C03"] = "fail: a variant with one changed byte was accepted: " + desc.Hex(c.dmg) + ctx
		}
		if c.panics != "" {
			rec.Oracle["C11"] = "fail: the decoder panicked: " + c.panics + ctx
		}
		tags, _ := shapeTags(c.m)
		rec.Tags = append(tags, "parallel")
		emit(rec)
	}
}
