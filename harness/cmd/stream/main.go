// stream: correspondence and oracle driver for C04 (and the end-of-message part of C18).
// A scripted in-memory net.Conn returns the inbound stream in scripted chunks; the real
// Initiator / Acceptor (conn.go reader, forwarders, writer loop) runs on top of it with a
// recording handler. Delivered messages are compared with the model's reassembly and with the
// messages the scripted peer sent; outbound hand-offs are compared with the Write calls.
package main

import (
	"bufio"
	"bytes"
	"context"
	"encoding/json"
	"flag"
	"fmt"
	"io"
	"net"
	"os"
	"strconv"
	"strings"
	"sync"
	"time"

	simplefixgo "github.com/b2broker/simplefix-go"
	fixgen "github.com/b2broker/simplefix-go/tests/fix44"
	"github.com/b2broker/simplefix-go/utils"

	"verifharness/internal/desc"
	"verifharness/internal/rng"
)

// ---------- scripted transport ----------

type scriptConn struct {
	mu         sync.Mutex
	chunks     [][]byte
	pause      []time.Duration
	idx        int
	closed     chan struct{}
	once       sync.Once
	writes     [][]byte
	wsignal    chan struct{}
	eofAtEnd   bool          // the peer closes after its last byte: Read reports end of stream
	wire       []byte        // every byte the transport accepted, in order
	stallAt    int           // the stallAt-th Write (1-based) takes only stallKeep bytes and then times out; 0 = never
	writeDelay time.Duration // a slow peer: every Write takes this long before the transport has the bytes
	stallKeep  int
	rdl        time.Time // read deadline, as set through SetDeadline / SetReadDeadline
	waited     bool      // the silence before the current chunk has been served
}

func newScriptConn(chunks [][]byte, pause []time.Duration) *scriptConn {
	return &scriptConn{chunks: chunks, pause: pause, closed: make(chan struct{}), wsignal: make(chan struct{}, 1024)}
}

// readWait waits d (the scripted silence before the next chunk) the way a blocked Read on a real
// connection does: it ends early with a timeout error when a read deadline has been set -- before
// or during the wait -- and passes.
func (c *scriptConn) readWait(d time.Duration) error {
	end := time.Now().Add(d)
	for {
		now := time.Now()
		c.mu.Lock()
		dl := c.rdl
		c.mu.Unlock()
		if !dl.IsZero() && !dl.After(now) {
			return os.ErrDeadlineExceeded
		}
		if !now.Before(end) {
			return nil
		}
		step := end.Sub(now)
		if step > 2*time.Millisecond {
			step = 2 * time.Millisecond
		}
		if !dl.IsZero() && dl.Sub(now) < step {
			step = dl.Sub(now)
		}
		select {
		case <-time.After(step):
		case <-c.closed:
			return io.EOF
		}
	}
}

func (c *scriptConn) Read(b []byte) (int, error) {
	c.mu.Lock()
	if c.idx < len(c.chunks) {
		var p time.Duration
		if c.idx < len(c.pause) && !c.waited {
			p = c.pause[c.idx]
		}
		c.waited = true
		c.mu.Unlock()
		if err := c.readWait(p); err != nil {
			return 0, err
		}
		c.mu.Lock()
		ch := c.chunks[c.idx]
		if len(ch) > len(b) { // the caller's buffer is smaller than the scripted chunk: split it
			c.chunks[c.idx] = ch[len(b):]
			ch = ch[:len(b)]
		} else {
			c.idx++
			c.waited = false
		}
		c.mu.Unlock()
		return copy(b, ch), nil
	}
	eof := c.eofAtEnd
	c.mu.Unlock()
	if eof {
		return 0, io.EOF
	}
	for { // nothing more to deliver: a blocked Read, ended by Close or by a read deadline
		if err := c.readWait(50 * time.Millisecond); err != nil {
			return 0, err
		}
	}
}

func (c *scriptConn) Write(b []byte) (int, error) {
	select {
	case <-c.closed:
		return 0, io.ErrClosedPipe
	default:
	}
	if c.writeDelay > 0 {
		time.Sleep(c.writeDelay)
	}
	c.mu.Lock()
	if c.stallAt > 0 && len(c.writes)+1 == c.stallAt {
		// the peer stops reading part-way through this message: the bytes taken so far are on the
		// wire, the rest is not, and the write deadline passes
		c.stallAt = 0
		k := c.stallKeep
		if k > len(b) {
			k = len(b)
		}
		c.writes = append(c.writes, append([]byte{}, b[:k]...))
		c.wire = append(c.wire, b[:k]...)
		c.mu.Unlock()
		return k, os.ErrDeadlineExceeded
	}
	c.writes = append(c.writes, append([]byte{}, b...))
	c.wire = append(c.wire, b...)
	c.mu.Unlock()
	select {
	case c.wsignal <- struct{}{}:
	default:
	}
	return len(b), nil
}

func (c *scriptConn) Close() error                  { c.once.Do(func() { close(c.closed) }); return nil }
func (c *scriptConn) LocalAddr() net.Addr           { return &net.TCPAddr{} }
func (c *scriptConn) RemoteAddr() net.Addr          { return &net.TCPAddr{} }
func (c *scriptConn) SetDeadline(t time.Time) error { return c.SetReadDeadline(t) }
func (c *scriptConn) SetReadDeadline(t time.Time) error {
	c.mu.Lock()
	c.rdl = t
	c.mu.Unlock()
	return nil
}
func (c *scriptConn) SetWriteDeadline(t time.Time) error { return nil }

type scriptListener struct {
	conns  chan net.Conn
	closed chan struct{}
	once   sync.Once
}

func (l *scriptListener) Accept() (net.Conn, error) {
	select {
	case c := <-l.conns:
		return c, nil
	case <-l.closed:
		return nil, io.EOF
	}
}
func (l *scriptListener) Close() error   { l.once.Do(func() { close(l.closed) }); return nil }
func (l *scriptListener) Addr() net.Addr { return &net.TCPAddr{} }

// ---------- recording handler ----------

type recHandler struct {
	mu       sync.Mutex
	got      [][]byte
	inFlight int32
	overlap  bool
	out      chan []byte
	ctx      context.Context
	cancel   context.CancelFunc
	errs     chan error
	signal   chan struct{}
}

func newRecHandler(ctx context.Context, outBuf int) *recHandler {
	h := &recHandler{out: make(chan []byte, outBuf), errs: make(chan error, 16), signal: make(chan struct{}, 4096)}
	h.ctx, h.cancel = context.WithCancel(ctx)
	return h
}

func (h *recHandler) ServeIncoming(msg []byte) {
	h.mu.Lock()
	h.inFlight++
	if h.inFlight > 1 {
		h.overlap = true // two deliveries at once on one connection
	}
	h.got = append(h.got, append([]byte{}, msg...))
	h.inFlight--
	h.mu.Unlock()
	select {
	case h.signal <- struct{}{}:
	default:
	}
}
func (h *recHandler) Outgoing() <-chan []byte { return h.out }
func (h *recHandler) Run() error {
	<-h.ctx.Done()
	return nil
}
func (h *recHandler) StopWithError(err error) {
	select {
	case h.errs <- err:
	default:
	}
	h.cancel()
}
func (h *recHandler) CloseErrorChan()                                              {}
func (h *recHandler) Send(message simplefixgo.SendingMessage) error                { return nil }
func (h *recHandler) SendBatch(m []simplefixgo.SendingMessage) error               { return nil }
func (h *recHandler) SendRaw(data []byte) error                                    { h.out <- data; return nil }
func (h *recHandler) Context() context.Context                                     { return h.ctx }
func (h *recHandler) Stop()                                                        { h.cancel() }
func (h *recHandler) RemoveIncomingHandler(string, int64) error                    { return nil }
func (h *recHandler) RemoveOutgoingHandler(string, int64) error                    { return nil }
func (h *recHandler) OnDisconnect(utils.EventHandlerFunc)                          {}
func (h *recHandler) OnConnect(utils.EventHandlerFunc)                             {}
func (h *recHandler) OnStopped(utils.EventHandlerFunc)                             {}
func (h *recHandler) HandleIncoming(string, simplefixgo.IncomingHandlerFunc) int64 { return 0 }
func (h *recHandler) HandleOutgoing(string, simplefixgo.OutgoingHandlerFunc) int64 { return 0 }

type factory struct {
	mu       sync.Mutex
	handlers []*recHandler
	outBuf   int
}

func (f *factory) MakeHandler(ctx context.Context) simplefixgo.AcceptorHandler {
	h := newRecHandler(ctx, f.outBuf)
	f.mu.Lock()
	f.handlers = append(f.handlers, h)
	f.mu.Unlock()
	return h
}

// ---------- cases ----------

type Rec struct {
	ID     int               `json:"id"`
	Mode   string            `json:"mode"`
	Case   string            `json:"case"`
	Impl   string            `json:"impl"`
	Oracle map[string]string `json:"oracle"`
	Tags   []string          `json:"tags,omitempty"`
	Size   int               `json:"size"`
	Skip   bool              `json:"skip,omitempty"`
}

var out *bufio.Writer

func emit(r *Rec) {
	b, _ := json.Marshal(r)
	out.Write(b)
	out.WriteByte('\n')
}

var valuePool = []string{"x", "10=", "a10=5", "10=123", "=10=", "35=0", "FIX.4.4", "123", "100", "abc10=xyz", "\x00", "\xff", " ", "9=10=", "z10=00"}

// genMessage builds a well-formed message: SOH-terminated fields, only the last starts with "10=".
func genMessage(r *rng.R, conn int, k int) []byte {
	var sb bytes.Buffer
	sb.WriteString("8=FIX.4.4\x019=" + strconv.Itoa(r.Range(5, 999)) + "\x0135=" + []string{"0", "A", "D", "V", "8"}[r.Intn(5)] + "\x01")
	sb.WriteString("49=C" + strconv.Itoa(conn) + "\x0134=" + strconv.Itoa(k) + "\x01")
	n := r.Range(0, 8)
	for i := 0; i < n; i++ {
		tag := []string{"58", "110", "210", "1010", "310", "11", "55", "100", "9710"}[r.Intn(9)]
		v := valuePool[r.Intn(len(valuePool))]
		if r.Chance(1, 3) {
			v += valuePool[r.Intn(len(valuePool))]
		}
		if r.Chance(1, 10) {
			v = strings.Repeat("y", r.Range(100, 5000))
		}
		if r.Chance(1, 40) { // the text "10=" where a reader with a 4 KiB buffer would cut a long field
			v = strings.Repeat("z", 4096-len(tag)-1) + "10=" + strconv.Itoa(r.Range(100, 999))
		}
		sb.WriteString(tag + "=" + v + "\x01")
	}
	sb.WriteString(fmt.Sprintf("10=%03d\x01", r.Intn(256)))
	return sb.Bytes()
}

func partition(r *rng.R, stream []byte, kind int) [][]byte {
	switch kind {
	case 0: // all in one read
		return [][]byte{stream}
	case 1: // one byte per read
		var cs [][]byte
		for i := range stream {
			cs = append(cs, stream[i:i+1])
		}
		return cs
	case 2: // one split point
		p := r.Intn(len(stream) + 1)
		return [][]byte{stream[:p], stream[p:]}
	default: // random chunks
		var cs [][]byte
		for i := 0; i < len(stream); {
			n := r.Range(1, 40)
			if r.Chance(1, 5) {
				n = r.Range(1, 3)
			}
			if i+n > len(stream) {
				n = len(stream) - i
			}
			cs = append(cs, stream[i:i+n])
			i += n
		}
		return cs
	}
}

func frameLine(chunks [][]byte) string {
	s := "FRAME " + strconv.Itoa(len(chunks))
	for _, c := range chunks {
		s += " " + desc.Hex(c)
	}
	return s
}

func answer(msgs [][]byte) string {
	s := strconv.Itoa(len(msgs))
	for _, m := range msgs {
		s += " " + desc.Hex(m)
	}
	return s
}

type connCase struct {
	msgs   [][]byte
	chunks [][]byte
	pause  []time.Duration
	outMsg [][]byte
}

func waitFor(cond func() bool, d time.Duration) bool {
	deadline := time.Now().Add(d)
	for time.Now().Before(deadline) {
		if cond() {
			return true
		}
		time.Sleep(200 * time.Microsecond)
	}
	return cond()
}

func judge(id int, role string, cc *connCase, h *recHandler, sc *scriptConn, tags []string) {
	rec := &Rec{ID: id, Mode: "frame-" + role, Case: frameLine(cc.chunks), Oracle: map[string]string{}, Tags: tags}
	h.mu.Lock()
	got := append([][]byte{}, h.got...)
	overlap := h.overlap
	h.mu.Unlock()
	rec.Impl = answer(got)
	for _, c := range cc.chunks {
		rec.Size += len(c)
	}
	// oracle: exactly the messages the peer sent, once each, whole, in order, one at a time
	switch {
	case overlap:
		rec.Oracle["C04"] = "fail: two messages of one connection were being delivered at the same time"
	case len(got) != len(cc.msgs):
		rec.Oracle["C04"] = fmt.Sprintf("fail: %d messages delivered, %d sent", len(got), len(cc.msgs))
	default:
		rec.Oracle["C04"] = "ok"
		for i := range got {
			if !bytes.Equal(got[i], cc.msgs[i]) {
				rec.Oracle["C04"] = fmt.Sprintf("fail: message %d delivered as %q, sent as %q", i, got[i], cc.msgs[i])
				break
			}
		}
	}
	rec.Oracle["C18"] = rec.Oracle["C04"]
	// outbound: every hand-off is one Write, whole, in order
	sc.mu.Lock()
	writes := append([][]byte{}, sc.writes...)
	sc.mu.Unlock()
	if len(writes) != len(cc.outMsg) {
		rec.Oracle["C04"] = fmt.Sprintf("fail: %d outbound hand-offs, %d writes on the transport", len(cc.outMsg), len(writes))
	} else {
		for i := range writes {
			if !bytes.Equal(writes[i], cc.outMsg[i]) {
				rec.Oracle["C04"] = fmt.Sprintf("fail: outbound message %d written as %q, handed off as %q", i, writes[i], cc.outMsg[i])
				break
			}
		}
	}
	emit(rec)
}

func genConnCase(r *rng.R, conn int, kind int) *connCase {
	cc := &connCase{}
	n := r.Range(1, 6)
	var stream []byte
	for k := 1; k <= n; k++ {
		m := genMessage(r, conn, k)
		cc.msgs = append(cc.msgs, m)
		stream = append(stream, m...)
	}
	cc.chunks = partition(r, stream, kind)
	if r.Chance(1, 4) {
		for range cc.chunks {
			var p time.Duration
			if r.Chance(1, 6) {
				p = time.Duration(r.Range(1, 300)) * time.Microsecond
			}
			cc.pause = append(cc.pause, p)
		}
	}
	for k := 0; k < r.Range(0, 6); k++ {
		cc.outMsg = append(cc.outMsg, genMessage(r, 100+conn, k))
	}
	return cc
}

func runInitiator(id int, r *rng.R, kind int, bufSize int) {
	cc := genConnCase(r, 0, kind)
	sc := newScriptConn(append([][]byte{}, cc.chunks...), cc.pause)
	h := newRecHandler(context.Background(), bufSize)
	ini := simplefixgo.NewInitiator(sc, h, bufSize, time.Minute)
	done := make(chan struct{})
	go func() { _ = ini.Serve(); close(done) }()
	go func() {
		for _, m := range cc.outMsg {
			h.out <- m
		}
	}()
	waitFor(func() bool {
		h.mu.Lock()
		n := len(h.got)
		h.mu.Unlock()
		sc.mu.Lock()
		w := len(sc.writes)
		sc.mu.Unlock()
		return n >= len(cc.msgs) && w >= len(cc.outMsg)
	}, 3*time.Second)
	time.Sleep(2 * time.Millisecond) // let a surplus delivery show up
	judge(id, "initiator", cc, h, sc, []string{"initiator", fmt.Sprintf("partition=%d", kind), fmt.Sprintf("buf=%d", bufSize)})
	ini.Close()
	h.cancel()
	select {
	case <-done:
	case <-time.After(2 * time.Second):
	}
}

func runAcceptor(id int, r *rng.R, kind int, nconn int, outBuf int) int {
	l := &scriptListener{conns: make(chan net.Conn, nconn), closed: make(chan struct{})}
	f := &factory{outBuf: outBuf}
	var mu sync.Mutex
	var order []*recHandler
	acc := simplefixgo.NewAcceptor(l, f, time.Minute, func(h simplefixgo.AcceptorHandler) {
		mu.Lock()
		order = append(order, h.(*recHandler))
		mu.Unlock()
	})
	done := make(chan struct{})
	go func() { _ = acc.ListenAndServe(); close(done) }()
	cases := make([]*connCase, nconn)
	conns := make([]*scriptConn, nconn)
	// connections are accepted one after the other so that handler k belongs to connection k
	for c := 0; c < nconn; c++ {
		cases[c] = genConnCase(r, c, kind)
		conns[c] = newScriptConn(append([][]byte{}, cases[c].chunks...), cases[c].pause)
		l.conns <- conns[c]
		waitFor(func() bool { mu.Lock(); defer mu.Unlock(); return len(order) == c+1 }, 2*time.Second)
	}
	mu.Lock()
	hs := append([]*recHandler{}, order...)
	mu.Unlock()
	for c := 0; c < len(hs) && c < nconn; c++ {
		c := c
		go func() {
			for _, m := range cases[c].outMsg {
				hs[c].out <- m
			}
		}()
	}
	waitFor(func() bool {
		for c := 0; c < len(hs) && c < nconn; c++ {
			hs[c].mu.Lock()
			n := len(hs[c].got)
			hs[c].mu.Unlock()
			conns[c].mu.Lock()
			w := len(conns[c].writes)
			conns[c].mu.Unlock()
			if n < len(cases[c].msgs) || w < len(cases[c].outMsg) {
				return false
			}
		}
		return true
	}, 4*time.Second)
	time.Sleep(2 * time.Millisecond)
	for c := 0; c < nconn; c++ {
		var h *recHandler
		if c < len(hs) {
			h = hs[c]
		} else {
			h = newRecHandler(context.Background(), 0)
		}
		judge(id+c, "acceptor", cases[c], h, conns[c], []string{"acceptor", fmt.Sprintf("partition=%d", kind), fmt.Sprintf("connections=%d", nconn)})
	}
	acc.Close()
	for _, c := range conns {
		c.Close()
	}
	select {
	case <-done:
	case <-time.After(2 * time.Second):
	}
	return nconn
}

// runDefaultHandler puts the library's own DefaultHandler behind the connection: the messages of a
// coalesced burst must all reach the application's incoming handler, once each, byte-identical and
// in order, also when that handler is slower than the arrival (back-pressure, not loss), for
// handler/connection buffers of 0, 1 and 4.
func runDefaultHandler(id int, r *rng.R, role string, bufSize int) {
	n := r.Range(8, 40)
	var msgs [][]byte
	var stream []byte
	for k := 1; k <= n; k++ {
		m := genMessage(r, 0, k)
		msgs = append(msgs, m)
		stream = append(stream, m...)
	}
	chunks := partition(r, stream, 0) // one read: the messages arrive together
	sc := newScriptConn(chunks, nil)
	// every second burst is the last thing the peer does: it closes the connection right behind it;
	// what arrived complete before the close still belongs to the handler
	closing := r.Chance(1, 2)
	sc.eofAtEnd = closing
	var mu sync.Mutex
	var got [][]byte
	slow := time.Duration(r.Range(200, 1500)) * time.Microsecond
	reg := func(h *simplefixgo.DefaultHandler) {
		h.HandleIncoming(simplefixgo.AllMsgTypes, func(m []byte) bool {
			time.Sleep(slow)
			mu.Lock()
			got = append(got, append([]byte{}, m...))
			mu.Unlock()
			return true
		})
	}
	var stop func()
	if role == "initiator" {
		h := simplefixgo.NewInitiatorHandler(context.Background(), "35", bufSize)
		reg(h)
		ini := simplefixgo.NewInitiator(sc, h, bufSize, time.Minute)
		go func() { _ = ini.Serve() }()
		stop = func() { ini.Close(); h.Stop() }
	} else {
		l := &scriptListener{conns: make(chan net.Conn, 1), closed: make(chan struct{})}
		acc := simplefixgo.NewAcceptor(l, simplefixgo.NewAcceptorHandlerFactory("35", bufSize), time.Minute, func(h simplefixgo.AcceptorHandler) {
			reg(h.(*simplefixgo.DefaultHandler))
		})
		go func() { _ = acc.ListenAndServe() }()
		l.conns <- sc
		stop = func() { acc.Close(); l.Close() }
	}
	waitFor(func() bool { mu.Lock(); defer mu.Unlock(); return len(got) >= n }, time.Duration(n)*slow+3*time.Second)
	time.Sleep(3 * time.Millisecond)
	mu.Lock()
	delivered := append([][]byte{}, got...)
	mu.Unlock()
	stop()
	rec := &Rec{ID: id, Mode: "stream-default-handler", Case: fmt.Sprintf("%s burst of %d messages, handler delay %s, buffers %d, peer closes behind the burst: %v", role, n, slow, bufSize, closing),
		Oracle: map[string]string{}, Tags: []string{"default-handler", role, fmt.Sprintf("buf=%d", bufSize), fmt.Sprintf("close-behind-burst=%v", closing)}, Size: len(stream), Skip: true}
	rec.Impl = fmt.Sprintf("delivered=%d", len(delivered))
	verdict := "ok"
	if len(delivered) != n {
		verdict = fmt.Sprintf("fail: %d messages delivered to the incoming handler, %d sent", len(delivered), n)
	} else {
		for i := range msgs {
			if string(delivered[i]) != string(msgs[i]) {
				verdict = fmt.Sprintf("fail: delivery %d is not message %d as sent", i+1, i+1)
				break
			}
		}
	}
	rec.Oracle["C04"] = verdict
	emit(rec)
}

// runQuiet: the connection writes, then the inbound stream stays silent for several write-deadline
// periods in the middle of a message. Silence on the inbound side is not an error: everything the
// peer sent must still be delivered (a write must not arm anything that ends the reading).
func runQuiet(id int, r *rng.R, role string) {
	n := r.Range(2, 5)
	var msgs [][]byte
	var stream []byte
	for k := 1; k <= n; k++ {
		m := genMessage(r, 0, k)
		msgs = append(msgs, m)
		stream = append(stream, m...)
	}
	cut := len(msgs[0]) - r.Range(1, 6) // inside the first message's trailer
	chunks := [][]byte{stream[:cut], stream[cut:]}
	wd := 25 * time.Millisecond
	quiet := 6 * wd
	sc := newScriptConn(chunks, []time.Duration{0, quiet})
	outMsg := genMessage(r, 100, 1)
	var h *recHandler
	var stop func()
	if role == "initiator" {
		h = newRecHandler(context.Background(), 1)
		ini := simplefixgo.NewInitiator(sc, h, 1, wd)
		go func() { _ = ini.Serve() }()
		stop = func() { ini.Close(); h.cancel() }
	} else {
		l := &scriptListener{conns: make(chan net.Conn, 1), closed: make(chan struct{})}
		f := &factory{outBuf: 1}
		got := make(chan *recHandler, 1)
		acc := simplefixgo.NewAcceptor(l, f, wd, func(hh simplefixgo.AcceptorHandler) { got <- hh.(*recHandler) })
		go func() { _ = acc.ListenAndServe() }()
		l.conns <- sc
		select {
		case h = <-got:
		case <-time.After(2 * time.Second):
			h = newRecHandler(context.Background(), 1)
		}
		stop = func() { acc.Close(); l.Close(); sc.Close() }
	}
	select {
	case h.out <- outMsg:
	case <-time.After(time.Second):
	}
	waitFor(func() bool { h.mu.Lock(); defer h.mu.Unlock(); return len(h.got) >= n }, quiet+3*time.Second)
	time.Sleep(2 * time.Millisecond)
	h.mu.Lock()
	delivered := append([][]byte{}, h.got...)
	h.mu.Unlock()
	sc.mu.Lock()
	nw := len(sc.writes)
	sc.mu.Unlock()
	stop()
	rec := &Rec{ID: id, Mode: "stream-quiet", Case: fmt.Sprintf("%s: one write (deadline %s), then %s of inbound silence inside message 1 of %d", role, wd, quiet, n),
		Oracle: map[string]string{}, Tags: []string{"quiet-after-write", role}, Size: len(stream), Skip: true}
	rec.Impl = fmt.Sprintf("delivered=%d writes=%d", len(delivered), nw)
	verdict := "ok"
	if len(delivered) != n {
		verdict = fmt.Sprintf("fail: %d messages delivered, %d sent (inbound silence of %s after a write with deadline %s)", len(delivered), n, quiet, wd)
	} else {
		for i := range msgs {
			if string(delivered[i]) != string(msgs[i]) {
				verdict = fmt.Sprintf("fail: delivery %d is not message %d as sent", i+1, i+1)
				break
			}
		}
	}
	rec.Oracle["C04"] = verdict
	emit(rec)
}

// runStalledWrite: the peer stops reading part-way through one outbound message, so that the write
// of it times out after some of its bytes were taken. Whatever the connection does next, the
// outbound byte stream stays a prefix of the hand-offs in order: every earlier message whole,
// nothing behind a torn one.
func runStalledWrite(id int, r *rng.R, role string) {
	n := r.Range(2, 4)
	var outs [][]byte
	var all []byte
	for k := 1; k <= n; k++ {
		m := genMessage(r, 100, k)
		outs = append(outs, m)
		all = append(all, m...)
	}
	at := r.Range(1, n)
	keep := r.Range(1, len(outs[at-1])-1)
	wd := 20 * time.Millisecond
	sc := newScriptConn(nil, nil)
	sc.stallAt, sc.stallKeep = at, keep
	var h *recHandler
	var stop func()
	if role == "initiator" {
		h = newRecHandler(context.Background(), 0)
		ini := simplefixgo.NewInitiator(sc, h, 1, wd)
		go func() { _ = ini.Serve() }()
		stop = func() { ini.Close(); h.cancel() }
	} else {
		l := &scriptListener{conns: make(chan net.Conn, 1), closed: make(chan struct{})}
		f := &factory{outBuf: 0}
		got := make(chan *recHandler, 1)
		acc := simplefixgo.NewAcceptor(l, f, wd, func(hh simplefixgo.AcceptorHandler) { got <- hh.(*recHandler) })
		go func() { _ = acc.ListenAndServe() }()
		l.conns <- sc
		select {
		case h = <-got:
		case <-time.After(2 * time.Second):
			h = newRecHandler(context.Background(), 0)
		}
		stop = func() { acc.Close(); l.Close(); sc.Close() }
	}
	handed := 0
	for _, m := range outs {
		select {
		case h.out <- m:
			handed++
		case <-time.After(300 * time.Millisecond): // the connection has ended: nobody takes hand-offs any more
		}
	}
	time.Sleep(4 * wd)
	sc.mu.Lock()
	wire := append([]byte{}, sc.wire...)
	sc.mu.Unlock()
	stop()
	// the model's writer says what is on the wire: every hand-off before the failing one whole, then
	// the bytes the transport took, then nothing
	line := "WRITE " + strconv.Itoa(len(outs))
	for _, m := range outs {
		line += " " + desc.Hex(m)
	}
	line += " " + strconv.Itoa(at) + " " + strconv.Itoa(keep)
	rec := &Rec{ID: id, Mode: "stream-stalled-write", Case: line,
		Oracle: map[string]string{}, Tags: []string{"stalled-write", role, fmt.Sprintf("handed-off=%d/%d", handed, n)}, Size: len(all)}
	rec.Impl = desc.Hex(wire)
	verdict := "ok"
	before := 0
	for k := 0; k < at-1; k++ {
		before += len(outs[k])
	}
	switch {
	case !bytes.HasPrefix(all, wire):
		verdict = fmt.Sprintf("fail: after the write of message %d timed out with %d bytes taken, the outbound stream is not the hand-offs in order any more: %q on the wire, handed off %q", at, keep, wire, all)
	case len(wire) < before+keep:
		verdict = fmt.Sprintf("fail: %d bytes on the wire, %d were accepted before the time-out", len(wire), before+keep)
	}
	rec.Oracle["C04"] = verdict
	emit(rec)
}

// runReusedMessage: an application keeps one message object, sends it, changes it and sends it again
// while the first hand-off still waits behind a slow write. What was handed off is what is written:
// the wire carries the two serializations, each as it was at the time of its Send.
func runReusedMessage(id int, r *rng.R) {
	mk := func(seq int, text string) *fixgen.MarketDataRequestReject {
		m := fixgen.NewMarketDataRequestReject()
		m.SetMDReqID("req-1")
		m.SetText(text)
		m.HeaderBuilder().SetFieldMsgSeqNum(seq)
		return m
	}
	long := "a rather long text " + strings.Repeat("x", r.Range(5, 60))
	short := []string{"short", long[:len(long)-r.Range(1, 10)], "y" + long[1:]}[r.Intn(3)] // shorter or of equal length: no reallocation hides a reused buffer
	want0, _ := mk(1, "first").ToBytes()
	want1, _ := mk(2, long).ToBytes()
	want2, _ := mk(3, short).ToBytes()
	sc := newScriptConn(nil, nil)
	sc.writeDelay = 40 * time.Millisecond
	h := simplefixgo.NewInitiatorHandler(context.Background(), "35", 4)
	ini := simplefixgo.NewInitiator(sc, h, 4, time.Minute)
	go func() { _ = ini.Serve() }()
	time.Sleep(5 * time.Millisecond)
	e0 := h.Send(mk(1, "first")) // keeps the writer busy
	time.Sleep(5 * time.Millisecond)
	m := mk(2, long)
	e1 := h.Send(m)
	m.SetText(short)
	m.HeaderBuilder().SetFieldMsgSeqNum(3)
	e2 := h.Send(m)
	waitFor(func() bool { sc.mu.Lock(); defer sc.mu.Unlock(); return len(sc.writes) >= 3 }, 2*time.Second)
	sc.mu.Lock()
	wire := append([]byte{}, sc.wire...)
	sc.mu.Unlock()
	ini.Close()
	h.Stop()
	want := append(append(append([]byte{}, want0...), want1...), want2...)
	rec := &Rec{ID: id, Mode: "stream-reused-message", Case: fmt.Sprintf("initiator: one message object sent, changed and sent again behind a slow write (texts of %d and %d bytes)", len(long), len(short)),
		Oracle: map[string]string{}, Tags: []string{"reused-message-object"}, Size: len(want), Skip: true}
	rec.Impl = fmt.Sprintf("wire=%d", len(wire))
	switch {
	case e0 != nil || e1 != nil || e2 != nil:
		rec.Oracle["C04"] = fmt.Sprintf("fail: Send returned an error: %v %v %v", e0, e1, e2)
	case !bytes.Equal(wire, want):
		rec.Oracle["C04"] = fmt.Sprintf("fail: a message object was sent, changed and sent again while its first hand-off waited behind a slow write: the wire carries %q, handed off were %q", wire, want)
	default:
		rec.Oracle["C04"] = "ok"
	}
	emit(rec)
}

func main() {
	seed := flag.Uint64("seed", 1, "seed")
	n := flag.Int("n", 100, "number of cases")
	outPath := flag.String("out", "-", "output file")
	flag.Parse()
	if *outPath == "-" {
		out = bufio.NewWriterSize(os.Stdout, 1<<20)
	} else {
		f, err := os.Create(*outPath)
		if err != nil {
			panic(err)
		}
		defer f.Close()
		out = bufio.NewWriterSize(f, 1<<20)
	}
	defer out.Flush()
	root := rng.New(*seed)
	id := 0
	for i := 0; id < *n; i++ {
		r := root.Fork()
		kind := i % 4
		if i%25 == 7 {
			runDefaultHandler(id, r, []string{"initiator", "acceptor"}[(i/25)%2], []int{0, 1, 4}[(i/50)%3])
			id++
			continue
		}
		if i%25 == 13 {
			runQuiet(id, r, []string{"initiator", "acceptor"}[(i/25)%2])
			id++
			continue
		}
		if i%25 == 23 {
			runReusedMessage(id, r)
			id++
			continue
		}
		if i%25 == 19 {
			runStalledWrite(id, r, []string{"initiator", "acceptor"}[(i/25)%2])
			id++
			continue
		}
		if i%5 == 0 {
			id += runAcceptor(id, r, kind, r.Range(1, 8), []int{0, 1, 10}[r.Intn(3)])
		} else {
			runInitiator(id, r, kind, []int{0, 1, 10}[r.Intn(3)])
			id++
		}
	}
}
