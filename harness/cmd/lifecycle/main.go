// lifecycle: fault-injection driver for C13. A session runs over an in-memory connection with
// inbound and outbound traffic in flight; one termination cause is injected at a chosen point;
// after a settling time the driver checks that the serving call returned, the transport was
// closed, the passive side was notified, later sends return, and that no goroutine with a frame
// of the library is left.
package main

import (
	"bufio"
	"context"
	"encoding/json"
	"flag"
	"fmt"
	"os"
	"runtime"
	"sort"
	"strconv"
	"strings"
	"sync"
	"time"

	simplefixgo "github.com/b2broker/simplefix-go"
	fixgen "github.com/b2broker/simplefix-go/tests/fix44"

	"verifharness/internal/live"
)

type Rec struct {
	ID     int               `json:"id"`
	Mode   string            `json:"mode"`
	Case   string            `json:"case"`
	Impl   string            `json:"impl"`
	Oracle map[string]string `json:"oracle"`
	Tags   []string          `json:"tags,omitempty"`
	Size   int               `json:"size"`
	Skip   bool              `json:"skip"`
}

// libGoroutines returns, by goroutine id, the stacks of goroutines that have a frame inside the
// library packages.
func libGoroutines() map[string]string {
	buf := make([]byte, 1<<22)
	n := runtime.Stack(buf, true)
	out := map[string]string{}
	for _, g := range strings.Split(string(buf[:n]), "\n\n") {
		if strings.Contains(g, "main.libGoroutines") {
			continue
		}
		lib := false
		for _, line := range strings.Split(g, "\n") {
			if strings.HasPrefix(line, "github.com/b2broker/simplefix-go") && !strings.Contains(line, "/tests/fix44") {
				lib = true
			}
		}
		if lib {
			hdr := strings.SplitN(g, "\n", 2)[0]
			out[strings.Fields(hdr)[1]] = g
		}
	}
	return out
}

// signature describes where a goroutine is parked: its state and its library frames with lines.
func signature(g string) string {
	lines := strings.Split(g, "\n")
	hdr := lines[0]
	st := hdr[strings.Index(hdr, "[")+1:]
	st = strings.TrimSuffix(strings.TrimSuffix(st, ":"), "]")
	if i := strings.Index(st, ","); i >= 0 {
		st = st[:i]
	}
	var frames []string
	for i := 1; i+1 < len(lines); i += 2 {
		fn := lines[i]
		if !strings.HasPrefix(fn, "github.com/b2broker/simplefix-go") || strings.Contains(fn, "/tests/fix44") {
			continue
		}
		if j := strings.LastIndex(fn, "("); j >= 0 {
			fn = fn[:j]
		}
		fn = strings.TrimPrefix(fn, "github.com/b2broker/simplefix-go")
		loc := strings.TrimSpace(lines[i+1])
		if j := strings.Index(loc, " +0x"); j >= 0 {
			loc = loc[:j]
		}
		if j := strings.LastIndex(loc, "/"); j >= 0 {
			loc = loc[j+1:]
		}
		frames = append(frames, fn+"@"+loc)
		if len(frames) == 3 {
			break
		}
	}
	return st + " " + strings.Join(frames, " < ")
}

func sendApp(l *live.Live, id string) error {
	m := fixgen.NewMarketDataRequestReject()
	m.SetMDReqID(id)
	return l.Sess.Send(m)
}

var bound = flag.Duration("bound", 8*time.Second, "how long an expectation may take before it counts as failed")

var seed = flag.Uint64("seed", 1, "seed: shifts the moment of the fault relative to the traffic")

var causes = []string{"peer-close", "peer-stops-reading", "client-close", "handler-stop", "bad-frame", "peer-close-mid-message"}
var phases = []string{"before-logon", "after-logon", "traffic", "during-logout"}

func scenario(id int, role, cause, phase string, buf int) *Rec {
	rec := &Rec{ID: id, Mode: "lifecycle", Skip: true, Oracle: map[string]string{},
		Case: fmt.Sprintf("role=%s cause=%s phase=%s buf=%d seed=%d id=%d", role, cause, phase, buf, *seed, id),
		Tags: []string{"role=" + role, "cause=" + cause, "phase=" + phase, fmt.Sprintf("buf=%d", buf)}}
	base := libGoroutines()
	wt := 5 * time.Second
	if cause == "peer-stops-reading" {
		wt = 150 * time.Millisecond
	}
	l, err := live.Start(live.Config{Role: role, Hb: 1, Buf: buf, WriteTimeout: wt})
	if err != nil {
		rec.Impl = "setup failed: " + err.Error()
		rec.Oracle["C13"] = "skip: setup failed"
		return rec
	}
	stop := make(chan struct{})
	var wg sync.WaitGroup
	logged := false
	if phase != "before-logon" {
		logged = l.Logon(1)
		if !logged {
			rec.Oracle["C13"] = "fail: logon exchange did not complete"
			l.Shutdown()
			return rec
		}
	}
	if phase == "traffic" || phase == "during-logout" {
		// a ResendRequest that cannot be served (its range reaches beyond what was sent) takes the
		// error paths of the store; whatever they do must not stand in the way of what follows
		_ = l.Send(l.PeerMsg("2", "7=1\x0116=1000\x01"))
		// inbound and outbound traffic in flight at the moment of the fault
		wg.Add(2)
		go func() {
			defer wg.Done()
			for i := 0; ; i++ {
				select {
				case <-stop:
					return
				default:
				}
				if l.Send(l.PeerMsg("1", "112=t"+strconv.Itoa(i)+"\x01")) != nil {
					return
				}
			}
		}()
		go func() {
			defer wg.Done()
			for i := 0; ; i++ {
				select {
				case <-stop:
					return
				default:
				}
				done := make(chan struct{})
				go func() { _ = sendApp(l, "o"+strconv.Itoa(i)); close(done) }()
				select {
				case <-done:
				case <-stop:
					return
				}
			}
		}()
		jit := (uint64(id)*2654435761 + *seed*40503) % 4000 // microseconds
		time.Sleep(15*time.Millisecond + time.Duration(jit)*10*time.Microsecond)
	}
	if phase == "during-logout" {
		go func() { _ = l.Sess.Logout() }()
		time.Sleep(time.Duration((uint64(id)*40503+*seed*2654435761)%3000) * time.Microsecond)
	}
	// ---- the fault ----
	switch cause {
	case "peer-close":
		_ = l.Peer.Close()
	case "peer-close-mid-message":
		_ = l.Send([]byte("8=FIX.4.4\x019=50\x0135=0\x0149=Cl"))
		_ = l.Peer.Close()
	case "peer-stops-reading":
		l.StopReading()
		// make sure there is something to write
		go func() {
			for i := 0; i < 50; i++ {
				select {
				case <-stop:
					return
				default:
				}
				done := make(chan struct{})
				go func() { _ = sendApp(l, "w"+strconv.Itoa(i)); close(done) }()
				select {
				case <-done:
				case <-time.After(300 * time.Millisecond):
				}
			}
		}()
	case "client-close":
		if l.Ini != nil {
			l.Ini.Close()
		} else {
			l.Acc.Close()
		}
	case "handler-stop":
		l.H.Stop()
	case "bad-frame": // a well-delimited frame without MsgType: the handler loop ends with an error
		_ = l.Send(live.Frame("49=X\x0134=9\x01"))
	}
	// ---- settle: every expectation is polled with a generous bound, so that a slow machine
	// delays the verdict instead of changing it ----
	time.Sleep(300 * time.Millisecond)
	var problems []string
	wait := func(ch <-chan struct{}, d time.Duration) bool {
		select {
		case <-ch:
			return true
		case <-time.After(d):
			return false
		}
	}
	// the transport is closed: the peer sees end of stream (unless it closed it itself or has
	// stopped looking)
	if cause != "peer-close" && cause != "peer-close-mid-message" && cause != "peer-stops-reading" {
		if !wait(l.EOF, *bound) {
			problems = append(problems, "the transport was not closed")
		}
	}
	// the serving call returned (initiator: Serve; acceptor: the per-connection goroutines are
	// judged by the goroutine profile below, ListenAndServe itself ends on Close)
	if l.Ini != nil {
		select {
		case <-l.Served:
		case <-time.After(*bound):
			problems = append(problems, "Initiator.Serve did not return")
		}
	}
	// notification of the passive side
	if cause == "peer-close" || cause == "peer-close-mid-message" {
		notified := false
		dl := time.After(*bound)
	poll:
		for !notified {
			select {
			case e := <-l.Events:
				if e == "h-disconnect" || e == "h-stopped" || e == "disconnect" {
					notified = true
				}
			case <-dl:
				break poll
			}
		}
		if !notified {
			problems = append(problems, "no disconnect/stopped notification after the peer closed the connection")
		}
	}
	close(stop)
	// a later send returns instead of blocking
	sd := make(chan struct{})
	go func() { _ = sendApp(l, "late"); _ = l.H.SendRaw([]byte("x")); close(sd) }()
	if !wait(sd, *bound) {
		problems = append(problems, "a send after termination blocks")
	}
	l.Shutdown()
	wg.Wait()
	// settle once more for what Shutdown itself has to unwind, then look for leftovers
	var left []string
	for i := 0; i < int(*bound/(100*time.Millisecond)); i++ {
		left = left[:0]
		for id, g := range libGoroutines() {
			if _, was := base[id]; !was {
				left = append(left, signature(g))
			}
		}
		if len(left) == 0 {
			break
		}
		time.Sleep(100 * time.Millisecond)
	}
	if len(left) > 0 {
		sort.Strings(left)
		problems = append(problems, fmt.Sprintf("%d goroutine(s) of the library left after the settling time: %s",
			len(left), strings.Join(left, " | ")))
	}
	rec.Impl = fmt.Sprintf("problems=%d", len(problems))
	if len(problems) == 0 {
		rec.Oracle["C13"] = "ok"
	} else {
		rec.Oracle["C13"] = "fail: " + strings.Join(problems, "; ")
	}
	return rec
}

// apiScenario exercises the handler's own termination entry points without a connection:
// whatever ends Run, a stopped or disconnect notification is delivered, Run returns, later sends
// return, and the drain goroutine ends with CloseErrorChan.
func apiScenario(id int, how string, buf int) *Rec {
	rec := &Rec{ID: id, Mode: "lifecycle-api", Skip: true, Oracle: map[string]string{},
		Case: fmt.Sprintf("api how=%s buf=%d seed=%d id=%d", how, buf, *seed, id),
		Tags: []string{"role=handler-api", "cause=" + how, fmt.Sprintf("buf=%d", buf)}}
	base := libGoroutines()
	ctx, cancel := context.WithCancel(context.Background())
	defer cancel()
	h := simplefixgo.NewAcceptorHandler(ctx, "35", buf)
	ev := make(chan string, 16)
	h.OnDisconnect(func() bool { ev <- "disconnect"; return true })
	h.OnStopped(func() bool { ev <- "stopped"; return true })
	ran := make(chan error, 1)
	go func() { ran <- h.Run() }()
	time.Sleep(time.Duration(1+(*seed+uint64(id))%5) * time.Millisecond)
	var problems []string
	want := "stopped"
	switch how {
	case "stop":
		h.Stop()
	case "stop-with-nil":
		h.StopWithError(nil)
	case "stop-with-conn-closed":
		h.StopWithError(fmt.Errorf("read error: %w", simplefixgo.ErrConnClosed))
		want = "disconnect"
	case "parent-cancel":
		cancel()
	}
	select {
	case <-ran:
	case <-time.After(*bound):
		problems = append(problems, "DefaultHandler.Run did not return")
	}
	select {
	case e := <-ev:
		if e != want {
			problems = append(problems, "notification "+e+" instead of "+want)
		}
	case <-time.After(*bound / 4):
		problems = append(problems, "no "+want+" notification")
	}
	h.Stop()
	sd := make(chan struct{})
	go func() {
		for i := 0; i <= buf; i++ {
			_ = h.SendRaw([]byte("x"))
		}
		h.ServeIncoming([]byte("y"))
		close(sd)
	}()
	select {
	case <-sd:
	case <-time.After(*bound):
		problems = append(problems, "a send after termination blocks")
	}
	h.CloseErrorChan()
	var left []string
	for i := 0; i < int(*bound/(100*time.Millisecond)); i++ {
		left = left[:0]
		for gid, g := range libGoroutines() {
			if _, was := base[gid]; !was {
				left = append(left, signature(g))
			}
		}
		if len(left) == 0 {
			break
		}
		time.Sleep(100 * time.Millisecond)
	}
	if len(left) > 0 {
		sort.Strings(left)
		problems = append(problems, fmt.Sprintf("%d goroutine(s) of the library left after the settling time: %s", len(left), strings.Join(left, " | ")))
	}
	rec.Impl = fmt.Sprintf("problems=%d", len(problems))
	if len(problems) == 0 {
		rec.Oracle["C13"] = "ok"
	} else {
		rec.Oracle["C13"] = "fail: " + strings.Join(problems, "; ")
	}
	return rec
}

func main() {
	start := flag.Int("start", 0, "first scenario index")
	n := flag.Int("n", 1000, "number of scenarios")
	stride := flag.Int("stride", 1, "take every stride-th scenario")
	outPath := flag.String("out", "-", "output")
	flag.Parse()
	var out *bufio.Writer
	if *outPath == "-" {
		out = bufio.NewWriter(os.Stdout)
	} else {
		f, err := os.Create(*outPath)
		if err != nil {
			panic(err)
		}
		defer f.Close()
		out = bufio.NewWriter(f)
	}
	defer out.Flush()
	id := 0
	done := 0
	for _, role := range []string{"A", "I"} {
		for _, cause := range causes {
			for _, phase := range phases {
				for _, buf := range []int{0, 1, 10} {
					if id >= *start && (id-*start)%*stride == 0 && done < *n {
						r := scenario(id, role, cause, phase, buf)
						b, _ := json.Marshal(r)
						out.Write(b)
						out.WriteByte('\n')
						out.Flush()
						done++
					}
					id++
				}
			}
		}
	}
	for _, how := range []string{"stop", "stop-with-nil", "stop-with-conn-closed", "parent-cancel"} {
		for _, buf := range []int{0, 1, 10} {
			if id >= *start && (id-*start)%*stride == 0 && done < *n {
				r := apiScenario(id, how, buf)
				b, _ := json.Marshal(r)
				out.Write(b)
				out.WriteByte('\n')
				out.Flush()
				done++
			}
			id++
		}
	}
}
