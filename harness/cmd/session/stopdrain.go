package main

// The handler stopped while accepted messages are still queued: every message ServeIncoming took
// is still offered to the handlers (all-types, then its own type) before Run reports that it stopped.

import (
	"context"
	"fmt"
	"sync/atomic"
	"time"

	simplefixgo "github.com/b2broker/simplefix-go"
)

func runStopDrains(id int, role string, buf int) {
	rec := &Rec{ID: id, Mode: "stop-drains", Case: fmt.Sprintf("STOPDRAIN %s buffer %d", role, buf), Oracle: map[string]string{},
		Tags: []string{"stop-with-queued-inbound", "role=" + role, fmt.Sprintf("buf=%d", buf)}, Skip: true}
	var h *simplefixgo.DefaultHandler
	if role == "A" {
		h = simplefixgo.NewAcceptorHandler(context.Background(), "35", buf)
	} else {
		h = simplefixgo.NewInitiatorHandler(context.Background(), "35", buf)
	}
	release := make(chan struct{})
	entered := make(chan struct{}, 1)
	var all, typed int32
	h.HandleIncoming(simplefixgo.AllMsgTypes, func(msg []byte) bool {
		if atomic.AddInt32(&all, 1) == 1 {
			entered <- struct{}{}
			<-release // the application is busy with the first message
		}
		return true
	})
	h.HandleIncoming("Y", func(msg []byte) bool { atomic.AddInt32(&typed, 1); return true })
	done := make(chan struct{})
	go func() { _ = h.Run(); close(done) }()
	k := buf + 1
	msg := []byte("8=FIX.4.4\x019=20\x0135=Y\x0134=1\x01262=a\x0110=000\x01")
	h.ServeIncoming(msg)
	select {
	case <-entered:
	case <-time.After(2 * time.Second):
	}
	for i := 1; i < k; i++ { // these fit into the queue: ServeIncoming returns for each
		h.ServeIncoming(msg)
	}
	h.Stop()
	close(release)
	verdict := "ok"
	select {
	case <-done:
	case <-time.After(3 * time.Second):
		verdict = "fail: Run did not return within 3 s of Stop"
	}
	if a, t := atomic.LoadInt32(&all), atomic.LoadInt32(&typed); verdict == "ok" && (int(a) != k || int(t) != k) {
		verdict = fmt.Sprintf("fail: %d messages were accepted by ServeIncoming before Stop; %d were offered to the all-types handler and %d to the handler of their type", k, a, t)
	}
	rec.Impl = verdict
	rec.Oracle["C19"] = verdict
	emit(rec)
}
