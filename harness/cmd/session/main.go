// session: correspondence and oracle driver for the session properties
// (C05a, C06, C07, C10, C14, C15, C16, C19).  A scenario is a configuration plus a list of
// operations; the real session.Session + DefaultHandler + memory.Storage is driven with
// them synchronously (inbound dispatch through the verif-tagged VerifServe), every
// operation's observables are printed in the protocol of coq/SessionProto.v, and the
// property oracles are evaluated on the implementation's observations alone.
package main

import (
	"bufio"
	"bytes"
	"context"
	"encoding/json"
	"errors"
	"flag"
	"fmt"
	"os"
	"regexp"
	"strconv"
	"strings"
	"sync/atomic"
	"time"

	simplefixgo "github.com/b2broker/simplefix-go"
	"github.com/b2broker/simplefix-go/fix"
	"github.com/b2broker/simplefix-go/session"
	"github.com/b2broker/simplefix-go/session/messages"
	"github.com/b2broker/simplefix-go/storages/memory"
	fixgen "github.com/b2broker/simplefix-go/tests/fix44"
	"github.com/b2broker/simplefix-go/utils"

	"verifharness/internal/desc"
	"verifharness/internal/rng"
)

// ---------- scenario description ----------

type Op struct {
	Kind  string // IN SEND LOGOUT STOP REGIN REGOUT REGEV
	Data  []byte // IN
	App   string // SEND: H T R
	A, B  []byte // SEND args
	Mt    string // REGIN/REGOUT
	Ev    int    // REGEV
	ID    int
	Flag  bool
	Amend bool   // REGOUT: the handler rewrites TargetCompID of the message it is shown
	Label string // generator's classification of an inbound message (for the oracles)
	Seq   int    // inbound: the sequence number it carries (-1 none / non numeric)
	Hb    int
	Enc   string
	Pw    string
}

type Stored struct {
	Seq            int
	App            string
	A, B           []byte
	Sender, Target string
}

type Scenario struct {
	Side      string // A or I
	Allowed   []string
	RefusedPw string // "" = approve all
	FailSaves []int
	Target    string
	Sender    string
	Hb        int
	Enc       string
	Password  string
	Username  string
	SeqReset  bool // Opts.MessageBuilders.SequenceResetBuilder is configured
	Lo, Hi    int  // acceptor limits
	CntIn     int
	CntOut    int
	Store     []Stored
	Pre       []Op
	Ops       []Op
}

func hx(s string) string { return desc.Hex([]byte(s)) }

func b01(b bool) string {
	if b {
		return "1"
	}
	return "0"
}

func (o *Op) enc() string {
	switch o.Kind {
	case "IN":
		return "IN " + desc.Hex(o.Data)
	case "SEND":
		switch o.App {
		case "H":
			return "SEND H " + desc.Hex(o.A)
		case "T":
			return "SEND T " + desc.Hex(o.A)
		default:
			return "SEND R " + desc.Hex(o.A) + " " + desc.Hex(o.B)
		}
	case "LOGOUT":
		return "LOGOUT"
	case "STOP":
		return "STOP"
	case "REGIN":
		return "REGIN " + hx(o.Mt) + " " + strconv.Itoa(o.ID) + " " + b01(o.Flag)
	case "REGOUT":
		return "REGOUT " + hx(o.Mt) + " " + strconv.Itoa(o.ID) + " " + b01(o.Flag) + " " + b01(o.Amend)
	case "REGEV":
		return "REGEV " + strconv.Itoa(o.Ev) + " " + strconv.Itoa(o.ID) + " " + b01(o.Flag)
	case "UNREGIN", "UNREGOUT":
		return "UNREG " + hx(o.Mt) + " " + strconv.Itoa(o.ID) // not understood by the model: such scenarios are oracle-only
	}
	panic("bad op " + o.Kind)
}

func encOps(ops []Op) string {
	s := strconv.Itoa(len(ops))
	for i := range ops {
		s += " " + ops[i].enc()
	}
	return s
}

func (sc *Scenario) Line() string {
	var sb strings.Builder
	side := sc.Side
	if sc.SeqReset {
		side += "S"
	}
	sb.WriteString("SESSION " + side + " " + strconv.Itoa(len(sc.Allowed)))
	for _, a := range sc.Allowed {
		sb.WriteString(" " + hx(a))
	}
	if sc.RefusedPw == "" {
		sb.WriteString(" -")
	} else {
		sb.WriteString(" " + hx(sc.RefusedPw))
	}
	sb.WriteString(" " + strconv.Itoa(len(sc.FailSaves)))
	for _, f := range sc.FailSaves {
		sb.WriteString(" " + strconv.Itoa(f))
	}
	sb.WriteString(" " + hx(sc.Target) + " " + hx(sc.Sender) + " " + strconv.Itoa(sc.Hb) + " " + hx(sc.Enc) + " " + hx(sc.Password) + " " + hx(sc.Username) + " 0")
	if sc.Side == "A" {
		sb.WriteString(" " + strconv.Itoa(sc.Lo) + " " + strconv.Itoa(sc.Hi))
	} else {
		sb.WriteString(" - -")
	}
	sb.WriteString(" " + strconv.Itoa(sc.CntIn) + " " + strconv.Itoa(sc.CntOut))
	sb.WriteString(" " + strconv.Itoa(len(sc.Store)))
	for _, st := range sc.Store {
		sb.WriteString(" " + strconv.Itoa(st.Seq) + " ")
		switch st.App {
		case "H":
			sb.WriteString("H " + desc.Hex(st.A))
		case "T":
			sb.WriteString("T " + desc.Hex(st.A))
		default:
			sb.WriteString("R " + desc.Hex(st.A) + " " + desc.Hex(st.B))
		}
		sb.WriteString(" " + hx(st.Sender) + " " + hx(st.Target))
	}
	sb.WriteString(" " + encOps(sc.Pre) + " " + encOps(sc.Ops))
	return sb.String()
}

// ---------- instrumented store ----------

type store struct {
	*memory.Storage
	fail  map[int]bool
	saves int
	log   *[]string
}

func (s *store) Save(id fix.StorageID, msg simplefixgo.SendingMessage, seq int) error {
	i := s.saves
	s.saves++
	if s.fail[i] {
		*s.log = append(*s.log, "S"+strconv.Itoa(seq)+"!")
		return errors.New("scripted save failure")
	}
	*s.log = append(*s.log, "S"+strconv.Itoa(seq)+"+")
	return s.Storage.Save(id, msg, seq)
}

var opts = session.Opts{
	MessageBuilders: session.MessageBuilders{
		HeaderBuilder:        fixgen.Header{}.New(),
		TrailerBuilder:       fixgen.Trailer{}.New(),
		LogonBuilder:         fixgen.Logon{}.New(),
		LogoutBuilder:        fixgen.Logout{}.New(),
		RejectBuilder:        fixgen.Reject{}.New(),
		HeartbeatBuilder:     fixgen.Heartbeat{}.New(),
		TestRequestBuilder:   fixgen.TestRequest{}.New(),
		ResendRequestBuilder: fixgen.ResendRequest{}.New(),
	},
	Tags: &messages.Tags{MsgType: 35, MsgSeqNum: 34, HeartBtInt: 108, EncryptedMethod: 98},
	SessionErrorCodes: &messages.SessionErrorCodes{
		InvalidTagNumber: 0, RequiredTagMissing: 1, UndefinedTag: 3, TagSpecialWithoutValue: 4,
		IncorrectValue: 5, IncorrectDataFormatValue: 6, DecryptionProblem: 7, SignatureProblem: 8,
		CompIDProblem: 9, Other: 99,
	},
}

func appMessage(app string, a, b []byte) messages.Message {
	switch app {
	case "H":
		m := fixgen.Heartbeat{}.Build()
		if len(a) > 0 {
			m.SetFieldTestReqID(string(a))
		}
		return m
	case "T":
		return fixgen.TestRequest{}.Build().SetFieldTestReqID(string(a))
	default:
		m := fixgen.NewMarketDataRequestReject()
		m.SetMDReqID(string(a))
		m.SetText(string(b))
		return m
	}
}

// ---------- running a scenario on the implementation ----------

type obs struct {
	Views     map[int][]byte
	State     int
	Cancelled bool
	Stopped   bool
	CntIn     int
	CntOut    int
	Items     []string // W<hex> S<seq>+ I<id> O<id>:<seq> E<id> X Y, in the model's order class by class
	Wires     [][]byte // raw wire messages as emitted (not normalised)
}

var placeholder = []byte("00000000-00:00:00.000")
var tsRe = regexp.MustCompile(`^\d{8}-\d{2}:\d{2}:\d{2}\.\d{3}$`)

// normalise replaces the SendingTime value by the model's placeholder and recomputes the checksum.
func normalise(w []byte) ([]byte, bool) {
	segs := bytes.Split(w, []byte{1})
	okTs := true
	for i, s := range segs {
		if bytes.HasPrefix(s, []byte("52=")) {
			if !tsRe.Match(s[3:]) {
				okTs = false
			}
			segs[i] = append([]byte("52="), placeholder...)
			break
		}
	}
	if len(segs) >= 2 && bytes.HasPrefix(segs[len(segs)-2], []byte("10=")) {
		pre := bytes.Join(segs[:len(segs)-2], []byte{1})
		sum := 1
		for _, c := range pre {
			sum += int(c)
		}
		segs[len(segs)-2] = []byte(fmt.Sprintf("10=%03d", sum%256))
	}
	return bytes.Join(segs, []byte{1}), okTs
}

type runner struct {
	sc      *Scenario
	h       *simplefixgo.DefaultHandler
	s       *session.Session
	st      *store
	log     []string // handler/store call log of the current op, in call order
	sendErr bool
	views   map[int][]byte // per sequence number: the bytes the last outgoing handler was shown
	amended bool
	regIDs  map[int]int64 // scenario handler id -> id returned by the registration
}

func newRunner(sc *Scenario) (*runner, error) {
	r := &runner{sc: sc}
	r.h = simplefixgo.NewAcceptorHandler(context.Background(), "35", 4096)
	mem := memory.NewStorage()
	// an earlier / parallel session filled the shared store
	for _, e := range sc.Store {
		m := appMessage(e.App, e.A, e.B)
		m.HeaderBuilder().SetFieldMsgSeqNum(e.Seq).SetFieldTargetCompID(e.Target).SetFieldSenderCompID(e.Sender).
			SetFieldSendingTime(string(placeholder))
		_ = mem.Save(fix.StorageID{Sender: e.Sender, Target: e.Target, Side: fix.Outgoing}, m, e.Seq)
	}
	_ = mem.SetSeqNum(fix.StorageID{Side: fix.Incoming}, sc.CntIn)
	_ = mem.SetSeqNum(fix.StorageID{Side: fix.Outgoing}, sc.CntOut)
	fail := map[int]bool{}
	for _, f := range sc.FailSaves {
		fail[f] = true
	}
	r.st = &store{Storage: mem, fail: fail, log: &r.log}
	o := opts
	if sc.SeqReset {
		o.MessageBuilders.SequenceResetBuilder = fixgen.SequenceReset{}.New()
	}
	o.AllowedEncryptedMethods = map[string]struct{}{}
	for _, a := range sc.Allowed {
		o.AllowedEncryptedMethods[a] = struct{}{}
	}
	settings := &session.LogonSettings{TargetCompID: sc.Target, SenderCompID: sc.Sender, HeartBtInt: sc.Hb,
		EncryptMethod: sc.Enc, Password: sc.Password, Username: sc.Username,
		LogonTimeout: 30 * time.Second, CloseTimeout: time.Hour}
	var err error
	if sc.Side == "A" {
		settings.HeartBtLimits = &session.IntLimits{Min: sc.Lo, Max: sc.Hi}
		r.s, err = session.NewAcceptorSession(&o, r.h, settings, func(req *session.LogonSettings) error {
			if sc.RefusedPw != "" && req.Password == sc.RefusedPw {
				return errors.New("refused")
			}
			return nil
		}, r.st, r.st)
	} else {
		r.s, err = session.NewInitiatorSession(r.h, &o, settings, r.st, r.st)
	}
	if err != nil {
		return nil, err
	}
	r.s.OnError(func(e error) { r.sendErr = true })
	return r, nil
}

func (r *runner) observe() obs {
	o := obs{State: int(r.s.VerifState()), Cancelled: r.s.Context().Err() != nil, Stopped: r.h.Context().Err() != nil}
	o.CntIn, _ = r.st.GetCurrSeqNum(fix.StorageID{Side: fix.Incoming})
	o.CntOut, _ = r.st.GetCurrSeqNum(fix.StorageID{Side: fix.Outgoing})
	for {
		select {
		case w := <-r.h.Outgoing():
			o.Wires = append(o.Wires, w)
			continue
		default:
		}
		break
	}
	o.Items = r.log
	r.log = nil
	o.Views = r.views
	r.views = nil
	return o
}

// The model lists an op's outputs in call order: saves, app-handler calls, wires and errors interleaved.
// The implementation's call log (saves, handlers) is in call order too; wires are appended to the
// outgoing channel in order.  To compare without instrumenting the hand-off, both sides are printed as
// "calls... then wires... then error flags" after a stable partition; the model side is partitioned by
// the Python check in the same way.
func (o *obs) line(sendErr, serveErr bool) string {
	parts := []string{strconv.Itoa(o.State), b01(o.Cancelled), b01(o.Stopped), strconv.Itoa(o.CntIn), strconv.Itoa(o.CntOut)}
	parts = append(parts, o.Items...)
	for _, w := range o.Wires {
		n, _ := normalise(w)
		parts = append(parts, "W"+desc.Hex(n))
	}
	if sendErr {
		parts = append(parts, "X")
	}
	if serveErr {
		parts = append(parts, "Y")
	}
	return strings.Join(parts, " ")
}

func (r *runner) apply(op *Op) (o obs, line string) {
	r.sendErr = false
	serveErr := false
	switch op.Kind {
	case "IN":
		if err := r.h.VerifServe(op.Data); err != nil {
			serveErr = true
		}
	case "SEND":
		if err := r.s.Send(appMessage(op.App, op.A, op.B)); err != nil {
			r.sendErr = true
		}
	case "LOGOUT":
		_ = r.s.Logout()
	case "STOP":
		_ = r.s.Stop()
	case "UNREGIN":
		_ = r.h.RemoveIncomingHandler(op.Mt, r.regIDs[op.ID])
	case "UNREGOUT":
		_ = r.h.RemoveOutgoingHandler(op.Mt, r.regIDs[op.ID])
	case "REGIN":
		id, fl := op.ID, op.Flag
		if r.regIDs == nil {
			r.regIDs = map[int]int64{}
		}
		r.regIDs[id] = r.h.HandleIncoming(op.Mt, func(msg []byte) bool {
			r.log = append(r.log, "I"+strconv.Itoa(id))
			return fl
		})
	case "REGOUT":
		id, fl, am := op.ID, op.Flag, op.Amend
		if am {
			r.amended = true
		}
		if r.regIDs == nil {
			r.regIDs = map[int]int64{}
		}
		r.regIDs[id] = r.h.HandleOutgoing(op.Mt, func(msg simplefixgo.SendingMessage) bool {
			seq := msg.HeaderBuilder().MsgSeqNum()
			r.log = append(r.log, "O"+strconv.Itoa(id)+":"+strconv.Itoa(seq))
			if fl && am {
				msg.HeaderBuilder().SetFieldTargetCompID("amd" + strconv.Itoa(id))
			}
			if b, err := msg.ToBytes(); err == nil {
				if r.views == nil {
					r.views = map[int][]byte{}
				}
				r.views[seq] = append([]byte{}, b...)
			}
			return fl
		})
	case "REGEV":
		id, fl := op.ID, op.Flag
		r.s.OnChangeState(utils.Event(op.Ev), func() bool {
			r.log = append(r.log, "E"+strconv.Itoa(id))
			return fl
		})
	}
	o = r.observe()
	return o, o.line(r.sendErr, serveErr)
}

// Run executes the scenario; returns the observation line and the per-op observations.
func runScenario(sc *Scenario, prog *int64) (line string, all []obs, err error) {
	r, err := newRunner(sc)
	if err != nil {
		return "", nil, err
	}
	for i := range sc.Pre {
		r.apply(&sc.Pre[i])
	}
	r.sendErr = false
	if e := r.s.Run(); e != nil {
		return "", nil, e
	}
	o := r.observe()
	lines := []string{o.line(r.sendErr, false)}
	all = append(all, o)
	for i := range sc.Ops {
		atomic.StoreInt64(prog, int64(i))
		o, l := r.apply(&sc.Ops[i])
		lines = append(lines, l)
		all = append(all, o)
	}
	r.h.Stop()
	return strings.Join(lines, " | "), all, nil
}

// ---------- peer messages, built independently of the library ----------

func frameMsg(body string) []byte {
	head := "8=FIX.4.4\x019=" + strconv.Itoa(len(body)) + "\x01"
	pre := head + body
	sum := 0
	for i := 0; i < len(pre); i++ {
		sum += int(pre[i])
	}
	return []byte(pre + fmt.Sprintf("10=%03d\x01", sum%256))
}

type peer struct {
	sender, target string
	seq            int
}

func (p *peer) msg(mt string, seqField string, body string) []byte {
	b := "35=" + mt + "\x01"
	if p.sender != "" {
		b += "49=" + p.sender + "\x01"
	}
	if p.target != "" {
		b += "56=" + p.target + "\x01"
	}
	if seqField != "" {
		b += seqField + "\x01"
	}
	b += "52=20240102-03:04:05.678\x01" + body
	return frameMsg(b)
}

// ---------- output ----------

type Rec struct {
	ID     int               `json:"id"`
	Mode   string            `json:"mode"`
	Case   string            `json:"case"`
	Impl   string            `json:"impl"`
	Oracle map[string]string `json:"oracle"`
	Tags   []string          `json:"tags,omitempty"`
	Size   int               `json:"size"`
	Skip   bool              `json:"skip,omitempty"`
}

var out *bufio.Writer

func emit(r *Rec) {
	b, _ := json.Marshal(r)
	out.Write(b)
	out.WriteByte('\n')
}

func main() {
	seed := flag.Uint64("seed", 1, "seed")
	n := flag.Int("n", 100, "number of scenarios")
	outPath := flag.String("out", "-", "output file")
	replay := flag.String("replay", "", "scenario JSON to replay")
	flag.Parse()
	if *outPath == "-" {
		out = bufio.NewWriterSize(os.Stdout, 1<<20)
	} else {
		f, err := os.Create(*outPath)
		if err != nil {
			panic(err)
		}
		defer f.Close()
		out = bufio.NewWriterSize(f, 1<<20)
	}
	defer out.Flush()
	if *replay != "" {
		var sc Scenario
		b, err := os.ReadFile(*replay)
		if err != nil {
			panic(err)
		}
		if err := json.Unmarshal(b, &sc); err != nil {
			panic(err)
		}
		runAndEmit(0, &sc, []string{"replay"})
		return
	}
	root := rng.New(*seed)
	id := 0
	for _, sc := range fixedScenarios() {
		runAndEmit(id, sc, []string{"corpus"})
		id++
	}
	for _, role := range []string{"A", "I"} {
		for _, buf := range []int{1, 4, 16} {
			runStopDrains(id, role, buf)
			id++
		}
	}
	for i := 0; i < *n && hangs < 3; i++ { // three blocked sessions are evidence enough: do not wait for more
		r := root.Fork()
		sc, tags := genScenario(r)
		runAndEmit(id, sc, tags)
		id++
	}
}

const hangLimit = 8 * time.Second

var hangs int // scenarios abandoned because the session blocked

func runAndEmit(id int, sc *Scenario, tags []string) {
	rec := &Rec{ID: id, Mode: "session", Case: sc.Line(), Oracle: map[string]string{}, Tags: tags, Size: len(sc.Ops)}
	var line string
	var all []obs
	var err error
	var p string
	prog := int64(-1)
	done := make(chan struct{})
	go func() {
		defer close(done)
		defer func() {
			if r := recover(); r != nil {
				p = fmt.Sprint(r)
			}
		}()
		line, all, err = runScenario(sc, &prog)
	}()
	// a scenario takes milliseconds; one that does not come back has blocked the session (the
	// goroutine is abandoned, the next scenario gets a fresh session)
	select {
	case <-done:
	case <-time.After(hangLimit):
		i := int(atomic.LoadInt64(&prog))
		what := "Session.Run"
		if i >= 0 && i < len(sc.Ops) {
			what = fmt.Sprintf("operation %d (%s %s)", i, sc.Ops[i].Kind, sc.Ops[i].Label)
		}
		hangs++
		rec.Impl = "HANG " + what
		for _, k := range []string{"C05", "C06", "C07", "C10", "C11", "C14", "C15", "C16", "C19"} {
			rec.Oracle[k] = "fail: " + what + " did not return within " + hangLimit.String() + ": the session is blocked and answers nothing any more"
		}
		scj, _ := json.Marshal(sc)
		rec.Tags = append(rec.Tags, "scenario="+string(scj))
		emit(rec)
		return
	}
	switch {
	case p != "":
		rec.Impl = "PANIC " + p
		rec.Oracle["C11"] = "fail: the session's inbound path panicked: " + p
		for _, k := range []string{"C05", "C06", "C07", "C10", "C14", "C15", "C16", "C19"} {
			rec.Oracle[k] = "fail: panic " + p
		}
	case err != nil:
		rec.Impl = "SETUPERR " + err.Error()
		rec.Skip = true
	default:
		rec.Impl = line
		evalOracles(sc, all, rec)
		for i := range sc.Ops {
			if sc.Ops[i].Kind == "UNREGIN" || sc.Ops[i].Kind == "UNREGOUT" {
				rec.Skip = true // oracle-only
			}
		}
	}
	if rec.Oracle["C11"] == "" {
		rec.Oracle["C11"] = "ok" // no message of the scenario crashed or hung the inbound path
	}
	// a resend range at the ends of the integer range: the model's store lookup recurses on a unary
	// numeral of the range's size, which the extracted program would build before looking at the store;
	// such scenarios are judged by the oracles alone
	for i := range sc.Ops {
		if o := &sc.Ops[i]; o.Label == "resend" && (o.ID > 1<<20 || o.ID < -(1<<20) || o.Ev > 1<<20 || o.Ev < -(1<<20)) {
			rec.Skip = true
			rec.Tags = append(rec.Tags, "resend-range-at-integer-limits")
		}
	}
	scj, _ := json.Marshal(sc)
	rec.Tags = append(rec.Tags, "scenario="+string(scj))
	emit(rec)
}
