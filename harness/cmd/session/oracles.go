package main

import (
	"bytes"
	"fmt"
	"strconv"
	"strings"
)

type wfield struct{ tag, val string }

func tokenize(w []byte) []wfield {
	var fs []wfield
	if len(w) == 0 {
		return fs
	}
	for _, seg := range bytes.Split(w[:len(w)-1], []byte{1}) {
		i := bytes.IndexByte(seg, '=')
		if i < 0 {
			fs = append(fs, wfield{string(seg), ""})
			continue
		}
		fs = append(fs, wfield{string(seg[:i]), string(seg[i+1:])})
	}
	return fs
}

func fget(fs []wfield, tag string) (string, bool) {
	for _, f := range fs {
		if f.tag == tag {
			return f.val, true
		}
	}
	return "", false
}

func mtype(w []byte) string {
	fs := tokenize(w)
	if len(fs) >= 3 && fs[2].tag == "35" {
		return fs[2].val
	}
	v, _ := fget(fs, "35")
	return v
}

func setFail(rec *Rec, id, msg string) {
	if cur, ok := rec.Oracle[id]; !ok || !strings.HasPrefix(cur, "fail") {
		rec.Oracle[id] = "fail: " + msg
	}
}

// evalOracles judges the implementation's observations against the properties, using only the
// generator's labels of what it sent and what came back.
func evalOracles(sc *Scenario, all []obs, rec *Rec) {
	for _, k := range []string{"C05", "C06", "C07", "C10", "C14", "C15", "C16", "C19"} {
		rec.Oracle[k] = "ok"
	}
	acceptor := sc.Side == "A"
	everLogged := false
	firstTx := map[int][]byte{} // sequence number -> bytes of first transmission
	// earlier session's stored messages count as first transmissions of their numbers
	for _, e := range sc.Store {
		m := appMessage(e.App, e.A, e.B)
		m.HeaderBuilder().SetFieldMsgSeqNum(e.Seq).SetFieldTargetCompID(e.Target).SetFieldSenderCompID(e.Sender).
			SetFieldSendingTime(string(placeholder))
		if b, err := m.ToBytes(); err == nil {
			firstTx[e.Seq] = b
		}
	}
	savedOK := map[int]bool{}
	for _, e := range sc.Store {
		savedOK[e.Seq] = true
	}
	lastNew := sc.CntOut
	stopIssued := false
	selfLogout := false
	ownLogoutAt := -1 // index of the local Logout/Stop whose answer is outstanding
	// the last sequence number received, computed from the inbound history alone (not read from the
	// counter store): the all-types hook records the number of every inbound message outside the two
	// logon-waiting states (a SequenceReset excepted when the session knows the type), an accepted
	// Logon records its own
	expIn := sc.CntIn
	expInDiverged := false
	anyRefusal := len(sc.FailSaves) > 0
	for _, o := range append(append([]Op{}, sc.Pre...), sc.Ops...) {
		if (o.Kind == "REGOUT" || o.Kind == "REGIN") && !o.Flag {
			anyRefusal = true
		}
	}
	for _, o := range append(append([]Op{}, sc.Pre...), sc.Ops...) {
		if o.Kind == "REGOUT" && o.Amend {
			anyRefusal = true // amended comp ids: outside C05's precondition as well
		}
	}
	evRefusal := false
	for _, o := range append(append([]Op{}, sc.Pre...), sc.Ops...) {
		if o.Kind == "REGEV" && !o.Flag {
			evRefusal = true // an application event handler that ends the chain before the session's own
		}
	}
	expSender, expTarget := sc.Sender, sc.Target
	gapless := true

	checkWires := func(i int, o *obs, isResendOp bool) {
		for _, w := range o.Wires {
			fs := tokenize(w)
			sv, ok := fget(fs, "34")
			n, err := strconv.Atoi(sv)
			if !ok || err != nil {
				setFail(rec, "C05", fmt.Sprintf("op %d: outbound message without numeric MsgSeqNum", i))
				continue
			}
			if prev, seen := firstTx[n]; seen {
				// a retransmission must be byte-identical to the first transmission
				if !bytes.Equal(prev, w) && !anyRefusal {
					setFail(rec, "C10", fmt.Sprintf("op %d: message %d re-sent with different bytes", i, n))
				}
				if !isResendOp {
					setFail(rec, "C05", fmt.Sprintf("op %d: duplicate sequence number %d outside a resend", i, n))
				}
				continue
			}
			firstTx[n] = append([]byte{}, w...)
			if n != lastNew+1 {
				gapless = false
				if !anyRefusal {
					setFail(rec, "C05", fmt.Sprintf("op %d: sequence number %d follows %d", i, n, lastNew))
				}
			}
			if n > lastNew {
				lastNew = n
			}
			if _, okTs := normalise(w); !okTs {
				setFail(rec, "C05", fmt.Sprintf("op %d: SendingTime not in FIX timestamp format", i))
			}
			s49, _ := fget(fs, "49")
			s56, _ := fget(fs, "56")
			if !anyRefusal && (s49 != expSender || s56 != expTarget) {
				setFail(rec, "C05", fmt.Sprintf("op %d: comp ids %q/%q, expected %q/%q", i, s49, s56, expSender, expTarget))
			}
		}
		for _, it := range o.Items {
			if strings.HasPrefix(it, "S") && strings.HasSuffix(it, "+") {
				n, _ := strconv.Atoi(it[1 : len(it)-1])
				savedOK[n] = true
			}
		}
	}
	_ = gapless

	// C19: store-before-send and veto, per op
	refusingOut := map[int]bool{}
	for _, o := range append(append([]Op{}, sc.Pre...), sc.Ops...) {
		if o.Kind == "REGOUT" && !o.Flag {
			refusingOut[o.ID] = true
		}
	}
	// a batch (the answer to a ResendRequest) ends at the first message that a failing save or a
	// refusing handler stops: nothing is saved, shown to a handler or transmitted after it
	checkBatchStops := func(i int, o *obs) {
		stopAt, stopSeq := -1, 0
		for k, it := range o.Items {
			if strings.HasPrefix(it, "S") && strings.HasSuffix(it, "!") {
				stopAt = k
				stopSeq, _ = strconv.Atoi(it[1 : len(it)-1])
				break
			}
			if strings.HasPrefix(it, "O") {
				parts := strings.SplitN(it[1:], ":", 2)
				id, _ := strconv.Atoi(parts[0])
				if len(parts) == 2 && refusingOut[id] {
					stopAt = k
					stopSeq, _ = strconv.Atoi(parts[1])
					break
				}
			}
		}
		if stopAt < 0 {
			return
		}
		for _, it := range o.Items[stopAt+1:] {
			if strings.HasPrefix(it, "S") || strings.HasPrefix(it, "O") {
				setFail(rec, "C19", fmt.Sprintf("op %d: the batch went on (%s) after message %d had been refused (%s)", i, it, stopSeq, o.Items[stopAt]))
				break
			}
		}
		for _, w := range o.Wires {
			sv, _ := fget(tokenize(w), "34")
			n, _ := strconv.Atoi(sv)
			if n >= stopSeq && mtype(w) != "3" {
				setFail(rec, "C19", fmt.Sprintf("op %d: message %d was transmitted although the batch had been stopped at message %d (%s)", i, n, stopSeq, o.Items[stopAt]))
				break
			}
		}
	}
	checkC19 := func(i int, o *obs) {
		saved := map[int]bool{}
		failed := map[int]bool{}
		for _, it := range o.Items {
			if strings.HasPrefix(it, "S") {
				n, _ := strconv.Atoi(it[1 : len(it)-1])
				if strings.HasSuffix(it, "+") {
					saved[n] = true
				} else {
					failed[n] = true
				}
			}
		}
		for _, w := range o.Wires {
			sv, _ := fget(tokenize(w), "34")
			n, _ := strconv.Atoi(sv)
			if v, ok := o.Views[n]; ok && !bytes.Equal(v, w) {
				setFail(rec, "C19", fmt.Sprintf("op %d: message %d was transmitted as %q but the last outgoing handler was shown %q", i, n, w, v))
			}
			if !saved[n] {
				setFail(rec, "C19", fmt.Sprintf("op %d: message %d left without having been saved under its number first", i, n))
			}
			if failed[n] && !saved[n] {
				setFail(rec, "C19", fmt.Sprintf("op %d: message %d transmitted although saving it failed", i, n))
			}
		}
	}

	// C19, inbound: every message is offered to the all-types handlers and then to the handlers of its
	// own type, in registration order; within one pool a handler answering false ends that pool's round
	type inReg struct {
		id   int
		flag bool
	}
	regIn := map[string][]inReg{}
	noteReg := func(o *Op) {
		switch o.Kind {
		case "REGIN":
			regIn[o.Mt] = append(regIn[o.Mt], inReg{o.ID, o.Flag})
		case "UNREGIN":
			l := regIn[o.Mt]
			for k := range l {
				if l[k].id == o.ID {
					regIn[o.Mt] = append(append([]inReg{}, l[:k]...), l[k+1:]...)
					break
				}
			}
		}
	}
	for k := range sc.Pre {
		noteReg(&sc.Pre[k])
	}
	removals := false // what removing a handler does is outside the property: such scenarios are not judged here
	for _, o := range append(append([]Op{}, sc.Pre...), sc.Ops...) {
		if o.Kind == "UNREGIN" {
			removals = true
		}
	}
	checkDispatch := func(i int, op *Op, o *obs) {
		mt, ok := fget(tokenize(op.Data), "35")
		if !ok || removals {
			return
		}
		var want []string
		for _, pool := range []string{"ALL", mt} {
			for _, r := range regIn[pool] {
				want = append(want, "I"+strconv.Itoa(r.id))
				if !r.flag {
					break
				}
			}
		}
		var got []string
		for _, it := range o.Items {
			if strings.HasPrefix(it, "I") {
				got = append(got, it)
			}
		}
		if strings.Join(got, " ") != strings.Join(want, " ") {
			setFail(rec, "C19", fmt.Sprintf("op %d (%s): the inbound message of type %q was offered to the application's handlers [%s], expected [%s] (all-types handlers, then the handlers of its type)", i, op.Label, mt, strings.Join(got, " "), strings.Join(want, " ")))
		}
	}

	acceptableBefore := false
	c07Types := func(i int, op *Op, types []string, isLogged bool) {
		for k, t := range types {
			if t != "A" && t != "5" && t != "3" {
				// the Logon answer and a gap ResendRequest belong to the successful logon itself
				if isLogged && (t == "2") {
					continue
				}
				setFail(rec, "C07", fmt.Sprintf("op %d (%s): message type %q sent although no acceptable Logon has been delivered (wire %d)", i, op.Label, t, k))
			}
		}
	}

	pre := all[0]
	// Run (initiator): the first output is the Logon with the configured parameters
	if !acceptor && !anyRefusal {
		if len(pre.Wires) != 1 || mtype(pre.Wires[0]) != "A" {
			setFail(rec, "C06", "initiator did not send exactly one Logon as its first message")
		} else {
			fs := tokenize(pre.Wires[0])
			hb, _ := fget(fs, "108")
			en, _ := fget(fs, "98")
			un, _ := fget(fs, "553")
			pw, _ := fget(fs, "554")
			if hb != strconv.Itoa(sc.Hb) || en != sc.Enc || un != sc.Username || pw != sc.Password {
				setFail(rec, "C06", "initiator Logon does not carry the configured heartbeat/method/credentials")
			}
		}
	}
	checkWires(-1, &pre, false)
	checkC19(-1, &pre)

	for i := range sc.Ops {
		op := &sc.Ops[i]
		before := all[i]
		o := all[i+1]
		wasLogged := before.State == 1
		isLogged := o.State == 1
		types := []string{}
		for _, w := range o.Wires {
			types = append(types, mtype(w))
		}
		isResend := op.Kind == "IN" && op.Label == "resend"
		// the acceptor mirrors the comp ids of any parsed Logon received while waiting for one
		if acceptor && op.Kind == "IN" && strings.HasPrefix(op.Label, "logon-") && op.Label != "logon-damaged" && before.State == 0 {
			expSender, expTarget = "Server", "Client"
			fs := tokenize(op.Data)
			if v, ok := fget(fs, "56"); ok {
				expSender = v
			}
			if v, ok := fget(fs, "49"); ok {
				expTarget = v
			}
		}
		checkWires(i, &o, isResend)
		checkC19(i, &o)
		if op.Kind == "IN" {
			checkDispatch(i, op, &o)
		}
		noteReg(op)
		if isResend && before.State == 1 {
			checkBatchStops(i, &o)
		}

		// C07: nothing but Logon/Logout/Reject while the history contains no acceptable Logon (the
		// quantifier of the property is over the inbound history, not over what the session believes)
		if !acceptableBefore && !everLogged && op.Kind != "SEND" && !anyRefusal {
			c07Types(i, op, types, isLogged)
		} else if !acceptableBefore && op.Kind != "SEND" && !anyRefusal {
			// the session considers itself logged on although no acceptable Logon was delivered
			c07Types(i, op, types, false)
		}
		if op.Kind == "IN" && !anyRefusal {
			lbl := op.Label
			// C06
			if !wasLogged && isLogged {
				okLabel := lbl == "logon-good" || (!acceptor && lbl == "logon-answer")
				okState := (acceptor && before.State == 0) || (!acceptor && before.State == 2) || before.State == 5
				if before.State == 5 {
					// leaving WaitingTestReqAnswer on any inbound message is a logged-on session staying logged on
				} else if !okLabel || !okState {
					setFail(rec, "C06", fmt.Sprintf("op %d: session became logged on by %q in state %d", i, lbl, before.State))
				}
			}
			if strings.HasPrefix(lbl, "logon-") && acceptor {
				switch {
				case before.State == 0 && lbl == "logon-good":
					nA, nOther := 0, 0
					for k, t := range types {
						switch t {
						case "A":
							nA++
							fs := tokenize(o.Wires[k])
							hb, _ := fget(fs, "108")
							en, _ := fget(fs, "98")
							if hb != strconv.Itoa(op.Hb) || en != op.Enc {
								setFail(rec, "C06", fmt.Sprintf("op %d: Logon answer does not echo heartbeat/method", i))
							}
						case "2":
						default:
							nOther++
						}
					}
					if !isLogged || nA != 1 || nOther != 0 {
						setFail(rec, "C06", fmt.Sprintf("op %d: acceptable Logon not answered by exactly one Logon (logged=%v, types=%v)", i, isLogged, types))
					}
					// C10: gap detection, against the history as well as against the counter
					if op.Seq > expIn+1 && expIn != before.CntIn && !anyRefusal {
						req := false
						for _, t := range types {
							if t == "2" {
								req = true
							}
						}
						if !req {
							setFail(rec, "C10", fmt.Sprintf("op %d: Logon %d after %d (the last number received; the counter store says %d) did not trigger a ResendRequest", i, op.Seq, expIn, before.CntIn))
						}
					}
					if op.Seq > before.CntIn+1 {
						found := false
						for k, t := range types {
							if t == "2" {
								fs := tokenize(o.Wires[k])
								b, _ := fget(fs, "7")
								e, _ := fget(fs, "16")
								if b == strconv.Itoa(before.CntIn+1) && e == "0" {
									found = true
								} else {
									setFail(rec, "C10", fmt.Sprintf("op %d: gap ResendRequest asks %s..%s, first missing is %d", i, b, e, before.CntIn+1))
								}
							}
						}
						if !found {
							setFail(rec, "C10", fmt.Sprintf("op %d: Logon %d after %d did not trigger a ResendRequest", i, op.Seq, before.CntIn))
						}
					}
				case before.State == 0 || before.State == 1:
					// refused / damaged Logon while waiting, or any Logon while logged on
					if len(types) != 1 || types[0] != "3" {
						setFail(rec, "C06", fmt.Sprintf("op %d (%s, state %d): expected exactly one Reject, got %v", i, lbl, before.State, types))
					} else {
						fs := tokenize(o.Wires[0])
						ref, _ := fget(fs, "45")
						if op.Seq >= 0 && ref != strconv.Itoa(op.Seq) {
							setFail(rec, "C06", fmt.Sprintf("op %d: Reject references %q, the Logon carried %d", i, ref, op.Seq))
						}
						tagid, _ := fget(fs, "371")
						if before.State == 0 {
							if lbl == "logon-bad-enc" && tagid != "98" {
								setFail(rec, "C06", fmt.Sprintf("op %d: Reject names tag %q, offending tag is 98", i, tagid))
							}
							if lbl == "logon-bad-hb" && tagid != "108" {
								setFail(rec, "C06", fmt.Sprintf("op %d: Reject names tag %q, offending tag is 108", i, tagid))
							}
						}
					}
					if o.State != before.State {
						setFail(rec, "C06", fmt.Sprintf("op %d (%s): state changed %d -> %d", i, lbl, before.State, o.State))
					}
				}
			}
			// C10, initiating side: the peer's Logon answer numbered beyond the next expected number
			if !acceptor && lbl == "logon-answer" && before.State == 2 && isLogged && op.Seq >= 0 {
				found := false
				for k, t := range types {
					if t == "2" {
						fs := tokenize(o.Wires[k])
						b, _ := fget(fs, "7")
						e, _ := fget(fs, "16")
						if op.Seq > before.CntIn+1 && b == strconv.Itoa(before.CntIn+1) && e == "0" {
							found = true
						} else {
							setFail(rec, "C10", fmt.Sprintf("op %d: ResendRequest %s..%s on a Logon answer %d after %d", i, b, e, op.Seq, before.CntIn))
						}
					}
				}
				if op.Seq > before.CntIn+1 && !found {
					setFail(rec, "C10", fmt.Sprintf("op %d: Logon answer %d after %d did not trigger a ResendRequest for %d..", i, op.Seq, before.CntIn, before.CntIn+1))
				}
			}
			// C16: invalid administrative messages
			invalid := false
			base := strings.TrimSuffix(lbl, "-damaged")
			switch base {
			case "heartbeat", "testreq", "resend":
				invalid = strings.HasSuffix(lbl, "-damaged") || before.State != 1
			case "logout":
				invalid = strings.HasSuffix(lbl, "-damaged") || (before.State != 1 && before.State != 3)
			}
			if lbl == "logon-damaged" || (strings.HasPrefix(lbl, "logon-") && before.State == 1) {
				invalid = true
			}
			if invalid && before.State != 5 {
				if len(types) != 1 || types[0] != "3" {
					setFail(rec, "C16", fmt.Sprintf("op %d (%s, state %d): expected exactly one Reject, got %v", i, lbl, before.State, types))
				} else {
					fs := tokenize(o.Wires[0])
					ref, _ := fget(fs, "45")
					tagid, _ := fget(fs, "371")
					if op.Seq >= 0 {
						if ref != strconv.Itoa(op.Seq) {
							setFail(rec, "C16", fmt.Sprintf("op %d (%s): RefSeqNum %q, offending message carried %d", i, lbl, ref, op.Seq))
						}
					} else if tagid != "34" {
						setFail(rec, "C16", fmt.Sprintf("op %d (%s): sequence number missing/not numeric but RefTagID is %q", i, lbl, tagid))
					}
				}
				if o.State != before.State || o.Cancelled != before.Cancelled || o.Stopped != before.Stopped {
					setFail(rec, "C16", fmt.Sprintf("op %d (%s): state %d->%d cancelled %v->%v", i, lbl, before.State, o.State, before.Cancelled, o.Cancelled))
				}
			}
			// C14
			if lbl == "testreq" && before.State == 1 {
				if len(types) != 1 || types[0] != "0" {
					setFail(rec, "C14", fmt.Sprintf("op %d: TestRequest answered by %v", i, types))
				} else if id, _ := fget(tokenize(o.Wires[0]), "112"); id != string(op.A) {
					setFail(rec, "C14", fmt.Sprintf("op %d: Heartbeat echoes %q, request carried %q", i, id, op.A))
				}
			}
			// C10: the answer to a resend request
			if lbl == "resend" && before.State == 1 {
				b, e := op.ID, op.Ev
				last := before.CntOut
				if e == 0 {
					e = last
				}
				var want [][]byte
				servable := b >= 1 && b <= e && e <= last
				if servable {
					for n := b; n <= e; n++ {
						if !savedOK[n] || firstTx[n] == nil {
							servable = false
							break
						}
						want = append(want, firstTx[n])
					}
				}
				if servable && !anyRefusal {
					if len(o.Wires) != len(want) {
						setFail(rec, "C10", fmt.Sprintf("op %d: resend %d..%d of %d answered with %d messages, expected %d", i, op.ID, op.Ev, last, len(o.Wires), len(want)))
					} else {
						for k := range want {
							if !bytes.Equal(want[k], o.Wires[k]) {
								setFail(rec, "C10", fmt.Sprintf("op %d: resend answer %d is not the first transmission of %d", i, k, b+k))
							}
						}
					}
				} else if !servable {
					for _, w := range o.Wires {
						sv, _ := fget(tokenize(w), "34")
						n, _ := strconv.Atoi(sv)
						if mtype(w) != "3" && (n < op.ID || (op.Ev != 0 && n > op.Ev)) {
							setFail(rec, "C10", fmt.Sprintf("op %d: message %d retransmitted outside the requested range %d..%d", i, n, op.ID, op.Ev))
						}
					}
				}
			}
			// C15
			if lbl == "logout" && ownLogoutAt >= 0 && before.State == 1 && !anyRefusal && !evRefusal {
				// keyed on the history, not on what the session believes: its own Logout is out and
				// unanswered, nothing since then logs a session on again, so this is the answer
				setFail(rec, "C15", fmt.Sprintf("op %d: the session sent its own Logout at op %d and no answer had arrived, yet it reports itself logged on and treats the peer's Logout as a new request (sent %v)", i, ownLogoutAt, types))
			}
			if lbl == "logout" {
				ownLogoutAt = -1
				switch before.State {
				case 1:
					if len(types) != 1 || types[0] != "5" {
						setFail(rec, "C15", fmt.Sprintf("op %d: peer Logout answered by %v", i, types))
					}
					if isLogged {
						setFail(rec, "C15", fmt.Sprintf("op %d: still logged on after the peer's Logout", i))
					}
				case 3:
					if len(types) != 0 {
						setFail(rec, "C15", fmt.Sprintf("op %d: a second Logout (or other message) %v was sent on the peer's answer", i, types))
					}
					found := false
					for _, it := range o.Items {
						if it == "E95" {
							found = true
						}
					}
					if !found && !evRefusal {
						setFail(rec, "C15", fmt.Sprintf("op %d: logout event not signalled on the peer's answer", i))
					}
					if stopIssued && !o.Cancelled && !evRefusal {
						setFail(rec, "C15", fmt.Sprintf("op %d: session context not cancelled on the peer's answer to Stop", i))
					}
				}
			}
		}
		if op.Kind == "LOGOUT" || op.Kind == "STOP" {
			if len(types) != 1 || types[0] != "5" {
				if !anyRefusal {
					setFail(rec, "C15", fmt.Sprintf("op %d: %s sent %v, expected exactly one Logout", i, op.Kind, types))
				}
			}
			if op.Kind == "STOP" {
				stopIssued = true
			}
			if before.State == 1 && o.State == 3 && len(types) == 1 && types[0] == "5" {
				ownLogoutAt = i
			}
			selfLogout = true
		}
		if op.Kind == "IN" {
			if _, okT := fget(tokenize(op.Data), "35"); okT && op.Seq >= 0 && before.State != 0 && before.State != 2 {
				if mt, _ := fget(tokenize(op.Data), "35"); !(sc.SeqReset && mt == "4") {
					expIn = op.Seq
				}
			}
			if strings.HasPrefix(op.Label, "logon-") && !wasLogged && isLogged && op.Seq >= 0 {
				expIn = op.Seq
			}
			if expIn != o.CntIn {
				expInDiverged = true
			}
		}
		if o.State != 1 && o.State != 3 { // the wait for the answer is over (deadline, disconnect, ...)
			ownLogoutAt = -1
		}
		if isLogged {
			everLogged = true
		}
		if op.Kind == "IN" && (op.Label == "logon-good" || (!acceptor && op.Label == "logon-answer")) {
			acceptableBefore = true
		}
	}
	_ = selfLogout
	if expInDiverged {
		rec.Tags = append(rec.Tags, "history-counter-differs-from-store")
	}
}
