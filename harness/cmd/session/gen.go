package main

import (
	"bytes"
	"fmt"
	"strconv"
	"strings"

	"verifharness/internal/rng"
)

var nastyIDs = []string{"aloha", "=", "a=b", "10=123", "112=x", "35=0", " ", "  x ", "0", "34=7", "\x00", "\xff\xfe", "Y", "8=FIX.4.4", "id with spaces", "58=t", "371=34", "45=9"}

func nasty(r *rng.R) string {
	switch r.Intn(6) {
	case 0:
		n := r.Range(1, 300)
		b := make([]byte, n)
		for i := range b {
			c := byte(r.Intn(256))
			if c == 1 {
				c = 2
			}
			b[i] = c
		}
		return string(b)
	case 1:
		return nastyIDs[r.Intn(len(nastyIDs))] + nastyIDs[r.Intn(len(nastyIDs))]
	default:
		return nastyIDs[r.Intn(len(nastyIDs))]
	}
}

// damage variants of a framed message that keep MsgType readable
func damageCS(m []byte) []byte {
	b := append([]byte{}, m...)
	i := len(b) - 2 // last checksum digit
	if b[i] == '9' {
		b[i] = '0'
	} else {
		b[i]++
	}
	return b
}

func damageLen(m []byte, d int) []byte {
	// change the declared BodyLength by d (overstated or understated), re-solve the checksum so
	// that only the length is wrong
	segs := bytes.Split(m, []byte{1})
	n, _ := strconv.Atoi(string(segs[1][2:]))
	if n+d < 0 {
		d = 1
	}
	segs[1] = []byte("9=" + strconv.Itoa(n+d))
	pre := bytes.Join(segs[:len(segs)-2], []byte{1})
	sum := 1
	for _, c := range pre {
		sum += int(c)
	}
	segs[len(segs)-2] = []byte(fmt.Sprintf("10=%03d", sum%256))
	return bytes.Join(segs, []byte{1})
}

type gstate struct {
	r        *rng.R
	sc       *Scenario
	p        peer
	nextID   int
	stopped  bool
	regsOut  int
	regsIn   int
	refusing bool
	logons   int // Logons generated so far in this scenario
}

// num renders an integer the ways FIX peers do and strconv.Atoi accepts: mostly plain, sometimes
// with leading zeros, rarely with an explicit plus sign.
func (g *gstate) num(v int) string {
	s := strconv.Itoa(v)
	if v < 0 {
		return s
	}
	switch g.r.Intn(12) {
	case 0:
		return "0" + s
	case 1:
		return "00" + s
	case 2:
		return "+" + s
	}
	return s
}

func (g *gstate) seqField(kind int) (string, int) {
	// kind 0: numeric next; 1: missing; 2: non numeric; 3: numeric jump
	switch kind {
	case 1:
		return "", -1
	case 2:
		return "34=x" + strconv.Itoa(g.r.Intn(9)), -1
	case 3:
		g.p.seq += g.r.Range(2, 5)
		return "34=" + g.num(g.p.seq), g.p.seq
	case 4:
		return "34=", -1
	}
	g.p.seq++
	return "34=" + g.num(g.p.seq), g.p.seq
}

func (g *gstate) logon(kind string) Op {
	sc := g.sc
	hb := g.r.Range(sc.Lo, sc.Hi)
	if hb > 60 {
		hb = g.r.Range(sc.Lo, 60)
	}
	if hb > 0 && hb < 20 { // no real timer may fire inside a logic scenario
		hb += 20
		if hb > sc.Hi {
			hb = sc.Hi
		}
	}
	enc := sc.Allowed[g.r.Intn(len(sc.Allowed))]
	pw := "pw" + strconv.Itoa(g.r.Intn(5))
	label := "logon-good"
	switch kind {
	case "bad-enc":
		enc = "7"
		label = "logon-bad-enc"
	case "bad-hb-lo":
		hb = sc.Lo - g.r.Range(1, 3)
		label = "logon-bad-hb"
	case "bad-hb-hi":
		hb = sc.Hi + g.r.Range(1, 100)
		label = "logon-bad-hb"
	case "refused":
		pw = sc.RefusedPw
		label = "logon-refused"
	case "bad-both":
		enc = "9"
		hb = sc.Hi + 1
		label = "logon-bad-enc"
	case "refused-bad-hb":
		pw = sc.RefusedPw
		hb = sc.Hi + g.r.Range(1, 9)
		label = "logon-bad-hb"
	case "refused-bad-enc":
		pw = sc.RefusedPw
		enc = "5"
		label = "logon-bad-enc"
	case "no-enc", "empty-enc": // EncryptMethod left out, or sent without a value: not a permitted method
		enc = ""
		label = "logon-bad-enc"
	case "no-hb": // HeartBtInt left out: no interval, whatever an earlier Logon on this session carried
		hb = 0
		label = "logon-bad-hb"
	case "edge-lo":
		hb = sc.Lo
	case "edge-hi":
		hb = sc.Hi
	case "unstartable": // within limits that admit it, but no timer can run with it
		hb = -g.r.Intn(2)
		if hb < sc.Lo {
			hb = sc.Lo
		}
	}
	// limits with a negative lower bound admit intervals with which the timers cannot be started:
	// such a Logon is refused by a Reject naming HeartBtInt, like one outside the limits
	if label == "logon-good" && hb <= 0 {
		label = "logon-bad-hb"
	}
	if sc.Side == "I" {
		if label != "logon-good" {
			label = "logon-answer"
		}
	}
	skind := 0
	if g.r.Chance(1, 6) {
		skind = 3
	}
	// a peer that comes back may start numbering afresh (its numbers go down), and its next Logon
	// then often arrives with a gap
	if g.logons > 0 && g.r.Chance(1, 4) {
		g.p.seq = g.r.Intn(2)
	}
	if g.logons > 1 && g.r.Chance(1, 3) {
		skind = 3
	}
	g.logons++
	sf, seq := g.seqField(skind)
	body := "98=" + enc + "\x01108=" + g.num(hb) + "\x01"
	if kind == "no-enc" {
		body = "108=" + g.num(hb) + "\x01"
	}
	if kind == "no-hb" {
		body = "98=" + enc + "\x01"
	}
	if g.r.Chance(1, 3) {
		body += "141=" + []string{"Y", "N"}[g.r.Intn(2)] + "\x01"
	}
	body += "553=user" + strconv.Itoa(g.r.Intn(3)) + "\x01554=" + pw + "\x01"
	m := g.p.msg("A", sf, body)
	op := Op{Kind: "IN", Data: m, Label: label, Seq: seq, Hb: hb, Enc: enc, Pw: pw}
	switch kind {
	case "damaged-cs":
		op.Data = damageCS(m)
		op.Label = "logon-damaged"
	case "damaged-len":
		op.Data = damageLen(m, []int{1, -1, 2, -2, -7, 9, -1, 1}[g.r.Intn(8)])
		op.Label = "logon-damaged"
	case "nonnumeric-hb":
		sf2 := sf
		op.Data = g.p.msg("A", sf2, "98="+enc+"\x01108=abc\x01")
		op.Label = "logon-damaged"
	}
	return op
}

// admin builds an administrative message of type mt with optional damage.
func (g *gstate) admin(mt string, body string, base string) Op {
	dk := g.r.Intn(15)
	skind := 0
	switch dk {
	case 0:
		skind = 1
	case 1:
		skind = 2
	case 4:
		skind = 4
	}
	sf, seq := g.seqField(skind)
	m := g.p.msg(mt, sf, body)
	op := Op{Kind: "IN", Data: m, Label: base, Seq: seq}
	if skind == 2 || skind == 4 {
		op.Label = base + "-damaged"
	}
	switch dk {
	case 2:
		op.Data = damageCS(m)
		op.Label = base + "-damaged"
	case 3:
		op.Data = damageLen(m, []int{1, -1, 2, -2, -7, 9, -1, 1}[g.r.Intn(8)])
		op.Label = base + "-damaged"
	}
	return op
}

func genScenario(r *rng.R) (*Scenario, []string) {
	sc := &Scenario{Side: "A", Allowed: []string{"0"}, Lo: 20, Hi: 60, Hb: 30, Enc: "0"}
	if r.Chance(1, 3) {
		sc.Side = "I"
		sc.Target, sc.Sender = "Server", "Client"
		// credentials: both, a password alone (token-style logon), a user name alone, none
		switch r.Intn(6) {
		case 0:
			sc.Password, sc.Username = "token-1234", ""
		case 1:
			sc.Password, sc.Username = "", "usr"
		case 2:
			sc.Password, sc.Username = "", ""
		default:
			sc.Password, sc.Username = "secret", "usr"
		}
		sc.Hb = r.Range(25, 60)
	}
	if r.Chance(1, 4) {
		sc.Allowed = []string{"0", "3"}
	}
	sc.SeqReset = r.Chance(1, 2)
	lims := [][2]int{{20, 60}, {30, 30}, {25, 40}, {20, 1000}, {-1, 60}, {-3, 30}}
	l := lims[r.Intn(len(lims))]
	sc.Lo, sc.Hi = l[0], l[1]
	if r.Chance(1, 2) {
		sc.RefusedPw = "bad"
	}
	tags := []string{"side=" + sc.Side}
	// shared / reused store
	if r.Chance(1, 3) {
		k := r.Range(1, 5)
		for i := 1; i <= k; i++ {
			sc.Store = append(sc.Store, Stored{Seq: i, App: "R", A: []byte("req" + strconv.Itoa(i)), B: []byte("secret text of another session " + strconv.Itoa(i)), Sender: "Other", Target: "Peer"})
		}
		sc.CntOut = k
		sc.CntIn = r.Intn(4)
		tags = append(tags, "prepopulated-store")
	} else if r.Chance(1, 5) {
		// a resumed session: the numbering goes on from where an earlier run stopped, the message
		// store starts empty (the counter does not count what this store holds)
		sc.CntOut = r.Range(5, 60)
		sc.CntIn = r.Intn(6)
		tags = append(tags, "resumed-counter")
	}
	if r.Chance(1, 8) {
		n := r.Range(1, 3)
		for i := 0; i < n; i++ {
			sc.FailSaves = append(sc.FailSaves, r.Intn(12))
		}
		tags = append(tags, "failing-saves")
	}
	g := &gstate{r: r, sc: sc, nextID: 1}
	g.p = peer{sender: "Client", target: "Server"}
	if r.Chance(1, 5) { // identifiers are free text: one that contains what looks like a field
		g.p.sender = []string{"LDN34=A", "C35=0", "X10=000", "N9=1"}[r.Intn(4)]
	}
	if sc.Side == "I" {
		g.p = peer{sender: "Server", target: "Client"}
	}
	// event loggers, always: ids 90..95 for events 0..5
	for _, e := range []int{0, 3, 4, 5} {
		sc.Pre = append(sc.Pre, Op{Kind: "REGEV", Ev: e, ID: 90 + e, Flag: true})
	}
	reg := func() Op {
		id := g.nextID
		g.nextID++
		acc := !r.Chance(1, 6)
		if !acc {
			g.refusing = true
		}
		mts := []string{"ALL", "ALL", "0", "1", "A", "3", "5", "Y", "2", "a", "y", "all"} // message types are case-sensitive: a is not A
		mt := mts[r.Intn(len(mts))]
		if r.Bool() {
			return Op{Kind: "REGIN", Mt: mt, ID: id, Flag: acc}
		}
		return Op{Kind: "REGOUT", Mt: mt, ID: id, Flag: acc, Amend: r.Chance(1, 4)}
	}
	if r.Chance(1, 3) {
		for i := r.Range(1, 3); i > 0; i-- {
			sc.Pre = append(sc.Pre, reg())
		}
		tags = append(tags, "app-handlers")
	}
	n := r.Range(1, 40)
	if r.Chance(1, 5) {
		n = r.Range(1, 4)
	}
	// style: unauthenticated histories (no acceptable logon) vs normal
	unauth := r.Chance(1, 4)
	if unauth {
		tags = append(tags, "no-acceptable-logon")
	}
	loggedGuess := false // generator's guess, only to bias choices
	for i := 0; i < n; i++ {
		c := r.Intn(100)
		switch {
		case c < 14 && !unauth:
			kinds := []string{"good", "good", "good", "edge-lo", "edge-hi"}
			if sc.Lo < 0 {
				kinds = append(kinds, "unstartable", "unstartable")
			}
			sc.Ops = append(sc.Ops, g.logon(kinds[r.Intn(len(kinds))]))
			loggedGuess = true
		case c < 24:
			kinds := []string{"bad-enc", "bad-hb-lo", "bad-hb-hi", "refused", "bad-both", "damaged-cs", "damaged-len", "nonnumeric-hb", "refused-bad-hb", "refused-bad-enc", "no-enc", "empty-enc", "no-hb", "no-hb"}
			k := kinds[r.Intn(len(kinds))]
			if strings.HasPrefix(k, "refused") && sc.RefusedPw == "" {
				k = "bad-enc"
			}
			sc.Ops = append(sc.Ops, g.logon(k))
		case c < 34:
			body := ""
			if r.Bool() {
				body = "112=" + nasty(r) + "\x01"
			}
			sc.Ops = append(sc.Ops, g.admin("0", body, "heartbeat"))
		case c < 46:
			id := nasty(r)
			op := g.admin("1", "112="+id+"\x01", "testreq")
			op.A = []byte(id)
			sc.Ops = append(sc.Ops, op)
		case c < 58:
			b := r.Range(0, 8)
			e := r.Range(0, 9)
			switch r.Intn(5) {
			case 0:
				e = 0
			case 1:
				e = b
			case 2:
				b, e = r.Range(1, 4), r.Range(1, 40)
			}
			if sc.CntOut > 4 && len(sc.Store) == 0 && r.Chance(2, 3) { // around where this session's numbers start
				b = sc.CntOut + r.Range(0, 3)
				e = []int{0, b, b + r.Range(0, 3)}[r.Intn(3)]
			}
			if r.Chance(1, 12) { // the ends of the integer range
				ext := []int{-9223372036854775807, -4611686018427387904, 9223372036854775807, 4611686018427387904, -2147483648, 2147483647}
				if r.Bool() {
					b = ext[r.Intn(len(ext))]
				} else {
					e = ext[r.Intn(len(ext))]
				}
			}
			op := g.admin("2", "7="+g.num(b)+"\x0116="+g.num(e)+"\x01", "resend")
			op.ID, op.Ev = b, e
			sc.Ops = append(sc.Ops, op)
		case c < 64:
			sc.Ops = append(sc.Ops, g.admin("5", "", "logout"))
			loggedGuess = false
		case c < 69:
			mt := []string{"Y", "D", "ZZ", "ALL", "8", "y", "a", "all", "4", "4"}[r.Intn(10)]
			sf, seq := g.seqField(0)
			body := "262=r1\x0158=" + nasty(r) + "\x01"
			if mt == "4" { // a SequenceReset (gap fill): recorded like any message unless the session knows the type
				body = "123=Y\x0136=" + strconv.Itoa(seq+1+r.Intn(3)) + "\x01"
			}
			sc.Ops = append(sc.Ops, Op{Kind: "IN", Data: g.p.msg(mt, sf, body), Label: "app", Seq: seq})
		case c < 71:
			// no MsgType at all
			sc.Ops = append(sc.Ops, Op{Kind: "IN", Data: frameMsg("49=X\x0134=1\x01"), Label: "nomsgtype", Seq: 1})
		case c < 86:
			switch r.Intn(3) {
			case 0:
				id := ""
				if r.Bool() {
					id = nasty(r)
				}
				sc.Ops = append(sc.Ops, Op{Kind: "SEND", App: "H", A: []byte(id)})
			case 1:
				sc.Ops = append(sc.Ops, Op{Kind: "SEND", App: "T", A: []byte(nasty(r))})
			default:
				sc.Ops = append(sc.Ops, Op{Kind: "SEND", App: "R", A: []byte("md" + strconv.Itoa(i)), B: []byte(nasty(r))})
			}
		case c < 89:
			sc.Ops = append(sc.Ops, Op{Kind: "LOGOUT"})
			loggedGuess = false
		case c < 91 && !g.stopped:
			sc.Ops = append(sc.Ops, Op{Kind: "STOP"})
			g.stopped = true
		case c < 96:
			sc.Ops = append(sc.Ops, reg())
		default:
			id := g.nextID
			g.nextID++
			sc.Ops = append(sc.Ops, Op{Kind: "REGEV", Ev: []int{0, 3, 4, 5}[r.Intn(4)], ID: id, Flag: !r.Chance(1, 5)})
		}
	}
	_ = loggedGuess
	// the application registers a pass-through handler and removes it again (its own id), then goes
	// on sending: what the session itself registered must still be in place. These scenarios are
	// judged by the oracles only (the model has no removal operation).
	if r.Chance(1, 8) {
		id := g.nextID
		g.nextID++
		mt := []string{"ALL", "ALL", "0", "Y"}[r.Intn(4)]
		kind, un := "REGOUT", "UNREGOUT"
		if r.Chance(1, 3) {
			kind, un = "REGIN", "UNREGIN"
		}
		at := r.Intn(len(sc.Ops) + 1)
		ins := []Op{{Kind: kind, Mt: mt, ID: id, Flag: true}, {Kind: un, Mt: mt, ID: id}}
		rest := append([]Op{}, sc.Ops[at:]...)
		sc.Ops = append(append(sc.Ops[:at:at], ins...), rest...)
		for k := r.Range(1, 4); k > 0; k-- {
			sc.Ops = append(sc.Ops, Op{Kind: "SEND", App: "H", A: []byte{}})
		}
		tags = append(tags, "handler-removal")
	}
	if g.refusing {
		tags = append(tags, "refusing-handler")
	}
	tags = append(tags, fmt.Sprintf("ops<=%d", ((len(sc.Ops)+9)/10)*10))
	return sc, tags
}

// fixedScenarios are the regression corpus: the histories behind the defects repaired in /repo.
func fixedScenarios() []*Scenario {
	var out []*Scenario
	base := func() *Scenario {
		sc := &Scenario{Side: "A", Allowed: []string{"0"}, Lo: 20, Hi: 60, Hb: 30, Enc: "0"}
		for _, e := range []int{0, 3, 4, 5} {
			sc.Pre = append(sc.Pre, Op{Kind: "REGEV", Ev: e, ID: 90 + e, Flag: true})
		}
		return sc
	}
	p := peer{sender: "Client", target: "Server"}
	logon := func(seq int) Op {
		return Op{Kind: "IN", Data: p.msg("A", "34="+strconv.Itoa(seq), "98=0\x01108=30\x01"), Label: "logon-good", Seq: seq, Hb: 30, Enc: "0"}
	}
	// D9: resend request before logon against a shared store
	sc := base()
	for i := 1; i <= 3; i++ {
		sc.Store = append(sc.Store, Stored{Seq: i, App: "R", A: []byte("r"), B: []byte("other session's text"), Sender: "Other", Target: "Peer"})
	}
	sc.CntOut = 3
	sc.Ops = []Op{{Kind: "IN", Data: p.msg("2", "34=1", "7=1\x0116=3\x01"), Label: "resend", Seq: 1, ID: 1, Ev: 3}}
	out = append(out, sc)
	// D10 / D11: EndSeqNo = 0 and the gap request
	sc = base()
	sc.Ops = []Op{logon(5), {Kind: "SEND", App: "R", A: []byte("a"), B: []byte("b")}, {Kind: "SEND", App: "H"},
		{Kind: "IN", Data: p.msg("2", "34=6", "7=1\x0116=0\x01"), Label: "resend", Seq: 6, ID: 1, Ev: 0}}
	out = append(out, sc)
	// D12: Stop then the peer's Logout answer
	sc = base()
	sc.Ops = []Op{logon(1), {Kind: "STOP"}, {Kind: "IN", Data: p.msg("5", "34=2", ""), Label: "logout", Seq: 2}}
	out = append(out, sc)
	// logon, logout, logon again, test request
	sc = base()
	sc.Ops = []Op{logon(1), {Kind: "IN", Data: p.msg("5", "34=2", ""), Label: "logout", Seq: 2}, logon(3),
		{Kind: "IN", Data: p.msg("1", "34=4", "112=10=123\x01"), Label: "testreq", Seq: 4, A: []byte("10=123")}}
	out = append(out, sc)
	// a long outbound history, then resend requests for early, middle and recent ranges: the store
	// has every message however long the session lasts
	sc = base()
	sc.Ops = []Op{logon(1)}
	for i := 0; i < 1300; i++ {
		sc.Ops = append(sc.Ops, Op{Kind: "SEND", App: "H", A: []byte("k" + strconv.Itoa(i))})
	}
	sc.Ops = append(sc.Ops,
		Op{Kind: "IN", Data: p.msg("2", "34=2", "7=2\x0116=4\x01"), Label: "resend", Seq: 2, ID: 2, Ev: 4},
		Op{Kind: "IN", Data: p.msg("2", "34=3", "7=270\x0116=270\x01"), Label: "resend", Seq: 3, ID: 270, Ev: 270},
		Op{Kind: "IN", Data: p.msg("2", "34=4", "7=1299\x0116=0\x01"), Label: "resend", Seq: 4, ID: 1299, Ev: 0})
	out = append(out, sc)
	return out
}
