// stress: the schedule-exploring driver for C05. Many goroutines send through one session while
// the session itself produces heartbeats (interval 1 s), answers inbound TestRequests and
// ResendRequests; random delays are injected inside the application-supplied counter store,
// message store and outgoing handlers (all of them interfaces: no hook needed), under several
// GOMAXPROCS values and buffer sizes. The peer end tokenises the byte stream independently and
// checks that new sequence numbers arrive consecutively (retransmissions are recognised by
// byte equality with an earlier message).
package main

import (
	"bufio"
	"bytes"
	"encoding/json"
	"flag"
	"fmt"
	"math/rand"
	"os"
	"runtime"
	"strconv"
	"sync"
	"time"

	simplefixgo "github.com/b2broker/simplefix-go"
	"github.com/b2broker/simplefix-go/fix"
	"github.com/b2broker/simplefix-go/storages/memory"
	fixgen "github.com/b2broker/simplefix-go/tests/fix44"

	"verifharness/internal/live"
)

type slowStore struct {
	*memory.Storage
	mu  sync.Mutex
	rnd *rand.Rand
	max int
}

func (s *slowStore) nap() {
	s.mu.Lock()
	d := time.Duration(s.rnd.Intn(s.max+1)) * time.Microsecond
	s.mu.Unlock()
	if d > 0 {
		time.Sleep(d)
	}
}
func (s *slowStore) GetNextSeqNum(id fix.StorageID) (int, error) {
	n, err := s.Storage.GetNextSeqNum(id)
	s.nap() // the window between taking a number and handing the message off
	return n, err
}
func (s *slowStore) Save(id fix.StorageID, m simplefixgo.SendingMessage, n int) error {
	s.nap()
	return s.Storage.Save(id, m, n)
}

type Rec struct {
	ID     int               `json:"id"`
	Mode   string            `json:"mode"`
	Case   string            `json:"case"`
	Impl   string            `json:"impl"`
	Oracle map[string]string `json:"oracle"`
	Tags   []string          `json:"tags,omitempty"`
	Size   int               `json:"size"`
	Skip   bool              `json:"skip"`
}

func run(id int, role string, g, m, buf, procs int, seed int64, reuse bool) *Rec {
	runtime.GOMAXPROCS(procs)
	if reuse { // few senders, a buffer that can back up
		if buf == 0 {
			buf = 10
		}
		if g > 8 {
			g, m = 2, 60
		}
	}
	rec := &Rec{ID: id, Mode: "stress", Skip: true, Oracle: map[string]string{},
		Case: fmt.Sprintf("role=%s goroutines=%d sends=%d buf=%d gomaxprocs=%d seed=%d reuse=%v", role, g, m, buf, procs, seed, reuse),
		Tags: []string{"role=" + role, fmt.Sprintf("G=%d", g), fmt.Sprintf("buf=%d", buf), fmt.Sprintf("procs=%d", procs), fmt.Sprintf("reuse=%v", reuse)}}
	st := &slowStore{Storage: memory.NewStorage(), rnd: rand.New(rand.NewSource(seed)), max: 400}
	if reuse {
		st.max = 0
	}
	l, err := live.Start(live.Config{Role: role, Hb: 1, Buf: buf, Counter: st, Messages: st})
	if err != nil {
		rec.Impl = "setup failed: " + err.Error()
		rec.Oracle["C05"] = "skip: setup failed"
		return rec
	}
	defer l.Shutdown()
	if !l.Logon(1) {
		rec.Impl = "logon failed"
		rec.Oracle["C05"] = "fail: logon exchange did not complete"
		return rec
	}
	if reuse {
		l.SlowReads(300 * time.Microsecond) // the outbound buffer backs up while the senders go on
	} else {
		l.H.HandleOutgoing(simplefixgo.AllMsgTypes, func(simplefixgo.SendingMessage) bool { st.nap(); return true })
	}
	var wg sync.WaitGroup
	for k := 0; k < g; k++ {
		wg.Add(1)
		go func(k int) {
			defer wg.Done()
			// reuse: the goroutine sends one message object again and again (as applications that
			// keep a snapshot message do); what was queued earlier must not change under it
			var kept *fixgen.MarketDataRequestReject
			for i := 0; i < m; i++ {
				msg := kept
				if msg == nil {
					msg = fixgen.NewMarketDataRequestReject()
					if reuse {
						kept = msg
					}
				}
				msg.SetMDReqID("g" + strconv.Itoa(k) + "-" + strconv.Itoa(i))
				_ = l.Sess.Send(msg)
			}
		}(k)
	}
	// inbound traffic that makes the session itself send: test requests and resend requests
	done := make(chan struct{})
	go func() {
		defer close(done)
		for i := 0; i < 30; i++ {
			_ = l.Send(l.PeerMsg("1", "112=probe"+strconv.Itoa(i)+"\x01"))
			if i%7 == 3 && !reuse { // a reused object is stored under several numbers: its retransmission is the application's business
				_ = l.Send(l.PeerMsg("2", "7=2\x0116=4\x01"))
			}
			time.Sleep(time.Duration(2+i%5) * time.Millisecond)
		}
	}()
	wg.Wait()
	<-done
	time.Sleep(1300 * time.Millisecond) // at least one timer-driven heartbeat joins in
	msgs := l.Snapshot()
	rec.Size = len(msgs)
	first := map[int][]byte{}
	last := 0
	verdict := "ok"
	heartbeats := 0
	for i, mm := range msgs {
		if mm.Type == "0" {
			if _, has := live.Field(mm.Raw, "112"); !has {
				heartbeats++
			}
		}
		if prev, seen := first[mm.Seq]; seen {
			if !bytes.Equal(prev, mm.Raw) {
				verdict = fmt.Sprintf("fail: sequence number %d used twice for different messages (position %d)", mm.Seq, i)
				break
			}
			continue
		}
		first[mm.Seq] = mm.Raw
		if mm.Seq != last+1 {
			verdict = fmt.Sprintf("fail: message %d arrived after message %d (position %d of %d)", mm.Seq, last, i, len(msgs))
			break
		}
		last = mm.Seq
	}
	rec.Oracle["C05"] = verdict
	rec.Impl = fmt.Sprintf("messages=%d last=%d timer_heartbeats=%d", len(msgs), last, heartbeats)
	return rec
}

// successor: a logged-on session loses its connection without a Logout exchange; a new session on
// the same counter and message store takes over. Whatever the first session left running must not
// take numbers any more: the new session's messages are numbered consecutively.
func successor(id int, role string) *Rec {
	rec := &Rec{ID: id, Mode: "stress", Skip: true, Oracle: map[string]string{},
		Case: fmt.Sprintf("role=%s successor session on the store of a session that lost its connection while logged on", role),
		Tags: []string{"role=" + role, "successor"}}
	st := memory.NewStorage()
	l1, err := live.Start(live.Config{Role: role, Hb: 1, Buf: 10, Counter: st, Messages: st})
	if err != nil {
		rec.Impl = "setup failed: " + err.Error()
		rec.Oracle["C05"] = "skip: setup failed"
		return rec
	}
	if !l1.Logon(1) {
		l1.Shutdown()
		rec.Impl = "logon failed"
		rec.Oracle["C05"] = "fail: logon exchange did not complete"
		return rec
	}
	time.Sleep(200 * time.Millisecond)
	_ = l1.Peer.Close() // the connection is lost; nobody says Logout
	time.Sleep(300 * time.Millisecond)
	l2, err := live.Start(live.Config{Role: role, Hb: 1, Buf: 10, Counter: st, Messages: st})
	if err != nil {
		l1.Shutdown()
		rec.Impl = "second setup failed: " + err.Error()
		rec.Oracle["C05"] = "skip: setup failed"
		return rec
	}
	defer l1.Shutdown()
	defer l2.Shutdown()
	if !l2.Logon(1) {
		rec.Impl = "second logon failed"
		rec.Oracle["C05"] = "fail: logon exchange of the successor session did not complete"
		return rec
	}
	stop := make(chan struct{})
	go func() { // a live peer: the successor is never probed, it just heartbeats
		for {
			select {
			case <-stop:
				return
			case <-time.After(400 * time.Millisecond):
				_ = l2.Send(l2.PeerMsg("0", ""))
			}
		}
	}()
	for i := 0; i < 6; i++ {
		time.Sleep(450 * time.Millisecond)
		m := fixgen.NewMarketDataRequestReject()
		m.SetMDReqID("s" + strconv.Itoa(i))
		_ = l2.Sess.Send(m)
	}
	close(stop)
	time.Sleep(150 * time.Millisecond)
	msgs := l2.Snapshot()
	rec.Size = len(msgs)
	verdict := "ok"
	last := 0
	for i, mm := range msgs {
		if i > 0 && mm.Seq != last+1 {
			verdict = fmt.Sprintf("fail: the successor session's message %d follows %d (position %d of %d): numbers were taken that never reached its wire", mm.Seq, last, i, len(msgs))
			break
		}
		last = mm.Seq
	}
	if len(msgs) < 6 {
		verdict = fmt.Sprintf("fail: only %d messages of the successor session arrived", len(msgs))
	}
	rec.Oracle["C05"] = verdict
	rec.Impl = fmt.Sprintf("messages=%d last=%d", len(msgs), last)
	return rec
}

func main() {
	seed := flag.Int64("seed", 1, "seed")
	n := flag.Int("n", 6, "number of runs")
	start := flag.Int("start", 0, "index of the first run (the index selects role, goroutines, buffer, GOMAXPROCS)")
	outPath := flag.String("out", "-", "output")
	flag.Parse()
	var out *bufio.Writer
	if *outPath == "-" {
		out = bufio.NewWriter(os.Stdout)
	} else {
		f, err := os.Create(*outPath)
		if err != nil {
			panic(err)
		}
		defer f.Close()
		out = bufio.NewWriter(f)
	}
	defer out.Flush()
	gs := []int{2, 8, 64}
	bufs := []int{0, 1, 10}
	procs := []int{1, 2, 16}
	for i := *start; i < *start+*n; i++ {
		if i%8 >= 6 {
			r := successor(i, []string{"A", "I"}[i%2])
			b, _ := json.Marshal(r)
			out.Write(b)
			out.WriteByte('\n')
			continue
		}
		role := []string{"A", "I"}[i%2]
		g := gs[(i/2)%3]
		m := 400 / g
		if m > 60 {
			m = 60
		}
		r := run(i, role, g, m, bufs[(i/3)%3], procs[i%3], *seed*1000+int64(i), i%3 == 1)
		b, _ := json.Marshal(r)
		out.Write(b)
		out.WriteByte('\n')
	}
}
