// extract: the structural extractor. It walks the library's source (go/ast only) and emits,
// per function, method and function literal, the syntactic sequence of synchronisation and
// shared-memory events as Coq data (coq/gen/Sites.v). It contains no logic beyond recognising
// the shapes below; lockset computation, critical-section and lifecycle checks are Gallina.
package main

import (
	"flag"
	"fmt"
	"go/ast"
	"go/parser"
	"go/printer"
	"go/token"
	"os"
	"path/filepath"
	"sort"
	"strings"
)

type event struct {
	kind string // Lock Unlock RLock RUnlock DeferUnlock DeferRUnlock Read Write Atomic Call Go Closure Send Recv Select Close Defer Return
	arg  string
	arg2 string
	line int
}

type fn struct {
	name   string
	file   string
	recv   string // receiver type name ("" for plain functions and closures)
	rvar   string // receiver variable
	events []event
	usage  string // for closures: how the literal is used
}

var fset = token.NewFileSet()
var funcs []*fn

// ---- a very small type environment, enough to resolve method calls on fields and locals ----

var structFields = map[string]map[string]string{} // type -> field -> type name
var embedded = map[string][]string{}              // type -> embedded type names
var funcResult = map[string]string{}              // "pkg.Func" or "Type.Method" -> first result type name
var methodOwner = map[string]string{}             // "Type.Method" -> "pkg.Type.Method"
var plainFunc = map[string]string{}               // "Func" (same package) / "pkg.Func" -> "pkg.Func"

// functions whose first parameter has one of these named constant types are specialised per
// constant at call sites that pass a constant (so that a switch on the parameter, or a handler
// lookup keyed by it, is followed only along the matching branch)
var constTypes = map[string]bool{"LogonState": true, "Event": true}
var specParam = map[string]string{} // qualified function -> name of its first parameter (of a const type)

type declInfo struct {
	fd   *ast.FuncDecl
	pkg  string
	file string
}

var decls = map[string]*declInfo{}
var specDone = map[string]bool{}
var specTodo []string

// dynamic calls of handlers taken from a pool: function -> usage prefixes of the closures called
var dynUsage = map[string][]string{
	"simplefixgo.DefaultHandler.serve": {"arg:HandleIncoming"},
	"simplefixgo.DefaultHandler.send":  {"arg:HandleOutgoing"},
	"utils.EventHandlerPool.Trigger":   {"arg:OnChangeState", "arg:Handle"},
}

// interface types and the implementation the library itself wires in
var ifaceImpl = map[string]string{
	"Handler": "DefaultHandler", "AcceptorHandler": "DefaultHandler", "InitiatorHandler": "DefaultHandler",
	"CounterStorage": "Storage", "MessageStorage": "Storage",
	"HandlerFactory": "AcceptorHandlerFactory",
}

func typeName(e ast.Expr) string {
	switch x := e.(type) {
	case *ast.StarExpr:
		return typeName(x.X)
	case *ast.Ident:
		return x.Name
	case *ast.SelectorExpr:
		return x.Sel.Name
	}
	return ""
}

func concrete(t string) string {
	if i, ok := ifaceImpl[t]; ok {
		return i
	}
	return t
}

// lookupMethod finds Type.Method, following embedded types.
func lookupMethod(t, m string) (string, bool) {
	t = concrete(t)
	if q, ok := methodOwner[t+"."+m]; ok {
		return q, true
	}
	for _, e := range embedded[t] {
		if q, ok := lookupMethod(e, m); ok {
			return q, true
		}
	}
	return "", false
}

func fieldType(t, f string) (string, bool) {
	t = concrete(t)
	if ft, ok := structFields[t][f]; ok {
		return ft, true
	}
	for _, e := range embedded[t] {
		if ft, ok := fieldType(e, f); ok {
			return ft, true
		}
	}
	return "", false
}

// tracked shared fields per struct type
var tracked = map[string]map[string]bool{
	"Session":          {"state": true, "LogonSettings": true, "cancelTimers": true, "errorHandler": true, "logonRequest": true, "LogonHandler": true},
	"Storage":          {"counterIncoming": true, "counterOutgoing": true, "messages": true},
	"HandlerPool":      {"handlers": true, "counter": true},
	"Timer":            {"lastUpdate": true},
	"EventHandlerPool": {"pool": true},
	"Conn":             {"reader": true, "writer": true, "conn": true},
	"DefaultHandler":   {"out": true, "incoming": true, "errors": true},
}

// embedded / wrapper types whose methods act on the embedded struct
var aliasType = map[string]string{"IncomingHandlerPool": "HandlerPool", "OutgoingHandlerPool": "HandlerPool"}

func exprString(e ast.Expr) string {
	var sb strings.Builder
	_ = printer.Fprint(&sb, fset, e)
	s := sb.String()
	s = strings.ReplaceAll(s, "\n", " ")
	s = strings.ReplaceAll(s, "\t", "")
	return s
}

type walker struct {
	constParam string            // parameter specialised to a constant in this copy of the function
	constVal   string            // the constant's name
	env     map[string]string // local variable -> type name
	f       *fn
	pkg     string
	recvTy  string
	recvVar string
	nclos   *int
	parent  string
}

// typeOf gives the (named) type of simple expressions: receiver, locals, field chains, calls.
func (w *walker) typeOf(e ast.Expr) string {
	switch x := e.(type) {
	case *ast.Ident:
		if x.Name == w.recvVar && w.recvTy != "" {
			return w.recvTy
		}
		return w.env[x.Name]
	case *ast.SelectorExpr:
		if t := w.typeOf(x.X); t != "" {
			if ft, ok := fieldType(t, x.Sel.Name); ok {
				return ft
			}
		}
	case *ast.CallExpr:
		if q := w.resolve(x.Fun); q != "" {
			return funcResult[q]
		}
	case *ast.ParenExpr:
		return w.typeOf(x.X)
	case *ast.StarExpr:
		return w.typeOf(x.X)
	case *ast.UnaryExpr:
		return w.typeOf(x.X)
	case *ast.CompositeLit:
		return typeName(x.Type)
	}
	return ""
}

// constName gives the name of a constant-looking first argument (EventLogon, utils.EventLogon,
// SuccessfulLogged) or the constant this walker's specialised parameter is bound to.
func (w *walker) constName(e ast.Expr) string {
	switch x := e.(type) {
	case *ast.Ident:
		if w.constParam != "" && x.Name == w.constParam {
			return w.constVal
		}
		if _, local := w.env[x.Name]; !local && x.Name != w.recvVar && len(x.Name) > 0 && x.Name[0] >= 'A' && x.Name[0] <= 'Z' {
			return x.Name
		}
	case *ast.SelectorExpr:
		if id, ok := x.X.(*ast.Ident); ok && id.Name != w.recvVar {
			if _, local := w.env[id.Name]; !local && len(x.Sel.Name) > 0 && x.Sel.Name[0] >= 'A' && x.Sel.Name[0] <= 'Z' {
				return x.Sel.Name
			}
		}
	}
	return ""
}

// resolve gives the qualified name of the function a call expression calls, or "".
func (w *walker) resolve(fun ast.Expr) string {
	switch x := fun.(type) {
	case *ast.Ident:
		if q, ok := plainFunc[w.pkg+"."+x.Name]; ok {
			return q
		}
	case *ast.SelectorExpr:
		if id, ok := x.X.(*ast.Ident); ok {
			if q, ok := plainFunc[id.Name+"."+x.Sel.Name]; ok { // pkg.Func
				return q
			}
		}
		if t := w.typeOf(x.X); t != "" {
			if q, ok := lookupMethod(t, x.Sel.Name); ok {
				return q
			}
		}
	}
	return ""
}

func (w *walker) add(kind, arg, arg2 string, pos token.Pos) {
	w.f.events = append(w.f.events, event{kind, arg, arg2, fset.Position(pos).Line})
}

// mutexName gives "Type.field" for x.field when x is the receiver (or a captured receiver).
func (w *walker) ownerOf(x ast.Expr) (string, bool) {
	if id, ok := x.(*ast.Ident); ok && id.Name == w.recvVar && w.recvTy != "" {
		t := w.recvTy
		if a, ok := aliasType[t]; ok {
			t = a
		}
		return t, true
	}
	return "", false
}

func (w *walker) fieldAccess(sel *ast.SelectorExpr) (string, bool) {
	if t, ok := w.ownerOf(sel.X); ok {
		if tracked[t][sel.Sel.Name] {
			return t + "." + sel.Sel.Name, true
		}
	}
	return "", false
}

// access records reads of tracked fields inside an expression (not descending into func literals).
func (w *walker) reads(e ast.Node) {
	if e == nil {
		return
	}
	ast.Inspect(e, func(n ast.Node) bool {
		switch x := n.(type) {
		case *ast.FuncLit:
			w.closure(x, "value")
			return false
		case *ast.CallExpr:
			w.call(x, false)
			return false
		case *ast.SelectorExpr:
			if v, ok := w.fieldAccess(x); ok {
				w.add("Read", v, "", x.Pos())
				return false
			}
		case *ast.UnaryExpr:
			if x.Op == token.ARROW {
				w.add("Recv", exprString(x.X), "", x.Pos())
				w.reads(x.X)
				return false
			}
		}
		return true
	})
}

func (w *walker) writeTarget(lhs ast.Expr) {
	switch x := lhs.(type) {
	case *ast.SelectorExpr:
		if v, ok := w.fieldAccess(x); ok {
			w.add("Write", v, "", x.Pos())
			return
		}
		w.reads(x.X)
	case *ast.IndexExpr: // p.handlers[k] = ...: a write to the map the field refers to
		if sel, ok := x.X.(*ast.SelectorExpr); ok {
			if v, ok := w.fieldAccess(sel); ok {
				w.add("Write", v, "", x.Pos())
				w.reads(x.Index)
				return
			}
		}
		w.reads(x)
	default:
		w.reads(lhs)
	}
}

func (w *walker) closure(fl *ast.FuncLit, usage string) string {
	*w.nclos++
	name := fmt.Sprintf("%s$%d", w.parent, *w.nclos)
	c := &fn{name: name, file: w.f.file, usage: usage}
	funcs = append(funcs, c)
	cw := &walker{f: c, pkg: w.pkg, recvTy: w.recvTy, recvVar: w.recvVar, nclos: w.nclos, parent: w.parent, env: w.env,
		constParam: w.constParam, constVal: w.constVal}
	if fl.Type.Params != nil {
		for _, p := range fl.Type.Params.List {
			for _, n := range p.Names {
				cw.env[n.Name] = typeName(p.Type)
			}
		}
	}
	cw.block(fl.Body)
	w.add("Closure", name, usage, fl.Pos())
	return name
}

var lockMethods = map[string]string{"Lock": "Lock", "Unlock": "Unlock", "RLock": "RLock", "RUnlock": "RUnlock"}

func (w *walker) call(c *ast.CallExpr, deferred bool) {
	// mutex operations: x.mu.Lock()
	if sel, ok := c.Fun.(*ast.SelectorExpr); ok {
		if k, ok := lockMethods[sel.Sel.Name]; ok {
			if inner, ok := sel.X.(*ast.SelectorExpr); ok {
				if t, ok := w.ownerOf(inner.X); ok {
					m := t + "." + inner.Sel.Name
					if deferred {
						w.add("Defer"+k, m, "", c.Pos())
					} else {
						w.add(k, m, "", c.Pos())
					}
					return
				}
			}
		}
		// atomic.AddInt64(&s.counter, 1) and friends
		if id, ok := sel.X.(*ast.Ident); ok && id.Name == "atomic" {
			for _, a := range c.Args {
				if u, ok := a.(*ast.UnaryExpr); ok && u.Op == token.AND {
					if fs, ok := u.X.(*ast.SelectorExpr); ok {
						if v, ok := w.fieldAccess(fs); ok {
							w.add("Atomic", v, sel.Sel.Name, c.Pos())
							continue
						}
					}
				}
				w.reads(a)
			}
			return
		}
	}
	// builtins that write through a tracked map / close a channel
	if id, ok := c.Fun.(*ast.Ident); ok {
		switch id.Name {
		case "delete":
			if len(c.Args) > 0 {
				if fs, ok := c.Args[0].(*ast.SelectorExpr); ok {
					if v, ok := w.fieldAccess(fs); ok {
						w.add("Write", v, "", c.Pos())
						return
					}
				}
			}
		case "close":
			if len(c.Args) > 0 {
				w.add("Close", exprString(c.Args[0]), b2s(deferred), c.Pos())
				return
			}
		}
	}
	// arguments first (closures passed as handlers get their usage from the callee name)
	callee := exprString(c.Fun)
	short := callee
	if i := strings.LastIndex(short, "."); i >= 0 {
		short = short[i+1:]
	}
	cst := ""
	if len(c.Args) > 0 {
		cst = w.constName(c.Args[0])
	}
	for _, a := range c.Args {
		if fl, ok := a.(*ast.FuncLit); ok {
			u := "arg:" + short
			if cst != "" && (short == "OnChangeState" || short == "Handle") {
				u += "#" + cst
			}
			w.closure(fl, u)
		} else if sel, ok := a.(*ast.SelectorExpr); ok && w.resolve(sel) != "" && short == "Go" {
			w.add("Go", w.resolve(sel), "", a.Pos())
		} else {
			w.reads(a)
		}
	}
	if sel, ok := c.Fun.(*ast.SelectorExpr); ok {
		w.reads(sel.X)
	}
	if fl, ok := c.Fun.(*ast.FuncLit); ok {
		n := w.closure(fl, "called")
		w.add("Call", n, b2s(deferred), c.Pos())
		return
	}
	if q := w.resolve(c.Fun); q != "" {
		if _, ok := specParam[q]; ok && cst != "" {
			sq := q + "#" + cst
			if !specDone[sq] {
				specDone[sq] = true
				specTodo = append(specTodo, sq)
			}
			q = sq
		}
		w.add("Call", q, b2s(deferred), c.Pos())
		return
	}
	if id, ok := c.Fun.(*ast.Ident); ok && id.Name == "handle" {
		// a handler taken from a pool is invoked: the callees are the closures registered in that pool
		base := w.parent
		if i := strings.Index(base, "#"); i >= 0 {
			base = base[:i]
		}
		for _, u := range dynUsage[base] {
			if w.constVal != "" {
				w.add("DynCall", u+"#"+w.constVal, "exact", c.Pos())
			} else {
				w.add("DynCall", u, "prefix", c.Pos())
			}
		}
		return
	}
	w.add("Ext", callee, b2s(deferred), c.Pos())
}

func b2s(b bool) string {
	if b {
		return "defer"
	}
	return ""
}

func (w *walker) stmt(s ast.Stmt) {
	switch x := s.(type) {
	case nil:
	case *ast.BlockStmt:
		w.block(x)
	case *ast.ExprStmt:
		w.reads(x.X)
	case *ast.AssignStmt:
		if x.Tok == token.DEFINE && len(x.Rhs) >= 1 {
			if id, ok := x.Lhs[0].(*ast.Ident); ok {
				if t := w.typeOf(x.Rhs[0]); t != "" {
					w.env[id.Name] = t
				}
			}
		}
		for i, r := range x.Rhs {
			if ce, ok := r.(*ast.CallExpr); ok && i < len(x.Lhs) {
				// make(chan T[, n]): the capacity of a channel is part of the blocking structure
				if id, ok := ce.Fun.(*ast.Ident); ok && id.Name == "make" && len(ce.Args) >= 1 {
					if _, isChan := ce.Args[0].(*ast.ChanType); isChan {
						capacity := "0"
						if len(ce.Args) >= 2 {
							capacity = exprString(ce.Args[1])
						}
						w.add("MakeChan", exprString(x.Lhs[i]), capacity, r.Pos())
					}
				}
			}
			if fl, ok := r.(*ast.FuncLit); ok {
				w.closure(fl, "assigned:"+exprString(x.Lhs[0]))
			} else {
				w.reads(r)
			}
		}
		for _, l := range x.Lhs {
			if x.Tok == token.DEFINE {
				continue
			}
			w.writeTarget(l)
		}
	case *ast.IncDecStmt:
		w.writeTarget(x.X)
	case *ast.DeferStmt:
		if fl, ok := x.Call.Fun.(*ast.FuncLit); ok {
			n := w.closure(fl, "defer")
			w.add("Call", n, "defer", x.Pos())
		} else {
			w.call(x.Call, true)
		}
	case *ast.GoStmt:
		if fl, ok := x.Call.Fun.(*ast.FuncLit); ok {
			n := w.closure(fl, "go")
			w.add("Go", n, "", x.Pos())
		} else {
			for _, a := range x.Call.Args {
				w.reads(a)
			}
			q := w.resolve(x.Call.Fun)
			if q == "" {
				q = exprString(x.Call.Fun)
			}
			w.add("Go", q, "", x.Pos())
		}
	case *ast.SendStmt:
		w.reads(x.Value)
		w.add("Send", exprString(x.Chan), "", x.Pos())
	case *ast.ReturnStmt:
		for _, r := range x.Results {
			w.reads(r)
		}
		w.add("Return", "", "", x.Pos())
	case *ast.IfStmt:
		w.stmt(x.Init)
		w.reads(x.Cond)
		w.block(x.Body)
		w.stmt(x.Else)
	case *ast.ForStmt:
		w.stmt(x.Init)
		if x.Cond != nil {
			w.reads(x.Cond)
		}
		w.add("Loop", b2l(x.Cond == nil), "", x.Pos())
		w.block(x.Body)
		w.stmt(x.Post)
		w.add("EndLoop", "", "", x.End())
	case *ast.RangeStmt:
		w.reads(x.X)
		w.add("Loop", "range", "", x.Pos())
		w.block(x.Body)
		w.add("EndLoop", "", "", x.End())
	case *ast.SwitchStmt:
		w.stmt(x.Init)
		if x.Tag != nil {
			w.reads(x.Tag)
		}
		if id, ok := x.Tag.(*ast.Ident); ok && w.constParam != "" && id.Name == w.constParam {
			// only the branch the constant selects
			var chosen, deflt *ast.CaseClause
			for _, cc := range x.Body.List {
				c := cc.(*ast.CaseClause)
				if c.List == nil {
					deflt = c
				}
				for _, e := range c.List {
					if w.constName(e) == w.constVal {
						chosen = c
					}
				}
			}
			if chosen == nil {
				chosen = deflt
			}
			if chosen != nil {
				for _, st := range chosen.Body {
					w.stmt(st)
				}
			}
			return
		}
		w.block(x.Body)
	case *ast.TypeSwitchStmt:
		w.stmt(x.Init)
		w.stmt(x.Assign)
		w.block(x.Body)
	case *ast.CaseClause:
		for _, e := range x.List {
			w.reads(e)
		}
		for _, st := range x.Body {
			w.stmt(st)
		}
	case *ast.SelectStmt:
		var alts []string
		for _, cc := range x.Body.List {
			c := cc.(*ast.CommClause)
			switch cm := c.Comm.(type) {
			case nil:
				alts = append(alts, "default")
			case *ast.SendStmt:
				alts = append(alts, "send:"+exprString(cm.Chan))
			case *ast.ExprStmt:
				if u, ok := cm.X.(*ast.UnaryExpr); ok {
					alts = append(alts, "recv:"+exprString(u.X))
				}
			case *ast.AssignStmt:
				if u, ok := cm.Rhs[0].(*ast.UnaryExpr); ok {
					alts = append(alts, "recv:"+exprString(u.X))
				}
			}
		}
		w.add("Select", strings.Join(alts, "|"), "", x.Pos())
		for _, cc := range x.Body.List {
			c := cc.(*ast.CommClause)
			for _, st := range c.Body {
				w.stmt(st)
			}
		}
		w.add("EndSelect", "", "", x.End())
	case *ast.DeclStmt:
		if gd, ok := x.Decl.(*ast.GenDecl); ok {
			for _, sp := range gd.Specs {
				if vs, ok := sp.(*ast.ValueSpec); ok {
					for _, v := range vs.Values {
						w.reads(v)
					}
				}
			}
		}
	case *ast.LabeledStmt:
		w.stmt(x.Stmt)
	case *ast.BranchStmt:
		w.add("Branch", x.Tok.String(), "", x.Pos())
	}
}

func b2l(infinite bool) string {
	if infinite {
		return "forever"
	}
	return "cond"
}

func (w *walker) block(b *ast.BlockStmt) {
	if b == nil {
		return
	}
	for _, s := range b.List {
		w.stmt(s)
	}
}

func coqStr(s string) string { return "\"" + strings.ReplaceAll(s, "\"", "'") + "\"%string" }

func walkDecl(fd *ast.FuncDecl, pkg, file, cst string) {
	f := &fn{file: file}
	if fd.Recv != nil && len(fd.Recv.List) > 0 {
		t := fd.Recv.List[0].Type
		if st, ok := t.(*ast.StarExpr); ok {
			t = st.X
		}
		f.recv = exprString(t)
		if len(fd.Recv.List[0].Names) > 0 {
			f.rvar = fd.Recv.List[0].Names[0].Name
		}
		f.name = pkg + "." + f.recv + "." + fd.Name.Name
	} else {
		f.name = pkg + "." + fd.Name.Name
	}
	w := &walker{f: f, pkg: pkg, recvTy: f.recv, recvVar: f.rvar, env: map[string]string{}}
	if cst != "" {
		w.constParam = specParam[f.name]
		w.constVal = cst
		f.name += "#" + cst
	}
	funcs = append(funcs, f)
	n := 0
	w.nclos = &n
	w.parent = f.name
	if fd.Type.Params != nil {
		for _, p := range fd.Type.Params.List {
			for _, pn := range p.Names {
				w.env[pn.Name] = typeName(p.Type)
			}
		}
	}
	if fd.Type.Results != nil {
		for _, p := range fd.Type.Results.List {
			for _, pn := range p.Names {
				w.env[pn.Name] = typeName(p.Type)
			}
		}
	}
	w.block(fd.Body)
}

func main() {
	repo := flag.String("repo", "/repo", "repository root")
	outPath := flag.String("out", "-", "output .v file")
	flag.Parse()
	dirs := []struct{ dir, pkg string }{{".", "simplefixgo"}, {"session", "session"}, {"storages/memory", "memory"}, {"utils", "utils"}}
	// pass 1: declarations
	for _, d := range dirs {
		files, _ := filepath.Glob(filepath.Join(*repo, d.dir, "*.go"))
		for _, path := range files {
			base := filepath.Base(path)
			if strings.HasSuffix(base, "_test.go") || strings.HasPrefix(base, "verif_") {
				continue
			}
			af, err := parser.ParseFile(fset, path, nil, 0)
			if err != nil {
				fmt.Fprintln(os.Stderr, err)
				os.Exit(1)
			}
			for _, decl := range af.Decls {
				switch x := decl.(type) {
				case *ast.GenDecl:
					for _, sp := range x.Specs {
						ts, ok := sp.(*ast.TypeSpec)
						if !ok {
							continue
						}
						st, ok := ts.Type.(*ast.StructType)
						if !ok {
							continue
						}
						structFields[ts.Name.Name] = map[string]string{}
						for _, f := range st.Fields.List {
							tn := typeName(f.Type)
							if len(f.Names) == 0 {
								embedded[ts.Name.Name] = append(embedded[ts.Name.Name], tn)
							}
							for _, n := range f.Names {
								structFields[ts.Name.Name][n.Name] = tn
							}
						}
					}
				case *ast.FuncDecl:
					res := ""
					if x.Type.Results != nil && len(x.Type.Results.List) > 0 {
						res = typeName(x.Type.Results.List[0].Type)
					}
					var q string
					if x.Recv != nil && len(x.Recv.List) > 0 {
						t := typeName(x.Recv.List[0].Type)
						q = d.pkg + "." + t + "." + x.Name.Name
						methodOwner[t+"."+x.Name.Name] = q
						funcResult[q] = res
					} else {
						q = d.pkg + "." + x.Name.Name
						plainFunc[q] = q
						funcResult[q] = res
					}
					decls[q] = &declInfo{fd: x, pkg: d.pkg, file: filepath.Join(d.dir, base)}
					if x.Body != nil && x.Type.Params != nil && len(x.Type.Params.List) > 0 {
						p0 := x.Type.Params.List[0]
						if constTypes[typeName(p0.Type)] && len(p0.Names) > 0 {
							specParam[q] = p0.Names[0].Name
						}
					}
				}
			}
		}
	}
	for _, d := range dirs {
		files, _ := filepath.Glob(filepath.Join(*repo, d.dir, "*.go"))
		sort.Strings(files)
		for _, path := range files {
			base := filepath.Base(path)
			if strings.HasSuffix(base, "_test.go") || strings.HasPrefix(base, "verif_") {
				continue
			}
			af, err := parser.ParseFile(fset, path, nil, 0)
			if err != nil {
				fmt.Fprintln(os.Stderr, err)
				os.Exit(1)
			}
			for _, decl := range af.Decls {
				fd, ok := decl.(*ast.FuncDecl)
				if !ok || fd.Body == nil {
					continue
				}
				walkDecl(fd, d.pkg, filepath.Join(d.dir, base), "")
			}
		}
	}
	// specialised copies requested by call sites (and, transitively, by the copies themselves)
	for len(specTodo) > 0 {
		sq := specTodo[0]
		specTodo = specTodo[1:]
		i := strings.Index(sq, "#")
		di := decls[sq[:i]]
		if di == nil {
			continue
		}
		walkDecl(di.fd, di.pkg, di.file, sq[i+1:])
	}
	// a dynamic call that is not keyed by a constant reaches every closure of the pool
	var usages []string
	for _, f := range funcs {
		if f.usage != "" {
			usages = append(usages, f.usage)
		}
	}
	for _, f := range funcs {
		var out []event
		for _, e := range f.events {
			if e.kind == "DynCall" && e.arg2 == "prefix" {
				seen := map[string]bool{}
				for _, u := range usages {
					if (u == e.arg || strings.HasPrefix(u, e.arg+"#")) && !seen[u] {
						seen[u] = true
						out = append(out, event{"DynCall", u, "", e.line})
					}
				}
				continue
			}
			if e.kind == "DynCall" {
				e.arg2 = ""
			}
			out = append(out, e)
		}
		f.events = out
	}
	sort.SliceStable(funcs, func(i, j int) bool { return funcs[i].name < funcs[j].name })
	// every string is interned; the table is emitted for the well-known names and for reports
	ids := map[string]int{}
	var names []string
	id := func(s string) int {
		if v, ok := ids[s]; ok {
			return v
		}
		ids[s] = len(names) + 1
		names = append(names, s)
		return ids[s]
	}
	id("") // 1 = the empty string
	var sb strings.Builder
	sb.WriteString("(* GENERATED by harness/cmd/extract from /repo's working tree -- data only *)\n")
	sb.WriteString("From Coq Require Import String List NArith.\nFrom SF Require Import Conc.\nImport ListNotations.\nOpen Scope N_scope.\n\n")
	var body strings.Builder
	body.WriteString("Definition site_funcs : list func :=\n  [")
	for i, f := range funcs {
		if i > 0 {
			body.WriteString(";\n   ")
		}
		body.WriteString(fmt.Sprintf("{| f_name := %d; f_file := %d; f_usage := %d;\n      f_events := [", id(f.name), id(f.file), id(f.usage)))
		for j, e := range f.events {
			if j > 0 {
				body.WriteString("; ")
			}
			body.WriteString(fmt.Sprintf("Ev %d %d %d %d", id(e.kind), id(e.arg), id(e.arg2), e.line))
		}
		body.WriteString("] |}")
	}
	body.WriteString("].\n")
	sb.WriteString("Definition site_names : list (string * N) :=\n  [")
	for i, n := range names {
		if i > 0 {
			sb.WriteString(";\n   ")
		}
		sb.WriteString(fmt.Sprintf("(%s, %d)", coqStr(n), i+1))
	}
	sb.WriteString("].\n\n")
	sb.WriteString(body.String())
	if *outPath == "-" {
		fmt.Print(sb.String())
		return
	}
	old, _ := os.ReadFile(*outPath)
	if string(old) != sb.String() {
		if err := os.WriteFile(*outPath, []byte(sb.String()), 0o644); err != nil {
			panic(err)
		}
	}
}
