package main

// summary.go: what a generated package declares, read back from the Go files with go/parser.
// The records have the same shape as the ones the Coq model prints (GenProto.v).

import (
	"fmt"
	"go/ast"
	"go/parser"
	"go/printer"
	"go/token"
	"os"
	"path/filepath"
	"sort"
	"strconv"
	"strings"
)

func exprStr(fset *token.FileSet, e ast.Expr) string {
	var sb strings.Builder
	_ = printer.Fprint(&sb, fset, e)
	return strings.Join(strings.Fields(sb.String()), "")
}

type accessor struct {
	getIdx, setIdx   int
	getKind, setKind string
	getType, setType string
	param            string
	hasGet, hasSet   bool
}

// itemOf describes one argument of fix.NewComponent / SetBody / fix.NewGroup.
func itemOf(fset *token.FileSet, e ast.Expr) string {
	switch x := e.(type) {
	case *ast.CallExpr: // fix.NewKeyValue(FieldX, &fix.T{})
		if exprStr(fset, x.Fun) == "fix.NewKeyValue" && len(x.Args) == 2 {
			ty := exprStr(fset, x.Args[1])
			ty = strings.TrimSuffix(strings.TrimPrefix(ty, "&fix."), "{}")
			return "kv " + exprStr(fset, x.Args[0]) + " " + ty
		}
	case *ast.SelectorExpr: // NewXGrp().Group | makeX().Component
		if c, ok := x.X.(*ast.CallExpr); ok {
			fn := exprStr(fset, c.Fun)
			if x.Sel.Name == "Group" && strings.HasPrefix(fn, "New") {
				return "group " + strings.TrimPrefix(fn, "New")
			}
			if x.Sel.Name == "Component" && strings.HasPrefix(fn, "make") {
				return "comp " + strings.TrimPrefix(fn, "make")
			}
		}
	}
	return "unknown " + exprStr(fset, e)
}

func findCall(n ast.Node, pred func(*ast.CallExpr) bool) *ast.CallExpr {
	var found *ast.CallExpr
	ast.Inspect(n, func(m ast.Node) bool {
		if found != nil {
			return false
		}
		if c, ok := m.(*ast.CallExpr); ok && pred(c) {
			found = c
			return false
		}
		return true
	})
	return found
}

// indexOf finds x.Get(<i>) or x.Set(<i>, ..) in a body.
func indexOf(body *ast.BlockStmt) int {
	idx := -1
	ast.Inspect(body, func(m ast.Node) bool {
		if c, ok := m.(*ast.CallExpr); ok {
			if s, ok := c.Fun.(*ast.SelectorExpr); ok && (s.Sel.Name == "Get" || s.Sel.Name == "Set") && len(c.Args) >= 1 {
				if _, isCall := s.X.(*ast.CallExpr); isCall {
					return true // kv.Load().Set(v): not an index
				}
				if bl, ok := c.Args[0].(*ast.BasicLit); ok && bl.Kind == token.INT {
					if idx == -1 {
						idx, _ = strconv.Atoi(bl.Value)
					}
				}
			}
		}
		return true
	})
	return idx
}

func kindOf(fset *token.FileSet, body *ast.BlockStmt) string {
	s := ""
	ast.Inspect(body, func(m ast.Node) bool {
		switch x := m.(type) {
		case *ast.TypeAssertExpr:
			t := exprStr(fset, x.Type)
			switch t {
			case "*fix.KeyValue":
				s = "field"
			case "*fix.Group":
				s = "group"
			case "*fix.Component":
				s = "comp"
			}
		case *ast.SelectorExpr:
			if s == "" && x.Sel.Name == "Group" {
				s = "group"
			}
			if s == "" && x.Sel.Name == "Component" {
				s = "comp"
			}
		}
		return true
	})
	return s
}

// Summarise returns the sorted records of the package in dir, and its package name.
func Summarise(dir string) (recs []string, pkg string, err error) {
	fset := token.NewFileSet()
	files, err := filepath.Glob(filepath.Join(dir, "*.go"))
	if err != nil {
		return nil, "", err
	}
	sort.Strings(files)
	accs := map[string]map[string]*accessor{} // type -> name -> accessor
	kinds := map[string]string{}
	for _, fn := range files {
		if strings.HasSuffix(fn, "_test.go") {
			continue
		}
		src, err := os.ReadFile(fn)
		if err != nil {
			return nil, "", err
		}
		f, err := parser.ParseFile(fset, fn, src, 0)
		if err != nil {
			return nil, "", fmt.Errorf("generated file does not parse: %v", err)
		}
		if pkg == "" {
			pkg = f.Name.Name
		} else if pkg != f.Name.Name {
			recs = append(recs, "PKGCLASH "+f.Name.Name)
		}
		for _, d := range f.Decls {
			switch x := d.(type) {
			case *ast.GenDecl:
				for _, sp := range x.Specs {
					switch s := sp.(type) {
					case *ast.ValueSpec:
						for i, n := range s.Names {
							if i >= len(s.Values) {
								continue
							}
							v := exprStr(fset, s.Values[i])
							if uq, err := strconv.Unquote(v); err == nil {
								v = uq
							}
							switch {
							case x.Tok == token.VAR && n.Name == "beginString":
								recs = append(recs, "BEGIN "+v)
							case x.Tok == token.CONST && strings.HasPrefix(n.Name, "Enum"):
								recs = append(recs, "ENUM "+n.Name+" "+v)
							case x.Tok == token.CONST:
								recs = append(recs, "CONST "+n.Name+" "+v)
							default:
								recs = append(recs, "VAR "+n.Name+" "+v)
							}
						}
					case *ast.TypeSpec:
						if st, ok := s.Type.(*ast.StructType); ok && len(st.Fields.List) == 1 {
							kinds[s.Name.Name] = exprStr(fset, st.Fields.List[0].Type)
						} else {
							recs = append(recs, "TYPE "+s.Name.Name+" "+exprStr(fset, s.Type))
						}
					}
				}
			case *ast.FuncDecl:
				name := x.Name.Name
				if x.Recv == nil {
					switch {
					case strings.HasPrefix(name, "make"):
						T := strings.TrimPrefix(name, "make")
						c := findCall(x.Body, func(c *ast.CallExpr) bool {
							fn := exprStr(fset, c.Fun)
							return fn == "fix.NewComponent" || strings.HasSuffix(fn, ".SetBody")
						})
						if c != nil {
							for i, a := range c.Args {
								recs = append(recs, fmt.Sprintf("ITEM %s %d %s", T, i, itemOf(fset, a)))
							}
						}
						if m := findCall(x.Body, func(c *ast.CallExpr) bool { return exprStr(fset, c.Fun) == "fix.NewMessage" }); m != nil && len(m.Args) == 6 {
							recs = append(recs, "NEWMSG "+T+" "+exprStr(fset, m.Args[0])+" "+exprStr(fset, m.Args[1])+" "+
								exprStr(fset, m.Args[2])+" "+exprStr(fset, m.Args[3])+" "+exprStr(fset, m.Args[4])+" "+exprStr(fset, m.Args[5]))
						}
					case strings.HasPrefix(name, "New") || strings.HasPrefix(name, "Create"):
						T := strings.TrimPrefix(strings.TrimPrefix(name, "New"), "Create")
						if g := findCall(x.Body, func(c *ast.CallExpr) bool { return exprStr(fset, c.Fun) == "fix.NewGroup" }); g != nil && len(g.Args) >= 1 {
							recs = append(recs, "GROUPTAG "+T+" "+exprStr(fset, g.Args[0]))
							for i, a := range g.Args[1:] {
								recs = append(recs, fmt.Sprintf("GITEM %s %d %s", T, i, itemOf(fset, a)))
							}
							continue
						}
						// messages have both New (no args, rebuilt from make) and Create (args); components only New
						isMsgNew := strings.HasPrefix(name, "New") && findCall(x.Body, func(c *ast.CallExpr) bool { return exprStr(fset, c.Fun) == "fix.NewMessage" }) != nil
						if isMsgNew {
							if len(x.Type.Params.List) != 0 {
								recs = append(recs, "MSGNEWARGS "+T)
							}
							continue
						}
						i := 0
						for _, p := range x.Type.Params.List {
							for _, n := range p.Names {
								recs = append(recs, fmt.Sprintf("ARG %s %d %s %s", T, i, n.Name, exprStr(fset, p.Type)))
								i++
							}
						}
						// the chain make<T>().SetA(a).SetB(b)
						var chain []string
						var walk func(e ast.Expr)
						walk = func(e ast.Expr) {
							if c, ok := e.(*ast.CallExpr); ok {
								if s, ok := c.Fun.(*ast.SelectorExpr); ok {
									walk(s.X)
									arg := ""
									if len(c.Args) == 1 {
										arg = exprStr(fset, c.Args[0])
									}
									chain = append(chain, strings.TrimPrefix(s.Sel.Name, "Set")+" "+arg)
								}
							}
						}
						ast.Inspect(x.Body, func(m ast.Node) bool {
							switch st := m.(type) {
							case *ast.ReturnStmt:
								if len(st.Results) == 1 && len(chain) == 0 {
									walk(st.Results[0])
								}
							case *ast.AssignStmt:
								if len(st.Rhs) == 1 && len(chain) == 0 {
									walk(st.Rhs[0])
								}
							}
							return true
						})
						for j, c := range chain {
							recs = append(recs, fmt.Sprintf("CALL %s %d %s", T, j, c))
						}
					default:
						recs = append(recs, "FUNC "+name)
					}
					continue
				}
				// methods
				T := strings.TrimPrefix(exprStr(fset, x.Recv.List[0].Type), "*")
				switch {
				case name == "Header" || name == "HeaderBuilder" || name == "Trailer" || name == "Entries":
					// fixed parts of the templates
				case name == "New" || name == "Build":
					res := ""
					if x.Type.Results != nil && len(x.Type.Results.List) == 1 {
						res = exprStr(fset, x.Type.Results.List[0].Type)
					}
					recs = append(recs, "BUILDER "+T+" "+name+" "+res)
				case name == "AddEntry":
					if len(x.Type.Params.List) == 1 {
						recs = append(recs, "GROUPENTRY "+T+" "+strings.TrimPrefix(exprStr(fset, x.Type.Params.List[0].Type), "*"))
					}
				case strings.HasPrefix(name, "SetField") && len(x.Type.Params.List) == 1:
					p := x.Type.Params.List[0]
					target := ""
					if c := findCall(x.Body, func(c *ast.CallExpr) bool { _, ok := c.Fun.(*ast.SelectorExpr); return ok }); c != nil {
						target = c.Fun.(*ast.SelectorExpr).Sel.Name
					}
					ok := target == "Set"+strings.TrimPrefix(name, "SetField")
					recs = append(recs, fmt.Sprintf("FLOW %s %s %s %s%s", T, strings.TrimPrefix(name, "SetField"), p.Names[0].Name, exprStr(fset, p.Type),
						map[bool]string{true: "", false: " calls:" + target}[ok]))
				case strings.HasPrefix(name, "Set") && len(x.Type.Params.List) == 1:
					if accs[T] == nil {
						accs[T] = map[string]*accessor{}
					}
					n := strings.TrimPrefix(name, "Set")
					a := accs[T][n]
					if a == nil {
						a = &accessor{}
						accs[T][n] = a
					}
					a.hasSet = true
					a.setIdx = indexOf(x.Body)
					a.setKind = kindOf(fset, x.Body)
					if len(x.Type.Params.List) == 1 {
						a.param = x.Type.Params.List[0].Names[0].Name
						a.setType = strings.TrimPrefix(exprStr(fset, x.Type.Params.List[0].Type), "*")
					}
				default:
					if accs[T] == nil {
						accs[T] = map[string]*accessor{}
					}
					a := accs[T][name]
					if a == nil {
						a = &accessor{}
						accs[T][name] = a
					}
					a.hasGet = true
					a.getIdx = indexOf(x.Body)
					a.getKind = kindOf(fset, x.Body)
					if x.Type.Results != nil && len(x.Type.Results.List) == 1 {
						a.getType = strings.TrimPrefix(exprStr(fset, x.Type.Results.List[0].Type), "*")
					}
				}
			}
		}
	}
	for T, k := range kinds {
		recs = append(recs, "KIND "+T+" "+k)
	}
	for T, m := range accs {
		for n, a := range m {
			if a.hasGet && a.hasSet && a.getIdx == a.setIdx && a.getKind == a.setKind && a.getType == a.setType {
				recs = append(recs, fmt.Sprintf("ACC %s %s %d %s %s %s", T, n, a.getIdx, a.getKind, a.getType, a.param))
			} else {
				recs = append(recs, fmt.Sprintf("ACCSPLIT %s %s get=%v:%d:%s:%s set=%v:%d:%s:%s:%s", T, n,
					a.hasGet, a.getIdx, a.getKind, a.getType, a.hasSet, a.setIdx, a.setKind, a.setType, a.param))
			}
		}
	}
	sort.Strings(recs)
	return recs, pkg, nil
}
