// gen: translation validation of the code generator (C12). For each schema -- the two shipped
// ones and schemas derived from them -- the real cmd/fixgen is run, its output is read back with
// go/parser into declaration records (to be compared with what the Coq model of the generator
// says for the same schema), compiled against the working tree, and exercised by a driver derived
// from the XML alone. Also: determinism, independence of the output directory, and the shipped
// reference package against a fresh generation.
package main

import (
	"bufio"
	"bytes"
	"encoding/json"
	"flag"
	"fmt"
	"os"
	"os/exec"
	"path/filepath"
	"sort"
	"strings"

	"github.com/b2broker/simplefix-go/generator"
	"github.com/b2broker/simplefix-go/utils"

	"verifharness/internal/rng"
)

type Rec struct {
	ID     int               `json:"id"`
	Mode   string            `json:"mode"`
	Case   string            `json:"case"`
	Impl   string            `json:"impl"`
	Oracle map[string]string `json:"oracle"`
	Tags   []string          `json:"tags,omitempty"`
	Size   int               `json:"size"`
	Skip   bool              `json:"skip"`
	Dir    string            `json:"dir,omitempty"`
	Schema string            `json:"schema,omitempty"`
}

var (
	fixgen = flag.String("fixgen", "", "path of the built cmd/fixgen")
	repo   = flag.String("repo", "/repo", "the library")
	work   = flag.String("work", "", "scratch module directory (go.mod with a replace to the library)")
)

func sameMembers(a, b []*XMember) bool {
	if len(a) != len(b) {
		return false
	}
	for i := range a {
		if a[i].XMLName.Local != b[i].XMLName.Local || a[i].Name != b[i].Name || a[i].Required != b[i].Required || !sameMembers(a[i].Members, b[i].Members) {
			return false
		}
	}
	return true
}

// groupRegistry: the generated type of a group name is built from its last occurrence; shadowed
// lists the occurrences whose members differ from it.
func groupRegistry(d *XDoc) (map[string]*XMember, []string) {
	reg := map[string]*XMember{}
	type occ struct {
		owner string
		m     *XMember
	}
	var occs []occ
	var walk func(owner string, ms []*XMember)
	walk = func(owner string, ms []*XMember) {
		for _, m := range ms {
			if m.XMLName.Local == "group" {
				occs = append(occs, occ{owner, m})
				reg[m.Name] = m
			}
			walk(owner, m.Members)
		}
	}
	for _, m := range d.Messages {
		walk("message "+m.Name, m.Members)
	}
	for _, c := range d.Components {
		walk("component "+c.Name, c.Members)
	}
	walk("header", d.Header.Members)
	walk("trailer", d.Trailer.Members)
	var shadowed []string
	for _, o := range occs {
		if !sameMembers(reg[o.m.Name].Members, o.m.Members) {
			shadowed = append(shadowed, o.m.Name+" in "+o.owner)
		}
	}
	return reg, shadowed
}

// runFixgen runs the real generator; class is ok / fail.
func runFixgen(outDir, schema, types, cwd string) (class string, msg string) {
	cmd := exec.Command(*fixgen, "-o", outDir, "-s", schema, "-t", types)
	cmd.Dir = cwd
	var buf bytes.Buffer
	cmd.Stdout = &buf
	cmd.Stderr = &buf
	if err := cmd.Run(); err != nil {
		s := buf.String()
		if i := strings.Index(s, "\n\ngoroutine"); i >= 0 {
			s = s[:i]
		}
		return "fail", strings.TrimSpace(s)
	}
	return "ok", ""
}

func dirDigest(dir string) (map[string]string, error) {
	out := map[string]string{}
	fs, err := filepath.Glob(filepath.Join(dir, "*.go"))
	if err != nil {
		return nil, err
	}
	for _, f := range fs {
		if strings.HasSuffix(f, "_test.go") {
			continue
		}
		b, err := os.ReadFile(f)
		if err != nil {
			return nil, err
		}
		out[filepath.Base(f)] = string(b)
	}
	return out, nil
}

func diffDigests(a, b map[string]string, ignorePkgClause bool) []string {
	var d []string
	norm := func(s string) string {
		if !ignorePkgClause {
			return s
		}
		lines := strings.Split(s, "\n")
		for i, l := range lines {
			if strings.HasPrefix(l, "package ") {
				lines[i] = "package _"
				break
			}
		}
		return strings.Join(lines, "\n")
	}
	for k, v := range a {
		w, ok := b[k]
		if !ok {
			d = append(d, "only in first: "+k)
		} else if norm(v) != norm(w) {
			d = append(d, "differs: "+k)
		}
	}
	for k := range b {
		if _, ok := a[k]; !ok {
			d = append(d, "only in second: "+k)
		}
	}
	sort.Strings(d)
	return d
}

type schemaCase struct {
	name  string
	doc   *XDoc
	cfg   *XConfig
	tags  []string
	drive bool
}

func main() {
	mode := flag.String("mode", "shipped", "shipped | derived | dirs | reference")
	seed := flag.Uint64("seed", 1, "seed")
	n := flag.Int("n", 20, "number of derived schemas")
	big := flag.Bool("big", false, "derive from the large test schema too")
	outPath := flag.String("out", "-", "output")
	flag.Parse()
	var out *bufio.Writer
	if *outPath == "-" {
		out = bufio.NewWriter(os.Stdout)
	} else {
		f, err := os.Create(*outPath)
		if err != nil {
			panic(err)
		}
		defer f.Close()
		out = bufio.NewWriter(f)
	}
	defer out.Flush()
	emit := func(r *Rec) {
		b, _ := json.Marshal(r)
		out.Write(b)
		out.WriteByte('\n')
		out.Flush()
	}
	must := func(err error) {
		if err != nil {
			panic(err)
		}
	}
	small, err := loadDoc(filepath.Join(*repo, "source/fix44.xml"))
	must(err)
	smallCfg, err := loadConfig(filepath.Join(*repo, "source/types.xml"))
	must(err)
	large, err := loadDoc(filepath.Join(*repo, "generator/testdata/fix.4.4.xml"))
	must(err)
	largeCfg, err := loadConfig(filepath.Join(*repo, "generator/testdata/types.xml"))
	must(err)
	// the large schema ships with one deliberate duplicate message type: remove the later one
	seen := map[string]bool{}
	var ms []*XComp
	var removed []string
	for _, m := range large.Messages {
		if seen[m.MsgType] {
			removed = append(removed, m.Name)
			continue
		}
		seen[m.MsgType] = true
		ms = append(ms, m)
	}
	largeDup := cloneDoc(large)
	large.Messages = ms

	must(os.MkdirAll(*work, 0o755))

	var cases []schemaCase
	switch *mode {
	case "shipped":
		cases = append(cases, schemaCase{"source-fix44", small, smallCfg, []string{"shipped:source/fix44.xml"}, true})
		cases = append(cases, schemaCase{"testdata-fix44", large, largeCfg, []string{"shipped:generator/testdata/fix.4.4.xml", "removed-duplicate:" + strings.Join(removed, ",")}, true})
		cases = append(cases, schemaCase{"testdata-fix44-asis", largeDup, largeCfg, []string{"shipped-as-is:duplicate msgtype", "bad:dup-msgtype"}, false})
	case "derived":
		r := rng.New(*seed)
		for i := 0; i < *n; i++ {
			base, cfg, nm := small, smallCfg, "small"
			if *big && i%5 == 4 {
				base, cfg, nm = large, largeCfg, "large"
			}
			malformed := i%4 == 3
			d, c, tags := Derive(base, cfg, r.Fork(), 1+r.Intn(6), malformed, i/4+int(*seed))
			cases = append(cases, schemaCase{fmt.Sprintf("derived%d", i), d, c, append([]string{"base:" + nm}, tags...), !malformed})
		}
	}

	id := 0
	fatSize := 0
	inproc := 0  // cases generated in-process so far
	verDirs := 0 // cases also generated into version-like directories
	fatPkg := "" // the first package generated in this run; later cases are also regenerated over a copy of it
	for _, sc := range cases {
		id++
		dir := filepath.Join(*work, fmt.Sprintf("s%d_%s", *seed, sc.name))
		_ = os.RemoveAll(dir)
		must(os.MkdirAll(dir, 0o755))
		sx, tx := filepath.Join(dir, "schema.xml"), filepath.Join(dir, "types.xml")
		must(writeXML(sx, sc.doc))
		must(writeXML(tx, sc.cfg))
		// what the generator reads is the file just written: reload it so that the case line
		// describes exactly that file
		d2, err := loadDoc(sx)
		must(err)
		c2, err := loadConfig(tx)
		must(err)
		pkgDir := filepath.Join(dir, "fixpkg")
		class, msg := runFixgen(pkgDir, sx, tx, dir)
		rec := &Rec{ID: id, Mode: *mode, Case: GenLine(d2, c2), Oracle: map[string]string{}, Tags: sc.tags,
			Size: len(d2.Messages) + len(d2.Components) + len(d2.Fields), Dir: pkgDir, Schema: sx}
		rec.Impl = class
		if class == "ok" {
			recs, pkg, err := Summarise(pkgDir)
			if err != nil {
				rec.Oracle["C12"] = "fail: " + err.Error()
			} else {
				rec.Impl = "ok ; PKG " + pkg + " ; " + strings.Join(recs, " ; ")
				reg, shadowed := groupRegistry(d2)
				if len(shadowed) > 0 {
					rec.Tags = append(rec.Tags, "shadowed-groups")
					rec.Oracle["shadowed"] = strings.Join(shadowed, "|")
				}
				if sc.drive {
					must(os.WriteFile(filepath.Join(pkgDir, "zz_driver_test.go"), []byte(Driver(d2, c2, pkg, reg)), 0o644))
				}
				// determinism: a second run into another directory of the same name
				dir2 := filepath.Join(dir, "again", "fixpkg")
				if cl2, m2 := runFixgen(dir2, sx, tx, dir); cl2 != "ok" {
					rec.Oracle["C12"] = "fail: the second run of the generator on the same schema failed: " + m2
				} else {
					a, _ := dirDigest(pkgDir)
					b, _ := dirDigest(dir2)
					if df := diffDigests(a, b, false); len(df) > 0 {
						rec.Oracle["C12"] = "fail: two runs on the same schema differ: " + strings.Join(df, ", ")
					}
					// where the outcome could depend on an iteration order, more runs
					twin := false
					for _, t := range sc.tags {
						if t == "twin-groups" {
							twin = true
						}
					}
					for k := 0; twin && k < 7; k++ {
						_ = os.RemoveAll(filepath.Join(dir, "again"))
						if clk, mk := runFixgen(dir2, sx, tx, dir); clk != "ok" {
							rec.Oracle["C12"] = "fail: a repeated run of the generator on the same schema failed: " + mk
							break
						}
						bk, _ := dirDigest(dir2)
						if df := diffDigests(a, bk, false); len(df) > 0 {
							rec.Oracle["C12"] = fmt.Sprintf("fail: run %d on the same schema differs from the first: %s", k+3, strings.Join(df, ", "))
							break
						}
					}
					// relative output directory (as the README uses it) and nested one
					relOut := "./rel-out/fixpkg"
					if cl3, m3 := runFixgen(relOut, sx, tx, dir); cl3 != "ok" {
						rec.Oracle["C12"] = "fail: generation into the nested relative directory " + relOut + " failed: " + firstLine(m3)
					} else {
						c3, _ := dirDigest(filepath.Join(dir, "rel-out", "fixpkg"))
						if df := diffDigests(a, c3, false); len(df) > 0 {
							rec.Oracle["C12"] = "fail: the package generated into a nested relative directory differs: " + strings.Join(df, ", ")
						}
						_ = os.RemoveAll(filepath.Join(dir, "rel-out"))
					}
					// the package is named after the last element of the output directory, whatever that
					// element looks like and whatever its parent is called: two directories v2 under
					// different parents hold the same package
					if verDirs < 4 {
						verDirs++
						rec.Tags = append(rec.Tags, "version-like-directory")
						var first map[string]string
						for _, parent := range []string{"alpha", "fix44"} {
							vd := filepath.Join(dir, "ver", parent, "v2")
							if cl6, m6 := runFixgen(vd, sx, tx, dir); cl6 != "ok" {
								rec.Oracle["C12"] = "fail: generation into " + parent + "/v2 failed: " + firstLine(m6)
								break
							}
							_, pkg6, err6 := Summarise(vd)
							c6, _ := dirDigest(vd)
							switch {
							case err6 != nil:
								rec.Oracle["C12"] = "fail: " + parent + "/v2: " + err6.Error()
							case pkg6 != "v2":
								rec.Oracle["C12"] = "fail: the package generated into " + parent + "/v2 is named " + pkg6 + ", the directory is named v2"
							case first != nil:
								if df := diffDigests(first, c6, false); len(df) > 0 {
									rec.Oracle["C12"] = "fail: the packages generated into alpha/v2 and fix44/v2 differ: " + strings.Join(df, ", ")
								}
							}
							first = c6
						}
						_ = os.RemoveAll(filepath.Join(dir, "ver"))
					}
					_ = os.RemoveAll(filepath.Join(dir, "again"))
					// the library used the way a build tool uses it: the schema parsed once, generated into
					// two directories in one process; both are what the command-line run produced
					if inproc < 6 {
						inproc++
						rec.Tags = append(rec.Tags, "in-process-twice")
						da, db := filepath.Join(dir, "inproc-a", "fixpkg"), filepath.Join(dir, "inproc-b", "fixpkg")
						if m5 := generateTwiceInProcess(sx, tx, da, db); m5 != "" {
							rec.Oracle["C12"] = "fail: the schema parsed once and generated twice in one process: " + m5
						} else {
							for _, dd := range []string{da, db} {
								c5, _ := dirDigest(dd)
								if df := diffDigests(a, c5, false); len(df) > 0 {
									rec.Oracle["C12"] = "fail: generated in-process from the schema parsed once (" + filepath.Base(filepath.Dir(dd)) + "), the package differs from the command-line run: " + strings.Join(df, ", ")
									break
								}
							}
						}
						_ = os.RemoveAll(filepath.Join(dir, "inproc-a"))
						_ = os.RemoveAll(filepath.Join(dir, "inproc-b"))
					}
					// regeneration into a directory that already holds a generated package (the first
					// package of this run): every file the generator writes is what a fresh directory gets
					size := 0
					for _, h := range a {
						size += len(h)
					}
					if fatPkg == "" {
						fatPkg, fatSize = pkgDir, size
					} else {
						over := filepath.Join(dir, "over", "fixpkg")
						must(copyDir(fatPkg, over))
						if cl4, m4 := runFixgen(over, sx, tx, dir); cl4 != "ok" {
							rec.Oracle["C12"] = "fail: generation into a directory that already holds a package failed: " + firstLine(m4)
						} else {
							c4, _ := dirDigest(over)
							for name, h := range a {
								if c4[name] != h {
									rec.Oracle["C12"] = "fail: regenerated into a directory that already held a generated package, " + name + " differs from what a fresh directory gets"
									break
								}
							}
						}
						_ = os.RemoveAll(filepath.Join(dir, "over"))
						if size > fatSize { // keep the largest package seen: overwriting it shrinks most files
							fatPkg, fatSize = pkgDir, size
						}
					}
				}
				if _, bad := rec.Oracle["C12"]; !bad {
					rec.Oracle["C12"] = "ok"
				}
			}
		} else {
			rec.Impl = "fail"
			rec.Tags = append(rec.Tags, "generator-message:"+firstLine(msg))
			rec.Oracle["C12"] = "ok"
			expectFail := false
			for _, t := range sc.tags {
				if strings.HasPrefix(t, "bad:") {
					expectFail = true
				}
			}
			if !expectFail && *mode == "shipped" {
				rec.Oracle["C12"] = "fail: the generator rejects a shipped schema: " + firstLine(msg)
			}
			_ = os.RemoveAll(pkgDir)
		}
		emit(rec)
	}

	if *mode == "reference" {
		// the package shipped in the repository against a fresh generation from the reference schema
		dir := filepath.Join(*work, "reference")
		_ = os.RemoveAll(dir)
		must(os.MkdirAll(dir, 0o755))
		rec := &Rec{ID: 1, Mode: "reference", Case: "tests/fix44 vs fixgen -s source/fix44.xml -t source/types.xml", Oracle: map[string]string{}, Skip: true}
		class, msg := runFixgen(filepath.Join(dir, "fix44"), filepath.Join(*repo, "source/fix44.xml"), filepath.Join(*repo, "source/types.xml"), dir)
		if class != "ok" {
			rec.Oracle["C12"] = "fail: the generator fails on the reference schema: " + firstLine(msg)
		} else {
			a, _, err1 := Summarise(filepath.Join(dir, "fix44"))
			b, _, err2 := Summarise(filepath.Join(*repo, "tests/fix44"))
			if err1 != nil || err2 != nil {
				rec.Oracle["C12"] = fmt.Sprintf("fail: %v %v", err1, err2)
			} else {
				as, bs := map[string]bool{}, map[string]bool{}
				for _, x := range a {
					as[x] = true
				}
				for _, x := range b {
					bs[x] = true
				}
				var df []string
				for _, x := range a {
					if !bs[x] {
						df = append(df, "generated only: "+x)
					}
				}
				for _, x := range b {
					if !as[x] {
						df = append(df, "shipped only: "+x)
					}
				}
				rec.Size = len(a)
				rec.Impl = fmt.Sprintf("generated=%d shipped=%d differing=%d", len(a), len(b), len(df))
				if len(df) > 0 {
					if len(df) > 12 {
						df = df[:12]
					}
					rec.Oracle["C12"] = "fail: tests/fix44 does not correspond to what the generator produces from source/fix44.xml: " + strings.Join(df, " | ")
				} else {
					rec.Oracle["C12"] = "ok"
				}
			}
		}
		_ = os.RemoveAll(dir)
		emit(rec)
	}
}

// generateTwiceInProcess parses the schema and the type mapping once and runs the generator on the
// parsed objects twice, into two directories of the same base name; "" when both runs succeeded.
func generateTwiceInProcess(schema, types, dirA, dirB string) (msg string) {
	defer func() {
		if e := recover(); e != nil {
			msg = fmt.Sprintf("panic: %v", e)
		}
	}()
	doc := &generator.Doc{}
	if err := utils.ParseXML(schema, doc); err != nil {
		return "schema: " + err.Error()
	}
	config := &generator.Config{}
	if err := utils.ParseXML(types, config); err != nil {
		return "types: " + err.Error()
	}
	for k, d := range []string{dirA, dirB} {
		if err := os.MkdirAll(d, 0o755); err != nil {
			return err.Error()
		}
		if err := generator.NewGenerator(doc, config, filepath.Base(d)).Execute(d); err != nil {
			return fmt.Sprintf("run %d failed: %v", k+1, err)
		}
	}
	return ""
}

func copyDir(from, to string) error {
	if err := os.MkdirAll(to, 0o755); err != nil {
		return err
	}
	ents, err := os.ReadDir(from)
	if err != nil {
		return err
	}
	for _, e := range ents {
		if e.IsDir() || strings.HasPrefix(e.Name(), "zz_") {
			continue
		}
		b, err := os.ReadFile(filepath.Join(from, e.Name()))
		if err != nil {
			return err
		}
		if err := os.WriteFile(filepath.Join(to, e.Name()), b, 0o644); err != nil {
			return err
		}
	}
	return nil
}

func firstLine(s string) string {
	if i := strings.Index(s, "\n"); i >= 0 {
		s = s[:i]
	}
	if len(s) > 300 {
		s = s[:300]
	}
	return s
}
